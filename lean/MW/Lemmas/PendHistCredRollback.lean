/-
  C09 history-level refinement, the pending-credit and unmined-deposit buckets, part 5: ROLLBACK.

  The per-record loop of Rollback (`rbStep`) RE-CREATES the records of the un-confirmed transactions:
    rollbackOut   writes `pendCred (id, j) := unminedOfMined cr` for the mined credit `cr` under (id, block, j), and
                  `pendGame (w, isBinding, id, j)` when output `j` is a staking / binding output paying an owned address
    rollbackIn    rewrites credits of OTHER outputs in place (spent := false): amount, class, script hash stay (`cv`)
    rollbackCbOut leaves both buckets alone
  `CredGrow own blk T s s'` states what a run over the set `T` of transactions does to the two buckets, in terms of the
  credit table at the START (`cv s`: amount / class / script hash by key); it composes (`CredGrow.trans`, ids of the two
  sets disjoint), `rbLoopC` is the loop.  The values come from C01 (`CredVal.inv_credit_value_block`: amount, class and
  script hash of a mined credit are those of the output; a credit exists only for an owned output; `inv_cb_credits`:
  every owned output of the tip block has one), hence `rollback_cred`: right before the purge the credit relation holds
  for `P ++` the un-confirmed transactions.  The purge is a credit frame (`purgeFold_cfr`), so `disconnect_cred`; with it
  the history theorem needs no hypothesis about the relation any more (`hinvc_run_full`).
-/
import MW.Lemmas.PendHistCredRun
import MW.Lemmas.LedgerCredVal
namespace MW.Lemmas.PendHist.CredRb
open MW MW.Model.Ledger MW.Spec.Pending MW.Lemmas.LedgerPending MW.Lemmas.Ledger MW.Lemmas.PendHist
open MW.Lemmas.PendHist.Cred MW.Lemmas.Ledger.CredVal

-- ------------------------------------------------------------------ an indexed fold that knows its elements

theorem foldIdxM_ok_inv_get {α β : Type} (P : Nat → β → Prop) (f : β → Nat → α → M β) (l0 : List α) :
    ∀ (l : List α) (n : Nat) (b r : β), (∀ k x, l[k]? = some x → l0[n + k]? = some x) → P n b →
      (∀ a i x b', l0[i]? = some x → P i a → f a i x = .ok b' → P (i + 1) b') →
      foldIdxM f l n b = .ok r → P (n + l.length) r := by
  intro l
  induction l with
  | nil => intro n b r _ hb _ h; simp [foldIdxM, pure, Except.pure] at h; rw [← h]; exact hb
  | cons x l ih =>
    intro n b r hl hb hstep h
    simp only [foldIdxM, bind, Except.bind] at h
    cases hf : f b n x with
    | error e => rw [hf] at h; cases h
    | ok b' =>
      rw [hf] at h
      have h0 : l0[n]? = some x := by simpa using hl 0 x (by simp)
      have := ih (n + 1) b' r (fun k y hk => by
        have := hl (k + 1) y (by simpa using hk)
        rw [show n + 1 + k = n + (k + 1) by omega]; exact this) (hstep b n x b' h0 hb hf) hstep h
      rw [List.length_cons, show n + (l.length + 1) = n + 1 + l.length by omega]
      exact this

-- ------------------------------------------------------------------ what Rollback reads of a credit

/-- amount, class and script hash of the credit under a key -/
def cv (s : Store) (k : CredKey) : Option (Nat × UClass × Addr) :=
  (AMap.get s.credits k).map (fun cr => (cr.amt, cr.cls, cr.sh))

theorem cv_congr {s s' : Store} {k : CredKey} (h : AMap.get s'.credits k = AMap.get s.credits k) : cv s' k = cv s k := by
  unfold cv; rw [h]

theorem cv_some {s : Store} {k : CredKey} {v : Nat × UClass × Addr} (h : cv s k = some v) :
    ∃ cr, AMap.get s.credits k = some cr ∧ v = (cr.amt, cr.cls, cr.sh) := by
  unfold cv at h
  cases hg : AMap.get s.credits k with
  | none => rw [hg] at h; cases h
  | some cr => rw [hg] at h; exact ⟨cr, rfl, by injection h with h; exact h.symm⟩

theorem cv_isSome {s : Store} {k : CredKey} : (cv s k).isSome = (AMap.get s.credits k).isSome := by
  unfold cv; cases AMap.get s.credits k <;> rfl

/-- Rollback, input loop body: the two buckets are untouched; a credit is only rewritten in place, flags only -/
theorem rollbackIn_cred (c : Ctx) (id : TxId) (blk : BlockMeta) (sb sb' : Store × Bals) (cur : Nat) (i : Inp)
    (h : rollbackIn c id blk sb cur i = .ok sb') :
    sb'.1.pendGame = sb.1.pendGame ∧
    (sb'.1.credits = sb.1.credits ∨
      ∃ ck cr, AMap.get sb.1.credits ck = some cr ∧
        sb'.1.credits = AMap.put sb.1.credits ck { cr with spent := false, spentBy := none }) := by
  unfold rollbackIn at h
  repeat' (first | cases h | split at h | simp only [] at h)
  all_goals first
    | exact ⟨rfl, Or.inl rfl⟩
    | exact ⟨rfl, Or.inr ⟨_, _, ‹_›, rfl⟩⟩

theorem rollbackIn_cv (c : Ctx) (id : TxId) (blk : BlockMeta) (sb sb' : Store × Bals) (cur : Nat) (i : Inp)
    (h : rollbackIn c id blk sb cur i = .ok sb') (k : CredKey) : cv sb'.1 k = cv sb.1 k := by
  obtain ⟨_, h2⟩ := rollbackIn_cred c id blk sb sb' cur i h
  unfold cv
  rcases h2 with h2 | ⟨ck, cr, hg, h2⟩
  · rw [h2]
  · rw [h2, AMap.get_put]
    split
    · rename_i hk; rw [← hk, hg]; rfl
    · rfl

/-- the input loop of Rollback as a whole -/
theorem rollbackIns_cred (c : Ctx) (id : TxId) (blk : BlockMeta) (ins : List Inp) (n : Nat) (sb r : Store × Bals)
    (h : foldIdxM (rollbackIn c id blk) ins n sb = .ok r) :
    r.1.pendCred = sb.1.pendCred ∧ r.1.pendGame = sb.1.pendGame ∧ ∀ k, cv r.1 k = cv sb.1 k :=
  foldIdxM_ok_inv (fun _ (a : Store × Bals) =>
      a.1.pendCred = sb.1.pendCred ∧ a.1.pendGame = sb.1.pendGame ∧ ∀ k, cv a.1 k = cv sb.1 k)
    (rollbackIn c id blk) ins n sb r ⟨rfl, rfl, fun _ => rfl⟩ (by
      intro a i x b' ⟨p1, p2, p3⟩ hf
      exact ⟨(rollbackIn_ok c id blk a b' i x hf).2.1.trans p1, (rollbackIn_cred c id blk a b' i x hf).1.trans p2,
        fun k => (rollbackIn_cv c id blk a b' i x hf k).trans (p3 k)⟩) h

/-- Rollback, output loop body: the deposit bucket -/
theorem rollbackOut_game (c : Ctx) (id : TxId) (blk : BlockMeta) (sb sb' : Store × Bals) (j : Nat) (o : Out)
    (h : rollbackOut c id blk sb j o = .ok sb') :
    sb'.1.pendGame = (match AMap.get sb.1.credits ⟨id, blk, j⟩ with
      | none => sb.1.pendGame
      | some _ => match AMap.get c.own o.addr with
        | none => sb.1.pendGame
        | some wc => if (o.cls.isStaking || o.cls.isBinding) = true
            then AMap.put sb.1.pendGame (wc.1, o.cls.isBinding, id, j) () else sb.1.pendGame) := by
  unfold rollbackOut at h
  simp only [] at h
  cases hc : AMap.get sb.1.credits ⟨id, blk, j⟩ with
  | none =>
    rw [hc] at h
    simp only [pure, Except.pure, Except.ok.injEq] at h
    subst h
    rfl
  | some cr =>
    rw [hc] at h
    simp only [] at h
    split at h
    · cases h
    · cases hown : AMap.get c.own o.addr with
      | none =>
        rw [hown] at h
        simp only [pure, Except.pure, Except.ok.injEq] at h
        subst h
        rfl
      | some wc =>
        obtain ⟨w, ch⟩ := wc
        rw [hown] at h
        simp only [bind, Except.bind] at h
        split at h
        · cases h
        · rename_i sb1 hoo
          have hk := rollbackOwnedOut_keep _ _ _ _ _ _ _ hoo
          simp only [rbKeep, Prod.mk.injEq] at hk
          obtain ⟨_, _, _, k4, _⟩ := hk
          split at h
          · rename_i hsb
            simp only [pure, Except.pure, Except.ok.injEq] at h
            subst h
            simp only [hsb, if_true]
            show AMap.put sb1.1.pendGame _ _ = _
            rw [k4]
          · rename_i hsb
            simp only [pure, Except.pure, Except.ok.injEq] at h
            subst h
            simp only [hsb]
            exact k4

/-- a credit is removed by the output loop only after the script of the output was parsed -/
theorem rollbackOut_notraw (c : Ctx) (id : TxId) (blk : BlockMeta) (sb sb' : Store × Bals) (j : Nat) (o : Out)
    (h : rollbackOut c id blk sb j o = .ok sb') (hc : (AMap.get sb.1.credits ⟨id, blk, j⟩).isSome = true) :
    o.cls ≠ .raw := by
  unfold rollbackOut at h
  simp only [] at h
  cases hg : AMap.get sb.1.credits ⟨id, blk, j⟩ with
  | none => rw [hg] at hc; cases hc
  | some cr =>
    rw [hg] at h
    simp only [] at h
    split at h
    · cases h
    · assumption


-- ------------------------------------------------------------------ what a run of Rollback does to the two buckets

/-- `CredGrow own blk T s s'`: from `s` to `s'` the records of the non-coinbase transactions in `T` (rolled back out of
    block `blk`) were re-created from the credit table of `s`, nothing else happened to the two buckets, and the
    credits of transactions outside `T` keep amount / class / script hash -/
structure CredGrow (own : Own) (blk : BlockMeta) (T : Tx → Prop) (s s' : Store) : Prop where
  cvo : ∀ key : CredKey, (∀ t, T t → key.tx ≠ t.id) → cv s' key = cv s key
  pcs : ∀ key cr, AMap.get s'.pendCred key = some cr → AMap.get s.pendCred key = some cr ∨
    ∃ t, T t ∧ t.cb = false ∧ key.1 = t.id ∧ key.2 < t.outs.length ∧
      cv s ⟨t.id, blk, key.2⟩ = some (cr.amt, cr.cls, cr.sh)
  pcm : ∀ key, (AMap.get s.pendCred key).isSome = true → (AMap.get s'.pendCred key).isSome = true
  pcc : ∀ t, T t → t.cb = false → ∀ j, j < t.outs.length → (cv s ⟨t.id, blk, j⟩).isSome = true →
    (AMap.get s'.pendCred (t.id, j)).isSome = true
  pgs : ∀ w bb i j, (AMap.get s'.pendGame (w, bb, i, j)).isSome = true →
    (AMap.get s.pendGame (w, bb, i, j)).isSome = true ∨ ∃ t, T t ∧ t.cb = false ∧ i = t.id ∧ GameOut own t j w bb
  pgm : ∀ key, (AMap.get s.pendGame key).isSome = true → (AMap.get s'.pendGame key).isSome = true
  pgc : ∀ t, T t → t.cb = false → ∀ j w bb, GameOut own t j w bb → (cv s ⟨t.id, blk, j⟩).isSome = true →
    (AMap.get s'.pendGame (w, bb, t.id, j)).isSome = true

theorem CredGrow.refl (own : Own) (blk : BlockMeta) (s : Store) : CredGrow own blk (fun _ => False) s s :=
  ⟨fun _ _ => rfl, fun _ _ h => Or.inl h, fun _ h => h, fun _ h => h.elim, fun _ _ _ _ h => Or.inl h, fun _ h => h,
    fun _ h => h.elim⟩

/-- nothing happened to the two buckets, and the credits of transactions outside `T` keep their values -/
theorem CredGrow.of_keep {own : Own} {blk : BlockMeta} {T : Tx → Prop} {s s' : Store}
    (hcv : ∀ key : CredKey, (∀ t, T t → key.tx ≠ t.id) → cv s' key = cv s key)
    (hcb : ∀ t, T t → t.cb = true)
    (h1 : s'.pendCred = s.pendCred) (h2 : s'.pendGame = s.pendGame) : CredGrow own blk T s s' :=
  ⟨hcv, fun _ _ h => Or.inl (by rw [← h1]; exact h), fun _ h => (by rw [h1]; exact h),
    fun t ht hc => (by rw [hcb t ht] at hc; cases hc),
    fun _ _ _ _ h => Or.inl (by rw [← h2]; exact h), fun _ h => (by rw [h2]; exact h),
    fun t ht hc => (by rw [hcb t ht] at hc; cases hc)⟩

theorem CredGrow.congr {own : Own} {blk : BlockMeta} {T T' : Tx → Prop} {s s' : Store} (h : CredGrow own blk T s s')
    (hT : ∀ t, T' t ↔ T t) : CredGrow own blk T' s s' := by
  refine ⟨fun key hk => h.cvo key (fun t ht => hk t ((hT t).2 ht)), fun key cr hg => ?_, h.pcm,
    fun t ht => h.pcc t ((hT t).1 ht), fun w bb i j hg => ?_, h.pgm, fun t ht => h.pgc t ((hT t).1 ht)⟩
  · rcases h.pcs key cr hg with h1 | ⟨t, ht, h1⟩
    · exact Or.inl h1
    · exact Or.inr ⟨t, (hT t).2 ht, h1⟩
  · rcases h.pgs w bb i j hg with h1 | ⟨t, ht, h1⟩
    · exact Or.inl h1
    · exact Or.inr ⟨t, (hT t).2 ht, h1⟩

/-- two runs over sets of transactions with disjoint ids compose -/
theorem CredGrow.trans {own : Own} {blk : BlockMeta} {T1 T2 : Tx → Prop} {s s1 s2 : Store}
    (h1 : CredGrow own blk T1 s s1) (h2 : CredGrow own blk T2 s1 s2)
    (hdis : ∀ t1 t2, T1 t1 → T2 t2 → t2.id ≠ t1.id) : CredGrow own blk (fun t => T1 t ∨ T2 t) s s2 := by
  have hcv2 : ∀ t2, T2 t2 → ∀ j, cv s1 ⟨t2.id, blk, j⟩ = cv s ⟨t2.id, blk, j⟩ :=
    fun t2 ht2 j => h1.cvo _ (fun t1 ht1 => hdis t1 t2 ht1 ht2)
  refine ⟨fun key hk => ?_, fun key cr hg => ?_, fun key hg => h2.pcm key (h1.pcm key hg), fun t ht hcb j hj hc => ?_,
    fun w bb i j hg => ?_, fun key hg => h2.pgm key (h1.pgm key hg), fun t ht hcb j w bb hgo hc => ?_⟩
  · exact (h2.cvo key (fun t ht => hk t (Or.inr ht))).trans (h1.cvo key (fun t ht => hk t (Or.inl ht)))
  · rcases h2.pcs key cr hg with hg1 | ⟨t, ht, q1, q2, q3, q4⟩
    · rcases h1.pcs key cr hg1 with hg0 | ⟨t, ht, q⟩
      · exact Or.inl hg0
      · exact Or.inr ⟨t, Or.inl ht, q⟩
    · exact Or.inr ⟨t, Or.inr ht, q1, q2, q3, by rw [← hcv2 t ht]; exact q4⟩
  · rcases ht with ht | ht
    · exact h2.pcm _ (h1.pcc t ht hcb j hj hc)
    · exact h2.pcc t ht hcb j hj (by rw [hcv2 t ht]; exact hc)
  · rcases h2.pgs w bb i j hg with hg1 | ⟨t, ht, q⟩
    · rcases h1.pgs w bb i j hg1 with hg0 | ⟨t, ht, q⟩
      · exact Or.inl hg0
      · exact Or.inr ⟨t, Or.inl ht, q⟩
    · exact Or.inr ⟨t, Or.inr ht, q⟩
  · rcases ht with ht | ht
    · exact h2.pgm _ (h1.pgc t ht hcb j w bb hgo hc)
    · exact h2.pgc t ht hcb j w bb hgo (by rw [hcv2 t ht]; exact hc)

-- ------------------------------------------------------------------ the output loop of one non-coinbase record

theorem credKey_ne {id : TxId} {blk : BlockMeta} {j k : Nat} (h : j ≠ k) : (⟨id, blk, j⟩ : CredKey) ≠ ⟨id, blk, k⟩ := by
  intro hc; injection hc with _ _ hc; exact h hc

/-- THE OUTPUT LOOP of Rollback for the non-coinbase transaction `tx`, from the state the input loop left -/
theorem rollbackOuts_cred (c : Ctx) (blk : BlockMeta) (tx : Tx) (sb1 r : Store × Bals) (hcb : tx.cb = false)
    (h : foldIdxM (rollbackOut c tx.id blk) tx.outs 0 sb1 = .ok r) :
    CredGrow c.own blk (fun t => t = tx) sb1.1 r.1 := by
  have key := foldIdxM_ok_inv_get (fun k (a : Store × Bals) =>
      (∀ ck : CredKey, ck.tx ≠ tx.id → AMap.get a.1.credits ck = AMap.get sb1.1.credits ck) ∧
      (∀ j, k ≤ j → AMap.get a.1.credits ⟨tx.id, blk, j⟩ = AMap.get sb1.1.credits ⟨tx.id, blk, j⟩) ∧
      (∀ ky cr, AMap.get a.1.pendCred ky = some cr → AMap.get sb1.1.pendCred ky = some cr ∨
        (ky.1 = tx.id ∧ ky.2 < k ∧ cv sb1.1 ⟨tx.id, blk, ky.2⟩ = some (cr.amt, cr.cls, cr.sh))) ∧
      (∀ ky, (AMap.get sb1.1.pendCred ky).isSome = true → (AMap.get a.1.pendCred ky).isSome = true) ∧
      (∀ j, j < k → (cv sb1.1 ⟨tx.id, blk, j⟩).isSome = true → (AMap.get a.1.pendCred (tx.id, j)).isSome = true) ∧
      (∀ w bb i j, (AMap.get a.1.pendGame (w, bb, i, j)).isSome = true →
        (AMap.get sb1.1.pendGame (w, bb, i, j)).isSome = true ∨ (i = tx.id ∧ GameOut c.own tx j w bb)) ∧
      (∀ ky, (AMap.get sb1.1.pendGame ky).isSome = true → (AMap.get a.1.pendGame ky).isSome = true) ∧
      (∀ j w bb, j < k → GameOut c.own tx j w bb → (cv sb1.1 ⟨tx.id, blk, j⟩).isSome = true →
        (AMap.get a.1.pendGame (w, bb, tx.id, j)).isSome = true))
    (rollbackOut c tx.id blk) tx.outs tx.outs 0 sb1 r (fun k x hk => by simpa using hk)
    ⟨fun _ _ => rfl, fun _ _ => rfl, fun _ _ hg => Or.inl hg, fun _ hg => hg, fun _ hj => by omega,
      fun _ _ _ _ hg => Or.inl hg, fun _ hg => hg, fun _ _ _ hj => by omega⟩ ?_ h
  · obtain ⟨p1, -, p3, p4, p5, p6, p7, p8⟩ := key
    simp only [Nat.zero_add] at p3 p5 p8
    refine ⟨fun ck hk => cv_congr (p1 ck (hk tx rfl)), fun ky cr hg => ?_, p4, fun t ht _ j hj hc => ?_,
      fun w bb i j hg => ?_, p7, fun t ht _ j w bb hgo hc => ?_⟩
    · rcases p3 ky cr hg with h1 | ⟨h1, h2, h3⟩
      · exact Or.inl h1
      · exact Or.inr ⟨tx, rfl, hcb, h1, h2, h3⟩
    · subst ht; exact p5 j hj hc
    · rcases p6 w bb i j hg with h1 | ⟨h1, h2⟩
      · exact Or.inl h1
      · exact Or.inr ⟨tx, rfl, hcb, h1, h2⟩
    · subst ht
      obtain ⟨o, ch, ho, _⟩ := hgo
      exact p8 j w bb (List.getElem?_eq_some_iff.1 ho).1 ⟨o, ch, ho, ‹_›⟩ hc
  · intro a k o b' hko ⟨p1, p2, p3, p4, p5, p6, p7, p8⟩ hf
    obtain ⟨-, -, q3, -, q5⟩ := rollbackOut_ok c tx.id blk a b' k o hf
    have qg := rollbackOut_game c tx.id blk a b' k o hf
    have hak : AMap.get a.1.credits ⟨tx.id, blk, k⟩ = AMap.get sb1.1.credits ⟨tx.id, blk, k⟩ := p2 k (Nat.le_refl _)
    -- the pending-credit bucket after this step
    have hpc : ∀ ky, AMap.get b'.1.pendCred ky =
        if (tx.id, k) = ky then (match AMap.get sb1.1.credits ⟨tx.id, blk, k⟩ with
          | none => AMap.get a.1.pendCred ky
          | some cr => some (unminedOfMined cr)) else AMap.get a.1.pendCred ky := by
      intro ky
      rw [q5, hak]
      cases hg : AMap.get sb1.1.credits ⟨tx.id, blk, k⟩ with
      | none => simp
      | some cr => simp only [AMap.get_put]; rfl
    -- the deposit bucket after this step
    have hpg : ∀ ky, (AMap.get b'.1.pendGame ky).isSome = true →
        (AMap.get a.1.pendGame ky).isSome = true ∨
        (∃ wc, AMap.get c.own o.addr = some wc ∧ (o.cls.isStaking || o.cls.isBinding) = true ∧
          ky = (wc.1, o.cls.isBinding, tx.id, k)) := by
      intro ky hg
      rw [qg] at hg
      split at hg
      · exact Or.inl hg
      · split at hg
        · exact Or.inl hg
        · rename_i wc hown
          split at hg
          · rename_i hsb
            rw [AMap.get_put] at hg
            split at hg
            · rename_i hk; exact Or.inr ⟨wc, hown, hsb, hk.symm⟩
            · exact Or.inl hg
          · exact Or.inl hg
    have hpgm : ∀ ky, (AMap.get a.1.pendGame ky).isSome = true → (AMap.get b'.1.pendGame ky).isSome = true := by
      intro ky hg
      rw [qg]
      split
      · exact hg
      · split
        · exact hg
        · split
          · rw [AMap.get_put]; split
            · rfl
            · exact hg
          · exact hg
    refine ⟨fun ck hk => ?_, fun j hj => ?_, fun ky cr hg => ?_, fun ky hg => ?_, fun j hj hc => ?_,
      fun w bb i j hg => ?_, fun ky hg => hpgm ky (p7 ky hg), fun j w bb hj hgo hc => ?_⟩
    · exact (q3 ck (fun hc => hk (by rw [hc]))).trans (p1 ck hk)
    · exact (q3 _ (credKey_ne (by omega))).trans (p2 j (by omega))
    · rw [hpc] at hg
      split at hg
      · rename_i hky
        cases hs : AMap.get sb1.1.credits ⟨tx.id, blk, k⟩ with
        | none =>
          rw [hs] at hg
          rcases p3 ky cr hg with h1 | ⟨h1, h2, h3⟩
          · exact Or.inl h1
          · exact Or.inr ⟨h1, by omega, h3⟩
        | some cr0 =>
          rw [hs] at hg
          simp only [Option.some.injEq] at hg
          refine Or.inr ⟨by rw [← hky], by rw [← hky]; exact Nat.lt_succ_self k, ?_⟩
          rw [← hky]
          unfold cv; rw [hs, ← hg]; rfl
      · rcases p3 ky cr hg with h1 | ⟨h1, h2, h3⟩
        · exact Or.inl h1
        · exact Or.inr ⟨h1, by omega, h3⟩
    · have := p4 ky hg
      rw [hpc]
      split
      · split
        · exact this
        · rfl
      · exact this
    · by_cases hjk : j = k
      · subst hjk
        rw [hpc, if_pos rfl]
        rw [cv_isSome] at hc
        cases hs : AMap.get sb1.1.credits ⟨tx.id, blk, j⟩ with
        | none => rw [hs] at hc; cases hc
        | some cr0 => rfl
      · have := p5 j (by omega) hc
        rw [hpc, if_neg (fun hx => hjk (by injection hx with _ hx; exact hx.symm))]
        exact this
    · rcases hpg _ hg with h1 | ⟨wc, hown, hsb, hky⟩
      · rcases p6 w bb i j h1 with h2 | ⟨h2, h3⟩
        · exact Or.inl h2
        · exact Or.inr ⟨h2, h3⟩
      · simp only [Prod.mk.injEq] at hky
        obtain ⟨e1, e2, e3, e4⟩ := hky
        refine Or.inr ⟨e3, o, wc.2, by rw [e4]; exact hko, hsb, ?_, e2⟩
        rw [hown, e1]
    · by_cases hjk : j = k
      · subst hjk
        obtain ⟨o', ch, ho', hsb, hown, hbb⟩ := hgo
        rw [hko] at ho'; cases ho'
        rw [qg, hak]
        rw [cv_isSome] at hc
        cases hs : AMap.get sb1.1.credits ⟨tx.id, blk, j⟩ with
        | none => rw [hs] at hc; cases hc
        | some cr0 =>
          simp only [hown, hsb, if_true]
          rw [AMap.get_put, hbb]; simp
      · exact hpgm _ (p8 j w bb (by omega) hgo hc)


-- ------------------------------------------------------------------ one transaction record

/-- Rollback, coinbase output loop body: the two buckets are untouched -/
theorem rollbackCbOut_buckets (c : Ctx) (id : TxId) (blk : BlockMeta) (acc acc' : (Store × Bals) × List (TxId × Nat))
    (j : Nat) (o : Out) (h : rollbackCbOut c id blk acc j o = .ok acc') :
    acc'.1.1.pendCred = acc.1.1.pendCred ∧ acc'.1.1.pendGame = acc.1.1.pendGame := by
  unfold rollbackCbOut at h
  simp only [] at h
  cases hc : AMap.get acc.1.1.credits ⟨id, blk, j⟩ with
  | none =>
    rw [hc] at h
    simp only [pure, Except.pure, Except.ok.injEq] at h
    subst h
    exact ⟨rfl, rfl⟩
  | some cr =>
    rw [hc] at h
    simp only [] at h
    split at h
    · cases h
    · split at h
      · simp only [pure, Except.pure, Except.ok.injEq] at h
        subst h
        exact ⟨rfl, rfl⟩
      · simp only [bind, Except.bind] at h
        split at h
        · cases h
        · rename_i sb1 hown
          have hk := rollbackOwnedOut_keep _ _ _ _ _ _ _ hown
          simp only [rbKeep, Prod.mk.injEq] at hk
          obtain ⟨_, _, k3, k4, _⟩ := hk
          split at h
          · simp only [pure, Except.pure, Except.ok.injEq] at h
            subst h
            exact ⟨k3, k4⟩
          · simp only [pure, Except.pure, Except.ok.injEq] at h
            subst h
            exact ⟨k3, k4⟩

/-- the coinbase output loop of Rollback: buckets untouched, credits of other transactions untouched -/
theorem rollbackCbOuts_cred (c : Ctx) (id : TxId) (blk : BlockMeta) (outs : List Out) (n : Nat)
    (a0 r : (Store × Bals) × List (TxId × Nat))
    (h : foldIdxM (rollbackCbOut c id blk) outs n a0 = .ok r) :
    r.1.1.pendCred = a0.1.1.pendCred ∧ r.1.1.pendGame = a0.1.1.pendGame ∧
    ∀ ck : CredKey, ck.tx ≠ id → AMap.get r.1.1.credits ck = AMap.get a0.1.1.credits ck :=
  foldIdxM_ok_inv (fun _ (a : (Store × Bals) × List (TxId × Nat)) =>
      a.1.1.pendCred = a0.1.1.pendCred ∧ a.1.1.pendGame = a0.1.1.pendGame ∧
      ∀ ck : CredKey, ck.tx ≠ id → AMap.get a.1.1.credits ck = AMap.get a0.1.1.credits ck)
    (rollbackCbOut c id blk) outs n a0 r ⟨rfl, rfl, fun _ _ => rfl⟩ (by
      intro a i x b' ⟨p1, p2, p3⟩ hf
      obtain ⟨q1, q2⟩ := rollbackCbOut_buckets c id blk a b' i x hf
      obtain ⟨_, _, _, q4, _⟩ := rollbackCbOut_ok c id blk a b' i x hf
      exact ⟨q1.trans p1, q2.trans p2, fun ck hk => (q4 ck (fun hc => hk (by rw [hc]))).trans (p3 ck hk)⟩) h

/-- ONE RECORD of the block, coinbase or not -/
theorem rollbackTx_cred (c : Ctx) (s s' : Store) (bals bals' : Bals) (blk : BlockMeta) (id : TxId)
    (rem : List (TxId × Nat)) (loc : BlkId × Nat) (tx : Tx)
    (h : rollbackTx c s bals blk id = .ok (s', bals', rem))
    (hloc : AMap.get s.txrecs (id, blk) = some loc) (htx : c.node.txByFileLoc loc = some tx) (hid : tx.id = id) :
    CredGrow c.own blk (fun t => t = tx) s s' ∧ s'.txrecs = AMap.erase s.txrecs (id, blk) := by
  subst hid
  by_cases hcb : tx.cb = true
  · refine ⟨?_, (rollbackTx_cb c s s' bals bals' blk tx.id rem loc tx h hloc htx hcb).2.2.1⟩
    unfold rollbackTx at h
    rw [hloc] at h
    simp only [htx, hcb] at h
    simp only [if_true, bind, Except.bind] at h
    cases hf : foldIdxM (rollbackCbOut c tx.id blk) tx.outs 0
        (({ s with txrecs := AMap.erase s.txrecs (tx.id, blk) }, bals), []) with
    | error e => rw [hf] at h; cases h
    | ok r =>
      rw [hf] at h
      simp only [pure, Except.pure, Except.ok.injEq, Prod.mk.injEq] at h
      obtain ⟨e1, _, _⟩ := h
      subst e1
      obtain ⟨r1, r2, r3⟩ := rollbackCbOuts_cred c tx.id blk tx.outs 0 _ r hf
      exact CredGrow.of_keep (fun ck hk => cv_congr (r3 ck (hk tx rfl))) (fun t ht => by rw [ht]; exact hcb) r1 r2
  · have hcb' : tx.cb = false := by simpa using hcb
    refine ⟨?_, (rollbackTx_nc c s s' bals bals' blk tx.id rem loc tx h hloc htx hcb').2.1⟩
    unfold rollbackTx at h
    rw [hloc] at h
    simp only [htx, hcb'] at h
    simp only [Bool.false_eq_true, if_false, bind, Except.bind] at h
    cases hin : foldIdxM (rollbackIn c tx.id blk) tx.ins 0
        ({ s with txrecs := AMap.erase s.txrecs (tx.id, blk), pending := AMap.put s.pending tx.id tx }, bals) with
    | error e => rw [hin] at h; cases h
    | ok sb1 =>
      rw [hin] at h
      simp only [] at h
      cases hout : foldIdxM (rollbackOut c tx.id blk) tx.outs 0 sb1 with
      | error e => rw [hout] at h; cases h
      | ok sb2 =>
        rw [hout] at h
        simp only [pure, Except.pure, Except.ok.injEq, Prod.mk.injEq] at h
        obtain ⟨e1, _, _⟩ := h
        subst e1
        obtain ⟨i1, i2, i3⟩ := rollbackIns_cred c tx.id blk tx.ins 0 _ sb1 hin
        have G := rollbackOuts_cred c blk tx sb1 sb2 hcb' hout
        have i3' : ∀ k, cv sb1.1 k = cv s k := i3
        have i1' : sb1.1.pendCred = s.pendCred := i1
        have i2' : sb1.1.pendGame = s.pendGame := i2
        refine ⟨fun key hk => (G.cvo key hk).trans (i3' key), fun key cr hg => ?_, fun key hg => ?_, fun t ht hc j hj hv => ?_,
          fun w bb i j hg => ?_, fun key hg => ?_, fun t ht hc j w bb hgo hv => ?_⟩
        · rcases G.pcs key cr hg with h1 | ⟨t, ht, q1, q2, q3, q4⟩
          · exact Or.inl (by rw [← i1']; exact h1)
          · exact Or.inr ⟨t, ht, q1, q2, q3, by rw [← i3']; exact q4⟩
        · exact G.pcm key (by rw [i1']; exact hg)
        · exact G.pcc t ht hc j hj (by rw [i3']; exact hv)
        · rcases G.pgs w bb i j hg with h1 | h1
          · exact Or.inl (by rw [← i2']; exact h1)
          · exact Or.inr h1
        · exact G.pgm key (by rw [i2']; exact hg)
        · exact G.pgc t ht hc j w bb hgo (by rw [i3']; exact hv)

-- ------------------------------------------------------------------ the inner loop of Rollback

/-- THE LOOP over the recorded ids `l` (distinct, each with a readable record of a transaction of block `b`) -/
theorem rbLoopC (c : Ctx) (b : Block) (blk : BlockMeta) (hbnd : (b.txs.map (·.id)).Nodup) :
    ∀ (l : List TxId) (a a' : RbAcc), l.foldlM (rbStep c blk) a = .ok a' → l.Nodup →
      (∀ id ∈ l, ∃ loc t, AMap.get a.s.txrecs (id, blk) = some loc ∧ c.node.txByFileLoc loc = some t ∧
        t.id = id ∧ t ∈ b.txs) →
      CredGrow c.own blk (fun t => t ∈ b.txs ∧ t.id ∈ l) a.s a'.s := by
  intro l
  induction l with
  | nil =>
    intro a a' h _ _
    simp [List.foldlM, pure, Except.pure] at h
    subst h
    exact (CredGrow.refl c.own blk a.s).congr (fun t => by simp)
  | cons id l ih =>
    intro a a' h hnd hrec
    simp only [List.foldlM, bind, Except.bind] at h
    cases hf : rbStep c blk a id with
    | error e => rw [hf] at h; cases h
    | ok a1 =>
      rw [hf] at h
      obtain ⟨s1, bals1, rem, hrun, ha1⟩ := rbStep_inv hf
      obtain ⟨hnotin, hnd'⟩ := List.nodup_cons.1 hnd
      obtain ⟨loc, t, hloc, htx, hid, htb⟩ := hrec id (List.mem_cons_self ..)
      obtain ⟨G1, S1⟩ := rollbackTx_cred c a.s s1 a.bals bals1 blk id rem loc t hrun hloc htx hid
      subst ha1
      have hne : ∀ id' ∈ l, id ≠ id' := fun id' h' hc => hnotin (hc ▸ h')
      have G2 := ih _ a' h hnd' (by
          intro id' h'
          obtain ⟨loc', t', q1, q2⟩ := hrec id' (List.mem_cons_of_mem _ h')
          refine ⟨loc', t', ?_, q2⟩
          show AMap.get s1.txrecs _ = _
          rw [S1, AMap.get_erase]
          have : ¬ (id, blk) = (id', blk) := fun hc => hne id' h' (by injection hc)
          simp [this, q1])
      refine (G1.trans G2 ?_).congr (fun t0 => ?_)
      · intro t1 t2 h1 h2 hc
        rw [h1, hid] at hc
        exact hnotin (hc ▸ h2.2)
      · constructor
        · rintro ⟨h1, h2⟩
          rcases List.mem_cons.1 h2 with h2 | h2
          · exact Or.inl (eq_of_id hbnd h1 htb (by rw [h2, hid]))
          · exact Or.inr ⟨h1, h2⟩
        · rintro (h1 | ⟨h1, h2⟩)
          · rw [h1]; exact ⟨htb, by rw [hid]; exact List.mem_cons_self ..⟩
          · exact ⟨h1, List.mem_cons_of_mem _ h2⟩


-- ------------------------------------------------------------------ the credit relation right before the purge

theorem gameOut_owned {e : Spec.Pending.Env} {t : Tx} {j : Nat} {w : Wid} {bb : Bool} (h : GameOut e.own t j w bb) :
    ∃ o, t.outs[j]? = some o ∧ ownedOut e o = true := by
  obtain ⟨o, ch, ho, hsb, hown, _⟩ := h
  refine ⟨o, ho, ?_⟩
  unfold ownedOut
  rw [hown]
  cases hc : o.cls <;> simp_all [Cls.isStaking, Cls.isBinding]

/-- FROM THE LOOP TO THE RELATION.  `hval` / `hall` are the two facts about the mined credit table of the store the
    loop starts from (C01): a credit under a key of a transaction of the block is the credit of an owned output, with
    that output's amount, class and script hash; every owned output of a transaction of the block has a credit. -/
theorem credRel_of_grow {e : Spec.Pending.Env} {blk : BlockMeta} {b : Block} {ids : List TxId} {s s1 : Store}
    {P : List Tx} (hcr : CredRel e s P)
    (G : CredGrow e.own blk (fun t => t ∈ b.txs ∧ t.id ∈ ids) s s1)
    (hval : ∀ t ∈ b.txs, ∀ j cr, AMap.get s.credits ⟨t.id, blk, j⟩ = some cr →
      ∃ o, t.outs[j]? = some o ∧ ownedOut e o = true ∧ cr.amt = o.amt ∧ cr.cls = uclassOf o.cls ∧ cr.sh = o.addr)
    (hall : ∀ t ∈ b.txs, ∀ j o, t.outs[j]? = some o → ownedOut e o = true →
      (AMap.get s.credits ⟨t.id, blk, j⟩).isSome = true) :
    CredRel e s1 (P ++ b.txs.filter (fun t => !t.cb && ids.contains t.id)) := by
  have hfil : ∀ t, t ∈ b.txs.filter (fun t => !t.cb && ids.contains t.id) ↔ t ∈ b.txs ∧ t.cb = false ∧ t.id ∈ ids := by
    intro t; simp [List.mem_filter]
  refine ⟨fun id j cr hg => ?_, fun t ht j o ho hown => ?_, fun w bb id j hg => ?_, fun t ht j w bb hgo => ?_⟩
  · rcases G.pcs (id, j) cr hg with h0 | ⟨t, ⟨htb, hti⟩, hcb, q1, _, q3⟩
    · obtain ⟨t, ht, r⟩ := hcr.csound id j cr h0
      exact ⟨t, List.mem_append_left _ ht, r⟩
    · obtain ⟨cr0, hg0, hv⟩ := cv_some q3
      simp only [Prod.mk.injEq] at hv
      obtain ⟨o, ho, hown, v1, v2, v3⟩ := hval t htb j cr0 hg0
      exact ⟨t, List.mem_append_right _ ((hfil t).2 ⟨htb, hcb, hti⟩), q1.symm, o, ho, hown,
        by rw [hv.1]; exact v1, by rw [hv.2.1]; exact v2, by rw [hv.2.2]; exact v3⟩
  · rcases List.mem_append.1 ht with ht | ht
    · exact G.pcm _ (hcr.ccomplete t ht j o ho hown)
    · obtain ⟨htb, hcb, hti⟩ := (hfil t).1 ht
      exact G.pcc t ⟨htb, hti⟩ hcb j (List.getElem?_eq_some_iff.1 ho).1 (by rw [cv_isSome]; exact hall t htb j o ho hown)
  · rcases G.pgs w bb id j hg with h0 | ⟨t, ⟨htb, hti⟩, hcb, q1, q2⟩
    · obtain ⟨t, ht, r⟩ := hcr.gsound w bb id j h0
      exact ⟨t, List.mem_append_left _ ht, r⟩
    · exact ⟨t, List.mem_append_right _ ((hfil t).2 ⟨htb, hcb, hti⟩), q1.symm, q2⟩
  · rcases List.mem_append.1 ht with ht | ht
    · exact G.pgm _ (hcr.gcomplete t ht j w bb hgo)
    · obtain ⟨htb, hcb, hti⟩ := (hfil t).1 ht
      obtain ⟨o, ho, hown⟩ := gameOut_owned hgo
      exact G.pgc t ⟨htb, hti⟩ hcb j w bb hgo (by rw [cv_isSome]; exact hall t htb j o ho hown)

theorem eraseBlocks_buckets (s : Store) (hs : List Nat) :
    (hs.foldl (fun (s : Store) h => { s with blocks := AMap.erase s.blocks h }) s).pendCred = s.pendCred ∧
    (hs.foldl (fun (s : Store) h => { s with blocks := AMap.erase s.blocks h }) s).pendGame = s.pendGame :=
  foldl_inv (fun (a : Store) => a.pendCred = s.pendCred ∧ a.pendGame = s.pendGame) _ _ _ ⟨rfl, rfl⟩ (fun _ _ _ ha => ha)

/-- disconnecting a tip block WITHOUT a block record leaves all four pending buckets alone -/
theorem disconnect_norec_side (c : Ctx) (s s' : Store) (h : Nat) (hd : disconnectBlock c s h = .ok s')
    (hsync : s.syncedTo = h) (hblk : AMap.get s.blocks h = none) : pendSide s' = pendSide s := by
  unfold disconnectBlock at hd
  have h0 : h ≠ 0 := by intro hc; rw [if_pos hc] at hd; cases hd
  rw [if_neg h0, if_neg (by omega : ¬ h > s.syncedTo)] at hd
  simp only [bind, Except.bind] at hd
  cases hr : rollback c s h with
  | error e => rw [hr] at hd; cases hd
  | ok s2 =>
    rw [hr] at hd
    simp only [pure, Except.pure, Except.ok.injEq] at hd
    have hps : pendSide s' = pendSide s2 := by rw [← hd]; rfl
    unfold rollback at hr
    have hhs : (List.range (s.syncedTo + 1 - h)).map (fun k => s.syncedTo - k) = [h] := by
      rw [hsync]
      have : h + 1 - h = 1 := by omega
      rw [this]; rfl
    simp only [] at hr
    rw [hhs] at hr
    simp only [List.foldlM, bind, Except.bind] at hr
    cases hb : rollbackBlockAt c { s := s, bals := s.balance } h with
    | error e => rw [hb] at hr; cases hr
    | ok acc =>
      rw [hb] at hr
      simp only [pure, Except.pure, Except.ok.injEq] at hr
      rw [rollbackBlockAt_eq] at hb
      simp only [hblk] at hb
      simp only [pure, Except.pure, Except.ok.injEq] at hb
      rw [hps, ← hr, ← hb]
      rfl

/-- the relation only depends on the four pending buckets -/
theorem credRel_of_pendSide {e : Spec.Pending.Env} {s s' : Store} {P : List Tx} (h : CredRel e s P)
    (hs : pendSide s' = pendSide s) : CredRel e s' P := by
  simp only [pendSide, Prod.mk.injEq] at hs
  exact h.congr hs.2.2.1 hs.2.2.2

/-- ROLLBACK PHASE with the accumulator of the loop in view: right before the purge the pending stores represent `P` plus
    the recorded non-coinbase transactions of `b` (the first component of `rollback_phase`) -/
theorem rollback_phase_acc (rank : TxId → Nat) (c : Ctx) (s : Store) (b : Block) (P : List Tx) (ids : List TxId)
    (acc : RbAcc)
    (hloop : ids.reverse.foldlM (rbStep c ⟨b.height, b.id⟩) { s := s, bals := s.balance, heights := [b.height] } = .ok acc)
    (hrec : ∀ id ∈ ids, ∃ loc t, AMap.get s.txrecs (id, ⟨b.height, b.id⟩) = some loc ∧
        c.node.txByFileLoc loc = some t ∧ t.id = id ∧ t ∈ b.txs)
    (hidnd : ids.Nodup) (hbnd : (b.txs.map (·.id)).Nodup) (hrel : PendRel rank s P)
    (hnp : ∀ id ∈ ids, AMap.get s.pending id = none)
    (hrk : ∀ t ∈ b.txs, ∀ i ∈ t.ins, rank i.tx < rank t.id) :
    PendRel rank (acc.heights.foldl (fun s h => { s with blocks := AMap.erase s.blocks h }) acc.s)
      (P ++ b.txs.filter (fun t => !t.cb && ids.contains t.id)) := by
  obtain ⟨L1, L2, _, _, _, _⟩ := rbLoop rank c b ⟨b.height, b.id⟩ hbnd hrk ids.reverse _ acc hloop
    ((List.reverse_perm ids).nodup_iff.2 hidnd) (fun id hid => hrec id (List.mem_reverse.1 hid)) hrel.wf
    (fun id hid => hnp id (List.mem_reverse.1 hid))
  obtain ⟨e1, e2⟩ := eraseBlocks_pend acc.s acc.heights
  have hfil : ∀ t, t ∈ b.txs.filter (fun t => !t.cb && ids.contains t.id) ↔ t ∈ b.txs ∧ t.cb = false ∧ t.id ∈ ids := by
    intro t; simp [List.mem_filter]
  refine ⟨PendWF.congr L1 e1 e2, fun id t => ?_, ?_⟩
  · rw [e1, L2, List.mem_append, hfil]
    show AMap.get s.pending id = some t ∨ _ ↔ _
    rw [hrel.ids]
    constructor
    · rintro (⟨h1, h2⟩ | ⟨h1, h2, h3, h4⟩)
      · exact ⟨Or.inl h1, h2⟩
      · exact ⟨Or.inr ⟨h2, h4, by rw [h3]; exact List.mem_reverse.1 h1⟩, h3⟩
    · rintro ⟨h1 | ⟨h1, h2, h3⟩, h4⟩
      · exact Or.inl ⟨h1, h4⟩
      · exact Or.inr ⟨List.mem_reverse.2 (by rw [← h4]; exact h3), h1, h4, h2⟩
  · rw [List.map_append, List.nodup_append]
    refine ⟨hrel.nodup, List.Nodup.sublist (List.filter_sublist.map _) hbnd, ?_⟩
    intro x hx y hy hxy
    obtain ⟨t, ht, rfl⟩ := List.mem_map.1 hx
    obtain ⟨t', ht', rfl⟩ := List.mem_map.1 hy
    have h1 := hrel.pending_of_mem ht
    have h2 := hnp t'.id ((hfil t').1 ht').2.2
    have hxy' : t.id = t'.id := hxy
    rw [hxy', h2] at h1; cases h1

-- ------------------------------------------------------------------ THE DISCONNECT STEP

/-- DISCONNECT keeps the credit relation.  `hrel'` is the result of `disconnect_step_inv` (the pending records after the
    step are the specification's list `P'`); no hypothesis about the buckets after the step. -/
theorem disconnect_cred_store (rank : TxId → Nat) (E : HEnv) (n : Node) (s s' : Store) (c0 : List Block) (b : Block)
    (P P' : List Tx)
    (hI : Inv (E.ctx n) s (c0 ++ [b])) (hV : ChainValid E.own (c0 ++ [b])) (hH : HeightsOK (c0 ++ [b]))
    (hk : AMap.get n.known b.id = some b)
    (hrel : PendRel rank s P) (hcr : CredRel E.env s P) (hcons : Consistent (c0 ++ [b]) P)
    (hbnd : (b.txs.map (·.id)).Nodup) (hrk : ∀ t ∈ b.txs, ∀ i ∈ t.ins, rank i.tx < rank t.id)
    (h : disconnectBlock (E.ctx n) s b.height = .ok s')
    (hrel' : PendRel rank s' P') : CredRel E.env s' P' := by
  have hbh : b.height = c0.length := hH c0.length b (by simp)
  have hsync : s.syncedTo = b.height := by
    have := hI.syncedTo
    rw [List.length_append, List.length_singleton] at this
    omega
  have hbm : b ∈ c0 ++ [b] := List.mem_append_right _ List.mem_cons_self
  rcases inv_tip_records hI hV hH hk with ⟨ids, hblk, hnd, hrec, -⟩ | ⟨hblk, -⟩
  · -- the block has a record: the loop, the erasure of the block record, the purge
    obtain ⟨acc, hloop, hps⟩ := disconnect_tip_unfold (E.ctx n) s s' b.height b.id ids h hsync hblk
    have hPb : ∀ t ∈ b.txs, hasId P t.id = false := by
      intro t ht
      cases hh : hasId P t.id with
      | false => rfl
      | true =>
        obtain ⟨x, hx, hid⟩ := (hasId_iff _ _).1 hh
        have := (hcons x hx).1
        rw [onChain_append, onChain_single, hid, (hasId_iff _ _).2 ⟨t, ht, rfl⟩] at this
        simp at this
    have hnp : ∀ id ∈ ids, AMap.get s.pending id = none := by
      intro id hid
      obtain ⟨_, t, _, _, htid, htb⟩ := hrec id hid
      have := hPb t htb
      rw [hrel.hasId, htid] at this
      cases hg : AMap.get s.pending id with
      | none => rfl
      | some x => rw [hg] at this; cases this
    have hrel1 := rollback_phase_acc rank (E.ctx n) s b P ids acc hloop hrec hnd hbnd hrel hnp hrk
    have G := (rbLoopC (E.ctx n) b ⟨b.height, b.id⟩ hbnd ids.reverse _ acc hloop
      ((List.reverse_perm ids).nodup_iff.2 hnd) (fun id hid => hrec id (List.mem_reverse.1 hid))).congr
      (T' := fun t => t ∈ b.txs ∧ t.id ∈ ids) (fun t => by rw [List.mem_reverse])
    have hcr1 : CredRel E.env acc.s (P ++ b.txs.filter (fun t => !t.cb && ids.contains t.id)) := by
      refine credRel_of_grow (e := E.env) hcr G ?_ ?_
      · intro t ht j cr hg
        obtain ⟨o, w, ch, ho, hown, hsame⟩ := inv_credit_value_block hI hV hbm ht hg
        refine ⟨o, ho, ?_, hsame.amt, hsame.cls, hsame.sh⟩
        rw [ownedOut_eq_ownerOf]
        show (MW.Spec.Books.ownerOf E.own o).isSome = true
        rw [show MW.Spec.Books.ownerOf E.own o = some (w, ch) from hown]; rfl
      · intro t ht j o ho hown
        rw [ownedOut_eq_ownerOf] at hown
        exact inv_cb_credits hI hV t ht j o ho hown
    obtain ⟨b1, b2⟩ := eraseBlocks_buckets acc.s acc.heights
    have hcr1' := hcr1.congr b1 b2
    have hcfr := purgeFold_cfr E.own acc.cb _ (keyId_of_rel hrel1)
    simp only [pendSide, Prod.mk.injEq] at hps
    have hrel2 := hrel'.congr hps.1.symm hps.2.1.symm
    exact (hcr1'.frame hrel1 hrel2 hcfr).congr hps.2.2.1 hps.2.2.2
  · -- no record: the four buckets are unchanged
    have hps := disconnect_norec_side (E.ctx n) s s' b.height h hsync hblk
    have hps' := hps
    simp only [pendSide, Prod.mk.injEq] at hps'
    have hrel2 : PendRel rank s P' := hrel'.congr hps'.1.symm hps'.2.1.symm
    exact credRel_of_pendSide (hcr.frame hrel hrel2 (CFrX.refl _ _ _)) hps


-- ------------------------------------------------------------------ THE HISTORIES, no hypothesis about the relation

/-- DISCONNECT, at history level: inside the domain `HOK … .disconnect` of `pending_refines` the step keeps `CredRel` -/
theorem disconnect_cred {rank : TxId → Nat} {E : HEnv} {w : HW} (H : HInvC rank E w) (D : HOK rank E w .disconnect) :
    CredRel E.env (stepH E w .disconnect).s (stepH E w .disconnect).sp.pend := by
  have H' := hinv_disconnect H.inv D
  cases hl : w.sp.chain.getLast? with
  | none =>
    have : stepH E w .disconnect = w := by simp only [stepH, hl]
    rw [this]; exact H.cred
  | some b =>
    have hsplit : w.sp.chain = w.sp.chain.dropLast ++ [b] := split_last _ b hl
    obtain ⟨_, hV, hHt, hk, dom⟩ := D _ b hsplit
    cases hd : disconnectBlock (E.ctx w.node) w.s b.height with
    | error e =>
      have : stepH E w .disconnect = w := by simp only [stepH, hl, hd]
      rw [this]; exact H.cred
    | ok s' =>
      have hst : stepH E w .disconnect =
          { w with s := s', sp := Spec.Pending.step w.sp (.moved E.env w.sp.chain.dropLast) } := by
        simp only [stepH, hl, hd]
      have hI := H.inv.inv
      have hcons := H.inv.cons
      rw [hsplit] at hI hcons
      have hrel' := H'.rel
      rw [hst] at hrel' ⊢
      exact disconnect_cred_store rank E w.node w.s s' w.sp.chain.dropLast b w.sp.pend _ hI hV hHt hk H.inv.rel H.cred
        hcons dom.bnd dom.rk hd hrel'

/-- DOMAIN of an event for the credit relation, FULL: the domain of `pending_refines`, the receive step without its
    residue clause; nothing about the relation itself -/
def HOKf (rank : TxId → Nat) (E : HEnv) (w : HW) : HEv → Prop
  | .recv t => RecvDomC rank E w t
  | ev => HOK rank E w ev

theorem HOKf.toC {rank : TxId → Nat} {E : HEnv} {w : HW} (H : HInvC rank E w) {ev : HEv} (D : HOKf rank E w ev) :
    HOKc rank E w ev := by
  cases ev with
  | node n => exact D
  | vol v => exact D
  | recv t => exact D
  | connect b => exact D
  | disconnect => exact ⟨D, disconnect_cred H D⟩

theorem hinvc_step_full {rank : TxId → Nat} {E : HEnv} {w : HW} (H : HInvC rank E w) (ev : HEv) (D : HOKf rank E w ev) :
    HInvC rank E (stepH E w ev) := hinvc_step H ev (D.toC H)

theorem hinvc_run_full {rank : TxId → Nat} {E : HEnv} : ∀ (evs : List HEv) (w : HW), HInvC rank E w →
    (∀ x ∈ worldsH E w evs, HOKf rank E x.1 x.2) → HInvC rank E (runH E w evs) := by
  intro evs
  induction evs with
  | nil => intro w H _; exact H
  | cons ev evs ih =>
    intro w H hD
    have h1 := hinvc_step_full H ev (hD (w, ev) (by simp [worldsH]))
    exact ih _ h1 (fun x hx => hD x (by simp [worldsH, hx]))

/-- every history inside the full domain is inside the domain of the partial theorem (so `credit_refines_partial`
    applies to it) -/
theorem hokc_of_full {rank : TxId → Nat} {E : HEnv} : ∀ (evs : List HEv) (w : HW), HInvC rank E w →
    (∀ x ∈ worldsH E w evs, HOKf rank E x.1 x.2) → ∀ x ∈ worldsH E w evs, HOKc rank E x.1 x.2 := by
  intro evs
  induction evs with
  | nil => intro w _ _ x hx; cases hx
  | cons ev evs ih =>
    intro w H hD x hx
    have D0 := hD (w, ev) (by simp [worldsH])
    simp only [worldsH, List.mem_cons] at hx
    rcases hx with rfl | hx
    · exact D0.toC H
    · exact ih _ (hinvc_step_full H ev D0) (fun y hy => hD y (by simp [worldsH, hy])) x hx

/-- THE CREDIT RELATION ALONG ALL HISTORIES of `pending_refines` (the statement of `C09_full_credit_relation`) -/
theorem credit_relation_full (rank : TxId → Nat) (E : HEnv) (w : HW) (evs : List HEv) (H : HInvC rank E w)
    (hD : ∀ x ∈ worldsH E w evs,
      match x.2 with
      | .recv t => RecvDomC rank E x.1 t
      | ev => HOK rank E x.1 ev) :
    CredRel E.env (runH E w evs).s (runH E w evs).sp.pend :=
  (hinvc_run_full evs w H (fun x hx => by
    have := hD x hx
    obtain ⟨xw, xe⟩ := x
    cases xe <;> exact this)).cred

end MW.Lemmas.PendHist.CredRb
