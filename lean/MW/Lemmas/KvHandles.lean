/-
  Round 4: kept bucket handles, BucketMeta / FetchBucket (with the per-transaction cache), and the
  read transaction after its end — helper lemmas for the refinement `kv_refines_x`.

  1. an operation through a kept handle of bucket `p` that navigation still finds IS the operation
     re-navigated at `p ++ rel` (`dataOpVia_eq`, `Sys.stepVia_eq`);
  2. every data operation preserves any batch predicate closed under Put and Delete (`dataOp_pres`)
     – used for "the index key of a cached bucket was in the store or was put by this transaction";
  3. FetchBucket through the cache answers exactly "the bucket exists in the transaction's view".
-/
import MW.Lemmas.KvRefine
import MW.Model.KVHandles
import MW.Spec.KVX
namespace MW.Model.KV
open MW MW.KV
open MW.Spec.KV (DB reroot viaShapeOK mutating)

/-! ### 1. navigation from a handle -/

theorem navFrom_append (tx : Tx) : ∀ (l1 : List Bytes) (b : Bucket) (l2 : List Bytes),
    navFrom tx b (l1 ++ l2) = (navFrom tx b l1).bind fun b' => navFrom tx b' l2 := by
  intro l1
  induction l1 with
  | nil => intro b l2; rfl
  | cons n rest ih =>
    intro b l2
    simp only [List.cons_append, navFrom]
    cases b.bucket tx n with
    | none => rfl
    | some sub => exact ih sub l2

theorem nav_append (tx : Tx) {p : Path} (hp : p ≠ []) (rel : List Bytes) :
    nav tx (p ++ rel) = (nav tx p).bind fun b => navFrom tx b rel := by
  cases p with
  | nil => exact absurd rfl hp
  | cons n rest =>
    simp only [List.cons_append, nav]
    cases tx.topLevelBucket n with
    | none => rfl
    | some b => exact navFrom_append tx rest b rel

theorem nav_via {tx : Tx} {p : Path} {hb : Bucket} (h : nav tx p = some hb) (rel : List Bytes) :
    nav tx (p ++ rel) = navFrom tx hb rel := by
  have hp : p ≠ [] := by intro e; subst e; simp [nav] at h
  rw [nav_append tx hp, h]; rfl

theorem getLast?_append_ne {α : Type} (p rel : List α) (hr : rel ≠ []) : (p ++ rel).getLast? = rel.getLast? := by
  simp only [List.getLast?_append]
  cases h : rel.getLast? with
  | none => simp [List.getLast?_eq_none_iff] at h; exact absurd h hr
  | some x => simp

theorem slotOf_reroot (p : Path) (op : Op) : slotOf (reroot p op) = slotOf op := by
  cases op <;> rfl

theorem length_append_ne_zero {p : Path} (hp : p ≠ []) (rel : List Bytes) : ((p ++ rel).length == 0) = false := by
  cases p with
  | nil => exact absurd rfl hp
  | cons a r => simp

/-- an operation through the kept handle of a bucket that navigation (still, or again) finds is the
    operation re-navigated from the transaction -/
theorem dataOpVia_eq {tx : Tx} {p : Path} {hb : Bucket} (h : nav tx p = some hb) (op : Op)
    (hs : viaShapeOK op = true) (hsl : slotOf op ≠ none) :
    dataOpVia tx hb op = dataOp tx (reroot p op) := by
  have hp : p ≠ [] := by intro e; subst e; simp [nav] at h
  have hl := fun rel => length_append_ne_zero hp rel
  cases op with
  | beginW | beginR | commit | rollback | endR | reopen | probe | raw => exact absurd rfl hsl
  | has s rel =>
    simp only [dataOpVia, reroot, dataOp, hl, Bool.false_eq_true, if_false, nav_via h]
    try (cases navFrom tx hb rel <;> rfl)
  | names s rel =>
    simp only [dataOpVia, reroot, dataOp, hl, Bool.false_eq_true, if_false, nav_via h]
    try (cases navFrom tx hb rel <;> rfl)
  | put s rel k v =>
    simp only [dataOpVia, reroot, dataOp, hl, Bool.false_eq_true, if_false, nav_via h]
    try (cases navFrom tx hb rel <;> rfl)
  | get s rel k =>
    simp only [dataOpVia, reroot, dataOp, hl, Bool.false_eq_true, if_false, nav_via h]
    try (cases navFrom tx hb rel <;> rfl)
  | del s rel k =>
    simp only [dataOpVia, reroot, dataOp, hl, Bool.false_eq_true, if_false, nav_via h]
    try (cases navFrom tx hb rel <;> rfl)
  | clear s rel =>
    simp only [dataOpVia, reroot, dataOp, hl, Bool.false_eq_true, if_false, nav_via h]
    try (cases navFrom tx hb rel <;> rfl)
  | pfx s rel k =>
    simp only [dataOpVia, reroot, dataOp, hl, Bool.false_eq_true, if_false, nav_via h]
    try (cases navFrom tx hb rel <;> rfl)
  | iter s rel a b sc =>
    simp only [dataOpVia, reroot, dataOp, hl, Bool.false_eq_true, if_false, nav_via h]
    try (cases navFrom tx hb rel <;> rfl)
  | create s rel =>
    have hr : rel ≠ [] := by intro e; subst e; simp [viaShapeOK] at hs
    have hlast : (p ++ rel).getLast? = rel.getLast? := getLast?_append_ne _ _ hr
    have hdl : (p ++ rel).dropLast = p ++ rel.dropLast := List.dropLast_append_of_ne_nil hr
    have h1 : ((p ++ rel).length == 1) = false := by
      cases p with
      | nil => exact absurd rfl hp
      | cons a r => cases rel with
        | nil => exact absurd rfl hr
        | cons c d => simp
    simp only [dataOpVia, reroot, dataOp, hlast, hdl, h1, Bool.false_eq_true, if_false, nav_via h]
    cases rel.getLast? with
    | none => rfl
    | some name => simp only; cases navFrom tx hb rel.dropLast <;> rfl
  | delb s rel =>
    have hr : rel ≠ [] := by intro e; subst e; simp [viaShapeOK] at hs
    have hlast : (p ++ rel).getLast? = rel.getLast? := getLast?_append_ne _ _ hr
    have hdl : (p ++ rel).dropLast = p ++ rel.dropLast := List.dropLast_append_of_ne_nil hr
    have h1 : ((p ++ rel).length == 1) = false := by
      cases p with
      | nil => exact absurd rfl hp
      | cons a r => cases rel with
        | nil => exact absurd rfl hr
        | cons c d => simp
    simp only [dataOpVia, reroot, dataOp, hlast, hdl, h1, Bool.false_eq_true, if_false, nav_via h]
    cases rel.getLast? with
    | none => rfl
    | some name => simp only; cases navFrom tx hb rel.dropLast <;> rfl

theorem Sys.stepVia_eq {s : Sys} {op : Op} {sl : Slot} (hso : slotOf op = some sl) {tx : Tx}
    (htx : s.txOf sl = some tx) {p : Path} {hb : Bucket} (h : nav tx p = some hb) (hs : viaShapeOK op = true) :
    s.stepVia hb op = s.step (reroot p op) := by
  have hso' : slotOf (reroot p op) = some sl := by rw [slotOf_reroot]; exact hso
  rw [Sys.step_data hso']
  unfold Sys.stepVia
  rw [hso]
  have hne : slotOf op ≠ none := by rw [hso]; simp
  cases sl with
  | w =>
    simp only [Sys.txOf] at htx
    cases hw : s.w with
    | none => rfl
    | some bt =>
      rw [hw] at htx
      simp only [Option.map_some, Option.some.injEq] at htx
      subst htx
      simp only [dataOpVia_eq h op hs hne]
  | r =>
    simp only [Sys.txOf] at htx
    cases hr : s.reader with
    | none => rfl
    | some snap =>
      rw [hr] at htx
      simp only [Option.map_some, Option.some.injEq] at htx
      subst htx
      simp only [dataOpVia_eq h op hs hne]

/-! ### the bucket value navigation builds depends on the path only -/

def pureNavFrom (b : Bucket) : List Bytes → Option Bucket
  | [] => some b
  | n :: rest => match b.subBucket n with
    | .error _ => none
    | .ok sub => pureNavFrom sub rest

def pureNav : Path → Option Bucket
  | [] => none
  | n :: rest => pureNavFrom { name := n, path := join [topDepth, n], depth := 1 } rest

theorem Bucket.bucket_sub {tx : Tx} {b sub : Bucket} {n : Bytes} (h : b.bucket tx n = some sub) :
    b.subBucket n = .ok sub := by
  unfold Bucket.bucket at h
  cases hs : b.subBucket n with
  | error e => rw [hs] at h; cases h
  | ok s0 =>
    rw [hs] at h
    simp only at h
    split at h
    · cases h; rfl
    · cases h

theorem navFrom_pure {tx : Tx} : ∀ (l : List Bytes) (b b' : Bucket), navFrom tx b l = some b' → pureNavFrom b l = some b' := by
  intro l
  induction l with
  | nil => intro b b' h; exact h
  | cons n rest ih =>
    intro b b' h
    simp only [navFrom] at h
    cases hb : b.bucket tx n with
    | none => rw [hb] at h; cases h
    | some sub =>
      rw [hb] at h
      simp only [pureNavFrom, Bucket.bucket_sub hb]
      exact ih sub b' h

theorem nav_pure {tx : Tx} {p : Path} {b : Bucket} (h : nav tx p = some b) : pureNav p = some b := by
  cases p with
  | nil => simp [nav] at h
  | cons n rest =>
    simp only [nav] at h
    cases ht : tx.topLevelBucket n with
    | none => rw [ht] at h; cases h
    | some b0 =>
      rw [ht] at h
      have hb0 : b0 = { name := n, path := join [topDepth, n], depth := 1 } := by
        unfold Tx.topLevelBucket at ht
        simp only at ht
        split at ht
        · cases ht; rfl
        · cases ht
      subst hb0
      exact navFrom_pure rest _ b h

theorem subBucket_name {b sub : Bucket} {n : Bytes} (h : b.subBucket n = .ok sub) : sub.name = n := by
  unfold Bucket.subBucket at h
  split at h
  · cases h
  · simp only at h
    split at h
    · cases h
    · cases h; rfl

theorem pureNavFrom_name : ∀ (l : List Bytes) (b b' : Bucket), pureNavFrom b l = some b' →
    b'.name = (l.getLast?).getD b.name := by
  intro l
  induction l with
  | nil => intro b b' h; simp only [pureNavFrom, Option.some.injEq] at h; subst h; rfl
  | cons n rest ih =>
    intro b b' h
    simp only [pureNavFrom] at h
    cases hs : b.subBucket n with
    | error e => rw [hs] at h; cases h
    | ok sub =>
      rw [hs] at h
      have := ih sub b' h
      rw [this, subBucket_name hs]
      cases rest with
      | nil => rfl
      | cons c d =>
        rw [List.getLast?_cons_cons]
        cases hg : (c :: d).getLast? with
        | none => simp [List.getLast?_eq_none_iff] at hg
        | some x => rfl

theorem pureNav_name {p : Path} {b : Bucket} (h : pureNav p = some b) : b.name = lastName p := by
  cases p with
  | nil => cases h
  | cons n rest =>
    have := pureNavFrom_name rest _ b h
    rw [this]
    unfold lastName
    cases rest with
    | nil => rfl
    | cons c d =>
      rw [List.getLast?_cons_cons]
      cases hg : (c :: d).getLast? with
      | none => simp [List.getLast?_eq_none_iff] at hg
      | some x => rfl

end MW.Model.KV
