/-
  LedBytes, part 15 — the follower's control structure on bytes, for the CONCRETE primitives, along the calls the run makes.
  `LedBytesHandler` lifts the simulations of the primitives through the loops of reorg under an invariant `Pr.I` that the
  primitives keep at ARBITRARY arguments.  Here the hypothesis is instead `SimAt H Pd Pf`: the concrete primitives
  (`discOf H`, `filtOf H`) simulate at the (store, argument) pairs satisfying `Pd` / `Pf`; and the MODEL's run only makes
  calls satisfying `Pd` / `Pf` (the recursive predicates `discDownOK`, `walkBackOK`, `connectAllOK`, `reorgDisconnectOK`,
  `reorgOK`, `processOK` of `LedgerTraceDefs`).  The invariant threaded is just `CanonS E`.
-/
import MW.Lemmas.LedBytesFinal
import MW.Lemmas.LedgerTraceDefs
namespace MW.LedBytes
open MW MW.Gen.Codec MW.Model.TxmgrCodec MW.TxmgrCodec MW.Model.Ledger MW.Lemmas.Ledger.Trace

variable {E : Env} {c : Ctx}

/-- the concrete primitives as DATA (no invariant is claimed: `I := fun _ => False`, so the proof fields are vacuous);
    `processBlockB (rawPrims H)` is the concrete byte-level processConnectedBlock -/
def rawPrims (H : HEnv E c) : Prims E c where
  I := fun _ => False
  BlkOK := BlkFit H
  disc := discOf H
  filt := filtOf H
  readyB bs := readyWalletsB bs.ws H.walletsB
  canon _ h := h.elim
  disc_sim _ _ h := h.elim
  filt_sim _ _ _ h := h.elim
  ready_sim _ h := h.elim

/-- the primitives simulate at the (store, argument) pairs satisfying `Pd` / `Pf` -/
structure SimAt (H : HEnv E c) (Pd : Store → Nat → Prop) (Pf : Store → List Wid → Block → Prop) : Prop where
  disc : ∀ bs h, CanonS E bs → Pd (absStore E bs) h →
    (discOf H bs h).map (absStore E) = disconnectBlock c (absStore E bs) h ∧ ∀ bs', discOf H bs h = .ok bs' → CanonS E bs'
  filt : ∀ bs ready b, CanonS E bs → BlkFit H b → Pf (absStore E bs) (ready.map E.N.wal) b →
    (filtOf H bs ready b).map (fun x => (absStore E x.1, x.2)) = filterBlock c (absStore E bs) (ready.map E.N.wal) b ∧
    ∀ x, filtOf H bs ready b = .ok x → CanonS E x.1

/-- a successful byte-level call is a successful model call (from the simulation equation) -/
theorem map_ok_of {α β : Type} {x : M α} {f : α → β} {y : M β} (h : x.map f = y) {a : α} (hx : x = .ok a) :
    y = .ok (f a) := by
  rw [← h, hx]; rfl

theorem ready_raw (H : HEnv E c) {bs : BStore} (hC : CanonS E bs) :
    readyWallets (absStore E bs) c.wallets = ((rawPrims H).readyB bs).map E.N.wal := by
  rw [H.wallets_eq]
  exact readyWallets_on_bytes E hC H.wallets_wf

section
variable (H : HEnv E c) {Pd : Store → Nat → Prop} {Pf : Store → List Wid → Block → Prop} (S : SimAt H Pd Pf)
include S

-- ------------------------------------------------------------------ reorg step 2a

theorem disconnectDown_tr (nbH : Nat) : ∀ (fuel : Nat) (bs : BStore) (curH : Nat) (rolled : List Nat),
    CanonS E bs → discDownOK c Pd nbH fuel (absStore E bs) curH →
    (disconnectDownB (rawPrims H) nbH fuel bs curH rolled).map (abs3 E)
      = disconnectDown c nbH fuel (absStore E bs) curH rolled ∧
    ∀ x, disconnectDownB (rawPrims H) nbH fuel bs curH rolled = .ok x → CanonS E x.1 ∧ x.2.1 ≤ curH := by
  intro fuel
  induction fuel with
  | zero => intro bs curH rolled hC _; exact ⟨rfl, fun x h => by cases h; exact ⟨hC, Nat.le_refl _⟩⟩
  | succ fuel ih =>
    intro bs curH rolled hC hok
    unfold disconnectDownB disconnectDown
    by_cases hgt : curH > nbH
    · simp only [hgt, if_true]
      unfold discDownOK at hok
      obtain ⟨hPd, hnext⟩ := hok hgt
      obtain ⟨d1, d2⟩ := S.disc bs curH hC hPd
      rw [← d1]
      exact bind_sim (discOf H bs curH) (absStore E)
        (fun bs' => disconnectDownB (rawPrims H) nbH fuel bs' (curH - 1) (rolled ++ [curH]))
        (fun s' => disconnectDown c nbH fuel s' (curH - 1) (rolled ++ [curH])) (abs3 E)
        (fun a => CanonS E a ∧ discDownOK c Pd nbH fuel (absStore E a) (curH - 1))
        (fun x => CanonS E x.1 ∧ x.2.1 ≤ curH)
        (fun a ha => ⟨d2 a ha, hnext _ (map_ok_of d1 ha)⟩)
        (fun a ha => by
          obtain ⟨i1, i2⟩ := ih a (curH - 1) (rolled ++ [curH]) ha.1 ha.2
          exact ⟨i1, fun x hx => ⟨(i2 x hx).1, Nat.le_trans (i2 x hx).2 (Nat.sub_le _ _)⟩⟩)
    · simp only [hgt, if_false]
      exact ⟨rfl, fun x h => by cases h; exact ⟨hC, Nat.le_refl _⟩⟩

-- ------------------------------------------------------------------ reorg step 2b

theorem walkBack_tr (hchain : ∀ x ∈ c.node.chain, BlkFit H x) : ∀ (fuel : Nat) (w : WalkB),
    CanonS E w.bs → WalkOK (rawPrims H) w → w.prevH < collisionHeight → walkBackOK c Pd fuel (absWalk E w) →
    (walkBackB (rawPrims H) fuel w).map (fun x => (absWalk E x.1, x.2)) = walkBack c fuel (absWalk E w) ∧
    ∀ x, walkBackB (rawPrims H) fuel w = .ok x →
      CanonS E x.1.bs ∧ WalkOK (rawPrims H) x.1 ∧ x.1.prevH ≤ w.prevH := by
  intro fuel
  induction fuel with
  | zero => intro w hC hok _ _; exact ⟨rfl, fun x h => by cases h; exact ⟨hC, hok, Nat.le_refl _⟩⟩
  | succ fuel ih =>
    intro w hC hok hsm htr
    unfold walkBackOK at htr
    unfold walkBackB walkBack
    have e1 : (absWalk E w).tail = w.tail := rfl
    have e2 : (absWalk E w).prevHash = w.prevHash := rfl
    have e3 : (absWalk E w).prevH = w.prevH := rfl
    have e4 : (absWalk E w).s = absStore E w.bs := rfl
    have e5 : (absWalk E w).tc = w.tc := rfl
    have e6 : (absWalk E w).rolled = w.rolled := rfl
    rw [e1, e2, e3, e4, e5, e6] at htr ⊢
    by_cases hne : w.tail.prev ≠ w.prevHash
    · simp only [hne, ne_eq, not_false_eq_true, if_true]
      obtain ⟨hPd, hnext⟩ := htr hne
      obtain ⟨d1, d2⟩ := S.disc w.bs (w.prevH + 1) hC hPd
      rw [← d1]
      refine bind_sim (discOf H w.bs (w.prevH + 1)) (absStore E) _ _ (fun (x : WalkB × Bool) => (absWalk E x.1, x.2))
        (fun a => CanonS E a ∧ discOf H w.bs (w.prevH + 1) = .ok a)
        (fun (x : WalkB × Bool) => CanonS E x.1.bs ∧ WalkOK (rawPrims H) x.1 ∧ x.1.prevH ≤ w.prevH)
        (fun a ha => ⟨d2 a ha, ha⟩) ?_
      intro bs hb
      obtain ⟨hCb, hdb⟩ := hb
      by_cases h0 : w.prevH = 0
      · simp only [h0, if_true]
        exact ⟨rfl, fun _ h => by cases h⟩
      · simp only [h0, if_false]
        have hsyn := syncAt_on_bytes E hCb (h := w.prevH - 1) (by omega)
        rw [hsyn]
        cases hsy : syncAtB E bs (w.prevH - 1) with
        | none => exact ⟨rfl, fun _ h => by cases h⟩
        | some ph' =>
          simp only []
          cases hfb : c.node.fetchBlock w.tail.prev with
          | none => exact ⟨rfl, fun _ h => by cases h⟩
          | some pb =>
            simp only []
            obtain ⟨i1, i2⟩ := ih { bs := bs, prevH := w.prevH - 1, prevHash := ph', tail := pb,
                                     tc := w.tail :: w.tc, rolled := w.rolled ++ [w.prevH + 1] } hCb
              ⟨fetchBlock_ok (rawPrims H) hchain hfb, fun x hx => by
                rcases List.mem_cons.mp hx with rfl | hx
                · exact hok.1
                · exact hok.2 x hx⟩ (by show w.prevH - 1 < collisionHeight; omega)
              (hnext _ (map_ok_of d1 hdb) h0 ph' (by rw [hsyn, hsy]) pb hfb)
            refine ⟨i1, fun x hx => ?_⟩
            obtain ⟨j1, j2, j3⟩ := i2 x hx
            exact ⟨j1, j2, Nat.le_trans j3 (Nat.sub_le _ _)⟩
    · simp only [hne, if_false]
      exact ⟨rfl, fun x h => by cases h; exact ⟨hC, hok, Nat.le_refl _⟩⟩

-- ------------------------------------------------------------------ reorg step 3

theorem connectAll_tr (ready : List Bytes) : ∀ (tc : List Block) (bs : BStore) (added : List (Nat × List TxId)),
    CanonS E bs → (∀ x ∈ tc, BlkFit H x) → connectAllOK c Pf (ready.map E.N.wal) tc (absStore E bs) →
    (connectAllB (rawPrims H) ready tc bs added).map (fun x => (absStore E x.1, x.2))
      = connectAll c (ready.map E.N.wal) tc (absStore E bs) added ∧
    ∀ x, connectAllB (rawPrims H) ready tc bs added = .ok x → CanonS E x.1 := by
  intro tc
  induction tc with
  | nil => intro bs added hC _ _; exact ⟨rfl, fun x h => by cases h; exact hC⟩
  | cons b rest ih =>
    intro bs added hC hok htr
    unfold connectAllOK at htr
    unfold connectAllB connectAll
    obtain ⟨hPf, hnext⟩ := htr
    obtain ⟨f1, f2⟩ := S.filt bs ready b hC (hok b List.mem_cons_self) hPf
    rw [← f1]
    exact bind_sim (filtOf H bs ready b) (fun (x : BStore × List TxId) => (absStore E x.1, x.2)) _ _
      (fun (x : BStore × List (Nat × List TxId)) => (absStore E x.1, x.2))
      (fun (x : BStore × List TxId) => CanonS E x.1 ∧ connectAllOK c Pf (ready.map E.N.wal) rest (absStore E x.1))
      (fun (x : BStore × List (Nat × List TxId)) => CanonS E x.1)
      (fun a ha => ⟨f2 a ha, hnext _ (map_ok_of f1 ha)⟩)
      (fun a ha => ih a.1 (added ++ [(b.height, a.2)]) ha.1 (fun x hx => hok x (List.mem_cons_of_mem _ hx)) ha.2)

-- ------------------------------------------------------------------ reorg step 2

theorem reorgDisconnect_tr (hchain : ∀ x ∈ c.node.chain, BlkFit H x) {bs : BStore} (hC : CanonS E bs)
    {best : BlockMeta} (hbest : best.height < collisionHeight) {nb : Block} {tc : List Block} (hnb : BlkFit H nb)
    (htc : ∀ x ∈ tc, BlkFit H x) (htr : reorgDisconnectOK c Pd (absStore E bs) best nb tc) :
    (reorgDisconnectB (rawPrims H) bs best nb tc).map (absRd E) = reorgDisconnect c (absStore E bs) best nb tc ∧
    ∀ x, reorgDisconnectB (rawPrims H) bs best nb tc = .ok x → CanonS E x.1 ∧ ∀ y ∈ x.2.2, BlkFit H y := by
  unfold reorgDisconnectB reorgDisconnect
  by_cases heq : best.hash = nb.id
  · simp only [heq, if_true]
    exact ⟨rfl, fun x h => by cases h; exact ⟨hC, htc⟩⟩
  · simp only [heq, if_false]
    obtain ⟨hdd, hrest⟩ := htr heq
    obtain ⟨d1, d2⟩ := disconnectDown_tr H S nb.height (best.height + 1) bs best.height [] hC hdd
    rw [← d1]
    refine bind_sim (disconnectDownB (rawPrims H) nb.height (best.height + 1) bs best.height []) (abs3 E) _ _ (absRd E)
      (fun x => (CanonS E x.1 ∧ x.2.1 ≤ best.height) ∧
        disconnectDownB (rawPrims H) nb.height (best.height + 1) bs best.height [] = .ok x)
      (fun x => CanonS E x.1 ∧ ∀ y ∈ x.2.2, BlkFit H y) (fun a ha => ⟨d2 a ha, ha⟩) ?_
    intro x hx
    obtain ⟨⟨hCx, hle⟩, hdx⟩ := hx
    have hrx := hrest (abs3 E x) (map_ok_of d1 hdx)
    dsimp only [abs3] at hrx ⊢
    have hs1 := syncAt_on_bytes E hCx (h := x.2.1) (by omega)
    rw [hs1]
    cases hsy : syncAtB E x.1 x.2.1 with
    | none => exact ⟨rfl, fun _ h => by cases h⟩
    | some bh =>
      simp only []
      by_cases hb : bh = nb.id
      · simp only [hb, if_true]
        exact ⟨rfl, fun y h => by cases h; exact ⟨hCx, htc⟩⟩
      · simp only [hb, if_false]
        by_cases h0 : x.2.1 = 0
        · simp only [h0, if_true]
          exact ⟨rfl, fun _ h => by cases h⟩
        · simp only [h0, if_false]
          have hs2 := syncAt_on_bytes E hCx (h := x.2.1 - 1) (by omega)
          rw [hs2]
          cases hsy2 : syncAtB E x.1 (x.2.1 - 1) with
          | none => exact ⟨rfl, fun _ h => by cases h⟩
          | some ph =>
            simp only []
            obtain ⟨hwb, hfin⟩ := hrx bh (by rw [hs1, hsy]) hb h0 ph (by rw [hs2, hsy2])
            obtain ⟨w1, w2⟩ := walkBack_tr H S hchain (best.height + 2)
              { bs := x.1, prevH := x.2.1 - 1, prevHash := ph, tail := nb, tc := tc, rolled := x.2.2 } hCx ⟨hnb, htc⟩
              (by show x.2.1 - 1 < collisionHeight; omega) hwb
            have w1' : walkBack c (best.height + 2)
                { s := absStore E x.1, prevH := x.2.1 - 1, prevHash := ph, tail := nb, tc := tc, rolled := x.2.2 }
                = (walkBackB (rawPrims H) (best.height + 2)
                    { bs := x.1, prevH := x.2.1 - 1, prevHash := ph, tail := nb, tc := tc, rolled := x.2.2 }).map
                    (fun x => (absWalk E x.1, x.2)) := w1.symm
            show Except.map (absRd E) _ = (walkBack c (best.height + 2) _ >>= _) ∧ _
            rw [w1']
            refine bind_sim _ (fun (x : WalkB × Bool) => (absWalk E x.1, x.2)) _ _ (absRd E)
              (fun (y : WalkB × Bool) => (CanonS E y.1.bs ∧ WalkOK (rawPrims H) y.1 ∧ y.1.prevH ≤ x.2.1 - 1) ∧
                walkBackB (rawPrims H) (best.height + 2)
                  { bs := x.1, prevH := x.2.1 - 1, prevHash := ph, tail := nb, tc := tc, rolled := x.2.2 } = .ok y)
              (fun y => CanonS E y.1 ∧ ∀ z ∈ y.2.2, BlkFit H z) (fun a ha => ⟨w2 a ha, ha⟩) ?_
            intro wd hwd
            obtain ⟨⟨hCw, hok, _⟩, hwe⟩ := hwd
            by_cases hdone : wd.2 = true
            · simp only [hdone, Bool.not_true, Bool.false_eq_true, if_false]
              have hPd : Pd (absStore E wd.1.bs) (wd.1.prevH + 1) := hfin _ (map_ok_of w1 hwe) hdone
              obtain ⟨e1, e2⟩ := S.disc wd.1.bs (wd.1.prevH + 1) hCw hPd
              have e1' : disconnectBlock c (absWalk E wd.1).s ((absWalk E wd.1).prevH + 1)
                  = (discOf H wd.1.bs (wd.1.prevH + 1)).map (absStore E) := e1.symm
              rw [e1']
              show Except.map (absRd E) (discOf H wd.1.bs (wd.1.prevH + 1) >>= _) = _ ∧
                ∀ y, (discOf H wd.1.bs (wd.1.prevH + 1) >>= _) = .ok y → _
              cases hd : discOf H wd.1.bs (wd.1.prevH + 1) with
              | error e => exact ⟨rfl, fun _ h => by cases h⟩
              | ok bs' =>
                refine ⟨rfl, fun y h => ?_⟩
                cases h
                exact ⟨e2 bs' hd, fun z hz => by
                  rcases List.mem_cons.mp hz with rfl | hz
                  · exact hok.1
                  · exact hok.2 z hz⟩
            · have hdf : wd.2 = false := by cases h : wd.2 <;> simp_all
              simp only [hdf, Bool.not_false, if_true]
              exact ⟨rfl, fun _ h => by cases h⟩

-- ------------------------------------------------------------------ reorg

theorem reorg_tr (hchain : ∀ x ∈ c.node.chain, BlkFit H x) {bs : BStore} (hC : CanonS E bs)
    {best : BlockMeta} (hbest : best.height < collisionHeight) {newBest : Block} (hnb : BlkFit H newBest)
    (htr : reorgOK c Pd Pf (absStore E bs) best newBest) :
    (reorgB (rawPrims H) bs best newBest).map (absRe E) = reorg c (absStore E bs) best newBest ∧
    ∀ x, reorgB (rawPrims H) bs best newBest = .ok x → CanonS E x.1 := by
  unfold reorgB reorg
  cases ha : alignNew c best.height (newBest.height + 1) newBest [] with
  | error e => exact ⟨rfl, fun _ h => by cases h⟩
  | ok a =>
    obtain ⟨ok1, ok2⟩ := alignNew_ok (rawPrims H) hchain best.height (newBest.height + 1) newBest [] a ha hnb
      (fun _ h => by cases h)
    obtain ⟨hrd, hca⟩ := htr a ha
    obtain ⟨r1, r2⟩ := reorgDisconnect_tr H S hchain hC hbest ok1 ok2 hrd
    show Except.map (absRe E) (reorgDisconnectB (rawPrims H) bs best a.1 a.2 >>= _)
      = (reorgDisconnect c (absStore E bs) best a.1 a.2 >>= _) ∧ _
    rw [← r1]
    refine bind_sim _ (absRd E) _ _ (absRe E)
      (fun x => (CanonS E x.1 ∧ ∀ y ∈ x.2.2, BlkFit H y) ∧ reorgDisconnectB (rawPrims H) bs best a.1 a.2 = .ok x)
      (fun x => CanonS E x.1) (fun x hx => ⟨r2 x hx, hx⟩) ?_
    intro x hx
    obtain ⟨⟨hCx, hfx⟩, hrx⟩ := hx
    have hr := ready_raw H hCx
    have hcx : connectAllOK c Pf (readyWallets (absStore E x.1) c.wallets) x.2.2 (absStore E x.1) :=
      hca (absRd E x) (map_ok_of r1 hrx)
    rw [hr] at hcx
    obtain ⟨c1, c2⟩ := connectAll_tr H S ((rawPrims H).readyB x.1) x.2.2 x.1 [] hCx hfx hcx
    show Except.map (absRe E) (connectAllB (rawPrims H) ((rawPrims H).readyB x.1) x.2.2 x.1 [] >>= _)
      = (connectAll c (readyWallets (absStore E x.1) c.wallets) x.2.2 (absStore E x.1) [] >>= _) ∧ _
    rw [hr, ← c1]
    cases hc : connectAllB (rawPrims H) ((rawPrims H).readyB x.1) x.2.2 x.1 [] with
    | error e => exact ⟨rfl, fun _ h => by cases h⟩
    | ok y => exact ⟨rfl, fun z h => by cases h; exact c2 y hc⟩

end

-- ------------------------------------------------------------------ processConnectedBlock

/-- **one whole handler step on bytes with the concrete primitives** (connect and reorg): if the primitives simulate at
    the pairs satisfying `Pd` / `Pf` and the model's run of this step only makes such calls (`processOK`), the abstraction
    of the resulting bytes is the resulting ledger store, volatile state and verdict are the same, and the resulting
    byte store is canonical -/
theorem processBlock_on_bytes_tr (H : HEnv E c) {Pd : Store → Nat → Prop} {Pf : Store → List Wid → Block → Prop}
    (S : SimAt H Pd Pf) (hchain : ∀ x ∈ c.node.chain, BlkFit H x) {bs : BStore} (hC : CanonS E bs) {v : Vol}
    (hbest : v.best.height < collisionHeight) {b : Block} (hb : BlkFit H b)
    (hok : processOK c Pd Pf (absStore E bs) v b) :
    absStore E (processBlockB (rawPrims H) bs v b).1 = (processBlock c (absStore E bs) v b).1 ∧
    (processBlockB (rawPrims H) bs v b).2 = (processBlock c (absStore E bs) v b).2 ∧
    CanonS E (processBlockB (rawPrims H) bs v b).1 := by
  rw [processBlock_eq]
  unfold processBlockB
  unfold processOK at hok
  by_cases hp : b.prev = v.best.hash
  · simp only [hp, if_true] at hok ⊢
    have hr := ready_raw H hC
    rw [hr] at hok
    obtain ⟨f1, f2⟩ := S.filt bs ((rawPrims H).readyB bs) b hC hb hok
    rw [hr, ← f1]
    have hfe : (rawPrims H).filt = filtOf H := rfl
    rw [hfe]
    cases hf : filtOf H bs ((rawPrims H).readyB bs) b with
    | error e => exact ⟨rfl, rfl, hC⟩
    | ok x => exact ⟨rfl, rfl, f2 x hf⟩
  · simp only [hp, if_false] at hok ⊢
    obtain ⟨r1, r2⟩ := reorg_tr H S hchain hC hbest hb hok
    rw [← r1]
    cases hf : reorgB (rawPrims H) bs v.best b with
    | error e => exact ⟨rfl, rfl, hC⟩
    | ok x => exact ⟨rfl, rfl, r2 x hf⟩

end MW.LedBytes
