/-
  Helper lemmas for C02 (manual_spec): fee subtraction and the arithmetic of CreateRawTransaction.
-/
import MW.Model.Fee
namespace MW.Lemmas.FeeManual
open MW MW.Model.Select MW.Model.Fee

/-- an output after the recipients in `selected` have paid `share` each -/
def reduce (selected : List String) (share : Nat) (e : String × Nat) : String × Nat :=
  (e.1, if selected.contains e.1 then e.2 - share else e.2)

def sumVals (l : List (String × Nat)) : Nat := (l.map (·.2)).sum

theorem addAmt_eq (a b c : Nat) (h : addAmt a b = .ok c) : c = a + b := by
  unfold addAmt at h
  by_cases hh : a + b > maxAmount
  · rw [if_pos hh] at h; cases h
  · rw [if_neg hh] at h; injection h with h; omega

theorem subEach_spec (selected : List String) (eachSub : Nat) :
    ∀ (amounts : List (String × Nat)) (tot : Nat) (out : List (String × Nat)) (t : Nat),
      subEach selected eachSub amounts tot = .ok (out, t) →
      out = amounts.map (reduce selected eachSub) ∧ t = tot + sumVals out ∧
      (∀ e ∈ amounts, selected.contains e.1 = true → eachSub ≤ e.2) := by
  intro amounts
  induction amounts with
  | nil =>
    intro tot out t h
    simp only [subEach, Except.ok.injEq, Prod.mk.injEq] at h
    obtain ⟨h1, h2⟩ := h
    subst h1; subst h2
    simp [sumVals]
  | cons e rest ih =>
    intro tot out t h
    unfold subEach at h
    by_cases hu : selected.contains e.1 = true ∧ e.2 < eachSub
    · rw [if_pos hu] at h; cases h
    · rw [if_neg hu] at h
      simp only [] at h
      cases ha : addAmt tot (if selected.contains e.1 = true then e.2 - eachSub else e.2) with
      | error err => rw [ha] at h; simp at h
      | ok tot' =>
        rw [ha] at h
        simp only [] at h
        cases hr : subEach selected eachSub rest tot' with
        | error err => rw [hr] at h; simp at h
        | ok r =>
          obtain ⟨out', t'⟩ := r
          rw [hr] at h
          simp only [Except.ok.injEq, Prod.mk.injEq] at h
          obtain ⟨h1, h2⟩ := h
          subst h1; subst h2
          obtain ⟨i1, i2, i3⟩ := ih tot' out' t' hr
          have htot : tot' = tot + (if selected.contains e.1 = true then e.2 - eachSub else e.2) :=
            addAmt_eq _ _ _ ha
          refine ⟨?_, ?_, ?_⟩
          · simp only [List.map_cons, reduce]
            rw [← i1]
          · rw [i2, htot]
            simp only [sumVals, List.map_cons, List.sum_cons]
            omega
          · intro x hx hs
            rcases List.mem_cons.mp hx with hx | hx
            · subst hx
              by_cases hlt : x.2 < eachSub
              · exact absurd ⟨hs, hlt⟩ hu
              · omega
            · exact i3 x hx hs

theorem ceil_mul (fee n : Nat) (hn : 0 < n) : fee ≤ (fee + n - 1) / n * n ∧ (fee + n - 1) / n * n < fee + n := by
  have h1 := Nat.div_add_mod (fee + n - 1) n
  have h2 := Nat.mod_lt (fee + n - 1) hn
  have h3 : (fee + n - 1) / n * n = n * ((fee + n - 1) / n) := Nat.mul_comm _ _
  omega

/-- share each chosen recipient pays, and the fee actually collected -/
def shareOf (fee n : Nat) : Nat := if n = 0 then 0 else (fee + n - 1) / n
def feeEff (fee n : Nat) : Nat := if n = 0 then fee else (fee + n - 1) / n * n

theorem feeEff_bounds (fee n : Nat) : fee ≤ feeEff fee n ∧ feeEff fee n < fee + max n 1 := by
  unfold feeEff
  by_cases h : n = 0
  · subst h; simp
  · simp only [h, if_false]
    have := ceil_mul fee n (by omega)
    have : max n 1 = n := by omega
    omega

theorem maybeSubtractFee_spec (amounts : List (String × Nat)) (selected : List String) (fee : Nat)
    (na : List (String × Nat)) (tot : Nat) (h : maybeSubtractFee amounts selected fee = .ok (na, tot)) :
    na = amounts.map (reduce selected (shareOf fee selected.length)) ∧
    tot = feeEff fee selected.length + sumVals na ∧
    (∀ e ∈ amounts, selected.contains e.1 = true → shareOf fee selected.length ≤ e.2) ∧
    (∀ a ∈ selected, ∃ e ∈ amounts, e.1 = a) := by
  unfold maybeSubtractFee at h
  by_cases hs : selected.any (fun a => !(amounts.any (fun e => e.1 == a))) = true
  · simp [hs] at h
  · simp only [hs] at h
    have hknown : ∀ a ∈ selected, ∃ e ∈ amounts, e.1 = a := by
      intro a ha
      have : ¬ (!(amounts.any (fun e => e.1 == a))) = true := by
        intro hh
        exact hs (List.any_eq_true.mpr ⟨a, ha, hh⟩)
      simp only [Bool.not_eq_true', Bool.not_eq_false] at this
      obtain ⟨e, he, heq⟩ := List.any_eq_true.mp this
      exact ⟨e, he, by simpa using heq⟩
    by_cases hn : selected.length = 0
    · simp only [hn, Bool.false_eq_true, if_false, if_true] at h
      have hsel : selected = [] := List.length_eq_zero_iff.mp hn
      by_cases hf : fee > maxAmount
      · simp [hf] at h
      · simp only [hf, if_false] at h
        obtain ⟨a, b, c⟩ := subEach_spec [] 0 amounts fee na tot h
        subst hsel
        refine ⟨?_, ?_, ?_, hknown⟩
        · simpa [shareOf] using a
        · simpa [feeEff] using b
        · intro e he hc; simp at hc
    · simp only [hn, Bool.false_eq_true, if_false] at h
      by_cases h1 : (fee + selected.length - 1) / selected.length > maxAmount
      · simp [h1] at h
      · simp only [h1, if_false] at h
        by_cases h2 : (fee + selected.length - 1) / selected.length * selected.length > maxAmount
        · simp [h2] at h
        · simp only [h2, if_false] at h
          obtain ⟨a, b, c⟩ := subEach_spec _ _ amounts _ na tot h
          refine ⟨?_, ?_, ?_, hknown⟩
          · simpa [shareOf, hn] using a
          · simpa [feeEff, hn] using b
          · simpa [shareOf, hn] using c

/-- what a successful manual build guarantees -/
structure ManualOk (totalIn nIn : Nat) (amounts : List (String × Nat)) (subfee : List String) (res : ManualRes) : Prop where
  /-- the relay minimum of the size the transaction finally has -/
  outs : res.outs = amounts.map (reduce subfee (shareOf
            (relayFee (estSize nIn (amounts.length + (if res.change = 0 then 0 else 1)))) subfee.length))
  conserve : totalIn = sumVals res.outs + res.change + res.fee
  fee : res.fee = feeEff (relayFee (estSize nIn (amounts.length + (if res.change = 0 then 0 else 1)))) subfee.length
  noDustOut : ∀ e ∈ res.outs, isDust e.2 Gen.TxBuild.p2wshScriptLen = false
  noDustChange : res.change ≠ 0 → isDust res.change Gen.TxBuild.p2wshScriptLen = false
  subKnown : ∀ a ∈ subfee, ∃ e ∈ amounts, e.1 = a

theorem dustCheck_ok (newA : List (String × Nat)) (change : Nat) (h : dustCheck newA change = .ok ()) :
    (∀ e ∈ newA, isDust e.2 Gen.TxBuild.p2wshScriptLen = false) ∧
    (change ≠ 0 → isDust change Gen.TxBuild.p2wshScriptLen = false) := by
  unfold dustCheck at h
  by_cases h1 : newA.any (fun e => isDust e.2 Gen.TxBuild.p2wshScriptLen) = true
  · simp [h1] at h
  · simp only [h1, Bool.false_eq_true, if_false] at h
    constructor
    · intro e he
      cases hd : isDust e.2 Gen.TxBuild.p2wshScriptLen with
      | false => rfl
      | true => exact absurd (List.any_eq_true.mpr ⟨e, he, hd⟩) h1
    · intro hc
      cases hd : isDust change Gen.TxBuild.p2wshScriptLen with
      | false => rfl
      | true => simp [hc, hd] at h

theorem dustCheck_err (newA : List (String × Nat)) (change : Nat) (e : Model.Fee.Err) (h : dustCheck newA change = .error e) :
    e = .dust ∨ e = .dustChange := by
  unfold dustCheck at h
  split at h
  · injection h with h; exact Or.inl h.symm
  · split at h
    · injection h with h; exact Or.inr h.symm
    · cases h

theorem manualBuild_spec (totalIn nIn : Nat) (amounts : List (String × Nat)) (subfee : List String)
    (res : ManualRes) (h : manualBuild totalIn nIn amounts subfee = .ok res) :
    ManualOk totalIn nIn amounts subfee res := by
  unfold manualBuild at h
  simp only [] at h
  cases hnc : maybeSubtractFee amounts subfee (relayFee (estSize nIn amounts.length)) with
  | error e => rw [hnc] at h; simp at h
  | ok r =>
    obtain ⟨newA, totNC⟩ := r
    rw [hnc] at h
    simp only [] at h
    obtain ⟨a1, a2, a3, a4⟩ := maybeSubtractFee_spec _ _ _ _ _ hnc
    by_cases hlt : totalIn < totNC
    · rw [if_pos hlt] at h; cases h
    · rw [if_neg hlt] at h
      by_cases hz : totalIn - totNC = 0
      · rw [if_pos hz] at h
        cases hd : dustCheck newA 0 with
        | error e => rw [hd] at h; cases h
        | ok u =>
          rw [hd] at h
          simp only [Except.ok.injEq] at h
          subst h
          obtain ⟨d1, d2⟩ := dustCheck_ok _ _ hd
          have hfee := feeEff_bounds (relayFee (estSize nIn amounts.length)) subfee.length
          refine ⟨by simpa using a1, ?_, ?_, d1, by simp, a4⟩
          · simp only [sumVals] at a2 ⊢
            omega
          · simp only [if_true, Nat.add_zero]
            simp only [sumVals] at a2
            omega
      · rw [if_neg hz] at h
        cases hwc : maybeSubtractFee amounts subfee (relayFee (estSize nIn (amounts.length + 1))) with
        | error e => rw [hwc] at h; simp at h
        | ok r2 =>
          obtain ⟨newA', tot⟩ := r2
          rw [hwc] at h
          simp only [] at h
          obtain ⟨b1, b2, b3, b4⟩ := maybeSubtractFee_spec _ _ _ _ _ hwc
          by_cases hle : totalIn ≤ tot
          · rw [if_pos hle] at h; cases h
          · rw [if_neg hle] at h
            cases hd : dustCheck newA' (totalIn - tot) with
            | error e => rw [hd] at h; cases h
            | ok u =>
              rw [hd] at h
              simp only [Except.ok.injEq] at h
              subst h
              obtain ⟨d1, d2⟩ := dustCheck_ok _ _ hd
              have hne : totalIn - tot ≠ 0 := by omega
              refine ⟨?_, ?_, ?_, d1, fun _ => d2 hne, b4⟩
              · simp only [hne, if_false]; exact b1
              · simp only [sumVals] at b2 ⊢
                omega
              · simp only [hne, if_false]
                simp only [sumVals] at b2
                omega

end MW.Lemmas.FeeManual
