/-
  C16 helper lemmas, part 1: the index-based tokenizer of MW.Model.Script (parseStep / parseLoop,
  every index guarded) equals a suffix-based tokenizer `tokF` built from a one-instruction decoder
  `stepF`; `tokF` never panics.
-/
import MW.Model.Script
namespace MW.Lemmas.ScriptTok
open MW MW.Model.Script

/-- `opcodeArray[n].length` as a formula -/
def opLenFN (n : Nat) : Int :=
  if n = 0 then 1 else if n ≤ 75 then (n : Int) + 1 else if n = 76 then -1 else if n = 77 then -2
  else if n = 78 then -4 else 1

set_option maxRecDepth 100000 in
/-- shape expectation on the regenerated table (tie B): 256 entries following the formula -/
theorem opLenTable_ok : ∀ n, n < 256 → Gen.Script.opLenTable[n]? = some (opLenFN n) := by decide

theorem opLength_eq (b : UInt8) : opLength b = .ok (opLenFN b.toNat) := by
  unfold opLength idx
  rw [opLenTable_ok b.toNat (UInt8.toNat_lt b)]


theorem idx_shift {α} (s : List α) (i j : Nat) : idx s (i + j) = idx (s.drop i) j := by
  unfold idx; rw [List.getElem?_drop]

theorem slice_shift {α} (s : List α) (i a c : Nat) (hi : i ≤ s.length) :
    slice s (i + a) (i + c) = slice (s.drop i) a c := by
  unfold slice
  have h1 : (i + a ≤ i + c ∧ i + c ≤ s.length) ↔ (a ≤ c ∧ c ≤ (s.drop i).length) := by
    rw [List.length_drop]; omega
  by_cases h : a ≤ c ∧ c ≤ (s.drop i).length
  · rw [if_pos h, if_pos (h1.mpr h), List.drop_drop]
    have : i + c - (i + a) = c - a := by omega
    rw [this]
  · rw [if_neg h, if_neg (fun x => h (h1.mp x))]

theorem slice_shift_end {α} (s : List α) (i a : Nat) (hi : i ≤ s.length) :
    slice s (i + a) s.length = slice (s.drop i) a (s.drop i).length := by
  have : s.length = i + (s.drop i).length := by rw [List.length_drop]; omega
  conv => lhs; rw [this]
  rw [slice_shift s i a _ hi]

def shiftRes (i : Nat) : M (Pop × Nat) → M (Pop × Nat)
  | .ok (p, n) => .ok (p, i + n)
  | .error e => .error e

theorem parseStep_shift (s : Bytes) (i : Nat) (hi : i ≤ s.length) :
    parseStep s i = shiftRes i (parseStep (s.drop i) 0) := by
  unfold parseStep
  have e0 : idx s i = idx (s.drop i) 0 := idx_shift s i 0
  rw [e0]
  cases h0 : idx (s.drop i) 0 with
  | error e => simp [bind, Except.bind, shiftRes]
  | ok instr =>
    simp only [bind, Except.bind]
    cases hl : opLength instr with
    | error e => simp [shiftRes]
    | ok len =>
      simp only []
      have a0 : slice s i s.length = slice (s.drop i) 0 (s.drop i).length := slice_shift_end s i 0 hi
      have a1 : ∀ c, slice s (i + 1) (i + c) = slice (s.drop i) 1 c := fun c => slice_shift s i 1 c hi
      have a2 : ∀ a, slice s (i + a) s.length = slice (s.drop i) a (s.drop i).length := fun a => slice_shift_end s i a hi
      have a3 : ∀ a c, slice s (i + a) (i + c) = slice (s.drop i) a c := fun a c => slice_shift s i a c hi
      have a4 : ∀ j, idx s (i + j) = idx (s.drop i) j := fun j => idx_shift s i j
      simp only [Nat.add_assoc, Nat.zero_add, a0, a1, a2, a3, a4]
      generalize s.drop i = t
      repeat' split
      all_goals simp_all [shiftRes, pure, Except.pure, fail]

/-- number of length bytes of OP_PUSHDATA1/2/4 -/
def pushK (n : Nat) : Nat := if n = 76 then 1 else if n = 77 then 2 else 4

/-- one instruction at the head of `b :: r`: the parsed opcode and the number of bytes it occupies -/
def stepG (b : UInt8) (r : Bytes) : M (Pop × Nat) :=
  if b.toNat = 0 ∨ 78 < b.toNat then .ok (⟨b, []⟩, 1)
  else if b.toNat ≤ 75 then
    (if r.length < b.toNat then fail .shortScript else .ok (⟨b, r.take b.toNat⟩, b.toNat + 1))
  else if r.length < pushK b.toNat then fail .shortScript
  else if leNat (r.take (pushK b.toNat)) > r.length - pushK b.toNat then fail .shortScript
  else .ok (⟨b, (r.drop (pushK b.toNat)).take (leNat (r.take (pushK b.toNat)))⟩,
            1 + pushK b.toNat + leNat (r.take (pushK b.toNat)))

theorem slice_all {α} (l : List α) : slice l 0 l.length = .ok l := by
  simp [slice]

theorem slice_tail {α} (a : α) (l : List α) : slice (a :: l) 1 (a :: l).length = .ok l := by
  simp [slice]

theorem parseStep_cons (b : UInt8) (r : Bytes) : parseStep (b :: r) 0 = stepG b r := by
  unfold parseStep stepG
  have hi : idx (b :: r) 0 = .ok b := rfl
  simp only [hi, bind, Except.bind, opLength_eq]
  by_cases h0 : b.toNat = 0
  · simp [opLenFN, h0, pure, Except.pure]
  by_cases h75 : b.toNat ≤ 75
  · have hl : opLenFN b.toNat = (b.toNat : Int) + 1 := by simp [opLenFN, h0, h75]
    have hne : ¬ ((b.toNat : Int) + 1 == 1) = true := by simp; omega
    have hgt : (b.toNat : Int) + 1 > 1 := by omega
    have htn : ((b.toNat : Int) + 1).toNat = b.toNat + 1 := by omega
    have h78 : ¬ (b.toNat = 0 ∨ 78 < b.toNat) := by omega
    simp only [hl, hne, hgt, htn, h78, h75, if_true, if_false, slice_all, Nat.zero_add]
    by_cases hr : r.length < b.toNat
    · have : (b :: r).length < b.toNat + 1 := by simp; omega
      simp only [this, hr, if_true]; simp
    · have : ¬ (b :: r).length < b.toNat + 1 := by simp; omega
      have hs : slice (b :: r) 1 (b.toNat + 1) = .ok (r.take b.toNat) := by
        unfold slice; simp; omega
      simp only [this, hr, hs, if_false, pure, Except.pure]; simp
  · by_cases h76 : b.toNat = 76
    · rcases r with _ | ⟨c0, r'⟩
      · simp [opLenFN, h76, pushK, slice, fail]
      · simp [opLenFN, h76, pushK, slice, idx, fail, pure, Except.pure, leNat]
        by_cases hc : r'.length < c0.toNat
        · simp [hc]
        · have : 2 + c0.toNat ≤ r'.length + 1 + 1 := by omega
          simp [hc, this]
    by_cases h77 : b.toNat = 77
    · rcases r with _ | ⟨c0, _ | ⟨c1, r'⟩⟩
      · simp [opLenFN, h77, pushK, slice, fail]
      · simp [opLenFN, h77, pushK, slice, fail]
      · simp [opLenFN, h77, pushK, slice, idx, fail, pure, Except.pure, leNat]
        have e : c1.toNat * 256 + c0.toNat = c0.toNat + 256 * c1.toNat := by omega
        rw [e]
        generalize c0.toNat + 256 * c1.toNat = l
        have h2 : ¬ r'.length + 1 + 1 < 2 := by omega
        simp only [h2, if_false]
        by_cases hc : r'.length < l
        · simp [hc]
        · have : 3 + l ≤ r'.length + 1 + 1 + 1 := by omega
          simp [hc, this]
    by_cases h78 : b.toNat = 78
    · rcases r with _ | ⟨c0, _ | ⟨c1, _ | ⟨c2, _ | ⟨c3, r'⟩⟩⟩⟩
      · simp [opLenFN, h78, pushK, slice, fail]
      · simp [opLenFN, h78, pushK, slice, fail]
      · simp [opLenFN, h78, pushK, slice, fail]
      · simp [opLenFN, h78, pushK, slice, fail]
      · simp [opLenFN, h78, pushK, slice, idx, fail, pure, Except.pure, leNat]
        have e : c3.toNat * 16777216 + c2.toNat * 65536 + c1.toNat * 256 + c0.toNat
            = c0.toNat + 256 * (c1.toNat + 256 * (c2.toNat + 256 * c3.toNat)) := by omega
        rw [e]
        generalize c0.toNat + 256 * (c1.toNat + 256 * (c2.toNat + 256 * c3.toNat)) = l
        have h2 : ¬ r'.length + 1 + 1 + 1 + 1 < 4 := by omega
        simp only [h2, if_false]
        by_cases hc : r'.length < l
        · simp [hc]
        · have : 5 + l ≤ r'.length + 1 + 1 + 1 + 1 + 1 := by omega
          simp [hc, this]
    · have : 78 < b.toNat := by omega
      simp [opLenFN, h0, h75, h76, h77, h78, this, pure, Except.pure]

/-! ### the suffix tokenizer -/

/-- tokenizer on the remaining suffix; `stepG` decodes one instruction and says how many bytes it took -/
def tokF : Nat → Bytes → M (List Pop)
  | 0, [] => .ok []
  | 0, _ :: _ => panic .fuel
  | _ + 1, [] => .ok []
  | f + 1, b :: r =>
    match stepG b r with
    | .error e => .error e
    | .ok (p, n) =>
      match tokF f ((b :: r).drop n) with
      | .error e => .error e
      | .ok ps => .ok (p :: ps)

def mapOk {α β} (f : α → β) : M α → M β
  | .ok a => .ok (f a)
  | .error e => .error e

theorem pushK_pos (n : Nat) : 1 ≤ pushK n := by
  unfold pushK
  split
  · omega
  · split <;> omega

theorem stepG_consumed {b : UInt8} {r : Bytes} {p : Pop} {n : Nat} (h : stepG b r = .ok (p, n)) :
    1 ≤ n ∧ n ≤ r.length + 1 ∧ p.op = b := by
  unfold stepG at h
  simp only [fail] at h
  have hk := pushK_pos b.toNat
  generalize pushK b.toNat = k at h hk
  by_cases h1 : b.toNat = 0 ∨ 78 < b.toNat
  · rw [if_pos h1] at h; cases h; simp
  · rw [if_neg h1] at h
    by_cases h2 : b.toNat ≤ 75
    · rw [if_pos h2] at h
      by_cases h3 : r.length < b.toNat
      · rw [if_pos h3] at h; cases h
      · rw [if_neg h3] at h; cases h; simp; omega
    · rw [if_neg h2] at h
      by_cases h3 : r.length < k
      · rw [if_pos h3] at h; cases h
      · rw [if_neg h3] at h
        by_cases h4 : leNat (r.take k) > r.length - k
        · rw [if_pos h4] at h; cases h
        · rw [if_neg h4] at h; cases h; simp; omega

theorem stepG_not_panic (b : UInt8) (r : Bytes) (k : PanicKind) : stepG b r ≠ .error (.panic k) := by
  unfold stepG
  simp only [fail]
  repeat' split
  all_goals simp

theorem parseLoop_eq : ∀ (fuel : Nat) (s : Bytes) (i : Nat) (acc : List Pop), i ≤ s.length →
    parseLoop fuel s i acc = mapOk (acc ++ ·) (tokF fuel (s.drop i)) := by
  intro fuel
  induction fuel with
  | zero =>
    intro s i acc hi
    unfold parseLoop
    by_cases h : i < s.length
    · rw [if_pos h]
      have : s.drop i = s[i] :: s.drop (i + 1) := List.drop_eq_getElem_cons h
      rw [this]; simp [tokF, mapOk, Model.Script.panic]
    · rw [if_neg h]
      have : s.drop i = [] := List.drop_eq_nil_of_le (by omega)
      rw [this]; simp [tokF, mapOk, pure, Except.pure]
  | succ f ih =>
    intro s i acc hi
    unfold parseLoop
    by_cases h : i < s.length
    · rw [if_pos h]
      have hd : s.drop i = s[i] :: s.drop (i + 1) := List.drop_eq_getElem_cons h
      rw [parseStep_shift s i hi, hd, parseStep_cons]
      simp only [tokF]
      cases hs : stepG s[i] (s.drop (i + 1)) with
      | error e => simp [shiftRes, bind, Except.bind, mapOk]
      | ok pn =>
        obtain ⟨p, n⟩ := pn
        have hc := stepG_consumed hs
        have hlen : (s.drop (i + 1)).length = s.length - (i + 1) := List.length_drop
        have hin : i + n ≤ s.length := by omega
        simp only [shiftRes, bind, Except.bind]
        rw [ih s (i + n) (acc ++ [p]) hin, ← hd, List.drop_drop]
        cases tokF f (s.drop (i + n)) with
        | error e => simp [mapOk]
        | ok ps => simp [mapOk]
    · rw [if_neg h]
      have : s.drop i = [] := List.drop_eq_nil_of_le (by omega)
      rw [this]; simp [tokF, mapOk, pure, Except.pure]

theorem parseScript_eq (s : Bytes) : parseScript s = tokF s.length s := by
  unfold parseScript
  rw [parseLoop_eq s.length s 0 [] (Nat.zero_le _)]
  simp only [List.drop_zero]
  cases tokF s.length s <;> simp [mapOk]

theorem tokF_not_panic : ∀ (f : Nat) (t : Bytes), t.length ≤ f → ∀ k, tokF f t ≠ .error (.panic k) := by
  intro f
  induction f with
  | zero =>
    intro t ht k
    have : t = [] := List.eq_nil_of_length_eq_zero (by omega)
    subst this; simp [tokF]
  | succ f ih =>
    intro t ht k
    cases t with
    | nil => simp [tokF]
    | cons b r =>
      simp only [tokF]
      cases hs : stepG b r with
      | error e =>
        intro h
        simp only [Except.error.injEq] at h
        subst h; exact stepG_not_panic b r k hs
      | ok pn =>
        obtain ⟨p, n⟩ := pn
        have hc := stepG_consumed hs
        have hl : ((b :: r).drop n).length ≤ f := by
          rw [List.length_drop]; simp at ht ⊢; omega
        have := ih ((b :: r).drop n) hl k
        cases ht2 : tokF f ((b :: r).drop n) with
        | error e =>
          simp only [ht2]
          intro he
          simp only [Except.error.injEq] at he
          subst he; exact this ht2
        | ok ps => simp [ht2]

theorem parseScript_not_panic (s : Bytes) (k : PanicKind) : parseScript s ≠ .error (.panic k) := by
  rw [parseScript_eq]; exact tokF_not_panic s.length s (Nat.le_refl _) k

end MW.Lemmas.ScriptTok
