/-
  C08 — the live follower while a wallet `w` is FLAGGED FOR REMOVAL (status `⟨none, true⟩`): the follower only asks
  `readyWallets`, so it treats `w` exactly like a wallet being restored (C07), except that the cursor pull-back of
  `disconnectBlock` leaves `w`'s status alone.  The joined-store invariant `ScanJS c w s X k` of C07 is kept, with the
  height `k` a GHOST parameter (the height at which the wallet was flagged, lowered to the new tip when a
  reorganisation goes below it): `w`'s half of the store is "the books of `w`'s keystore for `X.take (k+1)`", the other
  half is followed live.

    FJ                 "store `s` follows chain `X` while `w` is flagged and the other keystores' wallets are followed"
    inv_to_fj          C01's `Inv` at the moment of flagging gives `FJ` with `k` = the tip
    inv_flag_to_fj     … for the store `removeWallet` returns when the gate answers `.ok`
    fj_disc / fj_connect / fj_connSpec / fj_processBlock
                       a notification for ANY block of the node's best chain (extension, reorganisation above / at /
                       below the ghost height) keeps `FJ`
-/
import MW.Lemmas.ImportJoinReorg2
import MW.Model.Remove
namespace MW.Lemmas.RemoveFlagged
open MW MW.Model.Ledger MW.Model.Import MW.Model.Remove MW.Spec.Chain MW.Spec.Books MW.Lemmas.Ledger
open MW.Lemmas.RemoveBooks MW.Lemmas.ImportExact MW.Lemmas.ImportReorg MW.Lemmas.ImportJoin

/-- "store `s` follows chain `X`" while `w` is flagged for removal and the other keystores' wallets are followed live
    (`k`: ghost height up to which `w`'s half of the store is booked) -/
def FJ (c : Ctx) (w : Wid) (s : Store) (X : List Block) : Prop :=
  ∃ k, k + 1 ≤ X.length ∧ ScanJS c w s X k ∧ AMap.get s.status w = some ⟨none, true⟩ ∧
    AllReady (ownR c.own w) (readyWallets s c.wallets) ∧ (readyWallets s c.wallets).isEmpty = false

theorem fj_sync {c : Ctx} {w : Wid} {s : Store} {X : List Block} (h : FJ c w s X) :
    ∀ h', AMap.get s.sync h' = syncOf X h' := by
  obtain ⟨_, _, hS, _, _, _⟩ := h
  exact hS.sync

theorem fj_notReady {c : Ctx} {w : Wid} {s : Store} {X : List Block} (h : FJ c w s X) (l : List Wid) :
    (readyWallets s l).contains w = false := by
  obtain ⟨_, _, _, hst, _, _⟩ := h
  exact notReady_of_removed hst rfl

-- ------------------------------------------------------------------ from C01's invariant to the joined invariant

/-- at the tip the join of the two halves IS the books of the full keystore table: a store that holds the books of
    `chain` (C01 `Inv`) and `w`'s balance is a joined store with ghost height = the tip -/
theorem inv_to_scanJS {c : Ctx} {w : Wid} {s : Store} {chain : List Block} (hKN : KeysNodup c.own)
    (hI : Inv c s chain) (hV : ChainValid c.own chain) (hH : HeightsOK chain)
    (hbalw : AMap.get s.balance w = some (totalU (bookOf c.p c.own chain).L w)) :
    ScanJS c w s chain (chain.length - 1) := by
  have hOr := ownR_sub hKN w
  have hOw := ownW_sub hKN w
  have htake : chain.take (chain.length - 1 + 1) = chain := List.take_of_length_le (by omega)
  have hA : AgreeJ s (bookOf c.p (ownR c.own w) chain) (bookOf c.p (ownW c.own w) chain) := by
    constructor
    · intro w' tx idx
      rw [hI.agree.unspent, join_lookup (p := c.p) hOr hOw hV]
    · intro key; rw [hI.agree.credits, join_credits (p := c.p) hOr hOw hV]
    · intro key; rw [hI.agree.debits, join_debits (p := c.p) hOr hOw hV]
    · intro key; rw [hI.agree.game, join_game (p := c.p) hOr hOw hV]
    · intro key; rw [hI.agree.txrecs, join_txrecs (p := c.p) hOr hOw hV]
  refine ⟨by rw [htake]; exact hA, ?_, ?_, ?_, ?_, hI.sync, hI.syncedTo⟩
  · intro h
    rw [hI.agree.blocks, blocks_eq_blockRecOf c.p c.own chain hV hH h]
    apply blockRecOf_congr
    intro key
    unfold hasRec
    rw [hI.agree.txrecs]
  · intro key loc hl
    rw [hI.agree.txrecs] at hl
    obtain ⟨P₁, oc, P₂, hsp, _, hk', hloc⟩ := txrec_occ hV hl
    exact ⟨oc, by rw [hsp]; simp, hk', hloc⟩
  · rw [htake, hbalw, join_total_w (p := c.p) hOw]
  · intro w' hww hr
    rw [hI.bal w' hr, join_total_r (p := c.p) (chain := chain) hOr w' hww]

/-- **C01's invariant + the removal flag ⟹ `FJ`**, ghost height = the tip.  `Inv.bal` speaks of READY wallets only,
    hence `hbalw` (it holds before the flag is set, and setting the flag does not touch the balance bucket:
    `inv_flag_to_fj`) -/
theorem inv_to_fj {c : Ctx} {w : Wid} {s : Store} {chain : List Block} (hKN : KeysNodup c.own)
    (hI : Inv c s chain) (hV : ChainValid c.own chain) (hH : HeightsOK chain) (hne : chain ≠ [])
    (hflag : AMap.get s.status w = some ⟨none, true⟩)
    (hbalw : AMap.get s.balance w = some (totalU (bookOf c.p c.own chain).L w))
    (hAR : AllReady (ownR c.own w) (readyWallets s c.wallets))
    (hrne : (readyWallets s c.wallets).isEmpty = false) : FJ c w s chain := by
  have hlen : chain.length ≠ 0 := fun h => hne (List.eq_nil_of_length_eq_zero h)
  exact ⟨chain.length - 1, by omega, inv_to_scanJS hKN hI hV hH hbalw, hflag, hAR, hrne⟩

-- ------------------------------------------------------------------ setting the flag

/-- the gate (`MW.Props.C08.remove_gated`, restated here for the store): accepted ⟹ exactly the flag is set -/
theorem removeWallet_ok {q : Nat} {ks : List Wid} {po : Bool} {s : Store} {w : Wid}
    (h : (removeWallet q ks po s w).1 = .ok) :
    ∃ st, AMap.get s.status w = some st ∧ st.synced = none ∧
      (removeWallet q ks po s w).2 = { s with status := AMap.put s.status w { st with removed := true } } := by
  unfold removeWallet at h ⊢
  by_cases h1 : q ≥ Gen.Handler.maxWaitingTaskNum
  · rw [if_pos h1] at h; cases h
  · rw [if_neg h1] at h ⊢
    by_cases h2 : (!ks.contains w) = true
    · rw [if_pos h2] at h; cases h
    · rw [if_neg h2] at h ⊢
      by_cases h3 : (!po) = true
      · rw [if_pos h3] at h; cases h
      · rw [if_neg h3] at h ⊢
        cases hst : AMap.get s.status w with
        | none => rw [hst] at h; cases h
        | some st =>
          rw [hst] at h
          simp only at h ⊢
          by_cases h4 : st.synced.isSome = true
          · rw [if_pos h4] at h; cases h
          · rw [if_neg h4]
            exact ⟨st, rfl, by simpa using h4, rfl⟩

/-- **flagging a READY wallet of a store that holds the books of `chain`** (C01 `Inv`, every keystore's wallet ready)
    gives `FJ` with ghost height = the tip; `hother`: some other wallet stays ready (otherwise the follower's
    `filterBlock` skips blocks altogether: the `isEmpty = false` clause of `FJ`) -/
theorem inv_flag_to_fj {c : Ctx} {w : Wid} {s : Store} {chain : List Block} {q : Nat} {ks : List Wid} {po : Bool}
    (hKN : KeysNodup c.own) (hI : Inv c s chain) (hV : ChainValid c.own chain) (hH : HeightsOK chain) (hne : chain ≠ [])
    (hrw : (readyWallets s c.wallets).contains w = true) (hAR : AllReady c.own (readyWallets s c.wallets))
    (hother : ∃ w', w' ≠ w ∧ (readyWallets s c.wallets).contains w' = true)
    (hgate : (removeWallet q ks po s w).1 = .ok) : FJ c w (removeWallet q ks po s w).2 chain := by
  obtain ⟨st, hst, _, heq⟩ := removeWallet_ok hgate
  have hst0 := status_of_ready_mem hrw
  rw [hst] at hst0
  have hst1 : st = ⟨none, false⟩ := Option.some.inj hst0
  subst hst1
  rw [heq]
  -- the other wallets' statuses, hence their readiness, are unchanged
  have hget : ∀ w', w' ≠ w → AMap.get ({ s with status := AMap.put s.status w ⟨none, true⟩ } : Store).status w' =
      AMap.get s.status w' := by
    intro w' hw'
    show AMap.get (AMap.put s.status w _) w' = _
    rw [AMap.get_put, if_neg (fun h => hw' h.symm)]
  have hflag : AMap.get ({ s with status := AMap.put s.status w ⟨none, true⟩ } : Store).status w = some ⟨none, true⟩ := by
    show AMap.get (AMap.put s.status w _) w = _
    rw [AMap.get_put, if_pos rfl]
  have hnr := notReady_of_removed (l := c.wallets) hflag rfl
  have hrdy : ∀ w', w' ≠ w → (readyWallets { s with status := AMap.put s.status w ⟨none, true⟩ } c.wallets).contains w' =
      (readyWallets s c.wallets).contains w' := fun w' hw' => ready_contains_congr (hget w' hw')
  have hI' : Inv c { s with status := AMap.put s.status w ⟨none, true⟩ } chain := by
    refine ⟨⟨hI.agree.unspent, hI.agree.credits, hI.agree.debits, hI.agree.game, hI.agree.txrecs, hI.agree.blocks⟩,
      ?_, hI.sync, hI.syncedTo⟩
    intro w' hw'
    have hww : w' ≠ w := by
      intro he; rw [he, hnr] at hw'; cases hw'
    rw [hrdy w' hww] at hw'
    exact hI.bal w' hw'
  apply inv_to_fj hKN hI' hV hH hne hflag (hI.bal w hrw)
  · intro a w' ch ha
    have hsub := ownR_sub hKN w a
    rw [ha] at hsub
    cases hg : AMap.get c.own a with
    | none => rw [hg] at hsub; cases hsub
    | some x =>
      rw [hg] at hsub
      by_cases hx : x.1 ≠ w
      · have hd : decide (x.1 ≠ w) = true := decide_eq_true hx
        simp only [Option.filter, hd, if_true] at hsub
        have hx' : x = (w', ch) := (Option.some.inj hsub).symm
        subst hx'
        rw [hrdy w' hx]
        exact hAR a w' ch hg
      · simp [Option.filter, hx] at hsub
  · obtain ⟨w', hw', hr'⟩ := hother
    rw [← hrdy w' hw'] at hr'
    cases hl : readyWallets { s with status := AMap.put s.status w ⟨none, true⟩ } c.wallets with
    | nil => rw [hl] at hr'; cases hr'
    | cons _ _ => rfl

-- ------------------------------------------------------------------ the follower's steps keep `FJ`

/-- **disconnecting the tip block**: above the ghost height `w`'s half is untouched, at it both halves are undone and
    the ghost height becomes the new tip; `w`'s status (no cursor) is left alone by the pull-back -/
theorem fj_disc {c : Ctx} {w : Wid} (hKN : KeysNodup c.own) {S : List Block}
    (hgS : GoodChain S) (hvS : ChainValid c.own S) (hkn : ∀ x ∈ S, AMap.get c.node.known x.id = some x)
    {s : Store} {k : Nat} (hk0 : 0 < k) (hkl : k < S.length) (hI : FJ c w s (S.take (k + 1))) :
    ∃ s', disconnectBlock c s k = .ok s' ∧ FJ c w s' (S.take k) := by
  have hx : S[k]? = some S[k] := List.getElem?_eq_getElem hkl
  have e := take_succ_of_get hx
  have hbh : S[k].height = k := hgS.height_at hx
  have hne : S.take k ≠ [] := by
    intro h0
    have := congrArg List.length h0
    rw [List.length_take, List.length_nil] at this
    omega
  have hV : ChainValid c.own (S.take k ++ [S[k]]) := by rw [← e]; exact chainValid_take hvS _
  have hH : HeightsOK (S.take k ++ [S[k]]) := by rw [← e]; exact heightsOK_take hgS.heights _
  have hknb := hkn _ (mem_of_get hx)
  have hlk : (S.take k).length = k := by rw [List.length_take]; omega
  rw [e] at hI
  obtain ⟨k0, hle, hS, hst, hAR, hne'⟩ := hI
  simp only [List.length_append, List.length_singleton, hlk] at hle
  by_cases hat : k0 = k
  · -- at the ghost height
    subst hat
    obtain ⟨s', hd, hS', _, hkeep, hr'⟩ := disconnect_scanJS_at' hKN hV hH hne hknb (by rw [hlk]; exact hS) hAR
    rw [hbh] at hd
    refine ⟨s', hd, _, by rw [hlk]; omega, hS', hkeep w _ hst rfl, ?_, ?_⟩
    · rw [hr']; exact hAR
    · rw [hr']; exact hne'
  · obtain ⟨s', hd, hS', _, hkeep, hr'⟩ := disconnect_scanJS_above' hKN hV hH hne hknb hS (by rw [hlk]; omega) hAR
    rw [hbh] at hd
    refine ⟨s', hd, k0, by rw [hlk]; omega, hS', hkeep w _ hst rfl, ?_, ?_⟩
    · rw [hr']; exact hAR
    · rw [hr']; exact hne'

/-- **connecting the next block of the node's chain**: booked for the ready wallets only, the ghost height stays -/
theorem fj_connect {c : Ctx} {w : Wid} (hKN : KeysNodup c.own)
    (hgN : GoodChain c.node.chain) (hvN : ChainValid c.own c.node.chain) {s : Store} {h : Nat} {b : Block}
    (hb : c.node.chain[h + 1]? = some b) (hI : FJ c w s (c.node.chain.take (h + 1))) :
    ∃ s' conf, filterBlock c s (readyWallets s c.wallets) b = .ok (s', conf) ∧
      FJ c w s' (c.node.chain.take (h + 2)) ∧ s'.status = s.status := by
  have hlt : h + 1 < c.node.chain.length := (List.getElem?_eq_some_iff.1 hb).1
  have hlen : (c.node.chain.take (h + 1)).length = h + 1 := by rw [List.length_take]; omega
  have e := take_succ_of_get hb
  have hnode : c.node.chain = c.node.chain.take (h + 1) ++ b :: c.node.chain.drop (h + 2) := by
    have : c.node.chain.drop (h + 1) = b :: c.node.chain.drop (h + 2) := by
      rw [List.drop_eq_getElem?_toList_append, hb]; rfl
    rw [← this, List.take_append_drop]
  have hnr := fj_notReady hI c.wallets
  obtain ⟨k, hle, hS, hst, hAR, hne⟩ := hI
  obtain ⟨s', conf, hfb, hS', hst', _⟩ := connect_scanJS' hKN ⟨hvN, hgN.heights⟩ hnode hS hnr hle hAR hne
  refine ⟨s', conf, hfb, ⟨k, ?_, ?_, by rw [hst']; exact hst, ?_, ?_⟩, hst'⟩
  · rw [List.length_take]; rw [hlen] at hle; omega
  · rw [show h + 2 = h + 1 + 1 from rfl, e]; exact hS'
  · rw [readyWallets_congr hst']; exact hAR
  · rw [readyWallets_congr hst']; exact hne

theorem fj_connSpec {c : Ctx} {w : Wid} (hKN : KeysNodup c.own)
    (hgN : GoodChain c.node.chain) (hvN : ChainValid c.own c.node.chain) :
    ConnSpec c (FJ c w) (fun _ => True) := by
  have key : ∀ (d : Nat) (s : Store) (f B : Nat) (ready : List Wid) (added : List (Nat × List TxId)), B - f = d → f ≤ B →
      B < c.node.chain.length → FJ c w s (c.node.chain.take (f + 1)) → ready = readyWallets s c.wallets →
      ∃ s' added', connectAll c ready ((c.node.chain.take (B + 1)).drop (f + 1)) s added = .ok (s', added') ∧
        FJ c w s' (c.node.chain.take (B + 1)) := by
    intro d
    induction d with
    | zero =>
      intro s f B ready added hd hfB _ hI _
      have : f = B := by omega
      subst this
      refine ⟨s, added, ?_, hI⟩
      rw [List.drop_take]; simp [connectAll]
    | succ d ih =>
      intro s f B ready added hd hfB hBl hI hr
      have hx : c.node.chain[f + 1]? = some c.node.chain[f + 1] := List.getElem?_eq_getElem (by omega)
      rw [seg_cons hx (by omega)]
      obtain ⟨s1, conf, hfb, hI1, hst1⟩ := fj_connect hKN hgN hvN hx hI
      obtain ⟨s2, added2, h2, hI2⟩ := ih s1 (f + 1) B ready (added ++ [(c.node.chain[f + 1].height, conf)]) (by omega)
        (by omega) hBl hI1 (by rw [hr]; exact (readyWallets_congr hst1 c.wallets).symm)
      refine ⟨s2, added2, ?_, hI2⟩
      unfold connectAll
      rw [hr, hfb]
      simp only [M_ok_bind]
      rw [← hr]
      exact h2
  intro s f B hfB hBl hI _
  obtain ⟨s', added', h1, h2⟩ := key (B - f) s f B _ [] rfl hfB hBl hI rfl
  exact ⟨s', added', h1, h2, trivial⟩

/-- **a notification for any block of the node's best chain while `w` is flagged for removal** (extension,
    reorganisation above / at / below the ghost height), the other wallets followed live -/
theorem fj_processBlock {c : Ctx} {w : Wid} (hKN : KeysNodup c.own) {S : List Block}
    (hgN : GoodChain c.node.chain) (hgS : GoodChain S) (hgen : S[0]? = c.node.chain[0]?)
    (hinj : IdInj (S ++ c.node.chain)) (hvN : ChainValid c.own c.node.chain) (hvS : ChainValid c.own S)
    (hkn : ∀ x ∈ S, AMap.get c.node.known x.id = some x)
    {s : Store} {v : Vol} {b : Block} (hI : FJ c w s S) (hb : c.node.chain[b.height]? = some b)
    (hv : v.best = tipMeta S) (hg0 : b.height = 0 → b.prev ≠ (tipMeta S).hash) :
    ∃ s' v', processBlock c s v b = (s', v', true) ∧ FJ c w s' (c.node.chain.take (b.height + 1)) ∧
      v'.best = tipMeta (c.node.chain.take (b.height + 1)) := by
  have H : RIface c S (FJ c w) (fun _ => True) :=
    ⟨hgN, hgS, hgen, hinj,
     fun {s n k x} hI hk hx => by
       rw [fj_sync hI, syncOf, getElem?_take_of_lt hk, hx]; rfl,
     fun {s k} hk0 hkl hI _ => by
       obtain ⟨s', h1, h2⟩ := fj_disc hKN hgS hvS hkn hk0 hkl hI
       exact ⟨s', h1, h2, trivial⟩⟩
  obtain ⟨s', v', h1, h2, _, h4, _⟩ := processBlock_reachesI H (fj_connSpec hKN hgN hvN) hI hb hv hg0 trivial
    (by
      intro k hS hk
      rw [hS] at hI
      have hb' : c.node.chain[k + 1]? = some b := by rw [← hk]; exact hb
      obtain ⟨s', conf, hfb, hI', _⟩ := fj_connect hKN hgN hvN hb' hI
      exact ⟨s', conf, hfb, hI', trivial⟩)
  exact ⟨s', v', h1, h2, h4⟩

end MW.Lemmas.RemoveFlagged
