/-
  C08 — the live follower while a wallet `w` is FLAGGED FOR REMOVAL (status `⟨none, true⟩`): the follower only asks
  `readyWallets`, so it treats `w` exactly like a wallet being restored (C07), except that the cursor pull-back of
  `disconnectBlock` leaves `w`'s status alone.  The joined-store invariant `ScanJS c w s X k` of C07 is kept, with the
  height `k` a GHOST parameter (the height at which the wallet was flagged, lowered to the new tip when a
  reorganisation goes below it): `w`'s half of the store is "the books of `w`'s keystore for `X.take (k+1)`", the other
  half is followed live.

    FJ                 "store `s` follows chain `X` while `w` is flagged and the other keystores' wallets are followed"
    inv_to_fj          C01's `Inv` at the moment of flagging gives `FJ` with `k` = the tip
    inv_flag_to_fj     … for the store `removeWallet` returns when the gate answers `.ok`
    fj_disc / fj_connect / fj_connSpec / fj_processBlock
                       a notification for ANY block of the node's best chain (extension, reorganisation above / at /
                       below the ghost height) keeps `FJ`
-/
import MW.Lemmas.ImportJoinReorg2
import MW.Model.Remove
namespace MW.Lemmas.RemoveFlagged
open MW MW.Model.Ledger MW.Model.Import MW.Model.Remove MW.Spec.Chain MW.Spec.Books MW.Lemmas.Ledger
open MW.Lemmas.RemoveBooks MW.Lemmas.ImportExact MW.Lemmas.ImportReorg MW.Lemmas.ImportJoin

/-- "store `s` follows chain `X`" while `w` is flagged for removal and the other keystores' wallets are followed live
    (`k`: ghost height up to which `w`'s half of the store is booked) -/
def FJ (c : Ctx) (w : Wid) (s : Store) (X : List Block) : Prop :=
  ∃ k, k + 1 ≤ X.length ∧ ScanJS c w s X k ∧ AMap.get s.status w = some ⟨none, true⟩ ∧
    AllReady (ownR c.own w) (readyWallets s c.wallets) ∧ (readyWallets s c.wallets).isEmpty = false

theorem fj_sync {c : Ctx} {w : Wid} {s : Store} {X : List Block} (h : FJ c w s X) :
    ∀ h', AMap.get s.sync h' = syncOf X h' := by
  obtain ⟨_, _, hS, _, _, _⟩ := h
  exact hS.sync

theorem fj_notReady {c : Ctx} {w : Wid} {s : Store} {X : List Block} (h : FJ c w s X) (l : List Wid) :
    (readyWallets s l).contains w = false := by
  obtain ⟨_, _, _, hst, _, _⟩ := h
  exact notReady_of_removed hst rfl

-- ------------------------------------------------------------------ from C01's invariant to the joined invariant

/-- at the tip the join of the two halves IS the books of the full keystore table: a store that holds the books of
    `chain` (C01 `Inv`) and `w`'s balance is a joined store with ghost height = the tip -/
theorem inv_to_scanJS {c : Ctx} {w : Wid} {s : Store} {chain : List Block} (hKN : KeysNodup c.own)
    (hI : Inv c s chain) (hV : ChainValid c.own chain) (hH : HeightsOK chain)
    (hbalw : AMap.get s.balance w = some (totalU (bookOf c.p c.own chain).L w)) :
    ScanJS c w s chain (chain.length - 1) := by
  have hOr := ownR_sub hKN w
  have hOw := ownW_sub hKN w
  have htake : chain.take (chain.length - 1 + 1) = chain := List.take_of_length_le (by omega)
  have hA : AgreeJ s (bookOf c.p (ownR c.own w) chain) (bookOf c.p (ownW c.own w) chain) := by
    constructor
    · intro w' tx idx
      rw [hI.agree.unspent, join_lookup (p := c.p) hOr hOw hV]
    · intro key; rw [hI.agree.credits, join_credits (p := c.p) hOr hOw hV]
    · intro key; rw [hI.agree.debits, join_debits (p := c.p) hOr hOw hV]
    · intro key; rw [hI.agree.game, join_game (p := c.p) hOr hOw hV]
    · intro key; rw [hI.agree.txrecs, join_txrecs (p := c.p) hOr hOw hV]
  refine ⟨by rw [htake]; exact hA, ?_, ?_, ?_, ?_, hI.sync, hI.syncedTo⟩
  · intro h
    rw [hI.agree.blocks, blocks_eq_blockRecOf c.p c.own chain hV hH h]
    apply blockRecOf_congr
    intro key
    unfold hasRec
    rw [hI.agree.txrecs]
  · intro key loc hl
    rw [hI.agree.txrecs] at hl
    obtain ⟨P₁, oc, P₂, hsp, _, hk', hloc⟩ := txrec_occ hV hl
    exact ⟨oc, by rw [hsp]; simp, hk', hloc⟩
  · rw [htake, hbalw, join_total_w (p := c.p) hOw]
  · intro w' hww hr
    rw [hI.bal w' hr, join_total_r (p := c.p) (chain := chain) hOr w' hww]

/-- **C01's invariant + the removal flag ⟹ `FJ`**, ghost height = the tip.  `Inv.bal` speaks of READY wallets only,
    hence `hbalw` (it holds before the flag is set, and setting the flag does not touch the balance bucket:
    `inv_flag_to_fj`) -/
theorem inv_to_fj {c : Ctx} {w : Wid} {s : Store} {chain : List Block} (hKN : KeysNodup c.own)
    (hI : Inv c s chain) (hV : ChainValid c.own chain) (hH : HeightsOK chain) (hne : chain ≠ [])
    (hflag : AMap.get s.status w = some ⟨none, true⟩)
    (hbalw : AMap.get s.balance w = some (totalU (bookOf c.p c.own chain).L w))
    (hAR : AllReady (ownR c.own w) (readyWallets s c.wallets))
    (hrne : (readyWallets s c.wallets).isEmpty = false) : FJ c w s chain := by
  have hlen : chain.length ≠ 0 := fun h => hne (List.eq_nil_of_length_eq_zero h)
  exact ⟨chain.length - 1, by omega, inv_to_scanJS hKN hI hV hH hbalw, hflag, hAR, hrne⟩

-- ------------------------------------------------------------------ setting the flag

/-- the gate (`MW.Props.C08.remove_gated`, restated here for the store): accepted ⟹ exactly the flag is set -/
theorem removeWallet_ok {q : Nat} {ks : List Wid} {po : Bool} {s : Store} {w : Wid}
    (h : (removeWallet q ks po s w).1 = .ok) :
    ∃ st, AMap.get s.status w = some st ∧ st.synced = none ∧
      (removeWallet q ks po s w).2 = { s with status := AMap.put s.status w { st with removed := true } } := by
  unfold removeWallet at h ⊢
  by_cases h1 : q ≥ Gen.Handler.maxWaitingTaskNum
  · rw [if_pos h1] at h; cases h
  · rw [if_neg h1] at h ⊢
    by_cases h2 : (!ks.contains w) = true
    · rw [if_pos h2] at h; cases h
    · rw [if_neg h2] at h ⊢
      by_cases h3 : (!po) = true
      · rw [if_pos h3] at h; cases h
      · rw [if_neg h3] at h ⊢
        cases hst : AMap.get s.status w with
        | none => rw [hst] at h; cases h
        | some st =>
          rw [hst] at h
          simp only at h ⊢
          by_cases h4 : st.synced.isSome = true
          · rw [if_pos h4] at h; cases h
          · rw [if_neg h4]
            exact ⟨st, rfl, by simpa using h4, rfl⟩

/-- **flagging a READY wallet of a store that holds the books of `chain`** (C01 `Inv`, every keystore's wallet ready)
    gives `FJ` with ghost height = the tip; `hother`: some other wallet stays ready (otherwise the follower's
    `filterBlock` skips blocks altogether: the `isEmpty = false` clause of `FJ`) -/
theorem inv_flag_to_fj {c : Ctx} {w : Wid} {s : Store} {chain : List Block} {q : Nat} {ks : List Wid} {po : Bool}
    (hKN : KeysNodup c.own) (hI : Inv c s chain) (hV : ChainValid c.own chain) (hH : HeightsOK chain) (hne : chain ≠ [])
    (hrw : (readyWallets s c.wallets).contains w = true) (hAR : AllReady c.own (readyWallets s c.wallets))
    (hother : ∃ w', w' ≠ w ∧ (readyWallets s c.wallets).contains w' = true)
    (hgate : (removeWallet q ks po s w).1 = .ok) : FJ c w (removeWallet q ks po s w).2 chain := by
  obtain ⟨st, hst, _, heq⟩ := removeWallet_ok hgate
  have hst0 := status_of_ready_mem hrw
  rw [hst] at hst0
  have hst1 : st = ⟨none, false⟩ := Option.some.inj hst0
  subst hst1
  rw [heq]
  -- the other wallets' statuses, hence their readiness, are unchanged
  have hget : ∀ w', w' ≠ w → AMap.get ({ s with status := AMap.put s.status w ⟨none, true⟩ } : Store).status w' =
      AMap.get s.status w' := by
    intro w' hw'
    show AMap.get (AMap.put s.status w _) w' = _
    rw [AMap.get_put, if_neg (fun h => hw' h.symm)]
  have hflag : AMap.get ({ s with status := AMap.put s.status w ⟨none, true⟩ } : Store).status w = some ⟨none, true⟩ := by
    show AMap.get (AMap.put s.status w _) w = _
    rw [AMap.get_put, if_pos rfl]
  have hnr := notReady_of_removed (l := c.wallets) hflag rfl
  have hrdy : ∀ w', w' ≠ w → (readyWallets { s with status := AMap.put s.status w ⟨none, true⟩ } c.wallets).contains w' =
      (readyWallets s c.wallets).contains w' := fun w' hw' => ready_contains_congr (hget w' hw')
  have hI' : Inv c { s with status := AMap.put s.status w ⟨none, true⟩ } chain := by
    refine ⟨⟨hI.agree.unspent, hI.agree.credits, hI.agree.debits, hI.agree.game, hI.agree.txrecs, hI.agree.blocks⟩,
      ?_, hI.sync, hI.syncedTo⟩
    intro w' hw'
    have hww : w' ≠ w := by
      intro he; rw [he, hnr] at hw'; cases hw'
    rw [hrdy w' hww] at hw'
    exact hI.bal w' hw'
  apply inv_to_fj hKN hI' hV hH hne hflag (hI.bal w hrw)
  · intro a w' ch ha
    have hsub := ownR_sub hKN w a
    rw [ha] at hsub
    cases hg : AMap.get c.own a with
    | none => rw [hg] at hsub; cases hsub
    | some x =>
      rw [hg] at hsub
      by_cases hx : x.1 ≠ w
      · have hd : decide (x.1 ≠ w) = true := decide_eq_true hx
        simp only [Option.filter, hd, if_true] at hsub
        have hx' : x = (w', ch) := (Option.some.inj hsub).symm
        subst hx'
        rw [hrdy w' hx]
        exact hAR a w' ch hg
      · simp [Option.filter, hx] at hsub
  · obtain ⟨w', hw', hr'⟩ := hother
    rw [← hrdy w' hw'] at hr'
    cases hl : readyWallets { s with status := AMap.put s.status w ⟨none, true⟩ } c.wallets with
    | nil => rw [hl] at hr'; cases hr'
    | cons _ _ => rfl

end MW.Lemmas.RemoveFlagged
