/-
  The symbolic keystore model as an abstraction of the byte level, part 10: the byte-level MACHINE (`stepB` / `runB` of
  MW.Model.KsBytes – what the `sec` driver executes next to the term machine) in lockstep with the symbolic one.
  `runB_sound`: whenever the byte-level run of a history succeeds, the tree it leaves REPRESENTS the symbolic state, under the
  public valuation of that state (fixed formats, the counters of the wallet records, the public data).
-/
import MW.Lemmas.KsRefineBound
import MW.Lemmas.KsRefineOps2
namespace MW.KsRefine
open MW MW.Model.Secrets MW.Model.KsCodec MW.Model.KsBytes MW.KsCodecL MW.Lemmas.SecretsInv

-- ------------------------------------------------------------------ the public valuation depends on the records only

def SameRecs (wal wal' : AMap.T String (WRec × AM)) : Prop := ∀ w, (AMap.get wal' w).map (·.1) = (AMap.get wal w).map (·.1)

theorem pubValsOf_same (π : PubData) {wal wal' : AMap.T String (WRec × AM)} (h : SameRecs wal wal') :
    pubValsOf π wal' = pubValsOf π wal := by
  funext K
  simp only [pubValsOf, h K.1]

theorem sameRecs_refl (wal : AMap.T String (WRec × AM)) : SameRecs wal wal := fun _ => rfl

theorem sameRecs_put {wal : AMap.T String (WRec × AM)} {w : String} {r : WRec} {a a' : AM} (hg : AMap.get wal w = some (r, a)) :
    SameRecs wal (AMap.put wal w (r, a')) := by
  intro w'
  rw [AMap.get_put]
  by_cases h : w = w'
  · subst h; simp [hg]
  · simp [h]

theorem sameRecs_clearAll (wal : AMap.T String (WRec × AM)) : SameRecs wal (clearAll wal) := by
  intro w
  rw [MW.Lemmas.SecretsDB.get_clearAll]
  cases AMap.get wal w <;> rfl

theorem sameRecs_trans {a b c : AMap.T String (WRec × AM)} (h1 : SameRecs a b) (h2 : SameRecs b c) : SameRecs a c :=
  fun w => (h2 w).trans (h1 w)

/-- installing / updating the record of wallet `w` changes the valuation at its two counters only -/
theorem pubValsOf_put (π : PubData) (wal : AMap.T String (WRec × AM)) (w : String) (ra : WRec × AM) (K : Key)
    (h1 : K ≠ (w, .exNum)) (h2 : K ≠ (w, .inNum)) : pubValsOf π (AMap.put wal w ra) K = pubValsOf π wal K := by
  obtain ⟨w', k⟩ := K
  by_cases hw : w = w'
  · subst hw
    cases k <;> simp_all [pubValsOf]
  · simp only [pubValsOf, AMap.get_put, hw, if_false]

theorem pubValsOf_fmt (π : PubData) (wal : AMap.T String (WRec × AM)) (w : String) (r : WRec) (a : AM) :
    PubFmt (pubValsOf π (AMap.put wal w (r, a))) w π.coin r.nExt r.nInt := by
  refine ⟨rfl, rfl, rfl, rfl, ?_, ?_⟩ <;> simp [pubValsOf, AMap.get_put]

/-- a representation does not depend on the valuation at keys the database does not hold -/
theorem rep_congr {C : BCrypto} {ρ ρ' : PubVal} {db : DB} {t : Tree} (h : Rep C ρ db t)
    (hρ : ∀ K, (AMap.get db K).isSome → ρ' K = ρ K) : Rep C ρ' db t := by
  refine ⟨fun p kb => ?_, h.2⟩
  rw [h.1 p kb]
  cases unloc C p kb with
  | none => rfl
  | some K =>
    simp only [Option.bind_some]
    cases hg : AMap.get db K with
    | none => rfl
    | some v => simp [valBytes, hρ K (by rw [hg]; rfl)]

-- ------------------------------------------------------------------ what each operation does to database and records

theorem create_eff (st : St) (w : String) (p : Pass) (b : Nat) :
    ((create st w p b).2 = .ok ∧
      (create st w p b).1.db = putAll st.db (acctEntries w w p 0 0 (paramsT (st.nonce + 1) p) (masterKey (st.nonce + 1) p)
        (paramsT st.nonce st.pubPass) (masterKey st.nonce st.pubPass) (st.nonce + 2) (st.nonce + 3) (st.nonce + 4)) ∧
      (create st w p b).1.wal = AMap.put st.wal w (⟨w, p, 0, 0⟩, {}) ∧ (create st w p b).1.pubPass = st.pubPass) ∨
    ((create st w p b).2 ≠ .ok ∧ (create st w p b).1.db = st.db ∧ (create st w p b).1.wal = st.wal) := by
  unfold create
  split
  · right; simp
  · split; · right; simp [fail]
    split; · right; simp [fail]
    split; · right; simp [fail]
    split; · right; simp [fail]
    split; · right; simp [fail]
    left; exact ⟨rfl, rfl, rfl, rfl⟩

theorem newAddr_eff (st : St) (w : String) :
    ((newAddr st w).2 = .ok ∧ ∃ r a, AMap.get st.wal w = some (r, a) ∧ r.nExt < gapLimit ∧
      (newAddr st w).1.db = putAll st.db [ ((w, .exNum), .pub "n"),
          ((w, .pubk 0 r.nExt), .enc (exbKey (dbGet st.db w .exb)) (.pub "pubkey")) ] ∧
      (newAddr st w).1.wal = AMap.put st.wal w ({ r with nExt := r.nExt + 1 }, a)) ∨
    ((newAddr st w).2 ≠ .ok ∧ (newAddr st w).1.db = st.db ∧ (newAddr st w).1.wal = st.wal) := by
  unfold newAddr
  split
  · right; simp
  · rename_i r a hw
    by_cases h1 : r.nExt ≥ gapLimit
    · right; simp [h1]
    · left
      refine ⟨by simp [h1], r, a, hw, by omega, ?_, by simp [h1]⟩
      simp only [h1, if_false, putAll, List.foldl_cons, List.foldl_nil]
      congr 2

theorem importKS_eff (st : St) (k : String) (p : Pass) :
    ((importKS st k p).2 = .ok ∧ ∃ x e mkPriv, AMap.get st.exports k = some x ∧ deriveKey x.privParams p = some mkPriv ∧
      (importKS st k p).1.db = putAll st.db (acctEntries x.wallet e p (if x.nExt = 0 then 1 else x.nExt) x.nInt x.privParams mkPriv
        (paramsT st.nonce st.pubPass) (masterKey st.nonce st.pubPass) (st.nonce + 1) (st.nonce + 2) (st.nonce + 3)) ∧
      (importKS st k p).1.wal = AMap.put st.wal x.wallet (⟨e, p, if x.nExt = 0 then 1 else x.nExt, x.nInt⟩, {}) ∧
      (importKS st k p).1.pubPass = st.pubPass) ∨
    ((importKS st k p).2 ≠ .ok ∧ (importKS st k p).1.db = st.db ∧ (importKS st k p).1.wal = st.wal) := by
  unfold importKS
  split
  · right; simp
  · rename_i x hx
    split
    · right; simp [fail]
    · rename_i mk hmk
      split
      · rename_i e he
        by_cases h1 : endsZero st.pubPass = true
        · right; simp [h1, fail]
        · by_cases h2 : (AMap.get st.wal x.wallet).isSome = true
          · right; simp [h1, h2, fail]
          · left
            exact ⟨by simp [h1, h2], x, e, mk, hx, hmk, by simp [h1, h2], by simp [h1, h2], by simp [h1, h2]⟩
      · right; simp [fail]

theorem importMn_eff (st : St) (w : String) (p : Pass) (src : String) (ext int : Nat) :
    (∃ name e, (importMn st w p src ext int).2 = .okName name ∧
      (importMn st w p src ext int).1.db = putAll st.db (acctEntries name e p (if ext = 0 then 1 else ext) int
        (paramsT (st.nonce + 1) p) (masterKey (st.nonce + 1) p) (paramsT st.nonce st.pubPass) (masterKey st.nonce st.pubPass)
        (st.nonce + 2) (st.nonce + 3) (st.nonce + 4)) ∧
      (importMn st w p src ext int).1.wal = AMap.put st.wal name (⟨e, p, if ext = 0 then 1 else ext, int⟩, {}) ∧
      (importMn st w p src ext int).1.pubPass = st.pubPass) ∨
    ((∀ name, (importMn st w p src ext int).2 ≠ .okName name) ∧ (importMn st w p src ext int).1.db = st.db ∧
      (importMn st w p src ext int).1.wal = st.wal) := by
  unfold importMn
  split
  · right; simp
  · rename_i e q hsrc
    simp only
    by_cases h1 : (decide (identName st e p w = w) && (AMap.get st.idents w).isSome &&
        decide (AMap.get st.idents w ≠ some (e, p))) = true
    · right; simp only [h1, if_true]; simp
    · by_cases h2 : (endsZero st.pubPass || endsZero p) = true
      · right; simp only [h1, h2, if_true, Bool.false_eq_true, if_false]; simp [fail]
      · by_cases h3 : (AMap.get st.wal (identName st e p w)).isSome = true
        · right; simp only [h1, h2, h3, if_true, Bool.false_eq_true, if_false]; simp [fail]
        · left
          refine ⟨identName st e p w, e, ?_, ?_, ?_, ?_⟩ <;> simp only [h1, h2, h3, Bool.false_eq_true, if_false]

theorem remove_eff (st : St) (w : String) (p : Pass) :
    ((remove st w p).2 = .ok ∧ (remove st w p).1.db = eraseWallet st.db w ∧ (remove st w p).1.wal = AMap.erase st.wal w) ∨
    ((remove st w p).2 ≠ .ok ∧ (remove st w p).1.db = st.db ∧ (remove st w p).1.wal = st.wal) := by
  unfold remove
  split
  · right; simp [fail]
  · split
    · right; simp [fail]
    · left; exact ⟨rfl, rfl, rfl⟩

theorem chpub_wal (st : St) (o n : Pass) : (chpub st o n).1.wal = st.wal := by
  unfold chpub
  split; · rfl
  split; · rfl
  split <;> rfl

theorem chpub_fail_db {st : St} {o n : Pass} (h : (chpub st o n).2 ≠ .ok) : (chpub st o n).1.db = st.db := by
  have : (chpub st o n).2 = .ok ∨ (chpub st o n).1.db = st.db := by
    unfold chpub
    split; · right; rfl
    split; · right; rfl
    split
    · right; rfl
    · left; rfl
  exact this.resolve_left h

/-- the operations that write nothing to the database and leave every wallet record as it is -/
def Quiet (st st' : St) : Prop := st'.db = st.db ∧ SameRecs st.wal st'.wal

theorem quiet_fail {st st0 : St} (h : Quiet st st0) (c : String) : Quiet st (fail st0 c).1 := h
theorem quiet_refl (st : St) : Quiet st st := ⟨rfl, sameRecs_refl _⟩

theorem quiet_setAM {st : St} {w : String} {r : WRec} {a a' : AM} (hg : AMap.get st.wal w = some (r, a)) :
    Quiet st (setAM st w r a') := ⟨rfl, sameRecs_put hg⟩

theorem quiet_clear (st : St) : Quiet st { st with wal := clearAll st.wal } := ⟨rfl, sameRecs_clearAll _⟩

theorem exportKS_quiet (st : St) (w : String) (p : Pass) (k : String) : Quiet st (exportKS st w p k).1 := by
  unfold exportKS
  split
  · exact quiet_refl st
  · rename_i r a hw
    split
    · exact quiet_refl st
    · exact ⟨rfl, sameRecs_put hw⟩

theorem mnemonic_quiet (st : St) (w : String) (p : Pass) : Quiet st (mnemonic st w p).1 := by
  unfold mnemonic
  split
  · exact quiet_refl st
  · rename_i r a hw
    split
    · exact quiet_refl st
    · dsimp only
      split
      · exact quiet_setAM hw
      · exact quiet_fail (quiet_setAM hw) _

theorem chpriv_quiet (st : St) (w : String) (o n : Pass) : Quiet st (chpriv st w o n).1 := by
  unfold chpriv
  split
  · exact quiet_refl st
  · split; · exact quiet_refl st
    split; · exact quiet_refl st
    split; · exact quiet_refl st
    split <;> exact quiet_refl st

theorem signHash_quiet (st : St) (w : String) (b i : Nat) (p : Pass) : Quiet st (signHash st w b i p).1 := by
  unfold signHash
  split
  · exact quiet_refl st
  · dsimp only
    split
    · exact quiet_fail (quiet_clear st) _
    · exact quiet_clear st

theorem ksSign_quiet (st : St) (w : String) (b i : Nat) (p : Pass) : Quiet st (ksSign st w b i p).1 := by
  unfold ksSign
  split
  · exact quiet_refl st
  · rename_i r a hw
    split
    · split
      · exact quiet_fail (quiet_setAM hw) _
      · exact quiet_refl st
    · exact quiet_setAM hw

theorem restart_quiet (st : St) (p : Pass) : Quiet st (restart st p).1 := by
  unfold restart
  dsimp only
  split
  · exact quiet_fail (quiet_clear st) _
  · split
    · exact quiet_clear st
    · exact quiet_fail (quiet_clear st) _

theorem rep_quiet {C : BCrypto} {π : PubData} {st st' : St} {t : Tree} (h : Rep C (pubValsOf π st.wal) st.db t) (q : Quiet st st') :
    Rep C (pubValsOf π st'.wal) st'.db t := by
  rw [q.1, pubValsOf_same π q.2]; exact h

-- ------------------------------------------------------------------ a successful installer has checked its side conditions

theorem seqE_ok_inv {x : Except Err Tree} {f : Tree → Except Err Tree} {t' : Tree} (h : seqE x f = .ok t') :
    ∃ t1, x = .ok t1 ∧ f t1 = .ok t' := by
  cases x with
  | ok t1 => exact ⟨t1, rfl, h⟩
  | error e => cases h

theorem onB_ok_inv {t t' : Tree} {p : BPath} {f : Bucket → Except Err Bucket} (h : onB t p f = .ok t') : ∃ b, f (t p) = .ok b := by
  unfold onB at h
  cases hf : f (t p) with
  | ok b => exact ⟨b, rfl⟩
  | error e => rw [hf] at h; cases h

/-- a successful installer has checked its side conditions: the account id was absent, the BIP0044 record fits uint32, the
    two parameter blocks are not empty -/
theorem initAcctBucketB_ok_inv {t t' : Tree} {i : AcctIn} (h : initAcctBucketB t i = .ok t') :
    bget (t .aid) i.id = none ∧ 8 + i.acctPubEnc.length + i.acctPrivEnc.length < 4294967296 ∧
    i.privParams ≠ [] ∧ i.pubParams ≠ [] := by
  unfold initAcctBucketB at h
  obtain ⟨t1, hcs, h⟩ := seqE_ok_inv h
  obtain ⟨t2, _, h⟩ := seqE_ok_inv h
  obtain ⟨t3, _, h⟩ := seqE_ok_inv h
  obtain ⟨t4, hmk, _⟩ := seqE_ok_inv h
  obtain ⟨b4, hmk⟩ := onB_ok_inv hmk
  unfold createScopeB at hcs
  refine ⟨?_, ?_, ?_, ?_⟩
  · cases hb : bget (t .aid) i.id with
    | none => rfl
    | some v => simp [hb] at hcs
  · split at hcs
    · cases hcs
    · obtain ⟨u1, _, hcs⟩ := seqE_ok_inv hcs
      obtain ⟨u2, _, hcs⟩ := seqE_ok_inv hcs
      obtain ⟨u3, hai, _⟩ := seqE_ok_inv hcs
      obtain ⟨b3, hai⟩ := onB_ok_inv hai
      by_contra hlen
      have hs : serializeHDAccountKey i.acctPubEnc i.acctPrivEnc = none := by simp [serializeHDAccountKey, hlen]
      simp [putAccountInfo, hs] at hai
  · intro e
    rw [e, masterKeyParams_empty_refused] at hmk
    cases hmk
  · intro e
    rw [e] at hmk
    simp only [putMasterKeyParams, putOpt_some, bind, Except.bind] at hmk
    split at hmk
    · cases hmk
    · rw [bput_empty_value] at hmk; cases hmk

-- ------------------------------------------------------------------ one step, any history

/-- the install case shared by create / import keystore / import mnemonic -/
theorem install_sound (C : BCrypto) (L : Laws C) (π : PubData) (st st' : St) (t t' : Tree) (w e : String) (p : Pass) (nExt nInt : Nat)
    (privParams mkPriv mkPubParams mkPub : Term) (kPub : Nat)
    (h : Rep C (pubValsOf π st.wal) st.db t)
    (hdb : st'.db = putAll st.db (acctEntries w e p nExt nInt privParams mkPriv mkPubParams mkPub kPub (kPub + 1) (kPub + 2)))
    (hwal : st'.wal = AMap.put st.wal w (⟨e, p, nExt, nInt⟩, {}))
    (hE : nExt ≤ 4294967296) (hI : nInt ≤ 4294967296)
    (hrun : initAcctBucketB t (acctInOf C (pubValsOf π st'.wal) π.coin w e p nExt nInt privParams mkPriv mkPubParams mkPub
      kPub (kPub + 1) (kPub + 2)) = .ok t') :
    Rep C (pubValsOf π st'.wal) st'.db t' := by
  obtain ⟨hnew, hrow, hpriv, hpub⟩ := initAcctBucketB_ok_inv hrun
  have hfresh : AMap.get st.db (w, .aid) = none := by
    have := rep_get L h (w, .aid) trivial
    simp only [loc, tget, acctInOf] at this hnew
    rw [hnew] at this
    cases hg : AMap.get st.db (w, .aid) with
    | none => rfl
    | some v => rw [hg] at this; cases this
  have hfmt : PubFmt (pubValsOf π st'.wal) w π.coin nExt nInt := by rw [hwal]; exact pubValsOf_fmt π st.wal w _ _
  have hfr : ∀ K, (∀ en ∈ acctEntries w e p nExt nInt privParams mkPriv mkPubParams mkPub kPub (kPub + 1) (kPub + 2), en.1 ≠ K) →
      pubValsOf π st'.wal K = pubValsOf π st.wal K := by
    intro K hK
    rw [hwal]
    apply pubValsOf_put
    · exact fun e' => hK ((w, .exNum), .pub "n") (by simp [acctEntries, scopeEntries]) e'.symm
    · exact fun e' => hK ((w, .inNum), .pub "n") (by simp [acctEntries, scopeEntries]) e'.symm
  obtain ⟨t'', h1, h2⟩ := install_refines C L (pubValsOf π st.wal) (pubValsOf π st'.wal) st.db t π.coin w e p nExt nInt privParams mkPriv
    mkPubParams mkPub kPub (kPub + 1) (kPub + 2) h hfmt hfr hE hI (by simpa only [acctInOf] using hpriv)
    (by simpa only [acctInOf] using hpub) (by simpa only [acctInOf] using hrow) hfresh
  rw [hrun] at h1
  cases h1
  rw [hdb]
  exact h2

theorem paramsT_ne (C : BCrypto) (L : Laws C) (pv : Bytes) (n : Nat) (q : Pass) : bytesOf C pv (paramsT n q) ≠ [] := by
  intro e; have := paramsT_bytes C L pv n q; rw [e] at this; simp at this

/-- STEP: if the byte-level step succeeds, the tree represents the symbolic state after the step -/
theorem stepB_sound (C : BCrypto) (L : Laws C) (π : PubData) (st : St) (t t' : Tree) (op : Op) (hop : OpOk op)
    (hb : BoundOk st) (h : Rep C (pubValsOf π st.wal) st.db t) (hrun : stepB C π st t op = .ok t') :
    Rep C (pubValsOf π (step st op).1.wal) (step st op).1.db t' := by
  cases op with
  | create w p b =>
    rcases create_eff st w p b with ⟨hok, hdb, hwal, hpp⟩ | ⟨hno, hdb, hwal⟩
    · simp only [stepB, step, hok, installB, hwal, AMap.get_put, if_true, hpp] at hrun
      rw [← hwal] at hrun
      exact install_sound C L π st (create st w p b).1 t t' w w p 0 0 _ _ _ _ (st.nonce + 2) h hdb hwal (by omega) (by omega) hrun
    · have : stepB C π st t (.create w p b) = .ok t := by
        simp only [stepB, step]
        cases ho : (create st w p b).2 <;> first | rfl | exact absurd ho hno
      rw [this] at hrun; cases hrun
      exact rep_quiet h ⟨hdb, by simp only [step, hwal]; exact sameRecs_refl _⟩
  | newAddr w =>
    rcases newAddr_eff st w with ⟨hok, r, a, hw, hgap, hdb, hwal⟩ | ⟨hno, hdb, hwal⟩
    · simp only [stepB, step, hok, hw] at hrun
      obtain ⟨r0, a0, hw0, hrest⟩ := newAddr_refines C L (pubValsOf π st.wal) (pubValsOf π (newAddr st w).1.wal) st t w h hok
      rw [hw] at hw0
      cases hw0
      obtain ⟨t'', h1, h2⟩ := hrest (by rw [hwal]; simp [pubValsOf, AMap.get_put])
        (by
          intro K hK1 _
          rw [hwal]
          by_cases hK2 : K = (w, .inNum)
          · subst hK2; simp [pubValsOf, AMap.get_put, hw]
          · exact pubValsOf_put π st.wal w _ K hK1 hK2)
      rw [hrun] at h1
      cases h1
      exact h2
    · have : stepB C π st t (.newAddr w) = .ok t := by
        simp only [stepB, step]
        cases ho : (newAddr st w).2 <;> first | rfl | exact absurd ho hno
      rw [this] at hrun; cases hrun
      exact rep_quiet h ⟨hdb, by simp only [step, hwal]; exact sameRecs_refl _⟩
  | importKS k p =>
    rcases importKS_eff st k p with ⟨hok, x, e, mk, hx, hmk, hdb, hwal, hpp⟩ | ⟨hno, hdb, hwal⟩
    · have hxb : x.nExt ≤ 4294967296 ∧ x.nInt ≤ 4294967296 := hb.2.2 (k, x) (get_mem hx)
      have he : (if x.nExt = 0 then 1 else x.nExt) ≤ 4294967296 := by split <;> omega
      simp only [stepB, step, hok, hx, installB, hwal, AMap.get_put, if_true, hpp, hmk, Option.getD_some] at hrun
      rw [← hwal] at hrun
      exact install_sound C L π st (importKS st k p).1 t t' x.wallet e p _ _ _ _ _ _ (st.nonce + 1) h hdb hwal he hxb.2 hrun
    · have : stepB C π st t (.importKS k p) = .ok t := by
        simp only [stepB, step]
        cases ho : (importKS st k p).2 <;> first | rfl | exact absurd ho hno
      rw [this] at hrun; cases hrun
      exact rep_quiet h ⟨hdb, by simp only [step, hwal]; exact sameRecs_refl _⟩
  | importMn w p src ext int =>
    rcases importMn_eff st w p src ext int with ⟨name, e, hok, hdb, hwal, hpp⟩ | ⟨hno, hdb, hwal⟩
    · have hop' : ext ≤ 4294967296 ∧ int ≤ 4294967296 := hop
      have he : (if ext = 0 then 1 else ext) ≤ 4294967296 := by split <;> omega
      simp only [stepB, step, hok, installB, hwal, AMap.get_put, if_true, hpp] at hrun
      rw [← hwal] at hrun
      exact install_sound C L π st (importMn st w p src ext int).1 t t' name e p _ _ _ _ _ _ (st.nonce + 2) h hdb hwal he hop'.2 hrun
    · have : stepB C π st t (.importMn w p src ext int) = .ok t := by
        simp only [stepB, step]
        cases ho : (importMn st w p src ext int).2 <;> first | rfl | exact absurd ho (hno _)
      rw [this] at hrun; cases hrun
      exact rep_quiet h ⟨hdb, by simp only [step, hwal]; exact sameRecs_refl _⟩
  | remove w p =>
    rcases remove_eff st w p with ⟨hok, hdb, hwal⟩ | ⟨hno, hdb, hwal⟩
    · simp only [stepB, step, hok, Except.ok.injEq] at hrun
      subst hrun
      simp only [step, hdb, hwal]
      refine rep_congr (remove_refines C L _ st.db t w h) ?_
      intro K hK
      obtain ⟨w', k⟩ := K
      by_cases hw : w' = w
      · subst hw; rw [get_eraseWallet_same] at hK; cases hK
      · have : ¬ w = w' := fun e => hw e.symm
        simp only [pubValsOf, AMap.get_erase, this, if_false]
    · have : stepB C π st t (.remove w p) = .ok t := by
        simp only [stepB, step]
        cases ho : (remove st w p).2 <;> first | rfl | exact absurd ho hno
      rw [this] at hrun; cases hrun
      exact rep_quiet h ⟨hdb, by simp only [step, hwal]; exact sameRecs_refl _⟩
  | chpub o n =>
    by_cases hok : (chpub st o n).2 = .ok
    · simp only [stepB, step, hok] at hrun
      obtain ⟨t'', h1, h2⟩ := chpub_refines C L (pubValsOf π st.wal) st t o n h hok
      rw [hrun] at h1
      cases h1
      simp only [step, chpub_wal]
      exact h2
    · have : stepB C π st t (.chpub o n) = .ok t := by
        simp only [stepB, step]
        cases ho : (chpub st o n).2 <;> first | rfl | exact absurd ho hok
      rw [this] at hrun; cases hrun
      exact rep_quiet h ⟨chpub_fail_db hok, by simp only [step, chpub_wal]; exact sameRecs_refl _⟩
  | exportKS w p k => cases hrun; exact rep_quiet h (exportKS_quiet st w p k)
  | mnemonic w p => cases hrun; exact rep_quiet h (mnemonic_quiet st w p)
  | chpriv w o n => cases hrun; exact rep_quiet h (chpriv_quiet st w o n)
  | signHash w b i p => cases hrun; exact rep_quiet h (signHash_quiet st w b i p)
  | ksSign w b i p => cases hrun; exact rep_quiet h (ksSign_quiet st w b i p)
  | ksClear => cases hrun; exact rep_quiet h (quiet_clear st)
  | restart p => cases hrun; exact rep_quiet h (restart_quiet st p)

/-- RUN: whenever the byte-level run of a history (restore hints within uint32) succeeds, the tree it leaves represents
    the symbolic state, under the public valuation of that state -/
theorem runB_sound (C : BCrypto) (L : Laws C) (π : PubData) (ops : List Op) : ∀ (st : St) (t t' : Tree),
    (∀ o ∈ ops, OpOk o) → BoundOk st → Rep C (pubValsOf π st.wal) st.db t → runB C π st t ops = .ok t' →
    Rep C (pubValsOf π (run st ops).wal) (run st ops).db t' := by
  induction ops with
  | nil => intro st t t' _ _ h hrun; cases hrun; exact h
  | cons o os ih =>
    intro st t t' hops hb h hrun
    simp only [runB] at hrun
    cases hs : stepB C π st t o with
    | error e => rw [hs] at hrun; cases hrun
    | ok t1 =>
      rw [hs] at hrun
      have := ih (step st o).1 t1 t' (fun o' ho' => hops o' (List.mem_cons_of_mem _ ho'))
        (step_b hb o (hops o List.mem_cons_self)) (stepB_sound C L π st t t1 o (hops o List.mem_cons_self) hb h hs) hrun
      simpa [run] using this

end MW.KsRefine
