/-
  The abstraction relation between a store (committed, or `apply committed batch`) and a
  specification database, and what the read paths of the model return under it.
-/
import MW.Lemmas.KvNav
import MW.Lemmas.KvSort
import MW.Spec.KV
namespace MW.Model.KV
open MW MW.KV
open MW.Spec.KV (DB)

def lastName (p : Path) : Bytes := p.getLast?.getD []

/-- read-only transaction on a store -/
def ro (s : Store) : Tx := { readOnly := true, db := s, b := {} }

theorem ro_inv {s : Store} (h : SMap.Sorted s) : (ro s).Inv := ⟨h, Batch.inv_empty⟩

structure Rel (s : Store) (d : DB) : Prop where
  sorted : SMap.Sorted s
  bNodup : d.buckets.Nodup
  bValid : ∀ p ∈ d.buckets, p ≠ [] ∧ ∀ n ∈ p, ValidName n
  bClosed : ∀ p n, p ≠ [] → p ++ [n] ∈ d.buckets → p ∈ d.buckets
  dNodup : (d.data.map (·.1)).Nodup
  dIn : ∀ e ∈ d.data, e.1.1 ∈ d.buckets ∧ e.1.2 ≠ []
  mem : ∀ k v, s.get k = some v ↔
      (∃ p ∈ d.buckets, k = idxKey p ∧ v = lastName p) ∨
      (∃ e ∈ d.data, k = dataKey e.1.1 e.1.2 ∧ v = e.2)

theorem Rel.init : Rel [] {} where
  sorted := SMap.sorted_nil
  bNodup := List.nodup_nil
  bValid := by intro p hp; cases hp
  bClosed := by intro p n _ h; cases h
  dNodup := List.nodup_nil
  dIn := by intro e he; cases he
  mem := by intro k v; simp

theorem specValid_eq (n : Bytes) : Spec.KV.validName n = isValidBucketName n := by
  unfold Spec.KV.validName isValidBucketName
  rfl

theorem DB.has_iff (d : DB) (p : Path) : d.has p = true ↔ p ∈ d.buckets := by
  unfold DB.has; exact List.contains_iff_mem

variable {s : Store} {d : DB}

theorem Rel.noSep (h : Rel s d) {p : Path} (hp : p ∈ d.buckets) : NoSep p :=
  noSep_of_valid (h.bValid p hp).2

/-- prefix closure: every non-empty initial part of an existing bucket path exists -/
theorem Rel.closed_append (h : Rel s d) (p : Path) (hp : p ≠ []) :
    ∀ (r : Path), p ++ r ∈ d.buckets → p ∈ d.buckets := by
  intro r
  induction r generalizing p with
  | nil => intro h'; simpa using h'
  | cons n r ih =>
    intro h'
    have : (p ++ [n]) ++ r ∈ d.buckets := by simpa using h'
    exact h.bClosed p n hp (ih (p ++ [n]) (by simp) this)

/-- the index entry of a bucket path is in the store iff the bucket exists – also for a top-level
    name that isValidBucketName would reject (TopLevelBucket does not validate) -/
theorem Rel.idx_some_iff (h : Rel s d) (p : Path) (hp : NoSep p ∨ p.length = 1) :
    (s.get (idxKey p)).isSome = true ↔ p ∈ d.buckets := by
  constructor
  · intro hs
    obtain ⟨v, hv⟩ := Option.isSome_iff_exists.mp hs
    rcases (h.mem _ _).mp hv with ⟨q, hq, hk, _⟩ | ⟨e, he, hk, _⟩
    · rcases hp with hp | hp
      · rw [idxKey_injective hp (h.noSep hq) hk]; exact hq
      · -- one (possibly invalid) name
        match p, hp with
        | [n], _ =>
          have hs2 := congrArg split hk
          rw [split_idxKey (h.noSep hq)] at hs2
          unfold idxKey indexKey pathBytes join at hs2
          rw [joinSep_cons_cons, joinSep_cons_cons] at hs2
          simp only [joinSep, List.length_singleton] at hs2
          rw [show split (tag ++ sep :: (itoa 1 ++ sep :: n)) = splitSep sep (tag ++ sep :: (itoa 1 ++ sep :: n)) from rfl,
            splitSep_append sep tag sep_not_mem_tag, splitSep_append sep (itoa 1) (sep_not_mem_itoa 1)] at hs2
          have h3 := List.cons.inj (List.cons.inj hs2).2
          have hlen : 1 = q.length := itoa_injective h3.1
          match q, hlen with
          | [m], _ =>
            have hm : splitSep sep n = [m] := h3.2
            have : n = m := by
              have := joinSep_splitSep sep n
              rw [hm] at this; simpa [joinSep] using this.symm
            subst this; exact hq
    · exact absurd hk.symm (dataKey_ne_indexKey _ _ _)
  · intro hq
    have := (h.mem (idxKey p) (lastName p)).mpr (Or.inl ⟨p, hq, rfl, rfl⟩)
    simp [this]

theorem ro_bucketExists (s : Store) (key : Bytes) : (ro s).bucketExists key = (s.get key).isSome := by
  simp [ro, Tx.bucketExists]

theorem idxKey_singleton (n : Bytes) : idxKey [n] = indexKey (join [topDepth, n]) := by
  unfold idxKey; rw [pathBytes_singleton]

theorem Rel.topLevelBucket (h : Rel s d) (n : Bytes) :
    (∃ b, (ro s).topLevelBucket n = some b ∧ b.IsAt [n] ∧ [n] ∈ d.buckets) ∨
    ((ro s).topLevelBucket n = none ∧ [n] ∉ d.buckets) := by
  have hiff := h.idx_some_iff [n] (Or.inr rfl)
  rw [idxKey_singleton] at hiff
  unfold Tx.topLevelBucket
  simp only [ro_bucketExists]
  by_cases hs : (s.get (indexKey (join [topDepth, n]))).isSome = true
  · have hm := hiff.mp hs
    refine Or.inl ⟨{ name := n, path := join [topDepth, n], depth := 1 }, by simp [hs], ?_, hm⟩
    have hv := (h.bValid _ hm).2 n (by simp)
    exact ⟨by simp, by intro x hx; simp at hx; subst hx; exact hv.noSep, (pathBytes_singleton n).symm, rfl⟩
  · exact Or.inr ⟨by simp [hs], fun hm => hs (hiff.mpr hm)⟩

theorem Rel.bucket (h : Rel s d) {b : Bucket} {p : Path} (hb : b.IsAt p) (n : Bytes) :
    (∃ sub, b.bucket (ro s) n = some sub ∧ sub.IsAt (p ++ [n]) ∧ p ++ [n] ∈ d.buckets) ∨
    (b.bucket (ro s) n = none ∧ p ++ [n] ∉ d.buckets) := by
  unfold Bucket.bucket
  by_cases hn : ValidName n
  · rw [Bucket.subBucket_eq hb hn]
    simp only [ro_bucketExists]
    have hns : NoSep (p ++ [n]) := hb.noSep.append hn.noSep
    have hiff := h.idx_some_iff (p ++ [n]) (Or.inl hns)
    unfold idxKey at hiff
    by_cases hs : (s.get (indexKey (pathBytes (p ++ [n])))).isSome = true
    · exact Or.inl ⟨{ name := n, path := pathBytes (p ++ [n]), depth := p.length + 1 }, by simp [hs],
        ⟨by simp, hns, rfl, by simp⟩, hiff.mp hs⟩
    · exact Or.inr ⟨by simp [hs], fun hm => hs (hiff.mpr hm)⟩
  · rw [Bucket.subBucket_invalid b hn]
    refine Or.inr ⟨rfl, ?_⟩
    intro hm
    exact hn ((h.bValid _ hm).2 n (by simp))

theorem Rel.navFrom (h : Rel s d) {b : Bucket} {p : Path} (hb : b.IsAt p) :
    ∀ (rest : List Bytes), 
      (∃ b', navFrom (ro s) b rest = some b' ∧ b'.IsAt (p ++ rest) ∧ p ++ rest ∈ d.buckets) ∨
      (navFrom (ro s) b rest = none ∧ p ++ rest ∉ d.buckets) ∨
      (rest = [] ∧ navFrom (ro s) b rest = some b) := by
  intro rest
  induction rest generalizing b p with
  | nil => exact Or.inr (Or.inr ⟨rfl, rfl⟩)
  | cons n r ih =>
    simp only [MW.Model.KV.navFrom]
    rcases h.bucket hb n with ⟨sub, hs, hsa, hm⟩ | ⟨hs, hm⟩
    · rw [hs]
      simp only
      rcases ih hsa with ⟨b', hb', ha', hm'⟩ | ⟨hn', hm'⟩ | ⟨hr, hn'⟩
      · exact Or.inl ⟨b', hb', by simpa using ha', by simpa using hm'⟩
      · exact Or.inr (Or.inl ⟨hn', by simpa using hm'⟩)
      · subst hr
        exact Or.inl ⟨sub, hn', by simpa using hsa, by simpa using hm⟩
    · rw [hs]
      refine Or.inr (Or.inl ⟨rfl, ?_⟩)
      intro hm'
      have : p ++ [n] ++ r ∈ d.buckets := by simpa using hm'
      exact hm (h.closed_append (p ++ [n]) (by simp) r this)

/-- navigation finds exactly the existing buckets, and yields their handle -/
theorem Rel.nav (h : Rel s d) (p : Path) :
    (∃ b, nav (ro s) p = some b ∧ b.IsAt p ∧ p ∈ d.buckets) ∨ (nav (ro s) p = none ∧ p ∉ d.buckets) := by
  cases p with
  | nil =>
    refine Or.inr ⟨rfl, ?_⟩
    intro hm; exact (h.bValid [] hm).1 rfl
  | cons n rest =>
    simp only [MW.Model.KV.nav]
    rcases h.topLevelBucket n with ⟨b, hb, hba, hm⟩ | ⟨hb, hm⟩
    · rw [hb]
      simp only
      rcases h.navFrom hba rest with ⟨b', hb', ha', hm'⟩ | ⟨hn', hm'⟩ | ⟨hr, hn'⟩
      · exact Or.inl ⟨b', hb', by simpa using ha', by simpa using hm'⟩
      · exact Or.inr ⟨hn', by simpa using hm'⟩
      · subst hr; exact Or.inl ⟨b, hn', hba, hm⟩
    · rw [hb]
      refine Or.inr ⟨rfl, ?_⟩
      intro hm'
      exact hm (h.closed_append [n] (by simp) rest (by simpa using hm'))

end MW.Model.KV
