/-
  C08, `remove ⊨ project`, part 2 (still MW.Spec.Books alone): tx records of the books without wallet `w`,
  the assembled restriction statement `BookMinus` / `bookOf_minus`, and the block records as a function of the
  tx records (`blocks_by_txrecs`: a block record lists, in block order, exactly the transactions of the block
  that have a tx record) — which makes the block records of the restricted books a filter of the full ones.
-/
import MW.Lemmas.RemoveProj
namespace MW.Lemmas.RemoveProj
open MW MW.Model.Ledger MW.Spec.Chain MW.Spec.Books MW.Lemmas.Ledger

/-- transaction `t` is needed by a wallet other than `w`: an output pays an address of the view without `w`, or an
    input spends an output that has a credit (in the final books `B`) of another wallet's script hash.
    (This is `removable … = false` read on the books: `MW.Lemmas.RemoveInv`.) -/
def NeededBy (own own' : Own) (w : Wid) (B : Book) (t : Tx) : Prop :=
  (∃ o ∈ t.outs, (ownerOf own' o).isSome = true) ∨
  (t.cb = false ∧ ∃ i ∈ t.ins, ∃ ck cr, B.credits ck = some cr ∧ ck.tx = i.tx ∧ ck.idx = i.idx ∧
    isW own w cr.sh = false)

section
variable {own own' : Own} {w : Wid}

/-- the credit of a created coin, whatever its spent state, pays the coin's address -/
theorem credit_sh_of_created {p : Params} {P : List Occ} {B : Book} (hC : CredInv p own P B) {u : UCoin}
    (hu : CreatedIn own P u) : ∃ cr, B.credits u.credKey = some cr ∧ cr.sh = u.out.addr := by
  by_cases hs : (u.tx, u.idx) ∈ spentOps P
  · obtain ⟨dk, hdk⟩ := mem_spentOps_spentBy hs
    exact ⟨_, hC.spent u dk hu hdk, rfl⟩
  · exact ⟨_, hC.unspent u hu hs, rfl⟩

theorem touches_minus_mono (hO : OwnMinus own own' w) {B B' : Book} (hL : B'.L = B.L.filter (keepU w)) (t : Tx)
    (h : touches own' B' t = true) : touches own B t = true := by
  unfold touches at h ⊢
  simp only [Bool.or_eq_true, Bool.and_eq_true, Bool.not_eq_true', List.any_eq_true] at h ⊢
  rcases h with ⟨hcb, i, hi, hl⟩ | ⟨o, ho, hoo⟩
  · left
    refine ⟨hcb, i, hi, ?_⟩
    obtain ⟨u, hu⟩ := Option.isSome_iff_exists.1 hl
    obtain ⟨hm, ht, hidx⟩ := lookupU_some hu
    rw [hL] at hm
    cases h' : lookupU B.L i.tx i.idx with
    | some _ => rfl
    | none => exact absurd ⟨ht, hidx⟩ (lookupU_none h' u (List.mem_filter.1 hm).1)
  · exact Or.inr ⟨o, ho, ownerOf_minus_isSome hO hoo⟩

/-- THE KEY FACT: at the moment transaction `oc` is processed, it touches the books of the view without `w`
    iff it is needed by another wallet (judged on the FINAL full books) -/
theorem touches_minus_iff (hO : OwnMinus own own' w) (p : Params) {P₁ P₂ : List Occ} {oc : Occ}
    (hV : ValidFrom own [] (P₁ ++ oc :: P₂)) :
    touches own' (P₁.foldl (applyOcc p own') {}) oc.t = true ↔
      NeededBy own own' w ((P₁ ++ oc :: P₂).foldl (applyOcc p own) {}) oc.t := by
  have hV1 : ValidFrom own [] P₁ := (validFrom_append.1 hV).1
  have hVoc : OccValid own P₁ oc := by
    have := (validFrom_append.1 hV).2
    simp only [List.nil_append] at this
    exact this.1
  have hG1 : Glob own P₁ (P₁.foldl (applyOcc p own) {}) := by
    simpa using glob_fold (p := p) (glob_nil own) hV1
  have hG1' : Glob own' P₁ (P₁.foldl (applyOcc p own') {}) := by
    simpa using glob_fold (p := p) (glob_nil own') (validFrom_minus hO hV1)
  have hG : Glob own (P₁ ++ oc :: P₂) ((P₁ ++ oc :: P₂).foldl (applyOcc p own) {}) := by
    simpa using glob_fold (p := p) (glob_nil own) hV
  have hC : CredInv p own (P₁ ++ oc :: P₂) ((P₁ ++ oc :: P₂).foldl (applyOcc p own) {}) := by
    simpa using credInv_fold (credInv_nil p own) (glob_nil own) hV
  have hL : (P₁.foldl (applyOcc p own') {}).L = (P₁.foldl (applyOcc p own) {}).L.filter (keepU w) :=
    fold_L_minus hO p P₁ {} {} rfl
  unfold touches NeededBy
  simp only [Bool.or_eq_true, Bool.and_eq_true, Bool.not_eq_true', List.any_eq_true]
  constructor
  · rintro (⟨hcb, i, hi, hl⟩ | ⟨o, ho, hoo⟩)
    · right
      refine ⟨hcb, i, hi, ?_⟩
      obtain ⟨u, hu⟩ := Option.isSome_iff_exists.1 hl
      obtain ⟨hm, ht, hidx⟩ := lookupU_some hu
      rw [hL] at hm
      obtain ⟨hm1, hk⟩ := List.mem_filter.1 hm
      have hc1 : CreatedIn own P₁ u := ((hG1.mem u).1 hm1).1
      have hc : CreatedIn own (P₁ ++ oc :: P₂) u := createdIn_mono hc1
      obtain ⟨cr, hcr, hsh⟩ := credit_sh_of_created hC hc
      refine ⟨u.credKey, cr, hcr, ht, hidx, ?_⟩
      rw [hsh, isW_created hc]
      unfold keepU at hk
      simpa using hk
    · exact Or.inl ⟨o, ho, hoo⟩
  · rintro (⟨o, ho, hoo⟩ | ⟨hcb, i, hi, ck, cr, hcr, htx, hidx, hsh⟩)
    · exact Or.inr ⟨o, ho, hoo⟩
    · left
      refine ⟨hcb, i, hi, ?_⟩
      obtain ⟨u, hu, hck⟩ := hC.only ck cr hcr
      obtain ⟨cr', hcr', hsh'⟩ := credit_sh_of_created hC hu
      rw [← hck, hcr] at hcr'
      injection hcr' with hcr'
      have hw : u.wallet ≠ w := by
        rw [hcr', hsh', isW_created hu] at hsh
        simpa using hsh
      have hut : u.tx = i.tx := by rw [← htx, hck]; rfl
      have hui : u.idx = i.idx := by rw [← hidx, hck]; rfl
      -- the creating transaction is before `oc`
      have hsrc : i.tx ∈ idsOf P₁ := srcOut_isSome_mem (hVoc.2.1 hcb i hi)
      obtain ⟨oc1, hoc1, hid1⟩ := List.mem_map.1 hsrc
      obtain ⟨oc0, hoc0, hid0, hget, hown, hblk, hcbu⟩ := hu
      have he : oc0 = oc1 := occ_eq_of_id hG.idsNodup hoc0 (List.mem_append_left _ hoc1)
        (by rw [hid0, hid1, hut])
      have hc1 : CreatedIn own P₁ u := ⟨oc0, he ▸ hoc1, hid0, hget, hown, hblk, hcbu⟩
      have hns : (u.tx, u.idx) ∉ spentOps P₁ := by
        have := hVoc.2.2.2.1 hcb i hi
        unfold opOf at this
        rw [hut, hui]; exact this
      have hm1 : u ∈ (P₁.foldl (applyOcc p own) {}).L := (hG1.mem u).2 ⟨hc1, hns⟩
      have hm' : u ∈ (P₁.foldl (applyOcc p own') {}).L := by
        rw [hL]; exact List.mem_filter.2 ⟨hm1, by unfold keepU; simpa using hw⟩
      have := char_lookup_of_mem hG1' hm'
      rw [hut, hui] at this
      rw [this]; rfl

/-- TX RECORDS of the books without `w`: those of the transactions needed by another wallet -/
theorem txrecs_minus (hO : OwnMinus own own' w) (p : Params) {P : List Occ} (hV : ValidFrom own [] P)
    (key : TxId × BlockMeta) (loc : BlkId × Nat) :
    (P.foldl (applyOcc p own') {}).txrecs key = some loc ↔
      (P.foldl (applyOcc p own) {}).txrecs key = some loc ∧
        ∃ oc ∈ P, key = (oc.t.id, oc.bm) ∧ NeededBy own own' w (P.foldl (applyOcc p own) {}) oc.t := by
  have hn : (idsOf P).Nodup := by
    have : Glob own P (P.foldl (applyOcc p own) {}) := by simpa using glob_fold (p := p) (glob_nil own) hV
    exact this.idsNodup
  constructor
  · intro h
    obtain ⟨P₁, oc, P₂, hsplit, ht, hk, hl⟩ := (fold_txrecs_iff p own' P hn key loc).1 h
    subst hsplit
    have hN := (touches_minus_iff hO p hV).1 ht
    have ht0 : touches own (P₁.foldl (applyOcc p own) {}) oc.t = true :=
      touches_minus_mono hO (fold_L_minus hO p P₁ {} {} rfl) oc.t ht
    exact ⟨(fold_txrecs_iff p own _ hn key loc).2 ⟨P₁, oc, P₂, rfl, ht0, hk, hl⟩,
      oc, by simp, hk, hN⟩
  · rintro ⟨h, oc, hoc, hk, hN⟩
    obtain ⟨P₁, oc1, P₂, hsplit, _, hk1, hl⟩ := (fold_txrecs_iff p own P hn key loc).1 h
    subst hsplit
    have he : oc = oc1 := occ_eq_of_id hn hoc (by simp) (by
      have := hk.symm.trans hk1
      exact congrArg Prod.fst this)
    subst he
    exact (fold_txrecs_iff p own' _ hn key loc).2 ⟨P₁, oc, P₂, rfl, (touches_minus_iff hO p hV).2 hN, hk1, hl⟩

/-- the books `B'` are the books `B` restricted to the wallets other than `w` -/
structure BookMinus (own own' : Own) (w : Wid) (P : List Occ) (B B' : Book) : Prop where
  L : B'.L = B.L.filter (keepU w)
  credits : ∀ ck cr, B'.credits ck = some cr ↔ B.credits ck = some cr ∧ isW own w cr.sh = false
  debits : ∀ dk d, B'.debits dk = some d ↔
    B.debits dk = some d ∧ ∃ cr, B.credits d.2 = some cr ∧ isW own w cr.sh = false
  game : ∀ gk, B'.game gk = some () ↔ B.game gk = some () ∧ gk.wallet ≠ w
  txrecs : ∀ key loc, B'.txrecs key = some loc ↔
    B.txrecs key = some loc ∧ ∃ oc ∈ P, key = (oc.t.id, oc.bm) ∧ NeededBy own own' w B oc.t

theorem fold_minus (hO : OwnMinus own own' w) (p : Params) {P : List Occ} (hV : ValidFrom own [] P) :
    BookMinus own own' w P (P.foldl (applyOcc p own) {}) (P.foldl (applyOcc p own') {}) := by
  have hV' := validFrom_minus hO hV
  have hC : CredInv p own P (P.foldl (applyOcc p own) {}) := by
    simpa using credInv_fold (credInv_nil p own) (glob_nil own) hV
  have hC' : CredInv p own' P (P.foldl (applyOcc p own') {}) := by
    simpa using credInv_fold (credInv_nil p own') (glob_nil own') hV'
  have hD : DebitInv own P (P.foldl (applyOcc p own) {}) := by
    simpa using debitInv_fold (p := p) (debitInv_nil own) (glob_nil own) hV
  have hD' : DebitInv own' P (P.foldl (applyOcc p own') {}) := by
    simpa using debitInv_fold (p := p) (debitInv_nil own') (glob_nil own') hV'
  have hGm : GameInv own P (P.foldl (applyOcc p own) {}) := by
    simpa using gameInv_fold (p := p) (gameInv_nil own) (glob_nil own) hV
  have hGm' : GameInv own' P (P.foldl (applyOcc p own') {}) := by
    simpa using gameInv_fold (p := p) (gameInv_nil own') (glob_nil own') hV'
  exact ⟨fold_L_minus hO p P {} {} rfl, credits_minus hO hC hC', debits_minus hO hC hD hD',
    game_minus hO hGm hGm', txrecs_minus hO p hV⟩

/-- **the projection lemma**: for a valid chain, the books for the keystore view without `w` are the books for the
    full view restricted to the other wallets -/
theorem bookOf_minus (hO : OwnMinus own own' w) (p : Params) {chain : List Block} (hV : ChainValid own chain) :
    BookMinus own own' w (occs chain) (bookOf p own chain) (bookOf p own' chain) :=
  fold_minus hO p hV

end

-- ------------------------------------------------------------------ block records by tx records

/-- ids of the transactions among `ocs` that have a tx record in `B`, in order -/
def recIds (B : Book) (ocs : List Occ) : List TxId :=
  ocs.filterMap (fun oc => if (B.txrecs (oc.t.id, oc.bm)).isSome then some oc.t.id else none)

/-- a transaction of a valid sequence touches the books when it is processed iff it has a tx record at the end -/
theorem touches_iff_txrec (p : Params) (own : Own) {P₁ P₂ : List Occ} {oc : Occ}
    (hn : (idsOf (P₁ ++ oc :: P₂)).Nodup) :
    touches own (P₁.foldl (applyOcc p own) {}) oc.t = true ↔
      (((P₁ ++ oc :: P₂).foldl (applyOcc p own) {}).txrecs (oc.t.id, oc.bm)).isSome = true := by
  constructor
  · intro ht
    rw [(fold_txrecs_iff p own _ hn (oc.t.id, oc.bm) (oc.bm.hash, oc.ti)).2 ⟨P₁, oc, P₂, rfl, ht, rfl, rfl⟩]
    rfl
  · intro h
    obtain ⟨loc, hloc⟩ := Option.isSome_iff_exists.1 h
    obtain ⟨Q₁, oc1, Q₂, hsplit, ht, hk, _⟩ := (fold_txrecs_iff p own _ hn _ loc).1 hloc
    have hid : oc.t.id = oc1.t.id := congrArg Prod.fst hk
    -- the split is unique: same id, pairwise distinct ids
    have key : ∀ (A A' : List Occ) (x x' : Occ) (C C' : List Occ), A ++ x :: C = A' ++ x' :: C' →
        (idsOf (A ++ x :: C)).Nodup → x.t.id = x'.t.id → A = A' := by
      intro A
      induction A with
      | nil =>
        intro A' x x' C C' he hnd hid
        cases A' with
        | nil => rfl
        | cons a A' =>
          exfalso
          simp only [List.nil_append, List.cons_append, List.cons.injEq] at he
          obtain ⟨h1, h2⟩ := he
          unfold idsOf at hnd
          simp only [List.nil_append, List.map_cons, List.nodup_cons] at hnd
          apply hnd.1
          rw [h2, hid]
          simp
      | cons a A ih =>
        intro A' x x' C C' he hnd hid
        cases A' with
        | nil =>
          exfalso
          simp only [List.nil_append, List.cons_append, List.cons.injEq] at he
          obtain ⟨h1, h2⟩ := he
          unfold idsOf at hnd
          simp only [List.cons_append, List.map_cons, List.nodup_cons] at hnd
          apply hnd.1
          rw [h1, ← hid]
          simp
        | cons a' A' =>
          simp only [List.cons_append, List.cons.injEq] at he
          obtain ⟨h1, h2⟩ := he
          unfold idsOf at hnd
          simp only [List.cons_append, List.map_cons, List.nodup_cons] at hnd
          rw [h1, ih A' x x' C C' h2 hnd.2 hid]
    have hP : P₁ = Q₁ := key P₁ Q₁ oc oc1 P₂ Q₂ hsplit hn hid
    subst hP
    have : oc = oc1 := by
      have := List.append_cancel_left hsplit
      injection this
    subst this
    exact ht

/-- the touching transactions among `ocs` (a segment of a valid sequence) are those with a tx record at the end -/
theorem touchIds_eq_recIds (p : Params) (own : Own) (ocs : List Occ) :
    ∀ (P₀ P₂ : List Occ), (idsOf (P₀ ++ ocs ++ P₂)).Nodup →
      touchIds p own (P₀.foldl (applyOcc p own) {}) ocs =
        recIds ((P₀ ++ ocs ++ P₂).foldl (applyOcc p own) {}) ocs := by
  induction ocs with
  | nil => intro _ _ _; rfl
  | cons oc ocs ih =>
    intro P₀ P₂ hn
    have hsplit : P₀ ++ oc :: ocs ++ P₂ = P₀ ++ oc :: (ocs ++ P₂) := by simp
    have hsplit2 : P₀ ++ oc :: ocs ++ P₂ = (P₀ ++ [oc]) ++ ocs ++ P₂ := by simp
    have h1 := touches_iff_txrec p own (P₁ := P₀) (P₂ := ocs ++ P₂) (oc := oc) (by rw [← hsplit]; exact hn)
    have h2 := ih (P₀ ++ [oc]) P₂ (by rw [← hsplit2]; exact hn)
    simp only [touchIds, recIds, List.filterMap_cons]
    rw [List.foldl_append] at h2
    simp only [List.foldl_cons, List.foldl_nil] at h2
    rw [h2, ← hsplit2]
    rw [← hsplit] at h1
    by_cases ht : touches own (P₀.foldl (applyOcc p own) {}) oc.t = true
    · rw [if_pos ht, if_pos (h1.1 ht)]
      rfl
    · rw [if_neg ht]
      have : ¬ (((P₀ ++ oc :: ocs ++ P₂).foldl (applyOcc p own) {}).txrecs (oc.t.id, oc.bm)).isSome = true :=
        fun h => ht (h1.2 h)
      rw [if_neg this]
      rfl

/-- BLOCK RECORDS as a function of the tx records: the record of a block of a valid chain lists, in block order,
    exactly the transactions of the block that have a tx record (none if there is none) -/
theorem blocks_by_txrecs (p : Params) (own : Own) (pre post : List Block) (b : Block)
    (hV : ChainValid own (pre ++ b :: post)) (hH : HeightsOK (pre ++ b :: post)) :
    (bookOf p own (pre ++ b :: post)).blocks b.height =
      match recIds (bookOf p own (pre ++ b :: post)) (occsOfBlock b) with
      | [] => none
      | ids => some (b.id, ids) := by
  rw [bookOf_blocks_at p own pre post b hH]
  have hn : (idsOf (occs (pre ++ b :: post))).Nodup := (glob_bookOf (p := p) hV).idsNodup
  have hocc : occs (pre ++ b :: post) = occs pre ++ occsOfBlock b ++ occs post := by
    have : pre ++ b :: post = pre ++ [b] ++ post := by simp
    rw [this, occs_append, occs_append]
    congr 2
    unfold occs; simp
  have := touchIds_eq_recIds p own (occsOfBlock b) (occs pre) (occs post) (by rw [← hocc]; exact hn)
  unfold bookOf
  rw [hocc, this]
  generalize recIds _ _ = l
  cases l <;> rfl

end MW.Lemmas.RemoveProj
