/- C19: kernel evaluations of the static checker (reflective proofs): closed functions are accepted from
   no assumptions, entry points are accepted with their non-closed callees checked in place -/
import MW.Model.Api
namespace MW.Lemmas.ApiSafe
open MW.Model.Api

set_option maxHeartbeats 100000000 in
theorem closed_AmountToString_wm : ∃ body m, prog Fn.AmountToString_common = some body ∧ (check prog exports imports closed m [] body).isSome = true :=
  ⟨f_AmountToString, checkFuel, rfl, by decide +kernel⟩

set_option maxHeartbeats 100000000 in
theorem closed_AutoCreateRawTransaction : ∃ body m, prog Fn.AutoCreateRawTransaction = some body ∧ (check prog exports imports closed m [] body).isSome = true :=
  ⟨f_AutoCreateRawTransaction, checkFuel, rfl, by decide +kernel⟩

set_option maxHeartbeats 100000000 in
theorem closed_CreateBindingTransaction : ∃ body m, prog Fn.CreateBindingTransaction_wallet = some body ∧ (check prog exports imports closed m [] body).isSome = true :=
  ⟨f_CreateBindingTransaction, checkFuel, rfl, by decide +kernel⟩

set_option maxHeartbeats 100000000 in
theorem closed_CreateWallet : ∃ body m, prog Fn.CreateWallet_wallet = some body ∧ (check prog exports imports closed m [] body).isSome = true :=
  ⟨f_CreateWallet, checkFuel, rfl, by decide +kernel⟩

set_option maxHeartbeats 100000000 in
theorem closed_RemoveWallet : ∃ body m, prog Fn.RemoveWallet_wallet = some body ∧ (check prog exports imports closed m [] body).isSome = true :=
  ⟨f_RemoveWallet, checkFuel, rfl, by decide +kernel⟩

set_option maxHeartbeats 100000000 in
theorem closed_amountToTxOut : ∃ body m, prog Fn.amountToTxOut = some body ∧ (check prog exports imports closed m [] body).isSome = true :=
  ⟨f_amountToTxOut, checkFuel, rfl, by decide +kernel⟩

set_option maxHeartbeats 100000000 in
theorem closed_autoConstructTxInAndChangeTxOut : ∃ body m, prog Fn.autoConstructTxInAndChangeTxOut = some body ∧ (check prog exports imports closed m [] body).isSome = true :=
  ⟨f_autoConstructTxInAndChangeTxOut, checkFuel, rfl, by decide +kernel⟩

set_option maxHeartbeats 100000000 in
theorem closed_checkAddressLen : ∃ body m, prog Fn.checkAddressLen = some body ∧ (check prog exports imports closed m [] body).isSome = true :=
  ⟨f_checkAddressLen, checkFuel, rfl, by decide +kernel⟩

set_option maxHeartbeats 100000000 in
theorem closed_checkFormatAmount : ∃ body m, prog Fn.checkFormatAmount = some body ∧ (check prog exports imports closed m [] body).isSome = true :=
  ⟨f_checkFormatAmount, checkFuel, rfl, by decide +kernel⟩

set_option maxHeartbeats 100000000 in
theorem closed_checkTransactionIdLen : ∃ body m, prog Fn.checkTransactionIdLen = some body ∧ (check prog exports imports closed m [] body).isSome = true :=
  ⟨f_checkTransactionIdLen, checkFuel, rfl, by decide +kernel⟩

set_option maxHeartbeats 100000000 in
theorem closed_checkWitnessAddress : ∃ body m, prog Fn.checkWitnessAddress = some body ∧ (check prog exports imports closed m [] body).isSome = true :=
  ⟨f_checkWitnessAddress, checkFuel, rfl, by decide +kernel⟩

set_option maxHeartbeats 100000000 in
theorem closed_createTxRawResult : ∃ body m, prog Fn.createTxRawResult = some body ∧ (check prog exports imports closed m [] body).isSome = true :=
  ⟨f_createTxRawResult, checkFuel, rfl, by decide +kernel⟩

set_option maxHeartbeats 100000000 in
theorem closed_getUtxos : ∃ body m, prog Fn.getUtxos = some body ∧ (check prog exports imports closed m [] body).isSome = true :=
  ⟨f_getUtxos, checkFuel, rfl, by decide +kernel⟩

set_option maxHeartbeats 100000000 in
theorem closed_optOutputs : ∃ body m, prog Fn.optOutputs = some body ∧ (check prog exports imports closed m [] body).isSome = true :=
  ⟨f_optOutputs, checkFuel, rfl, by decide +kernel⟩

set_option maxHeartbeats 100000000 in
theorem closed_processConnectedBlock : ∃ body m, prog Fn.processConnectedBlock = some body ∧ (check prog exports imports closed m [] body).isSome = true :=
  ⟨f_processConnectedBlock, checkFuel, rfl, by decide +kernel⟩

set_option maxHeartbeats 100000000 in
theorem safe_GetTransactionFee : safe prog exports imports closed checkFuel (.invoke Fn.GetTransactionFee) = true := by decide +kernel

set_option maxHeartbeats 100000000 in
theorem safe_GetWalletBalance : safe prog exports imports closed checkFuel (.invoke Fn.GetWalletBalance) = true := by decide +kernel

set_option maxHeartbeats 100000000 in
theorem safe_GetWalletMnemonic : safe prog exports imports closed checkFuel (.invoke Fn.GetWalletMnemonic) = true := by decide +kernel

set_option maxHeartbeats 100000000 in
theorem safe_Start_wm : safe prog exports imports closed checkFuel (.invoke Fn.Start_wallet) = true := by decide +kernel

set_option maxHeartbeats 100000000 in
theorem safe_ValidateAddress : safe prog exports imports closed checkFuel (.invoke Fn.ValidateAddress) = true := by decide +kernel

end MW.Lemmas.ApiSafe
