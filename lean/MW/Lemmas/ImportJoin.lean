/-
  C07 stage 1 with other wallets in the instance, part 2 — the JOINED BOOK (pure MW.Spec.Books).
  While wallet `w` is being rescanned the store holds two things at once: the books `Br` of the READY wallets for
  the whole followed chain (written by the live follower) and the books `Bw` of `w` for the chain up to the
  rescan's cursor.  `EqJ J Br Bw` says book `J` is their join (ledger list = concatenation, tables = `Br`'s entry
  if there is one, else `Bw`'s).  `SepR` collects what makes the two halves disjoint (a coin / credit / debit /
  deposit record of `Br` belongs to a wallet other than `w`), and the `eqJ_*` lemmas show that the book
  operations of one transaction of `w` (`spendB` / `createB` / `depositB` with the view restricted to `w`)
  performed on the join are the join of `Br` with the operation performed on `Bw`.
-/
import MW.Lemmas.ImportSub
import MW.Lemmas.LedgerTx
import MW.Lemmas.LedgerChar2
namespace MW.Lemmas.ImportJoin
open MW MW.Model.Ledger MW.Model.Import MW.Spec.Chain MW.Spec.Books MW.Lemmas.Ledger

/-- first entry wins -/
def orE {α : Type} : Option α → Option α → Option α
  | some x, _ => some x
  | none, b => b

@[simp] theorem orE_some {α : Type} (x : α) (b : Option α) : orE (some x) b = some x := rfl
@[simp] theorem orE_none {α : Type} (b : Option α) : orE none b = b := rfl
@[simp] theorem orE_none_right {α : Type} (a : Option α) : orE a none = a := by cases a <;> rfl

/-- `J` is the join of the books `Br` (ready wallets) and `Bw` (the wallet being restored); block records and
    address records are not part of it (block records are a function of the tx records: `BlocksOK`) -/
structure EqJ (J Br Bw : Book) : Prop where
  L : J.L = Br.L ++ Bw.L
  credits : ∀ k, J.credits k = orE (Br.credits k) (Bw.credits k)
  debits : ∀ k, J.debits k = orE (Br.debits k) (Bw.debits k)
  game : ∀ k, J.game k = orE (Br.game k) (Bw.game k)
  txrecs : ∀ k, J.txrecs k = orE (Br.txrecs k) (Bw.txrecs k)

theorem lookupU_append (A B : List UCoin) (tx : TxId) (idx : Nat) :
    lookupU (A ++ B) tx idx = orE (lookupU A tx idx) (lookupU B tx idx) := by
  unfold lookupU
  rw [List.find?_append]
  cases List.find? (UCoin.at tx idx) A <;> rfl

/-- an owned output of wallet `w` on the chain -/
def WCoin (own : Own) (w : Wid) (C : List Occ) (u : UCoin) : Prop := CreatedIn own C u ∧ u.wallet = w

/-- **separation**: everything in the books `Br` belongs to wallets other than `w` (`C` = all transactions of
    the chain, `own` the full keystore table) -/
structure SepR (own : Own) (w : Wid) (C : List Occ) (Br : Book) : Prop where
  nodup : (idsOf C).Nodup
  L : ∀ u ∈ Br.L, CreatedIn own C u ∧ u.wallet ≠ w ∧ (u.tx, u.idx) ∉ spentOps C
  cred : ∀ ck cr, Br.credits ck = some cr → ∃ u, CreatedIn own C u ∧ u.wallet ≠ w ∧ ck = u.credKey
  debit : ∀ dk d, Br.debits dk = some d → ∃ u, CreatedIn own C u ∧ u.wallet ≠ w ∧ SpentBy C (u.tx, u.idx) dk
  game : ∀ gk, Br.game gk = some () → gk.wallet ≠ w

/-- the books of a valid chain for the view without `w` are separated from `w` -/
theorem sepR_bookOf {p : Params} {own or : Own} {w : Wid} (hO : OwnSub own or (fun x => decide (x ≠ w)))
    {chain : List Block} (hV : ChainValid own chain) : SepR own w (occs chain) (bookOf p or chain) := by
  have hVr := chainValid_sub hO hV
  have hG := glob_bookOf (p := p) hVr
  have hC := credInv_bookOf (p := p) hVr
  have hD := debitInv_bookOf (p := p) hVr
  have hGm := gameInv_bookOf (p := p) hVr
  have hk : ∀ {u : UCoin}, CreatedIn or (occs chain) u → CreatedIn own (occs chain) u ∧ u.wallet ≠ w := by
    intro u hu
    obtain ⟨h1, h2⟩ := (createdIn_sub hO).1 hu
    exact ⟨h1, by simpa using h2⟩
  refine ⟨hG.idsNodup, ?_, ?_, ?_, ?_⟩
  · intro u hu
    obtain ⟨h1, h2⟩ := (hG.mem u).1 hu
    exact ⟨(hk h1).1, (hk h1).2, h2⟩
  · intro ck cr h
    obtain ⟨u, hu, hck⟩ := hC.only ck cr h
    exact ⟨u, (hk hu).1, (hk hu).2, hck⟩
  · intro dk d h
    obtain ⟨amt, ck⟩ := d
    obtain ⟨u, hu, hsp, _, _⟩ := (hD dk amt ck).1 h
    exact ⟨u, (hk hu).1, (hk hu).2, hsp⟩
  · intro gk h
    obtain ⟨u, hu, _, hgk⟩ := (hGm gk).1 h
    rw [hgk]; exact (hk hu).2

section
variable {own : Own} {w : Wid} {C : List Occ} {Br : Book}

theorem sep_L (hS : SepR own w C Br) {u : UCoin} (hu : WCoin own w C u) : lookupU Br.L u.tx u.idx = none := by
  cases h : lookupU Br.L u.tx u.idx with
  | none => rfl
  | some u0 =>
    exfalso
    obtain ⟨hm, ht, hi⟩ := lookupU_some h
    obtain ⟨hc0, hw0, _⟩ := hS.L u0 hm
    have := char_created_unique hS.nodup hc0 hu.1 ht hi
    rw [this] at hw0; exact hw0 hu.2

theorem sep_cred (hS : SepR own w C Br) {u : UCoin} (hu : WCoin own w C u) : Br.credits u.credKey = none := by
  cases h : Br.credits u.credKey with
  | none => rfl
  | some cr =>
    exfalso
    obtain ⟨u0, hc0, hw0, hck⟩ := hS.cred _ _ h
    obtain ⟨ht, hi⟩ := char_credKey_inj hck
    have := char_created_unique hS.nodup hu.1 hc0 ht hi
    rw [← this] at hw0; exact hw0 hu.2

theorem sep_game (hS : SepR own w C Br) (gk : GameKey) (hw : gk.wallet = w) : Br.game gk = none := by
  cases h : Br.game gk with
  | none => rfl
  | some x => cases x; exact absurd hw (hS.game gk h)

theorem sep_debit (hS : SepR own w C Br) {u : UCoin} (hu : WCoin own w C u) {dk : CredKey}
    (hsp : SpentBy C (u.tx, u.idx) dk) : Br.debits dk = none := by
  cases h : Br.debits dk with
  | none => rfl
  | some d =>
    exfalso
    obtain ⟨u0, hc0, hw0, hsp0⟩ := hS.debit _ _ h
    obtain ⟨oc, hoc, _, k, i, hk, hop, hdk⟩ := hsp
    obtain ⟨oc', hoc', _, k', i', hk', hop', hdk'⟩ := hsp0
    rw [hdk] at hdk'
    injection hdk' with h1 h2 h3
    have he : oc = oc' := occ_eq_of_id hS.nodup hoc hoc' h1
    subst he
    subst h3
    rw [hk] at hk'
    injection hk' with hk'
    subst hk'
    rw [hop] at hop'
    injection hop' with ht hi
    have := char_created_unique hS.nodup hu.1 hc0 ht hi
    rw [← this] at hw0; exact hw0 hu.2

/-- no input of a transaction of the chain finds a coin in `Br`'s ledger: `Br` is the books of the WHOLE chain -/
theorem sep_ins (hS : SepR own w C Br) {oc : Occ} (hoc : oc ∈ C) (hcb : oc.t.cb = false) {i : Inp} (hi : i ∈ oc.t.ins) :
    lookupU Br.L i.tx i.idx = none := by
  cases h : lookupU Br.L i.tx i.idx with
  | none => rfl
  | some u0 =>
    exfalso
    obtain ⟨hm, ht, hix⟩ := lookupU_some h
    apply (hS.L u0 hm).2.2
    rw [ht, hix]
    unfold spentOps
    rw [List.mem_flatMap]
    refine ⟨oc, hoc, ?_⟩
    rw [hcb]
    exact List.mem_map.2 ⟨i, hi, rfl⟩

end

-- ------------------------------------------------------------------ the book operations on a join

section
variable {p : Params} {t : Tx} {bm : BlockMeta} {J Br Bw : Book}

theorem eqJ_spendB_miss {k : Nat} {i : Inp} (hE : EqJ J Br Bw) (hr : lookupU Br.L i.tx i.idx = none)
    (hw : lookupU Bw.L i.tx i.idx = none) : EqJ (spendB p t bm J k i) Br (spendB p t bm Bw k i) := by
  have : lookupU J.L i.tx i.idx = none := by rw [hE.L, lookupU_append, hr, hw]; rfl
  rw [spendB_miss this, spendB_miss hw]; exact hE

theorem eqJ_spendB_hit {k : Nat} {i : Inp} {u : UCoin} (hE : EqJ J Br Bw) (hr : lookupU Br.L i.tx i.idx = none)
    (hw : lookupU Bw.L i.tx i.idx = some u) (hc : Br.credits u.credKey = none)
    (hd : Br.debits ⟨t.id, bm, k⟩ = none) (hg : ∀ b, Br.game (u.gameKey b) = none) :
    EqJ (spendB p t bm J k i) Br (spendB p t bm Bw k i) := by
  have hJ : lookupU J.L i.tx i.idx = some u := by rw [hE.L, lookupU_append, hr, hw]; rfl
  unfold spendB
  rw [hJ, hw]
  constructor
  · show J.L.filter _ = Br.L ++ Bw.L.filter _
    rw [hE.L, List.filter_append]
    congr 1
    rw [List.filter_eq_self]
    intro a ha
    have := lookupU_none hr a ha
    cases hat : UCoin.at i.tx i.idx a with
    | false => rfl
    | true => exact absurd ((at_iff _ _ _).1 hat) this
  · intro ck
    simp only [upd_apply]
    by_cases hk : u.credKey = ck
    · subst hk; simp [hc]
    · simp only [hk, if_false]; exact hE.credits ck
  · intro dk
    simp only [upd_apply]
    by_cases hk : (⟨t.id, bm, k⟩ : CredKey) = dk
    · subst hk; simp [hd]
    · simp only [hk, if_false]; exact hE.debits dk
  · intro gk
    by_cases hdp : isDeposit u.out.cls = true
    · simp only [hdp, if_true, upd_apply]
      by_cases h1 : u.gameKey true = gk
      · subst h1; simp [hg true]
      · simp only [h1, if_false]
        by_cases h2 : u.gameKey false = gk
        · subst h2; simp [hg false]
        · simp only [h2, if_false]; exact hE.game gk
    · simp only [hdp]; exact hE.game gk
  · exact hE.txrecs

/-- the relevance list of the inputs is the same on the join as on `Bw` when no input finds a coin of `Br` -/
theorem hits_join (hE : EqJ J Br Bw) (is : List Inp) (k : Nat) (hr : ∀ i ∈ is, lookupU Br.L i.tx i.idx = none) :
    hitsFrom J.L is k = hitsFrom Bw.L is k := by
  induction is generalizing k with
  | nil => rfl
  | cons i is ih =>
    unfold hitsFrom
    rw [ih (k + 1) (fun i' hi' => hr i' (List.mem_cons_of_mem _ hi')), hE.L, lookupU_append,
      hr i (List.mem_cons_self ..)]
    rfl

theorem spendB_L_sub {k : Nat} {i : Inp} {B : Book} {u : UCoin} (h : u ∈ (spendB p t bm B k i).L) : u ∈ B.L := by
  cases hu : lookupU B.L i.tx i.idx with
  | none => rw [spendB_miss hu] at h; exact h
  | some u0 => rw [spendB_L_hit hu] at h; exact (List.mem_filter.1 h).1

/-- the spend fold on a join -/
theorem eqJ_spendFold (is : List Inp) :
    ∀ (k : Nat) (J Bw : Book), EqJ J Br Bw →
      (∀ i ∈ is, lookupU Br.L i.tx i.idx = none) →
      (∀ u ∈ Bw.L, Br.credits u.credKey = none ∧ ∀ b, Br.game (u.gameKey b) = none) →
      (∀ m i u, is[m]? = some i → u ∈ Bw.L → u.tx = i.tx → u.idx = i.idx → Br.debits ⟨t.id, bm, k + m⟩ = none) →
      EqJ (foldIdx (spendB p t bm) is k J) Br (foldIdx (spendB p t bm) is k Bw) := by
  induction is with
  | nil => intro k J Bw hE _ _ _; exact hE
  | cons i is ih =>
    intro k J Bw hE hr hW hD
    rw [foldIdx_cons, foldIdx_cons]
    have hri := hr i (List.mem_cons_self ..)
    have hr' : ∀ i' ∈ is, lookupU Br.L i'.tx i'.idx = none := fun i' hi' => hr i' (List.mem_cons_of_mem _ hi')
    have hW' : ∀ u ∈ (spendB p t bm Bw k i).L, Br.credits u.credKey = none ∧ ∀ b, Br.game (u.gameKey b) = none :=
      fun u hu => hW u (spendB_L_sub hu)
    have hD' : ∀ m i' u, is[m]? = some i' → u ∈ (spendB p t bm Bw k i).L → u.tx = i'.tx → u.idx = i'.idx →
        Br.debits ⟨t.id, bm, k + 1 + m⟩ = none := by
      intro m i' u hm hu ht hi
      have := hD (m + 1) i' u (by simpa using hm) (spendB_L_sub hu) ht hi
      rw [show k + 1 + m = k + (m + 1) by omega]; exact this
    apply ih (k + 1) _ _ _ hr' hW' hD'
    cases hw : lookupU Bw.L i.tx i.idx with
    | none => exact eqJ_spendB_miss hE hri hw
    | some u =>
      obtain ⟨hm, ht, hi⟩ := lookupU_some hw
      have hd := hD 0 i u rfl hm ht hi
      exact eqJ_spendB_hit hE hri hw (hW u hm).1 (by simpa using hd) (hW u hm).2

theorem createB_own_congr {own own' : Own} {j : Nat} {o : Out} (B : Book) (h : ownerOf own o = ownerOf own' o) :
    createB p own t bm B j o = createB p own' t bm B j o := by
  unfold createB; rw [h]

theorem eqJ_createB {ow : Own} {j : Nat} {o : Out} (hE : EqJ J Br Bw)
    (hc : (ownerOf ow o).isSome = true → Br.credits ⟨t.id, bm, j⟩ = none) :
    EqJ (createB p ow t bm J j o) Br (createB p ow t bm Bw j o) := by
  cases ho : ownerOf ow o with
  | none => rw [createB_none ho, createB_none ho]; exact hE
  | some x =>
    obtain ⟨w', ch⟩ := x
    have hc' := hc (by rw [ho]; rfl)
    unfold createB
    rw [ho]
    constructor
    · show J.L ++ _ = Br.L ++ (Bw.L ++ _)
      rw [hE.L, List.append_assoc]
    · intro ck
      simp only [upd_apply]
      by_cases hk : (UCoin.credKey ⟨w', t.id, j, bm, t.cb, o, ch⟩) = ck
      · subst hk
        have : Br.credits (UCoin.credKey ⟨w', t.id, j, bm, t.cb, o, ch⟩) = none := hc'
        simp [this]
      · simp only [hk, if_false]; exact hE.credits ck
    · exact hE.debits
    · exact hE.game
    · exact hE.txrecs

theorem eqJ_createFold {ow : Own} (os : List Out) :
    ∀ (j : Nat) (J Bw : Book), EqJ J Br Bw →
      (∀ m o, os[m]? = some o → (ownerOf ow o).isSome = true → Br.credits ⟨t.id, bm, j + m⟩ = none) →
      EqJ (foldIdx (createB p ow t bm) os j J) Br (foldIdx (createB p ow t bm) os j Bw) := by
  induction os with
  | nil => intro j J Bw hE _; exact hE
  | cons o os ih =>
    intro j J Bw hE hc
    rw [foldIdx_cons, foldIdx_cons]
    apply ih (j + 1)
    · exact eqJ_createB hE (by simpa using hc 0 o rfl)
    · intro m o' hm ho'
      have := hc (m + 1) o' (by simpa using hm) ho'
      rw [show j + 1 + m = j + (m + 1) by omega]; exact this

theorem eqJ_depositB {ow : Own} {j : Nat} {o : Out} (hE : EqJ J Br Bw)
    (hg : ∀ w' ch, ownerOf ow o = some (w', ch) → Br.game ⟨w', o.cls.isBinding, false, t.id, bm.height, j⟩ = none) :
    EqJ (depositB ow t bm J j o) Br (depositB ow t bm Bw j o) := by
  unfold depositB
  cases ho : ownerOf ow o with
  | none => exact hE
  | some x =>
    obtain ⟨w', ch⟩ := x
    by_cases hd : isDeposit o.cls = true
    · simp only [hd, if_true]
      refine ⟨hE.L, hE.credits, hE.debits, ?_, hE.txrecs⟩
      intro gk
      simp only [upd_apply]
      by_cases hk : (⟨w', o.cls.isBinding, false, t.id, bm.height, j⟩ : GameKey) = gk
      · subst hk; simp [hg w' ch ho]
      · simp only [hk, if_false]; exact hE.game gk
    · simp only [hd]; exact hE

theorem eqJ_depositFold {ow : Own} (os : List Out) :
    ∀ (j : Nat) (J Bw : Book), EqJ J Br Bw →
      (∀ gk : GameKey, (∃ o ∈ os, ∃ ch, ownerOf ow o = some (gk.wallet, ch)) → Br.game gk = none) →
      EqJ (foldIdx (depositB ow t bm) os j J) Br (foldIdx (depositB ow t bm) os j Bw) := by
  induction os with
  | nil => intro j J Bw hE _; exact hE
  | cons o os ih =>
    intro j J Bw hE hg
    rw [foldIdx_cons, foldIdx_cons]
    apply ih (j + 1)
    · exact eqJ_depositB hE (fun w' ch ho => hg _ ⟨o, List.mem_cons_self .., ch, ho⟩)
    · intro gk ⟨o', ho', ch, h⟩
      exact hg gk ⟨o', List.mem_cons_of_mem _ ho', ch, h⟩

end

-- ------------------------------------------------------------------ local consistency of a join

theorem loc_join {p : Params} {own or ow : Own} {keepR keepW : Wid → Bool} (hOr : OwnSub own or keepR)
    (hOw : OwnSub own ow keepW) {J Br Bw : Book} (hE : EqJ J Br Bw) (hLr : Loc p or Br) (hLw : Loc p ow Bw)
    (hsep : ∀ u ∈ Bw.L, lookupU Br.L u.tx u.idx = none ∧ Br.credits u.credKey = none) : Loc p own J := by
  constructor
  · unfold KeysOK
    rw [hE.L, List.map_append, List.nodup_append]
    refine ⟨hLr.keys, hLw.keys, ?_⟩
    intro a ha b hb
    rcases List.mem_map.1 ha with ⟨x, hx, rfl⟩
    rcases List.mem_map.1 hb with ⟨y, hy, rfl⟩
    intro hkey
    unfold keyU at hkey
    simp only [Prod.mk.injEq] at hkey
    exact lookupU_none (hsep y hy).1 x hx hkey
  · intro u hu
    rw [hE.L] at hu
    rw [hE.credits]
    rcases List.mem_append.1 hu with h | h
    · rw [hLr.cred u h]; rfl
    · rw [(hsep u h).2, hLw.cred u h]; rfl
  · intro u hu
    rw [hE.L] at hu
    rcases List.mem_append.1 hu with h | h
    · exact ((ownerOf_sub_some hOr).1 (hLr.own u h)).1
    · exact ((ownerOf_sub_some hOw).1 (hLw.own u h)).1

theorem locG_join {J Br Bw : Book} (hE : EqJ J Br Bw) (hGr : LocG Br) (hGw : LocG Bw)
    (hsep : ∀ u ∈ Bw.L, Br.game (u.gameKey false) = none) : LocG J := by
  intro u hu hd
  rw [hE.L] at hu
  rw [hE.game]
  rcases List.mem_append.1 hu with h | h
  · rw [hGr u h hd]; rfl
  · rw [hsep u h, hGw u h hd]; rfl

end MW.Lemmas.ImportJoin
