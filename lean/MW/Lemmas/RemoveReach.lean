/-
  C08, `remove ⊨ project` ON REACHABLE STORES.  `remove_projects` / `inv_to_mid` (RemoveMain / RemoveInv) ask, beside
  C01's invariant `Inv`, for two facts about the store that are not part of `Inv`:
    (H1) `KeysNodup s.credits`            the keys of the LIST `s.credits` are pairwise distinct,
    (H2) `∀ e ∈ s.pendCred, e.1.1 ∉ idsOf (occs chain)`   no unmined credit record of a transaction of the chain.
  Both hold in every store reached by a C09 history (`HEv` / `stepH` / `runH`) inside the domain `HOKc` from a world
  that satisfies C09's invariant `HInvC` and (H1) — e.g. the fresh wallet:
    (H1) is an invariant of the follower outright (LedgerWFCred*, no domain needed);
    (H2) is a consequence of `HInvC`: every pending-credit record belongs to a transaction of the specification's
         pending list (`CredRel.csound`), and no pending transaction is on the wallet's chain (`Consistent`).
  So on reachable stores only `RemHyp` (the standing hypotheses about the keystore view, the script hashes and the
  chain) is left: `remove_projects_reachable`, `inv_to_mid_reachable`, `run_projects_reachable`.
-/
import MW.Lemmas.RemoveMain
import MW.Lemmas.RemoveHistory
import MW.Lemmas.LedgerWFCredH
import MW.Lemmas.PendHistCredRun
import MW.Lemmas.PendHistEx
import MW.Lemmas.LedgerHistoryEx
namespace MW.Lemmas.RemoveReach
open MW MW.Model.Ledger MW.Model.Remove MW.Spec.Chain MW.Spec.Books MW.Spec.Pending MW.Lemmas.Ledger
  MW.Lemmas.PendHist MW.Lemmas.PendHist.Cred MW.Lemmas.RemoveInv MW.Lemmas.RemoveMain MW.Lemmas.LedgerWFCred

-- ------------------------------------------------------------------ (H2) from C09's invariant

/-- an id of a transaction occurrence of the chain is `onChain` -/
theorem onChain_of_mem_ids {chain : List Block} {id : TxId} (h : id ∈ idsOf (occs chain)) :
    onChain chain id = true := by
  obtain ⟨oc, hoc, hid⟩ := List.mem_map.1 h
  obtain ⟨b, hb, hob⟩ := mem_occs.1 hoc
  obtain ⟨m, hm, _, _⟩ := mem_occsFrom.1 hob
  exact (onChain_iff chain id).2 ⟨b, hb, oc.t, List.mem_of_getElem? hm, hid⟩

/-- the hypothesis `pendOff` of `remove_projects` / `inv_to_mid`, from the two relations of C09: a record of the
    pending-credit bucket belongs to a transaction of the specification's pending list, and no such transaction is on
    the wallet's chain -/
theorem pendOff_of_rel {e : Spec.Pending.Env} {s : Store} {P : List Tx} {chain : List Block}
    (hc : CredRel e s P) (hcons : Consistent chain P) :
    ∀ x ∈ s.pendCred, x.1.1 ∉ idsOf (occs chain) := by
  intro x hx hmem
  obtain ⟨cr, hg⟩ := Option.isSome_iff_exists.1 (MW.Lemmas.RemoveChar.mem_get_isSome hx)
  obtain ⟨t, ht, hid, _⟩ := hc.csound x.1.1 x.1.2 cr hg
  have h1 := (hcons t ht).1
  rw [hid, onChain_of_mem_ids hmem] at h1
  cases h1

/-- (H2) in every world that satisfies C09's invariant -/
theorem pendOff_of_hinvc {rank : TxId → Nat} {E : HEnv} {w : HW} (H : HInvC rank E w) :
    ∀ e ∈ w.s.pendCred, e.1.1 ∉ idsOf (occs w.sp.chain) :=
  pendOff_of_rel H.cred H.inv.cons

/-- (H2) after every C09 history inside the domain -/
theorem pendOff_run {rank : TxId → Nat} {E : HEnv} (evs : List HEv) (w : HW) (H : HInvC rank E w)
    (hD : ∀ x ∈ worldsH E w evs, HOKc rank E x.1 x.2) :
    ∀ e ∈ (runH E w evs).s.pendCred, e.1.1 ∉ idsOf (occs (runH E w evs).sp.chain) :=
  pendOff_of_hinvc (hinvc_run evs w H hD)

-- ------------------------------------------------------------------ everything `remove_projects` needs, on reachable stores

/-- a store reached by a C09 history inside the domain, from a world satisfying C09's invariant whose credit bucket
    has distinct keys: C01's invariant, (H1) and (H2) -/
theorem reachable_ready {rank : TxId → Nat} {E : HEnv} (evs : List HEv) (w0 : HW) (H0 : HInvC rank E w0)
    (hn0 : KeysNodup w0.s.credits) (hD : ∀ x ∈ worldsH E w0 evs, HOKc rank E x.1 x.2) :
    Inv (E.ctx (runH E w0 evs).node) (runH E w0 evs).s (runH E w0 evs).sp.chain ∧
    KeysNodup (runH E w0 evs).s.credits ∧
    (∀ e ∈ (runH E w0 evs).s.pendCred, e.1.1 ∉ idsOf (occs (runH E w0 evs).sp.chain)) :=
  ⟨(hinvc_run evs w0 H0 hD).inv.inv, credNodup_runH E evs w0 hn0, pendOff_run evs w0 H0 hD⟩

/-- `inv_to_mid` on reachable stores: only `RemHyp` is left -/
theorem inv_to_mid_reachable {rank : TxId → Nat} {E : HEnv} (evs : List HEv) (w0 : HW) (H0 : HInvC rank E w0)
    (hn0 : KeysNodup w0.s.credits) (hD : ∀ x ∈ worldsH E w0 evs, HOKc rank E x.1 x.2)
    {w : Wid} {addrs : List Addr} {own' : Own}
    (H : RemHyp (E.ctx (runH E w0 evs).node) w addrs own' (runH E w0 evs).sp.chain) :
    Mid (E.ctx (runH E w0 evs).node) w addrs own' (runH E w0 evs).s (runH E w0 evs).sp.chain :=
  have h := reachable_ready evs w0 H0 hn0 hD
  inv_to_mid H h.1 h.2.1 h.2.2

/-- **remove ⊨ project on reachable stores** (one-transaction removal): after any C09 history inside the domain from
    a world satisfying C09's invariant with a well-formed credit bucket, one finishing removal step of wallet `w`
    gives C01's invariant for the context without the removed keystore — no hypothesis about the store is left -/
theorem remove_projects_reachable {rank : TxId → Nat} {E : HEnv} (evs : List HEv) (w0 : HW) (H0 : HInvC rank E w0)
    (hn0 : KeysNodup w0.s.credits) (hD : ∀ x ∈ worldsH E w0 evs, HOKc rank E x.1 x.2)
    (limit : Nat) {w : Wid} {addrs : List Addr} {own' : Own}
    (H : RemHyp (E.ctx (runH E w0 evs).node) w addrs own' (runH E w0 evs).sp.chain)
    (ws' : List Wid) (hws : ∀ x ∈ ws', x ∈ E.wallets)
    {o : StepOut} (h : removeStep limit (E.ctx (runH E w0 evs).node) w addrs (runH E w0 evs).s = some o)
    (hf : o.finish = true) :
    Inv { (E.ctx (runH E w0 evs).node) with own := own', wallets := ws' } o.s (runH E w0 evs).sp.chain :=
  have hr := reachable_ready evs w0 H0 hn0 hD
  remove_projects limit H hr.1 hr.2.1 hr.2.2 ws' hws h hf

/-- the same for the worker loop, however many transactions the removal takes -/
theorem run_projects_reachable {rank : TxId → Nat} {E : HEnv} (evs : List HEv) (w0 : HW) (H0 : HInvC rank E w0)
    (hn0 : KeysNodup w0.s.credits) (hD : ∀ x ∈ worldsH E w0 evs, HOKc rank E x.1 x.2)
    (limit : Nat) {w : Wid} {addrs : List Addr} {own' : Own}
    (H : RemHyp (E.ctx (runH E w0 evs).node) w addrs own' (runH E w0 evs).sp.chain)
    (ws' : List Wid) (hws : ∀ x ∈ ws', x ∈ E.wallets) (n : Nat) {s' : Store}
    (h : run limit (E.ctx (runH E w0 evs).node) w addrs n (runH E w0 evs).s = .done s') :
    Inv { (E.ctx (runH E w0 evs).node) with own := own', wallets := ws' } s' (runH E w0 evs).sp.chain :=
  run_projects limit H ws' hws n (inv_to_mid_reachable evs w0 H0 hn0 hD H) h

/-- the removal steps keep (H1) (`rrt_nodup`), so (H1) holds along histories that interleave C09 events with
    removal steps — stated for one step -/
theorem credNodup_removeStep {limit : Nat} {c : Ctx} {w : Wid} {addrs : List Addr} {s : Store} {o : StepOut}
    (hne : addrs ≠ []) (hn : KeysNodup s.credits) (h : removeStep limit c w addrs s = some o) :
    KeysNodup o.s.credits := by
  unfold removeStep at h
  cases hr : removeRelevantTx limit c s addrs with
  | none => rw [hr] at h; cases h
  | some o1 =>
    rw [hr] at h
    have h1 : KeysNodup o1.s.credits := rrt_nodup limit c s addrs o1 hne hr hn
    simp only at h
    split at h
    · cases h; exact h1
    · cases h; exact h1

-- ------------------------------------------------------------------ C01 worlds, and the end-to-end statement

/-- `remove_projects` after a C01 history (`World` / `Ev` / `runW`: node events and handler steps, no unconfirmed
    transactions delivered): C01's invariant is `ledger_correct`, (H1) is `credNodup_runW`; (H2) stays a hypothesis
    here — a reorganisation moves un-confirmed transactions to the pending side, and that they leave it when they
    confirm again is C09's relation, which is stated for C09's histories (`remove_projects_reachable`) -/
theorem remove_projects_runW (e : MW.Lemmas.Ledger.Env) (G : Block) (w0 : World) (evs : List Ev) (HR : RunHyp e G w0 evs)
    (h0 : Inv (e.ctx w0.chain) w0.s w0.chain) (hv0 : w0.v.best = tipMeta w0.chain) (hq0 : w0.queue = [])
    (hq : (runW e w0 evs).queue = []) (hn0 : KeysNodup w0.s.credits)
    (hp : ∀ x ∈ (runW e w0 evs).s.pendCred, x.1.1 ∉ idsOf (occs (runW e w0 evs).chain))
    (limit : Nat) {w : Wid} {addrs : List Addr} {own' : Own}
    (H : RemHyp (e.ctx (runW e w0 evs).chain) w addrs own' (runW e w0 evs).chain)
    (ws' : List Wid) (hws : ∀ x ∈ ws', x ∈ e.wallets)
    {o : StepOut} (h : removeStep limit (e.ctx (runW e w0 evs).chain) w addrs (runW e w0 evs).s = some o)
    (hf : o.finish = true) :
    Inv { (e.ctx (runW e w0 evs).chain) with own := own', wallets := ws' } o.s (runW e w0 evs).chain :=
  remove_projects limit H (ledger_correct e G w0 evs HR h0 hv0 hq0 hq).1 (credNodup_runW e w0 evs hn0) hp ws' hws h hf

/-- the C01 environment of a C09 world: same parameters, keystore view and wallets; the block files of its node -/
def envOf (E : HEnv) (n : Node) : MW.Lemmas.Ledger.Env := { p := E.p, own := E.own, wallets := E.wallets, known := n.known }

theorem envOf_ctx (E : HEnv) (n : Node) : (envOf E n).ctx n.chain = E.ctx n := by cases n; rfl

/-- END TO END: any C09 history inside the domain (receive / connect / disconnect …) from a world satisfying C09's
    invariant with a well-formed credit bucket, ending with the wallet in sync with its node; then wallet `w` is
    removed (finishing step); then ANY C01 history of node events and handler steps in the environment without
    `w`'s keystore.  Whenever no notification is pending, the wallet holds exactly the books of the node's best chain
    for the remaining keystores.  (`remove_then_history_correct` with its three store hypotheses discharged.) -/
theorem remove_then_history_correct_reachable {rank : TxId → Nat} {E : HEnv} (evs : List HEv) (w0 : HW)
    (H0 : HInvC rank E w0) (hn0 : KeysNodup w0.s.credits) (hD : ∀ x ∈ worldsH E w0 evs, HOKc rank E x.1 x.2)
    {W : HW} (hW : W = runH E w0 evs) (hsync : W.node.chain = W.sp.chain)
    (limit : Nat) {w : Wid} {addrs : List Addr} {own' : Own} (H : RemHyp (E.ctx W.node) w addrs own' W.sp.chain)
    {o : StepOut} (h : removeStep limit (E.ctx W.node) w addrs W.s = some o) (hf : o.finish = true)
    (G : Block) (v : Vol) (hv : v.best = tipMeta W.sp.chain) (evs' : List Ev)
    (HR : RunHyp (MW.Lemmas.RemoveHistory.envMinus (envOf E W.node) own') G
      { chain := W.sp.chain, queue := [], s := o.s, v := v } evs') :
    (runW (MW.Lemmas.RemoveHistory.envMinus (envOf E W.node) own')
        { chain := W.sp.chain, queue := [], s := o.s, v := v } evs').queue = [] →
      Inv ((MW.Lemmas.RemoveHistory.envMinus (envOf E W.node) own').ctx
            (runW (MW.Lemmas.RemoveHistory.envMinus (envOf E W.node) own')
              { chain := W.sp.chain, queue := [], s := o.s, v := v } evs').chain)
          (runW (MW.Lemmas.RemoveHistory.envMinus (envOf E W.node) own')
            { chain := W.sp.chain, queue := [], s := o.s, v := v } evs').s
          (runW (MW.Lemmas.RemoveHistory.envMinus (envOf E W.node) own')
            { chain := W.sp.chain, queue := [], s := o.s, v := v } evs').chain := by
  have hr := reachable_ready evs w0 H0 hn0 hD
  rw [← hW] at hr
  have hc : (envOf E W.node).ctx W.sp.chain = E.ctx W.node := by rw [← hsync]; exact envOf_ctx E W.node
  rw [← hc] at H h hr
  intro hq
  exact (MW.Lemmas.RemoveHistory.remove_then_history_correct limit H hr.1 hr.2.1 hr.2.2 h hf v hv evs' HR hq).1

-- ------------------------------------------------------------------ non-vacuity: the concrete history of PendHistEx

/-- the fresh wallet of PendHistEx satisfies C09's invariant with the credit relation (as in MW.Props.C09;
    repeated here: lemma files do not import property files) -/
theorem exHInvC0 : HInvC exRankH exE exW0 :=
  ⟨exHInv0, ⟨fun _ _ _ h => (by cases h), fun _ h => (by cases h), fun _ _ _ _ h => (by cases h), fun _ h => (by cases h)⟩⟩

theorem mem_worldsH_ev (E : HEnv) : ∀ (evs : List HEv) (w : HW) (x : HW × HEv), x ∈ worldsH E w evs → x.2 ∈ evs := by
  intro evs
  induction evs with
  | nil => intro w x h; cases h
  | cons ev evs ih =>
    intro w x h
    simp only [worldsH, List.mem_cons] at h
    rcases h with rfl | h
    · exact List.mem_cons_self ..
    · exact List.mem_cons_of_mem _ (ih _ x h)

theorem exDomainC : ∀ x ∈ worldsH exE exW0 exEvs, HOKc exRankH exE x.1 x.2 := by
  intro x hx
  have h := exDomain x hx
  have hev := mem_worldsH_ev exE exEvs exW0 x hx
  obtain ⟨xw, xe⟩ := x
  cases xe with
  | node n => exact h
  | vol v => exact h
  | recv t =>
    have h' : RecvDom exRankH exE xw t := h
    exact ⟨h'.valid, h'.known, h'.srcN, h'.idx, h'.rank, h'.nobb, h'.seen, h'.fresh, h'.noconf⟩
  | connect b => exact h
  | disconnect => simp [exEvs] at hev

/-- the worlds of a prefix of a history are worlds of the history -/
theorem worldsH_take (E : HEnv) (n : Nat) : ∀ (evs : List HEv) (w : HW) (x : HW × HEv),
    x ∈ worldsH E w (evs.take n) → x ∈ worldsH E w evs := by
  induction n with
  | zero => intro evs w x h; simp [worldsH] at h
  | succ n ih =>
    intro evs w x h
    cases evs with
    | nil => simp [worldsH] at h
    | cons ev evs =>
      simp only [List.take_succ_cons, worldsH, List.mem_cons] at h ⊢
      rcases h with h | h
      · exact Or.inl h
      · exact Or.inr (ih evs _ x h)

theorem exNodup0 : KeysNodup exW0.s.credits := List.nodup_nil

/-- the world after the whole history: chain G–B1–B2, T1 confirmed, T2 (spends T1:0) pending -/
def exWf : HW := runH exE exW0 exEvs
/-- the world after `connect B1 ; recv T1 ; recv T2`: chain G–B1, T1 and T2 pending, ONE pending-credit record
    (T1:0 pays the wallet) — (H2) is not vacuous here -/
def exWm : HW := runH exE exW0 (exEvs.take 3)

def exOwn' : Own := exE.own.filter (fun e => e.2.1 != "W1")

theorem exManaged : ∀ a, (["A1"] : List Addr).contains a = MW.Lemmas.RemoveProj.isW exE.own "W1" a := by
  intro a
  unfold MW.Lemmas.RemoveProj.isW
  show _ = match AMap.get d2Own a with | some x => decide (x.1 = "W1") | none => false
  simp only [d2Own, AMap.get_cons, AMap.get_nil]
  by_cases h1 : "A1" = a
  · subst h1; decide
  · have : ¬ a = "A1" := fun h => h1 h.symm
    simp [h1, this]

theorem exRemHypF : RemHyp (exE.ctx exWf.node) "W1" ["A1"] exOwn' exWf.sp.chain where
  minus := MW.Lemmas.RemoveProj.ownMinus_filter (by unfold KeysNodup; decide) "W1"
  managed := exManaged
  ne := by decide
  valid := by decide
  heights := by
    have : exWf.sp.chain = [exG, exB1, exB2] := rfl
    rw [this]; exact (hxGood3 rfl rfl rfl rfl rfl).heights
  known := by
    have : exWf.sp.chain = [exG, exB1, exB2] := rfl
    rw [this]
    intro x hx
    simp only [List.mem_cons, List.not_mem_nil, or_false] at hx
    rcases hx with rfl | rfl | rfl <;> rfl

/-- the three facts at the end of the concrete history, by the theorems … -/
example : Inv (exE.ctx exWf.node) exWf.s exWf.sp.chain ∧ KeysNodup exWf.s.credits ∧
    (∀ e ∈ exWf.s.pendCred, e.1.1 ∉ idsOf (occs exWf.sp.chain)) :=
  reachable_ready exEvs exW0 exHInvC0 exNodup0 exDomainC

/-- … and in the middle of it, where the pending-credit bucket is not empty: its record is T1:0, and T1 is not on
    the wallet's chain G–B1 -/
example : (∀ e ∈ exWm.s.pendCred, e.1.1 ∉ idsOf (occs exWm.sp.chain)) ∧
    exWm.s.pendCred.map (·.1) = [("T1", 0)] ∧ idsOf (occs exWm.sp.chain) = ["C1"] :=
  ⟨pendOff_run (exEvs.take 3) exW0 exHInvC0 (fun x hx => exDomainC x (worldsH_take exE 3 exEvs exW0 x hx)),
    by decide, by decide⟩

/-- the credit bucket at the end: the wallet's credit T1:0 -/
example : exWf.s.credits.map (·.1.tx) = ["T1"] := by decide

/-- every hypothesis of `remove_projects_reachable` is met by the concrete history: the removal of W1 after it
    finishes in one step and leaves C01's invariant for the empty keystore view -/
theorem ex_finishes : (removeStep 20000 (exE.ctx exWf.node) "W1" ["A1"] exWf.s).map (·.finish) = some true := by decide

theorem ex_projects_reachable (o : StepOut) (h : removeStep 20000 (exE.ctx exWf.node) "W1" ["A1"] exWf.s = some o) :
    Inv { (exE.ctx exWf.node) with own := exOwn', wallets := [] } o.s exWf.sp.chain := by
  have hf : o.finish = true := by
    have := ex_finishes
    rw [h] at this
    simpa using this
  exact remove_projects_reachable exEvs exW0 exHInvC0 exNodup0 exDomainC 20000 exRemHypF [] (by intro x hx; cases hx) h hf

end MW.Lemmas.RemoveReach
