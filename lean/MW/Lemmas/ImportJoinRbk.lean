/-
  C07 stage 2 with other wallets in the instance — ROLLBACK of a transaction record on a joined store, the block
  being ABOVE the cursor of the wallet `w` that is being restored: the record was written by the live follower for the
  ready wallets only.  `rollbackTx` (which looks owners up in ALL keystores) then meets inputs that spent a coin of
  `w` — the follower ignored them: no debit, nothing to un-spend — and outputs that pay `w` — no credit, nothing to
  remove.  The loops of C01's `rollbackTx_refines` are re-proved with these "skip" alternatives (`InStepJ`, `OutStepJ`);
  the per-step facts of the "hit" alternative are C01's (`rollbackIn_refines`, `rollbackOut_refines`,
  `rollbackCbOut_refines`), applied to the joined book.
-/
import MW.Lemmas.ImportJoinReorg
import MW.Lemmas.LedgerDisc2
namespace MW.Lemmas.ImportJoin
open MW MW.Model.Ledger MW.Model.Import MW.Spec.Chain MW.Spec.Books MW.Lemmas.Ledger

-- ------------------------------------------------------------------ the joined book as a book

/-- the join of a passive book `Bp` and an active book `X` (block and address records: the active book's) -/
def joinBook (Bp X : Book) : Book :=
  { L := Bp.L ++ X.L,
    credits := fun k => orE (Bp.credits k) (X.credits k),
    debits := fun k => orE (Bp.debits k) (X.debits k),
    game := fun k => orE (Bp.game k) (X.game k),
    txrecs := fun k => orE (Bp.txrecs k) (X.txrecs k),
    blocks := X.blocks,
    addrs := X.addrs }

theorem eqJ_joinBook (Bp X : Book) : EqJ (joinBook Bp X) Bp X :=
  ⟨rfl, fun _ => rfl, fun _ => rfl, fun _ => rfl, fun _ => rfl⟩

theorem bookEq_of_eqJ {J Bp X : Book} (h : EqJ J Bp X) : BookEq J (joinBook Bp X) :=
  ⟨h.L, funext h.credits, funext h.debits, funext h.game, funext h.txrecs⟩

theorem joinBook_congr {Bp X X' : Book} (e : BookEq X X') : BookEq (joinBook Bp X) (joinBook Bp X') :=
  ⟨by show Bp.L ++ X.L = Bp.L ++ X'.L; rw [e.L],
   by show (fun k => orE (Bp.credits k) (X.credits k)) = _; rw [e.credits]; rfl,
   by show (fun k => orE (Bp.debits k) (X.debits k)) = _; rw [e.debits]; rfl,
   by show (fun k => orE (Bp.game k) (X.game k)) = _; rw [e.game]; rfl,
   by show (fun k => orE (Bp.txrecs k) (X.txrecs k)) = _; rw [e.txrecs]; rfl⟩

theorem agreeR_of_agreeJ {s : Store} {Bp X : Book} (h : AgreeJ s Bp X) : AgreeR s (joinBook Bp X) :=
  ⟨h.unspent, h.credits, h.debits, h.game, h.txrecs⟩

theorem agreeJ_of_agreeR {s : Store} {Bp X : Book} (h : AgreeR s (joinBook Bp X)) : AgreeJ s Bp X :=
  ⟨h.unspent, h.credits, h.debits, h.game, h.txrecs⟩

-- ------------------------------------------------------------------ the loops of Rollback with "skip" steps

/-- input `k`: either C01's step facts hold for the books, or the input is skipped (the books do not change and there
    is no debit under this input's key) -/
def InStepJ (c : Ctx) (t : Tx) (bm : BlockMeta) (Xs : Nat → Book) (k : Nat) (i : Inp) : Prop :=
  InStep c t bm Xs k i ∨ (BookEq (Xs k) (Xs (k + 1)) ∧ (Xs k).debits ⟨t.id, bm, k⟩ = none)

theorem rollbackIns_refinesJ {c : Ctx} {ready : List Wid} (hAR : AllReady c.own ready)
    {t : Tx} {bm : BlockMeta} (Xs : Nat → Book)
    (hstep : ∀ k i, t.ins[k]? = some i → InStepJ c t bm Xs k i) (is : List Inp) :
    ∀ (k0 : Nat) (s : Store) (bals : Bals), is = t.ins.drop k0 → k0 ≤ t.ins.length →
      AgreeR s (Xs k0) → AgreeBal ready bals (Xs k0) →
      ∃ sb', foldIdxM (rollbackIn c t.id bm) is k0 (s, bals) = .ok sb' ∧ AgreeR sb'.1 (Xs t.ins.length) ∧
        AgreeBal ready sb'.2 (Xs t.ins.length) ∧ SameRest s sb'.1 := by
  induction is with
  | nil =>
    intro k0 s bals his hk0 hR hB
    have := drop_eq_nil_facts his hk0
    subst this
    exact ⟨(s, bals), rfl, hR, hB, SameRest.refl s⟩
  | cons i is ih =>
    intro k0 s bals his _ hR hB
    obtain ⟨hi, his', hk1⟩ := drop_eq_cons_facts his
    rcases hstep k0 i hi with ⟨e, hL, hG, hW, hfd⟩ | ⟨e, hfd⟩
    · obtain ⟨sb1, h1, hR1, hB1, hS1⟩ := rollbackIn_refines hAR hL hG hW hfd (hR.congr e) (hB.congrL e)
      obtain ⟨sb2, h2, hR2, hB2, hS2⟩ := ih (k0 + 1) sb1.1 sb1.2 his' hk1 hR1 hB1
      refine ⟨sb2, ?_, hR2, hB2, hS1.trans hS2⟩
      rw [foldIdxM_cons, h1, M_ok_bind]
      exact h2
    · have hmiss := rollbackIn_miss (c := c) (id := t.id) (blk := bm) (s := s) (bals := bals) (k := k0) (i := i)
        (by rw [hR.debits]; exact hfd)
      have hR1 : AgreeR { s with pendIns := putPendIn s.pendIns (i.tx, i.idx) t.id } (Xs (k0 + 1)) :=
        AgreeR.congr ⟨hR.unspent, hR.credits, hR.debits, hR.game, hR.txrecs⟩ e
      obtain ⟨sb2, h2, hR2, hB2, hS2⟩ := ih (k0 + 1) _ bals his' hk1 hR1 (hB.congrL e)
      refine ⟨sb2, ?_, hR2, hB2, SameRest.trans (b := { s with pendIns := putPendIn s.pendIns (i.tx, i.idx) t.id })
        ⟨rfl, rfl, rfl, rfl, rfl⟩ hS2⟩
      rw [foldIdxM_cons, hmiss, M_ok_bind]
      exact h2

/-- output `j`: either C01's step facts hold, or the output is skipped (the books do not change and there is no
    credit under this output's key) -/
def OutStepJ (c : Ctx) (t : Tx) (bm : BlockMeta) (Ys : Nat → Book) (j : Nat) (o : Out) : Prop :=
  OutStep c t bm Ys j o ∨ (BookEq (Ys (j + 1)) (Ys j) ∧ (Ys j).credits ⟨t.id, bm, j⟩ = none)

theorem rollbackOuts_refinesJ {c : Ctx} {ready : List Wid} (hAR : AllReady c.own ready)
    {t : Tx} {bm : BlockMeta} (Ys : Nat → Book)
    (hstep : ∀ j o, t.outs[j]? = some o → OutStepJ c t bm Ys j o) (os : List Out) :
    ∀ (j0 : Nat) (s : Store) (bals : Bals), os = t.outs.drop j0 → j0 ≤ t.outs.length →
      AgreeR s (Ys j0) → AgreeBal ready bals (Ys j0) →
      ∃ sb', foldIdxM (rollbackOut c t.id bm) os j0 (s, bals) = .ok sb' ∧ AgreeR sb'.1 (Ys t.outs.length) ∧
        AgreeBal ready sb'.2 (Ys t.outs.length) ∧ SameRest s sb'.1 := by
  induction os with
  | nil =>
    intro j0 s bals hos hj0 hR hB
    have := drop_eq_nil_facts hos hj0
    subst this
    exact ⟨(s, bals), rfl, hR, hB, SameRest.refl s⟩
  | cons o os ih =>
    intro j0 s bals hos _ hR hB
    obtain ⟨ho, hos', hj1⟩ := drop_eq_cons_facts hos
    rcases hstep j0 o ho with ⟨e, hL, hown, hnone⟩ | ⟨e, hnone⟩
    · obtain ⟨sb1, h1, hR1, hB1, hS1⟩ := rollbackOut_refines hAR hL hR hB hown hnone
      obtain ⟨sb2, h2, hR2, hB2, hS2⟩ := ih (j0 + 1) sb1.1 sb1.2 hos' hj1 (hR1.congr e.symm) (hB1.congrL e.symm)
      refine ⟨sb2, ?_, hR2, hB2, hS1.trans hS2⟩
      rw [foldIdxM_cons, h1, M_ok_bind]
      exact h2
    · have hmiss := rollbackOut_miss (c := c) (id := t.id) (blk := bm) (sb := (s, bals)) (i := j0) (o := o)
        (by show AMap.get s.credits _ = none; rw [hR.credits]; exact hnone)
      obtain ⟨sb2, h2, hR2, hB2, hS2⟩ := ih (j0 + 1) s bals hos' hj1 (hR.congr e.symm) (hB.congrL e.symm)
      refine ⟨sb2, ?_, hR2, hB2, hS2⟩
      rw [foldIdxM_cons, hmiss, M_ok_bind]
      exact h2

theorem rollbackCbOuts_refinesJ {c : Ctx} {ready : List Wid} (hAR : AllReady c.own ready)
    {t : Tx} {bm : BlockMeta} (Ys : Nat → Book)
    (hstep : ∀ j o, t.outs[j]? = some o → OutStepJ c t bm Ys j o) (os : List Out) :
    ∀ (j0 : Nat) (s : Store) (bals : Bals) (acc : List (TxId × Nat)), os = t.outs.drop j0 → j0 ≤ t.outs.length →
      AgreeR s (Ys j0) → AgreeBal ready bals (Ys j0) →
      ∃ sb' acc', foldIdxM (rollbackCbOut c t.id bm) os j0 ((s, bals), acc) = .ok (sb', acc') ∧
        AgreeR sb'.1 (Ys t.outs.length) ∧ AgreeBal ready sb'.2 (Ys t.outs.length) ∧ SameRest s sb'.1 := by
  induction os with
  | nil =>
    intro j0 s bals acc hos hj0 hR hB
    have := drop_eq_nil_facts hos hj0
    subst this
    exact ⟨(s, bals), acc, rfl, hR, hB, SameRest.refl s⟩
  | cons o os ih =>
    intro j0 s bals acc hos _ hR hB
    obtain ⟨ho, hos', hj1⟩ := drop_eq_cons_facts hos
    rcases hstep j0 o ho with ⟨e, hL, hown, hnone⟩ | ⟨e, hnone⟩
    · obtain ⟨sb1, acc1, h1, hR1, hB1, hS1⟩ := rollbackCbOut_refines (acc := acc) hAR hL hR hB hown hnone
      obtain ⟨sb2, acc2, h2, hR2, hB2, hS2⟩ :=
        ih (j0 + 1) sb1.1 sb1.2 acc1 hos' hj1 (hR1.congr e.symm) (hB1.congrL e.symm)
      refine ⟨sb2, acc2, ?_, hR2, hB2, hS1.trans hS2⟩
      rw [foldIdxM_cons, h1, M_ok_bind]
      exact h2
    · have hmiss := rollbackCbOut_miss (c := c) (id := t.id) (blk := bm) (acc := ((s, bals), acc)) (i := j0) (o := o)
        (by show AMap.get s.credits _ = none; rw [hR.credits]; exact hnone)
      obtain ⟨sb2, acc2, h2, hR2, hB2, hS2⟩ := ih (j0 + 1) s bals acc hos' hj1 (hR.congr e.symm) (hB.congrL e.symm)
      refine ⟨sb2, acc2, ?_, hR2, hB2, hS2⟩
      rw [foldIdxM_cons, hmiss, M_ok_bind]
      exact h2

/-- `rollbackTx_refines` of C01 with skip steps -/
theorem rollbackTx_refinesJ {c : Ctx} {ready : List Wid} (hAR : AllReady c.own ready)
    {s : Store} {bals : Bals} {t : Tx} {bm : BlockMeta} {loc : BlkId × Nat} (Xs Ys : Nat → Book)
    (hloc : c.node.txByFileLoc loc = some t) (hcb : t.cb = false)
    (hT : (Xs 0).txrecs (t.id, bm) = none)
    (hR : AgreeR s { Xs 0 with txrecs := upd (Xs 0).txrecs (t.id, bm) (some loc) })
    (hB : AgreeBal ready bals (Xs 0))
    (hins : ∀ k i, t.ins[k]? = some i → InStepJ c t bm Xs k i)
    (hglue : BookEq (Xs t.ins.length) (Ys 0))
    (houts : ∀ j o, t.outs[j]? = some o → OutStepJ c t bm Ys j o) :
    ∃ s' bals' rem, rollbackTx c s bals bm t.id = .ok (s', bals', rem) ∧ AgreeR s' (Ys t.outs.length) ∧
      AgreeBal ready bals' (Ys t.outs.length) ∧ SameRest s s' := by
  have hrec : AMap.get s.txrecs (t.id, bm) = some loc := by
    rw [hR.txrecs]; simp only [upd_apply, if_true]
  have hR0 := agreeR_erase_txrec hT hR (AMap.put s.pending t.id t)
  obtain ⟨sb1, h1, hR1, hB1, hS1⟩ :=
    rollbackIns_refinesJ hAR Xs hins t.ins 0 _ bals (by simp) (Nat.zero_le _) hR0 hB
  obtain ⟨sb2, h2, hR2, hB2, hS2⟩ :=
    rollbackOuts_refinesJ hAR Ys houts t.outs 0 sb1.1 sb1.2 (by simp) (Nat.zero_le _) (hR1.congr hglue)
      (hB1.congrL hglue)
  refine ⟨sb2.1, sb2.2, [], ?_, hR2, hB2, ?_⟩
  · rw [rollbackTx_eq_tx hrec hloc hcb, h1, M_ok_bind]
    show (foldIdxM (rollbackOut c t.id bm) t.outs 0 (sb1.1, sb1.2) >>= _) = _
    rw [h2, M_ok_bind]
    rfl
  · have h12 := hS1.trans hS2
    exact ⟨h12.sync, h12.syncedTo, h12.status, h12.balance, h12.blocks⟩

theorem rollbackTx_refines_cbJ {c : Ctx} {ready : List Wid} (hAR : AllReady c.own ready)
    {s : Store} {bals : Bals} {t : Tx} {bm : BlockMeta} {loc : BlkId × Nat} (Ys : Nat → Book)
    (hloc : c.node.txByFileLoc loc = some t) (hcb : t.cb = true)
    (hT : (Ys 0).txrecs (t.id, bm) = none)
    (hR : AgreeR s { Ys 0 with txrecs := upd (Ys 0).txrecs (t.id, bm) (some loc) })
    (hB : AgreeBal ready bals (Ys 0))
    (houts : ∀ j o, t.outs[j]? = some o → OutStepJ c t bm Ys j o) :
    ∃ s' bals' rem, rollbackTx c s bals bm t.id = .ok (s', bals', rem) ∧ AgreeR s' (Ys t.outs.length) ∧
      AgreeBal ready bals' (Ys t.outs.length) ∧ SameRest s s' := by
  have hrec : AMap.get s.txrecs (t.id, bm) = some loc := by
    rw [hR.txrecs]; simp only [upd_apply, if_true]
  have hR0 := agreeR_erase_txrec hT hR s.pending
  obtain ⟨sb2, acc2, h2, hR2, hB2, hS2⟩ :=
    rollbackCbOuts_refinesJ hAR Ys houts t.outs 0 _ bals [] (by simp) (Nat.zero_le _) hR0 hB
  refine ⟨sb2.1, sb2.2, acc2, ?_, hR2, hB2, ?_⟩
  · rw [rollbackTx_eq_cb hrec hloc hcb]
    show (foldIdxM (rollbackCbOut c t.id bm) t.outs 0
      (({ s with txrecs := AMap.erase s.txrecs (t.id, bm), pending := s.pending }, bals), []) >>= _) = _
    rw [h2, M_ok_bind]
    rfl
  · exact ⟨hS2.sync, hS2.syncedTo, hS2.status, hS2.balance, hS2.blocks⟩

-- ------------------------------------------------------------------ facts about the intermediate books `Mid`

/-- a coin of an intermediate book is a coin of the books before the transaction or an output of the transaction -/
theorem mid_L_cases {p : Params} {own : Own} {B : Book} {oc : Occ} {k j : Nat} {u : UCoin}
    (h : u ∈ (Mid p own B oc k j).L) : u ∈ B.L ∨ u.tx = oc.t.id := by
  unfold Mid at h
  rw [(depositFold_L ..).1] at h
  rcases createFold_origin p own oc.t oc.bm _ _ _ u h with h1 | ⟨m, o, _, _, h2, _⟩
  · left
    by_cases hcb : oc.t.cb = true
    · simpa [hcb] using h1
    · have hcb' : oc.t.cb = false := by simpa using hcb
      simp only [hcb', Bool.false_eq_true, if_false] at h1
      rw [spendFold_L] at h1
      exact (List.mem_filter.1 h1).1
  · exact Or.inr h2

/-- every coin and every deposit record of the book belongs to a wallet the predicate accepts -/
def Act (keepA : Wid → Bool) (B : Book) : Prop :=
  (∀ u ∈ B.L, keepA u.wallet = true) ∧ (∀ gk, B.game gk = some () → keepA gk.wallet = true)

theorem act_spendB {keepA : Wid → Bool} {p : Params} {t : Tx} {bm : BlockMeta} {B : Book} {k : Nat} {i : Inp}
    (h : Act keepA B) : Act keepA (spendB p t bm B k i) := by
  cases hu : lookupU B.L i.tx i.idx with
  | none => rw [spendB_miss hu]; exact h
  | some u =>
    have hw := h.1 u (lookupU_some hu).1
    unfold spendB
    rw [hu]
    refine ⟨fun u' hu' => h.1 u' (List.mem_filter.1 hu').1, ?_⟩
    intro gk hg
    by_cases hd : isDeposit u.out.cls = true
    · simp only [hd, if_true, upd_apply] at hg
      by_cases h1 : u.gameKey true = gk
      · rw [← h1]; exact hw
      · simp only [h1, if_false] at hg
        by_cases h2 : u.gameKey false = gk
        · simp [h2] at hg
        · simp only [h2, if_false] at hg; exact h.2 gk hg
    · simp only [hd] at hg; exact h.2 gk hg

theorem act_spendFold {keepA : Wid → Bool} {p : Params} {t : Tx} {bm : BlockMeta} (is : List Inp) :
    ∀ (k : Nat) (B : Book), Act keepA B → Act keepA (foldIdx (spendB p t bm) is k B) := by
  induction is with
  | nil => intro k B h; exact h
  | cons i is ih => intro k B h; rw [foldIdx_cons]; exact ih _ _ (act_spendB h)

theorem act_createFold {keepA : Wid → Bool} {p : Params} {own oa : Own} (hO : OwnSub own oa keepA) {t : Tx} {bm : BlockMeta}
    (os : List Out) : ∀ (j : Nat) (B : Book), Act keepA B → Act keepA (foldIdx (createB p oa t bm) os j B) := by
  induction os with
  | nil => intro j B h; exact h
  | cons o os ih =>
    intro j B h
    rw [foldIdx_cons]
    apply ih
    cases ho : ownerOf oa o with
    | none => rw [createB_none ho]; exact h
    | some x =>
      obtain ⟨w', ch⟩ := x
      have hk := ((ownerOf_sub_some hO).1 ho).2
      unfold createB
      rw [ho]
      refine ⟨?_, h.2⟩
      intro u hu
      rcases List.mem_append.1 hu with h1 | h1
      · exact h.1 u h1
      · simp only [List.mem_singleton] at h1
        rw [h1]; exact hk

theorem act_depositFold {keepA : Wid → Bool} {own oa : Own} (hO : OwnSub own oa keepA) {t : Tx} {bm : BlockMeta}
    (os : List Out) : ∀ (j : Nat) (B : Book), Act keepA B → Act keepA (foldIdx (depositB oa t bm) os j B) := by
  induction os with
  | nil => intro j B h; exact h
  | cons o os ih =>
    intro j B h
    rw [foldIdx_cons]
    apply ih
    unfold depositB
    cases ho : ownerOf oa o with
    | none => exact h
    | some x =>
      obtain ⟨w', ch⟩ := x
      have hk := ((ownerOf_sub_some hO).1 ho).2
      by_cases hd : isDeposit o.cls = true
      · simp only [hd, if_true]
        refine ⟨h.1, ?_⟩
        intro gk hg
        simp only [upd_apply] at hg
        by_cases h1 : (⟨w', o.cls.isBinding, false, t.id, bm.height, j⟩ : GameKey) = gk
        · rw [← h1]; exact hk
        · simp only [h1, if_false] at hg; exact h.2 gk hg
      · simp only [hd]; exact h

theorem act_mid {keepA : Wid → Bool} {p : Params} {own oa : Own} (hO : OwnSub own oa keepA) {B : Book} {oc : Occ}
    (h : Act keepA B) (k j : Nat) : Act keepA (Mid p oa B oc k j) := by
  unfold Mid
  apply act_depositFold hO
  apply act_createFold hO
  by_cases hcb : oc.t.cb = true
  · simp only [hcb, if_true]; exact h
  · simp only [hcb]; exact act_spendFold _ _ _ h

theorem act_applyOcc {keepA : Wid → Bool} {p : Params} {own oa : Own} (hO : OwnSub own oa keepA) {B : Book} {oc : Occ}
    (h : Act keepA B) : Act keepA (applyOcc p oa B oc) := by
  rw [mid_start]
  apply act_mid hO
  unfold recStep
  split
  · exact h
  · exact h

theorem act_bookOf {keepA : Wid → Bool} {p : Params} {own oa : Own} (hO : OwnSub own oa keepA) (chain : List Block) :
    Act keepA (bookOf p oa chain) := by
  unfold bookOf
  have : ∀ (ocs : List Occ) (B : Book), Act keepA B → Act keepA (ocs.foldl (applyOcc p oa) B) := by
    intro ocs
    induction ocs with
    | nil => intro B h; exact h
    | cons oc ocs ih => intro B h; exact ih _ (act_applyOcc hO h)
  exact this _ _ ⟨fun u hu => absurd hu List.not_mem_nil, fun gk hg => by cases hg⟩

/-- removing an output the active view owns commutes with the join -/
theorem eqJ_uncreateB {own oa : Own} {t : Tx} {bm : BlockMeta} {J Bp M : Book} {j : Nat} {o : Out}
    (hE : EqJ J Bp M) (ho : ownerOf own o = ownerOf oa o)
    (hL : lookupU Bp.L t.id j = none) (hc : Bp.credits ⟨t.id, bm, j⟩ = none)
    (hg : ∀ gk : GameKey, gk.tx = t.id → Bp.game gk = none) :
    EqJ (uncreateB own t bm J j o) Bp (uncreateB oa t bm M j o) := by
  unfold uncreateB
  rw [ho]
  cases hoo : ownerOf oa o with
  | none => exact hE
  | some x =>
    obtain ⟨w', ch⟩ := x
    constructor
    · show J.L.filter _ = Bp.L ++ M.L.filter _
      rw [hE.L, List.filter_append]
      congr 1
      rw [List.filter_eq_self]
      intro a ha
      have := lookupU_none hL a ha
      cases hat : UCoin.at t.id j a with
      | false => rfl
      | true => exact absurd ((at_iff _ _ _).1 hat) this
    · intro ck
      simp only [upd_apply]
      by_cases hk : (⟨t.id, bm, j⟩ : CredKey) = ck
      · subst hk; simp [hc]
      · simp only [hk, if_false]; exact hE.credits ck
    · exact hE.debits
    · intro gk
      by_cases hd : isDeposit o.cls = true
      · simp only [hd, if_true, upd_apply]
        by_cases hk : (⟨w', o.cls.isBinding, false, t.id, bm.height, j⟩ : GameKey) = gk
        · subst hk
          have := hg ⟨w', o.cls.isBinding, false, t.id, bm.height, j⟩ rfl
          simp [this]
        · simp only [hk, if_false]; exact hE.game gk
      · simp only [hd]; exact hE.game gk
    · exact hE.txrecs

theorem locW_join {keepA : Wid → Bool} {own : Own} {C : List Occ} {J Bp M : Book} (hE : EqJ J Bp M)
    (hS : SepP own keepA C Bp) (hWp : LocW Bp) (hWm : LocW M) (hAct : Act keepA M)
    (hsep : ∀ u ∈ M.L, Bp.game (u.gameKey true) = none) : LocW J := by
  intro u hu
  rw [hE.L] at hu
  rw [hE.game]
  rcases List.mem_append.1 hu with h | h
  · rw [hWp u h]
    simp only [orE_none]
    cases hm : M.game (u.gameKey true) with
    | none => rfl
    | some x =>
      cases x
      have h1 := hAct.2 _ hm
      have h2 := (hS.L u h).2
      have : (u.gameKey true).wallet = u.wallet := rfl
      rw [this, h2] at h1; cases h1
  · rw [hsep u h, hWm u h]; rfl

-- ------------------------------------------------------------------ one transaction record, rolled back on a join

section
variable {c : Ctx} {ready : List Wid} {oa op : Own} {keepA keepP : Wid → Bool}

/-- **rolling back the record of ONE transaction on a joined store**, the passive half `Bp` knowing nothing of the
    transaction (the block is above the cursor of the wallet being restored): the active half goes from the books
    after the transaction back to the books before it; the passive half stays -/
theorem rollbackTx_applyOccJ (hARall : AllReady c.own ready) (hOa : OwnSub c.own oa keepA) (hOp : OwnSub c.own op keepP)
    {C : List Occ} {Bp : Book} (hS : SepP c.own keepA C Bp) (hLp : Loc c.p op Bp) (hGp : LocG Bp) (hWp : LocW Bp)
    {P : List Occ} {A : Book} {oc : Occ} (hPC : ∀ u, CreatedIn oa P u → CreatedIn c.own C u)
    (hPf : ∀ bm j, Bp.credits ⟨oc.t.id, bm, j⟩ = none ∧ lookupU Bp.L oc.t.id j = none)
    (hPt : Bp.txrecs (oc.t.id, oc.bm) = none)
    (hPd : ∀ dk : CredKey, dk.tx = oc.t.id → Bp.debits dk = none)
    (hPg : ∀ gk : GameKey, gk.tx = oc.t.id → Bp.game gk = none)
    (hLa : Loc c.p oa A) (hGa : LocG A) (hWa : LocW A) (hAct : Act keepA A) (hGl : Glob oa P A) (h2 : Glob2 P A)
    (hV : OccValid oa P oc) (ht : Spec.Books.touches oa A oc.t = true)
    (hloc : c.node.txByFileLoc (oc.bm.hash, oc.ti) = some oc.t)
    {s : Store} {bals : Bals}
    (hR : AgreeR s (joinBook Bp (applyOcc c.p oa A oc))) (hB : AgreeBal ready bals (joinBook Bp (applyOcc c.p oa A oc))) :
    ∃ s' bals' rem, rollbackTx c s bals oc.bm oc.t.id = .ok (s', bals', rem) ∧ AgreeR s' (joinBook Bp A) ∧
      AgreeBal ready bals' (joinBook Bp A) ∧ SameRest s s' := by
  -- separation for the coins of every intermediate book
  have hsepM : ∀ k j, ∀ u ∈ (Mid c.p oa A oc k j).L,
      lookupU Bp.L u.tx u.idx = none ∧ Bp.credits u.credKey = none ∧ ∀ b, Bp.game (u.gameKey b) = none := by
    intro k j u hu
    rcases mid_L_cases hu with h | h
    · have hac : ACoin c.own keepA C u := ⟨hPC u ((hGl.mem u).1 h).1, hAct.1 u h⟩
      exact ⟨sepP_L hS hac, sepP_cred hS hac, fun b => sepP_game hS _ hac.2⟩
    · refine ⟨by rw [h]; exact (hPf oc.bm u.idx).2, ?_, fun b => hPg _ h⟩
      have := (hPf u.blk u.idx).1
      unfold UCoin.credKey
      rw [h]; exact this
  have hMid := fun k j => mid_loc_all (p := c.p) hLa hGa hWa hGl h2 hV k j
  have JL : ∀ k j, Loc c.p c.own (joinBook Bp (Mid c.p oa A oc k j)) := fun k j =>
    loc_join hOp hOa (eqJ_joinBook _ _) hLp (hMid k j).1 (fun u hu => ⟨(hsepM k j u hu).1, (hsepM k j u hu).2.1⟩)
  have JG : ∀ k j, LocG (joinBook Bp (Mid c.p oa A oc k j)) := fun k j =>
    locG_join (eqJ_joinBook _ _) hGp (hMid k j).2.1 (fun u hu => (hsepM k j u hu).2.2 false)
  have JW : ∀ k j, LocW (joinBook Bp (Mid c.p oa A oc k j)) := fun k j =>
    locW_join (eqJ_joinBook _ _) hS hWp (hMid k j).2.2 (act_mid hOa hAct k j) (fun u hu => (hsepM k j u hu).2.2 true)
  -- the start: the books after the transaction = the first intermediate book + the tx record
  have e0 := applyOcc_bookEq_mid (p := c.p) (own := oa) (B := A) (oc := oc) ht
  have hfresh := glob_fresh hGl hV
  have hT : (joinBook Bp (Mid c.p oa A oc 0 0)).txrecs (oc.t.id, oc.bm) = none := by
    show orE (Bp.txrecs _) ((Mid c.p oa A oc 0 0).txrecs _) = none
    rw [hPt, mid_txrecs]; exact (hfresh oc.bm 0).2.2
  have hR0 : AgreeR s { joinBook Bp (Mid c.p oa A oc 0 0) with
      txrecs := upd (joinBook Bp (Mid c.p oa A oc 0 0)).txrecs (oc.t.id, oc.bm) (some (oc.bm.hash, oc.ti)) } := by
    refine ⟨?_, ?_, ?_, ?_, ?_⟩
    · intro a x y; rw [hR.unspent]; show _ = ((lookupU (Bp.L ++ _) x y).filter _).map _; rw [← e0.L]; rfl
    · intro k; rw [hR.credits]; show orE _ _ = orE _ _; rw [e0.credits]
    · intro k; rw [hR.debits]; show orE _ _ = orE _ _; rw [e0.debits]
    · intro k; rw [hR.game]; show orE _ _ = orE _ _; rw [e0.game]
    · intro k
      rw [hR.txrecs]
      show orE (Bp.txrecs k) ((applyOcc c.p oa A oc).txrecs k) = upd (fun k => orE (Bp.txrecs k) _) _ _ k
      rw [e0.txrecs]
      simp only [upd_apply]
      by_cases hk : (oc.t.id, oc.bm) = k
      · subst hk; simp [hPt]
      · simp [hk]
  have hB0 : AgreeBal ready bals (joinBook Bp (Mid c.p oa A oc 0 0)) := by
    intro w' hw'
    rw [hB w' hw']
    show some (totalU (Bp.L ++ _) w') = some (totalU (Bp.L ++ _) w')
    rw [e0.L]
  -- the output steps
  have houts : ∀ k, (oc.t.cb = true ∨ oc.t.ins.length ≤ k) → ∀ j o, oc.t.outs[j]? = some o →
      OutStepJ c oc.t oc.bm (fun j => joinBook Bp (Mid c.p oa A oc k j)) j o := by
    intro k hk j o ho
    obtain ⟨e, _, hown, hnone, _⟩ := mid_out_step (p := c.p) (k := k) hLa hGa hWa hGl h2 hV hk ho
    cases hoo : ownerOf oa o with
    | none =>
      right
      have hun : uncreateB oa oc.t oc.bm (Mid c.p oa A oc k j) j o = Mid c.p oa A oc k j := by
        unfold uncreateB; rw [hoo]
      rw [hun] at e
      refine ⟨joinBook_congr e, ?_⟩
      show orE (Bp.credits _) ((Mid c.p oa A oc k j).credits _) = none
      rw [(hPf oc.bm j).1, hnone hoo]; rfl
    | some x =>
      obtain ⟨w', ch⟩ := x
      left
      have hof : ownerOf c.own o = some (w', ch) := ((ownerOf_sub_some hOa).1 hoo).1
      refine ⟨?_, JL k j, ?_, ?_⟩
      · have hE := eqJ_uncreateB (own := c.own) (oa := oa) (t := oc.t) (bm := oc.bm) (j := j) (o := o)
          (eqJ_joinBook Bp (Mid c.p oa A oc k j)) (by rw [hof, hoo]) (hPf oc.bm j).2 (hPf oc.bm j).1 hPg
        exact (joinBook_congr e).trans (bookEq_of_eqJ hE).symm
      · intro w'' ch'' h
        rw [hof] at h
        have hwc : (w', ch) = (w'', ch'') := Option.some.inj h
        injection hwc with h1 h2
        subst h1 h2
        obtain ⟨g1, g2⟩ := hown w' ch hoo
        constructor
        · show lookupU (Bp.L ++ _) oc.t.id j = _
          rw [lookupU_append, (hPf oc.bm j).2, g1]; rfl
        · intro hd
          show orE (Bp.game _) _ = some ()
          rw [hPg _ rfl, g2 hd]; rfl
      · intro h; rw [hof] at h; cases h
  by_cases hcb : oc.t.cb = true
  · obtain ⟨s', bals', rem, hrun, hR', hB', hSR⟩ :=
      rollbackTx_refines_cbJ hARall (fun j => joinBook Bp (Mid c.p oa A oc 0 j)) hloc hcb hT hR0 hB0
        (houts 0 (Or.inl hcb))
    refine ⟨s', bals', rem, hrun, ?_, ?_, hSR⟩
    · have := mid_end c.p oa A oc 0 (Or.inl hcb)
      simp only [this] at hR'; exact hR'
    · have := mid_end c.p oa A oc 0 (Or.inl hcb)
      simp only [this] at hB'; exact hB'
  · have hcb' : oc.t.cb = false := by simpa using hcb
    have hins : ∀ k i, oc.t.ins[k]? = some i →
        InStepJ c oc.t oc.bm (fun k => joinBook Bp (Mid c.p oa A oc k 0)) k i := by
      intro k i hi
      obtain ⟨e, _, _, _, hfd, _⟩ := mid_in_step (p := c.p) hLa hGa hWa hGl h2 hV hcb' hi
      cases hu : lookupU (Mid c.p oa A oc (k + 1) 0).L i.tx i.idx with
      | none =>
        right
        rw [spendB_miss hu] at e
        refine ⟨joinBook_congr e, ?_⟩
        show orE (Bp.debits _) ((Mid c.p oa A oc k 0).debits _) = none
        rw [hPd _ rfl, e.debits, hfd]; rfl
      | some u =>
        left
        obtain ⟨hm, htx, hidx⟩ := lookupU_some hu
        obtain ⟨g1, g2, g3⟩ := hsepM (k + 1) 0 u hm
        have hE := eqJ_spendB_hit (p := c.p) (t := oc.t) (bm := oc.bm) (k := k) (eqJ_joinBook Bp (Mid c.p oa A oc (k + 1) 0))
          (by rw [← htx, ← hidx]; exact g1) hu g2 (hPd _ rfl) g3
        refine ⟨(joinBook_congr e).trans (bookEq_of_eqJ hE).symm, JL (k + 1) 0, JG (k + 1) 0, JW (k + 1) 0, ?_⟩
        show orE (Bp.debits _) ((Mid c.p oa A oc (k + 1) 0).debits _) = none
        rw [hPd _ rfl, hfd]; rfl
    obtain ⟨s', bals', rem, hrun, hR', hB', hSR⟩ :=
      rollbackTx_refinesJ hARall (fun k => joinBook Bp (Mid c.p oa A oc k 0))
        (fun j => joinBook Bp (Mid c.p oa A oc oc.t.ins.length j)) hloc hcb' hT hR0 hB0 hins (BookEq.refl _)
        (houts oc.t.ins.length (Or.inr (Nat.le_refl _)))
    refine ⟨s', bals', rem, hrun, ?_, ?_, hSR⟩
    · have := mid_end c.p oa A oc oc.t.ins.length (Or.inr (Nat.le_refl _))
      simp only [this] at hR'; exact hR'
    · have := mid_end c.p oa A oc oc.t.ins.length (Or.inr (Nat.le_refl _))
      simp only [this] at hB'; exact hB'

end

end MW.Lemmas.ImportJoin
