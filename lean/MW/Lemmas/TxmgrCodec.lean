/-
  Generic lemmas about the table-driven codecs of MW.Model.TxmgrCodec:
    * big-endian round trip,
    * for a record whose spans tile the buffer (`Contig`, decidable — checked by `decide` on every regenerated table)
      `encode` is the concatenation of the field images (`encode_eq_flat`),
    * reading any span of it gives the field back (`readVal_encode`), hence `decodeBy R (encode W vals)` is determined
      by the tables (`decodeBy_encode`, under the decidable agreement `Agree W R` of reader and writer tables),
    * `encode` is injective on well-formed tuples (`encode_inj`),
    * a prefix made of the first k fields matches exactly the keys whose first k components equal it
      (`prefix_exact`).
-/
import MW.Model.TxmgrCodec
namespace MW.TxmgrCodec
open MW MW.Gen.Codec MW.Model.TxmgrCodec

-- ------------------------------------------------------------------ big-endian

theorem be_length (w n : Nat) : (be w n).length = w := by
  induction w generalizing n with
  | zero => rfl
  | succ w ih => simp [be, ih]

theorem beNat_append_single (xs : Bytes) (b : UInt8) : beNat (xs ++ [b]) = beNat xs * 256 + b.toNat := by
  simp [beNat, List.foldl_append]

theorem beNat_be (w n : Nat) : beNat (be w n) = n % 256 ^ w := by
  induction w generalizing n with
  | zero => simp [be, beNat, Nat.mod_one]
  | succ w ih =>
    rw [be, beNat_append_single, ih]
    have h : (UInt8.ofNat (n % 256)).toNat = n % 256 := by
      simp [UInt8.toNat_ofNat']
    rw [h, Nat.pow_succ, Nat.mul_comm (256 ^ w) 256, Nat.mod_mul]
    omega

theorem beNat_be_of_lt (w n : Nat) (h : n < 256 ^ w) : beNat (be w n) = n := by
  rw [beNat_be, Nat.mod_eq_of_lt h]

/-- the overflow case: a value that does not fit its width does NOT survive the round trip -/
theorem beNat_be_of_ge (w n : Nat) (h : 256 ^ w ≤ n) : beNat (be w n) ≠ n := by
  rw [beNat_be]
  have : n % 256 ^ w < 256 ^ w := Nat.mod_lt _ (Nat.pow_pos (by decide))
  omega

-- ------------------------------------------------------------------ well-formedness (decidable)

def Kind.isBytes : Kind → Bool
  | .bytes => true
  | _ => false

/-- the spans tile the buffer from offset `o` on: each starts where its predecessor ends; only the last may be an
    open tail -/
def Contig : Nat → List Span → Bool
  | _, [] => true
  | o, s :: r => s.off == o && (s.len != 0 || r.isEmpty) && Contig (o + s.len) r

def totalLen (spans : List Span) : Nat := (spans.map (·.len)).sum

/-- a record table the generic theorems apply to: tiling spans; a fixed allocation is exactly the sum of the widths
    (no open tail then) -/
def WFRec (L : Rec) : Bool :=
  Contig 0 L.spans && (L.size == 0 || (L.size == totalLen L.spans && L.spans.all (fun s => s.len != 0)))

/-- field value within its span: bytes of exactly the span's width (any length in an open tail), integers below
    256^width -/
def FitsV (s : Span) : Val → Bool
  | .b bs => Kind.isBytes s.kind && (s.len == 0 || bs.length == s.len)
  | .n x => !Kind.isBytes s.kind && s.len != 0 && decide (x < 256 ^ s.len)

def Fits : List Span → List Val → Bool
  | [], [] => true
  | s :: ss, v :: vs => FitsV s v && Fits ss vs
  | _, _ => false

def flat (spans : List Span) (vals : List Val) : Bytes :=
  ((spans.zip vals).map (fun sv => spanBytes sv.1 sv.2)).flatten

theorem flat_cons (s : Span) (ss : List Span) (v : Val) (vs : List Val) :
    flat (s :: ss) (v :: vs) = spanBytes s v ++ flat ss vs := by
  simp [flat]

theorem spanBytes_length {s : Span} {v : Val} (h : FitsV s v = true) (hl : s.len ≠ 0) :
    (spanBytes s v).length = s.len := by
  cases v with
  | b bs =>
    simp only [FitsV, Bool.and_eq_true, Bool.or_eq_true, beq_iff_eq] at h
    simp only [spanBytes, hl, if_false, List.length_take]
    rcases h.2 with h | h
    · exact absurd h hl
    · omega
  | n x => simp [spanBytes, be_length]

theorem Fits_length {spans : List Span} {vals : List Val} (h : Fits spans vals = true) : spans.length = vals.length := by
  induction spans generalizing vals with
  | nil => cases vals <;> simp_all [Fits]
  | cons s ss ih =>
    cases vals with
    | nil => simp [Fits] at h
    | cons v vs =>
      simp only [Fits, Bool.and_eq_true] at h
      simp [ih h.2]

-- ------------------------------------------------------------------ encode = concatenation

theorem zeros_length (n : Nat) : (zeros n).length = n := by simp [zeros]

theorem zeros_drop (n k : Nat) : (zeros n).drop k = zeros (n - k) := by simp [zeros]

theorem writeAt_prefix (pre src : Bytes) (n : Nat) (h : src.length ≤ n) :
    writeAt (pre ++ zeros n) pre.length src = (pre ++ src) ++ zeros (n - src.length) := by
  unfold writeAt
  have h1 : (pre ++ zeros n).take pre.length = pre := by simp
  have h2 : (pre ++ zeros n).length - pre.length = n := by simp [zeros_length]
  have h3 : (pre ++ zeros n).drop (pre.length + src.length) = zeros (n - src.length) := by
    rw [List.drop_append]
    simp [zeros_drop, List.drop_eq_nil_of_le]
  rw [h1, h2, h3, List.take_of_length_le h]

theorem foldl_write (spans : List Span) : ∀ (vals : List Val) (pre : Bytes) (n : Nat),
    Contig pre.length spans = true → Fits spans vals = true → (flat spans vals).length ≤ n →
    (spans.zip vals).foldl (fun buf sv => writeAt buf sv.1.off (spanBytes sv.1 sv.2)) (pre ++ zeros n)
      = pre ++ flat spans vals ++ zeros (n - (flat spans vals).length) := by
  induction spans with
  | nil => intro vals pre n _ hf _; cases vals <;> simp_all [Fits, flat]
  | cons s ss ih =>
    intro vals pre n hc hf hn
    cases vals with
    | nil => simp [Fits] at hf
    | cons v vs =>
      simp only [Fits, Bool.and_eq_true] at hf
      simp only [Contig, Bool.and_eq_true, beq_iff_eq, Bool.or_eq_true, bne_iff_ne] at hc
      obtain ⟨⟨hoff, hlen⟩, hrest⟩ := hc
      rw [flat_cons] at hn ⊢
      simp only [List.zip_cons_cons, List.foldl_cons]
      have hsb : (spanBytes s v).length ≤ n := by simp at hn; omega
      rw [hoff, writeAt_prefix pre _ n hsb]
      by_cases hl : s.len = 0
      · -- open tail: nothing follows
        have hss : ss = [] := by
          rcases hlen with h | h
          · exact absurd hl h
          · simpa using h
        subst hss
        cases vs with
        | nil => simp [flat]
        | cons _ _ => simp [Fits] at hf
      · have hlen' := spanBytes_length hf.1 hl
        have hc' : Contig (pre ++ spanBytes s v).length ss = true := by
          rw [List.length_append, hlen']; exact hrest
        have hn' : (flat ss vs).length ≤ n - (spanBytes s v).length := by simp at hn; omega
        rw [ih vs (pre ++ spanBytes s v) (n - (spanBytes s v).length) hc' hf.2 hn']
        simp only [List.append_assoc, List.length_append, Nat.sub_sub]

theorem encodeN_eq_flat (n : Nat) (L : Rec) (vals : List Val) (hc : Contig 0 L.spans = true)
    (hf : Fits L.spans vals = true) (hn : (flat L.spans vals).length ≤ n) :
    encodeN n L vals = flat L.spans vals ++ zeros (n - (flat L.spans vals).length) := by
  have := foldl_write L.spans vals [] n (by simpa using hc) hf hn
  simpa [encodeN] using this

theorem flat_length_fixed (spans : List Span) : ∀ (vals : List Val), Fits spans vals = true →
    spans.all (fun s => s.len != 0) = true → (flat spans vals).length = totalLen spans := by
  induction spans with
  | nil => intro vals hf _; cases vals <;> simp_all [Fits, flat, totalLen]
  | cons s ss ih =>
    intro vals hf ha
    cases vals with
    | nil => simp [Fits] at hf
    | cons v vs =>
      simp only [Fits, Bool.and_eq_true] at hf
      simp only [List.all_cons, Bool.and_eq_true, bne_iff_ne] at ha
      rw [flat_cons, List.length_append, spanBytes_length hf.1 ha.1, ih vs hf.2 ha.2]
      simp [totalLen]

theorem flat_length_alloc (L : Rec) (vals : List Val) :
    (flat L.spans vals).length = ((L.spans.zip vals).map (fun sv => (spanBytes sv.1 sv.2).length)).sum := by
  simp [flat, List.length_flatten, List.map_map, Function.comp_def]

/-- **encode = concatenation of the field images** for every well-formed table and every fitting tuple -/
theorem encode_eq_flat (L : Rec) (vals : List Val) (hw : WFRec L = true) (hf : Fits L.spans vals = true) :
    encode L vals = flat L.spans vals := by
  simp only [WFRec, Bool.and_eq_true, Bool.or_eq_true, beq_iff_eq] at hw
  obtain ⟨hc, hs⟩ := hw
  unfold encode
  have hlen : (flat L.spans vals).length = allocSize L vals := by
    unfold allocSize
    rcases hs with h0 | ⟨hsz, hall⟩
    · simp [h0, flat_length_alloc]
    · by_cases h0 : L.size = 0
      · simp [h0, flat_length_alloc]
      · simp only [ne_eq, h0, not_false_eq_true, if_true]
        rw [flat_length_fixed L.spans vals hf hall, hsz]
  rw [encodeN_eq_flat _ L vals hc hf (by omega), hlen]
  simp [zeros]

theorem encode_length_fixed (L : Rec) (vals : List Val) (hw : WFRec L = true) (hf : Fits L.spans vals = true)
    (h0 : L.size ≠ 0) : (encode L vals).length = L.size := by
  rw [encode_eq_flat L vals hw hf]
  simp only [WFRec, Bool.and_eq_true, Bool.or_eq_true, beq_iff_eq] at hw
  rcases hw.2 with h | ⟨hsz, hall⟩
  · exact absurd h h0
  · rw [flat_length_fixed L.spans vals hf hall, hsz]

theorem flat_length_ge (spans : List Span) : ∀ (vals : List Val), Fits spans vals = true →
    totalLen spans ≤ (flat spans vals).length := by
  induction spans with
  | nil => intro vals hf; cases vals <;> simp_all [Fits, flat, totalLen]
  | cons s ss ih =>
    intro vals hf
    cases vals with
    | nil => simp [Fits] at hf
    | cons v vs =>
      simp only [Fits, Bool.and_eq_true] at hf
      rw [flat_cons, List.length_append]
      have := ih vs hf.2
      by_cases hl : s.len = 0
      · simp [totalLen, hl] at this ⊢; omega
      · rw [spanBytes_length hf.1 hl]; simp [totalLen] at this ⊢; omega

-- ------------------------------------------------------------------ reading a span back

theorem readAt_flat (spans : List Span) : ∀ (vals : List Val) (pre : Bytes) (s : Span) (v : Val),
    Contig pre.length spans = true → Fits spans vals = true → (s, v) ∈ spans.zip vals →
    readAt s.off s.len (pre ++ flat spans vals) = spanBytes s v := by
  induction spans with
  | nil => intro vals pre s v _ _ hm; simp at hm
  | cons s0 ss ih =>
    intro vals pre s v hc hf hm
    cases vals with
    | nil => simp at hm
    | cons v0 vs =>
      simp only [Fits, Bool.and_eq_true] at hf
      simp only [Contig, Bool.and_eq_true, beq_iff_eq, Bool.or_eq_true, bne_iff_ne] at hc
      obtain ⟨⟨hoff, hlen⟩, hrest⟩ := hc
      simp only [List.zip_cons_cons, List.mem_cons, Prod.mk.injEq] at hm
      rw [flat_cons]
      rcases hm with ⟨rfl, rfl⟩ | hm
      · unfold readAt
        rw [hoff]
        by_cases hl : s.len = 0
        · have hss : ss = [] := by
            rcases hlen with h | h
            · exact absurd hl h
            · simpa using h
          subst hss
          cases vs <;> simp [hl, flat]
        · have := spanBytes_length hf.1 hl
          simp only [hl, if_false]
          rw [List.drop_append_of_le_length (by simp), List.drop_length, List.nil_append,
            List.take_append_of_le_length (by omega), List.take_of_length_le (by omega)]
      · have hne : ss ≠ [] := by intro h; subst h; simp at hm
        have hl : s0.len ≠ 0 := by
          rcases hlen with h | h
          · exact h
          · simp at h; exact absurd h hne
        have hlen' := spanBytes_length hf.1 hl
        have hc' : Contig (pre ++ spanBytes s0 v0).length ss = true := by
          rw [List.length_append, hlen']; exact hrest
        have := ih vs (pre ++ spanBytes s0 v0) s v hc' hf.2 hm
        rwa [List.append_assoc] at this

theorem Fits_mem {spans : List Span} {vals : List Val} (hf : Fits spans vals = true) {s : Span} {v : Val}
    (hm : (s, v) ∈ spans.zip vals) : FitsV s v = true := by
  induction spans generalizing vals with
  | nil => simp at hm
  | cons s0 ss ih =>
    cases vals with
    | nil => simp at hm
    | cons v0 vs =>
      simp only [Fits, Bool.and_eq_true] at hf
      simp only [List.zip_cons_cons, List.mem_cons, Prod.mk.injEq] at hm
      rcases hm with ⟨rfl, rfl⟩ | hm
      · exact hf.1
      · exact ih hf.2 hm

/-- the value a span holds, read back as the kind it was written as -/
theorem readVal_of_spanBytes {s r : Span} {v : Val} (hf : FitsV s v = true) (hoff : r.off = s.off) (hlen : r.len = s.len)
    (hk : Kind.isBytes r.kind = Kind.isBytes s.kind) (bs : Bytes) (h : readAt s.off s.len bs = spanBytes s v) :
    readVal r bs = v := by
  cases v with
  | b x =>
    simp only [FitsV, Bool.and_eq_true, Bool.or_eq_true, beq_iff_eq] at hf
    have hb : Kind.isBytes r.kind = true := hk.trans hf.1
    have hr : r.kind = .bytes := by cases hrk : r.kind <;> simp_all [Kind.isBytes]
    simp only [readVal, hr, hoff, hlen, h, spanBytes]
    rcases hf.2 with h0 | hx
    · simp [h0]
    · by_cases h0 : s.len = 0
      · simp [h0]
      · simp only [h0, if_false, Val.b.injEq]; exact List.take_of_length_le (by omega)
  | n x =>
    simp only [FitsV, Bool.and_eq_true, Bool.not_eq_true', bne_iff_ne, decide_eq_true_eq] at hf
    have hb : Kind.isBytes r.kind = false := hk.trans hf.1.1
    have : readVal r bs = .n (beNat (readAt r.off r.len bs)) := by
      cases hrk : r.kind <;> simp_all [Kind.isBytes, readVal]
    rw [this, hoff, hlen, h]
    simp [spanBytes, beNat_be_of_lt _ _ hf.2]

/-- **read-after-write** for one span -/
theorem readVal_encode (W : Rec) (vals : List Val) (hw : WFRec W = true) (hf : Fits W.spans vals = true)
    (s r : Span) (v : Val) (hm : (s, v) ∈ W.spans.zip vals) (hoff : r.off = s.off) (hlen : r.len = s.len)
    (hk : Kind.isBytes r.kind = Kind.isBytes s.kind) : readVal r (encode W vals) = v := by
  rw [encode_eq_flat W vals hw hf]
  have hc : Contig 0 W.spans = true := by simp only [WFRec, Bool.and_eq_true] at hw; exact hw.1
  have := readAt_flat W.spans vals [] s v (by simpa using hc) hf hm
  exact readVal_of_spanBytes (Fits_mem hf hm) hoff hlen hk _ (by simpa using this)

-- ------------------------------------------------------------------ reader table against writer table

def matchSpan (r : Span) (w : Span) : Bool :=
  w.off == r.off && w.len == r.len && (Kind.isBytes w.kind == Kind.isBytes r.kind)

/-- the value the writer put where the reader's span `r` looks -/
def pick (W : List Span) (vals : List Val) (r : Span) : Option Val :=
  ((W.zip vals).find? (fun wv => matchSpan r wv.1)).map (·.2)

/-- reader and writer tables agree: every span the reader looks at is a span the writer fills (same offset, width
    and kind), and the reader's length guard accepts what the writer allocates -/
def Agree (W R : Rec) : Bool :=
  R.spans.all (fun r => W.spans.any (matchSpan r)) &&
  (if R.exact then W.size != 0 && W.size == R.size else decide (R.size ≤ totalLen W.spans))

theorem pick_isSome (W : List Span) (vals : List Val) (r : Span) (hl : W.length = vals.length)
    (h : W.any (matchSpan r) = true) : ∃ s v, (s, v) ∈ W.zip vals ∧ matchSpan r s = true ∧ pick W vals r = some v := by
  induction W generalizing vals with
  | nil => simp at h
  | cons w ws ih =>
    cases vals with
    | nil => simp at hl
    | cons v vs =>
      by_cases hm : matchSpan r w = true
      · exact ⟨w, v, by simp, hm, by simp [pick, hm]⟩
      · simp only [List.any_cons, Bool.or_eq_true] at h
        rcases h with h | h
        · exact absurd h hm
        · obtain ⟨s, v', hmem, hms, hp⟩ := ih vs (by simpa using hl) h
          refine ⟨s, v', by simp [hmem], hms, ?_⟩
          have hm' : matchSpan r w = false := by simpa using hm
          simpa [pick, List.find?, hm'] using hp

theorem guardOk_encode (W R : Rec) (vals : List Val) (hw : WFRec W = true) (hf : Fits W.spans vals = true)
    (hg : (if R.exact then W.size != 0 && W.size == R.size else decide (R.size ≤ totalLen W.spans)) = true) :
    guardOk R (encode W vals) = true := by
  unfold guardOk
  by_cases he : R.exact = true
  · simp only [he, if_true, Bool.and_eq_true, bne_iff_ne, beq_iff_eq] at hg ⊢
    rw [encode_length_fixed W vals hw hf hg.1, hg.2]
  · simp only [he, Bool.false_eq_true, if_false, decide_eq_true_eq] at hg ⊢
    rw [encode_eq_flat W vals hw hf]
    exact Nat.le_trans hg (flat_length_ge _ _ hf)

/-- **decode ∘ encode is determined by the tables**: what reader table `R` reads from the image of a well-formed
    tuple under writer table `W` is, span by span, the value the writer put there -/
theorem decodeBy_encode (W R : Rec) (vals : List Val) (hw : WFRec W = true) (hf : Fits W.spans vals = true)
    (ha : Agree W R = true) :
    decodeBy R (encode W vals) = some (R.spans.map (fun r => (pick W.spans vals r).getD (.n 0))) := by
  simp only [Agree, Bool.and_eq_true] at ha
  unfold decodeBy
  rw [guardOk_encode W R vals hw hf ha.2]
  simp only [if_true, Option.some.injEq]
  apply List.map_congr_left
  intro r hr
  have hany := List.all_eq_true.mp ha.1 r hr
  obtain ⟨s, v, hmem, hms, hp⟩ := pick_isSome W.spans vals r (Fits_length hf) hany
  simp only [matchSpan, Bool.and_eq_true, beq_iff_eq] at hms
  rw [hp]
  exact readVal_encode W vals hw hf s r v hmem hms.1.1.symm hms.1.2.symm hms.2.symm

-- ------------------------------------------------------------------ injectivity

theorem spanBytes_inj {s : Span} {v v' : Val} (h : FitsV s v = true) (h' : FitsV s v' = true)
    (he : spanBytes s v = spanBytes s v') : v = v' := by
  cases v with
  | b x =>
    cases v' with
    | b y =>
      simp only [FitsV, Bool.and_eq_true, Bool.or_eq_true, beq_iff_eq] at h h'
      simp only [spanBytes] at he
      by_cases h0 : s.len = 0
      · simpa [h0] using he
      · simp only [h0, if_false] at he
        have hx : x.length = s.len := by rcases h.2 with h | h; exact absurd h h0; exact h
        have hy : y.length = s.len := by rcases h'.2 with h | h; exact absurd h h0; exact h
        rw [List.take_of_length_le (by omega), List.take_of_length_le (by omega)] at he
        rw [he]
    | n y => simp_all [FitsV]
  | n x =>
    cases v' with
    | b y => simp_all [FitsV]
    | n y =>
      simp only [FitsV, Bool.and_eq_true, decide_eq_true_eq] at h h'
      simp only [spanBytes] at he
      have := congrArg beNat he
      rw [beNat_be_of_lt _ _ h.2, beNat_be_of_lt _ _ h'.2] at this
      rw [this]

theorem flat_inj (spans : List Span) : ∀ (vals vals' : List Val) (o : Nat), Contig o spans = true →
    Fits spans vals = true → Fits spans vals' = true → flat spans vals = flat spans vals' → vals = vals' := by
  induction spans with
  | nil => intro vals vals' _ _ hf hf' _; cases vals <;> cases vals' <;> simp_all [Fits]
  | cons s ss ih =>
    intro vals vals' o hc hf hf' he
    cases vals with
    | nil => simp [Fits] at hf
    | cons v vs =>
      cases vals' with
      | nil => simp [Fits] at hf'
      | cons v' vs' =>
        simp only [Fits, Bool.and_eq_true] at hf hf'
        simp only [Contig, Bool.and_eq_true, beq_iff_eq, Bool.or_eq_true, bne_iff_ne] at hc
        obtain ⟨⟨_, hlen⟩, hrest⟩ := hc
        rw [flat_cons, flat_cons] at he
        by_cases hl : s.len = 0
        · have hss : ss = [] := by
            rcases hlen with h | h
            · exact absurd hl h
            · simpa using h
          subst hss
          cases vs with
          | cons _ _ => simp [Fits] at hf
          | nil =>
            cases vs' with
            | cons _ _ => simp [Fits] at hf'
            | nil =>
              simp only [flat, List.zip_nil_left, List.map_nil, List.flatten_nil, List.append_nil] at he
              rw [spanBytes_inj hf.1 hf'.1 he]
        · have h1 := spanBytes_length hf.1 hl
          have h2 := spanBytes_length hf'.1 hl
          obtain ⟨ha, hb⟩ := List.append_inj he (by omega)
          rw [spanBytes_inj hf.1 hf'.1 ha, ih vs vs' _ hrest hf.2 hf'.2 hb]

/-- **encode is injective** on well-formed tuples: distinct tuples ↦ distinct byte strings -/
theorem encode_inj (L : Rec) (vals vals' : List Val) (hw : WFRec L = true) (hf : Fits L.spans vals = true)
    (hf' : Fits L.spans vals' = true) (he : encode L vals = encode L vals') : vals = vals' := by
  rw [encode_eq_flat L vals hw hf, encode_eq_flat L vals' hw hf'] at he
  have hc : Contig 0 L.spans = true := by simp only [WFRec, Bool.and_eq_true] at hw; exact hw.1
  exact flat_inj L.spans vals vals' 0 hc hf hf' he

-- ------------------------------------------------------------------ prefix scans

theorem isPrefixOf_append_iff' (a b rest : Bytes) (h : a.length = b.length) :
    a.isPrefixOf (b ++ rest) = true ↔ a = b := by
  induction a generalizing b with
  | nil => cases b <;> simp_all
  | cons x a ih =>
    cases b with
    | nil => simp at h
    | cons y b =>
      simp only [List.length_cons, Nat.add_right_cancel_iff] at h
      simp only [List.cons_append, List.isPrefixOf, Bool.and_eq_true, beq_iff_eq, List.cons.injEq]
      rw [ih b h]

theorem flat_append (ps rs : List Span) (pv rv : List Val) (h : ps.length = pv.length) :
    flat (ps ++ rs) (pv ++ rv) = flat ps pv ++ flat rs rv := by
  simp [flat, List.zip_append h]

/-- **prefix-scan exactness**: against a key whose leading fields are `kvals` (fixed widths), the byte prefix built
    from `pvals` matches iff the leading tuple components are equal -/
theorem prefix_exact (ps : List Span) (pvals kvals : List Val) (rest : Bytes) (o : Nat) (hc : Contig o ps = true)
    (hall : ps.all (fun s => s.len != 0) = true) (hp : Fits ps pvals = true) (hk : Fits ps kvals = true) :
    (flat ps pvals).isPrefixOf (flat ps kvals ++ rest) = true ↔ pvals = kvals := by
  rw [isPrefixOf_append_iff' _ _ _ (by rw [flat_length_fixed ps pvals hp hall, flat_length_fixed ps kvals hk hall])]
  exact ⟨flat_inj ps pvals kvals o hc hp hk, fun h => by rw [h]⟩

theorem Contig_take (spans : List Span) : ∀ (o k : Nat), Contig o spans = true →
    (spans.take k).all (fun s => s.len != 0) = true → Contig o (spans.take k) = true := by
  induction spans with
  | nil => intro o k _ _; simp [Contig]
  | cons s ss ih =>
    intro o k hc ha
    cases k with
    | zero => simp [Contig]
    | succ k =>
      simp only [Contig, Bool.and_eq_true, beq_iff_eq, Bool.or_eq_true, bne_iff_ne] at hc
      simp only [List.take_succ_cons, List.all_cons, Bool.and_eq_true, bne_iff_ne] at ha
      simp only [List.take_succ_cons, Contig, Bool.and_eq_true, beq_iff_eq, Bool.or_eq_true, bne_iff_ne]
      exact ⟨⟨hc.1.1, Or.inl ha.1⟩, ih _ k hc.2 ha.2⟩

theorem Fits_take (spans : List Span) : ∀ (vals : List Val) (k : Nat), Fits spans vals = true →
    Fits (spans.take k) (vals.take k) = true := by
  induction spans with
  | nil => intro vals k h; cases vals <;> simp_all [Fits]
  | cons s ss ih =>
    intro vals k h
    cases vals with
    | nil => simp [Fits] at h
    | cons v vs =>
      cases k with
      | zero => simp [Fits]
      | succ k =>
        simp only [Fits, Bool.and_eq_true] at h
        simp only [List.take_succ_cons, Fits, Bool.and_eq_true]
        exact ⟨h.1, ih vs k h.2⟩

/-- prefix exactness against a whole encoded key: the prefix over the first `k` spans of the key's own table -/
theorem prefix_exact_encode (W : Rec) (k : Nat) (pvals vals : List Val) (hw : WFRec W = true)
    (hall : (W.spans.take k).all (fun s => s.len != 0) = true)
    (hp : Fits (W.spans.take k) pvals = true) (hf : Fits W.spans vals = true) :
    (flat (W.spans.take k) pvals).isPrefixOf (encode W vals) = true ↔ pvals = vals.take k := by
  rw [encode_eq_flat W vals hw hf]
  have hsplit : flat W.spans vals = flat (W.spans.take k) (vals.take k) ++ flat (W.spans.drop k) (vals.drop k) := by
    conv => lhs; rw [← List.take_append_drop k W.spans, ← List.take_append_drop k vals]
    exact flat_append _ _ _ _ (by simp [List.length_take, Fits_length hf])
  rw [hsplit]
  have hc : Contig 0 W.spans = true := by simp only [WFRec, Bool.and_eq_true] at hw; exact hw.1
  have hck : Contig 0 (W.spans.take k) = true := Contig_take _ 0 k hc hall
  exact prefix_exact _ pvals (vals.take k) _ 0 hck hall hp (Fits_take _ _ k hf)

end MW.TxmgrCodec
