/- helper lemmas for C20: invariants of the goroutine protocol model -/
import MW.Model.Proto
namespace MW.Lemmas.Proto
open MW.Model.Proto

/-- between a completed suspend() and the matching resume() -/
def window : WPc → Bool
  | .impCommit | .impRes _ | .rem1Commit | .rem1Res _ | .rem2Commit | .rem2Res _ => true
  | _ => false

/-- what the queue may hold (plus the task in the worker's hands): below the busy mark while an API call
    sits between its IsWorkerBusy check and its push, at most the capacity otherwise -/
def bound (c : Cfg) : APc → Nat
  | .checked => c.busy
  | .idle => c.cap

structure Inv (sh : Shape) (c : Cfg) (s : St) : Prop where
  winH : window s.wp = true → s.hp = .wait ∨ (s.hp = .done ∧ sh.waitQuit = true)
  waitW : s.hp = .wait → window s.wp = true ∨ (s.quit = true ∧ sh.resQuit = true)
  hDone : s.hp = .done → s.quit = true
  wDone : s.wp = .done → s.quit = true
  spQuit : s.sp = .idle ↔ s.quit = false
  closing : (s.sp = .closing ∨ s.sp = .done) → s.hp = .done ∧ s.wp = .done
  db : s.dbOpen = false ↔ s.sp = .done
  chk : s.nt + inflight s.wp ≤ bound c s.ap

theorem inv_init {sh : Shape} {c : Cfg} {s : St} (h : Init c s) : Inv sh c s := by
  obtain ⟨h1, h2, h3, h4, h5, h6, _, _, h9⟩ := h
  constructor <;> simp_all [window, inflight, bound]

-- the proof of one transition: case on the worker pc, evaluate the guard, check every conjunct
set_option hygiene false in
macro "inv_tac" : tactic => `(tactic| (
  obtain ⟨quit, dbOpen, hp, wp, sp, ap, nb, ntx, nt⟩ := s
  obtain ⟨i1, i2, i3, i4, i5, i6, i7, i8⟩ := h
  dsimp only at i1 i2 i3 i4 i5 i6 i7 i8
  cases ap <;> rcases wp with _ | _ | _ | ⟨_|_|_|_⟩ | _ | _ | ⟨_|_⟩ | _ | _ | _ | ⟨_|_|_⟩ | _ | _ <;>
  simp [fire, susNext, susAbort, resNext] at hf <;>
    (first | (obtain ⟨hg, rfl⟩ := hf) | (subst hf)) <;>
    (constructor <;> intros <;> simp_all [window, inflight, bound] <;> omega)))

theorem inv_hQuit {sh : Shape} {c : Cfg} {s s' : St} (h : Inv sh c s)
    (hf : fire sh c (.hQuit) s = some s') (hc : c.busy < c.cap) : Inv sh c s' := by inv_tac
theorem inv_hTakeBlk {sh : Shape} {c : Cfg} {s s' : St} (h : Inv sh c s)
    (hf : fire sh c (.hTakeBlk) s = some s') (hc : c.busy < c.cap) : Inv sh c s' := by inv_tac
theorem inv_hTakeTx {sh : Shape} {c : Cfg} {s s' : St} (h : Inv sh c s)
    (hf : fire sh c (.hTakeTx) s = some s') (hc : c.busy < c.cap) : Inv sh c s' := by inv_tac
theorem inv_hDoneBlk {sh : Shape} {c : Cfg} {s s' : St} (h : Inv sh c s)
    (hf : fire sh c (.hDoneBlk) s = some s') (hc : c.busy < c.cap) : Inv sh c s' := by inv_tac
theorem inv_hDoneTx {sh : Shape} {c : Cfg} {s s' : St} (h : Inv sh c s)
    (hf : fire sh c (.hDoneTx) s = some s') (hc : c.busy < c.cap) : Inv sh c s' := by inv_tac
theorem inv_hWaitQuit {sh : Shape} {c : Cfg} {s s' : St} (h : Inv sh c s)
    (hf : fire sh c (.hWaitQuit) s = some s') (hc : c.busy < c.cap) : Inv sh c s' := by inv_tac
theorem inv_sus {sh : Shape} {c : Cfg} {s s' : St} (h : Inv sh c s)
    (hf : fire sh c (.sus) s = some s') (hc : c.busy < c.cap) : Inv sh c s' := by inv_tac
theorem inv_res {sh : Shape} {c : Cfg} {s s' : St} (h : Inv sh c s)
    (hf : fire sh c (.res) s = some s') (hc : c.busy < c.cap) : Inv sh c s' := by inv_tac
theorem inv_wQuit {sh : Shape} {c : Cfg} {s s' : St} (h : Inv sh c s)
    (hf : fire sh c (.wQuit) s = some s') (hc : c.busy < c.cap) : Inv sh c s' := by inv_tac
theorem inv_wTakeImp {sh : Shape} {c : Cfg} {s s' : St} (h : Inv sh c s)
    (hf : fire sh c (.wTakeImp) s = some s') (hc : c.busy < c.cap) : Inv sh c s' := by inv_tac
theorem inv_wTakeRem {sh : Shape} {c : Cfg} {s s' : St} (h : Inv sh c s)
    (hf : fire sh c (.wTakeRem) s = some s') (hc : c.busy < c.cap) : Inv sh c s' := by inv_tac
theorem inv_wTakeSkip {sh : Shape} {c : Cfg} {s s' : St} (h : Inv sh c s)
    (hf : fire sh c (.wTakeSkip) s = some s') (hc : c.busy < c.cap) : Inv sh c s' := by inv_tac
theorem inv_wSusQuit {sh : Shape} {c : Cfg} {s s' : St} (h : Inv sh c s)
    (hf : fire sh c (.wSusQuit) s = some s') (hc : c.busy < c.cap) : Inv sh c s' := by inv_tac
theorem inv_wCommitI {sh : Shape} {c : Cfg} {o} {s s' : St} (h : Inv sh c s)
    (hf : fire sh c (.wCommitI o) s = some s') (hc : c.busy < c.cap) : Inv sh c s' := by inv_tac
theorem inv_wCommitR1 {sh : Shape} {c : Cfg} {o} {s s' : St} (h : Inv sh c s)
    (hf : fire sh c (.wCommitR1 o) s = some s') (hc : c.busy < c.cap) : Inv sh c s' := by inv_tac
theorem inv_wCommitR2 {sh : Shape} {c : Cfg} {o} {s s' : St} (h : Inv sh c s)
    (hf : fire sh c (.wCommitR2 o) s = some s') (hc : c.busy < c.cap) : Inv sh c s' := by inv_tac
theorem inv_wResQuit {sh : Shape} {c : Cfg} {s s' : St} (h : Inv sh c s)
    (hf : fire sh c (.wResQuit) s = some s') (hc : c.busy < c.cap) : Inv sh c s' := by inv_tac
theorem inv_wChkQuit {sh : Shape} {c : Cfg} {s s' : St} (h : Inv sh c s)
    (hf : fire sh c (.wChkQuit) s = some s') (hc : c.busy < c.cap) : Inv sh c s' := by inv_tac
theorem inv_wChkGo {sh : Shape} {c : Cfg} {s s' : St} (h : Inv sh c s)
    (hf : fire sh c (.wChkGo) s = some s') (hc : c.busy < c.cap) : Inv sh c s' := by inv_tac
theorem inv_wPush {sh : Shape} {c : Cfg} {s s' : St} (h : Inv sh c s)
    (hf : fire sh c (.wPush) s = some s') (hc : c.busy < c.cap) : Inv sh c s' := by inv_tac
theorem inv_wPushDrop {sh : Shape} {c : Cfg} {s s' : St} (h : Inv sh c s)
    (hf : fire sh c (.wPushDrop) s = some s') (hc : c.busy < c.cap) : Inv sh c s' := by inv_tac
theorem inv_sWait {sh : Shape} {c : Cfg} {s s' : St} (h : Inv sh c s)
    (hf : fire sh c (.sWait) s = some s') (hc : c.busy < c.cap) : Inv sh c s' := by inv_tac
theorem inv_sClose {sh : Shape} {c : Cfg} {s s' : St} (h : Inv sh c s)
    (hf : fire sh c (.sClose) s = some s') (hc : c.busy < c.cap) : Inv sh c s' := by inv_tac
theorem inv_eStop {sh : Shape} {c : Cfg} {s s' : St} (h : Inv sh c s)
    (hf : fire sh c (.eStop) s = some s') (hc : c.busy < c.cap) : Inv sh c s' := by inv_tac
theorem inv_eBlk {sh : Shape} {c : Cfg} {s s' : St} (h : Inv sh c s)
    (hf : fire sh c (.eBlk) s = some s') (hc : c.busy < c.cap) : Inv sh c s' := by inv_tac
theorem inv_eTx {sh : Shape} {c : Cfg} {s s' : St} (h : Inv sh c s)
    (hf : fire sh c (.eTx) s = some s') (hc : c.busy < c.cap) : Inv sh c s' := by inv_tac
theorem inv_aCheck {sh : Shape} {c : Cfg} {s s' : St} (h : Inv sh c s)
    (hf : fire sh c (.aCheck) s = some s') (hc : c.busy < c.cap) : Inv sh c s' := by inv_tac
theorem inv_aPush {sh : Shape} {c : Cfg} {s s' : St} (h : Inv sh c s)
    (hf : fire sh c (.aPush) s = some s') (hc : c.busy < c.cap) : Inv sh c s' := by inv_tac
theorem inv_aPushDrop {sh : Shape} {c : Cfg} {s s' : St} (h : Inv sh c s)
    (hf : fire sh c (.aPushDrop) s = some s') (hc : c.busy < c.cap) : Inv sh c s' := by inv_tac

theorem inv_step {sh : Shape} {c : Cfg} (hc : c.busy < c.cap) {s s' : St} {l : Label}
    (h : Inv sh c s) (hf : fire sh c l s = some s') : Inv sh c s' := by
  cases l
  · exact inv_hQuit h hf hc
  · exact inv_hTakeBlk h hf hc
  · exact inv_hTakeTx h hf hc
  · exact inv_hDoneBlk h hf hc
  · exact inv_hDoneTx h hf hc
  · exact inv_hWaitQuit h hf hc
  · exact inv_sus h hf hc
  · exact inv_res h hf hc
  · exact inv_wQuit h hf hc
  · exact inv_wTakeImp h hf hc
  · exact inv_wTakeRem h hf hc
  · exact inv_wTakeSkip h hf hc
  · exact inv_wSusQuit h hf hc
  · exact inv_wCommitI h hf hc
  · exact inv_wCommitR1 h hf hc
  · exact inv_wCommitR2 h hf hc
  · exact inv_wResQuit h hf hc
  · exact inv_wChkQuit h hf hc
  · exact inv_wChkGo h hf hc
  · exact inv_wPush h hf hc
  · exact inv_wPushDrop h hf hc
  · exact inv_sWait h hf hc
  · exact inv_sClose h hf hc
  · exact inv_eStop h hf hc
  · exact inv_eBlk h hf hc
  · exact inv_eTx h hf hc
  · exact inv_aCheck h hf hc
  · exact inv_aPush h hf hc
  · exact inv_aPushDrop h hf hc

theorem inv_reach {sh : Shape} {c : Cfg} (hc : c.busy < c.cap) {s : St} (h : Reach sh c s) : Inv sh c s := by
  induction h with
  | init hi => exact inv_init hi
  | step l _ hf ih => exact inv_step hc ih hf

end MW.Lemmas.Proto
