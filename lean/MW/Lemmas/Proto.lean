/- helper lemmas for C20: invariants of the goroutine protocol model -/
import MW.Model.Proto
namespace MW.Lemmas.Proto
open MW.Model.Proto

/-- what the queue may hold (plus the task in the worker's hands): below the busy mark while an API call
    sits between its IsWorkerBusy check and its push, at most the capacity otherwise -/
def bound (c : Cfg) : APc → Nat
  | .checked => c.busy
  | .idle => c.cap

structure Inv (sh : Shape) (c : Cfg) (s : St) : Prop where
  winH : window s.wp = true → s.hp = .wait ∨ (s.hp = .done ∧ sh.waitQuit = true)
  waitW : s.hp = .wait → window s.wp = true ∨ (s.quit = true ∧ sh.resQuit = true)
  hDone : s.hp = .done → s.quit = true
  wDone : s.wp = .done → s.quit = true
  spQuit : s.sp = .idle ↔ s.quit = false
  closing : (s.sp = .closing ∨ s.sp = .done) → s.hp = .done ∧ s.wp = .done
  db : s.dbOpen = false ↔ s.sp = .done
  chk : s.nt + inflight s.wp ≤ bound c s.ap

theorem inv_init {sh : Shape} {c : Cfg} {s : St} (h : Init c s) : Inv sh c s := by
  obtain ⟨h1, h2, h3, h4, h5, h6, _, _, h9⟩ := h
  constructor <;> simp_all [window, inflight, bound]

-- the proof of one transition: case on the worker pc, evaluate the guard, check every conjunct
set_option hygiene false in
macro "inv_tac" : tactic => `(tactic| (
  obtain ⟨quit, dbOpen, hp, wp, sp, ap, nb, ntx, nt⟩ := s
  obtain ⟨i1, i2, i3, i4, i5, i6, i7, i8⟩ := h
  dsimp only at i1 i2 i3 i4 i5 i6 i7 i8
  cases ap <;> rcases wp with _ | _ | _ | ⟨_|_|_|_⟩ | _ | _ | _ | ⟨_|_|_⟩ | _ | _ <;>
  simp [fire, susNext, susAbort, resNext] at hf <;>
    (first | (obtain ⟨hg, rfl⟩ := hf) | (subst hf)) <;>
    (constructor <;> intros <;> simp_all [window, inflight, bound] <;> omega)))

theorem inv_hQuit {sh : Shape} {c : Cfg} {s s' : St} (h : Inv sh c s)
    (hf : fire sh c (.hQuit) s = some s') (hc : c.busy < c.cap) : Inv sh c s' := by inv_tac
theorem inv_hTakeBlk {sh : Shape} {c : Cfg} {s s' : St} (h : Inv sh c s)
    (hf : fire sh c (.hTakeBlk) s = some s') (hc : c.busy < c.cap) : Inv sh c s' := by inv_tac
theorem inv_hTakeTx {sh : Shape} {c : Cfg} {s s' : St} (h : Inv sh c s)
    (hf : fire sh c (.hTakeTx) s = some s') (hc : c.busy < c.cap) : Inv sh c s' := by inv_tac
theorem inv_hDoneBlk {sh : Shape} {c : Cfg} {s s' : St} (h : Inv sh c s)
    (hf : fire sh c (.hDoneBlk) s = some s') (hc : c.busy < c.cap) : Inv sh c s' := by inv_tac
theorem inv_hDoneTx {sh : Shape} {c : Cfg} {s s' : St} (h : Inv sh c s)
    (hf : fire sh c (.hDoneTx) s = some s') (hc : c.busy < c.cap) : Inv sh c s' := by inv_tac
theorem inv_hWaitQuit {sh : Shape} {c : Cfg} {s s' : St} (h : Inv sh c s)
    (hf : fire sh c (.hWaitQuit) s = some s') (hc : c.busy < c.cap) : Inv sh c s' := by inv_tac
theorem inv_sus {sh : Shape} {c : Cfg} {s s' : St} (h : Inv sh c s)
    (hf : fire sh c (.sus) s = some s') (hc : c.busy < c.cap) : Inv sh c s' := by inv_tac
theorem inv_res {sh : Shape} {c : Cfg} {s s' : St} (h : Inv sh c s)
    (hf : fire sh c (.res) s = some s') (hc : c.busy < c.cap) : Inv sh c s' := by inv_tac
theorem inv_wQuit {sh : Shape} {c : Cfg} {s s' : St} (h : Inv sh c s)
    (hf : fire sh c (.wQuit) s = some s') (hc : c.busy < c.cap) : Inv sh c s' := by inv_tac
theorem inv_wTakeImp {sh : Shape} {c : Cfg} {s s' : St} (h : Inv sh c s)
    (hf : fire sh c (.wTakeImp) s = some s') (hc : c.busy < c.cap) : Inv sh c s' := by inv_tac
theorem inv_wTakeRem {sh : Shape} {c : Cfg} {s s' : St} (h : Inv sh c s)
    (hf : fire sh c (.wTakeRem) s = some s') (hc : c.busy < c.cap) : Inv sh c s' := by inv_tac
theorem inv_wTakeSkip {sh : Shape} {c : Cfg} {s s' : St} (h : Inv sh c s)
    (hf : fire sh c (.wTakeSkip) s = some s') (hc : c.busy < c.cap) : Inv sh c s' := by inv_tac
theorem inv_wSusQuit {sh : Shape} {c : Cfg} {s s' : St} (h : Inv sh c s)
    (hf : fire sh c (.wSusQuit) s = some s') (hc : c.busy < c.cap) : Inv sh c s' := by inv_tac
theorem inv_wCommitI {sh : Shape} {c : Cfg} {o} {s s' : St} (h : Inv sh c s)
    (hf : fire sh c (.wCommitI o) s = some s') (hc : c.busy < c.cap) : Inv sh c s' := by inv_tac
theorem inv_wCommitR {sh : Shape} {c : Cfg} {o} {s s' : St} (h : Inv sh c s)
    (hf : fire sh c (.wCommitR o) s = some s') (hc : c.busy < c.cap) : Inv sh c s' := by inv_tac
theorem inv_wResQuit {sh : Shape} {c : Cfg} {s s' : St} (h : Inv sh c s)
    (hf : fire sh c (.wResQuit) s = some s') (hc : c.busy < c.cap) : Inv sh c s' := by inv_tac
theorem inv_wChkQuit {sh : Shape} {c : Cfg} {s s' : St} (h : Inv sh c s)
    (hf : fire sh c (.wChkQuit) s = some s') (hc : c.busy < c.cap) : Inv sh c s' := by inv_tac
theorem inv_wChkGo {sh : Shape} {c : Cfg} {s s' : St} (h : Inv sh c s)
    (hf : fire sh c (.wChkGo) s = some s') (hc : c.busy < c.cap) : Inv sh c s' := by inv_tac
theorem inv_wPush {sh : Shape} {c : Cfg} {s s' : St} (h : Inv sh c s)
    (hf : fire sh c (.wPush) s = some s') (hc : c.busy < c.cap) : Inv sh c s' := by inv_tac
theorem inv_wPushDrop {sh : Shape} {c : Cfg} {s s' : St} (h : Inv sh c s)
    (hf : fire sh c (.wPushDrop) s = some s') (hc : c.busy < c.cap) : Inv sh c s' := by inv_tac
theorem inv_sWait {sh : Shape} {c : Cfg} {s s' : St} (h : Inv sh c s)
    (hf : fire sh c (.sWait) s = some s') (hc : c.busy < c.cap) : Inv sh c s' := by inv_tac
theorem inv_sClose {sh : Shape} {c : Cfg} {s s' : St} (h : Inv sh c s)
    (hf : fire sh c (.sClose) s = some s') (hc : c.busy < c.cap) : Inv sh c s' := by inv_tac
theorem inv_eStop {sh : Shape} {c : Cfg} {s s' : St} (h : Inv sh c s)
    (hf : fire sh c (.eStop) s = some s') (hc : c.busy < c.cap) : Inv sh c s' := by inv_tac
theorem inv_eBlk {sh : Shape} {c : Cfg} {s s' : St} (h : Inv sh c s)
    (hf : fire sh c (.eBlk) s = some s') (hc : c.busy < c.cap) : Inv sh c s' := by inv_tac
theorem inv_eTx {sh : Shape} {c : Cfg} {s s' : St} (h : Inv sh c s)
    (hf : fire sh c (.eTx) s = some s') (hc : c.busy < c.cap) : Inv sh c s' := by inv_tac
theorem inv_aCheck {sh : Shape} {c : Cfg} {s s' : St} (h : Inv sh c s)
    (hf : fire sh c (.aCheck) s = some s') (hc : c.busy < c.cap) : Inv sh c s' := by inv_tac
theorem inv_aPush {sh : Shape} {c : Cfg} {s s' : St} (h : Inv sh c s)
    (hf : fire sh c (.aPush) s = some s') (hc : c.busy < c.cap) : Inv sh c s' := by inv_tac
theorem inv_aPushDrop {sh : Shape} {c : Cfg} {s s' : St} (h : Inv sh c s)
    (hf : fire sh c (.aPushDrop) s = some s') (hc : c.busy < c.cap) : Inv sh c s' := by inv_tac

theorem inv_step {sh : Shape} {c : Cfg} (hc : c.busy < c.cap) {s s' : St} {l : Label}
    (h : Inv sh c s) (hf : fire sh c l s = some s') : Inv sh c s' := by
  cases l
  · exact inv_hQuit h hf hc
  · exact inv_hTakeBlk h hf hc
  · exact inv_hTakeTx h hf hc
  · exact inv_hDoneBlk h hf hc
  · exact inv_hDoneTx h hf hc
  · exact inv_hWaitQuit h hf hc
  · exact inv_sus h hf hc
  · exact inv_res h hf hc
  · exact inv_wQuit h hf hc
  · exact inv_wTakeImp h hf hc
  · exact inv_wTakeRem h hf hc
  · exact inv_wTakeSkip h hf hc
  · exact inv_wSusQuit h hf hc
  · exact inv_wCommitI h hf hc
  · exact inv_wCommitR h hf hc
  · exact inv_wResQuit h hf hc
  · exact inv_wChkQuit h hf hc
  · exact inv_wChkGo h hf hc
  · exact inv_wPush h hf hc
  · exact inv_wPushDrop h hf hc
  · exact inv_sWait h hf hc
  · exact inv_sClose h hf hc
  · exact inv_eStop h hf hc
  · exact inv_eBlk h hf hc
  · exact inv_eTx h hf hc
  · exact inv_aCheck h hf hc
  · exact inv_aPush h hf hc
  · exact inv_aPushDrop h hf hc

theorem inv_reach {sh : Shape} {c : Cfg} (hc : c.busy < c.cap) {s : St} (h : Reach sh c s) : Inv sh c s := by
  induction h with
  | init hi => exact inv_init hi
  | step l _ hf ih => exact inv_step hc ih hf

-- ------------------------------------------------------------------ termination measure

set_option hygiene false in
macro "meas_tac" : tactic => `(tactic| (
  obtain ⟨quit, dbOpen, hp, wp, sp, ap, nb, ntx, nt⟩ := s
  dsimp only at hq
  subst hq
  rcases wp with _ | _ | _ | ⟨_|_|_|_⟩ | _ | _ | _ | ⟨_|_|_⟩ | _ | _ <;>
  simp [fire, susNext, susAbort, resNext, Shape.fixed] at hf <;>
    (first | (obtain ⟨hg, rfl⟩ := hf) | (subst hf)) <;>
    (simp_all [stopMeasure, rankH, rankW, rankS, taskW] <;> omega)))

theorem meas_hQuit {c : Cfg} {s s' : St} (hq : s.quit = true)
    (hf : fire .fixed c (.hQuit) s = some s') : stopMeasure s' < stopMeasure s := by meas_tac
theorem meas_hTakeBlk {c : Cfg} {s s' : St} (hq : s.quit = true)
    (hf : fire .fixed c (.hTakeBlk) s = some s') : stopMeasure s' < stopMeasure s := by meas_tac
theorem meas_hTakeTx {c : Cfg} {s s' : St} (hq : s.quit = true)
    (hf : fire .fixed c (.hTakeTx) s = some s') : stopMeasure s' < stopMeasure s := by meas_tac
theorem meas_hDoneBlk {c : Cfg} {s s' : St} (hq : s.quit = true)
    (hf : fire .fixed c (.hDoneBlk) s = some s') : stopMeasure s' < stopMeasure s := by meas_tac
theorem meas_hDoneTx {c : Cfg} {s s' : St} (hq : s.quit = true)
    (hf : fire .fixed c (.hDoneTx) s = some s') : stopMeasure s' < stopMeasure s := by meas_tac
theorem meas_hWaitQuit {c : Cfg} {s s' : St} (hq : s.quit = true)
    (hf : fire .fixed c (.hWaitQuit) s = some s') : stopMeasure s' < stopMeasure s := by meas_tac
theorem meas_sus {c : Cfg} {s s' : St} (hq : s.quit = true)
    (hf : fire .fixed c (.sus) s = some s') : stopMeasure s' < stopMeasure s := by meas_tac
theorem meas_res {c : Cfg} {s s' : St} (hq : s.quit = true)
    (hf : fire .fixed c (.res) s = some s') : stopMeasure s' < stopMeasure s := by meas_tac
theorem meas_wQuit {c : Cfg} {s s' : St} (hq : s.quit = true)
    (hf : fire .fixed c (.wQuit) s = some s') : stopMeasure s' < stopMeasure s := by meas_tac
theorem meas_wTakeImp {c : Cfg} {s s' : St} (hq : s.quit = true)
    (hf : fire .fixed c (.wTakeImp) s = some s') : stopMeasure s' < stopMeasure s := by meas_tac
theorem meas_wTakeRem {c : Cfg} {s s' : St} (hq : s.quit = true)
    (hf : fire .fixed c (.wTakeRem) s = some s') : stopMeasure s' < stopMeasure s := by meas_tac
theorem meas_wTakeSkip {c : Cfg} {s s' : St} (hq : s.quit = true)
    (hf : fire .fixed c (.wTakeSkip) s = some s') : stopMeasure s' < stopMeasure s := by meas_tac
theorem meas_wSusQuit {c : Cfg} {s s' : St} (hq : s.quit = true)
    (hf : fire .fixed c (.wSusQuit) s = some s') : stopMeasure s' < stopMeasure s := by meas_tac
theorem meas_wCommitI {c : Cfg} {o} {s s' : St} (hq : s.quit = true)
    (hf : fire .fixed c (.wCommitI o) s = some s') : stopMeasure s' < stopMeasure s := by meas_tac
theorem meas_wCommitR {c : Cfg} {o} {s s' : St} (hq : s.quit = true)
    (hf : fire .fixed c (.wCommitR o) s = some s') : stopMeasure s' < stopMeasure s := by meas_tac
theorem meas_wResQuit {c : Cfg} {s s' : St} (hq : s.quit = true)
    (hf : fire .fixed c (.wResQuit) s = some s') : stopMeasure s' < stopMeasure s := by meas_tac
theorem meas_wChkQuit {c : Cfg} {s s' : St} (hq : s.quit = true)
    (hf : fire .fixed c (.wChkQuit) s = some s') : stopMeasure s' < stopMeasure s := by meas_tac
theorem meas_wChkGo {c : Cfg} {s s' : St} (hq : s.quit = true)
    (hf : fire .fixed c (.wChkGo) s = some s') : stopMeasure s' < stopMeasure s := by meas_tac
theorem meas_wPush {c : Cfg} {s s' : St} (hq : s.quit = true)
    (hf : fire .fixed c (.wPush) s = some s') : stopMeasure s' < stopMeasure s := by meas_tac
theorem meas_wPushDrop {c : Cfg} {s s' : St} (hq : s.quit = true)
    (hf : fire .fixed c (.wPushDrop) s = some s') : stopMeasure s' < stopMeasure s := by meas_tac
theorem meas_sWait {c : Cfg} {s s' : St} (hq : s.quit = true)
    (hf : fire .fixed c (.sWait) s = some s') : stopMeasure s' < stopMeasure s := by meas_tac
theorem meas_sClose {c : Cfg} {s s' : St} (hq : s.quit = true)
    (hf : fire .fixed c (.sClose) s = some s') : stopMeasure s' < stopMeasure s := by meas_tac

/-- after quit is closed every step of the follower, the worker and the stop sequence strictly decreases
    the measure (fixed skeleton) -/
theorem measure_decreases {c : Cfg} {s s' : St} {l : Label} (hl : l.core = true) (hq : s.quit = true)
    (hf : fire .fixed c l s = some s') : stopMeasure s' < stopMeasure s := by
  cases l <;> simp [Label.core] at hl
  · exact meas_hQuit hq hf
  · exact meas_hTakeBlk hq hf
  · exact meas_hTakeTx hq hf
  · exact meas_hDoneBlk hq hf
  · exact meas_hDoneTx hq hf
  · exact meas_hWaitQuit hq hf
  · exact meas_sus hq hf
  · exact meas_res hq hf
  · exact meas_wQuit hq hf
  · exact meas_wTakeImp hq hf
  · exact meas_wTakeRem hq hf
  · exact meas_wTakeSkip hq hf
  · exact meas_wSusQuit hq hf
  · exact meas_wCommitI hq hf
  · exact meas_wCommitR hq hf
  · exact meas_wResQuit hq hf
  · exact meas_wChkQuit hq hf
  · exact meas_wChkGo hq hf
  · exact meas_wPush hq hf
  · exact meas_wPushDrop hq hf
  · exact meas_sWait hq hf
  · exact meas_sClose hq hf

-- ------------------------------------------------------------------ deadlock freedom (fixed skeleton)

set_option hygiene false in
macro "en" l:term : tactic => `(tactic| exact Or.inl ⟨$l, rfl, by simp_all [fire, susNext, susAbort, resNext, Shape.fixed, window]⟩)

theorem no_deadlock_of_inv {c : Cfg} {s : St} (h : Inv .fixed c s) :
    CoreEnabled .fixed c s ∨ Final s ∨ Quiescent s := by
  obtain ⟨quit, dbOpen, hp, wp, sp, ap, nb, ntx, nt⟩ := s
  obtain ⟨i1, i2, i3, i4, i5, i6, i7, i8⟩ := h
  dsimp only at i1 i2 i3 i4 i5 i6 i7 i8
  rcases wp with _ | _ | _ | o | _ | _ | _ | o | _ | _
  · -- top
    cases quit
    · by_cases hnt : 0 < nt
      · en .wTakeImp
      · cases hp
        · by_cases hnb : 0 < nb
          · en .hTakeBlk
          · by_cases hntx : 0 < ntx
            · en .hTakeTx
            · right; right
              simp_all [Quiescent]
        · simp_all [window, Shape.fixed]
        · en .hDoneBlk
        · en .hDoneTx
        · simp_all
    · en .wQuit
  · -- impSus
    cases quit
    · cases hp
      · en .sus
      · simp_all [window, Shape.fixed]
      · en .hDoneBlk
      · en .hDoneTx
      · simp_all
    · en .wSusQuit
  · en (.wCommitI .fin)
  · -- impRes
    cases quit
    · have : hp = .wait := by
        rcases i1 (by simp [window]) with h | h
        · exact h
        · simp_all
      cases o <;> en .res
    · cases o <;> en .wResQuit
  · -- remChk
    cases quit
    · en .wChkGo
    · en .wChkQuit
  · -- remSus
    cases quit
    · cases hp
      · en .sus
      · simp_all [window, Shape.fixed]
      · en .hDoneBlk
      · en .hDoneTx
      · simp_all
    · en .wSusQuit
  · en (.wCommitR .finish)
  · -- remRes
    cases quit
    · have : hp = .wait := by
        rcases i1 (by simp [window]) with h | h
        · exact h
        · simp_all
      cases o <;> en .res
    · cases o <;> en .wResQuit
  · -- push
    by_cases hcap : nt < c.cap
    · en .wPush
    · en .wPushDrop
  · -- done
    have hq : quit = true := i4 rfl
    subst hq
    cases hp
    · en .hQuit
    · en .hWaitQuit
    · en .hDoneBlk
    · en .hDoneTx
    · cases sp
      · simp_all
      · en .sWait
      · en .sClose
      · right; left
        simp [Final]

-- ------------------------------------------------------------------ queue, database, quit

theorem no_drop_of_inv {sh : Shape} {c : Cfg} (hc : c.busy < c.cap) {s : St} (h : Inv sh c s) :
    fire sh c .wPushDrop s = none ∧ fire sh c .aPushDrop s = none := by
  obtain ⟨quit, dbOpen, hp, wp, sp, ap, nb, ntx, nt⟩ := s
  have h8 := h.chk
  dsimp only at h8
  constructor
  · simp only [fire]
    split
    · rename_i hg
      obtain ⟨hw, hn⟩ := hg
      subst hw
      cases ap <;> simp [inflight, bound] at h8 <;> omega
    · rfl
  · simp only [fire]
    split
    · rename_i hg
      obtain ⟨ha, hn⟩ := hg
      subst ha
      simp [bound] at h8
      omega
    · rfl

theorem db_closed_of_inv {sh : Shape} {c : Cfg} {s : St} (h : Inv sh c s) (hd : s.dbOpen = false) :
    s.hp = .done ∧ s.wp = .done := h.closing (Or.inr (h.db.1 hd))

theorem quit_stable {sh : Shape} {c : Cfg} {s s' : St} {l : Label} (hq : s.quit = true)
    (hf : fire sh c l s = some s') : s'.quit = true := by
  obtain ⟨quit, dbOpen, hp, wp, sp, ap, nb, ntx, nt⟩ := s
  dsimp only at hq
  subst hq
  cases l <;> simp only [fire] at hf <;> (repeat' split at hf) <;> simp at hf <;> subst hf <;> rfl

/-- a sequence of `n` core steps -/
inductive CorePath (sh : Shape) (c : Cfg) : St → Nat → St → Prop
  | nil (s) : CorePath sh c s 0 s
  | cons {s s' s'' n} (l : Label) : l.core = true → fire sh c l s = some s' → CorePath sh c s' n s'' →
      CorePath sh c s (n + 1) s''

theorem path_bounded {c : Cfg} {s s' : St} {n : Nat} (hp : CorePath .fixed c s n s') (hq : s.quit = true) :
    n + stopMeasure s' ≤ stopMeasure s := by
  induction hp with
  | nil s => simp
  | cons l hl hf _ ih =>
    have h1 := measure_decreases hl hq hf
    have h2 := ih (quit_stable hq hf)
    omega

-- ------------------------------------------------------------------ the skeleton before the D12 fix deadlocks

def cfg4 : Cfg := { cap := 4, qcap := 1024, busy := 3 }
/-- one import queued; the worker has taken it and stands at suspend(); Stop has closed quit; the follower
    has seen quit and returned -/
def stuck : St := { quit := true, hp := .done, wp := .impSus, sp := .waiting, nt := 0 }

theorem stuck_reachable : Reach .preFix cfg4 stuck := by
  have h0 : Reach .preFix cfg4 { nt := 1 } := .init (by simp [Init, cfg4])
  have h1 : Reach .preFix cfg4 { wp := .impSus, nt := 0 } := .step .wTakeImp h0 (by decide)
  have h2 : Reach .preFix cfg4 { quit := true, wp := .impSus, sp := .waiting, nt := 0 } := .step .eStop h1 (by decide)
  exact .step .hQuit h2 (by decide)

theorem stuck_is_stuck : ¬ CoreEnabled .preFix cfg4 stuck ∧ ¬ Final stuck ∧ ¬ Quiescent stuck := by
  refine ⟨?_, by simp [Final, stuck], by simp [Quiescent, stuck]⟩
  rintro ⟨l, hl, hf⟩
  cases l <;> simp [Label.core] at hl <;> simp [fire, stuck, susNext, susAbort, resNext, Shape.preFix] at hf

/-- the same state is NOT stuck under the fixed skeleton: suspend gives way to quit -/
theorem stuck_not_stuck_fixed : CoreEnabled .fixed cfg4 stuck :=
  ⟨.wSusQuit, rfl, by decide⟩

-- ------------------------------------------------------------------ progress measures while running

/-- work the follower still has queued or in hand -/
def followerWork (s : St) : Nat := 2 * (s.nb + s.ntx) + (match s.hp with | .blk => 1 | .tx => 1 | _ => 0)
/-- tasks queued or in the worker's hands -/
def workerPending (s : St) : Nat := s.nt + inflight s.wp

def Label.follower : Label → Bool
  | .hTakeBlk | .hTakeTx | .hDoneBlk | .hDoneTx => true
  | _ => false

theorem follower_step_decreases {sh : Shape} {c : Cfg} {s s' : St} {l : Label} (hl : Label.follower l = true)
    (hf : fire sh c l s = some s') : followerWork s' < followerWork s := by
  obtain ⟨quit, dbOpen, hp, wp, sp, ap, nb, ntx, nt⟩ := s
  cases l <;> simp [Label.follower] at hl <;> simp [fire] at hf <;>
    obtain ⟨hg, rfl⟩ := hf <;> simp_all [followerWork] <;> omega

theorem others_keep_followerWork {sh : Shape} {c : Cfg} {s s' : St} {l : Label} (hl : l.core = true)
    (hl2 : Label.follower l = false) (hf : fire sh c l s = some s') : followerWork s' ≤ followerWork s := by
  obtain ⟨quit, dbOpen, hp, wp, sp, ap, nb, ntx, nt⟩ := s
  cases l <;> simp [Label.follower] at hl2 <;> simp [Label.core] at hl <;>
    simp only [fire] at hf <;> (repeat' split at hf) <;> simp at hf <;>
    (first | (obtain ⟨hg, rfl⟩ := hf) | subst hf) <;> simp_all [followerWork]

theorem core_keeps_workerPending {sh : Shape} {c : Cfg} {s s' : St} {l : Label} (hl : l.core = true)
    (hf : fire sh c l s = some s') : workerPending s' ≤ workerPending s := by
  obtain ⟨quit, dbOpen, hp, wp, sp, ap, nb, ntx, nt⟩ := s
  rcases wp with _ | _ | _ | ⟨_|_|_|_⟩ | _ | _ | _ | ⟨_|_|_⟩ | _ | _ <;>
  cases l <;> simp [Label.core] at hl <;> simp [fire, susNext, susAbort, resNext] at hf <;>
    (first | (obtain ⟨hg, rfl⟩ := hf) | subst hf) <;> simp_all [workerPending, inflight] <;> omega

end MW.Lemmas.Proto
