/-
  Helper lemmas for C12: one wallet's issuing machine. `nextAddresses` (+ `updateManaged`) on a
  coherent (record, cache) pair is a function of the record's child number and of the chain's
  usage predicate only; runs of the model are simulated by a tiny abstract machine.
-/
import MW.Lemmas.KsMgr
namespace MW.Lemmas.KsIssue
open MW MW.Model.Keystore MW.Spec.Keystore MW.Lemmas.KsMgr

variable {Priv Pub Addr : Type} [DecidableEq Addr]

/-- public key of the external chain of a record, index `i` (public derivation) -/
def extPub (sch : Scheme Priv Pub Addr) (r : Rec Priv Pub) (i : Nat) : Pub :=
  sch.ckdPub (sch.ckdPub r.acctPub externalBranch) i

/-- address of the external chain of a record, index `i` -/
def extAddr (sch : Scheme Priv Pub Addr) (r : Rec Priv Pub) (i : Nat) : Addr := sch.addrOf (extPub sch r i)

/-- state of one wallet: account bucket, cache, the chain's usage predicate -/
structure WSt (Priv Pub Addr : Type) where
  r : Rec Priv Pub
  m : Mgr Pub Addr
  used : Addr → Bool

/-- well-formed wallet state (external chain): the account public key is the neutered private key,
    bucket "pub" holds the derived key of every issued index, the cache is coherent with it -/
structure WOK (sch : Curve Priv Pub Addr) (r : Rec Priv Pub) (m : Mgr Pub Addr) : Prop where
  acct : r.acctPub = sch.pubOf r.acctPriv
  pubs : ∀ i, i < r.exNum → AMap.get r.pubs (externalBranch, i) = some (extPub sch.toScheme r i)
  coh : Coh m externalBranch r.exNum (extAddr sch.toScheme r)
  addrs : AddrsOK m

/-- whichever material is in memory, nextAddresses derives the same public key -/
theorem issuePub_eq (sch : Curve Priv Pub Addr) (r : Rec Priv Pub) (h : r.acctPub = sch.pubOf r.acctPriv)
    (f : Bool) (b i : Nat) :
    issuePub sch.toScheme r f b i = sch.ckdPub (sch.ckdPub r.acctPub b) i := by
  unfold issuePub
  cases f with
  | false => simp
  | true => simp [sch.neuter_ckd, h]

/-- the window of the gap rule is the last `gap` indexes -/
theorem gate_window (next gap : Nat) (h1 : next ≠ 0) (h2 : next + 1 > gap) :
    List.range' (next + 1 - gap - 1) (next - (next + 1 - gap - 1)) = List.range' (next - gap) gap := by
  have : next + 1 - gap - 1 = next - gap := by omega
  rw [this]
  have : next - (next - gap) = gap := by omega
  rw [this]

/-- the record after one successful external issue -/
def recAfter (sch : Scheme Priv Pub Addr) (r : Rec Priv Pub) : Rec Priv Pub :=
  { r with exNum := r.exNum + 1, pubs := AMap.put r.pubs (externalBranch, r.exNum) (extPub sch r r.exNum) }

/-- MAIN LEMMA: on a well-formed state, one external `nextAddresses(…, 1, gap)` is decided by the
    child number and the usage of the last `gap` addresses, and returns the address at the child number. -/
theorem nextAddresses_one (sch : Curve Priv Pub Addr) (r : Rec Priv Pub) (m : Mgr Pub Addr)
    (used : Addr → Bool) (gap : Nat) (hW : WOK sch r m) :
    nextAddresses sch.toScheme r m used false 1 gap =
      if r.exNum + 1 > maxAddrs then .error .tooMany
      else if gap = 0 then .error .gapLimit
      else if mayIssue (fun i => used (extAddr sch.toScheme r i)) gap r.exNum then
        .ok (recAfter sch.toScheme r, [mkAddr sch.toScheme (extPub sch.toScheme r r.exNum) externalBranch r.exNum])
      else .error .gapLimit := by
  have hmax : ¬ ((1 : Nat) > maxAddrs) := by decide
  have hone : ∀ (p : Pub),
      (List.map (fun i => mkAddr sch.toScheme (issuePub sch.toScheme r m.hasPriv externalBranch i) externalBranch i)
        (List.range' r.exNum 1)) = [mkAddr sch.toScheme (extPub sch.toScheme r r.exNum) externalBranch r.exNum] := by
    intro _
    simp only [List.range'_one, List.map_cons, List.map_nil]
    rw [issuePub_eq sch r hW.acct]; rfl
  unfold nextAddresses
  simp only [Rec.next, Bool.false_eq_true, if_false]
  by_cases h1 : r.exNum + 1 > maxAddrs
  · have : 1 + r.exNum > maxAddrs := by omega
    simp [this, h1]
  · have h1' : ¬ (1 + r.exNum > maxAddrs) := by omega
    rw [if_neg (by simp [hmax, h1']), if_neg h1]
    by_cases hg : gap = 0
    · subst hg; simp
    · have hg1 : ¬ (1 > gap) := by omega
      rw [if_neg hg1, if_neg hg]
      rw [hone (extPub sch.toScheme r 0)]
      have hres : ({ (r.setNext false (r.exNum + 1)) with
            pubs := List.foldl (fun p (a : MAddr Pub Addr) => AMap.put p (externalBranch, a.index) a.pub)
              (r.setNext false (r.exNum + 1)).pubs
              [mkAddr sch.toScheme (extPub sch.toScheme r r.exNum) externalBranch r.exNum] } : Rec Priv Pub)
          = recAfter sch.toScheme r := by
        simp [Rec.setNext, recAfter, mkAddr]
      rw [hres]
      by_cases hc : (r.exNum ≠ 0 ∧ r.exNum + 1 > gap)
      · -- the window is consulted
        have hcb : (decide (r.exNum ≠ 0) && decide (r.exNum + 1 > gap)) = true := by
          simp [hc.1, hc.2]
        rw [if_pos hcb]
        rw [gate_window r.exNum gap hc.1 hc.2]
        rw [windowPass_eq m used externalBranch r.exNum (extAddr sch.toScheme r) hW.addrs hW.coh]
        · have hm : mayIssue (fun i => used (extAddr sch.toScheme r i)) gap r.exNum =
              (List.range' (r.exNum - gap) gap).any (fun i => used (extAddr sch.toScheme r i)) := by
            unfold mayIssue
            have a1 : decide (r.exNum = 0) = false := by simp [hc.1]
            have a2 : decide (r.exNum + 1 ≤ gap) = false := by simp; omega
            simp [a1, a2]
          rw [hm]
          cases hany : (List.range' (r.exNum - gap) gap).any (fun i => used (extAddr sch.toScheme r i)) with
          | false => simp
          | true => simp
        · intro i hi
          rw [List.mem_range'] at hi
          obtain ⟨k, hk, rfl⟩ := hi
          omega
      · have hcb : ¬ ((decide (r.exNum ≠ 0) && decide (r.exNum + 1 > gap)) = true) := by
          by_cases h0 : r.exNum = 0
          · simp [h0]
          · have : ¬ (r.exNum + 1 > gap) := fun h => hc ⟨h0, h⟩
            simp [this]
        rw [if_neg hcb]
        have hm : mayIssue (fun i => used (extAddr sch.toScheme r i)) gap r.exNum = true := by
          unfold mayIssue
          by_cases h0 : r.exNum = 0
          · simp [h0]
          · have : r.exNum + 1 ≤ gap := by
              have : ¬ (r.exNum + 1 > gap) := fun h => hc ⟨h0, h⟩
              omega
            simp [this]
        simp [hm]

theorem extPub_recAfter (sch : Scheme Priv Pub Addr) (r : Rec Priv Pub) (i : Nat) :
    extPub sch (recAfter sch r) i = extPub sch r i := rfl

theorem extAddr_recAfter (sch : Scheme Priv Pub Addr) (r : Rec Priv Pub) :
    extAddr sch (recAfter sch r) = extAddr sch r := rfl

/-- a successful issue keeps the state well-formed -/
theorem wok_after (sch : Curve Priv Pub Addr) (r : Rec Priv Pub) (m : Mgr Pub Addr) (hW : WOK sch r m) :
    WOK sch (recAfter sch.toScheme r)
      (updateManaged m [mkAddr sch.toScheme (extPub sch.toScheme r r.exNum) externalBranch r.exNum]) := by
  constructor
  · exact hW.acct
  · intro i hi
    show AMap.get (AMap.put r.pubs (externalBranch, r.exNum) (extPub sch.toScheme r r.exNum)) (externalBranch, i) = _
    rw [AMap.get_put]
    have hi' : i < r.exNum + 1 := hi
    by_cases he : i = r.exNum
    · subst he; simp [extPub_recAfter]
    · have : ¬ ((externalBranch, r.exNum) = (externalBranch, i)) := by
        intro h; injection h with _ h2; exact he h2.symm
      simp only [this, if_false]
      rw [extPub_recAfter]
      exact hW.pubs i (by omega)
  · show Coh _ externalBranch (r.exNum + 1) (extAddr sch.toScheme (recAfter sch.toScheme r))
    rw [extAddr_recAfter]
    exact coh_add_next sch.toScheme m externalBranch r.exNum (extAddr sch.toScheme r) _ rfl hW.coh
  · exact addrsOK_fold m _ hW.addrs

/-- a restart (cache rebuilt from the bucket) keeps the state well-formed -/
theorem wok_restart (sch : Curve Priv Pub Addr) (r : Rec Priv Pub) (m : Mgr Pub Addr) (hW : WOK sch r m) :
    WOK sch r (loadMgr sch.toScheme r.pubs) :=
  ⟨hW.acct, hW.pubs, coh_loadMgr sch.toScheme r.pubs externalBranch r.exNum (extPub sch.toScheme r) hW.pubs,
   loadMgr_addrsOK sch.toScheme r.pubs⟩

theorem wok_hasPriv (sch : Curve Priv Pub Addr) (r : Rec Priv Pub) (m : Mgr Pub Addr) (f : Bool)
    (hW : WOK sch r m) : WOK sch r { m with hasPriv := f } :=
  ⟨hW.acct, hW.pubs, hW.coh, hW.addrs⟩

-- ------------------------------------------------------------------ runs

/-- events in the life of one wallet -/
inductive Ev (Addr : Type)
  | issue                          -- NewAddress
  | chain (u : Addr → Bool)        -- the node's best chain changed: new usage predicate
  | restart                        -- process restart: cache rebuilt from the database
  | loadPriv                       -- private account key loaded (issue from private material)
  | clearPriv                      -- ClearPrivKey

/-- one event on the model; `some` output for issue events -/
def stepW (sch : Scheme Priv Pub Addr) (gap : Nat) (s : WSt Priv Pub Addr) :
    Ev Addr → WSt Priv Pub Addr × Option (Except Err Addr)
  | .issue =>
    match nextAddresses sch s.r s.m s.used false 1 gap with
    | .ok (r', mas) =>
      ({ s with r := r', m := updateManaged s.m mas }, some (match mas with | ma :: _ => .ok ma.addr | [] => .error .inconsistent))
    | .error e => (s, some (.error e))
  | .chain u => ({ s with used := u }, none)
  | .restart => ({ s with m := loadMgr sch s.r.pubs }, none)
  | .loadPriv => ({ s with m := { s.m with hasPriv := true } }, none)
  | .clearPriv => ({ s with m := { s.m with hasPriv := false } }, none)

/-- run of the model: final state and the outputs of the issue events in order -/
def runW (sch : Scheme Priv Pub Addr) (gap : Nat) (s : WSt Priv Pub Addr) :
    List (Ev Addr) → WSt Priv Pub Addr × List (Except Err Addr)
  | [] => (s, [])
  | e :: es =>
    let (s', o) := stepW sch gap s e
    let (s'', os) := runW sch gap s' es
    (s'', match o with | some x => x :: os | none => os)

/-- the abstract issuing machine: number issued `n`, usage predicate over indexes -/
def absStep (A : Nat → Addr) (gap : Nat) (s : Nat × (Addr → Bool)) :
    Ev Addr → (Nat × (Addr → Bool)) × Option (Except Err Addr)
  | .issue =>
    if s.1 + 1 > maxAddrs then (s, some (.error .tooMany))
    else if gap = 0 then (s, some (.error .gapLimit))
    else if mayIssue (fun i => s.2 (A i)) gap s.1 then ((s.1 + 1, s.2), some (.ok (A s.1)))
    else (s, some (.error .gapLimit))
  | .chain u => ((s.1, u), none)
  | _ => (s, none)

def absRun (A : Nat → Addr) (gap : Nat) (s : Nat × (Addr → Bool)) :
    List (Ev Addr) → (Nat × (Addr → Bool)) × List (Except Err Addr)
  | [] => (s, [])
  | e :: es =>
    let (s', o) := absStep A gap s e
    let (s'', os) := absRun A gap s' es
    (s'', match o with | some x => x :: os | none => os)

/-- one model step is one abstract step, and keeps the state well-formed -/
theorem stepW_sim (sch : Curve Priv Pub Addr) (gap : Nat) (s : WSt Priv Pub Addr) (hW : WOK sch s.r s.m)
    (e : Ev Addr) :
    let (s', o) := stepW sch.toScheme gap s e
    let (a', o') := absStep (extAddr sch.toScheme s.r) gap (s.r.exNum, s.used) e
    o = o' ∧ a' = (s'.r.exNum, s'.used) ∧ extAddr sch.toScheme s'.r = extAddr sch.toScheme s.r ∧ WOK sch s'.r s'.m := by
  cases e with
  | issue =>
    simp only [stepW, absStep]
    rw [nextAddresses_one sch s.r s.m s.used gap hW]
    by_cases h1 : s.r.exNum + 1 > maxAddrs
    · simp [h1, hW]
    · by_cases hg : gap = 0
      · simp [h1, hg, hW]
      · cases hm : mayIssue (fun i => s.used (extAddr sch.toScheme s.r i)) gap s.r.exNum with
        | false => simp [h1, hg, hW]
        | true =>
          simp only [h1, hg, if_false, if_true]
          refine ⟨?_, ?_, ?_, ?_⟩
          · simp [mkAddr, extAddr]
          · simp [recAfter]
          · exact extAddr_recAfter sch.toScheme s.r
          · exact wok_after sch s.r s.m hW
  | chain u => simp [stepW, absStep, hW]
  | restart => simp only [stepW, absStep]; exact ⟨trivial, trivial, trivial, wok_restart sch s.r s.m hW⟩
  | loadPriv => simp only [stepW, absStep]; exact ⟨trivial, trivial, trivial, wok_hasPriv sch s.r s.m true hW⟩
  | clearPriv => simp only [stepW, absStep]; exact ⟨trivial, trivial, trivial, wok_hasPriv sch s.r s.m false hW⟩

/-- SIMULATION: the outputs of any run of the model from a well-formed state are the outputs of the
    abstract machine, the final child number / usage predicate agree, and the state stays well-formed -/
theorem runW_sim (sch : Curve Priv Pub Addr) (gap : Nat) (evs : List (Ev Addr)) :
    ∀ (s : WSt Priv Pub Addr), WOK sch s.r s.m →
      (runW sch.toScheme gap s evs).2 = (absRun (extAddr sch.toScheme s.r) gap (s.r.exNum, s.used) evs).2 ∧
      (absRun (extAddr sch.toScheme s.r) gap (s.r.exNum, s.used) evs).1 =
        ((runW sch.toScheme gap s evs).1.r.exNum, (runW sch.toScheme gap s evs).1.used) ∧
      extAddr sch.toScheme (runW sch.toScheme gap s evs).1.r = extAddr sch.toScheme s.r ∧
      WOK sch (runW sch.toScheme gap s evs).1.r (runW sch.toScheme gap s evs).1.m := by
  induction evs with
  | nil => intro s hW; exact ⟨rfl, rfl, rfl, hW⟩
  | cons e es ih =>
    intro s hW
    have h := stepW_sim sch gap s hW e
    simp only [runW, absRun]
    generalize hs : stepW sch.toScheme gap s e = so at h
    obtain ⟨s', o⟩ := so
    generalize ha : absStep (extAddr sch.toScheme s.r) gap (s.r.exNum, s.used) e = ao at h
    obtain ⟨a', o'⟩ := ao
    simp only at h
    obtain ⟨ho, ha', hA, hW'⟩ := h
    have ih' := ih s' hW'
    rw [hA] at ih'
    subst ha'
    subst ho
    obtain ⟨i1, i2, i3, i4⟩ := ih'
    refine ⟨?_, ?_, ?_, i4⟩
    · simp only; rw [i1]
    · simp only; exact i2
    · simp only; rw [i3]

end MW.Lemmas.KsIssue
