/-
  C06 deepening (round 5), part 5: `JTW` along histories whose REMOVAL WINDOWS contain handler steps and crashes at
  non-quiet points; `crash_equiv_tasks_removal_window`.
-/
import MW.Lemmas.Deepen5Crash
import MW.Lemmas.Deepen5Mark
import MW.Lemmas.Deepen5Step
import MW.Lemmas.Deepen5Drain
namespace MW.Lemmas.Deepen5
open MW MW.Model.Ledger MW.Model.Persist MW.Spec.Persist MW.Spec.Chain MW.Spec.Books MW.Lemmas.Ledger
  MW.Lemmas.PersistOp MW.Lemmas.PersistFault MW.Lemmas.PersistCrash MW.Lemmas.Deepen3 MW.Lemmas.Deepen4

-- ------------------------------------------------------------------ outside a removal window `JTW` is `JT`

theorem JT_of_JTW {cfg : Cfg} {G : Block} {x : SysQ} {k : SkelT} (h : JTW cfg G x k)
    (hb : ∀ w, k.busy ≠ some (.rem w)) : JT cfg G x k := by
  obtain ⟨h1, h2, h3, h4⟩ := h
  refine ⟨h1, h2, h3, ?_⟩
  unfold PhaseT at h4
  unfold Deepen4.Phase
  cases hk : k.busy with
  | none => rw [hk] at h4; exact h4
  | some t =>
    cases t with
    | imp w => rw [hk] at h4; exact h4
    | rem w => exact absurd hk (hb w)

theorem JTW_of_JT {cfg : Cfg} {G : Block} {x : SysQ} {k : SkelT} (h : JT cfg G x k)
    (hb : ∀ w, k.busy ≠ some (.rem w)) : JTW cfg G x k := by
  obtain ⟨h1, h2, h3, h4⟩ := h
  refine ⟨h1, h2, h3, ?_⟩
  unfold Deepen4.Phase at h4
  unfold PhaseT
  cases hk : k.busy with
  | none => rw [hk] at h4; exact h4
  | some t =>
    cases t with
    | imp w => rw [hk] at h4; exact h4
    | rem w => exact absurd hk (hb w)

-- ------------------------------------------------------------------ hypotheses on one event

/-- the events covered INSIDE a removal window of `w` in the relaxed state: node events (extensions, reorganisations
    to any branch), HANDLER STEPS, unconfirmed transactions (any), CRASHES AT ANY POINT, iterations of the removal, the
    drain.  Not CreateWallet / NewAddress (round 4 covers them for windows without handler steps: the relaxed state has
    no frame lemma for a growing keystore table). -/
def StepRem (cfg : Cfg) (G : Block) (k : SkelT) (w : Wid) : EvT → Prop
  | .q e => StepOK cfg.st G k.base e ∧ ShortOK cfg k.base e ∧
      (match e with
       | .create _ => False
       | .newAddr _ _ => False
       | _ => True)
  | .removeStep w' => w' = w
  | .removeDrain w' => w' = w
  | _ => False

/-- the hypotheses on one event: outside a removal window round 4's `StepOKT`, inside `StepRem` -/
def StepOKW (cfg : Cfg) (G : Block) (k : SkelT) (ev : EvT) : Prop :=
  match k.busy with
  | none => StepOKT cfg G k ev
  | some (.imp _) => StepOKT cfg G k ev
  | some (.rem w) => StepRem cfg G k w ev

/-- the hypotheses on the STATE inside a removal window of `w` (all of them C08's: its `DomW` and the success of the
    follower's database transactions, which `irun … = some x` contains):
    * handler step: the block handled is on the node's chain (no stale notification); the transaction of the LAST
      queued notification succeeds (a failing one changes nothing);
    * crash: Start succeeds;
    * removal step: the pending-side clause `PendOK` (for every chain the height table describes);
    * drain: `PendOK`, and the worker's loop completes (no iteration fails; totality is proved for round 4's `Mid`
      only) — trivially so when the iterations have already finished the removal. -/
def guardRem (cfg : Cfg) (cr : Bool) (x : SysQ) (k : SkelT) (w : Wid) : EvT → Prop
  | .q .handle => (∀ b, x.queue.head? = some b → k.base.chain[b.height]? = some b) ∧
      (∀ b, x.queue = [b] → ((opBlock (envAt cfg.st k.base.chain) cfg.n b).run none x.P x.V).ok = true)
  | .q .crash => cr = true → (Model.Persist.crash (envAt cfg.st k.base.chain) cfg.n x.P).ok = true
  | .removeStep _ => PendGuard x.P (addrsOf k.base.ks w)
  | .removeDrain _ => PendGuard x.P (addrsOf k.base.ks w) ∧
      (removeDone x.P w = false →
        (removeLoop cfg.limit cfg.n (envAt cfg.st k.base.chain) w (addrsOf k.base.ks w) (x.P.led.credits.length + 1)
          x.P x.V).isSome = true)
  | _ => True

def guardEvW (cfg : Cfg) (cr : Bool) (x : SysQ) (k : SkelT) (ev : EvT) : Prop :=
  match k.busy with
  | none => guardEv cfg x ev
  | some (.imp _) => guardEv cfg x ev
  | some (.rem w) => guardRem cfg cr x k w ev

def RunOKW (cfg : Cfg) (G : Block) : SkelT → List EvT → Prop
  | _, [] => True
  | k, ev :: evs => StepOKW cfg G k ev ∧ RunOKW cfg G (skStepT cfg k ev) evs

def GuardW (cfg : Cfg) (cr : Bool) : SysQ → SkelT → List EvT → Prop
  | _, _, [] => True
  | x, k, ev :: evs => guardEvW cfg cr x k ev ∧ GuardW cfg cr (stepT cfg cr x ev) (skStepT cfg k ev) evs

/-- the state hypotheses of a history, read off the prefixes of the run -/
theorem guardW_of_prefix (cfg : Cfg) (cr : Bool) : ∀ (evs : List EvT) (x : SysQ) (k : SkelT),
    (∀ i ev, evs[i]? = some ev →
      guardEvW cfg cr (runT cfg cr x (evs.take i)) (skRunT cfg k (evs.take i)) ev) → GuardW cfg cr x k evs
  | [], _, _, _ => trivial
  | e :: es, x, k, h =>
    ⟨h 0 e rfl, guardW_of_prefix cfg cr es (stepT cfg cr x e) (skStepT cfg k e) (fun i ev hi => h (i + 1) ev hi)⟩

-- ------------------------------------------------------------------ every event keeps the invariant

theorem JTW_step_out {cfg : Cfg} {G : Block} (E : StaticOK cfg.st G) (hG : G.txs = []) (hb : cfg.batch > 0)
    (hl : cfg.limit > 0) (cr : Bool) {x : SysQ} {k : SkelT} (ev : EvT) (hJ : JTW cfg G x k)
    (hbusy : ∀ w, k.busy ≠ some (.rem w)) (hok : StepOKT cfg G k ev) (hg : guardEv cfg x ev) :
    JTW cfg G (stepT cfg cr x ev) (skStepT cfg k ev) := by
  have hJT := JT_of_JTW hJ hbusy
  cases ev with
  | removeMark w =>
    obtain ⟨hb0, ⟨r, hr, hrne⟩, hoth⟩ := hok
    have hq : (stepT cfg cr x (.removeMark w)).queue = x.queue := rfl
    refine ⟨hJT.short, by rw [hq]; exact hJT.qsuf, credNodup_stepT cfg cr x (.removeMark w) hJT.credN, ?_⟩
    have hph := hJT.phase
    unfold Deepen4.Phase at hph
    rw [hb0] at hph
    have hJQ : JQ cfg.st G x k.base := hph
    unfold PhaseT
    exact Or.inl (JQ_removeMarkW (k := k.base) cr w hJQ (by rw [hr]; rfl)
      (fun r' hr' => by rw [hr] at hr'; cases hr'; exact hrne) hoth hJT.credN hg)
  | q e => exact JTW_of_JT (JT_step E hG hb hl cr (.q e) hJT hok hg) hbusy
  | importStart w r =>
    exact JTW_of_JT (JT_step E hG hb hl cr (.importStart w r) hJT hok hg) (fun w' h => by cases h)
  | importStep w => exact JTW_of_JT (JT_step E hG hb hl cr (.importStep w) hJT hok hg) hbusy
  | removeStep w => exact JTW_of_JT (JT_step E hG hb hl cr (.removeStep w) hJT hok hg) hbusy
  | importDrain w fuel =>
    exact JTW_of_JT (JT_step E hG hb hl cr (.importDrain w fuel) hJT hok hg) (fun w' h => by cases h)
  | removeDrain w =>
    exact JTW_of_JT (JT_step E hG hb hl cr (.removeDrain w) hJT hok hg) (fun w' h => by cases h)

theorem JTW_step_rem {cfg : Cfg} {G : Block} (E : StaticOK cfg.st G) (cr : Bool) {x : SysQ} {k : SkelT} {w : Wid}
    (ev : EvT) (hJ : JTW cfg G x k) (hbusy : k.busy = some (.rem w)) (hok : StepRem cfg G k w ev)
    (hg : guardRem cfg cr x k w ev) :
    JTW cfg G (stepT cfg cr x ev) (skStepT cfg k ev) := by
  obtain ⟨hshort, hqs, hcn, hph⟩ := hJ
  have hcn' := credNodup_stepT cfg cr x ev hcn
  unfold PhaseT at hph
  rw [hbusy] at hph
  have hph' : JRW cfg G x k.base w := hph
  cases ev with
  | q e =>
    obtain ⟨hS, hsh, hwin⟩ := hok
    refine ⟨short_skStep cfg k.base e hshort hsh, qsuf_stepQ cfg.st cfg.n cr x k.queue e hqs, hcn', ?_⟩
    unfold PhaseT
    show match k.busy with
      | none => JQ cfg.st G (stepQ cfg.st cfg.n cr x e) (skStep cfg.st k.base e)
      | some (.imp w) => JI cfg G (stepQ cfg.st cfg.n cr x e) (skStep cfg.st k.base e) w
      | some (.rem w) => JRW cfg G (stepQ cfg.st cfg.n cr x e) (skStep cfg.st k.base e) w
    rw [hbusy]
    show JRW cfg G (stepQ cfg.st cfg.n cr x e) (skStep cfg.st k.base e) w
    cases e with
    | extend b => exact JRW_node E cr (.extend b) (Or.inl ⟨b, rfl⟩) hph' hS
    | reorgTo m bs => exact JRW_node E cr (.reorgTo m bs) (Or.inr ⟨m, bs, rfl⟩) hph' hS
    | handle => exact JRW_handle E cr hph' hg.1 hg.2
    | create w' => exact absurd hwin (by simp)
    | newAddr w' stk => exact absurd hwin (by simp)
    | recvTx tx => exact JRW_recvTx cr tx hph'
    | crash =>
      cases cr with
      | false => exact hph'
      | true => exact (JRW_crash E hph' (hg rfl)).1
  | importStart w' r => exact absurd hok (by simp [StepRem])
  | importStep w' => exact absurd hok (by simp [StepRem])
  | removeMark w' => exact absurd hok (by simp [StepRem])
  | importDrain w' fuel => exact absurd hok (by simp [StepRem])
  | removeStep w' =>
    have hw : w' = w := hok
    subst hw
    have hq := stepT_queue cfg cr x (.removeStep w')
    refine ⟨hshort, by rw [hq]; exact hqs, hcn', ?_⟩
    unfold PhaseT
    show match k.busy with
      | none => JQ cfg.st G (stepT cfg cr x (.removeStep w')) k.base
      | some (.imp w) => JI cfg G (stepT cfg cr x (.removeStep w')) k.base w
      | some (.rem w) => JRW cfg G (stepT cfg cr x (.removeStep w')) k.base w
    rw [hbusy]
    exact JRW_removeStep cr hph' hg
  | removeDrain w' =>
    have hw : w' = w := hok
    subst hw
    have hq := stepT_queue cfg cr x (.removeDrain w')
    refine ⟨hshort, by rw [hq]; exact hqs, hcn', ?_⟩
    unfold PhaseT
    show JQ cfg.st G (stepT cfg cr x (.removeDrain w')) { k.base with ks := AMap.erase k.base.ks w' }
    exact JRW_removeDrain cr hph' hg.1 hg.2

/-- **every event keeps `JTW`** -/
theorem JTW_step {cfg : Cfg} {G : Block} (E : StaticOK cfg.st G) (hG : G.txs = []) (hb : cfg.batch > 0)
    (hl : cfg.limit > 0) (cr : Bool) {x : SysQ} {k : SkelT} (ev : EvT) (hJ : JTW cfg G x k)
    (hok : StepOKW cfg G k ev) (hg : guardEvW cfg cr x k ev) :
    JTW cfg G (stepT cfg cr x ev) (skStepT cfg k ev) := by
  unfold StepOKW at hok
  unfold guardEvW at hg
  cases hk : k.busy with
  | none =>
    rw [hk] at hok hg
    exact JTW_step_out E hG hb hl cr ev hJ (fun w h => by rw [hk] at h; cases h) hok hg
  | some t =>
    cases t with
    | imp w =>
      rw [hk] at hok hg
      exact JTW_step_out E hG hb hl cr ev hJ (fun w' h => by rw [hk] at h; cases h) hok hg
    | rem w =>
      rw [hk] at hok hg
      exact JTW_step_rem E cr ev hJ hk hok hg

theorem JTW_run {cfg : Cfg} {G : Block} (E : StaticOK cfg.st G) (hG : G.txs = []) (hb : cfg.batch > 0)
    (hl : cfg.limit > 0) (cr : Bool) :
    ∀ (evs : List EvT) (x : SysQ) (k : SkelT), JTW cfg G x k → RunOKW cfg G k evs → GuardW cfg cr x k evs →
      JTW cfg G (runT cfg cr x evs) (skRunT cfg k evs) := by
  intro evs
  induction evs with
  | nil => intro x k hJ _ _; exact hJ
  | cons ev evs ih =>
    intro x k hJ hR hg
    rw [runT_cons, skRunT_cons]
    exact ih _ _ (JTW_step E hG hb hl cr ev hJ hR.1 hg.1) hR.2 hg.2

/-- CRASH_EQUIV_TASKS_REMOVAL_WINDOW: `crash_equiv_tasks` for histories whose removal windows contain handler steps
    and crashes at non-quiet points -/
theorem crash_equiv_tasks_removal_window {cfg : Cfg} {G : Block} (E : StaticOK cfg.st G) (hG : G.txs = [])
    (hb : cfg.batch > 0) (hl : cfg.limit > 0) (evs : List EvT) (x0 : SysQ) (k0 : SkelT) (hJ : JTW cfg G x0 k0)
    (hR : RunOKW cfg G k0 evs) (hg1 : GuardW cfg true x0 k0 evs) (hg2 : GuardW cfg false x0 k0 evs)
    (hidle : (skRunT cfg k0 evs).busy = none) (hq : (runT cfg false x0 evs).queue = []) :
    (runT cfg true x0 evs).queue = [] ∧
    (runT cfg true x0 evs).chain = (runT cfg false x0 evs).chain ∧
    (runT cfg true x0 evs).P.ks = (runT cfg false x0 evs).P.ks ∧
    (runT cfg true x0 evs).V.keys = (runT cfg false x0 evs).V.keys ∧
    AMap.Equiv (runT cfg true x0 evs).P.led.credits (runT cfg false x0 evs).P.led.credits ∧
    AMap.Equiv (runT cfg true x0 evs).P.led.unspent (runT cfg false x0 evs).P.led.unspent ∧
    AMap.Equiv (runT cfg true x0 evs).P.led.debits (runT cfg false x0 evs).P.led.debits ∧
    AMap.Equiv (runT cfg true x0 evs).P.led.game (runT cfg false x0 evs).P.led.game ∧
    AMap.Equiv (runT cfg true x0 evs).P.led.txrecs (runT cfg false x0 evs).P.led.txrecs ∧
    AMap.Equiv (runT cfg true x0 evs).P.led.blocks (runT cfg false x0 evs).P.led.blocks ∧
    AMap.Equiv (runT cfg true x0 evs).P.led.sync (runT cfg false x0 evs).P.led.sync ∧
    (runT cfg true x0 evs).P.led.syncedTo = (runT cfg false x0 evs).P.led.syncedTo ∧
    (runT cfg true x0 evs).V.led.best = (runT cfg false x0 evs).V.led.best ∧
    (∀ w ∈ walletsOf (runT cfg false x0 evs).P.ks,
      AMap.get (runT cfg true x0 evs).P.led.balance w = AMap.get (runT cfg false x0 evs).P.led.balance w ∧
      readyB (runT cfg true x0 evs).P.led w = true ∧ readyB (runT cfg false x0 evs).P.led w = true) := by
  have hqC : (runT cfg true x0 evs).queue = [] := by
    have := queue_suffixT cfg evs x0 x0 (List.suffix_refl _)
    rw [hq] at this
    exact List.suffix_nil.1 this
  have h1 := (JTW_run E hG hb hl true evs x0 k0 hJ hR hg1).phase
  have h2 := (JTW_run E hG hb hl false evs x0 k0 hJ hR hg2).phase
  unfold PhaseT at h1 h2
  rw [hidle] at h1 h2
  exact ⟨hqC, quiet_agree h1 h2 hqC hq⟩

end MW.Lemmas.Deepen5
