/-
  Lemmas for the byte-level keystore codecs, part 4: hex, `export`, the struct tags behind `render`, and the
  export → import round trip of the fields an import works from.
-/
import MW.Lemmas.KsCodecDb
namespace MW.KsCodecL
open MW MW.Model.KsCodec
open MW.Gen.KsCodec (keystoreVersionName masterPrivKeyName masterPubKeyName cryptoPrivKeyName cryptoPubKeyName
  cryptoEntropyKeyName entropyEncKeyName accountUsageName coinTypeName remarkName externalBranchPubKeyName
  internalBranchPubKeyName externalChildNumName internalChildNumName jsonKeystore jsonCrypto jsonHdPath exportReads
  exportShape importShape exportCipher exportKDF)

/-! ### hex -/

theorem hexVal_hexDigit : ∀ n, n < 16 → hexVal? (hexDigit n) = some n := by decide

theorem hexDec_hexEnc (bs : Bytes) : hexDec (hexEnc bs) = some bs := by
  induction bs with
  | nil => rfl
  | cons b bs ih =>
    have hb := u8_lt b
    have h1 := hexVal_hexDigit (b.toNat / 16) (by omega)
    have h2 := hexVal_hexDigit (b.toNat % 16) (by omega)
    simp only [hexEnc, hexDec, h1, h2, ih]
    have : b.toNat / 16 * 16 + b.toNat % 16 = b.toNat := by omega
    simp [this]

theorem hexEnc_length (bs : Bytes) : (hexEnc bs).length = 2 * bs.length := by
  induction bs with
  | nil => rfl
  | cons b bs ih => simp [hexEnc, ih]; omega

/-- hex.DecodeString refuses every string of odd length -/
theorem hexDec_odd : ∀ (s : Bytes), s.length % 2 = 1 → hexDec s = none
  | [], h => by simp at h
  | [_], _ => rfl
  | a :: b :: rest, h => by
    have : rest.length % 2 = 1 := by simp at h; omega
    have ih := hexDec_odd rest this
    simp only [hexDec, ih]
    cases hexVal? a <;> cases hexVal? b <;> rfl

/-- what hexDec accepts has twice the length of what it returns -/
theorem hexDec_length : ∀ (s r : Bytes), hexDec s = some r → s.length = 2 * r.length
  | [], r, h => by simp [hexDec] at h; subst h; rfl
  | [_], r, h => by simp [hexDec] at h
  | a :: b :: rest, r, h => by
    simp only [hexDec] at h
    cases ha : hexVal? a <;> cases hb : hexVal? b <;> cases hr : hexDec rest <;> simp [ha, hb, hr] at h
    subst h
    have := hexDec_length rest _ hr
    simp [this]; omega

/-- upper-case digits decode like lower-case ones (an import accepts a file whose hex was re-cased) -/
theorem hexDec_uppercase_example : hexDec (asc "0AfF") = hexDec (asc "0afF") ∧ hexDec (asc "0aff") = some [10, 255] := by decide

/-! ### the struct tags -/

/-- `render` writes exactly the members the Go struct tags declare today: names, order, omitempty -/
def JsonStructure : Prop :=
    renderTags = (jsonKeystore.map (fun f => (f.2.1, f.2.2.1)), jsonCrypto.map (fun f => (f.2.1, f.2.2.1)),
                  jsonHdPath.map (fun f => (f.2.1, f.2.2.1))) ∧
    jsonKeystore.map (fun f => f.2.2.2) = ["string", "cryptoJSON", "hdPath"] ∧
    cryptoSpec.map (fun f => if f.isNat then (if f.max = 255 then "uint8" else "uint32") else "string") = jsonCrypto.map (fun f => f.2.2.2) ∧
    hdSpec.map (fun f => if f.isNat then (if f.max = 4294967295 then "uint32" else "uint8") else "string") = jsonHdPath.map (fun f => f.2.2.2) ∧
    jsonCrypto.map (fun f => f.2.2.2) = ["uint8", "string", "string", "string", "string", "string", "string", "string", "string"] ∧
    jsonHdPath.map (fun f => f.2.2.2) = ["uint32", "uint32", "uint32", "uint32", "uint32"] ∧
    exportReads = ["fetchVersion", "fetchRemark", "fetchEntropy", "fetchAccountUsage", "fetchChildNum",
                   "fetchMasterKeyParams", "fetchCryptoKeys"] ∧
    (exportShape && importShape) = true ∧
    (exportCipher.toList ++ exportKDF.toList).all (fun c => c.toNat < 128) = true

/-- `render` writes exactly the members the Go struct tags declare today: names, order, omitempty -/
theorem render_follows_tags : JsonStructure := by unfold JsonStructure; decide

/-! ### export -/

/-- `export` on a bucket whose counters and parameters are readable -/
theorem exportKs_ok (b : Bucket) (purpose coin usage i e : Nat) (pub : Bytes) (priv : Option Bytes)
    (cpub : Bytes) (cpriv cent : Option Bytes)
    (hu : fetchAccountUsage b = .ok usage) (hc : fetchChildNum b = .ok (i, e))
    (hm : fetchMasterKeyParams b = .ok (pub, priv)) (hk : fetchCryptoKeys b = .ok (cpub, cpriv, cent)) :
    exportKs b purpose coin = .ok
      { remarks := (fetchRemark b).getD [], version := fetchVersion b, cipher := asc exportCipher,
        entropyEnc := hexEnc ((fetchEntropy b).getD []), kdf := asc exportKDF,
        privParams := hexEnc (priv.getD []), cryptoKeyEntropyEnc := hexEnc (cent.getD []),
        purpose := purpose, coin := coin, account := usage, externalChildNum := e, internalChildNum := i } := by
  simp [exportKs, hu, hc, hm, hk, bind, Except.bind, pure, Except.pure]

/-- `export` fails (as an error value) when the account number or a counter is absent, and PANICS when a stored
    counter is shorter than 4 bytes – it never invents a value -/
theorem exportKs_needs_usage (b : Bucket) (p c : Nat) (h : bget b (key accountUsageName) = none) :
    exportKs b p c = .error .db := by
  simp [exportKs, fetchAccountUsage, fetchU32, h, bind, Except.bind]

/-! ### export → import -/

/-- The fields an import works from are exactly the stored bytes and counters of the exporting account:
    the three ciphertext / parameter blobs come back byte for byte through hex, the snacl parameters through
    Marshal / Unmarshal, the counters as stored (external 0 replaced by 1), the remark and the version as stored –
    for the network's coin type, the wallet account (1) and keystore version 0, and refused otherwise. -/
theorem import_of_export (b : Bucket) (purpose coin i e : Nat) (pub pp : Bytes) (params : Params)
    (cpub : Bytes) (cpriv : Option Bytes) (cent : Bytes)
    (hu : fetchAccountUsage b = .ok MW.Gen.Keystore.walletUsage) (hc : fetchChildNum b = .ok (i, e))
    (hm : fetchMasterKeyParams b = .ok (pub, some pp)) (hpp : unmarshal pp = .ok params)
    (hk : fetchCryptoKeys b = .ok (cpub, cpriv, some cent)) (hv : fetchVersion b = 0) :
    ∃ k, exportKs b purpose coin = .ok k ∧
      importView k coin = .ok
        { params := params, cEntEnc := cent, entEnc := (fetchEntropy b).getD [], version := 0,
          remarks := (fetchRemark b).getD [], account := MW.Gen.Keystore.walletUsage,
          externalHint := if e = 0 then 1 else e, internalHint := i } ∧
      (∀ other, other ≠ coin → importView k other = .error .coinType) := by
  refine ⟨_, exportKs_ok b purpose coin _ i e pub (some pp) cpub cpriv (some cent) hu hc hm hk, ?_, ?_⟩
  · simp [importView, importParams, hexDec_hexEnc, hpp, hv]
  · intro other ho
    have : coin ≠ other := fun h => ho h.symm
    simp [importView, importParams, this]

/-- … and the parameters are the marshalled ones: what `initAcctBucket` stored with `masterKeyPriv.Marshal()` -/
theorem import_of_export_marshalled (p : Params) (hp : p.wf = true) :
    ∃ pp, marshal p = some pp ∧ pp ≠ [] ∧ unmarshal pp = .ok p := by
  obtain ⟨pp, h1, h2⟩ := unmarshal_marshal p hp
  refine ⟨pp, h1, ?_, h2⟩
  intro e; have := marshal_length p pp h1; rw [e] at this; simp at this

/-- import refuses a file whose parameter blob is not 88 bytes of hex (wrong length in either layer) -/
theorem import_refuses_bad_params (k : KeystoreJ) (coin : Nat) (hc : k.coin = coin)
    (ha : k.account = MW.Gen.Keystore.walletUsage) (hl : k.privParams.length ≠ 176) :
    (∃ e, importView k coin = .error e) := by
  cases hd : hexDec k.privParams with
  | none => exact ⟨.hex, by simp [importView, importParams, hc, ha, hd]⟩
  | some pp =>
    have h2 := hexDec_length _ _ hd
    have : pp.length ≠ 88 := by omega
    exact ⟨.malformed, by simp [importView, importParams, hc, ha, hd, unmarshal_wrong_length pp this]⟩

end MW.KsCodecL
