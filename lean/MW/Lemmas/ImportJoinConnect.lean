/-
  C07 stage 2 with other wallets in the instance, part 2 — the LIVE FOLLOWER on a joined store.
  While wallet `w` is being restored, `filterBlock` runs with the ready wallets only.  On a store that is the join
  of the ready wallets' books `Br` (whole followed chain) and `w`'s books `Bw` (up to its cursor):
    · `filterTxs` cannot tell the keystore table from its restriction to the other wallets (`filterTxs_sub`: the
      table is only consulted through "owner, and is the owner ready?"), so the library's `filterTxs_block` yields
      the relevance records `Matches` for the ready wallets' view (its hypothesis on the credit bucket only asks
      that the books' credits are IN the store);
    · `applyRelevant` folds `addRelevantMined`, which on a block that is new to the store is the rescan's
      per-transaction step (`add_eq_live`), i.e. `addTx_join` with the ready wallets active and `Bw` passive;
    · `putSyncedTo` as in C01.
  Result (`connectJ`): the `Br` half moves to the books of the longer chain, the `Bw` half stays.
-/
import MW.Lemmas.ImportJoinLive
import MW.Lemmas.ImportJoinScan
import MW.Lemmas.LedgerConnect
import MW.Lemmas.ImportExt
namespace MW.Lemmas.ImportJoin
open MW MW.Model.Ledger MW.Model.Import MW.Spec.Chain MW.Spec.Books MW.Lemmas.Ledger MW.Lemmas.RemoveBooks
open MW.Lemmas.ImportExact

-- ------------------------------------------------------------------ the filter does not see a wallet that is not ready

section
variable {own or : Own} {w : Wid} {ready : List Wid}

theorem own_match_sub (hO : OwnSub own or (fun x => decide (x ≠ w))) (hw : ready.contains w = false) (a : Addr)
    {β : Type} (f : Wid → Bool → β) (d : β) :
    (match AMap.get own a with
      | some (w', ch) => if ready.contains w' then f w' ch else d
      | none => d) =
    (match AMap.get or a with
      | some (w', ch) => if ready.contains w' then f w' ch else d
      | none => d) := by
  rw [hO a]
  cases h : AMap.get own a with
  | none => rfl
  | some x =>
    obtain ⟨w', ch⟩ := x
    by_cases hx : w' = w
    · subst hx
      have hw' : ¬ w' ∈ ready := by
        intro hm; rw [List.contains_iff_mem.2 hm] at hw; cases hw
      simp [Option.filter, hw']
    · simp [Option.filter, hx]

end

theorem filterIn_sub {c : Ctx} {or : Own} {w : Wid} {ready : List Wid}
    (hO : OwnSub c.own or (fun x => decide (x ≠ w))) (hw : ready.contains w = false)
    (s : Store) (mined : Bool) (inBlk : List Tx) (tr : TxRec) (cur : Nat) (i : Inp) :
    filterIn { c with own := or } s mined inBlk ready tr cur i = filterIn c s mined inBlk ready tr cur i := by
  unfold filterIn
  have hp : prevOf { c with own := or } s mined inBlk i.tx = prevOf c s mined inBlk i.tx := rfl
  rw [hp]
  cases prevOf c s mined inBlk i.tx with
  | skip => rfl
  | missing => rfl
  | found pt =>
    simp only
    cases pt.outs[i.idx]? with
    | none => rfl
    | some o =>
      simp only
      by_cases hr : o.cls = .raw
      · simp only [hr, if_true]
      · simp only [hr, if_false]
        exact (own_match_sub hO hw o.addr _ _).symm

theorem filterOut_sub {c : Ctx} {or : Own} {w : Wid} {ready : List Wid}
    (hO : OwnSub c.own or (fun x => decide (x ≠ w))) (hw : ready.contains w = false) (tr : TxRec) (cur : Nat) (o : Out) :
    filterOut { c with own := or } ready tr cur o = filterOut c ready tr cur o := by
  unfold filterOut
  by_cases hr : o.cls = .raw
  · simp only [hr, if_true]
  · simp only [hr, if_false]
    exact (own_match_sub hO hw o.addr _ _).symm

theorem filterTxRel_sub {c : Ctx} {or : Own} {w : Wid} {ready : List Wid}
    (hO : OwnSub c.own or (fun x => decide (x ≠ w))) (hw : ready.contains w = false)
    (s : Store) (tx : Tx) (mined : Bool) (inBlk : List Tx) :
    filterTxRel { c with own := or } s tx mined inBlk ready = filterTxRel c s tx mined inBlk ready := by
  unfold filterTxRel
  have h1 : filterIn { c with own := or } s mined inBlk ready = filterIn c s mined inBlk ready := by
    funext tr cur i; exact filterIn_sub hO hw s mined inBlk tr cur i
  have h2 : filterOut { c with own := or } ready = filterOut c ready := by
    funext tr cur o; exact filterOut_sub hO hw tr cur o
  rw [h1, h2]

theorem filterTxs_sub {c : Ctx} {or : Own} {w : Wid} {ready : List Wid}
    (hO : OwnSub c.own or (fun x => decide (x ≠ w))) (hw : ready.contains w = false)
    (s : Store) (bid : BlkId) (txs : List Tx) :
    ∀ (seen : List Tx) (ti : Nat) (acc : List TxRec),
      filterTxs { c with own := or } s ready bid txs seen ti acc = filterTxs c s ready bid txs seen ti acc := by
  induction txs with
  | nil => intro seen ti acc; rfl
  | cons tx rest ih =>
    intro seen ti acc
    unfold filterTxs
    rw [filterTxRel_sub hO hw]
    cases filterTxRel c s tx true (seen ++ [tx]) ready with
    | error e => rfl
    | ok r =>
      cases r with
      | none => exact ih _ _ _
      | some tr => exact ih _ _ _

-- ------------------------------------------------------------------ the two orientations of a join

theorem orE_comm {α : Type} {a b : Option α} (h : ∀ x y, a = some x → b = some y → x = y) : orE a b = orE b a := by
  cases a with
  | none => cases b <;> rfl
  | some x =>
    cases b with
    | none => rfl
    | some y => rw [h x y rfl rfl]

/-- tx records hold the block-file location of a transaction of `C` -/
def TxLoc (C : List Occ) (B : Book) : Prop :=
  ∀ k loc, B.txrecs k = some loc → ∃ oc ∈ C, k = (oc.t.id, oc.bm) ∧ loc = (oc.bm.hash, oc.ti)

theorem txLoc_bookOf {p : Params} {own : Own} {pre post : List Block} (hV : ChainValid own pre) :
    TxLoc (occs (pre ++ post)) (bookOf p own pre) := by
  intro k loc h
  obtain ⟨P₁, oc, P₂, hsp, _, hk, hloc⟩ := txrec_occ hV h
  refine ⟨oc, ?_, hk, hloc⟩
  rw [occs_append, hsp]; simp

/-- a joined store read with the halves swapped, when the halves are separated both ways -/
theorem agreeJ_symm {own : Own} {kX kY : Wid → Bool} {C : List Occ} {s : Store} {X Y : Book}
    (hk : ∀ w', kY w' = false → kX w' = true)
    (hX : SepP own kX C X) (hY : SepP own kY C Y) (hTX : TxLoc C X) (hTY : TxLoc C Y)
    (h : AgreeJ s X Y) : AgreeJ s Y X := by
  -- a coin of `Y` is an active coin for `kX`
  have hYA : ∀ {u : UCoin}, CreatedIn own C u → kY u.wallet = false → ACoin own kX C u := fun hc hw => ⟨hc, hk _ hw⟩
  constructor
  · intro w' tx idx
    rw [h.unspent, lookupU_append, lookupU_append]
    congr 2
    apply orE_comm
    intro x y hx hy
    exfalso
    obtain ⟨hmy, hty, hiy⟩ := lookupU_some hy
    obtain ⟨hcy, hwy⟩ := hY.L y hmy
    have := sepP_L hX (hYA hcy hwy)
    rw [hty, hiy, hx] at this; cases this
  · intro k
    rw [h.credits]
    apply orE_comm
    intro x y hx hy
    exfalso
    obtain ⟨u, hcu, hwu, hck⟩ := hY.cred _ _ hy
    have := sepP_cred hX (hYA hcu hwu)
    rw [← hck, hx] at this; cases this
  · intro k
    rw [h.debits]
    apply orE_comm
    intro x y hx hy
    exfalso
    obtain ⟨u, hcu, hwu, hsp⟩ := hY.debit _ _ hy
    have := sepP_debit hX (hYA hcu hwu) hsp
    rw [hx] at this; cases this
  · intro k
    rw [h.game]
    apply orE_comm
    intro x y hx hy
    exfalso
    have h1 := hY.game k (by rw [hy])
    have := sepP_game hX k (hk _ h1)
    rw [hx] at this; cases this
  · intro k
    rw [h.txrecs]
    apply orE_comm
    intro x y hx hy
    obtain ⟨oc, hoc, hk1, hl1⟩ := hTX k x hx
    obtain ⟨oc', hoc', hk2, hl2⟩ := hTY k y hy
    have : oc = oc' := occ_eq_of_id hX.nodup hoc hoc' (by
      have := hk1.symm.trans hk2
      exact congrArg Prod.fst this)
    rw [hl1, hl2, this]

-- ------------------------------------------------------------------ the apply phase on a joined store

theorem noW_spendOne {w : Wid} {tr : TxRec} {blk : BlockMeta} {sb sb' : Store × Bals} {rel : Rel}
    (hq : AMap.get sb.2 w = none) (hr : rel.wallet ≠ w) (h : spendOne tr blk sb rel = .ok sb') :
    AMap.get sb'.2 w = none := by
  unfold spendOne at h
  repeat' split at h
  all_goals cases h
  show AMap.get (AMap.put sb.2 rel.wallet _) w = none
  rw [AMap.get_put, if_neg hr]; exact hq

theorem noW_creditOne {w : Wid} {p : Params} {tr : TxRec} {blk : BlockMeta} {sb sb' : Store × Bals} {rel : Rel}
    (hq : AMap.get sb.2 w = none) (hr : rel.wallet ≠ w) (h : creditOne p tr blk sb rel = .ok sb') :
    AMap.get sb'.2 w = none := by
  unfold creditOne at h
  split at h
  · cases h
  · have := Except.ok.inj h; subst this
    show AMap.get (AMap.put sb.2 rel.wallet _) w = none
    rw [AMap.get_put, if_neg hr]; exact hq

/-- the working balances never get an entry for the wallet that is not booked; the unspent index stays well-formed -/
theorem noW_addImp {w : Wid} {p : Params} {own : Own} {s s1 : Store} {bals : Bals} {tr : TxRec} {blk : BlockMeta}
    {sb' : Store × Bals} (hrec : recordForImporting s tr blk = .ok s1) (hun : s1.unspent = s.unspent)
    (h : addRelevantTxForImporting p own s bals tr blk = .ok sb')
    (hq : AMap.get bals w = none)
    (hin : ∀ r ∈ tr.relIn, r.wallet ≠ w) (hout : ∀ r ∈ tr.relOut, r.wallet ≠ w) :
    AMap.get sb'.2 w = none ∧ (KeysNodup s.unspent → KeysNodup sb'.1.unspent) := by
  unfold addRelevantTxForImporting insertMinedTxForImporting at h
  rw [hrec] at h
  simp only [bind, Except.bind] at h
  cases hum : updateMinedBalance s1 bals tr blk with
  | error e => rw [hum] at h; cases h
  | ok sb1 =>
    rw [hum] at h
    simp only at h
    have hq1 : AMap.get sb1.2 w = none := by
      unfold updateMinedBalance at hum
      exact foldlM_preserves (fun (x : Store × Bals) => AMap.get x.2 w = none) (spendOne tr blk) tr.relIn
        (fun _ a _ ha hb hf => noW_spendOne hb (hin a ha) hf) (b := (s1, bals)) hq hum
    have hu2 : KeysNodup s.unspent → KeysNodup (removeDoubleSpends own (unpendMined sb1.1 tr.tx) tr).unspent := by
      intro hu
      rw [(minedEq_removeDoubleSpends own _ tr).unspent, (minedEq_unpendMined _ tr.tx).unspent]
      exact wf_updateMinedBalance (s := s1) (by rw [hun]; exact hu) hum
    cases hac : addCredits p (removeDoubleSpends own (unpendMined sb1.1 tr.tx) tr) sb1.2 tr blk with
    | error e => rw [hac] at h; cases h
    | ok r =>
      rw [hac] at h
      have : r = sb' := by
        simp only [pure, Except.pure] at h
        exact Except.ok.inj h
      subst this
      refine ⟨?_, fun hu => wf_addCredits (hu2 hu) hac⟩
      unfold addCredits at hac
      split at hac
      · have := Except.ok.inj hac; subst this; exact hq1
      · obtain ⟨sb2, h3, h4⟩ := M_bind_ok hac
        have := Except.ok.inj h4; subst this
        show AMap.get sb2.2 w = none
        exact foldlM_preserves (fun (x : Store × Bals) => AMap.get x.2 w = none) (creditOne p tr blk) tr.relOut
          (fun _ a _ ha hb hf => noW_creditOne hb (hout a ha) hf)
          (b := (removeDoubleSpends own (unpendMined sb1.1 tr.tx) tr, sb1.2)) hq1 h3

/-- **the apply phase of `filterBlock` on a joined store**: `addRelevantMined` over the relevance records of the
    ready wallets' view moves the ready wallets' half along the block; the restored wallet's half `Bw` stays -/
theorem applyPhaseJ {c : Ctx} {w : Wid} (hKN : KeysNodup c.own) (hC : ChainOK c) {h : Nat} {b : Block}
    (hb : c.node.chain[h]? = some b) {ready : List Wid} (hARa : AllReady (ownR c.own w) ready)
    (hrk : ∀ w', ready.contains w' = true → w' ≠ w)
    {Bw : Book} (hSw : SepP c.own (fun x => decide (x ≠ w)) (occs c.node.chain) Bw)
    (hLw : Loc c.p (ownW c.own w) Bw) (hGw : LocG Bw) :
    ∀ (post : List Tx) (k : Nat) (P rest : List Occ) (A : Book) (recs : List TxRec) (s : Store) (bals : Bals),
      occs c.node.chain = P ++ (occsFrom ⟨h, b.id⟩ post k ++ rest) →
      (∀ m t, post[m]? = some t → b.txs[k + m]? = some t) →
      Matches c.p (ownR c.own w) A (occsFrom ⟨h, b.id⟩ post k) recs →
      Glob (ownR c.own w) P A → ValidFrom (ownR c.own w) P (occsFrom ⟨h, b.id⟩ post k) →
      AgreeJ s Bw A → AgreeBal ready bals A → Loc c.p (ownR c.own w) A → LocG A →
      BlocksOK c.node.chain s → TxPos (occs c.node.chain) s →
      (∀ id loc, AMap.get s.txrecs (id, (⟨h, b.id⟩ : BlockMeta)) = some loc → loc.2 < k) →
      AMap.get bals w = none →
      ∃ sb', recs.foldlM (fun sb tr => addRelevantMined c.p c.own sb.1 sb.2 tr ⟨h, b.id⟩) (s, bals) = .ok sb' ∧
        AgreeJ sb'.1 Bw ((occsFrom ⟨h, b.id⟩ post k).foldl (applyOcc c.p (ownR c.own w)) A) ∧
        AgreeBal ready sb'.2 ((occsFrom ⟨h, b.id⟩ post k).foldl (applyOcc c.p (ownR c.own w)) A) ∧
        SameSync s sb'.1 ∧ BlocksOK c.node.chain sb'.1 ∧ TxPos (occs c.node.chain) sb'.1 ∧
        AMap.get sb'.2 w = none ∧ (KeysNodup s.unspent → KeysNodup sb'.1.unspent) := by
  have hOw := ownW_sub hKN w
  have hOr := ownR_sub hKN w
  have hn : (idsOf (occs c.node.chain)).Nodup := (glob_bookOf (p := c.p) hC.valid).idsNodup
  have hrk' : ∀ w', ready.contains w' = true → (fun x => decide (x ≠ w)) w' = true := by
    intro w' hw'; simpa using hrk w' hw'
  intro post
  induction post with
  | nil =>
    intro k P rest A recs s bals _ _ hM _ _ hA hB _ _ hBO hTP _ hQ
    unfold occsFrom Matches at hM
    subst hM
    exact ⟨(s, bals), rfl, hA, hB, SameSync.refl s, hBO, hTP, hQ, fun hU => hU⟩
  | cons tx post ih =>
    intro k P rest A recs s bals hsplit hpos hM hGl hV hA hB hL hG hBO hTP hlt hQ
    have hocc : occsFrom ⟨h, b.id⟩ (tx :: post) k = ⟨⟨h, b.id⟩, k, tx⟩ :: occsFrom ⟨h, b.id⟩ post (k + 1) := rfl
    rw [hocc] at hV hM hsplit ⊢
    obtain ⟨hV1, hV2⟩ := hV
    have hsplit' : occs c.node.chain = (P ++ [⟨⟨h, b.id⟩, k, tx⟩]) ++ (occsFrom ⟨h, b.id⟩ post (k + 1) ++ rest) := by
      rw [hsplit]; simp
    have hpos' : ∀ m t, post[m]? = some t → b.txs[k + 1 + m]? = some t := by
      intro m t hm
      have := hpos (m + 1) t (by simpa using hm)
      rw [show k + 1 + m = k + (m + 1) by omega]; exact this
    have hGl' := glob_step (p := c.p) hGl hV1
    obtain ⟨hL', hG'⟩ := loc_step hL hG hGl hV1
    rw [List.foldl_cons]
    unfold Matches at hM
    by_cases ht : Spec.Books.touches (ownR c.own w) A tx = true
    · have ht2 : Spec.Books.touches (ownR c.own w) A (Occ.mk ⟨h, b.id⟩ k tx).t = true := ht
      simp only [ht2, if_true] at hM
      obtain ⟨tr, recs', hrecs, ⟨h1, h2, h3, h4⟩, hM'⟩ := hM
      have hk : b.txs[k]? = some tx := by simpa using hpos 0 tx rfl
      have hocC := occ_mem_of_get hC.heights hb hk
      obtain ⟨s1, hrec, hRO, hBO1, hTP1, hrtx⟩ :=
        record_join hC.heights hn hb hk (s := s) (tr := tr) h1 h2 hBO hTP
      obtain ⟨sb1, himp, hA1, hB1, hS1, hT1, hK1⟩ :=
        addTx_join (p := c.p) (own := c.own) (oa := ownR c.own w) (op := ownW c.own w) (ready := ready)
          hOr hOw hARa hrk' (C := occs c.node.chain) (P := P)
          (rest := occsFrom ⟨h, b.id⟩ post (k + 1) ++ rest) (oc := ⟨⟨h, b.id⟩, k, tx⟩) hsplit hSw hLw hGw
          (s := s) (s1 := s1) (bals := bals) (tr := tr) hGl hV1 hL hG hA hB h1 h3 h4 ht hrec hRO hrtx
      -- on a block that is new to the store the live step is the rescan's step
      have hnoRec : AMap.get s.txrecs (tx.id, (⟨h, b.id⟩ : BlockMeta)) = none := by
        cases hg : AMap.get s.txrecs (tx.id, (⟨h, b.id⟩ : BlockMeta)) with
        | none => rfl
        | some loc =>
          exfalso
          have hl := hlt tx.id loc hg
          obtain ⟨oc', hoc', hkey, hloc'⟩ := hTP _ _ hg
          have he : oc' = ⟨⟨h, b.id⟩, k, tx⟩ := occ_eq_of_id hn hoc' hocC (by
            have := congrArg Prod.fst hkey
            exact this.symm)
          rw [hloc', he] at hl
          simp at hl
      have hFA : ImportLive.FreshAt s tr ⟨h, b.id⟩ := by
        constructor
        · rw [h1]; exact hnoRec
        · intro hh txs hbl
          have hv := hBO h
          rw [hbl] at hv
          unfold blockRecOf at hv
          rw [hb] at hv
          simp only at hv
          have hhe : hh = b.id := by
            cases hl : recIdsP (hasRec s) (occsOfBlock b) with
            | nil => rw [hl] at hv; cases hv
            | cons a l =>
              rw [hl] at hv
              simp only [Option.some.injEq, Prod.mk.injEq] at hv
              exact hv.1
          refine ⟨hhe, ?_⟩
          intro t _ loc hl
          rw [hhe] at hl
          have := hlt t loc hl
          rw [h2]
          show loc.2 ≤ k
          omega
      have hlive := ImportLive.add_eq_live c.p c.own s bals tr ⟨h, b.id⟩ hFA
      have himp' : addRelevantTxForImporting c.p c.own s bals tr ⟨h, b.id⟩ = .ok sb1 := himp
      rw [himp'] at hlive
      have hmined : addRelevantMined c.p c.own s bals tr ⟨h, b.id⟩ = .ok sb1 := by
        cases hx : addRelevantMined c.p c.own s bals tr ⟨h, b.id⟩ with
        | error e => rw [hx] at hlive; simp [Except.toOption] at hlive
        | ok v => rw [hx] at hlive; simp only [Except.toOption, Option.some.injEq] at hlive; rw [hlive]
      have hwf := noW_addImp (w := w) hrec hRO.unspent himp' hQ
        (by
          intro r0 hr0
          have hr1 : r0 ∈ (if tx.cb = true then [] else hitsFrom A.L tx.ins 0) := by rw [← h3]; exact hr0
          by_cases hcb : tx.cb = true
          · simp [hcb] at hr1
          · simp only [hcb, Bool.false_eq_true, if_false] at hr1
            obtain ⟨u, hu, hw⟩ := hits_wallet hr1
            have := ((ownerOf_sub_some hOr).1 (hL.own u hu)).2
            rw [hw]; simpa using this)
        (by
          intro r0 hr0
          have hr1 : r0 ∈ ownedFrom (ownR c.own w) tx.outs 0 := by rw [← h4]; exact hr0
          obtain ⟨o, ch, ho⟩ := owned_wallet hr1
          have := ((ownerOf_sub_some hOr).1 ho).2
          simpa using this)
      have hlt' : ∀ id loc, AMap.get sb1.1.txrecs (id, (⟨h, b.id⟩ : BlockMeta)) = some loc → loc.2 < k + 1 := by
        intro id loc hl
        rw [hT1, hrtx] at hl
        by_cases hkk : (tx.id, (⟨h, b.id⟩ : BlockMeta)) = (id, ⟨h, b.id⟩)
        · rw [if_pos hkk, ← hkk, hnoRec] at hl
          simp only [orE_none, Option.some.injEq] at hl
          rw [← hl]; exact Nat.lt_succ_self k
        · rw [if_neg hkk] at hl
          exact Nat.lt_succ_of_lt (hlt id loc hl)
      obtain ⟨sb2, hs2, hA2, hB2, hS2, hBO2, hTP2, hQ2, hU2⟩ :=
        ih (k + 1) _ rest _ recs' sb1.1 sb1.2 hsplit' hpos' hM' hGl' hV2 hA1 hB1 hL' hG'
          (blocksOK_congr hBO1 hT1 hK1) (txPos_congr hTP1 hT1) hlt' hwf.1
      refine ⟨sb2, ?_, hA2, hB2, hS1.trans hS2, hBO2, hTP2, hQ2, fun hU => hU2 (hwf.2 hU)⟩
      rw [hrecs, List.foldlM_cons, hmined]
      exact hs2
    · have ht' : Spec.Books.touches (ownR c.own w) A tx = false := by simpa using ht
      have ht2 : ¬ Spec.Books.touches (ownR c.own w) A (Occ.mk ⟨h, b.id⟩ k tx).t = true := ht
      simp only [ht2] at hM
      have hun : applyOcc c.p (ownR c.own w) A ⟨⟨h, b.id⟩, k, tx⟩ = A := applyOcc_untouched ht'
      rw [hun] at hM hGl' hL' hG' ⊢
      exact ih (k + 1) _ rest _ recs s bals hsplit' hpos' hM hGl' hV2 hA hB hL' hG' hBO hTP
        (fun id loc hl => Nat.lt_succ_of_lt (hlt id loc hl)) hQ

-- ------------------------------------------------------------------ a tip extension while `w` is being restored

theorem blocksOK_snoc {chain : List Block} {b : Block} {s : Store} (hH : HeightsOK (chain ++ [b]))
    (hBO : BlocksOK chain s) (hTP : TxPos (occs chain) s) : BlocksOK (chain ++ [b]) s := by
  have hbh : b.height = chain.length := by
    apply hH; simp
  have hlt : ∀ b' ∈ chain, b'.height < chain.length := heightsOK_lt hH
  intro h'
  rw [hBO h']
  unfold blockRecOf
  rcases Nat.lt_trichotomy h' chain.length with hl | hl | hl
  · rw [List.getElem?_append_left hl]
  · subst hl
    have h1 : chain[chain.length]? = none := List.getElem?_eq_none (Nat.le_refl _)
    have h2 : (chain ++ [b])[chain.length]? = some b := by simp
    rw [h1, h2]
    simp only
    have : recIdsP (hasRec s) (occsOfBlock b) = [] := by
      unfold recIdsP
      rw [List.filterMap_eq_nil_iff]
      intro oc hoc
      have hbm : oc.bm = ⟨b.height, b.id⟩ := mem_occsFrom_bm hoc
      cases hr : hasRec s (oc.t.id, oc.bm) with
      | false => simp
      | true =>
        exfalso
        unfold hasRec at hr
        obtain ⟨loc, hl⟩ := Option.isSome_iff_exists.1 hr
        obtain ⟨oc', hoc', hkey, _⟩ := hTP _ _ hl
        obtain ⟨b', hb', hbm'⟩ := mem_occs_height hoc'
        have h3 : oc.bm = oc'.bm := congrArg Prod.snd hkey
        rw [hbm, hbm'] at h3
        have := hlt b' hb'
        injection h3 with h4 _
        omega
    rw [this]
  · have h1 : chain[h']? = none := List.getElem?_eq_none (by omega)
    have h2 : (chain ++ [b])[h']? = none := List.getElem?_eq_none (by simp; omega)
    rw [h1, h2]

theorem txPos_mono {C C' : List Occ} {s : Store} (h : TxPos C s) (hsub : ∀ oc ∈ C, oc ∈ C') : TxPos C' s := by
  intro k loc hl
  obtain ⟨oc, hoc, h1, h2⟩ := h k loc hl
  exact ⟨oc, hsub oc hoc, h1, h2⟩

/-- **a tip extension while `w` is being restored and other wallets are followed live** keeps the joined scan
    invariant at the same cursor: the live follower books the new block for the ready wallets; `w`'s half stays "up to
    the cursor". -/
theorem extend_scanJ {c : Ctx} {w : Wid} {s : Store} {v : Vol} {b : Block} {k : Nat} {ws : WStatus}
    (hKN : KeysNodup c.own) (hC : ChainOK (extCtx c b)) (hS : ScanJ c w s k)
    (hst : AMap.get s.status w = some ws) (hk : ws.synced = some k) (hlen : k + 1 ≤ c.node.chain.length)
    (hAR : AllReady (ownR c.own w) (readyWallets s c.wallets)) (hne : (readyWallets s c.wallets).isEmpty = false)
    (hprev : b.prev = v.best.hash) :
    ∃ s' v', processBlock (extCtx c b) s v b = (s', v', true) ∧ v'.best = ⟨b.height, b.id⟩ ∧
      ScanJ (extCtx c b) w s' k ∧ s'.status = s.status ∧ (KeysNodup s.unspent → KeysNodup s'.unspent) := by
  have hOw := ownW_sub hKN w
  have hOr := ownR_sub hKN w
  have hbh : b.height = c.node.chain.length := extCtx_heights hC
  have hV' : ChainValid c.own (c.node.chain ++ [b]) := hC.valid
  have hH' : HeightsOK (c.node.chain ++ [b]) := hC.heights
  have hVr' : ChainValid (ownR c.own w) (c.node.chain ++ [b]) := chainValid_sub hOr hV'
  have hVr : ChainValid (ownR c.own w) c.node.chain := chainValid_prefix hVr'
  have hlen0 : 0 < c.node.chain.length := by omega
  -- `w` is not ready
  have hnr : (readyWallets s c.wallets).contains w = false := by
    cases hc : (readyWallets s c.wallets).contains w with
    | false => rfl
    | true =>
      have := ((ready_contains_iff s c.wallets w).1 hc).2
      rw [hst] at this
      simp [hk] at this
  have hrk : ∀ w', (readyWallets s c.wallets).contains w' = true → w' ≠ w := by
    intro w' hw' he; rw [he, hnr] at hw'; cases hw'
  -- the two halves, separated both ways (relative to the longer chain)
  have hsplitk : c.node.chain ++ [b] = c.node.chain.take (k + 1) ++ (c.node.chain.drop (k + 1) ++ [b]) := by
    rw [← List.append_assoc, List.take_append_drop]
  have hSr : SepP c.own (fun x => decide (x = w)) (occs (c.node.chain ++ [b])) (bookOf c.p (ownR c.own w) c.node.chain) :=
    sepP_bookOf hOr (by intro w' hw'; simpa using hw') hV'
  have hSw : SepP c.own (fun x => decide (x ≠ w)) (occs (c.node.chain ++ [b]))
      (bookOf c.p (ownW c.own w) (c.node.chain.take (k + 1))) := by
    have := sepP_bookOf (p := c.p) (keepA := fun x => decide (x ≠ w)) hOw (by intro w' hw'; simpa using hw')
      (pre := c.node.chain.take (k + 1)) (post := c.node.chain.drop (k + 1) ++ [b]) (by rw [← hsplitk]; exact hV')
    rw [← hsplitk] at this; exact this
  have hVwk : ChainValid (ownW c.own w) (c.node.chain.take (k + 1)) := by
    apply chainValid_sub hOw
    exact chainValid_prefix (b := c.node.chain.drop (k + 1) ++ [b]) (by rw [← hsplitk]; exact hV')
  have hTr : TxLoc (occs (c.node.chain ++ [b])) (bookOf c.p (ownR c.own w) c.node.chain) := txLoc_bookOf hVr
  have hTw : TxLoc (occs (c.node.chain ++ [b])) (bookOf c.p (ownW c.own w) (c.node.chain.take (k + 1))) := by
    have := txLoc_bookOf (p := c.p) (post := c.node.chain.drop (k + 1) ++ [b]) hVwk
    rw [← hsplitk] at this; exact this
  have hA0 : AgreeJ s (bookOf c.p (ownW c.own w) (c.node.chain.take (k + 1))) (bookOf c.p (ownR c.own w) c.node.chain) :=
    agreeJ_symm (kX := fun x => decide (x = w)) (kY := fun x => decide (x ≠ w))
      (by intro w' hw'; simpa using hw') hSr hSw hTr hTw hS.agree
  obtain ⟨hLw, hGw⟩ := loc_bookOf (p := c.p) hVwk
  obtain ⟨hLr, hGr⟩ := loc_bookOf (p := c.p) hVr
  -- filter phase
  have F : FilterCtx { extCtx c b with own := ownR c.own w } s (readyWallets s c.wallets) c.node.chain [] b
      (bookOf c.p (ownR c.own w) c.node.chain) :=
    ⟨rfl, hVr', hAR, glob_bookOf (p := c.p) hVr, by
      intro key hkey
      rw [hS.agree.credits]
      cases hc : (bookOf c.p (ownR c.own w) c.node.chain).credits key with
      | none => rw [hc] at hkey; cases hkey
      | some x => rfl⟩
  obtain ⟨recs, hf0, hM⟩ := filterTxs_block F F.valid_block
  have hf : filterTxs (extCtx c b) s (readyWallets s c.wallets) b.id b.txs [] 0 [] = .ok recs := by
    rw [← filterTxs_sub (c := extCtx c b) (or := ownR c.own w) (w := w) hOr hnr]; exact hf0
  -- apply phase
  have hb : (extCtx c b).node.chain[c.node.chain.length]? = some b := by
    show (c.node.chain ++ [b])[c.node.chain.length]? = some b
    simp
  have hoccs : occs (extCtx c b).node.chain =
      occs c.node.chain ++ (occsFrom ⟨c.node.chain.length, b.id⟩ b.txs 0 ++ []) := by
    show occs (c.node.chain ++ [b]) = _
    rw [occs_append, List.append_nil]
    congr 1
    unfold occs occsOfBlock
    simp [hbh]
  have hMat : Matches c.p (ownR c.own w) (bookOf c.p (ownR c.own w) c.node.chain)
      (occsFrom ⟨c.node.chain.length, b.id⟩ b.txs 0) recs := by
    have := hM
    unfold occsOfBlock at this
    rw [hbh] at this
    exact this
  have hVb : ValidFrom (ownR c.own w) (occs c.node.chain) (occsFrom ⟨c.node.chain.length, b.id⟩ b.txs 0) := by
    have := F.valid_block
    unfold occsOfBlock at this
    rw [hbh] at this
    exact this
  have hB0 : AgreeBal (readyWallets s c.wallets)
      (s.balance.filter (fun e => (readyWallets s c.wallets).contains e.1)) (bookOf c.p (ownR c.own w) c.node.chain) := by
    intro w' hw'
    rw [get_filter_key s.balance (fun k => (readyWallets s c.wallets).contains k) w']
    simp only [hw', if_true]
    exact hS.balR w' (hrk w' hw') hw'
  have hnone0 : ∀ id loc, AMap.get s.txrecs (id, (⟨c.node.chain.length, b.id⟩ : BlockMeta)) = some loc → loc.2 < 0 := by
    intro id loc hl
    exfalso
    obtain ⟨oc', hoc', hkey, _⟩ := hS.txpos _ _ hl
    obtain ⟨b', hb', hbm'⟩ := mem_occs_height hoc'
    have h3 : (⟨c.node.chain.length, b.id⟩ : BlockMeta) = oc'.bm := congrArg Prod.snd hkey
    rw [hbm'] at h3
    have := heightsOK_lt hH' b' hb'
    injection h3 with h4 _
    omega
  have hTP' : TxPos (occs (extCtx c b).node.chain) s :=
    txPos_mono hS.txpos (by
      intro oc hoc
      show oc ∈ occs (c.node.chain ++ [b])
      rw [occs_append]; exact List.mem_append_left _ hoc)
  obtain ⟨sb, hs, hA1, hB1, hSS, hBO1, hTP1, hQ1, hU1⟩ :=
    applyPhaseJ (c := extCtx c b) (w := w) hKN hC hb (ready := readyWallets s c.wallets) hAR hrk hSw hLw hGw
      b.txs 0 (occs c.node.chain) [] (bookOf c.p (ownR c.own w) c.node.chain) recs s
      (s.balance.filter (fun e => (readyWallets s c.wallets).contains e.1))
      hoccs (by intro m t hm; simpa using hm) hMat (glob_bookOf (p := c.p) hVr) hVb hA0 hB0 hLr hGr
      (blocksOK_snoc hH' hS.blocks hS.txpos) hTP' hnone0
      (by rw [get_filter_key s.balance (fun k => (readyWallets s c.wallets).contains k) w, hnr]; rfl)
  -- the books of the longer chain
  have hbook : (occsFrom ⟨c.node.chain.length, b.id⟩ b.txs 0).foldl (applyOcc c.p (ownR c.own w))
      (bookOf c.p (ownR c.own w) c.node.chain) = bookOf c.p (ownR c.own w) (c.node.chain ++ [b]) := by
    rw [bookOf_snoc]
    unfold occsOfBlock
    rw [hbh]
  have hA1' : AgreeJ sb.1 (bookOf c.p (ownW c.own w) (c.node.chain.take (k + 1)))
      (bookOf c.p (ownR c.own w) (c.node.chain ++ [b])) := by rw [← hbook]; exact hA1
  have hB1' : AgreeBal (readyWallets s c.wallets) sb.2 (bookOf c.p (ownR c.own w) (c.node.chain ++ [b])) := by
    rw [← hbook]; exact hB1
  -- the store after onRelevantBlockConnected
  let s1 : Store := if recs.isEmpty then s else { sb.1 with balance := mergeBalances sb.2 sb.1.balance }
  have h1 : applyRelevant (extCtx c b) s (readyWallets s c.wallets) ⟨b.height, b.id⟩ recs = .ok s1 := by
    unfold applyRelevant
    by_cases he : recs.isEmpty = true
    · simp [s1, he]
    · simp only [he, Bool.false_eq_true, if_false, s1]
      rw [hbh]
      show (do
        let x ← recs.foldlM (fun sb tr => addRelevantMined (extCtx c b).p (extCtx c b).own sb.1 sb.2 tr ⟨c.node.chain.length, b.id⟩)
          (s, s.balance.filter (fun e => (readyWallets s c.wallets).contains e.1))
        pure { x.1 with balance := mergeBalances x.2 x.1.balance }) = _
      rw [hs]; rfl
  have hsbnil : recs.isEmpty = true → sb = (s, s.balance.filter (fun e => (readyWallets s c.wallets).contains e.1)) := by
    intro he
    have : recs = [] := List.isEmpty_iff.1 he
    subst this
    simp only [List.foldlM_nil] at hs
    injection hs with h; exact h.symm
  have hmined1 : s1.unspent = sb.1.unspent ∧ s1.credits = sb.1.credits ∧ s1.debits = sb.1.debits ∧ s1.game = sb.1.game ∧
      s1.txrecs = sb.1.txrecs ∧ s1.blocks = sb.1.blocks ∧ s1.status = s.status ∧ s1.sync = s.sync ∧
      s1.syncedTo = s.syncedTo := by
    by_cases he : recs.isEmpty = true
    · have := hsbnil he
      simp only [s1, he, if_true]
      rw [this]
      refine ⟨?_, ?_, ?_, ?_, ?_, ?_, ?_, ?_, ?_⟩ <;> first | rfl | trivial
    · simp only [he, Bool.false_eq_true, if_false, s1]
      refine ⟨?_, ?_, ?_, ?_, ?_, ?_, ?_, ?_, ?_⟩ <;>
        first | rfl | trivial | exact hSS.status | exact hSS.sync | exact hSS.syncedTo
  have hbalR1 : ∀ w', (readyWallets s c.wallets).contains w' = true →
      AMap.get s1.balance w' = some (totalU (bookOf c.p (ownR c.own w) (c.node.chain ++ [b])).L w') := by
    intro w' hw'
    by_cases he : recs.isEmpty = true
    · have hsb := hsbnil he
      simp only [s1, he, if_true]
      have h2 := hB1' w' hw'
      rw [hsb] at h2
      have h3 := hB0 w' hw'
      rw [h3] at h2
      rw [hS.balR w' (hrk w' hw') hw']
      exact h2
    · simp only [he, Bool.false_eq_true, if_false, s1]
      rw [get_mergeBalances, hB1' w' hw']
  have hbalw1 : AMap.get s1.balance w = AMap.get s.balance w := by
    by_cases he : recs.isEmpty = true
    · simp only [s1, he, if_true]
    · simp only [he, Bool.false_eq_true, if_false, s1]
      rw [get_mergeBalances, hQ1, hSS.balance]
  -- the conflict purge through the irrelevant transactions only touches pending buckets
  have hM1 : MinedEq s1 (purgeUnrelated (extCtx c b).own s1 (unrelatedTxs b.txs recs)) := minedEq_purgeUnrelated _ _ _
  obtain ⟨s2, hp, hsync2, hst2, hs2eq⟩ := putSyncedTo_snoc
    (s := purgeUnrelated (extCtx c b).own s1 (unrelatedTxs b.txs recs)) (chain := c.node.chain) (b := b)
    (by intro h; rw [hM1.sync, hmined1.2.2.2.2.2.2.2.1]; exact hS.sync h) hlen0 hbh
  have hfb : filterBlock (extCtx c b) s (readyWallets s c.wallets) b = .ok (s2, recs.map (·.tx.id)) := by
    unfold filterBlock
    have hblk : (extCtx c b).node.blockAt b.height = some b := by
      unfold Node.blockAt
      rw [hbh]; exact hb
    simp only [hblk, ne_eq, not_true_eq_false, if_false, hne, Bool.false_eq_true]
    rw [hf]
    simp only [M_ok_bind]
    rw [h1]
    simp only [M_ok_bind]
    rw [hp]; rfl
  have hpm : processM (extCtx c b) s v b = .ok (s2, [], [(b.height, recs.map (·.tx.id))]) := by
    unfold processM
    simp only [hprev, if_true]
    have : readyWallets s (extCtx c b).wallets = readyWallets s c.wallets := rfl
    rw [this, hfb]
    rfl
  obtain ⟨v', hpb, hv'⟩ := processBlock_of_ok hpm
  -- the mined buckets of the final store are those after the apply phase
  have hfin : s2.unspent = sb.1.unspent ∧ s2.credits = sb.1.credits ∧ s2.debits = sb.1.debits ∧ s2.game = sb.1.game ∧
      s2.txrecs = sb.1.txrecs ∧ s2.blocks = sb.1.blocks ∧ s2.status = s.status ∧ s2.balance = s1.balance := by
    rw [hs2eq]
    exact ⟨hM1.unspent.trans hmined1.1, hM1.credits.trans hmined1.2.1, hM1.debits.trans hmined1.2.2.1,
      hM1.game.trans hmined1.2.2.2.1, hM1.txrecs.trans hmined1.2.2.2.2.1, hM1.blocks.trans hmined1.2.2.2.2.2.1,
      hM1.status.trans hmined1.2.2.2.2.2.2.1, hM1.balance⟩
  have hA2 : AgreeJ s2 (bookOf c.p (ownW c.own w) (c.node.chain.take (k + 1)))
      (bookOf c.p (ownR c.own w) (c.node.chain ++ [b])) := by
    constructor
    · intro a x y; rw [hfin.1]; exact hA1'.unspent a x y
    · intro x; rw [hfin.2.1]; exact hA1'.credits x
    · intro x; rw [hfin.2.2.1]; exact hA1'.debits x
    · intro x; rw [hfin.2.2.2.1]; exact hA1'.game x
    · intro x; rw [hfin.2.2.2.2.1]; exact hA1'.txrecs x
  -- back to the orientation of the scan invariant
  have hSr2 : SepP c.own (fun x => decide (x = w)) (occs (c.node.chain ++ [b]))
      (bookOf c.p (ownR c.own w) (c.node.chain ++ [b])) := by
    have := sepP_bookOf (p := c.p) (keepA := fun x => decide (x = w)) hOr (by intro w' hw'; simpa using hw')
      (pre := c.node.chain ++ [b]) (post := []) (by rw [List.append_nil]; exact hV')
    rw [List.append_nil] at this; exact this
  have hTr2 : TxLoc (occs (c.node.chain ++ [b])) (bookOf c.p (ownR c.own w) (c.node.chain ++ [b])) := by
    have := txLoc_bookOf (p := c.p) (post := []) hVr'
    rw [List.append_nil] at this; exact this
  have hA3 : AgreeJ s2 (bookOf c.p (ownR c.own w) (c.node.chain ++ [b]))
      (bookOf c.p (ownW c.own w) (c.node.chain.take (k + 1))) :=
    agreeJ_symm (kX := fun x => decide (x ≠ w)) (kY := fun x => decide (x = w))
      (by intro w' hw'; simpa using hw') hSw hSr2 hTw hTr2 hA2
  have htake : (c.node.chain ++ [b]).take (k + 1) = c.node.chain.take (k + 1) := List.take_append_of_le_length hlen
  refine ⟨s2, v', hpb, hv', ?_, hfin.2.2.2.2.2.2.1, ?_⟩
  · constructor
    · show AgreeJ s2 (bookOf c.p (ownR c.own w) (c.node.chain ++ [b]))
        (bookOf c.p (ownW c.own w) ((c.node.chain ++ [b]).take (k + 1)))
      rw [htake]; exact hA3
    · exact blocksOK_congr hBO1 (fun x => by rw [hfin.2.2.2.2.1]) (fun x => by rw [hfin.2.2.2.2.2.1])
    · exact txPos_congr hTP1 (fun x => by rw [hfin.2.2.2.2.1])
    · show AMap.get s2.balance w = some (totalU (bookOf c.p (ownW c.own w) ((c.node.chain ++ [b]).take (k + 1))).L w)
      rw [htake, hfin.2.2.2.2.2.2.2, hbalw1]; exact hS.bal
    · intro w' hw' hr
      show AMap.get s2.balance w' = some (totalU (bookOf c.p (ownR c.own w) (c.node.chain ++ [b])).L w')
      rw [hfin.2.2.2.2.2.2.2]
      apply hbalR1 w'
      rw [← hr]
      symm
      apply ready_contains_congr
      rw [hfin.2.2.2.2.2.2.1]
    · exact hsync2
    · exact hst2
  · intro hU
    rw [hs2eq]
    show KeysNodup (purgeUnrelated (extCtx c b).own s1 (unrelatedTxs b.txs recs)).unspent
    rw [hM1.unspent, hmined1.1]
    exact hU1 hU

end MW.Lemmas.ImportJoin
