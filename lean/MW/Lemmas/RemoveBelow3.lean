/-
  C08, removal interleaved with the follower — histories with reorganisations of ANY depth between the removal steps
  (also below the tip the follower had at the first step, also below the height at which the wallet was flagged).
    `PhaseW`   the invariant of a history: a ghost store following the chain with `w` flagged, the real store related by
               `SubW` with `Reach` and the relaxed in-progress invariant `MidCW`
    `DomW`     the domain: `DomC` WITHOUT its floor clause
    `remove_interleaved_below`  the finishing step leaves C01's invariant for the table without `w`
  The success of every database transaction is part of `irun … = some x`.
-/
import MW.Lemmas.RemoveBelow2
import MW.Lemmas.RemoveSimWStep
namespace MW.Lemmas.RemoveInterleave
open MW MW.Model.Ledger MW.Model.Remove MW.Spec.Chain MW.Spec.Books MW.Lemmas.Ledger MW.Lemmas.RemoveProj
  MW.Lemmas.RemoveChar MW.Lemmas.RemoveBooks MW.Lemmas.RemoveInv MW.Lemmas.RemoveMain MW.Lemmas.RemoveUpper
  MW.Lemmas.RemoveJoin MW.Lemmas.RemoveGlue MW.Lemmas.RemoveFlagged MW.Lemmas.ImportReorg MW.Lemmas.ImportJoin
  MW.Lemmas.RemoveSim MW.Lemmas.LedgerWFCred MW.Lemmas.RemoveSimW MW.Lemmas.RemoveKeep

-- ------------------------------------------------------------------ congruences

theorem midUW_ctx {c c' : Ctx} {w : Wid} {addrs : List Addr} {own' : Own} {s : Store} {X : List Block} {U : Book}
    (hp : c'.p = c.p) (ho : c'.own = c.own) (hw : c'.wallets = c.wallets) (h : MidUW c w addrs own' s X U) :
    MidUW c' w addrs own' s X U := by
  obtain ⟨p, own, ws, nd⟩ := c
  obtain ⟨p', own'', ws'', nd'⟩ := c'
  simp only at hp ho hw
  subst hp ho hw
  exact ⟨h.nodup, h.credits, h.debits, h.debitsW, h.unspent, h.game, h.txrecs, h.txrecsW, h.blocks, h.bal, h.sync,
    h.syncedTo, h.pendOff⟩

theorem midCW_congr {c : Ctx} {w : Wid} {addrs : List Addr} {own' : Own} {s s' : Store} {chain : List Block} {U : Book}
    (h : MidCW c w addrs own' s chain U)
    (e1 : s'.credits = s.credits) (e2 : s'.debits = s.debits) (e3 : s'.unspent = s.unspent) (e4 : s'.game = s.game)
    (e5 : s'.txrecs = s.txrecs) (e6 : s'.blocks = s.blocks) (e7 : s'.balance = s.balance) (e8 : s'.sync = s.sync)
    (e9 : s'.syncedTo = s.syncedTo) (e10 : s'.status = s.status) : MidCW c w addrs own' s' chain U := by
  have hr : ∀ ws, readyWallets { s' with pendCred := [] } ws = readyWallets { s with pendCred := [] } ws := by
    intro ws; unfold readyWallets; simp only [e10]
  refine ⟨?_, ?_, ?_, ?_, ?_, ?_, ?_, ?_, ?_, ?_, ?_, ?_, fun _ he => by cases he⟩
  · show KeysNodup s'.credits; rw [e1]; exact h.nodup
  · intro k; show AMap.get s'.credits k = _ ∨ (AMap.get s'.credits k = none ∧ _); rw [e1]; exact h.credits k
  · intro k; show AMap.get s'.debits k = _ ∨ (AMap.get s'.debits k = none ∧ _); rw [e2]; exact h.debits k
  · intro dk d cr; show AMap.get s'.debits dk = some d → _ → _ → AMap.get s'.credits d.2 = some cr
    rw [e1, e2]; exact h.debitsW dk d cr
  · intro a b d hne; show AMap.get s'.unspent _ = _; rw [e3]; exact h.unspent a b d hne
  · intro k hne; show AMap.get s'.game k = _; rw [e4]; exact h.game k hne
  · intro k; show AMap.get s'.txrecs k = _ ∨ (AMap.get s'.txrecs k = none ∧ _); rw [e5]; exact h.txrecs k
  · intro k loc; show AMap.get s'.txrecs k = some loc → _ → ∃ ck cr, AMap.get s'.credits ck = some cr ∧ _
    rw [e1, e5]; exact h.txrecsW k loc
  · intro hh; show AMap.get s'.blocks hh = blockRecOf (fun k => (AMap.get s'.txrecs k).isSome) chain hh
    rw [e5, e6]; exact h.blocks hh
  · intro w' hw' hr'
    show AMap.get s'.balance w' = _
    rw [e7]
    rw [hr c.wallets] at hr'
    exact h.bal w' hw' hr'
  · intro hh; show AMap.get s'.sync hh = _; rw [e8]; exact h.sync hh
  · show s'.syncedTo + 1 = _; rw [e9]; exact h.syncedTo

theorem blkRel_congr {s s' : Store} (e : s'.txrecs = s.txrecs) {h : Nat} {a r : Option (BlkId × List TxId)}
    (hb : BlkRel s h a r) : BlkRel s' h a r := by
  cases a with
  | none => exact hb
  | some x =>
    obtain ⟨bh, txs⟩ := x
    obtain ⟨p, hp, hv⟩ := hb
    exact ⟨p, fun id hid => by rw [e]; exact hp id hid, hv⟩

theorem subW_minedEq {w : Wid} {addrs : List Addr} {g s s' : Store} (h : SubW w addrs g s) (m : MinedEq s s') :
    SubW w addrs g s' := by
  refine ⟨?_, ?_, ?_, ?_, m.sync.trans h.sync, m.syncedTo.trans h.syncedTo, m.status.trans h.status, ?_, ?_, ?_, ?_, ?_⟩
  · intro k hk; rw [m.unspent]; exact h.unspent k hk
  · intro k hk; rw [m.game]; exact h.game k hk
  · intro k hk; rw [m.addrs]; exact h.adr k hk
  · intro k hk; rw [m.balance]; exact h.balance k hk
  · intro k; rw [m.credits]; exact h.credits k
  · intro k; rw [m.debits]; exact h.debits k
  · intro dk d h1 h2; rw [m.debits] at h2; rw [m.credits]; exact h.debGone dk d h1 h2
  · intro k; rw [m.txrecs]; exact h.txrecs k
  · intro hh; rw [m.blocks]; exact blkRel_congr m.txrecs (h.blocks hh)

theorem reach_minedEq {s s' : Store} (h : Reach s) (m : MinedEq s s') : Reach s' := by
  constructor
  · intro ck cr hc; rw [m.credits] at hc; rw [m.txrecs]; exact h.credits ck cr hc
  · intro dk d hd; rw [m.debits] at hd; rw [m.txrecs]; exact h.debits dk d hd

theorem p2w_ctx {c c' : Ctx} {w : Wid} {addrs : List Addr} {own' : Own} {g s : Store} {X : List Block} {k : Nat}
    (hp : c'.p = c.p) (ho : c'.own = c.own) (hw : c'.wallets = c.wallets) (h : P2W c w addrs own' g s X k) :
    P2W c' w addrs own' g s X k := by
  obtain ⟨h1, hG, h3, h4, h5⟩ := h
  refine ⟨h1, ⟨scanJS_ctx hp ho hw hG.scan, hG.flag, ?_, ?_, hG.nodup⟩, h3, h4, ?_⟩
  · rw [ho, hw]; exact hG.allReady
  · rw [hw]; exact hG.nonempty
  · have e : joinBookK c' w own' X k = joinBookK c w own' X k := by unfold joinBookK; rw [hp, ho]
    rw [e]
    exact midUW_ctx hp ho hw h5

-- ------------------------------------------------------------------ the invariant of a history and its events

/-- removal requested, any number of removal steps run: a ghost store follows the chain with `w` flagged, the real store
    is the ghost minus records of `w` (entries keyed by `w` possibly stale) -/
def PhaseW (c : Ctx) (w : Wid) (addrs : List Addr) (own' : Own) (G : Block) (x : ISt) : Prop :=
  ∃ g k, P2W { c with node := x.node } w addrs own' g x.s x.node.chain k ∧ ChainFacts c G x

section events
variable {limit : Nat} {c : Ctx} {w : Wid} {addrs : List Addr} {own' : Own} {G : Block} {x x' : ISt}

theorem phaseW_of_phase1 (hS : Static c w addrs own') (hP : Phase1 c w G x) : PhaseW c w addrs own' G x := by
  obtain ⟨k, hk, hSc, hflag, hAR, hne⟩ := hP.fj
  have H := remHyp_of hS hP.cf
  have hnr : (readyWallets x.s c.wallets).contains w = false := notReady_of_removed hflag rfl
  have hMU : MidU { c with node := x.node } w addrs own' { x.s with pendCred := [] } x.node.chain
      (joinBookK { c with node := x.node } w own' x.node.chain k) :=
    scanJS_to_midU H hS.keys hk
      (scanJS_congr hSc (s' := { x.s with pendCred := [] }) ⟨rfl, rfl, rfl, rfl, rfl, rfl, rfl, rfl, rfl, rfl, rfl⟩)
      hnr hP.nodup (fun _ he => by cases he)
  exact ⟨x.s, k, ⟨hk, ⟨hSc, hflag, hAR, hne, hP.nodup⟩, SubW.refl _ _ _, reach_of_scanJS H hS.keys hk hSc,
    midUW_of_midU hMU⟩, hP.cf⟩

theorem phaseW_rem (hS : Static c w addrs own') (hP : PhaseW c w addrs own' G x)
    (hp : PendOK addrs x.s x.node.chain) (h : istep limit c w addrs x .rem = some x') :
    (x'.fin = false → PhaseW c w addrs own' G x') ∧
    (x'.fin = true → ∀ ws', (∀ y ∈ ws', y ∈ c.wallets) →
      Inv { c with own := own', wallets := ws', node := x'.node } x'.s x'.node.chain) := by
  obtain ⟨g, k, hPW, hcf⟩ := hP
  obtain ⟨_, o, ho, rfl⟩ := istep_rem h
  have H := remHyp_of hS hcf
  have HU := upperOK_join H hS.keys hPW.len
  have hMU := midUW_of_midCW hPW.mid hp
  constructor
  · intro hf
    have hf' : o.finish = false := hf
    have hM' := parked_step_UW limit H HU hMU ho hf'
    have hSub' := subW_removeStep_parked hS.ne hPW.sub hMU.nodup (ghostDeb_of_scanJS H hS.keys hPW.len hPW.ghost.scan)
      (ghostBlk_of_scanJS H hS.keys hPW.len hPW.ghost.scan) ho hf'
    have hR' := removeStep_reach limit _ w addrs x.s o hS.ne ho hPW.reach
    exact ⟨g, k, ⟨hPW.len, hPW.ghost, hSub', hR', midCW_of_midUW hM'⟩,
      ⟨hcf.best, hf', hcf.good, hcf.valid, hcf.genesis, hcf.known⟩⟩
  · intro hf ws' hws
    have hf' : o.finish = true := hf
    exact finish_projects_UW limit H HU hMU ws' hws ho hf'

theorem phaseW_recv {t : Tx} (hP : PhaseW c w addrs own' G x) (h : istep limit c w addrs x (.recv t) = some x') :
    PhaseW c w addrs own' G x' := by
  obtain ⟨g, k, hPW, hcf⟩ := hP
  have hx := istep_recv h
  have m := minedEq_recvTx { c with node := x.node } x.s x.v t
  subst hx
  refine ⟨g, k, ⟨hPW.len, hPW.ghost, subW_minedEq hPW.sub m, reach_minedEq hPW.reach m, ?_⟩,
    ⟨?_, hcf.fin, hcf.good, hcf.valid, hcf.genesis, hcf.known⟩⟩
  · exact midCW_congr hPW.mid m.credits m.debits m.unspent m.game m.txrecs m.blocks m.balance m.sync m.syncedTo m.status
  · show (recvTx _ x.s x.v t).2.1.best = _
    rw [recvTx_best]; exact hcf.best

theorem phaseW_restart {v : Vol} (hv : v.best = x.v.best) (hP : PhaseW c w addrs own' G x)
    (h : istep limit c w addrs x (.restart v) = some x') : PhaseW c w addrs own' G x' := by
  rw [istep_restart h]
  obtain ⟨g, k, hPW, hcf⟩ := hP
  exact ⟨g, k, hPW, ⟨hv.trans hcf.best, hcf.fin, hcf.good, hcf.valid, hcf.genesis, hcf.known⟩⟩

/-- **a tip notification between two removal steps — extension or reorganisation of ANY depth** — whose database
    transaction succeeded -/
theorem phaseW_notify {n : Node} {b : Block} (hS : Static c w addrs own') (hP : PhaseW c w addrs own' G x)
    (hN : NodeOK c.own G x.node.known n b) (hinj : IdInj (x.node.chain ++ n.chain))
    (hg0 : b.height = 0 → b.prev ≠ x.v.best.hash)
    (h : istep limit c w addrs x (.notify n b) = some x') : PhaseW c w addrs own' G x' := by
  obtain ⟨g, k, hPW, hcf⟩ := hP
  have hS' : Static { c with node := n } w addrs own' := ⟨hS.minus, hS.managed, hS.ne, hS.keys⟩
  have hknX : ∀ y ∈ x.node.chain, AMap.get n.known y.id = some y := fun y hy => hN.grows _ _ (hcf.known y hy)
  have hne : n.chain ≠ [] := hN.good.nonempty
  have hlen : n.chain.length ≠ 0 := fun h => hne (List.eq_nil_of_length_eq_zero h)
  have hlast : n.chain[n.chain.length - 1]? = some b := by rw [← List.getLast?_eq_getElem?]; exact hN.tip
  have hbh : b.height = n.chain.length - 1 := hN.good.heights _ _ hlast
  have hb : n.chain[b.height]? = some b := by rw [hbh]; exact hlast
  have htake : n.chain.take (b.height + 1) = n.chain := List.take_of_length_le (by omega)
  have hPn : P2W { c with node := n } w addrs own' g x.s x.node.chain k :=
    p2w_ctx (c := { c with node := x.node }) rfl rfl rfl hPW
  simp only [istep, hcf.fin, Bool.false_eq_true, if_false] at h
  cases hpm : processM { c with node := n } x.s x.v b with
  | error e =>
    rw [processBlock_of_error hpm] at h
    simp at h
  | ok r =>
    obtain ⟨s', rolled, added⟩ := r
    obtain ⟨v', hpb, hv'⟩ := processBlock_of_ok hpm
    rw [hpb] at h
    simp only [if_true, Option.some.injEq] at h
    subst h
    obtain ⟨g', k', hP'⟩ := p2w_processM (c := { c with node := n }) hS' hN.good hN.valid hN.known hcf.good hcf.valid
      hknX (by rw [hcf.genesis]; exact hN.genesis.symm) hinj hPn hb hcf.best (by rw [← hcf.best]; exact hg0) hpm
    rw [htake] at hP'
    refine ⟨g', k', hP', ⟨?_, rfl, hN.good, hN.valid, hN.genesis, hN.known⟩⟩
    show v'.best = tipMeta n.chain
    rw [hv', ← tipMeta_take hN.good hb, htake]

end events

-- ------------------------------------------------------------------ histories

/-- the domain of `remove_interleaved_below`: `DomC` without the floor clause — a removal step needs the pending-side
    clause; a tip notification announces ANY node state (`NodeOK`; block ids determine blocks); unconfirmed transactions
    anywhere; a restarted follower reports the stored best block -/
def DomW (limit : Nat) (c : Ctx) (w : Wid) (addrs : List Addr) (G : Block) : ISt → List IEv → Prop
  | _, [] => True
  | x, ev :: evs =>
    (match ev with
      | .rem => PendOK addrs x.s x.node.chain
      | .notify n b => NodeOK c.own G x.node.known n b ∧ IdInj (x.node.chain ++ n.chain) ∧
          (b.height = 0 → b.prev ≠ x.v.best.hash)
      | .recv _ => True
      | .restart v => v.best = x.v.best) ∧
    ∀ x', istep limit c w addrs x ev = some x' → DomW limit c w addrs G x' evs

section
variable {limit : Nat} {c : Ctx} {w : Wid} {addrs : List Addr} {own' : Own} {G : Block}

theorem domW_run (hS : Static c w addrs own') (ws' : List Wid) (hws : ∀ y ∈ ws', y ∈ c.wallets) :
    ∀ (evs : List IEv) (x xe : ISt), PhaseW c w addrs own' G x →
      DomW limit c w addrs G x evs → irun limit c w addrs x evs = some xe → xe.fin = true →
      Inv { c with own := own', wallets := ws', node := xe.node } xe.s xe.node.chain := by
  intro evs
  induction evs with
  | nil =>
    intro x xe hP _ h hfin
    simp only [irun, Option.some.injEq] at h
    subst h
    obtain ⟨_, _, _, hcf⟩ := hP
    have := hcf.fin
    rw [hfin] at this; cases this
  | cons ev evs ih =>
    intro x xe hP hD h hfin
    obtain ⟨hev, hdom⟩ := hD
    simp only [irun] at h
    cases hs : istep limit c w addrs x ev with
    | none => rw [hs] at h; cases h
    | some x1 =>
      rw [hs] at h
      have hdom' := hdom x1 hs
      cases ev with
      | rem =>
        have hcore := phaseW_rem hS hP hev hs
        cases hf1 : x1.fin with
        | false => exact ih x1 xe (hcore.1 hf1) hdom' h hfin
        | true =>
          have := irun_fin hf1 h
          subst this
          exact hcore.2 hf1 ws' hws
      | notify n b =>
        obtain ⟨hN, hinj, hg0⟩ := hev
        exact ih x1 xe (phaseW_notify hS hP hN hinj hg0 hs) hdom' h hfin
      | recv t => exact ih x1 xe (phaseW_recv hP hs) hdom' h hfin
      | restart v => exact ih x1 xe (phaseW_restart hev hP hs) hdom' h hfin

/-- **removal interleaved with the follower, reorganisations of ANY depth between the removal steps.**  From a store
    that follows the chain with `w` flagged (`Phase1`), any history inside `DomW` — announced node states of any kind
    (extensions, reorganisations above or BELOW the tip the follower had at the first removal step, also below the height
    at which the wallet was flagged), unconfirmed transactions, restarts, any number of removal steps of any size — that
    RUNS (`irun … = some x`: every database transaction succeeded) and ends with the finishing step leaves C01's
    invariant for the table without `w`, on the chain the follower was last told about. -/
theorem remove_interleaved_below {x0 x : ISt} {evs : List IEv} {ws' : List Wid}
    (hP : Phase1 c w G x0) (hS : Static c w addrs own') (hD : DomW limit c w addrs G x0 evs)
    (hrun : irun limit c w addrs x0 evs = some x) (hfin : x.fin = true) (hws : ∀ y ∈ ws', y ∈ c.wallets) :
    Inv { c with own := own', wallets := ws', node := x.node } x.s x.node.chain :=
  domW_run hS ws' hws evs x0 x (phaseW_of_phase1 hS hP) hD hrun hfin

end

end MW.Lemmas.RemoveInterleave
