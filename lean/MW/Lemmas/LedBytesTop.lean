/-
  LedBytes, Round 7 — `ledger_correct` on the byte store with the concrete handler, hypotheses on the CHAINS only.
-/
import MW.Lemmas.LedBytesBounded
import MW.Lemmas.LedgerTraceOK
import MW.Lemmas.LedBytesSizesD
import MW.Lemmas.LedBytesSizesF
namespace MW.LedBytes
open MW MW.Gen.Codec MW.Model.TxmgrCodec MW.TxmgrCodec MW.Model.Ledger MW.Spec.Chain MW.Spec.Books MW.Lemmas.Ledger
open MW.Lemmas.Ledger.Trace

variable {E : MW.LedBytes.Env}

/-- `ledger_correct` on the byte store with the concrete handler `pbBOf Hs`, given that the two store-writing primitives
    simulate at the states `PdInv` / `PfInv` (`hSim` — a statement about ONE call from an `Inv` state, no run involved;
    derived from the chain bounds in `ledger_correct_on_bytes_bounded`) -/
theorem ledger_correct_on_bytes_sim (e : Lemmas.Ledger.Env) (G : Block)
    (Hs : ∀ chain : List Block, HEnv E (e.ctx chain))
    (hSim : ∀ chain, HeightsOK chain → SimAt (Hs chain) (PdInv (e.ctx chain)) (PfInv (e.ctx chain)))
    (w0 : WorldB) (evs : List Ev) (H : RunHyp e G (absW E w0) evs)
    (hB : ∀ ch ∈ chainsOf e (absW E w0) evs, ChainBounds e.p e.own ch)
    (hFit : ∀ chain, (∀ x ∈ chain, AMap.get e.known x.id = some x) → ∀ id x, AMap.get e.known id = some x →
      BlkFit (Hs chain) x)
    (h0 : InvB E (e.ctx w0.chain) w0.bs w0.chain) (hv0 : w0.v.best = tipMeta w0.chain) (hq0 : w0.queue = []) :
    absW E (runWB (pbBOf Hs) w0 evs) = runW e (absW E w0) evs ∧
    ((runWB (pbBOf Hs) w0 evs).queue = [] →
      InvB E (e.ctx (runWB (pbBOf Hs) w0 evs).chain) (runWB (pbBOf Hs) w0 evs).bs (runWB (pbBOf Hs) w0 evs).chain ∧
        (runWB (pbBOf Hs) w0 evs).v.best = tipMeta (runWB (pbBOf Hs) w0 evs).chain) := by
  have hJ0 : JP (ChainBounds e.p e.own) e G (absW E w0) := by
    obtain ⟨S, j1, j2, j3, j4, j5, j6, j7, j8⟩ := J_init H h0.2 hv0 hq0
    have hS : S = w0.chain := j7 hq0
    exact ⟨S, j1, j2, j3, j4, j5, j6, j7, j8, by rw [hS]; exact hB _ (chainsOf_head_mem e (absW E w0) evs)⟩
  obtain ⟨r1, r2⟩ := runWB_bounded H.toEnvHyp Hs hSim
    (fun N S s v b hN hS hI hv hbk hAR hne hBS hBN => processOK_of_J H.toEnvHyp hN hS hI hv hbk hAR hne hBS hBN)
    hFit evs w0 h0.1 hJ0 (fun ch hch => ⟨H.chains ch hch, hB ch hch⟩) H.reorgNonempty
  refine ⟨r1, fun hq => ?_⟩
  have hq' : (runW e (absW E w0) evs).queue = [] := by rw [← r1]; exact hq
  have := MW.Lemmas.Ledger.ledger_correct e G (absW E w0) evs H h0.2 hv0 hq0 hq'
  rw [← r1] at this
  exact ⟨⟨r2, this.1⟩, this.2⟩

/-- **`sizes_of_inv`**: at a store holding the books of a chain within the chain-level bounds (`PdInv` / `PfInv`: C01's `Inv` +
    `ChainBounds`) the two store-writing primitives of the follower simulate the ledger model — every size condition of
    Round 6 (`Good`: cursor below the "syncedto" collision height, `RollbackBals`, `FilterOut` = `BlockRoom` before every
    AddRelevantTx + `BalsWF` at the write-back) is DERIVED -/
theorem sizes_of_inv {c : Ctx} (H : HEnv E c) (hH : HeightsOK c.node.chain) : SimAt H (PdInv c) (PfInv c) where
  disc _ _ hC hP := disc_sim_of_inv H hC hP
  filt _ _ _ hC hb hP := filt_sim_of_inv H hC hb hP hH

/-- **`ledger_correct` ON THE BYTE STORE, CONCRETE HANDLER, CHAIN-LEVEL HYPOTHESES ONLY.**  `pbBOf Hs` = `processBlockB` over
    `disconnectBlockB` / `filterBlockB` / the sync bucket / bucket `ws`.  For every history satisfying C01's `RunHyp` whose node
    chains satisfy `ChainBounds` (fewer than 2^62 blocks, what a prefix pays a wallet < 2^64, fewer than 2^32 - 1 transactions
    per block) and whose block files fit their fields (`hFit`: 32-byte hashes named by the ids, timestamps, known to the
    relevance oracle): the run on bytes abstracts to the run of the ledger model event by event, and with an empty queue the
    bytes are canonical and decode to exactly the books of the node's best chain.  No hypothesis along the run. -/
theorem ledger_correct_on_bytes_bounded (e : Lemmas.Ledger.Env) (G : Block)
    (Hs : ∀ chain : List Block, HEnv E (e.ctx chain))
    (w0 : WorldB) (evs : List Ev) (H : RunHyp e G (absW E w0) evs)
    (hB : ∀ ch ∈ chainsOf e (absW E w0) evs, ChainBounds e.p e.own ch)
    (hFit : ∀ chain, (∀ x ∈ chain, AMap.get e.known x.id = some x) → ∀ id x, AMap.get e.known id = some x →
      BlkFit (Hs chain) x)
    (h0 : InvB E (e.ctx w0.chain) w0.bs w0.chain) (hv0 : w0.v.best = tipMeta w0.chain) (hq0 : w0.queue = []) :
    absW E (runWB (pbBOf Hs) w0 evs) = runW e (absW E w0) evs ∧
    ((runWB (pbBOf Hs) w0 evs).queue = [] →
      InvB E (e.ctx (runWB (pbBOf Hs) w0 evs).chain) (runWB (pbBOf Hs) w0 evs).bs (runWB (pbBOf Hs) w0 evs).chain ∧
        (runWB (pbBOf Hs) w0 evs).v.best = tipMeta (runWB (pbBOf Hs) w0 evs).chain) :=
  ledger_correct_on_bytes_sim e G Hs (fun chain hH => sizes_of_inv (Hs chain) hH) w0 evs H hB hFit h0 hv0 hq0

end MW.LedBytes
