/-
  C10 round 4 — `withdraw_sequence`: the sequence number the wallet puts on the input that withdraws a
  deposit (MW.Model.WithdrawSeq.seqChoice, the function the `led` driver executes for `wseq`) is
   (a) accepted by the script engine's `<lock> OP_CHECKSEQUENCEVERIFY` prelude (SeqRule of ScriptVMMain),
   (b) the least sequence number accepted by it,
   (c) and makes the consensus sequence lock of the input (calcSequenceLock / SequenceLockActive) pass at
       block height tip+1 exactly when MW.Spec.Chain.seqOK says so — i.e. at the first height the wallet
       reports the deposit withdrawable (LedgerDeposit.withdrawable_iff),
   (d) for every other class the default `2^64−1` / `2^64−2` is kept: disable bit set, no lock.
  Consensus fact used as a HYPOTHESIS (`ClsHeightOK`): blockchain/policy.go checkParsePkScriptNew, called by
  validate.go checkConnectBlock with the block's height, admits a 22-byte binding target only at heights
  ≥ MASSIP0002WarmUpHeight and a 20-byte one only below. Both directions are shown necessary
  (`bindOld_above_warmup_discrepancy`, `bindNew_below_warmup_discrepancy`).
-/
import MW.Model.WithdrawSeq
import MW.Spec.Chain
import MW.Lemmas.ScriptVMMain
import MW.Lemmas.LedgerDeposit
namespace MW.Lemmas.WithdrawSeq
open MW MW.Model.Ledger MW.Model.WithdrawSeq MW.Model.ScriptVM MW.Lemmas.ScriptVMMain

-- ------------------------------------------------------------------ constants

theorem consts : Gen.Vm.maxTxInSequenceNum = 2^64 - 1 ∧ Gen.Vm.sequenceLockTimeDisabled = 2^63 ∧
    Gen.Vm.sequenceLockTimeIsSeconds = 2^38 ∧ Gen.Vm.sequenceLockTimeMask = 2^32 - 1 ∧
    Gen.Vm.bindingLockedPeriod = Model.Ledger.bindingLockedPeriod ∧
    Gen.Vm.bindingLockedPeriod = 2^32 - 2 ∧ Gen.Vm.massip2WarmUpHeight = 1398801 := by decide

/-- the script lock of a class: what `<lock> OP_CHECKSEQUENCEVERIFY` of the engine's prelude carries -/
def scriptLock : Cls → Nat
  | .stk f => f + 1
  | .bindNew _ => Gen.Vm.bindingLockedPeriod
  | .bindOld _ => Gen.Vm.bindingLockedPeriod      -- under ScriptMASSip2 the engine adds the prelude to both
  | _ => 0

theorem seqMasked_small {x : Nat} (h : x < 2^32) : seqMasked x = x := by
  unfold seqMasked Gen.Vm.sequenceLockTimeMask Gen.Vm.sequenceLockTimeIsSeconds
  have : x / 274877906944 = 0 := by omega
  rw [this]; omega

theorem seqMasked_le (x : Nat) : seqMasked x ≤ x := by
  unfold seqMasked Gen.Vm.sequenceLockTimeMask Gen.Vm.sequenceLockTimeIsSeconds
  omega

-- ------------------------------------------------------------------ the choice, branch by branch

theorem seqChoice_stk (lt f h : Nat) : seqChoice lt (.stk f) h = f + 1 := rfl

theorem seqChoice_bind {lt h : Nat} {cls : Cls} (hb : cls.isBinding = true)
    (hh : Gen.Vm.massip2WarmUpHeight ≤ h) : seqChoice lt cls h = Gen.Vm.bindingLockedPeriod := by
  have hs : cls.isStaking = false := by cases cls <;> simp_all [Cls.isBinding, Cls.isStaking]
  simp [seqChoice, hs, hb, enforceWarmUp, hh]

/-- (d) every other case keeps the default -/
theorem seqChoice_default {lt h : Nat} {cls : Cls} (hs : cls.isStaking = false)
    (hb : cls.isBinding = false ∨ h < Gen.Vm.massip2WarmUpHeight) :
    seqChoice lt cls h = defaultSeq lt := by
  rcases hb with hb | hb
  · simp [seqChoice, hs, hb]
  · have : ¬ h ≥ Gen.Vm.massip2WarmUpHeight := by omega
    simp [seqChoice, hs, enforceWarmUp, this]

theorem defaultSeq_eq (lt : Nat) : defaultSeq lt = if lt ≠ 0 then 2^64 - 2 else 2^64 - 1 := by
  unfold defaultSeq Gen.Vm.maxTxInSequenceNum; rfl

/-- the default has the disable bit set: no relative lock, and a CSV prelude would reject it -/
theorem defaultSeq_disabled (lt h : Nat) : seqDisabled (defaultSeq lt) = true ∧
    inputLockHeight (defaultSeq lt) h = none ∧ (∀ bh, 0 < bh → lockMet (defaultSeq lt) h bh = true) ∧
    ∀ lock, ¬ SeqRule (defaultSeq lt) lock := by
  have hd : seqDisabled (defaultSeq lt) = true := by
    unfold seqDisabled defaultSeq Gen.Vm.maxTxInSequenceNum Gen.Vm.sequenceLockTimeDisabled
    by_cases h0 : lt ≠ 0 <;> simp [h0]
  have hn : inputLockHeight (defaultSeq lt) h = none := by simp [inputLockHeight, hd]
  refine ⟨hd, hn, ?_, ?_⟩
  · intro bh hbh; simp [lockMet, seqLockHeight, hn, hbh]
  · intro lock hr
    have h1 := hr.1
    simp only [seqDisabled, decide_eq_true_eq] at hd
    omega

/-- the lock-time field stays effective: with a lock time the sequence is not MaxTxInSequenceNum -/
theorem defaultSeq_not_final {lt : Nat} (h : lt ≠ 0) : defaultSeq lt ≠ Gen.Vm.maxTxInSequenceNum := by
  unfold defaultSeq Gen.Vm.maxTxInSequenceNum; simp [h]

-- ------------------------------------------------------------------ (a) the script rule holds

theorem seqRule_self {x : Nat} (h : x < 2^32) : SeqRule x x := by
  refine ⟨?_, Iff.rfl, Nat.le_refl _⟩
  unfold Gen.Vm.sequenceLockTimeDisabled; omega

theorem seqChoice_rule_stk (lt h : Nat) {f : Nat} (hf : f + 1 < 2^32) :
    SeqRule (seqChoice lt (.stk f) h) (f + 1) := seqRule_self hf

theorem seqChoice_rule_bind {lt h : Nat} {cls : Cls} (hb : cls.isBinding = true)
    (hh : Gen.Vm.massip2WarmUpHeight ≤ h) :
    SeqRule (seqChoice lt cls h) Gen.Vm.bindingLockedPeriod := by
  rw [seqChoice_bind hb hh]; exact seqRule_self (by decide)

-- ------------------------------------------------------------------ (b) it is the least such sequence

/-- any sequence number the CSV prelude accepts for a (block-type, < 2^32) lock is at least the lock — as a
    masked value and hence as a number -/
theorem seqRule_least {seq' lock : Nat} (hl : lock < 2^32) (hr : SeqRule seq' lock) :
    lock ≤ seqMasked seq' ∧ seqMasked seq' ≤ seq' := by
  have := hr.2.2
  rw [seqMasked_small hl] at this
  exact ⟨this, seqMasked_le _⟩

theorem seqChoice_least_stk (lt h : Nat) {f seq' : Nat} (hf : f + 1 < 2^32) (hr : SeqRule seq' (f + 1)) :
    seqChoice lt (.stk f) h ≤ seqMasked seq' ∧ seqChoice lt (.stk f) h ≤ seq' := by
  have := seqRule_least hf hr
  rw [seqChoice_stk]; omega

theorem seqChoice_least_bind {lt h : Nat} {cls : Cls} {seq' : Nat} (hb : cls.isBinding = true)
    (hh : Gen.Vm.massip2WarmUpHeight ≤ h) (hr : SeqRule seq' Gen.Vm.bindingLockedPeriod) :
    seqChoice lt cls h ≤ seqMasked seq' ∧ seqChoice lt cls h ≤ seq' := by
  have := seqRule_least (lock := Gen.Vm.bindingLockedPeriod) (by decide) hr
  rw [seqChoice_bind hb hh]; omega

-- ------------------------------------------------------------------ (c) the consensus lock

/-- an enabled block-type sequence `x < 2^32`, `x ≥ 1`: lock height = origin + x − 1 -/
theorem inputLockHeight_small {x h : Nat} (hx : x < 2^32) (hx1 : 1 ≤ x) (hh : h < 2^32) :
    inputLockHeight x h = some (h + x - 1) := by
  have hd : seqDisabled x = false := by
    unfold seqDisabled Gen.Vm.sequenceLockTimeDisabled
    have : x / 9223372036854775808 = 0 := by omega
    simp [this]
  have hs : seqIsSeconds x = false := by
    unfold seqIsSeconds Gen.Vm.sequenceLockTimeIsSeconds
    have : x / 274877906944 = 0 := by omega
    simp [this]
  unfold inputLockHeight
  simp only [hd, hs, Bool.false_eq_true, if_false, Gen.Vm.sequenceLockTimeMask]
  exact congrArg some (by omega)

theorem lockMet_small {x h bh : Nat} (hx : x < 2^32) (hx1 : 1 ≤ x) (hh : h < 2^32) :
    lockMet x h bh = decide (h + x - 1 < bh) := by
  simp [lockMet, seqLockHeight, inputLockHeight_small hx hx1 hh]

/-- what consensus guarantees about the class of an output at height `h` (checkParsePkScriptNew), plus the
    frozen-period bound of wire.IsValidFrozenPeriod -/
def ClsHeightOK (cls : Cls) (h : Nat) : Prop :=
  match cls with
  | .stk f => f + 1 < 2^32
  | .bindNew _ => Gen.Vm.massip2WarmUpHeight ≤ h
  | .bindOld _ => h < Gen.Vm.massip2WarmUpHeight
  | _ => True

instance (cls : Cls) (h : Nat) : Decidable (ClsHeightOK cls h) := by
  unfold ClsHeightOK; cases cls <;> infer_instance

/-- (c) with the wallet's sequence the input passes the consensus sequence lock at height tip+1 exactly when
    the spec's consensus rule `seqOK` lets the block at tip+1 spend the coin -/
theorem lockMet_seqChoice_eq_seqOK (lt tip : Nat) (c : Spec.Chain.SCoin) (hc : ClsHeightOK c.cls c.height)
    (hh : c.height < 2^32) :
    lockMet (seqChoice lt c.cls c.height) c.height (tip + 1) = Spec.Chain.seqOK tip c := by
  unfold Spec.Chain.seqOK
  cases hcls : c.cls with
  | stk f =>
    rw [hcls] at hc
    rw [seqChoice_stk, lockMet_small hc (by omega) hh]
  | bindNew t =>
    rw [hcls] at hc
    rw [seqChoice_bind rfl hc, lockMet_small (by decide) (by decide) hh]
    rfl
  | bindOld t =>
    rw [hcls] at hc
    rw [seqChoice_default rfl (Or.inr hc)]
    exact (defaultSeq_disabled lt _).2.2.1 _ (by omega)
  | std =>
    rw [seqChoice_default rfl (Or.inl rfl)]
    exact (defaultSeq_disabled lt _).2.2.1 _ (by omega)
  | raw =>
    rw [seqChoice_default rfl (Or.inl rfl)]
    exact (defaultSeq_disabled lt _).2.2.1 _ (by omega)

/-- `withdraw_sequence` for the two locked deposit classes, (a) + (b) + (c) together -/
theorem withdraw_sequence (lt tip : Nat) (c : Spec.Chain.SCoin)
    (hd : (∃ f, c.cls = .stk f) ∨ (∃ t, c.cls = .bindNew t)) (hc : ClsHeightOK c.cls c.height)
    (hh : c.height < 2^32) :
    SeqRule (seqChoice lt c.cls c.height) (scriptLock c.cls) ∧
    (∀ seq', SeqRule seq' (scriptLock c.cls) →
      seqChoice lt c.cls c.height ≤ seqMasked seq' ∧ seqChoice lt c.cls c.height ≤ seq') ∧
    lockMet (seqChoice lt c.cls c.height) c.height (tip + 1) = Spec.Chain.seqOK tip c := by
  refine ⟨?_, ?_, lockMet_seqChoice_eq_seqOK lt tip c hc hh⟩
  · rcases hd with ⟨f, e⟩ | ⟨t, e⟩
    · rw [e] at hc ⊢; exact seqChoice_rule_stk lt _ hc
    · rw [e] at hc ⊢; exact seqChoice_rule_bind rfl hc
  · intro seq' hr
    rcases hd with ⟨f, e⟩ | ⟨t, e⟩
    · rw [e] at hc hr ⊢; exact seqChoice_least_stk lt _ hc hr
    · rw [e] at hc hr ⊢; exact seqChoice_least_bind rfl hc hr

/-- the discrepancy the hypothesis excludes, direction 1: an OLD-style binding output at a height ≥ warm-up
    (consensus admits none there). Wallet and script engine agree (ScriptMASSip2 adds the prelude to 20-byte
    targets too: the input is locked), the SPEC (`seqOK`, `Cls.maturity`) says "no lock". -/
theorem bindOld_above_warmup_discrepancy :
    let c : Spec.Chain.SCoin := ⟨"w", "t", 0, 1, 1398801, false, .bindOld "T", "a"⟩
    lockMet (seqChoice 0 c.cls c.height) c.height (1398801 + 1) = false ∧
      Spec.Chain.seqOK 1398801 c = true ∧ ¬ ClsHeightOK c.cls c.height := by decide

/-- direction 2: a NEW-style binding output below the warm-up height (consensus admits none there): the
    wallet keeps the default sequence and the engine runs no prelude (spendable at once), the spec and the
    stored maturity say "locked 0xfffffffe blocks". -/
theorem bindNew_below_warmup_discrepancy :
    let c : Spec.Chain.SCoin := ⟨"w", "t", 0, 1, 5, false, .bindNew "T", "a"⟩
    lockMet (seqChoice 0 c.cls c.height) c.height (5 + 1) = true ∧
      Spec.Chain.seqOK 5 c = false ∧ ¬ ClsHeightOK c.cls c.height := by decide

-- ------------------------------------------------------------------ connection to the wallet's report

open MW.Lemmas.Ledger MW.Spec.Books in
/-- the input the wallet builds on an unspent coin of its books is includable in the next block (height
    `chain.length`: coinbase maturity AND sequence lock of the input) exactly when the wallet's own maturity
    test on the coin passes -/
theorem first_height {c : Ctx} {s : Store} {chain : List Block} (H : ObsHyp c s chain) {u : UCoin}
    (hu : u ∈ (bookOf c.p c.own chain).L) (lt : Nat) (hc : ClsHeightOK u.out.cls u.blk.height)
    (hh : u.blk.height < 2^32) :
    confs s.syncedTo u.blk.height ≥ (creditOf c.p u).maturity ↔
      ((if u.cb then decide (chain.length - u.blk.height ≥ c.p.cbMaturity) else true) &&
        lockMet (seqChoice lt u.out.cls u.blk.height) u.blk.height chain.length) = true := by
  have hpos := H.length_pos
  have h1 := lockMet_seqChoice_eq_seqOK lt (chain.length - 1) u.toSCoin hc hh
  have e : chain.length - 1 + 1 = chain.length := by omega
  rw [e] at h1
  change lockMet (seqChoice lt u.out.cls u.blk.height) u.blk.height chain.length = _ at h1
  rw [withdrawable_iff H hu, h1]
  unfold Spec.Chain.spendableAt
  rw [e]
  rfl

end MW.Lemmas.WithdrawSeq
