/-
  C19 contracts backed by the C15 model (MW.Model.Amount, MW.Dec):
    `strings.Split(s, ".")` returns at least one part            (Dec.splitDot, the function StringToAmount's model runs)
    `u.String()` after `u.AddUint(MaxwellPerMass)` has ≥ 9 digits (Dec.render (n + 10^8), the string AmountToString's model slices)
-/
import MW.Lemmas.ApiContracts
import MW.Lemmas.AmountFormat
namespace MW.Lemmas.ApiBacked
open MW MW.Model.Api MW.Lemmas.ApiContracts MW.Dec

/-- the oracle answers the two string calls of the amount functions by running the C15 model functions -/
structure AmountBacked (O : Oracle) : Prop where
  split : ∀ σ, ∃ s : Bytes, O "strings.Split(s, \".\")" σ = [(splitDot s).length]
  str : ∀ σ, ∃ n : Nat, O "u.String" σ = [(render (n + MW.Model.Amount.perMass)).length]

theorem render_length_pos (n : Nat) : 1 ≤ (render n).length := by
  by_cases h : n < 10
  · rw [render_lt h]; simp
  · rw [render_ge (by omega)]; simp

/-- the decimal string of n + 10^8 has at least 9 digits -/
theorem render_perMass_length (n : Nat) : 9 ≤ (render (n + MW.Model.Amount.perMass)).length := by
  have hpm : MW.Model.Amount.perMass = 10 ^ 8 := rfl
  have hu : n + MW.Model.Amount.perMass = (n / 10 ^ 8 + 1) * 10 ^ 8 + n % 10 ^ 8 := by rw [hpm]; omega
  rw [hu, render_mul_pow_add (by omega) 8 _ (Nat.mod_lt _ (by omega)), List.length_append, digitsN_length]
  have := render_length_pos (n / 10 ^ 8 + 1)
  omega

def splitNode : CallNode := ("strings.Split(s, \".\")", [V "s1"], always [.ge "s1" 1])
def stringNode : CallNode := ("u.String", [V "s"], always [.ge "s" 9])

/-- CONTRACT (amount): `strings.Split(s, ".")` returns at least one part -/
theorem contract_amount_Split {O : Oracle} (h : AmountBacked O) : Holds O splitNode := by
  intro σ
  obtain ⟨s, hs⟩ := h.split σ
  have g := setMany_get [V "s1"] σ (O "strings.Split(s, \".\")" σ) (by decide) 0 (by decide)
  rw [hs] at g
  simp only [List.getElem_cons_zero, List.getD_cons_zero] at g
  have hne : 1 ≤ (splitDot s).length := by
    cases hl : splitDot s with
    | nil => exact absurd hl (splitDot_ne_nil s)
    | cons _ _ => simp
  simp [HoldsAt, splitNode, always, fact, Clause.eval, Atom.eval, g, hs, hne]

/-- CONTRACT (amount): the decimal string sliced by AmountToString has at least 9 digits -/
theorem contract_amount_String {O : Oracle} (h : AmountBacked O) : Holds O stringNode := by
  intro σ
  obtain ⟨n, hn⟩ := h.str σ
  have g := setMany_get [V "s"] σ (O "u.String" σ) (by decide) 0 (by decide)
  rw [hn] at g
  simp only [List.getElem_cons_zero, List.getD_cons_zero] at g
  simp [HoldsAt, stringNode, always, fact, Clause.eval, Atom.eval, g, hn, render_perMass_length n]

end MW.Lemmas.ApiBacked
