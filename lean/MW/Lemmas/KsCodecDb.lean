/-
  Lemmas for the byte-level keystore codecs, part 3: the account bucket – every put* / fetch* pair of
  keystore/db.go reads back what was written (for values the bucket accepts), touches no other key, and the
  key names are pairwise distinct.
-/
import MW.Lemmas.KsCodecRec
import MW.Lemmas.KvOrder
namespace MW.KsCodecL
open MW MW.Model.KsCodec
open MW.Gen.KsCodec (keystoreVersionName masterPrivKeyName masterPubKeyName cryptoPrivKeyName cryptoPubKeyName
  cryptoEntropyKeyName entropyEncKeyName accountUsageName coinTypeName remarkName externalBranchPubKeyName
  internalBranchPubKeyName externalChildNumName internalChildNumName accountMASS)

/-- the key names db.go writes under, as bytes -/
def nameKeys : List Bytes :=
  [key keystoreVersionName, key masterPrivKeyName, key masterPubKeyName, key cryptoPrivKeyName, key cryptoPubKeyName,
   key cryptoEntropyKeyName, key entropyEncKeyName, key accountUsageName, key coinTypeName, key remarkName,
   key externalBranchPubKeyName, key internalBranchPubKeyName, key externalChildNumName, key internalChildNumName]

/-- no two records of the account bucket share a key, no key is empty, every name is ASCII -/
def NamesDistinct : Prop := nameKeys.Pairwise (· ≠ ·) ∧ (∀ k ∈ nameKeys, k ≠ []) ∧
    (∀ s ∈ [keystoreVersionName, masterPrivKeyName, masterPubKeyName, cryptoPrivKeyName, cryptoPubKeyName,
      cryptoEntropyKeyName, entropyEncKeyName, accountUsageName, coinTypeName, remarkName, externalBranchPubKeyName,
      internalBranchPubKeyName, externalChildNumName, internalChildNumName], s.toList.all (fun c => c.toNat < 128) = true)

theorem nameKeys_distinct : NamesDistinct := by unfold NamesDistinct; decide

/-! ### bucket primitives -/

theorem bput_ok (b : Bucket) {k v : Bytes} (hk : k ≠ []) (hv : v ≠ []) : bput b k v = .ok (KV.SMap.insert b k v) := by
  cases k <;> cases v <;> simp_all [bput]

theorem bput_empty_value (b : Bucket) (k : Bytes) : bput b k [] = .error .db := by simp [bput]
theorem bput_empty_key (b : Bucket) (v : Bytes) : bput b [] v = .error .db := by cases v <;> simp [bput]

theorem bput_inv {b b' : Bucket} {k v : Bytes} (h : bput b k v = .ok b') : k ≠ [] ∧ v ≠ [] ∧ b' = KV.SMap.insert b k v := by
  cases k <;> cases v <;> simp_all [bput]

theorem bget_insert (b : Bucket) (k v k' : Bytes) (hk : k ≠ []) :
    bget (KV.SMap.insert b k v) k' = if k' = k then some v else bget b k' := by
  unfold bget
  rw [KV.SMap.get_insert]
  by_cases h : k' = k
  · subst h; cases k' <;> simp_all
  · cases k' <;> simp [h]

theorem bget_bput {b b' : Bucket} {k v : Bytes} (h : bput b k v = .ok b') (k' : Bytes) :
    bget b' k' = if k' = k then some v else bget b k' := by
  obtain ⟨hk, _, rfl⟩ := bput_inv h
  exact bget_insert b k v k' hk

theorem bget_bdel (b : Bucket) (k k' : Bytes) : bget (bdel b k) k' = if k' = k then none else bget b k' := by
  unfold bget bdel
  cases k with
  | nil => cases k' <;> simp
  | cons x k =>
    simp only [List.isEmpty_cons, Bool.false_eq_true, if_false]
    rw [KV.SMap.get_erase]
    cases k' <;> simp

theorem putOpt_none (b : Bucket) (n : String) : putOpt b n none = .ok b := rfl
theorem putOpt_some (b : Bucket) (n : String) (v : Bytes) : putOpt b n (some v) = bput b (key n) v := rfl

/-- a stored value is never empty: the only values a fetch can see are non-empty -/
def NonEmptyValues (b : Bucket) : Prop := ∀ e ∈ b, e.2 ≠ []

theorem mem_insert {b : Bucket} {k v : Bytes} {e : Bytes × Bytes} (h : e ∈ KV.SMap.insert b k v) : e = (k, v) ∨ e ∈ b := by
  induction b with
  | nil => simp [KV.SMap.insert] at h; exact Or.inl h
  | cons x r ih =>
    obtain ⟨k1, v1⟩ := x
    simp only [KV.SMap.insert] at h
    split at h
    · simp only [List.mem_cons] at h ⊢; rcases h with h | h | h <;> simp [h]
    · split at h
      · simp only [List.mem_cons] at h ⊢; rcases h with h | h <;> simp [h]
      · simp only [List.mem_cons] at h ⊢
        rcases h with h | h
        · simp [h]
        · rcases ih h with h | h <;> simp [h]

theorem nonEmpty_bput {b b' : Bucket} {k v : Bytes} (hb : NonEmptyValues b) (h : bput b k v = .ok b') : NonEmptyValues b' := by
  obtain ⟨_, hv, rfl⟩ := bput_inv h
  intro e he
  rcases mem_insert he with rfl | he
  · exact hv
  · exact hb e he

/-! ### master key parameters, crypto keys -/

theorem masterKeyParams_roundtrip (b : Bucket) (pub priv : Bytes) (hp : pub ≠ []) (hq : priv ≠ []) :
    ∃ b', putMasterKeyParams b (some pub) (some priv) = .ok b' ∧ fetchMasterKeyParams b' = .ok (pub, some priv) ∧
      ∀ k, k ≠ key masterPrivKeyName → k ≠ key masterPubKeyName → bget b' k = bget b k := by
  have h1 := bput_ok b (k := key masterPrivKeyName) (by decide) hq
  have h2 := bput_ok (KV.SMap.insert b (key masterPrivKeyName) priv) (k := key masterPubKeyName) (by decide) hp
  refine ⟨_, by (simp only [putMasterKeyParams, putOpt_some, h1, bind, Except.bind, h2]; try rfl), ?_, ?_⟩
  · have hne : key masterPrivKeyName ≠ key masterPubKeyName := by decide
    simp [fetchMasterKeyParams, bget_insert _ _ _ _ (show key masterPubKeyName ≠ [] by decide),
      bget_insert _ _ _ _ (show key masterPrivKeyName ≠ [] by decide), hne]
  · intro k hk1 hk2
    simp [bget_insert _ _ _ _ (show key masterPubKeyName ≠ [] by decide),
      bget_insert _ _ _ _ (show key masterPrivKeyName ≠ [] by decide), hk1, hk2]

/-- nil parameters leave the stored value alone (change of one passphrase keeps the other parameters) -/
theorem masterKeyParams_nil_keeps (b : Bucket) (priv : Bytes) (hq : priv ≠ []) :
    ∃ b', putMasterKeyParams b none (some priv) = .ok b' ∧ bget b' (key masterPubKeyName) = bget b (key masterPubKeyName) ∧
      bget b' (key masterPrivKeyName) = some priv := by
  have h1 := bput_ok b (k := key masterPrivKeyName) (by decide) hq
  refine ⟨_, by (simp only [putMasterKeyParams, putOpt_some, putOpt_none, h1, bind, Except.bind]; try rfl), ?_, ?_⟩
  · have hne : key masterPubKeyName ≠ key masterPrivKeyName := by decide
    simp [bget_insert _ _ _ _ (show key masterPrivKeyName ≠ [] by decide), hne]
  · simp [bget_insert _ _ _ _ (show key masterPrivKeyName ≠ [] by decide)]

/-- an EMPTY (non-nil) parameter is refused by the bucket: the write fails as a whole -/
theorem masterKeyParams_empty_refused (b : Bucket) (pub : Option Bytes) :
    putMasterKeyParams b pub (some []) = .error .db := by
  simp [putMasterKeyParams, putOpt_some, bput_empty_value, bind, Except.bind]

theorem cryptoKeys_roundtrip (b : Bucket) (p q r : Bytes) (hp : p ≠ []) (hq : q ≠ []) (hr : r ≠ []) :
    ∃ b', putCryptoKeys b (some p) (some q) (some r) = .ok b' ∧ fetchCryptoKeys b' = .ok (p, some q, some r) ∧
      ∀ k, k ≠ key cryptoPubKeyName → k ≠ key cryptoPrivKeyName → k ≠ key cryptoEntropyKeyName → bget b' k = bget b k := by
  have h1 := bput_ok b (k := key cryptoPubKeyName) (by decide) hp
  have h2 := bput_ok (KV.SMap.insert b (key cryptoPubKeyName) p) (k := key cryptoPrivKeyName) (by decide) hq
  have h3 := bput_ok (KV.SMap.insert (KV.SMap.insert b (key cryptoPubKeyName) p) (key cryptoPrivKeyName) q)
    (k := key cryptoEntropyKeyName) (by decide) hr
  have n1 : key cryptoPubKeyName ≠ [] := by decide
  have n2 : key cryptoPrivKeyName ≠ [] := by decide
  have n3 : key cryptoEntropyKeyName ≠ [] := by decide
  have d1 : key cryptoPubKeyName ≠ key cryptoPrivKeyName := by decide
  have d2 : key cryptoPubKeyName ≠ key cryptoEntropyKeyName := by decide
  have d3 : key cryptoPrivKeyName ≠ key cryptoEntropyKeyName := by decide
  refine ⟨_, by (simp only [putCryptoKeys, putOpt_some, h1, h2, bind, Except.bind, h3]; try rfl), ?_, ?_⟩
  · simp [fetchCryptoKeys, bget_insert _ _ _ _ n1, bget_insert _ _ _ _ n2, bget_insert _ _ _ _ n3, d1, d2, d3]
  · intro k k1 k2 k3
    simp [bget_insert _ _ _ _ n1, bget_insert _ _ _ _ n2, bget_insert _ _ _ _ n3, k1, k2, k3]

/-! ### version, entropy, remark -/

theorem version_roundtrip (b : Bucket) (v : Nat) (hv : v < 256) :
    ∃ b', putVersion b v = .ok b' ∧ fetchVersion b' = v ∧ ∀ k, k ≠ key keystoreVersionName → bget b' k = bget b k := by
  have e : (encodeItems MW.Gen.KsCodec.putVersion.items [.n v]).getD [] = [UInt8.ofNat (v % 256)] := by
    simp [MW.Gen.KsCodec.putVersion, encodeItems, encodeItem]
  have h1 := bput_ok b (k := key keystoreVersionName) (v := [UInt8.ofNat (v % 256)]) (by decide) (by simp)
  refine ⟨_, by (simp only [putVersion, e, h1]; try rfl), ?_, ?_⟩
  · simp only [fetchVersion, bget_insert _ _ _ _ (show key keystoreVersionName ≠ [] by decide), if_true]
    rw [u8_toNat_ofNat_mod, Nat.mod_eq_of_lt hv]
  · intro k hk; simp [bget_insert _ _ _ _ (show key keystoreVersionName ≠ [] by decide), hk]

/-- a bucket without a version record reads as version 0 – not as an error -/
theorem fetchVersion_absent (b : Bucket) (h : bget b (key keystoreVersionName) = none) : fetchVersion b = 0 := by
  simp [fetchVersion, h]

theorem entropy_roundtrip (b : Bucket) (e : Bytes) (he : e ≠ []) :
    ∃ b', putEntropy b e = .ok b' ∧ fetchEntropy b' = some e ∧ ∀ k, k ≠ key entropyEncKeyName → bget b' k = bget b k := by
  have h1 := bput_ok b (k := key entropyEncKeyName) (by decide) he
  refine ⟨_, h1, ?_, ?_⟩
  · simp [fetchEntropy, bget_insert _ _ _ _ (show key entropyEncKeyName ≠ [] by decide)]
  · intro k hk; simp [bget_insert _ _ _ _ (show key entropyEncKeyName ≠ [] by decide), hk]

theorem remark_roundtrip (b : Bucket) (r : Bytes) (hr : r ≠ []) :
    ∃ b', putRemark b r = .ok b' ∧ fetchRemark b' = some r ∧ fetchRemark (deleteRemark b') = none := by
  have h1 := bput_ok b (k := key remarkName) (by decide) hr
  refine ⟨_, h1, ?_, ?_⟩
  · simp [fetchRemark, bget_insert _ _ _ _ (show key remarkName ≠ [] by decide)]
  · simp [fetchRemark, deleteRemark, bget_bdel]

/-! ### uint32 values: account usage, coin type, child counters -/

theorem putU32_ok (b : Bucket) (name : String) (hn : key name ≠ []) (n : Nat) :
    putU32 b name n = .ok (KV.SMap.insert b (key name) (u32Bytes n)) := by
  unfold putU32; exact bput_ok b hn (u32Bytes_ne_nil n)

theorem fetchU32_putU32 (b : Bucket) (name : String) (hn : key name ≠ []) (n : Nat) (h : n < 4294967296) :
    fetchU32 (KV.SMap.insert b (key name) (u32Bytes n)) name = .ok n := by
  simp [fetchU32, bget_insert _ _ _ _ hn, u32Of_u32Bytes_of_lt h]

theorem accountUsage_roundtrip (b : Bucket) (n : Nat) (h : n < 4294967296) :
    ∃ b', putAccountUsage b n = .ok b' ∧ fetchAccountUsage b' = .ok n := by
  refine ⟨_, putU32_ok b _ (by decide) n, ?_⟩
  exact fetchU32_putU32 b _ (by decide) n h

theorem coinType_roundtrip (b : Bucket) (n : Nat) (h : n < 4294967296) :
    ∃ b', putCoinType b n = .ok b' ∧ fetchCoinType b' = .ok n := by
  refine ⟨_, putU32_ok b _ (by decide) n, ?_⟩
  exact fetchU32_putU32 b _ (by decide) n h

theorem childNumName_ne_nil (i : Bool) : key (childNumName i) ≠ [] := by cases i <;> decide
theorem childNumName_inj {i j : Bool} (h : key (childNumName i) = key (childNumName j)) : i = j := by
  revert h; cases i <;> cases j <;> decide

/-- the child counter a start reads is the one the last NewAddress stored, the other branch's is untouched -/
theorem childNum_persist (b : Bucket) (internal : Bool) (n : Nat) (h : n < 4294967296) :
    ∃ b', updateChildNum b internal n = .ok b' ∧ getChildNum b' internal = .ok n ∧
      getChildNum b' (!internal) = getChildNum b (!internal) ∧
      ∀ k, k ≠ key (childNumName internal) → bget b' k = bget b k := by
  have hn := childNumName_ne_nil internal
  refine ⟨_, putU32_ok b _ hn n, ?_, ?_, ?_⟩
  · simp [getChildNum, bget_insert _ _ _ _ hn, u32Of_u32Bytes_of_lt h]
  · have : key (childNumName (!internal)) ≠ key (childNumName internal) := by
      intro e; have := childNumName_inj e; cases internal <;> simp at this
    simp [getChildNum, bget_insert _ _ _ _ hn, this]
  · intro k hk; simp [bget_insert _ _ _ _ hn, hk]

theorem childNum_init (b : Bucket) :
    ∃ b', initBranchChildNum b = .ok b' ∧ fetchChildNum b' = .ok (0, 0) ∧
      getChildNum b' false = .ok 0 ∧ getChildNum b' true = .ok 0 := by
  have n1 : key externalChildNumName ≠ [] := by decide
  have n2 : key internalChildNumName ≠ [] := by decide
  have d : key externalChildNumName ≠ key internalChildNumName := by decide
  have z := u32Of_u32Bytes_of_lt (show 0 < 4294967296 by decide)
  refine ⟨_, by (simp only [initBranchChildNum, putU32_ok _ _ n1, putU32_ok _ _ n2, bind, Except.bind]; try rfl), ?_, ?_, ?_⟩
  · simp [fetchChildNum, bget_insert _ _ _ _ n1, bget_insert _ _ _ _ n2, d, z, bind, Except.bind, pure, Except.pure]
  · simp [getChildNum, childNumName, bget_insert _ _ _ _ n1, bget_insert _ _ _ _ n2, d, z]
  · simp [getChildNum, childNumName, bget_insert _ _ _ _ n2, z]

/-- fetchChildNum returns (internal, external) of whatever getChildNum returns per branch -/
theorem fetchChildNum_eq (b : Bucket) (i e : Nat) (hi : getChildNum b true = .ok i) (he : getChildNum b false = .ok e)
    (pi : (bget b (key internalChildNumName)).isSome) (pe : (bget b (key externalChildNumName)).isSome) :
    fetchChildNum b = .ok (i, e) := by
  simp only [getChildNum, childNumName, if_true, Bool.false_eq_true, if_false] at hi he
  cases h1 : bget b (key externalChildNumName) with
  | none => simp [h1] at pe
  | some ex =>
    cases h2 : bget b (key internalChildNumName) with
    | none => simp [h2] at pi
    | some inn =>
      simp only [h1, h2, Option.getD_some] at hi he
      simp [fetchChildNum, h1, h2, hi, he, bind, Except.bind, pure, Except.pure]

/-- a missing counter is a Go panic in getChildNum (the one reader without a nil check) and an error in fetchChildNum -/
theorem childNum_missing (b : Bucket) (i : Bool) (h : bget b (key (childNumName i)) = none) :
    getChildNum b i = .error .panic := by
  simp [getChildNum, h, u32Of_short]

/-- the overflow case: a counter of 2^32 (not a uint32) would be stored as 0 -/
theorem childNum_overflow_wraps (b : Bucket) (internal : Bool) :
    ∃ b', updateChildNum b internal 4294967296 = .ok b' ∧ getChildNum b' internal = .ok 0 := by
  have hn := childNumName_ne_nil internal
  refine ⟨_, putU32_ok b _ hn _, ?_⟩
  have : u32Bytes 4294967296 = u32Bytes 0 := u32Bytes_wraps 0
  simp [getChildNum, bget_insert _ _ _ _ hn, this, u32Of_u32Bytes_of_lt (show 0 < 4294967296 by decide)]

/-! ### account record, branch keys, index keys, ids -/

theorem accountInfo_roundtrip (b : Bucket) (account : Nat) (pub priv : Bytes) (ha : account < 4294967296)
    (hl : 8 + pub.length + priv.length < 4294967296) :
    ∃ b', putAccountInfo b account pub priv = .ok b' ∧ fetchAccountInfo b' account = .ok (pub, priv) ∧
      fetchAccountUsage b' = .ok account := by
  obtain ⟨raw, hs, hd, hraw⟩ := deserialize_serializeHDAccountKey pub priv hl
  have hrl : raw.length < 4294967296 := by rw [hraw]; simp; omega
  have hk : u32Bytes account ≠ [] := u32Bytes_ne_nil account
  have hrow : serializeAccountRow accountMASS raw ≠ [] := by rw [serializeAccountRow_eq]; simp
  have hne : u32Bytes account ≠ key accountUsageName := by
    intro e; have := congrArg List.length e; rw [u32Bytes_length] at this; revert this; decide
  have h1 := putU32_ok b accountUsageName (by decide) account
  have h2 := bput_ok (KV.SMap.insert b (key accountUsageName) (u32Bytes account)) hk hrow
  refine ⟨_, by (simp only [putAccountInfo, hs, putAccountUsage, h1, putAccountRow, h2, bind, Except.bind]; try rfl), ?_, ?_⟩
  · simp [fetchAccountInfo, bget_insert _ _ _ _ hk,
      deserialize_serializeAccountRow accountMASS raw (by decide) hrl, hd]
  · simp [fetchAccountUsage, fetchU32, bget_insert _ _ _ _ hk, bget_insert _ _ _ _ (show key accountUsageName ≠ [] by decide),
      hne.symm, u32Of_u32Bytes_of_lt ha]

/-- aliasing: the account row is keyed by the 4 raw bytes of the account number, in the SAME bucket as the named
    records – the account number 0x7265766b ("kver") would overwrite the keystore version (the wallet only ever
    uses account 1) -/
theorem account_key_aliases_kver : u32Bytes 1919252075 = key keystoreVersionName := by decide

theorem branchPubKeys_roundtrip (b : Bucket) (inKey exKey : Bytes) (hi : inKey ≠ []) (he : exKey ≠ []) :
    ∃ b', putBranchPubKeys b inKey exKey = .ok b' ∧ fetchBranchPubKeys b' = .ok (inKey, exKey) := by
  have n1 : key externalBranchPubKeyName ≠ [] := by decide
  have n2 : key internalBranchPubKeyName ≠ [] := by decide
  have d : key externalBranchPubKeyName ≠ key internalBranchPubKeyName := by decide
  have h1 := bput_ok b n1 he
  have h2 := bput_ok (KV.SMap.insert b (key externalBranchPubKeyName) exKey) n2 hi
  refine ⟨_, by (simp only [putBranchPubKeys, h1, h2, bind, Except.bind]; try rfl), ?_⟩
  simp [fetchBranchPubKeys, bget_insert _ _ _ _ n1, bget_insert _ _ _ _ n2, d]

theorem encryptedPubKey_stored (b : Bucket) (branch index : Nat) (pk : Bytes) (hpk : pk ≠ []) :
    ∃ b', putEncryptedPubKey b branch index pk = .ok b' ∧ bget b' (pubKeyKey branch index) = some pk ∧
      ∀ k, k ≠ pubKeyKey branch index → bget b' k = bget b k := by
  have hk : pubKeyKey branch index ≠ [] := by
    intro e; have := pubKeyKey_length branch index; rw [e] at this; simp at this
  refine ⟨_, bput_ok b hk hpk, by simp [bget_insert _ _ _ _ hk], ?_⟩
  intro k hne; simp [bget_insert _ _ _ _ hk, hne]

/-- every key of a public-key bucket is 8 bytes long (what putEncryptedPubKey writes) -/
def PkBucket (b : Bucket) : Prop := ∀ e ∈ b, e.1.length = 8

theorem pkBucket_put {b b' : Bucket} (hb : PkBucket b) {br ix : Nat} {pk : Bytes}
    (h : putEncryptedPubKey b br ix pk = .ok b') : PkBucket b' := by
  obtain ⟨_, _, rfl⟩ := bput_inv h
  intro e he
  rcases mem_insert he with rfl | he
  · exact pubKeyKey_length br ix
  · exact hb e he

theorem pubKeyPath_of_len8 (k : Bytes) (h : k.length = 8) :
    pubKeyPath k = .ok (ofLE (k.take 4), ofLE ((k.drop 4).take 4)) := by
  have h1 : ¬ k.length < 4 := by omega
  have h2 : ¬ k.length - 4 < 4 := by omega
  simp [pubKeyPath, decode, MW.Gen.KsCodec.fetchEncryptedPubKey, decodeItems, h1, h2, Except.map]

/-- fetchEncryptedPubKey on a public-key bucket lists every entry with its (branch, index), in key order, and
    never panics -/
theorem fetchEncryptedPubKey_ok (b : Bucket) (hb : PkBucket b) :
    fetchEncryptedPubKey b = .ok (b.map (fun e => (ofLE (e.1.take 4), ofLE ((e.1.drop 4).take 4), e.2))) := by
  unfold fetchEncryptedPubKey
  induction b with
  | nil => rfl
  | cons e r ih =>
    have he := hb e List.mem_cons_self
    have hr : PkBucket r := fun x hx => hb x (List.mem_cons_of_mem _ hx)
    simp only [List.mapM_cons, ih hr, pubKeyPath_of_len8 e.1 he]
    rfl

/-- an issued index is listed with exactly its coordinates -/
theorem fetchEncryptedPubKey_lists (b : Bucket) (hb : PkBucket b) (br ix : Nat) (pk : Bytes)
    (hbr : br < 4294967296) (hix : ix < 4294967296) (h : bget b (pubKeyKey br ix) = some pk) :
    ∃ l, fetchEncryptedPubKey b = .ok l ∧ (br, ix, pk) ∈ l := by
  refine ⟨_, fetchEncryptedPubKey_ok b hb, ?_⟩
  have hk : pubKeyKey br ix ≠ [] := by
    intro e; have := pubKeyKey_length br ix; rw [e] at this; simp at this
  have hg : KV.SMap.get b (pubKeyKey br ix) = some pk := by
    unfold bget at h; cases hkk : pubKeyKey br ix with
    | nil => exact absurd hkk hk
    | cons x r => rw [hkk] at h; simpa using h
  have hm := KV.SMap.mem_of_get hg
  refine List.mem_map.mpr ⟨_, hm, ?_⟩
  have hp := pubKeyPath_pubKeyKey br ix hbr hix
  rw [pubKeyPath_of_len8 _ (pubKeyKey_length br ix)] at hp
  simp only [Except.ok.injEq, Prod.mk.injEq] at hp
  simp [hp.1, hp.2]

theorem accountID_roundtrip (b : Bucket) (id : Bytes) (hid : id ≠ []) :
    ∃ b', putAccountID b id = .ok b' ∧ id ∈ fetchAccountID b' ∧ id ∉ fetchAccountID (deleteAccountID b' id) := by
  refine ⟨_, bput_ok b hid (by simp), ?_, ?_⟩
  · have : KV.SMap.get (KV.SMap.insert b id [0]) id = some [0] := by rw [KV.SMap.get_insert]; simp
    have hm := KV.SMap.mem_of_get this
    exact List.mem_map.mpr ⟨_, hm, rfl⟩
  · intro hmem
    obtain ⟨e, he, hid'⟩ := List.mem_map.mp hmem
    cases id with
    | nil => exact hid rfl
    | cons x r =>
      simp only [deleteAccountID, bdel, List.isEmpty_cons, Bool.false_eq_true, if_false, KV.SMap.erase,
        List.mem_filter, ne_eq, decide_not, Bool.not_eq_true', decide_eq_false_iff_not] at he
      exact he.2 hid'

end MW.KsCodecL
