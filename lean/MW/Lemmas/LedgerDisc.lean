/-
  Rollback, assembled (C01 goal 2), part 1:
    rollbackTx_applyOcc   rolling back the record of ONE transaction undoes `applyOcc`
    rollbackOccs_fold     rolling back the touching transactions of a run `ocs` (all of one block), last to
                          first, undoes the fold of `applyOcc` over `ocs`
-/
import MW.Lemmas.LedgerChar3
import MW.Lemmas.LedgerRbk2
import MW.Lemmas.LedgerMid3
import MW.Lemmas.LedgerChainDefs
namespace MW.Lemmas.Ledger
open MW MW.Model.Ledger MW.Spec.Chain MW.Spec.Books

-- ------------------------------------------------------------------ (a) one transaction

/-- the books after a touching transaction, in the form the model-side theorems want: the books without
    the record (`Mid … 0 0`) plus the tx record -/
theorem applyOcc_bookEq_mid {p : Params} {own : Own} {B : Book} {oc : Occ} (ht : touches own B oc.t = true) :
    BookEq (applyOcc p own B oc)
      { Mid p own B oc 0 0 with
        txrecs := upd (Mid p own B oc 0 0).txrecs (oc.t.id, oc.bm) (some (oc.bm.hash, oc.ti)) } := by
  have e := mid_record_eq p own B oc 0 0
  rw [← mid_start] at e
  have hrec : (recStep own B oc).txrecs = upd (Mid p own B oc 0 0).txrecs (oc.t.id, oc.bm) (some (oc.bm.hash, oc.ti)) := by
    rw [mid_txrecs]
    unfold recStep
    simp only [ht, if_true, recordB]
  rw [hrec] at e
  exact e

/-- ONE TRANSACTION: rolling back the record of a touching transaction `oc` takes the store from the books
    after `oc` back to the books before it. -/
theorem rollbackTx_applyOcc {c : Ctx} {ready : List Wid} (hAR : AllReady c.own ready)
    {P : List Occ} {B : Book} {oc : Occ} {s : Store} {bals : Bals}
    (hL : Loc c.p c.own B) (hG : LocG B) (hW : LocW B) (hGl : Glob c.own P B) (h2 : Glob2 P B)
    (hV : OccValid c.own P oc) (ht : touches c.own B oc.t = true)
    (hloc : c.node.txByFileLoc (oc.bm.hash, oc.ti) = some oc.t)
    (hplain : oc.t.cb = true → ∀ o ∈ oc.t.outs, (ownerOf c.own o).isSome = true → isDeposit o.cls = false)
    (hR : AgreeR s (applyOcc c.p c.own B oc)) (hB : AgreeBal ready bals (applyOcc c.p c.own B oc)) :
    ∃ s' bals' rem, rollbackTx c s bals oc.bm oc.t.id = .ok (s', bals', rem) ∧ AgreeR s' B ∧
      AgreeBal ready bals' B ∧ SameRest s s' := by
  have e := applyOcc_bookEq_mid (p := c.p) (own := c.own) (B := B) (oc := oc) ht
  have hR0 := hR.congr e
  have hB0 : AgreeBal ready bals (Mid c.p c.own B oc 0 0) := by
    intro w hw; rw [← e.L]; exact hB w hw
  have hT : (Mid c.p c.own B oc 0 0).txrecs (oc.t.id, oc.bm) = none := by
    rw [mid_txrecs]; exact (glob_fresh hGl hV oc.bm 0).2.2
  by_cases hcb : oc.t.cb = true
  · -- coinbase
    have houts : ∀ j o, oc.t.outs[j]? = some o → CbOutStep c oc.t oc.bm (fun j => Mid c.p c.own B oc 0 j) j o := by
      intro j o ho
      obtain ⟨h1, h2', h3, h4, _⟩ := mid_out_step (k := 0) hL hG hW hGl h2 hV (Or.inl hcb) ho
      refine ⟨h1, h2', ?_, h4⟩
      intro w ch hown
      refine ⟨(h3 w ch hown).1, ?_⟩
      exact hplain hcb o (List.mem_of_getElem? ho) (by rw [hown]; rfl)
    obtain ⟨s', bals', rem, hrun, hR', hB', hS⟩ :=
      rollbackTx_refines_cb hAR (fun j => Mid c.p c.own B oc 0 j) hloc hcb hT hR0 hB0 houts
    refine ⟨s', bals', rem, hrun, ?_, ?_, hS⟩
    · have := mid_end c.p c.own B oc 0 (Or.inl hcb)
      rw [this] at hR'; exact hR'
    · have := mid_end c.p c.own B oc 0 (Or.inl hcb)
      rw [this] at hB'; exact hB'
  · -- ordinary transaction
    have hcb' : oc.t.cb = false := by simpa using hcb
    have hins : ∀ k i, oc.t.ins[k]? = some i → InStep c oc.t oc.bm (fun k => Mid c.p c.own B oc k 0) k i := by
      intro k i hi
      obtain ⟨h1, h2', h3, h4, h5, _⟩ := mid_in_step hL hG hW hGl h2 hV hcb' hi
      exact ⟨h1, h2', h3, h4, h5⟩
    have houts : ∀ j o, oc.t.outs[j]? = some o →
        OutStep c oc.t oc.bm (fun j => Mid c.p c.own B oc oc.t.ins.length j) j o := by
      intro j o ho
      obtain ⟨h1, h2', h3, h4, _⟩ :=
        mid_out_step (k := oc.t.ins.length) hL hG hW hGl h2 hV (Or.inr (Nat.le_refl _)) ho
      exact ⟨h1, h2', h3, h4⟩
    obtain ⟨s', bals', rem, hrun, hR', hB', hS⟩ :=
      rollbackTx_refines hAR (fun k => Mid c.p c.own B oc k 0) (fun j => Mid c.p c.own B oc oc.t.ins.length j)
        hloc hcb' hT hR0 hB0 hins (BookEq.refl _) houts
    refine ⟨s', bals', rem, hrun, ?_, ?_, hS⟩
    · have := mid_end c.p c.own B oc oc.t.ins.length (Or.inr (Nat.le_refl _))
      rw [this] at hR'; exact hR'
    · have := mid_end c.p c.own B oc oc.t.ins.length (Or.inr (Nat.le_refl _))
      rw [this] at hB'; exact hB'

end MW.Lemmas.Ledger
