/-
  Rollback, assembled (C01 goal 2), part 1:
    rollbackTx_applyOcc   rolling back the record of ONE transaction undoes `applyOcc`
    rollbackOccs_fold     rolling back the touching transactions of a run `ocs` (all of one block), last to
                          first, undoes the fold of `applyOcc` over `ocs`
-/
import MW.Lemmas.LedgerChar3
import MW.Lemmas.LedgerRbk2
import MW.Lemmas.LedgerMid3
import MW.Lemmas.LedgerChainDefs
namespace MW.Lemmas.Ledger
open MW MW.Model.Ledger MW.Spec.Chain MW.Spec.Books

-- ------------------------------------------------------------------ (a) one transaction

/-- the books after a touching transaction, in the form the model-side theorems want: the books without
    the record (`Mid … 0 0`) plus the tx record -/
theorem applyOcc_bookEq_mid {p : Params} {own : Own} {B : Book} {oc : Occ} (ht : touches own B oc.t = true) :
    BookEq (applyOcc p own B oc)
      { Mid p own B oc 0 0 with
        txrecs := upd (Mid p own B oc 0 0).txrecs (oc.t.id, oc.bm) (some (oc.bm.hash, oc.ti)) } := by
  have e := mid_record_eq p own B oc 0 0
  rw [← mid_start] at e
  have hrec : (recStep own B oc).txrecs = upd (Mid p own B oc 0 0).txrecs (oc.t.id, oc.bm) (some (oc.bm.hash, oc.ti)) := by
    rw [mid_txrecs]
    unfold recStep
    simp only [ht, if_true, recordB]
  rw [hrec] at e
  exact e

/-- ONE TRANSACTION: rolling back the record of a touching transaction `oc` takes the store from the books
    after `oc` back to the books before it. -/
theorem rollbackTx_applyOcc {c : Ctx} {ready : List Wid} (hAR : AllReady c.own ready)
    {P : List Occ} {B : Book} {oc : Occ} {s : Store} {bals : Bals}
    (hL : Loc c.p c.own B) (hG : LocG B) (hW : LocW B) (hGl : Glob c.own P B) (h2 : Glob2 P B)
    (hV : OccValid c.own P oc) (ht : touches c.own B oc.t = true)
    (hloc : c.node.txByFileLoc (oc.bm.hash, oc.ti) = some oc.t)
    (hR : AgreeR s (applyOcc c.p c.own B oc)) (hB : AgreeBal ready bals (applyOcc c.p c.own B oc)) :
    ∃ s' bals' rem, rollbackTx c s bals oc.bm oc.t.id = .ok (s', bals', rem) ∧ AgreeR s' B ∧
      AgreeBal ready bals' B ∧ SameRest s s' := by
  have e := applyOcc_bookEq_mid (p := c.p) (own := c.own) (B := B) (oc := oc) ht
  have hR0 := hR.congr e
  have hB0 : AgreeBal ready bals (Mid c.p c.own B oc 0 0) := by
    intro w hw; rw [← e.L]; exact hB w hw
  have hT : (Mid c.p c.own B oc 0 0).txrecs (oc.t.id, oc.bm) = none := by
    rw [mid_txrecs]; exact (glob_fresh hGl hV oc.bm 0).2.2
  by_cases hcb : oc.t.cb = true
  · -- coinbase
    have houts : ∀ j o, oc.t.outs[j]? = some o → OutStep c oc.t oc.bm (fun j => Mid c.p c.own B oc 0 j) j o := by
      intro j o ho
      obtain ⟨h1, h2', h3, h4, _⟩ := mid_out_step (k := 0) hL hG hW hGl h2 hV (Or.inl hcb) ho
      exact ⟨h1, h2', h3, h4⟩
    obtain ⟨s', bals', rem, hrun, hR', hB', hS⟩ :=
      rollbackTx_refines_cb hAR (fun j => Mid c.p c.own B oc 0 j) hloc hcb hT hR0 hB0 houts
    refine ⟨s', bals', rem, hrun, ?_, ?_, hS⟩
    · have := mid_end c.p c.own B oc 0 (Or.inl hcb)
      rw [this] at hR'; exact hR'
    · have := mid_end c.p c.own B oc 0 (Or.inl hcb)
      rw [this] at hB'; exact hB'
  · -- ordinary transaction
    have hcb' : oc.t.cb = false := by simpa using hcb
    have hins : ∀ k i, oc.t.ins[k]? = some i → InStep c oc.t oc.bm (fun k => Mid c.p c.own B oc k 0) k i := by
      intro k i hi
      obtain ⟨h1, h2', h3, h4, h5, _⟩ := mid_in_step hL hG hW hGl h2 hV hcb' hi
      exact ⟨h1, h2', h3, h4, h5⟩
    have houts : ∀ j o, oc.t.outs[j]? = some o →
        OutStep c oc.t oc.bm (fun j => Mid c.p c.own B oc oc.t.ins.length j) j o := by
      intro j o ho
      obtain ⟨h1, h2', h3, h4, _⟩ :=
        mid_out_step (k := oc.t.ins.length) hL hG hW hGl h2 hV (Or.inr (Nat.le_refl _)) ho
      exact ⟨h1, h2', h3, h4⟩
    obtain ⟨s', bals', rem, hrun, hR', hB', hS⟩ :=
      rollbackTx_refines hAR (fun k => Mid c.p c.own B oc k 0) (fun j => Mid c.p c.own B oc oc.t.ins.length j)
        hloc hcb' hT hR0 hB0 hins (BookEq.refl _) houts
    refine ⟨s', bals', rem, hrun, ?_, ?_, hS⟩
    · have := mid_end c.p c.own B oc oc.t.ins.length (Or.inr (Nat.le_refl _))
      rw [this] at hR'; exact hR'
    · have := mid_end c.p c.own B oc oc.t.ins.length (Or.inr (Nat.le_refl _))
      rw [this] at hB'; exact hB'

-- ------------------------------------------------------------------ (b) one block

/-- the body of the inner loop of Rollback (`rollbackBlockAt`) -/
def rbStep (c : Ctx) (bm : BlockMeta) (a : RbAcc) (id : TxId) : M RbAcc := do
  let (s', bals', rem) ← rollbackTx c a.s a.bals bm id
  pure { a with s := s', bals := bals', cb := a.cb ++ rem }

theorem rollbackBlockAt_eq (c : Ctx) (acc : RbAcc) (cur : Nat) :
    rollbackBlockAt c acc cur =
      match AMap.get acc.s.blocks cur with
      | none => pure acc
      | some (bh, txs) => txs.reverse.foldlM (rbStep c ⟨cur, bh⟩) { acc with heights := acc.heights ++ [cur] } := rfl

theorem rbStep_ok {c : Ctx} {bm : BlockMeta} {a : RbAcc} {id : TxId} {s' : Store} {bals' : Bals}
    {rem : List (TxId × Nat)} (h : rollbackTx c a.s a.bals bm id = .ok (s', bals', rem)) :
    rbStep c bm a id = .ok { a with s := s', bals := bals', cb := a.cb ++ rem } := by
  unfold rbStep
  rw [h]
  rfl

/-- what the block lemma needs to know about a transaction of the block: its block and its block-file
    location -/
def OccFacts (c : Ctx) (bm : BlockMeta) (oc : Occ) : Prop :=
  oc.bm = bm ∧ c.node.txByFileLoc (oc.bm.hash, oc.ti) = some oc.t

theorem rollbackOccs_fold_rev {c : Ctx} {ready : List Wid} (hAR : AllReady c.own ready) (bm : BlockMeta)
    {P0 : List Occ} {B0 : Book}
    (hL : Loc c.p c.own B0) (hG : LocG B0) (hW : LocW B0) (hGl : Glob c.own P0 B0) (h2 : Glob2 P0 B0)
    (r : List Occ) :
    ∀ (acc : RbAcc), ValidFrom c.own P0 r.reverse → (∀ oc ∈ r, OccFacts c bm oc) →
      AgreeR acc.s (r.reverse.foldl (applyOcc c.p c.own) B0) →
      AgreeBal ready acc.bals (r.reverse.foldl (applyOcc c.p c.own) B0) →
      ∃ acc', (touchIds c.p c.own B0 r.reverse).reverse.foldlM (rbStep c bm) acc = .ok acc' ∧
        AgreeR acc'.s B0 ∧ AgreeBal ready acc'.bals B0 ∧ SameRest acc.s acc'.s ∧ acc'.heights = acc.heights := by
  induction r with
  | nil =>
    intro acc _ _ hR hB
    exact ⟨acc, rfl, hR, hB, SameRest.refl _, rfl⟩
  | cons oc r ih =>
    intro acc hV hF hR hB
    rw [List.reverse_cons] at hV hR hB ⊢
    rw [List.foldl_append] at hR hB
    simp only [List.foldl_cons, List.foldl_nil] at hR hB
    obtain ⟨hV1, hV2⟩ := validFrom_append.1 hV
    have hVoc : OccValid c.own (P0 ++ r.reverse) oc := hV2.1
    obtain ⟨hbm, hloc⟩ := hF oc (List.mem_cons_self ..)
    have hF' : ∀ oc' ∈ r, OccFacts c bm oc' := fun oc' h => hF oc' (List.mem_cons_of_mem _ h)
    -- the books before `oc`
    have hGl1 := glob_fold (p := c.p) hGl hV1
    have h21 := glob2_fold (p := c.p) h2 hGl hV1
    obtain ⟨hL1, hG1⟩ := loc_fold (p := c.p) hL hG hGl hV1
    have hW1 := locW_fold (p := c.p) hW hL hG hGl h2 hV1
    rw [touchIds_snoc]
    by_cases ht : touches c.own (r.reverse.foldl (applyOcc c.p c.own) B0) oc.t = true
    · rw [if_pos ht, List.reverse_append, List.reverse_singleton, List.singleton_append, List.foldlM_cons]
      obtain ⟨s1, bals1, rem, hrun, hR1, hB1, hS1⟩ :=
        rollbackTx_applyOcc hAR hL1 hG1 hW1 hGl1 h21 hVoc ht hloc hR hB
      rw [hbm] at hrun
      rw [rbStep_ok hrun]
      obtain ⟨acc', hrun', hR', hB', hS', hH'⟩ :=
        ih { acc with s := s1, bals := bals1, cb := acc.cb ++ rem } hV1 hF' hR1 hB1
      exact ⟨acc', hrun', hR', hB', hS1.trans hS', hH'⟩
    · have ht' : touches c.own (r.reverse.foldl (applyOcc c.p c.own) B0) oc.t = false := by simpa using ht
      rw [if_neg ht, List.append_nil]
      rw [applyOcc_untouched ht'] at hR hB
      exact ih acc hV1 hF' hR hB

/-- ONE BLOCK: rolling back the touching transactions of the run `ocs` (all in block `bm`), last to first,
    takes the store from the books after `ocs` back to the books `B0` before it. -/
theorem rollbackOccs_fold {c : Ctx} {ready : List Wid} (hAR : AllReady c.own ready) (bm : BlockMeta)
    {P0 : List Occ} {B0 : Book} (ocs : List Occ)
    (hL : Loc c.p c.own B0) (hG : LocG B0) (hW : LocW B0) (hGl : Glob c.own P0 B0) (h2 : Glob2 P0 B0)
    (hV : ValidFrom c.own P0 ocs) (hF : ∀ oc ∈ ocs, OccFacts c bm oc) (acc : RbAcc)
    (hR : AgreeR acc.s (ocs.foldl (applyOcc c.p c.own) B0))
    (hB : AgreeBal ready acc.bals (ocs.foldl (applyOcc c.p c.own) B0)) :
    ∃ acc', (touchIds c.p c.own B0 ocs).reverse.foldlM (rbStep c bm) acc = .ok acc' ∧
      AgreeR acc'.s B0 ∧ AgreeBal ready acc'.bals B0 ∧ SameRest acc.s acc'.s ∧ acc'.heights = acc.heights := by
  have := rollbackOccs_fold_rev hAR bm hL hG hW hGl h2 ocs.reverse acc
  rw [List.reverse_reverse] at this
  exact this hV (fun oc h => hF oc (List.mem_reverse.1 h)) hR hB

/-- the transactions of a block whose file is known: their location -/
theorem occFacts_of_known {c : Ctx} {b : Block}
    (hk : AMap.get c.node.known b.id = some b) :
    ∀ oc ∈ occsOfBlock b, OccFacts c ⟨b.height, b.id⟩ oc := by
  intro oc hoc
  obtain ⟨m, hm, hti, hbm⟩ := mem_occsFrom.1 hoc
  refine ⟨hbm, ?_⟩
  unfold Node.txByFileLoc
  rw [hbm]
  simp only [hk, hti, Nat.zero_add]
  exact hm

end MW.Lemmas.Ledger
