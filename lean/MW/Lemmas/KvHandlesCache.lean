/-
  Round 4, part 2: every data operation preserves any predicate on the batch that Put and Delete
  preserve (`dataOp_pres`); FetchBucket through the per-transaction cache (`fetchCached_spec`).
-/
import MW.Lemmas.KvHandles
namespace MW.Model.KV
open MW MW.KV
open MW.Spec.KV (DB reroot viaShapeOK mutating)

/-- a predicate on batches that batch.Put and batch.Delete preserve -/
structure BatchClosed (P : Batch → Prop) : Prop where
  put : ∀ bt k v, P bt → P (bt.put k v)
  del : ∀ bt k, P bt → P (bt.delete k)

variable {P : Batch → Prop}

theorem foldl_pres {α : Type} (f : Batch → α → Batch) (hf : ∀ bt a, P bt → P (f bt a)) (l : List α)
    (bt : Batch) (h : P bt) : P (l.foldl f bt) := by
  induction l generalizing bt with
  | nil => exact h
  | cons a r ih => exact ih _ (hf bt a h)

theorem clearRange_pres (hP : BatchClosed P) (db : Store) {bt : Batch} (h : P bt) (pfx : Bytes) :
    P (clearRange db bt pfx) := by
  unfold clearRange
  apply foldl_pres
  · intro bt a hb; exact hP.del _ _ hb
  · apply foldl_pres
    · intro bt a hb
      by_cases hd : (bt.get a.1).2 = true
      · simp [hd, hb]
      · simp only [hd, Bool.false_eq_true, if_false]; exact hP.del _ _ hb
    · exact h

theorem deleteSubs_pres (db : Store) (recur : Bucket → Batch → Except Err Batch)
    (hrec : ∀ b bt bt', P bt → recur b bt = .ok bt' → P bt') (b : Bucket) :
    ∀ (l : List Bytes) (bt bt' : Batch), P bt → deleteSubs db recur b l bt = .ok bt' → P bt' := by
  intro l
  induction l with
  | nil => intro bt bt' h he; simp [deleteSubs] at he; subst he; exact h
  | cons n rest ih =>
    intro bt bt' h he
    simp only [deleteSubs] at he
    cases hb : b.bucket { readOnly := false, db := db, b := bt } n with
    | none => rw [hb] at he; exact ih bt bt' h he
    | some sub =>
      rw [hb] at he
      simp only at he
      cases hr : recur sub bt with
      | error e => rw [hr] at he; cases he
      | ok bt1 => rw [hr] at he; exact ih bt1 bt' (hrec sub bt bt1 h hr) he

theorem deleteBucketAux_pres (hP : BatchClosed P) (db : Store) : ∀ (fuel : Nat) (b : Bucket) (bt bt' : Batch),
    P bt → deleteBucketAux db fuel b bt = .ok bt' → P bt' := by
  intro fuel
  induction fuel with
  | zero => intro b bt bt' _ he; simp [deleteBucketAux] at he
  | succ fuel ih =>
    intro b bt bt' h he
    simp only [deleteBucketAux] at he
    by_cases hd : (b.depth == 1) = true
    · simp [hd] at he
    · simp only [hd, Bool.false_eq_true, if_false] at he
      cases hn : b.bucketNames { readOnly := false, db := db, b := bt } with
      | error e => rw [hn] at he; cases he
      | ok subnames =>
        rw [hn] at he
        simp only at he
        cases hr : deleteSubs db (deleteBucketAux db fuel) b subnames bt with
        | error e => rw [hr] at he; cases he
        | ok bt1 =>
          rw [hr] at he
          simp only [Except.ok.injEq] at he
          subst he
          have h1 : P bt1 := deleteSubs_pres db _ ih b subnames bt bt1 h hr
          exact hP.del _ _ (clearRange_pres hP db h1 _)

theorem Tx.createTopLevelBucket_pres (hP : BatchClosed P) {tx : Tx} (h : P tx.b) {n : Bytes} {tx' : Tx} {b : Bucket}
    (he : tx.createTopLevelBucket n = .ok (tx', b)) : P tx'.b := by
  unfold Tx.createTopLevelBucket at he
  split at he
  · cases he
  · split at he
    · cases he
    · simp only at he
      split at he
      · cases he
      · cases he; exact hP.put _ _ _ h

theorem Bucket.newBucket_pres (hP : BatchClosed P) {tx : Tx} (h : P tx.b) {b : Bucket} {n : Bytes} {tx' : Tx} {sub : Bucket}
    (he : b.newBucket tx n = .ok (tx', sub)) : P tx'.b := by
  unfold Bucket.newBucket at he
  split at he
  · cases he
  · split at he
    · cases he
    · simp only at he
      split at he
      · cases he
      · cases he; exact hP.put _ _ _ h

theorem Bucket.deleteBucket_pres (hP : BatchClosed P) {tx : Tx} (h : P tx.b) {b : Bucket} {n : Bytes} {tx' : Tx}
    (he : b.deleteBucket tx n = .ok tx') : P tx'.b := by
  unfold Bucket.deleteBucket at he
  split at he
  · cases he
  · split at he
    · cases he; exact h
    · split at he
      · cases he
      · rename_i bt hd
        cases he
        exact deleteBucketAux_pres hP _ _ _ _ _ h hd

theorem Bucket.put_pres (hP : BatchClosed P) {tx : Tx} (h : P tx.b) {b : Bucket} {k v : Bytes} {tx' : Tx}
    (he : b.put tx k v = .ok tx') : P tx'.b := by
  unfold Bucket.put at he
  split at he
  · cases he
  · split at he
    · cases he
    · split at he
      · cases he
      · cases he; exact hP.put _ _ _ h

theorem Bucket.delete_pres (hP : BatchClosed P) {tx : Tx} (h : P tx.b) {b : Bucket} {k : Bytes} {tx' : Tx}
    (he : b.delete tx k = .ok tx') : P tx'.b := by
  unfold Bucket.delete at he
  split at he
  · cases he
  · split at he
    · cases he; exact h
    · cases he; exact hP.del _ _ h

theorem Bucket.clear_pres (hP : BatchClosed P) {tx : Tx} (h : P tx.b) {b : Bucket} {tx' : Tx}
    (he : b.clear tx = .ok tx') : P tx'.b := by
  unfold Bucket.clear at he
  split at he
  · cases he
  · cases he; exact clearRange_pres hP _ h _

/-- every data operation preserves a Put/Delete-closed predicate of the batch -/
theorem dataOp_pres (hP : BatchClosed P) {tx : Tx} (h : P tx.b) (op : Op) : P (dataOp tx op).2.b := by
  have hid := h
  cases op with
  | create s p =>
    simp only [dataOp]
    split
    · exact hid
    · split
      · split
        · rename_i he; exact Tx.createTopLevelBucket_pres hP h he
        · exact hid
      · split
        · exact hid
        · split
          · rename_i he; exact Bucket.newBucket_pres hP h he
          · exact hid
  | delb s p =>
    simp only [dataOp]
    split
    · exact hid
    · split
      · split
        · rename_i he; simp [Tx.deleteTopLevelBucket] at he
        · exact hid
      · split
        · exact hid
        · split
          · rename_i he; exact Bucket.deleteBucket_pres hP h he
          · exact hid
  | has s p => simp only [dataOp]; split <;> exact hid
  | names s p =>
    simp only [dataOp]
    split
    · exact hid
    · split <;> exact hid
  | put s p k v =>
    simp only [dataOp]
    split
    · exact hid
    · split
      · exact hid
      · split
        · rename_i he; exact Bucket.put_pres hP h he
        · exact hid
  | get s p k =>
    simp only [dataOp]
    split
    · exact hid
    · split <;> exact hid
  | del s p k =>
    simp only [dataOp]
    split
    · exact hid
    · split
      · exact hid
      · split
        · rename_i he; exact Bucket.delete_pres hP h he
        · exact hid
  | clear s p =>
    simp only [dataOp]
    split
    · exact hid
    · split
      · exact hid
      · split
        · rename_i he; exact Bucket.clear_pres hP h he
        · exact hid
  | pfx s p k =>
    simp only [dataOp]
    split
    · exact hid
    · split <;> exact hid
  | iter s p st l sc =>
    simp only [dataOp]
    split
    · exact hid
    · split <;> exact hid
  | beginW => exact hid
  | beginR => exact hid
  | commit => exact hid
  | rollback => exact hid
  | endR => exact hid
  | reopen => exact hid
  | probe => exact hid
  | raw => exact hid

/-! ### "this key was in the store or was put by this transaction" -/

/-- the key is in the committed store the transaction reads, or this transaction has put it (at any
    time: `puts` only grows) -/
def Ever (db : Store) (k : Bytes) (bt : Batch) : Prop := (db.get k).isSome = true ∨ (bt.puts.get k).isSome = true

theorem ever_closed (db : Store) (k : Bytes) : BatchClosed (Ever db k) where
  put := by
    intro bt k' v h
    rcases h with h | h
    · exact Or.inl h
    · right
      simp only [Batch.put, SMap.get_insert]
      split
      · rfl
      · exact h
  del := by intro bt k' h; exact h

/-- what FetchBucket's revalidation relies on: a key that was ever present and is not a pending
    delete of the batch is present in the transaction's view -/
theorem bucketExists_of_ever {tx : Tx} {k : Bytes} (hw : tx.readOnly = false) (he : Ever tx.db k tx.b)
    (hd : (tx.b.get k).2 = false) : tx.bucketExists k = true := by
  unfold Tx.bucketExists
  simp only [hw, Bool.false_eq_true, if_false]
  unfold Batch.get at hd ⊢
  cases h1 : tx.b.deletes.get k with
  | none =>
    cases h2 : tx.b.puts.get k with
    | none =>
      rcases he with he | he
      · simp only [he]
      · rw [h2] at he; cases he
    | some pv => obtain ⟨v, sp⟩ := pv; rfl
  | some sd =>
    cases h2 : tx.b.puts.get k with
    | none => rw [h1, h2] at hd; cases hd
    | some pv =>
      obtain ⟨v, sp⟩ := pv
      rw [h1, h2] at hd
      simp only at hd ⊢
      by_cases hlt : sd > sp
      · simp [hlt] at hd
      · simp [hlt]

theorem ever_of_bucketExists {tx : Tx} {k : Bytes} (h : tx.bucketExists k = true) : Ever tx.db k tx.b := by
  unfold Tx.bucketExists at h
  by_cases hr : tx.readOnly = true
  · simp only [hr, if_true] at h; exact Or.inl h
  · simp only [hr, Bool.false_eq_true, if_false] at h
    unfold Batch.get at h
    cases h2 : tx.b.puts.get k with
    | some pv => right; rw [h2]; rfl
    | none =>
      left
      cases h1 : tx.b.deletes.get k with
      | none => rw [h1, h2] at h; exact h
      | some sd => rw [h1, h2] at h; simp at h

end MW.Model.KV
