/-
  Non-vacuity of the reorg theorems of C01 (`ReorgHyp`, `reorg_reaches`, `processBlock_reaches`,
  `rollback_connect_inv`) on the witness of the historical defect "D2": ONE notification makes the follower
  roll back a block and connect TWO blocks in one database transaction, and the second of them spends a
  wallet coin created by the first.
    wallet's stored chain  S = G ── B1 ── B2
    node's best chain      N = G ── B1 ── B2a ── B3a      (the follower is notified of B3a only)
  `T1` (in B2a) pays 10 to the wallet's address "A1"; `T2` (in B3a) spends that coin to a stranger.
  After the reorg the wallet owns nothing: no coin, balance 0 (the defect showed "10 / 1 utxo").
-/
import MW.Lemmas.LedgerMain
import MW.Lemmas.LedgerHistoryEx
namespace MW.Lemmas.Ledger
open MW MW.Model.Ledger MW.Spec.Chain MW.Spec.Books

-- ------------------------------------------------------------------ the blocks

def d2C1 : Tx := ⟨"C1", true, [⟨"", 0, 0⟩], [⟨"X1", 500, .std⟩]⟩
def d2C2 : Tx := ⟨"C2", true, [⟨"", 0, 0⟩], [⟨"X1", 100, .std⟩]⟩
def d2C3 : Tx := ⟨"C3", true, [⟨"", 0, 0⟩], [⟨"X1", 100, .std⟩]⟩
def d2C4 : Tx := ⟨"C4", true, [⟨"", 0, 0⟩], [⟨"X1", 100, .std⟩]⟩
/-- spends the stranger's coinbase `C1`, pays the wallet (address "A1") 10 -/
def d2T1 : Tx := ⟨"T1", false, [⟨"C1", 0, 0⟩], [⟨"A1", 10, .std⟩, ⟨"X1", 490, .std⟩]⟩
/-- spends the wallet's coin `T1:0` to a stranger -/
def d2T2 : Tx := ⟨"T2", false, [⟨"T1", 0, 0⟩], [⟨"X2", 10, .std⟩]⟩

def d2G : Block := ⟨"G", "", 0, []⟩
def d2B1 : Block := ⟨"B1", "G", 1, [d2C1]⟩
def d2B2 : Block := ⟨"B2", "B1", 2, [d2C2]⟩
def d2B2a : Block := ⟨"B2a", "B1", 2, [d2C3, d2T1]⟩
def d2B3a : Block := ⟨"B3a", "B2a", 3, [d2C4, d2T2]⟩

/-- the chain the wallet has stored -/
def d2S : List Block := [d2G, d2B1, d2B2]
/-- the node's best chain -/
def d2N : List Block := [d2G, d2B1, d2B2a, d2B3a]

def d2Own : Own := [("A1", ("W1", false))]

/-- the block files: every block ever defined, by id -/
def d2Known : AMap.T BlkId Block :=
  [("G", d2G), ("B1", d2B1), ("B2", d2B2), ("B2a", d2B2a), ("B3a", d2B3a)]

/-- the context of the reorganisation: the node's best chain is `d2N` -/
def d2Ctx : Ctx := ⟨{ cbMaturity := 1 }, d2Own, ["W1"], { chain := d2N, known := d2Known }⟩
/-- the context before it: the node's best chain was `d2S` (same parameters, keys, wallets, block files) -/
def d2CtxS : Ctx := ⟨{ cbMaturity := 1 }, d2Own, ["W1"], { chain := d2S, known := d2Known }⟩

/-- a fresh wallet "W1" synced to genesis -/
def d2S0 : Store :=
  { balance := [("W1", 0)], sync := [(0, "G")], syncedTo := 0, status := [("W1", ⟨none, false⟩)] }

/-- the store the follower built for `d2S` -/
def d2SS : Store :=
  match connectAll d2CtxS (readyWallets d2S0 d2CtxS.wallets) [d2B1, d2B2] d2S0 [] with
  | .ok (s, _) => s
  | .error _ => d2S0

-- ------------------------------------------------------------------ the hypotheses, concretely

theorem d2Known_cases {id : BlkId} {x : Block} (h : AMap.get d2Known id = some x) :
    x = d2G ∨ x = d2B1 ∨ x = d2B2 ∨ x = d2B2a ∨ x = d2B3a := by
  simp only [d2Known, AMap.get_cons, AMap.get_nil] at h
  repeat' split at h
  all_goals first | (cases h; simp; done) | cases h

theorem d2KnownS : ∀ x ∈ d2S, AMap.get d2Known x.id = some x := by
  intro x hx
  simp only [d2S, List.mem_cons, List.not_mem_nil, or_false] at hx
  rcases hx with rfl | rfl | rfl <;> rfl

theorem d2KnownN : ∀ x ∈ d2N, AMap.get d2Known x.id = some x := by
  intro x hx
  simp only [d2N, List.mem_cons, List.not_mem_nil, or_false] at hx
  rcases hx with rfl | rfl | rfl | rfl <;> rfl

theorem d2IdInj : IdInj (d2S ++ d2N) :=
  idInj_of_known (known := d2Known) (fun x hx => by
    rcases List.mem_append.1 hx with h | h
    · exact d2KnownS x h
    · exact d2KnownN x h)

theorem d2GoodS : GoodChain d2S := hxGood3 rfl rfl rfl rfl rfl

theorem d2GoodN : GoodChain d2N := by
  refine ⟨?_, ?_, by simp [d2N]⟩
  · intro i x h
    match i with
    | 0 => simp [d2N] at h; rw [← h]; rfl
    | 1 => simp [d2N] at h; rw [← h]; rfl
    | 2 => simp [d2N] at h; rw [← h]; rfl
    | 3 => simp [d2N] at h; rw [← h]; rfl
    | n + 4 => simp [d2N] at h
  · intro i x y hx hy
    match i with
    | 0 => simp [d2N] at hx hy; rw [← hx, ← hy]; rfl
    | 1 => simp [d2N] at hx hy; rw [← hx, ← hy]; rfl
    | 2 => simp [d2N] at hx hy; rw [← hx, ← hy]; rfl
    | n + 3 => simp [d2N] at hy

theorem d2ValidS : ChainValid d2Own d2S := by decide
theorem d2ValidN : ChainValid d2Own d2N := by decide

/-- 1. THE HYPOTHESES OF THE REORG THEOREMS HOLD for the D2 witness (nothing assumed) -/
theorem d2ReorgHyp : ReorgHyp d2Ctx d2S where
  goodN := d2GoodN
  goodS := d2GoodS
  genesis := rfl
  inj := d2IdInj
  validN := d2ValidN
  validS := d2ValidS
  known := d2KnownS
  disc := disconnect_sound

-- ------------------------------------------------------------------ the stored state

theorem d2Ready0 : readyWallets d2S0 ["W1"] = ["W1"] := by decide

theorem d2AllReady : AllReady d2Own ["W1"] := by
  intro a w ch h
  simp only [d2Own, AMap.get_cons, AMap.get_nil] at h
  split at h
  · simp only [Option.some.injEq, Prod.mk.injEq] at h; rw [← h.1]; rfl
  · cases h

theorem d2Fresh : FreshStore d2CtxS d2S0 d2G where
  credits := rfl
  unspent := rfl
  debits := rfl
  game := rfl
  txrecs := rfl
  blocks := rfl
  sync := rfl
  syncedTo := rfl
  balance := by
    intro w hw
    change (readyWallets d2S0 ["W1"]).contains w = true at hw
    rw [d2Ready0] at hw
    have : w = "W1" := by simpa using hw
    subst this
    rfl
  genesis := rfl

/-- the stored state satisfies the invariant for the stored chain `d2S` (in the context of the reorg, whose
    node has moved on to `d2N`), and the wallet "W1" is ready -/
theorem d2InvS : Inv d2Ctx d2SS d2S ∧ readyWallets d2SS ["W1"] = ["W1"] := by
  obtain ⟨s', added, h, hI, hst, _⟩ := connectAll_sound (c := d2CtxS) [d2B1, d2B2] d2S0 [d2G] [] []
    (inv_fresh d2Fresh) rfl d2ValidS d2GoodS.heights
    (by show AllReady d2Own (readyWallets d2S0 ["W1"]); rw [d2Ready0]; exact d2AllReady)
    (by show (readyWallets d2S0 ["W1"]).isEmpty = false; rw [d2Ready0]; rfl)
  have hs : d2SS = s' := by unfold d2SS; rw [h]
  rw [hs]
  exact ⟨(inv_ctx_irrel (c := d2CtxS) (c' := d2Ctx) rfl rfl rfl).1 hI,
    by rw [readyWallets_congr hst, d2Ready0]⟩

theorem d2ReadySS : AllReady d2Ctx.own (readyWallets d2SS d2Ctx.wallets) := by
  show AllReady d2Own (readyWallets d2SS ["W1"])
  rw [d2InvS.2]; exact d2AllReady

theorem d2ReadyNe : (readyWallets d2SS d2Ctx.wallets).isEmpty = false := by
  show (readyWallets d2SS ["W1"]).isEmpty = false
  rw [d2InvS.2]; rfl

theorem d2Tip : tipMeta d2S = ⟨2, "B2"⟩ := rfl

/-- before the reorg the wallet owns nothing either (the stored branch never paid it) -/
theorem d2Before : (coinsOf d2SS "W1").length = 0 ∧ walletBalance d2SS "W1" 1 = some ⟨0, 0, 0, 0⟩ := by
  decide

-- ------------------------------------------------------------------ 2. the notification of B3a

/-- the store after the database transaction of the reorg (computed) -/
def d2S1 : Store :=
  match reorg d2Ctx d2SS ⟨2, "B2"⟩ d2B3a with
  | .ok (s, _, _) => s
  | .error _ => d2SS

/-- 2. `processBlock_reaches` ON THE D2 WITNESS: the single notification of `B3a`, received by a follower whose
    tip is `B2`, succeeds, the resulting store is `d2S1` and holds exactly the books of the node's best chain
    `G – B1 – B2a – B3a`, and the follower's tip becomes `B3a` -/
theorem d2Process (v : Vol) (hv : v.best = tipMeta d2S) :
    ∃ v', processBlock d2Ctx d2SS v d2B3a = (d2S1, v', true) ∧ Inv d2Ctx d2S1 d2N ∧ v'.best = ⟨3, "B3a"⟩ := by
  obtain ⟨s', v', h1, hI, hb, _, _⟩ := processBlock_reaches (c := d2Ctx) (S := d2S) d2ReorgHyp (v := v)
    (b := d2B3a) d2InvS.1 rfl hv (by intro h; cases h) d2ReadySS d2ReadyNe
  have hs : d2S1 = s' := by
    have h2 := congrArg Prod.fst h1
    simp only [processBlock, hv, d2Tip] at h2
    rw [← h2]
    rfl
  rw [hs]
  exact ⟨v', h1, hI, hb⟩

/-- … and in that store the wallet owns NOTHING: the coin paid by `T1` in `B2a` is spent by `T2` in `B3a`
    inside the same reorg (the historical defect D2 showed "10 / 1 utxo" here) -/
theorem d2After : (coinsOf d2S1 "W1").length = 0 ∧ walletBalance d2S1 "W1" 1 = some ⟨0, 0, 0, 0⟩ := by
  decide

/-- the same with the list itself -/
theorem d2AfterCoins : coinsOf d2S1 "W1" = [] := List.eq_nil_of_length_eq_zero d2After.1

-- ------------------------------------------------------------------ 3. reorg_reaches

/-- the rolled-back heights and the connected blocks (height, confirmed transaction ids) `reorg` reports -/
def d2Rolled : List Nat :=
  match reorg d2Ctx d2SS ⟨2, "B2"⟩ d2B3a with
  | .ok (_, r, _) => r
  | .error _ => []

def d2Added : List (Nat × List TxId) :=
  match reorg d2Ctx d2SS ⟨2, "B2"⟩ d2B3a with
  | .ok (_, _, a) => a
  | .error _ => []

/-- 3. `reorg_reaches` ON THE D2 WITNESS: the fork height is 1 (the chains agree on `G – B1` and on no longer
    prefix), exactly height 2 (`B2`) is rolled back and exactly the heights 2 and 3 (`B2a`, `B3a`) are
    connected, in this order, and the store then holds the books of the node's best chain -/
theorem d2Reorg :
    reorg d2Ctx d2SS (tipMeta d2S) d2B3a = .ok (d2S1, d2Rolled, d2Added) ∧ Inv d2Ctx d2S1 d2N ∧
      d2S.take 2 = d2N.take 2 ∧ d2S.take 3 ≠ d2N.take 3 ∧
      d2Rolled = descList 2 1 ∧ d2Added.map (·.1) = List.range' 2 2 := by
  obtain ⟨s', rolled, added, h, hI, _, f, _, hlt, hf, hmax, hr, ha⟩ :=
    reorg_reaches (c := d2Ctx) (S := d2S) d2ReorgHyp (b := d2B3a) d2InvS.1 rfl d2ReadySS d2ReadyNe
  have hf1 : f = 1 := by
    match f, hlt, hf, hmax with
    | 0, _, _, hmax => exact absurd rfl (hmax 1 (by omega) (by decide) (by decide))
    | 1, _, _, _ => rfl
    | 2, _, hf, _ => exact absurd (congrArg (List.map Block.id) hf) (by decide)
    | n + 3, hlt, _, _ => have : d2S.length = 3 := rfl; omega
  subst hf1
  rw [d2Tip] at h ⊢
  have e1 : d2S1 = s' := by unfold d2S1; rw [h]
  have e2 : d2Rolled = rolled := by unfold d2Rolled; rw [h]
  have e3 : d2Added = added := by unfold d2Added; rw [h]
  rw [e1, e2, e3]
  exact ⟨h, hI, rfl, fun e => absurd (congrArg (List.map Block.id) e) (by decide), hr, ha⟩

/-- the report of `reorg`, computed: height 2 rolled back; `B2a` connected with the wallet's transaction `T1`,
    then `B3a` with the wallet's transaction `T2` -/
theorem d2Report : d2Rolled = [2] ∧ d2Added = [(2, ["T1"]), (3, ["T2"])] := by decide

example : descList 2 1 = [2] ∧ List.range' 2 2 = [2, 3] := by decide

-- ------------------------------------------------------------------ rollback_connect_inv / inv_functional

/-- the store the follower built for `G – B1` -/
def d2SB1 : Store :=
  match connectAll d2CtxS (readyWallets d2S0 d2CtxS.wallets) [d2B1] d2S0 [] with
  | .ok (s, _) => s
  | .error _ => d2S0

theorem d2InvB1 : Inv d2CtxS d2SB1 [d2G, d2B1] ∧ readyWallets d2SB1 ["W1"] = ["W1"] := by
  obtain ⟨s', added, h, hI, hst, _⟩ := connectAll_sound (c := d2CtxS) [d2B1] d2S0 [d2G] [d2B2] []
    (inv_fresh d2Fresh) rfl d2ValidS d2GoodS.heights
    (by show AllReady d2Own (readyWallets d2S0 ["W1"]); rw [d2Ready0]; exact d2AllReady)
    (by show (readyWallets d2S0 ["W1"]).isEmpty = false; rw [d2Ready0]; rfl)
  have hs : d2SB1 = s' := by unfold d2SB1; rw [h]
  rw [hs]
  exact ⟨hI, by rw [readyWallets_congr hst, d2Ready0]⟩

/-- connecting the next block of the node's chain and disconnecting it again: both steps succeed, and
    (`rollback_connect_inv`, `inv_functional`) the mined buckets are restored extensionally -/
theorem rollback_connect_restores {c : Ctx} {s : Store} {chain rest : List Block} {b : Block}
    (hI : Inv c s chain) (hne : chain ≠ [])
    (hnode : c.node.chain = chain ++ b :: rest) (hvalid : ChainValid c.own c.node.chain)
    (hH : HeightsOK c.node.chain) (hknown : AMap.get c.node.known b.id = some b)
    (hAR : AllReady c.own (readyWallets s c.wallets)) (hre : (readyWallets s c.wallets).isEmpty = false) :
    ∃ s1 conf s2, filterBlock c s (readyWallets s c.wallets) b = .ok (s1, conf) ∧
      disconnectBlock c s1 b.height = .ok s2 ∧ Inv c s1 (chain ++ [b]) ∧ Inv c s2 chain ∧
      AMap.Equiv s.credits s2.credits ∧ AMap.Equiv s.unspent s2.unspent ∧ AMap.Equiv s.debits s2.debits ∧
      AMap.Equiv s.game s2.game ∧ AMap.Equiv s.txrecs s2.txrecs ∧ AMap.Equiv s.blocks s2.blocks ∧
      AMap.Equiv s.sync s2.sync ∧ s.syncedTo = s2.syncedTo := by
  have hheight : b.height = chain.length := by
    have : ∀ (i : Nat) (x : Block), c.node.chain[i]? = some x → x.height = i := hH
    apply this; rw [hnode]; simp
  obtain ⟨s1, conf, h1, hI1, hst⟩ := connect_sound hI hnode hvalid hheight hAR hre
  have hv1 : ChainValid c.own (chain ++ [b]) := by
    apply chainValid_prefix (a := chain ++ [b]) (b := rest)
    rw [show chain ++ [b] ++ rest = chain ++ b :: rest by simp, ← hnode]; exact hvalid
  have hH1 : HeightsOK (chain ++ [b]) := by
    apply heightsOK_prefix (a := chain ++ [b]) (c := rest)
    rw [show chain ++ [b] ++ rest = chain ++ b :: rest by simp, ← hnode]; exact hH
  obtain ⟨s2, h2, _, _⟩ := disconnectSpec_of s1 chain b hI1 hne hv1 hH1 hknown
    (by rw [readyWallets_congr hst]; exact hAR)
  obtain ⟨hI1', hI2⟩ := rollback_connect_inv hI hne hnode hvalid hH hknown hAR hre h1 h2
  exact ⟨s1, conf, s2, h1, h2, hI1', hI2, inv_functional hI hI2⟩

/-- on the D2 witness, the stored branch: connect `B2` on top of `G – B1`, disconnect it again -/
theorem d2RollbackB2 :
    ∃ s1 conf s2, filterBlock d2CtxS d2SB1 (readyWallets d2SB1 ["W1"]) d2B2 = .ok (s1, conf) ∧
      disconnectBlock d2CtxS s1 2 = .ok s2 ∧ Inv d2CtxS s1 d2S ∧ Inv d2CtxS s2 [d2G, d2B1] ∧
      AMap.Equiv d2SB1.credits s2.credits ∧ AMap.Equiv d2SB1.unspent s2.unspent ∧
      AMap.Equiv d2SB1.debits s2.debits ∧ AMap.Equiv d2SB1.game s2.game ∧
      AMap.Equiv d2SB1.txrecs s2.txrecs ∧ AMap.Equiv d2SB1.blocks s2.blocks ∧
      AMap.Equiv d2SB1.sync s2.sync ∧ d2SB1.syncedTo = s2.syncedTo :=
  rollback_connect_restores (c := d2CtxS) (chain := [d2G, d2B1]) (rest := []) (b := d2B2)
    d2InvB1.1 (by simp) rfl d2ValidS d2GoodS.heights rfl
    (by show AllReady d2Own (readyWallets d2SB1 ["W1"]); rw [d2InvB1.2]; exact d2AllReady)
    (by show (readyWallets d2SB1 ["W1"]).isEmpty = false; rw [d2InvB1.2]; rfl)

/-- … and the new branch: connect `B2a` (which PAYS THE WALLET, `T1`) on top of `G – B1`, disconnect it
    again: the credit, its unspent entry and the transaction record are gone -/
theorem d2RollbackB2a :
    ∃ s1 conf s2, filterBlock d2Ctx d2SB1 (readyWallets d2SB1 ["W1"]) d2B2a = .ok (s1, conf) ∧
      disconnectBlock d2Ctx s1 2 = .ok s2 ∧ Inv d2Ctx s1 [d2G, d2B1, d2B2a] ∧ Inv d2Ctx s2 [d2G, d2B1] ∧
      AMap.Equiv d2SB1.credits s2.credits ∧ AMap.Equiv d2SB1.unspent s2.unspent ∧
      AMap.Equiv d2SB1.debits s2.debits ∧ AMap.Equiv d2SB1.game s2.game ∧
      AMap.Equiv d2SB1.txrecs s2.txrecs ∧ AMap.Equiv d2SB1.blocks s2.blocks ∧
      AMap.Equiv d2SB1.sync s2.sync ∧ d2SB1.syncedTo = s2.syncedTo :=
  rollback_connect_restores (c := d2Ctx) (chain := [d2G, d2B1]) (rest := [d2B3a]) (b := d2B2a)
    ((inv_ctx_irrel (c := d2CtxS) (c' := d2Ctx) rfl rfl rfl).1 d2InvB1.1) (by simp) rfl d2ValidN
    d2GoodN.heights rfl
    (by show AllReady d2Own (readyWallets d2SB1 ["W1"]); rw [d2InvB1.2]; exact d2AllReady)
    (by show (readyWallets d2SB1 ["W1"]).isEmpty = false; rw [d2InvB1.2]; rfl)

/-- non-triviality of `d2RollbackB2a`, computed: after connecting `B2a` the wallet lists the coin `T1:0` (10)
    with balance 10; after disconnecting it again, no coin and balance 0 -/
theorem d2RollbackB2a_computed :
    (match filterBlock d2Ctx d2SB1 (readyWallets d2SB1 ["W1"]) d2B2a with
     | .ok (s1, _) =>
       ((coinsOf s1 "W1").map (fun x => (x.tx, x.idx, x.cred.amt)), walletBalance s1 "W1" 1,
        match disconnectBlock d2Ctx s1 2 with
        | .ok s2 => some ((coinsOf s2 "W1").length, walletBalance s2 "W1" 1)
        | .error _ => none)
     | .error _ => ([], none, none)) =
    ([("T1", 0, 10)], some ⟨10, 10, 0, 0⟩, some (0, some ⟨0, 0, 0, 0⟩)) := by decide

end MW.Lemmas.Ledger
