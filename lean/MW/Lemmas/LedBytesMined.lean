/-
  LedBytes, part 6 — insertMinedTx on bytes: the block record (create / append), the tx record, updateMinedBalance
  (existsUnspent with the recomposed credit key, spendCredit's value rewrite, withdrawGame, putDebit, deleteRawUnspent,
  the working balance), the removal of the tx's own pending version — and the simulation of each by the tuple-level
  step of MW.Model.Ledger (`recordMinedTx`, `spendOne`, `updateMinedBalance`, `unpendMined`, `insertMinedTx`,
  `addRelevantMined`), error exits included, `CanonS` kept.  removeDoubleSpends enters as a parameter `rdsB` with its
  simulation as a hypothesis (discharged in MW.Lemmas.LedBytesPend).
-/
import MW.Lemmas.LedBytesSim
import MW.Lemmas.LedBytesBlocks
namespace MW.LedBytes
open MW MW.Gen.Codec MW.Model.TxmgrCodec MW.TxmgrCodec MW.Model.Ledger

-- ------------------------------------------------------------------ the transaction record as the byte level sees it

/-- TxRecord: hash, the previous outpoints of the inputs, the number of outputs, the relevance lists, the block-file
    location -/
structure TxRecB where
  hash : Bytes
  cb : Bool
  ins : List OutPointB
  nOuts : Nat
  relIn : List RelB
  relOut : List RelB
  loc : TxLocB

/-- `tr` is the ledger model's reading of `trB` -/
structure TxRecB.Abs (E : Env) (trB : TxRecB) (tr : TxRec) : Prop where
  id : tr.tx.id = E.N.tx trB.hash
  cb : tr.tx.cb = trB.cb
  ins : tr.tx.ins.map (fun i => (i.tx, i.idx)) = trB.ins.map (nmOP E.N)
  nOuts : tr.tx.outs.length = trB.nOuts
  relIn : tr.relIn = trB.relIn.map (RelB.nm E.N)
  relOut : tr.relOut = trB.relOut.map (RelB.nm E.N)
  loc : tr.loc = E.loc trB.loc

structure TxRecB.WF (E : Env) (trB : TxRecB) : Prop where
  hash : trB.hash.length = 32
  ins : ∀ o ∈ trB.ins, o.WF = true
  nOuts : trB.nOuts ≤ 256 ^ 4
  relIn : ∀ r ∈ trB.relIn, r.WF E.N
  relOut : ∀ r ∈ trB.relOut, r.WF E.N
  loc : trB.loc.WF = true

theorem outPoint_wf {o : OutPointB} (h : o.WF = true) : o.hash.length = 32 ∧ o.index < 256 ^ 4 := by
  cases o
  simp [OutPointB.WF, OutPointB.vals, Fits, FitsV, wCanonicalOutPoint, Kind.isBytes] at h
  exact h

theorem outPoint_wf_mk {h : Bytes} {i : Nat} (hh : h.length = 32) (hi : i < 256 ^ 4) : (⟨h, i⟩ : OutPointB).WF = true := by
  simp [OutPointB.WF, OutPointB.vals, Fits, FitsV, wCanonicalOutPoint, Kind.isBytes, hh]
  exact hi

theorem blockMeta_wf' {b : BlockMetaB} (h : b.WF = true) : b.hash.length = 32 ∧ b.height < 256 ^ 8 := by
  cases b
  simp [BlockMetaB.WF, BlockMetaB.vals, Fits, FitsV, wValueUnspent, Kind.isBytes] at h
  exact ⟨h.2, h.1⟩

-- ------------------------------------------------------------------ recordMinedTx: block record + tx record

/-- insertMinedTx: existsBlockRecord, then putBlockRecord (valueBlockRecord) or appendRawBlockRecord + put; putTxRecord -/
def recordMinedTxB (txh : Bytes) (blk : BlockMetaB) (time : Nat) (loc : TxLocB) (bs : BStore) : M BStore :=
  let bk := keyBlockRecord blk.height
  match AMap.get bs.b bk with
  | none => pure { bs with b := AMap.put bs.b bk (valueBlockRecord blk.hash time txh),
                           t := AMap.put bs.t (keyTxRecord ⟨txh, blk⟩) (valueTxRecord loc) }
  | some v =>
    match appendRawBlockRecord v txh with
    | none => throw (.other "short block record")
    | some v' => pure { bs with b := AMap.put bs.b bk v', t := AMap.put bs.t (keyTxRecord ⟨txh, blk⟩) (valueTxRecord loc) }

/-- the counter of the block record at this height does not wrap (a block with 2^32 - 1 relevant transactions) -/
def BlockRoom (s : Store) (height : Nat) : Prop :=
  ∀ h txs, AMap.get s.blocks height = some (h, txs) → txs.length + 1 < 256 ^ 4

theorem recordMinedTx_on_bytes (E : Env) {bs : BStore} (hC : CanonS E bs) {txh : Bytes} {blk : BlockMetaB}
    (hs : StepWF txh blk) {time : Nat} (htime : time < 256 ^ 8) {loc : TxLocB} (hloc : loc.WF = true) (tr : TxRec)
    (hid : tr.tx.id = E.N.tx txh) (hl : tr.loc = E.loc loc) (hroom : BlockRoom (absStore E bs) blk.height) :
    ∃ bs', recordMinedTxB txh blk time loc bs = .ok bs' ∧ absStore E bs' = recordMinedTx (absStore E bs) tr (nmBlk E.N blk) ∧
      CanonS E bs' := by
  have LB := cdB_laws E.N
  have LT := cdT_laws E.N E.loc
  have hk : (cdB E.N).wfK blk.height := hs.ht
  have htk := txRecKey_wf hs
  have ht := abs_put LT hC.t (k := ⟨txh, blk⟩) (v := loc) htk hloc
  have hct := canon_put hC.t (cd := cdT E.N E.loc) (k := ⟨txh, blk⟩) (v := loc) htk hloc
  have e1 : (cdT E.N E.loc).nmK ⟨txh, blk⟩ = (tr.tx.id, nmBlk E.N blk) := by rw [hid]; rfl
  have e2 : (cdT E.N E.loc).nmV loc = tr.loc := hl.symm
  rw [e1, e2] at ht
  have ht' : absBucket (cdT E.N E.loc) (AMap.put bs.t (keyTxRecord ⟨txh, blk⟩) (valueTxRecord loc)) = _ := ht
  simp only [recordMinedTxB]
  cases hg : AMap.get bs.b (keyBlockRecord blk.height) with
  | none =>
    have hn := abs_get_none LB hC.b hk hg
    have hn' : AMap.get (absStore E bs).blocks (nmBlk E.N blk).height = none := hn
    have hwf : (cdB E.N).wfV ⟨blk.hash, time, [txh]⟩ :=
      ⟨hs.bh, htime, by simp, by simp, by intro t ht; simp at ht; rw [ht]; exact hs.txh⟩
    have hp := abs_put LB hC.b (k := blk.height) (v := ⟨blk.hash, time, [txh]⟩) hk hwf
    have hcp := canon_put hC.b (cd := cdB E.N) (k := blk.height) (v := ⟨blk.hash, time, [txh]⟩) hk hwf
    have hev : (cdB E.N).encV ⟨blk.hash, time, [txh]⟩ = valueBlockRecord blk.hash time txh := by
      rw [cdB_encV E.N _ hwf, valueBlockRecord_eq _ _ _ hs.bh htime hs.txh]
    rw [hev] at hp hcp
    have hp' : absBucket (cdB E.N) (AMap.put bs.b (keyBlockRecord blk.height) (valueBlockRecord blk.hash time txh))
        = AMap.put (absBucket (cdB E.N) bs.b) blk.height (E.N.blk blk.hash, [E.N.tx txh]) := hp
    refine ⟨{ bs with b := AMap.put bs.b (keyBlockRecord blk.height) (valueBlockRecord blk.hash time txh),
                      t := AMap.put bs.t (keyTxRecord ⟨txh, blk⟩) (valueTxRecord loc) }, rfl, ?_,
      { hC with b := hcp, t := hct }⟩
    unfold recordMinedTx
    rw [hn']
    simp only [absStore]
    rw [hp', ht', hid]; rfl
  | some v =>
    obtain ⟨r, hr, rfl, hg'⟩ := abs_get_some LB hC.b hk hg
    have hg'' : AMap.get (absStore E bs).blocks (nmBlk E.N blk).height = some (E.N.blk r.hash, r.txs.map E.N.tx) := hg'
    have hcnt : r.txs.length + 1 < 256 ^ 4 := by
      have := hroom _ _ hg''
      simpa using this
    have hwf : (cdB E.N).wfV ⟨r.hash, r.time, r.txs ++ [txh]⟩ := by
      refine ⟨hr.1, hr.2.1, by simp, by simpa using hcnt, ?_⟩
      intro t ht
      rcases List.mem_append.mp ht with h | h
      · exact hr.2.2.2.2 t h
      · simp at h; rw [h]; exact hs.txh
    have hap : appendRawBlockRecord ((cdB E.N).encV r) txh = some ((cdB E.N).encV ⟨r.hash, r.time, r.txs ++ [txh]⟩) := by
      rw [cdB_encV E.N r hr, cdB_encV E.N _ hwf]
      exact appendRawBlockRecord_brFlat r.hash r.time r.txs txh hr.1 hr.2.2.2.1 hs.txh
    have hp := abs_put LB hC.b (k := blk.height) (v := ⟨r.hash, r.time, r.txs ++ [txh]⟩) hk hwf
    have hcp := canon_put hC.b (cd := cdB E.N) (k := blk.height) (v := ⟨r.hash, r.time, r.txs ++ [txh]⟩) hk hwf
    have hp' : absBucket (cdB E.N) (AMap.put bs.b (keyBlockRecord blk.height) ((cdB E.N).encV ⟨r.hash, r.time, r.txs ++ [txh]⟩))
        = AMap.put (absBucket (cdB E.N) bs.b) blk.height (E.N.blk r.hash, (r.txs ++ [txh]).map E.N.tx) := hp
    simp only [hap]
    refine ⟨{ bs with b := AMap.put bs.b (keyBlockRecord blk.height) ((cdB E.N).encV ⟨r.hash, r.time, r.txs ++ [txh]⟩),
                      t := AMap.put bs.t (keyTxRecord ⟨txh, blk⟩) (valueTxRecord loc) }, rfl, ?_,
      { hC with b := hcp, t := hct }⟩
    unfold recordMinedTx
    rw [hg'']
    simp only [absStore]
    rw [hp', ht', hid]
    simp [nmBlk]

-- ------------------------------------------------------------------ updateMinedBalance

theorem canonicalUnspentKey_flat (u : UnspentKeyB) (h : u.WF = true) :
    canonicalUnspentKey u = u.wallet ++ (u.hash ++ be 4 u.index) := by
  have h' := h
  simp [UnspentKeyB.WF, UnspentKeyB.vals, Fits, FitsV, wCanonicalUnspentKey, Kind.isBytes] at h'
  rw [canonicalUnspentKey, encode_eq_flat _ _ (by decide) h]
  have t1 : u.wallet.take 42 = u.wallet := List.take_of_length_le (by omega)
  have t2 : u.hash.take 32 = u.hash := List.take_of_length_le (by omega)
  simp [flat, wCanonicalUnspentKey, spanBytes, UnspentKeyB.vals, t1, t2]

theorem valueUnspent_flat (b : BlockMetaB) (h : b.WF = true) : valueUnspent b = be 8 b.height ++ b.hash := by
  have h' := blockMeta_wf' h
  rw [valueUnspent, encode_eq_flat _ _ (by decide) h]
  have t2 : b.hash.take 32 = b.hash := List.take_of_length_le (by omega)
  simp [flat, wValueUnspent, spanBytes, BlockMetaB.vals, t2]

theorem keyCredit_flat (k : CredKeyB) (h : k.WF = true) :
    keyCredit k = k.hash ++ (be 8 k.block.height ++ (k.block.hash ++ be 4 k.index)) := by
  have h' := h
  simp [CredKeyB.WF, CredKeyB.vals, Fits, FitsV, wKeyCredit, Kind.isBytes] at h'
  rw [keyCredit, encode_eq_flat _ _ (by decide) h]
  have t1 : k.hash.take 32 = k.hash := List.take_of_length_le (by omega)
  have t2 : k.block.hash.take 32 = k.block.hash := List.take_of_length_le (by omega)
  simp [flat, wKeyCredit, spanBytes, CredKeyB.vals, t1, t2]

/-- **existsRawUnspent recomposes the credit key**: outpoint hash (key bytes 42..74) ‖ the 40-byte value ‖ index (key
    bytes 74..78) is `keyCredit` of the outpoint in the block the value names -/
theorem credKeyOfUnspent_enc (w h : Bytes) (i : Nat) (b : BlockMetaB) (hw : w.length = 42) (hh : h.length = 32)
    (hi : i < 256 ^ 4) (hb : b.WF = true) :
    credKeyOfUnspent (canonicalUnspentKey ⟨w, h, i⟩) (valueUnspent b) = some (keyCredit ⟨h, b, i⟩) := by
  have hu := unspentKey_wf hw hh hi
  obtain ⟨hbh, hbt⟩ := blockMeta_wf' hb
  have hck : (⟨h, b, i⟩ : CredKeyB).WF = true := by
    simp [CredKeyB.WF, CredKeyB.vals, Fits, FitsV, wKeyCredit, Kind.isBytes, hh, hbh]; exact ⟨hbt, hi⟩
  rw [canonicalUnspentKey_flat _ hu, valueUnspent_flat _ hb, keyCredit_flat _ hck]
  have hsp : rExistsRawUnspentKey.spans = [⟨"credKey", 42, 32, .bytes⟩, ⟨"credKey[72:76]", 74, 4, .bytes⟩] := rfl
  have r0 : readAt 42 32 (w ++ (h ++ be 4 i)) = h := readAt_block w h _ 42 32 hw.symm hh.symm (by decide)
  have r1 : readAt 74 4 (w ++ (h ++ be 4 i)) = be 4 i := by
    have e : w ++ (h ++ be 4 i) = (w ++ h) ++ (be 4 i ++ []) := by simp
    rw [e]; exact readAt_block _ _ _ 74 4 (by simp [hw, hh]) (be_length _ _).symm (by decide)
  have g : guardOk rExistsRawUnspentKey (w ++ (h ++ be 4 i)) = true := by
    simp [guardOk, rExistsRawUnspentKey, hw, hh, be_length]
  unfold credKeyOfUnspent
  rw [hsp]
  simp only [g, Bool.not_true, Bool.false_eq_true, if_false, r0, r1]
  have hf : Fits wExistsRawUnspentCredKey.spans [.b h, .b (be 8 b.height ++ b.hash), .b (be 4 i)] = true := by
    simp [Fits, FitsV, wExistsRawUnspentCredKey, Kind.isBytes, hh, hbh, be_length]
  rw [encode_eq_flat _ _ (by decide) hf]
  have t1 : h.take 32 = h := List.take_of_length_le (by omega)
  have t2 : (be 8 b.height ++ b.hash).take 40 = be 8 b.height ++ b.hash := List.take_of_length_le (by simp [be_length, hbh])
  have t3 : (be 4 i).take 4 = be 4 i := List.take_of_length_le (by simp [be_length])
  simp [flat, wExistsRawUnspentCredKey, spanBytes, t1, t2, t3]

theorem readAmtSpentVals_flag (a : Nat) (sp ch : Bool) (cl : ClassB) (ha : ¬ a > maxAmount) :
    readAmtSpentVals (some [.n a, .n (flagOf sp ch cl)]) = some (a, sp) := by
  cases sp <;> cases ch <;> cases cl <;>
    (unfold readAmtSpentVals; simp only [rCreditAmountSpent]; rw [if_neg ha]; rfl)

/-- fetchRawCreditAmountSpent reads amount and spent flag of any well-formed credit value (45 or 121 bytes) -/
theorem fetchAmountSpent_enc45_val (c : CreditValB) (h : c.WF) :
    fetchRawCreditAmountSpent (enc45 c) = some (c.amount, c.spent) := by
  have e := decodeBy_encode wValueUnspentCredit rCreditAmountSpent _ (by decide) (enc45_fits c h) (by decide)
  have hamt : ¬ c.amount > maxAmount := by have := h.1; omega
  rw [fetchRawCreditAmountSpent_eq]
  unfold enc45
  rw [e]
  exact readAmtSpentVals_flag c.amount c.spent c.change c.cls hamt

/-- withdrawGame's lookup: `len(v) == 0` -/
def gameMissing (lg : AMap.T Bytes Bytes) (k : Bytes) : Bool := ((AMap.get lg k).getD []).isEmpty

/-- updateMinedBalance, the writes of one iteration: spendCredit's put, withdrawGame, putDebit, deleteRawUnspent, the
    working balance -/
def spendApplyB (txh : Bytes) (blk : BlockMetaB) (sb : SB) (r : RelB) (op : OutPointB) (cblk : BlockMetaB) (ck cv' : Bytes)
    (amt : Nat) : SB :=
  let gk : GameKeyB := ⟨r.wallet, r.cls.isBinding, false, op.hash, cblk.height, op.index⟩
  ({ sb.1 with
      c := AMap.put sb.1.c ck cv',
      lg := if r.cls.isBinding || r.cls.isStaking then
              AMap.put (AMap.erase sb.1.lg (keyGameHistory gk)) (keyGameHistory { gk with withdrawn := true })
                Model.TxmgrCodec.valueGameHistory
            else sb.1.lg,
      d := AMap.put sb.1.d (keyDebit ⟨txh, blk, r.index⟩) (valueDebit amt ck),
      u := AMap.erase sb.1.u (canonicalUnspentKey ⟨r.wallet, op.hash, op.index⟩) },
   AMap.put sb.2 r.wallet (getBalB sb.2 r.wallet - amt))

/-- updateMinedBalance, body of the loop, on bytes: existsUnspent (canonicalUnspentKey, Get, the recomposed credit key),
    spendCredit (Get, the 45-byte guard, the value rewrite, the amount), readRawCreditKey + withdrawGame, putDebit,
    deleteRawUnspent, Amount.Sub -/
def spendOneB (txh : Bytes) (blk : BlockMetaB) (ins : List OutPointB) (sb : SB) (r : RelB) : M SB :=
  match ins[r.index]? with
  | none => throw (.other "input index")
  | some op =>
    let uk := canonicalUnspentKey ⟨r.wallet, op.hash, op.index⟩
    match AMap.get sb.1.u uk with
    | none => throw .creditNotFound
    | some uv =>
      match credKeyOfUnspent uk uv with
      | none => throw (.other "short unspent key")
      | some ck =>
        match AMap.get sb.1.c ck with
        | none => throw (.other "short credit value")
        | some cv =>
          match spendCreditValue cv ⟨txh, blk, r.index⟩, fetchRawCreditAmountSpent cv, readRawCreditKey ck with
          | .ok cv', some (amt, _), some k =>
            if (r.cls.isBinding || r.cls.isStaking) &&
                gameMissing sb.1.lg (keyGameHistory ⟨r.wallet, r.cls.isBinding, false, op.hash, k.block.height, op.index⟩) then
              throw (.other "withdraw game not found")
            else if getBalB sb.2 r.wallet < amt then throw (.other "balance underflow")
            else pure (spendApplyB txh blk sb r op k.block ck cv' amt)
          | _, _, _ => throw (.other "short v read")

theorem getElem?_map_eq {α β γ : Type} (f : α → γ) (g : β → γ) (l : List α) (l' : List β) (h : l.map f = l'.map g) (n : Nat) :
    (l[n]?).map f = (l'[n]?).map g := by
  rw [← List.getElem?_map, ← List.getElem?_map, h]

theorem encCredit_spent_length (c : CreditValB) (hc : c.WF) (dk : CredKeyB) (hd : dk.WFd = true) :
    (enc45 c ++ keyDebit dk).length = 121 := by
  rw [List.length_append, enc45_length c hc, keyDebit_length dk hd]

theorem spendCreditValue_long (v : Bytes) (dk : CredKeyB) (h : v.length ≠ 45) : spendCreditValue v dk = .error () := by
  have hsp : wSpendCredit.spans = [⟨"old", 0, 45, .bytes⟩, ⟨"flag8", 8, 1, .byte⟩, ⟨"spender.txHash", 45, 32, .bytes⟩,
      ⟨"spender.block.Height", 77, 8, .uint⟩, ⟨"spender.block.Hash", 85, 32, .bytes⟩, ⟨"spender.index", 117, 4, .uint⟩] := rfl
  unfold spendCreditValue
  rw [hsp]
  simp only [ne_eq, h, not_false_eq_true, if_true]

/-- the writes of one iteration of updateMinedBalance commute -/
theorem spendApply_on_bytes (E : Env) {sb : SB} (hC : CanonS E sb.1) {txh : Bytes} {blk : BlockMetaB} (hs : StepWF txh blk)
    {r : RelB} (hr : r.WF E.N) {op : OutPointB} (hoh : op.hash.length = 32) (hoi : op.index < 256 ^ 4)
    {cblk : BlockMetaB} (hcb : cblk.WF = true) {c : CreditValB} (hc : c.WF) (tr : TxRec)
    (hid : tr.tx.id = E.N.tx txh) (i : Inp) (hitx : i.tx = E.N.tx op.hash) (hiidx : i.idx = op.index) :
    absSB E (spendApplyB txh blk sb r op cblk (keyCredit ⟨op.hash, cblk, op.index⟩)
        (enc45 { c with spent := true } ++ keyDebit ⟨txh, blk, r.index⟩) c.amount)
      = spendApply tr (nmBlk E.N blk) (absSB E sb) (r.nm E.N) i (nmBlk E.N cblk) (nmCredit E.N (c, none)) ∧
    CanonS E (spendApplyB txh blk sb r op cblk (keyCredit ⟨op.hash, cblk, op.index⟩)
        (enc45 { c with spent := true } ++ keyDebit ⟨txh, blk, r.index⟩) c.amount).1 := by
  have LU := cdU_laws E.N
  have LC := cdC_laws E.N
  have LG := cdG_laws E.N
  have LD := cdD_laws E.N
  obtain ⟨hcbh, hcbt⟩ := blockMeta_wf' hcb
  have hsc : StepWF op.hash cblk := ⟨hoh, hcbh, hcbt⟩
  have hck := credKey_wf hsc hoi
  have huk := unspentKey_wf hr.wallet hoh hoi
  have hdkwf := debitKey_wf hs hr.index
  have hgk := gameKey_wf hr.wallet hoh r.cls.isBinding false hcbt hoi
  have hgk' := gameKey_wf hr.wallet hoh r.cls.isBinding true hcbt hoi
  have hwc : (cdC E.N).wfV ({ c with spent := true }, some ⟨txh, blk, r.index⟩) :=
    ⟨hc, rfl, fun dk h => by cases h; exact hdkwf⟩
  have hwd : (cdD E.N).wfV (c.amount, ⟨op.hash, cblk, op.index⟩) := ⟨Nat.lt_of_le_of_lt hc.1 maxAmount_lt, hck⟩
  have pc : absBucket (cdC E.N) (AMap.put sb.1.c (keyCredit ⟨op.hash, cblk, op.index⟩)
        (enc45 { c with spent := true } ++ keyDebit ⟨txh, blk, r.index⟩))
      = AMap.put (absBucket (cdC E.N) sb.1.c) ⟨i.tx, nmBlk E.N cblk, i.idx⟩
          (nmCredit E.N ({ c with spent := true }, some ⟨txh, blk, r.index⟩)) := by
    rw [hitx, hiidx]
    exact abs_put LC hC.c (k := ⟨op.hash, cblk, op.index⟩) (v := ({ c with spent := true }, some ⟨txh, blk, r.index⟩)) hck hwc
  have cc : Canon (cdC E.N) (AMap.put sb.1.c (keyCredit ⟨op.hash, cblk, op.index⟩)
        (enc45 { c with spent := true } ++ keyDebit ⟨txh, blk, r.index⟩)) :=
    canon_put hC.c (cd := cdC E.N) (k := ⟨op.hash, cblk, op.index⟩) (v := ({ c with spent := true }, some ⟨txh, blk, r.index⟩)) hck hwc
  have pd : absBucket (cdD E.N) (AMap.put sb.1.d (keyDebit ⟨txh, blk, r.index⟩) (valueDebit c.amount (keyCredit ⟨op.hash, cblk, op.index⟩)))
      = AMap.put (absBucket (cdD E.N) sb.1.d) ⟨tr.tx.id, nmBlk E.N blk, r.index⟩ (c.amount, (⟨i.tx, nmBlk E.N cblk, i.idx⟩ : CredKey)) := by
    rw [hitx, hiidx, hid]
    exact abs_put LD hC.d (k := ⟨txh, blk, r.index⟩) (v := (c.amount, ⟨op.hash, cblk, op.index⟩)) hdkwf hwd
  have cdd : Canon (cdD E.N) (AMap.put sb.1.d (keyDebit ⟨txh, blk, r.index⟩) (valueDebit c.amount (keyCredit ⟨op.hash, cblk, op.index⟩))) :=
    canon_put hC.d (cd := cdD E.N) (k := ⟨txh, blk, r.index⟩) (v := (c.amount, ⟨op.hash, cblk, op.index⟩)) hdkwf hwd
  have pu : absBucket (cdU E.N) (AMap.erase sb.1.u (canonicalUnspentKey ⟨r.wallet, op.hash, op.index⟩))
      = AMap.erase (absBucket (cdU E.N) sb.1.u) (E.N.wal r.wallet, i.tx, i.idx) := by
    rw [hitx, hiidx]; exact abs_erase LU hC.u huk
  have cu := canon_erase hC.u (cd := cdU E.N) (canonicalUnspentKey ⟨r.wallet, op.hash, op.index⟩)
  have pg1 : absBucket (cdG E.N) (AMap.erase sb.1.lg
        (keyGameHistory ⟨r.wallet, r.cls.isBinding, false, op.hash, cblk.height, op.index⟩))
      = AMap.erase (absBucket (cdG E.N) sb.1.lg) ⟨E.N.wal r.wallet, r.cls.isBinding, false, i.tx, cblk.height, i.idx⟩ := by
    rw [hitx, hiidx]; exact abs_erase LG hC.lg hgk
  have cg1 := canon_erase hC.lg (cd := cdG E.N) (keyGameHistory ⟨r.wallet, r.cls.isBinding, false, op.hash, cblk.height, op.index⟩)
  have pg2 : absBucket (cdG E.N) (AMap.put (AMap.erase sb.1.lg
        (keyGameHistory ⟨r.wallet, r.cls.isBinding, false, op.hash, cblk.height, op.index⟩))
      (keyGameHistory ⟨r.wallet, r.cls.isBinding, true, op.hash, cblk.height, op.index⟩)
      Model.TxmgrCodec.valueGameHistory)
      = AMap.put (AMap.erase (absBucket (cdG E.N) sb.1.lg) ⟨E.N.wal r.wallet, r.cls.isBinding, false, i.tx, cblk.height, i.idx⟩)
          ⟨E.N.wal r.wallet, r.cls.isBinding, true, i.tx, cblk.height, i.idx⟩ () := by
    rw [← pg1, hitx, hiidx]
    exact abs_put LG cg1 (k := ⟨r.wallet, r.cls.isBinding, true, op.hash, cblk.height, op.index⟩) (v := ()) hgk' trivial
  have cg2 := canon_put cg1 (cd := cdG E.N) (k := ⟨r.wallet, r.cls.isBinding, true, op.hash, cblk.height, op.index⟩) (v := ()) hgk' trivial
  have pb : absBals E.N (AMap.put sb.2 r.wallet (getBalB sb.2 r.wallet - c.amount))
      = AMap.put (absBals E.N sb.2) (E.N.wal r.wallet) (getBal (absBals E.N sb.2) (E.N.wal r.wallet) - c.amount) := by
    rw [absBals_put, getBal_abs]
  by_cases hbs : (r.cls.isBinding || r.cls.isStaking) = true
  · constructor
    · simp only [absSB, spendApplyB, spendApply, absStore, hbs, if_true, RelB.nm]
      rw [pc, pd, pu, pg2, pb, hid]
      rfl
    · simp only [spendApplyB, hbs, if_true]
      exact { hC with c := cc, d := cdd, u := cu, lg := cg2 }
  · constructor
    · simp only [absSB, spendApplyB, spendApply, absStore, hbs, Bool.false_eq_true, if_false, RelB.nm]
      rw [pc, pd, pu, pb, hid]
      rfl
    · simp only [spendApplyB, hbs, Bool.false_eq_true, if_false]
      exact { hC with c := cc, d := cdd, u := cu }

/-- **spendOne on bytes** -/
theorem spendOne_on_bytes (E : Env) {sb : SB} (hC : CanonS E sb.1) {txh : Bytes} {blk : BlockMetaB} (hs : StepWF txh blk)
    {ins : List OutPointB} (hins : ∀ o ∈ ins, o.WF = true) {r : RelB} (hr : r.WF E.N) (tr : TxRec)
    (hid : tr.tx.id = E.N.tx txh) (hti : tr.tx.ins.map (fun i => (i.tx, i.idx)) = ins.map (nmOP E.N)) :
    (spendOneB txh blk ins sb r).map (absSB E) = spendOne tr (nmBlk E.N blk) (absSB E sb) (r.nm E.N) ∧
    ∀ sb', spendOneB txh blk ins sb r = .ok sb' → CanonS E sb'.1 := by
  have LU := cdU_laws E.N
  have LC := cdC_laws E.N
  have LG := cdG_laws E.N
  have LD := cdD_laws E.N
  have hget := getElem?_map_eq _ _ _ _ hti r.index
  unfold spendOneB spendOne
  have hidx : (r.nm E.N).index = r.index := rfl
  rw [hidx]
  cases hop : ins[r.index]? with
  | none =>
    rw [hop] at hget
    cases hi : tr.tx.ins[r.index]? with
    | some i => rw [hi] at hget; cases hget
    | none => exact ⟨rfl, fun _ h => by cases h⟩
  | some op =>
    rw [hop] at hget
    cases hi : tr.tx.ins[r.index]? with
    | none => rw [hi] at hget; cases hget
    | some i =>
      rw [hi] at hget
      have hio : (i.tx, i.idx) = nmOP E.N op := Option.some.inj hget
      have hitx : i.tx = E.N.tx op.hash := congrArg Prod.fst hio
      have hiidx : i.idx = op.index := congrArg Prod.snd hio
      obtain ⟨hoh, hoi⟩ := outPoint_wf (hins op (List.mem_of_getElem? hop))
      have huk := unspentKey_wf hr.wallet hoh hoi
      have eU : (cdU E.N).nmK ⟨r.wallet, op.hash, op.index⟩ = ((r.nm E.N).wallet, i.tx, i.idx) := by
        rw [hitx, hiidx]; rfl
      simp only []
      cases hgu : AMap.get sb.1.u (canonicalUnspentKey ⟨r.wallet, op.hash, op.index⟩) with
      | none =>
        have := abs_get_none LU hC.u huk hgu
        rw [eU] at this
        have this' : AMap.get (absSB E sb).1.unspent ((r.nm E.N).wallet, i.tx, i.idx) = none := this
        simp only [this']
        exact ⟨rfl, fun _ h => by cases h⟩
      | some uv =>
        obtain ⟨cblk, hcb, rfl, hgu'⟩ := abs_get_some LU hC.u huk hgu
        rw [eU] at hgu'
        have hgu'' : AMap.get (absSB E sb).1.unspent ((r.nm E.N).wallet, i.tx, i.idx) = some (nmBlk E.N cblk) := hgu'
        obtain ⟨hcbh, hcbt⟩ := blockMeta_wf' hcb
        have hsc : StepWF op.hash cblk := ⟨hoh, hcbh, hcbt⟩
        have hck := credKey_wf hsc hoi
        have hrec : credKeyOfUnspent (canonicalUnspentKey ⟨r.wallet, op.hash, op.index⟩) ((cdU E.N).encV cblk)
            = some (keyCredit ⟨op.hash, cblk, op.index⟩) := credKeyOfUnspent_enc _ _ _ _ hr.wallet hoh hoi hcb
        have eC : (cdC E.N).nmK ⟨op.hash, cblk, op.index⟩ = ⟨i.tx, nmBlk E.N cblk, i.idx⟩ := by rw [hitx, hiidx]; rfl
        simp only [hgu'', hrec]
        cases hgc : AMap.get sb.1.c (keyCredit ⟨op.hash, cblk, op.index⟩) with
        | none =>
          have := abs_get_none LC hC.c hck hgc
          rw [eC] at this
          have this' : AMap.get (absSB E sb).1.credits ⟨i.tx, nmBlk E.N cblk, i.idx⟩ = none := this
          simp only [this']
          exact ⟨rfl, fun _ h => by cases h⟩
        | some cv =>
          obtain ⟨x, hx, rfl, hgc'⟩ := abs_get_some LC hC.c hck hgc
          rw [eC] at hgc'
          have hgc'' : AMap.get (absSB E sb).1.credits ⟨i.tx, nmBlk E.N cblk, i.idx⟩ = some (nmCredit E.N x) := hgc'
          simp only [hgc'']
          obtain ⟨c, sp⟩ := x
          obtain ⟨hc, hsp, hdk⟩ := hx
          have hdkwf := debitKey_wf hs hr.index
          cases sp with
          | some dk0 =>
            have hsp' : c.spent = true := hsp
            have hlen : ((cdC E.N).encV (c, some dk0)).length ≠ 45 := by
              show (enc45 c ++ keyDebit dk0).length ≠ 45
              rw [encCredit_spent_length c hc dk0 (hdk dk0 rfl)]; decide
            have hspent : (nmCredit E.N (c, some dk0)).spent = true := hsp'
            rw [spendCreditValue_long _ _ hlen]
            simp only [hspent, if_true]
            exact ⟨rfl, fun _ h => by cases h⟩
          | none =>
            have hsp' : c.spent = false := hsp
            have hspent : (nmCredit E.N (c, none)).spent = false := hsp'
            have hev : (cdC E.N).encV (c, none) = enc45 c := rfl
            have hrk : readRawCreditKey (keyCredit ⟨op.hash, cblk, op.index⟩) = some ⟨op.hash, cblk, op.index⟩ :=
              readRawCreditKey_keyCredit _ hck
            rw [hev, spendCreditValue_enc45 c hc hsp' _ hdkwf, fetchAmountSpent_enc45_val c hc, hrk]
            simp only [hspent, Bool.false_eq_true, if_false]
            -- the deposit record
            have hgk := gameKey_wf hr.wallet hoh r.cls.isBinding false hcbt hoi
            have hgk' := gameKey_wf hr.wallet hoh r.cls.isBinding true hcbt hoi
            have eG : (cdG E.N).nmK ⟨r.wallet, r.cls.isBinding, false, op.hash, cblk.height, op.index⟩
                = ⟨(r.nm E.N).wallet, (r.nm E.N).out.cls.isBinding, false, i.tx, (nmBlk E.N cblk).height, i.idx⟩ := by
              rw [hitx, hiidx]; rfl
            have hmiss : gameMissing sb.1.lg (keyGameHistory ⟨r.wallet, r.cls.isBinding, false, op.hash, cblk.height, op.index⟩)
                = (AMap.get (absSB E sb).1.game
                    ⟨(r.nm E.N).wallet, (r.nm E.N).out.cls.isBinding, false, i.tx, (nmBlk E.N cblk).height, i.idx⟩).isNone := by
              rw [← eG]
              unfold gameMissing
              cases hgg : AMap.get sb.1.lg (keyGameHistory ⟨r.wallet, r.cls.isBinding, false, op.hash, cblk.height, op.index⟩) with
              | none =>
                have := abs_get_none LG hC.lg hgk hgg
                have this' : AMap.get (absSB E sb).1.game ((cdG E.N).nmK ⟨r.wallet, r.cls.isBinding, false, op.hash, cblk.height, op.index⟩) = none := this
                rw [this']; rfl
              | some gv =>
                obtain ⟨u, _, rfl, hgg'⟩ := abs_get_some LG hC.lg hgk hgg
                have this' : AMap.get (absSB E sb).1.game ((cdG E.N).nmK ⟨r.wallet, r.cls.isBinding, false, op.hash, cblk.height, op.index⟩) = some () := hgg'
                rw [this']; rfl
            have hcls : (r.nm E.N).out.cls = r.cls := rfl
            have hbal : getBal (absSB E sb).2 (r.nm E.N).wallet = getBalB sb.2 r.wallet := getBal_abs E.N sb.2 r.wallet
            have hamt : (nmCredit E.N (c, none)).amt = c.amount := rfl
            rw [hmiss, hcls, hbal, hamt]
            by_cases hg1 : ((r.cls.isBinding || r.cls.isStaking) &&
                (AMap.get (absSB E sb).1.game
                  ⟨(r.nm E.N).wallet, r.cls.isBinding, false, i.tx, (nmBlk E.N cblk).height, i.idx⟩).isNone) = true
            · simp only [hg1, if_true]
              exact ⟨rfl, fun _ h => by cases h⟩
            · simp only [hg1, Bool.false_eq_true, if_false]
              by_cases hb : getBalB sb.2 r.wallet < c.amount
              · simp only [hb, if_true]
                exact ⟨rfl, fun _ h => by cases h⟩
              · simp only [hb, if_false]
                have hap := spendApply_on_bytes E hC hs hr hoh hoi hcb hc tr hid i hitx hiidx
                refine ⟨?_, fun sb' h => ?_⟩
                · exact congrArg Except.ok hap.1
                · cases h; exact hap.2

/-- updateMinedBalance on bytes -/
def updateMinedBalanceB (txh : Bytes) (blk : BlockMetaB) (ins : List OutPointB) (sb : SB) (rels : List RelB) : M SB :=
  rels.foldlM (spendOneB txh blk ins) sb

theorem updateMinedBalance_on_bytes (E : Env) {sb : SB} (hC : CanonS E sb.1) {txh : Bytes} {blk : BlockMetaB}
    (hs : StepWF txh blk) {ins : List OutPointB} (hins : ∀ o ∈ ins, o.WF = true) {rels : List RelB}
    (hrs : ∀ r ∈ rels, r.WF E.N) (tr : TxRec) (hid : tr.tx.id = E.N.tx txh)
    (hti : tr.tx.ins.map (fun i => (i.tx, i.idx)) = ins.map (nmOP E.N)) (hrel : tr.relIn = rels.map (RelB.nm E.N)) :
    (updateMinedBalanceB txh blk ins sb rels).map (absSB E)
      = updateMinedBalance (absStore E sb.1) (absBals E.N sb.2) tr (nmBlk E.N blk) ∧
    ∀ sb', updateMinedBalanceB txh blk ins sb rels = .ok sb' → CanonS E sb'.1 := by
  unfold updateMinedBalanceB updateMinedBalance
  rw [hrel]
  exact foldlM_sim (absSB E) (fun sb => CanonS E sb.1) (spendOneB txh blk ins) (spendOne tr (nmBlk E.N blk))
    (RelB.nm E.N) (RelB.WF E.N) (fun b a hb ha => spendOne_on_bytes E hb hs hins ha tr hid hti) rels sb hC hrs

-- ------------------------------------------------------------------ unpendMined

/-- insertMinedTx: existsRawUnmined, deleteUnminedCredits (one delete per output), deleteRawUnmined -/
def unpendMinedB (txh : Bytes) (nOuts : Nat) (bs : BStore) : BStore :=
  if (AMap.get bs.m txh).isSome then
    { bs with mc := (List.range nOuts).foldl (fun mc i => AMap.erase mc (canonicalOutPoint ⟨txh, i⟩)) bs.mc,
              m := AMap.erase bs.m txh }
  else bs

theorem deleteUnminedCredits_eq (s : Store) (tx : Tx) :
    deleteUnminedCredits s tx
      = { s with pendCred := (List.range tx.outs.length).foldl (fun m i => AMap.erase m (tx.id, i)) s.pendCred } := by
  unfold deleteUnminedCredits
  generalize List.range tx.outs.length = l
  induction l generalizing s with
  | nil => rfl
  | cons a l ih => simp only [List.foldl_cons]; rw [ih]

theorem foldl_erase_mc (E : Env) (txh : Bytes) (hh : txh.length = 32) : ∀ (l : List Nat) (mc : AMap.T Bytes Bytes),
    Canon (cdMC E.N) mc → (∀ i ∈ l, i < 256 ^ 4) →
    absBucket (cdMC E.N) (l.foldl (fun mc i => AMap.erase mc (canonicalOutPoint ⟨txh, i⟩)) mc)
      = l.foldl (fun m i => AMap.erase m (E.N.tx txh, i)) (absBucket (cdMC E.N) mc) ∧
    Canon (cdMC E.N) (l.foldl (fun mc i => AMap.erase mc (canonicalOutPoint ⟨txh, i⟩)) mc) := by
  intro l
  induction l with
  | nil => intro mc hc _; exact ⟨rfl, hc⟩
  | cons a l ih =>
    intro mc hc hl
    simp only [List.foldl_cons]
    have hk : (cdMC E.N).wfK ⟨txh, a⟩ := outPoint_wf_mk hh (hl a List.mem_cons_self)
    have h1 := abs_erase (cdMC_laws E.N) hc hk
    have h1' : absBucket (cdMC E.N) (AMap.erase mc (canonicalOutPoint ⟨txh, a⟩))
        = AMap.erase (absBucket (cdMC E.N) mc) (E.N.tx txh, a) := h1
    obtain ⟨i1, i2⟩ := ih (AMap.erase mc (canonicalOutPoint ⟨txh, a⟩)) (canon_erase hc _)
      (fun i hi => hl i (List.mem_cons_of_mem _ hi))
    rw [← h1']
    exact ⟨i1, i2⟩

theorem unpendMined_on_bytes (E : Env) {bs : BStore} (hC : CanonS E bs) {txh : Bytes} (hh : txh.length = 32) {nOuts : Nat}
    (hn : nOuts ≤ 256 ^ 4) (tx : Tx) (hid : tx.id = E.N.tx txh) (hno : tx.outs.length = nOuts) :
    absStore E (unpendMinedB txh nOuts bs) = unpendMined (absStore E bs) tx ∧ CanonS E (unpendMinedB txh nOuts bs) := by
  have LM := cdM_laws E.N E.deser
  have hk : (cdM E.N E.deser).wfK txh := hh
  have hhas := abs_has LM hC.m hk
  have hhas' : (AMap.get (absStore E bs).pending tx.id).isSome = (AMap.get bs.m txh).isSome := by rw [hid]; exact hhas
  unfold unpendMinedB unpendMined
  rw [hhas']
  by_cases hp : (AMap.get bs.m txh).isSome = true
  · simp only [hp, if_true]
    obtain ⟨f1, f2⟩ := foldl_erase_mc E txh hh (List.range nOuts) bs.mc hC.mc
      (fun i hi => Nat.lt_of_lt_of_le (List.mem_range.mp hi) hn)
    have em := abs_erase LM hC.m hk
    have em' : absBucket (cdM E.N E.deser) (AMap.erase bs.m txh) = AMap.erase (absBucket (cdM E.N E.deser) bs.m) (E.N.tx txh) := em
    refine ⟨?_, { hC with mc := f2, m := canon_erase hC.m _ }⟩
    rw [deleteUnminedCredits_eq]
    simp only [absStore]
    rw [f1, em', hid, hno]
  · simp only [hp, Bool.false_eq_true, if_false]
    exact ⟨trivial, hC⟩

-- ------------------------------------------------------------------ insertMinedTx, AddRelevantTx (mined)

/-- what a byte-level removeDoubleSpends must satisfy -/
def RdsSim (E : Env) (own : Own) (rdsB : BStore → BStore) (tr : TxRec) : Prop :=
  ∀ bs, CanonS E bs → absStore E (rdsB bs) = removeDoubleSpends own (absStore E bs) tr ∧ CanonS E (rdsB bs)

/-- insertMinedTx on bytes (the flag: the tx record existed) -/
def insertMinedTxB (rdsB : BStore → BStore) (trB : TxRecB) (blk : BlockMetaB) (time : Nat) (sb : SB) : M (SB × Bool) :=
  if (AMap.get sb.1.t (keyTxRecord ⟨trB.hash, blk⟩)).isSome then pure (sb, true)
  else do
    let bs1 ← recordMinedTxB trB.hash blk time trB.loc sb.1
    let sb2 ← updateMinedBalanceB trB.hash blk trB.ins (bs1, sb.2) trB.relIn
    pure ((rdsB (unpendMinedB trB.hash trB.nOuts sb2.1), sb2.2), false)

def absIns (E : Env) (x : SB × Bool) : Store × Bals × Bool := (absStore E x.1.1, absBals E.N x.1.2, x.2)

theorem insertMinedTx_on_bytes (E : Env) (own : Own) {sb : SB} (hC : CanonS E sb.1) {trB : TxRecB} {blk : BlockMetaB}
    (hw : trB.WF E) (hbh : blk.hash.length = 32) (hbt : blk.height < 256 ^ 8) {time : Nat} (htime : time < 256 ^ 8)
    {tr : TxRec} (ha : trB.Abs E tr) {rdsB : BStore → BStore} (hrds : RdsSim E own rdsB tr)
    (hroom : BlockRoom (absStore E sb.1) blk.height) :
    (insertMinedTxB rdsB trB blk time sb).map (absIns E)
      = insertMinedTx own (absStore E sb.1) (absBals E.N sb.2) tr (nmBlk E.N blk) ∧
    ∀ x, insertMinedTxB rdsB trB blk time sb = .ok x → CanonS E x.1.1 := by
  have hs : StepWF trB.hash blk := ⟨hw.hash, hbh, hbt⟩
  have htk := txRecKey_wf hs
  have hhas := abs_has (cdT_laws E.N E.loc) hC.t htk
  have hhas' : (AMap.get (absStore E sb.1).txrecs (tr.tx.id, nmBlk E.N blk)).isSome
      = (AMap.get sb.1.t (keyTxRecord ⟨trB.hash, blk⟩)).isSome := by rw [ha.id]; exact hhas
  unfold insertMinedTxB insertMinedTx
  rw [hhas']
  by_cases hp : (AMap.get sb.1.t (keyTxRecord ⟨trB.hash, blk⟩)).isSome = true
  · simp only [hp, if_true]
    exact ⟨rfl, fun x h => by cases h; exact hC⟩
  · simp only [hp, Bool.false_eq_true, if_false]
    obtain ⟨bs1, h1, h1a, h1c⟩ := recordMinedTx_on_bytes E hC hs htime hw.loc tr ha.id ha.loc hroom
    obtain ⟨u1, u2⟩ := updateMinedBalance_on_bytes E (sb := (bs1, sb.2)) h1c hs hw.ins hw.relIn tr ha.id ha.ins ha.relIn
    rw [h1]
    simp only [bind, Except.bind]
    rw [← h1a]
    have u1' : updateMinedBalance (absStore E bs1) (absBals E.N sb.2) tr (nmBlk E.N blk)
        = (updateMinedBalanceB trB.hash blk trB.ins (bs1, sb.2) trB.relIn).map (absSB E) := u1.symm
    rw [u1']
    cases hf : updateMinedBalanceB trB.hash blk trB.ins (bs1, sb.2) trB.relIn with
    | error e => exact ⟨rfl, fun x h => by cases h⟩
    | ok sb2 =>
      obtain ⟨p1, p2⟩ := unpendMined_on_bytes E (u2 sb2 hf) hw.hash hw.nOuts tr.tx ha.id ha.nOuts
      obtain ⟨r1, r2⟩ := hrds _ p2
      refine ⟨?_, fun x h => ?_⟩
      · show Except.ok (absIns E _) = Except.ok _
        simp only [absIns, absSB]
        rw [r1, p1]
      · cases h; exact r2

/-- AddRelevantTx for a mined transaction, on bytes: InsertTx then AddCredits -/
def addRelevantMinedB (p : Params) (rdsB : BStore → BStore) (trB : TxRecB) (blk : BlockMetaB) (time : Nat) (sb : SB) : M SB := do
  let x ← insertMinedTxB rdsB trB blk time sb
  addCreditsB p trB.hash trB.cb blk x.1 trB.relOut

/-- **AddRelevantTx (mined) on bytes** -/
theorem addRelevantMined_on_bytes (E : Env) (p : Params) (own : Own) {sb : SB} (hC : CanonS E sb.1) {trB : TxRecB}
    {blk : BlockMetaB} (hw : trB.WF E) (hbh : blk.hash.length = 32) (hbt : blk.height < 256 ^ 8) {time : Nat}
    (htime : time < 256 ^ 8) {tr : TxRec} (ha : trB.Abs E tr) {rdsB : BStore → BStore} (hrds : RdsSim E own rdsB tr)
    (hroom : BlockRoom (absStore E sb.1) blk.height) :
    (addRelevantMinedB p rdsB trB blk time sb).map (absSB E)
      = addRelevantMined p own (absStore E sb.1) (absBals E.N sb.2) tr (nmBlk E.N blk) ∧
    ∀ sb', addRelevantMinedB p rdsB trB blk time sb = .ok sb' → CanonS E sb'.1 := by
  obtain ⟨i1, i2⟩ := insertMinedTx_on_bytes E own hC hw hbh hbt htime ha hrds hroom
  unfold addRelevantMinedB addRelevantMined
  rw [← i1]
  cases hf : insertMinedTxB rdsB trB blk time sb with
  | error e => exact ⟨rfl, fun _ h => by cases h⟩
  | ok x =>
    have hs : StepWF trB.hash blk := ⟨hw.hash, hbh, hbt⟩
    obtain ⟨a1, a2⟩ := addCredits_on_bytes E p (sb := x.1) (i2 x hf) hs hw.relOut tr ha.id ha.relOut
    rw [ha.cb] at a1 a2
    exact ⟨a1, a2⟩

end MW.LedBytes
