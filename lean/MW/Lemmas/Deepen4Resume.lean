/-
  C06 deepening (round 4), part 6: RESUMPTION ANYWHERE.  A crash between ANY two steps of an import — rescan at any
  cursor, follower lagging behind the node or sitting on a branch the node has left, batches already run against a
  moved node — ends, after Start's catch-up and the re-queued rescan, in the same confirmed books as the run that is
  not interrupted (the follower works off its queue, the worker finishes).  The same for a removal interrupted
  between any two iterations while no notification is pending.
-/
import MW.Lemmas.Deepen4Main
namespace MW.Lemmas.Deepen4
open MW MW.Model.Ledger MW.Model.Persist MW.Spec.Persist MW.Spec.Chain MW.Spec.Books MW.Lemmas.Ledger
  MW.Lemmas.PersistOp MW.Lemmas.PersistFault MW.Lemmas.PersistCrash MW.Lemmas.Deepen3 MW.Lemmas.ImportJoin

/-- the follower works off everything that is queued -/
def handleAll (cfg : Cfg) (cr : Bool) (x : SysQ) : SysQ :=
  runT cfg cr x (List.replicate x.queue.length (.q .handle))

theorem handleN_JI {cfg : Cfg} {G : Block} (E : StaticOK cfg.st G) (cr : Bool) {k : Skel} {w : Wid} :
    ∀ (n : Nat) (x : SysQ), x.queue.length = n → JI cfg G x k w →
      JI cfg G (runT cfg cr x (List.replicate n (.q .handle))) k w ∧
      (runT cfg cr x (List.replicate n (.q .handle))).queue = [] := by
  intro n
  induction n with
  | zero =>
    intro x hn hJ
    exact ⟨hJ, List.eq_nil_of_length_eq_zero hn⟩
  | succ n ih =>
    intro x hn hJ
    rw [List.replicate_succ, runT_cons]
    have hq : (stepT cfg cr x (.q .handle)).queue = x.queue.tail := by
      show (stepQ cfg.st cfg.n cr x .handle).queue = _
      rw [stepQ_queue]
    apply ih
    · rw [hq, List.length_tail, hn]; rfl
    · exact JI_handle E cr hJ

/-- RESUMPTION ANYWHERE (import), from any state of an import window (`JI`: by `JT_run` every state a history
    reaches inside the window is one): run A is not interrupted — the follower handles what is queued (stale
    notifications included), then the worker finishes the rescan; run B crashes NOW — Start succeeds,
    nothing is queued afterwards, the rescan is in the worker's queue again whenever the stored status says
    "importing" — and then the worker finishes.  Both end with nothing queued, the restored wallet ready, the same
    keystore buckets, key cache, tip copy, synced-to and extensionally equal confirmed buckets, equal balances. -/
theorem resumption_from_JI {cfg : Cfg} {G : Block} (E : StaticOK cfg.st G) (hb : cfg.batch > 0) {x : SysQ} {k : Skel}
    {w : Wid} (hJ : JI cfg G x k w) (hshort : ∀ c ∈ k.hist, c.length + cfg.batch < 2 ^ 64)
    (fuel : Nat) (hfuel : k.chain.length + 1 ≤ fuel) :
    (Model.Persist.crash (envAt cfg.st x.chain) cfg.n x.P).ok = true ∧
    (importDone (stepQ cfg.st cfg.n true x .crash).P w = false →
      (stepQ cfg.st cfg.n true x .crash).V.tasks.contains (.imp w) = true) ∧
    JQ cfg.st G (stepT cfg false (handleAll cfg false x) (.importDrain w fuel)) k ∧
    JQ cfg.st G (stepT cfg true (stepQ cfg.st cfg.n true x .crash) (.importDrain w fuel)) k ∧
    (stepT cfg false (handleAll cfg false x) (.importDrain w fuel)).queue = [] ∧
    (stepT cfg true (stepQ cfg.st cfg.n true x .crash) (.importDrain w fuel)).queue = [] := by
  obtain ⟨hA, hAq⟩ := handleN_JI E false x.queue.length x rfl hJ
  obtain ⟨hB, hBq, hok⟩ := JI_crash E hJ
  have hA' := JI_drain E hb false fuel hA hshort hAq hfuel
  have hB' := JI_drain E hb true fuel hB hshort hBq hfuel
  refine ⟨hok, hB.task, hA', hB', ?_, ?_⟩
  · rw [stepT_queue]; exact hAq
  · rw [stepT_queue]; exact hBq

/-- … in the form of the crash theorems: the two runs agree on everything confirmed -/
theorem resumption_anywhere_import {cfg : Cfg} {G : Block} (E : StaticOK cfg.st G) (hb : cfg.batch > 0) {x : SysQ}
    {k : Skel} {w : Wid} (hJ : JI cfg G x k w) (hshort : ∀ c ∈ k.hist, c.length + cfg.batch < 2 ^ 64)
    (fuel : Nat) (hfuel : k.chain.length + 1 ≤ fuel) :
    let A := stepT cfg false (handleAll cfg false x) (.importDrain w fuel)
    let B := stepT cfg true (stepQ cfg.st cfg.n true x .crash) (.importDrain w fuel)
    B.queue = [] ∧ A.queue = [] ∧ B.chain = A.chain ∧ B.P.ks = A.P.ks ∧ B.V.keys = A.V.keys ∧
    AMap.Equiv B.P.led.credits A.P.led.credits ∧ AMap.Equiv B.P.led.unspent A.P.led.unspent ∧
    AMap.Equiv B.P.led.debits A.P.led.debits ∧ AMap.Equiv B.P.led.game A.P.led.game ∧
    AMap.Equiv B.P.led.txrecs A.P.led.txrecs ∧ AMap.Equiv B.P.led.blocks A.P.led.blocks ∧
    AMap.Equiv B.P.led.sync A.P.led.sync ∧ B.P.led.syncedTo = A.P.led.syncedTo ∧ B.V.led.best = A.V.led.best ∧
    (∀ w' ∈ walletsOf A.P.ks, AMap.get B.P.led.balance w' = AMap.get A.P.led.balance w' ∧
      readyB B.P.led w' = true ∧ readyB A.P.led w' = true) := by
  obtain ⟨_, _, hA, hB, hAq, hBq⟩ := resumption_from_JI E hb hJ hshort fuel hfuel
  exact ⟨hBq, hAq, quiet_agree hB hA hBq hAq⟩

/-- RESUMPTION_ANYWHERE_FULL: the state is the one ANY history reaches inside an import window — with any number of
    earlier crashes at any commit boundaries (`runT cfg true`) -/
theorem resumption_anywhere_full {cfg : Cfg} {G : Block} (E : StaticOK cfg.st G) (hG : G.txs = []) (hb : cfg.batch > 0)
    (hl : cfg.limit > 0) (evs : List EvT) (x0 : SysQ) (k0 : SkelT) (hJ : JT cfg G x0 k0) (hR : RunOKT cfg G k0 evs)
    (hg : GuardT cfg true x0 evs) (w : Wid) (hbusy : (skRunT cfg k0 evs).busy = some (.imp w))
    (fuel : Nat) (hfuel : (skRunT cfg k0 evs).base.chain.length + 1 ≤ fuel) :
    let x := runT cfg true x0 evs
    let A := stepT cfg false (handleAll cfg false x) (.importDrain w fuel)
    let B := stepT cfg true (stepQ cfg.st cfg.n true x .crash) (.importDrain w fuel)
    (Model.Persist.crash (envAt cfg.st x.chain) cfg.n x.P).ok = true ∧
    B.queue = [] ∧ A.queue = [] ∧ B.chain = A.chain ∧ B.P.ks = A.P.ks ∧ B.V.keys = A.V.keys ∧
    AMap.Equiv B.P.led.credits A.P.led.credits ∧ AMap.Equiv B.P.led.unspent A.P.led.unspent ∧
    AMap.Equiv B.P.led.debits A.P.led.debits ∧ AMap.Equiv B.P.led.game A.P.led.game ∧
    AMap.Equiv B.P.led.txrecs A.P.led.txrecs ∧ AMap.Equiv B.P.led.blocks A.P.led.blocks ∧
    AMap.Equiv B.P.led.sync A.P.led.sync ∧ B.P.led.syncedTo = A.P.led.syncedTo ∧ B.V.led.best = A.V.led.best ∧
    (∀ w' ∈ walletsOf A.P.ks, AMap.get B.P.led.balance w' = AMap.get A.P.led.balance w' ∧
      readyB B.P.led w' = true ∧ readyB A.P.led w' = true) := by
  obtain ⟨hshort, hqs, _, hph⟩ := JT_run E hG hb hl true evs x0 k0 hJ hR hg
  unfold Phase at hph
  rw [hbusy] at hph
  exact ⟨(JI_crash E hph).2.2, resumption_anywhere_import E hb hph hshort fuel hfuel⟩

/-- RESUMPTION ANYWHERE (removal): a removal interrupted between any two iterations while no notification is
    pending.  Run A: the worker finishes; run B: crash now (Start changes nothing in the store and queues the removal
    again), then the worker finishes.  Both loops complete (`removeLoop_total`) and both end in round 3's invariant for
    the table without the wallet, with the same confirmed books. -/
theorem resumption_anywhere_remove {cfg : Cfg} {G : Block} (E : StaticOK cfg.st G) (hl : cfg.limit > 0) {x : SysQ}
    {k : Skel} {w : Wid} (hJ : JR cfg G x k w) (hq : x.queue = []) :
    let A := stepT cfg false x (.removeDrain w)
    let B := stepT cfg true (stepQ cfg.st cfg.n true x .crash) (.removeDrain w)
    B.queue = [] ∧ A.queue = [] ∧ B.chain = A.chain ∧ B.P.ks = A.P.ks ∧ B.V.keys = A.V.keys ∧
    AMap.Equiv B.P.led.credits A.P.led.credits ∧ AMap.Equiv B.P.led.unspent A.P.led.unspent ∧
    AMap.Equiv B.P.led.debits A.P.led.debits ∧ AMap.Equiv B.P.led.game A.P.led.game ∧
    AMap.Equiv B.P.led.txrecs A.P.led.txrecs ∧ AMap.Equiv B.P.led.blocks A.P.led.blocks ∧
    AMap.Equiv B.P.led.sync A.P.led.sync ∧ B.P.led.syncedTo = A.P.led.syncedTo ∧ B.V.led.best = A.V.led.best ∧
    (∀ w' ∈ walletsOf A.P.ks, AMap.get B.P.led.balance w' = AMap.get A.P.led.balance w' ∧
      readyB B.P.led w' = true ∧ readyB A.P.led w' = true) := by
  obtain ⟨hJc, hqc⟩ := JR_crash E hJ hq
  have h1 := JR_removeDrain hl false hJ
  have h2 := JR_removeDrain hl true hJc
  have hAq : (stepT cfg false x (.removeDrain w)).queue = [] := by rw [stepT_queue]; exact hq
  have hBq : (stepT cfg true (stepQ cfg.st cfg.n true x .crash) (.removeDrain w)).queue = [] := by
    rw [stepT_queue]; exact hqc
  exact ⟨hBq, hAq, quiet_agree h2 h1 hBq hAq⟩

end MW.Lemmas.Deepen4
