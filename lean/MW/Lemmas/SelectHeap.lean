/-
  Helper lemmas for C02 (topK_spec): the array-backed min-heap of masswallet/utxo_selector.go.
  `adjust` (sift-down) restores the heap order below the index it is called on; building the heap
  bottom-up and replacing the root keep the order; the root of a heap is its minimum; all
  operations permute the array.
-/
import MW.Model.Select
namespace MW.Lemmas.SelectHeap
open MW MW.Model.Select

/-- node `i` is not larger than its children (those inside the first k cells) -/
def LocalOk (k : Nat) (a : Array Coin) (i : Nat) : Prop :=
  (2 * i + 1 < k → amtAt a i ≤ amtAt a (2 * i + 1)) ∧ (2 * i + 2 < k → amtAt a i ≤ amtAt a (2 * i + 2))

/-- the heap order holds at every node ≥ lo -/
def HeapFrom (k : Nat) (a : Array Coin) (lo : Nat) : Prop := ∀ i, lo ≤ i → LocalOk k a i

theorem amtAt_swapAt (a : Array Coin) (i j x : Nat) (hi : i < a.size) (hj : j < a.size) :
    amtAt (swapAt a i j) x = if x = i then amtAt a j else if x = j then amtAt a i else amtAt a x := by
  unfold swapAt amtAt
  simp only [hi, hj, and_self, dite_true]
  rw [Array.getElem?_swap]
  by_cases h1 : x = i
  · subst h1
    by_cases hjx : j = x
    · subst hjx; simp [hj]
    · simp [hj, hjx]
  · by_cases h2 : x = j
    · subst h2
      simp [h1, hi]
    · have h1' : ¬ i = x := fun h => h1 h.symm
      have h2' : ¬ j = x := fun h => h2 h.symm
      simp [h1, h2, h1', h2']

theorem size_swapAt (a : Array Coin) (i j : Nat) : (swapAt a i j).size = a.size := by
  unfold swapAt
  split <;> simp

theorem swapAt_perm (a : Array Coin) (i j : Nat) : (swapAt a i j).toList.Perm a.toList := by
  unfold swapAt
  split
  · rename_i h
    exact (Array.perm_iff_toList_perm.mp (Array.swap_perm h.1 h.2))
  · exact List.Perm.refl _

theorem size_adjustAux (k fuel : Nat) (a : Array Coin) (cur : Nat) : (adjustAux k fuel a cur).size = a.size := by
  induction fuel generalizing a cur with
  | zero => rfl
  | succ f ih =>
    unfold adjustAux
    simp only []
    repeat' split
    all_goals first | rfl | (rw [ih, size_swapAt])

theorem adjustAux_perm (k fuel : Nat) (a : Array Coin) (cur : Nat) :
    (adjustAux k fuel a cur).toList.Perm a.toList := by
  induction fuel generalizing a cur with
  | zero => exact List.Perm.refl _
  | succ f ih =>
    unfold adjustAux
    simp only []
    repeat' split
    all_goals first | exact List.Perm.refl _ | exact (ih _ _).trans (swapAt_perm _ _ _)

/-- THE sift-down lemma.  If the heap order holds at every node ≥ lo except possibly `cur`, and the
    parent of `cur` (when it is ≥ lo) is not larger than the children of `cur`, then after the loop
    the order holds at every node ≥ lo.  `k/2 ≤ cur + fuel`: the fuel suffices. -/
theorem adjustAux_heap (k : Nat) : ∀ (fuel : Nat) (a : Array Coin) (lo cur : Nat),
    a.size = k → lo ≤ cur → k / 2 ≤ cur + fuel →
    (∀ i, lo ≤ i → i ≠ cur → LocalOk k a i) →
    (∀ p, lo ≤ p → (cur = 2 * p + 1 ∨ cur = 2 * p + 2) →
        (2 * cur + 1 < k → amtAt a p ≤ amtAt a (2 * cur + 1)) ∧ (2 * cur + 2 < k → amtAt a p ≤ amtAt a (2 * cur + 2))) →
    HeapFrom k (adjustAux k fuel a cur) lo := by
  intro fuel
  induction fuel with
  | zero =>
    intro a lo cur _ _ hf hP _ i hi
    by_cases hic : i = cur
    · subst hic
      unfold adjustAux
      constructor <;> intro h <;> omega
    · exact hP i hi hic
  | succ f ih =>
    intro a lo cur hsz hlo hf hP hQ
    unfold adjustAux
    by_cases hc : cur < k / 2
    · simp only [hc, if_true]
      -- the smaller child
      have hc0 : 2 * cur + 1 < k := by omega
      by_cases hsel : 2 * cur + 1 + 1 < k ∧ amtAt a (2 * cur + 1) > amtAt a (2 * cur + 1 + 1)
      · -- child = c0 + 1
        simp only [hsel, and_self, if_true]
        by_cases hgt : amtAt a cur > amtAt a (2 * cur + 1 + 1)
        · simp only [hgt, if_true]
          have hcur : cur < a.size := by omega
          have hch : 2 * cur + 1 + 1 < a.size := by omega
          apply ih (swapAt a cur (2 * cur + 1 + 1)) lo (2 * cur + 1 + 1)
          · rw [size_swapAt]; exact hsz
          · omega
          · omega
          · intro i hi hne
            by_cases hic : i = cur
            · subst hic
              constructor
              · intro _
                rw [amtAt_swapAt _ _ _ _ hcur hch, amtAt_swapAt _ _ _ _ hcur hch]
                simp
                have : ¬ (2 * i + 1 = i) := by omega
                simp [this]
                omega
              · intro _
                rw [amtAt_swapAt _ _ _ _ hcur hch, amtAt_swapAt _ _ _ _ hcur hch]
                simp
                have : ¬ (2 * i + 2 = i) := by omega
                simp [this]
                omega
            · have hl := hP i hi hic
              constructor
              · intro h1
                rw [amtAt_swapAt _ _ _ _ hcur hch, amtAt_swapAt _ _ _ _ hcur hch]
                have e1 : ¬ (i = 2 * cur + 1 + 1) := hne
                simp only [hic, e1, if_false]
                by_cases hp : 2 * i + 1 = cur
                · simp only [hp, if_true]
                  have := (hQ i hi (Or.inl hp.symm)).2 (by omega)
                  omega
                · have : ¬ (2 * i + 1 = 2 * cur + 1 + 1) := by omega
                  simp only [hp, this, if_false]
                  exact hl.1 h1
              · intro h2
                rw [amtAt_swapAt _ _ _ _ hcur hch, amtAt_swapAt _ _ _ _ hcur hch]
                have e1 : ¬ (i = 2 * cur + 1 + 1) := hne
                simp only [hic, e1, if_false]
                by_cases hp : 2 * i + 2 = cur
                · simp only [hp, if_true]
                  have := (hQ i hi (Or.inr hp.symm)).2 (by omega)
                  omega
                · have : ¬ (2 * i + 2 = 2 * cur + 1 + 1) := by omega
                  simp only [hp, this, if_false]
                  exact hl.2 h2
          · intro p hp hpar
            have hpc : p = cur := by omega
            subst hpc
            have hl := hP (2 * p + 1 + 1) (by omega) (by omega)
            constructor
            · intro h1
              rw [amtAt_swapAt _ _ _ _ hcur hch, amtAt_swapAt _ _ _ _ hcur hch]
              have a1 : ¬ (2 * (2 * p + 1 + 1) + 1 = p) := by omega
              have a2 : ¬ (2 * (2 * p + 1 + 1) + 1 = 2 * p + 1 + 1) := by omega
              simp only [a1, a2, if_true, if_false]
              exact hl.1 h1
            · intro h2
              rw [amtAt_swapAt _ _ _ _ hcur hch, amtAt_swapAt _ _ _ _ hcur hch]
              have a1 : ¬ (2 * (2 * p + 1 + 1) + 2 = p) := by omega
              have a2 : ¬ (2 * (2 * p + 1 + 1) + 2 = 2 * p + 1 + 1) := by omega
              simp only [a1, a2, if_true, if_false]
              exact hl.2 h2
        · simp only [hgt, if_false]
          intro i hi
          by_cases hic : i = cur
          · subst hic
            constructor
            · intro _; omega
            · intro _
              have : 2 * i + 2 = 2 * i + 1 + 1 := by omega
              rw [this]; omega
          · exact hP i hi hic
      · -- child = c0
        simp only [hsel, if_false]
        by_cases hgt : amtAt a cur > amtAt a (2 * cur + 1)
        · simp only [hgt, if_true]
          have hcur : cur < a.size := by omega
          have hch : 2 * cur + 1 < a.size := by omega
          -- the other child (if any) is not smaller than the chosen one
          have hother : 2 * cur + 2 < k → amtAt a (2 * cur + 1) ≤ amtAt a (2 * cur + 2) := by
            intro h
            have h' : 2 * cur + 1 + 1 < k := by omega
            have : ¬ (amtAt a (2 * cur + 1) > amtAt a (2 * cur + 1 + 1)) := fun hh => hsel ⟨h', hh⟩
            have e : 2 * cur + 2 = 2 * cur + 1 + 1 := by omega
            rw [e]; omega
          apply ih (swapAt a cur (2 * cur + 1)) lo (2 * cur + 1)
          · rw [size_swapAt]; exact hsz
          · omega
          · omega
          · intro i hi hne
            by_cases hic : i = cur
            · subst hic
              constructor
              · intro _
                rw [amtAt_swapAt _ _ _ _ hcur hch, amtAt_swapAt _ _ _ _ hcur hch]
                simp
                have : ¬ (2 * i + 1 = i) := by omega
                simp [this]
                omega
              · intro h2
                rw [amtAt_swapAt _ _ _ _ hcur hch, amtAt_swapAt _ _ _ _ hcur hch]
                simp
                have a1 : ¬ (2 * i + 2 = i) := by omega
                have a2 : ¬ (2 * i + 2 = 2 * i + 1) := by omega
                simp [a1]
                exact hother h2
            · have hl := hP i hi hic
              constructor
              · intro h1
                rw [amtAt_swapAt _ _ _ _ hcur hch, amtAt_swapAt _ _ _ _ hcur hch]
                have e1 : ¬ (i = 2 * cur + 1) := hne
                simp only [hic, e1, if_false]
                by_cases hp : 2 * i + 1 = cur
                · simp only [hp, if_true]
                  have := (hQ i hi (Or.inl hp.symm)).1 (by omega)
                  omega
                · have : ¬ (2 * i + 1 = 2 * cur + 1) := by omega
                  simp only [hp, this, if_false]
                  exact hl.1 h1
              · intro h2
                rw [amtAt_swapAt _ _ _ _ hcur hch, amtAt_swapAt _ _ _ _ hcur hch]
                have e1 : ¬ (i = 2 * cur + 1) := hne
                simp only [hic, e1, if_false]
                by_cases hp : 2 * i + 2 = cur
                · simp only [hp, if_true]
                  have := (hQ i hi (Or.inr hp.symm)).1 (by omega)
                  omega
                · have : ¬ (2 * i + 2 = 2 * cur + 1) := by omega
                  simp only [hp, this, if_false]
                  exact hl.2 h2
          · intro p hp hpar
            have hpc : p = cur := by omega
            subst hpc
            have hl := hP (2 * p + 1) (by omega) (by omega)
            constructor
            · intro h1
              rw [amtAt_swapAt _ _ _ _ hcur hch, amtAt_swapAt _ _ _ _ hcur hch]
              have a1 : ¬ (2 * (2 * p + 1) + 1 = p) := by omega
              have a2 : ¬ (2 * (2 * p + 1) + 1 = 2 * p + 1) := by omega
              simp only [a1, a2, if_true, if_false]
              exact hl.1 h1
            · intro h2
              rw [amtAt_swapAt _ _ _ _ hcur hch, amtAt_swapAt _ _ _ _ hcur hch]
              have a1 : ¬ (2 * (2 * p + 1) + 2 = p) := by omega
              have a2 : ¬ (2 * (2 * p + 1) + 2 = 2 * p + 1) := by omega
              simp only [a1, a2, if_true, if_false]
              exact hl.2 h2
        · simp only [hgt, if_false]
          intro i hi
          by_cases hic : i = cur
          · subst hic
            constructor
            · intro _; omega
            · intro h2
              have h' : 2 * i + 1 + 1 < k := by omega
              have : ¬ (amtAt a (2 * i + 1) > amtAt a (2 * i + 1 + 1)) := fun hh => hsel ⟨h', hh⟩
              have e : 2 * i + 2 = 2 * i + 1 + 1 := by omega
              rw [e]; omega
          · exact hP i hi hic
    · simp only [hc, if_false]
      intro i hi
      by_cases hic : i = cur
      · subst hic
        constructor <;> intro h <;> omega
      · exact hP i hi hic

theorem size_adjust (k : Nat) (a : Array Coin) (i : Nat) : (adjust k a i).size = a.size :=
  size_adjustAux k k a i

theorem adjust_perm (k : Nat) (a : Array Coin) (i : Nat) : (adjust k a i).toList.Perm a.toList :=
  adjustAux_perm k k a i

/-- `adjust i` extends the heap order from the nodes > i to the nodes ≥ i -/
theorem adjust_heapFrom (k : Nat) (a : Array Coin) (i : Nat) (hsz : a.size = k)
    (h : HeapFrom k a (i + 1)) : HeapFrom k (adjust k a i) i := by
  unfold adjust
  apply adjustAux_heap k k a i i hsz (Nat.le_refl _) (by omega)
  · intro j hj hne
    exact h j (by omega)
  · intro p hp hpar
    omega

theorem size_heapify (k n : Nat) (a : Array Coin) : (heapify k n a).size = a.size := by
  induction n generalizing a with
  | zero => rfl
  | succ n ih => unfold heapify; rw [ih, size_adjust]

theorem heapify_perm (k n : Nat) (a : Array Coin) : (heapify k n a).toList.Perm a.toList := by
  induction n generalizing a with
  | zero => exact List.Perm.refl _
  | succ n ih => unfold heapify; exact (ih _).trans (adjust_perm _ _ _)

theorem heapify_heapFrom (k : Nat) : ∀ (n : Nat) (a : Array Coin), a.size = k → HeapFrom k a n →
    HeapFrom k (heapify k n a) 0 := by
  intro n
  induction n with
  | zero => intro a _ h; exact h
  | succ n ih =>
    intro a hsz h
    unfold heapify
    apply ih
    · rw [size_adjust]; exact hsz
    · exact adjust_heapFrom k a n hsz h

/-- nodes from k/2 on have no children inside the array -/
theorem heapFrom_half (k : Nat) (a : Array Coin) : HeapFrom k a (k / 2) := by
  intro i hi
  constructor <;> intro h <;> omega

/-- the build loop of `submit` establishes the heap order -/
theorem heapify_heap (k : Nat) (a : Array Coin) (hsz : a.size = k) : HeapFrom k (heapify k (k / 2) a) 0 :=
  heapify_heapFrom k (k / 2) a hsz (heapFrom_half k a)

/-- in a heap the root is the minimum -/
theorem root_le (k : Nat) (a : Array Coin) (h : HeapFrom k a 0) : ∀ i, i < k → amtAt a 0 ≤ amtAt a i := by
  intro i
  induction i using Nat.strongRecOn with
  | ind i ih =>
    intro hi
    by_cases h0 : i = 0
    · subst h0; exact Nat.le_refl _
    · have hp : (i - 1) / 2 < i := by omega
      have hpk : (i - 1) / 2 < k := by omega
      have := ih ((i - 1) / 2) hp hpk
      have hl := h ((i - 1) / 2) (Nat.zero_le _)
      by_cases hodd : i = 2 * ((i - 1) / 2) + 1
      · have := hl.1 (by omega)
        rw [← hodd] at this
        omega
      · have hev : i = 2 * ((i - 1) / 2) + 2 := by omega
        have := hl.2 (by omega)
        rw [← hev] at this
        omega

/-- replacing the root and sifting it down keeps the heap order -/
theorem replaceRoot_heap (k : Nat) (a : Array Coin) (x : Coin) (hsz : a.size = k) (h : HeapFrom k a 0) :
    HeapFrom k (adjust k (a.setIfInBounds 0 x) 0) 0 := by
  unfold adjust
  apply adjustAux_heap k k _ 0 0 (by simp [hsz]) (Nat.le_refl _) (by omega)
  · intro j _ hne
    have hl := h j (Nat.zero_le _)
    have e : ∀ m, m ≠ 0 → amtAt (a.setIfInBounds 0 x) m = amtAt a m := by
      intro m hm
      unfold amtAt
      rw [Array.getElem?_setIfInBounds_ne (by omega)]
    constructor
    · intro h1; rw [e j hne, e _ (by omega)]; exact hl.1 h1
    · intro h2; rw [e j hne, e _ (by omega)]; exact hl.2 h2
  · intro p _ hpar
    omega

end MW.Lemmas.SelectHeap
