/-
  Helper lemmas for C06: boot, the tip-copy invariant, independence of the store trajectory from the
  volatile state a crash loses.
-/
import MW.Lemmas.PersistFault
namespace MW.Lemmas.PersistCrash
open MW MW.Model.Ledger MW.Model.Persist MW.Spec.Persist MW.Lemmas.PersistOp MW.Lemmas.PersistFault

-- ------------------------------------------------------------------ the tail of filterBlock

theorem putSyncedTo_spec (s s2 : Store) (bm : BlockMeta) (h : putSyncedTo s bm = .ok s2) :
    s2.syncedTo = bm.height ∧ AMap.get s2.sync bm.height = some bm.hash := by
  unfold putSyncedTo at h
  by_cases h1 : (decide (bm.height > 0) && (AMap.get s.sync (bm.height - 1)).isNone) = true
  · simp [h1, bind, Except.bind, throw, throwThe, MonadExceptOf.throw] at h
  · by_cases h2 : (AMap.get s.sync (bm.height + 1)).isSome = true
    · simp [h1, h2, bind, Except.bind, throw, throwThe, MonadExceptOf.throw] at h
    · simp [h1, h2, bind, Except.bind, pure, Except.pure] at h
      subst h; simp [AMap.get_put]

/-- whatever filterBlock did, a successful run ends with SetSyncedTo(block) -/
theorem filterBlock_spec (c : Ctx) (s s2 : Store) (ready : List Wid) (b : Block) (conf : List TxId)
    (h : filterBlock c s ready b = .ok (s2, conf)) :
    s2.syncedTo = b.height ∧ AMap.get s2.sync b.height = some b.id := by
  unfold filterBlock at h
  simp only [bind, Except.bind, pure, Except.pure] at h
  repeat' (split at h)
  all_goals first
    | (simp [throw, throwThe, MonadExceptOf.throw] at h; done)
    | (injection h with h; injection h with h1 h2; subst h1
       first
         | (exact putSyncedTo_spec _ _ ⟨b.height, b.id⟩ (by assumption))
         | skip)

/-- a successful direct extension leaves synced-to = the block, in store and volatile copy alike -/
theorem blockTx_extend_spec (c : Ctx) (s s' : Store) (best : BlockMeta) (b : Block) (ro : List Nat)
    (ad : List (Nat × List TxId)) (hp : b.prev = best.hash) (h : blockTx c s best b = .ok (s', ro, ad)) :
    s'.syncedTo = b.height ∧ AMap.get s'.sync b.height = some b.id := by
  unfold blockTx at h
  rw [if_pos hp] at h
  simp only [bind, Except.bind, pure, Except.pure] at h
  split at h
  · simp at h
  · rename_i v hv
    obtain ⟨s2, conf⟩ := v
    simp at h
    rw [← h.1]
    exact filterBlock_spec c s s2 _ b conf hv

-- ------------------------------------------------------------------ boot

theorem boot_keyCoh (env : Env) (P : PStore) : KeyCoh env P (bootVol P) := by
  refine ⟨fun w => rfl, ?_⟩
  intro w r c hr hc
  have : (bootVol P).keys = P.ks := rfl
  rw [this, hr] at hc
  cases hc
  exact ⟨Or.inl rfl, Or.inl rfl⟩

theorem boot_bestInv (P : PStore) (h : SyncWf P) : BestInv P (bootVol P) := by
  unfold SyncWf at h
  unfold BestInv bootVol
  cases hs : AMap.get P.led.sync P.led.syncedTo with
  | none => rw [hs] at h; simp at h
  | some x => simp

/-- under BestInv and an exact key cache, a crash loses nothing the store trajectory depends on -/
theorem boot_vEq (P : PStore) (V : PVol) (hb : BestInv P V) (hk : V.keys = P.ks) : VEq V (bootVol P) := by
  refine ⟨?_, hk⟩
  unfold BestInv at hb
  unfold bootVol
  simp only
  rw [hb.2]
  cases hbb : V.led.best with
  | mk hgt hsh => rw [hbb] at hb; simp at hb ⊢; exact hb.1

-- ------------------------------------------------------------------ requeue

theorem requeue_removed (P : PStore) (w : Wid) (st : WStatus) (h : (w, st) ∈ P.led.status) (hr : st.removed = true) :
    Task.rem w ∈ requeue P := by
  unfold requeue
  rw [List.mem_filterMap]
  exact ⟨(w, st), h, by simp [hr]⟩

theorem requeue_importing (P : PStore) (w : Wid) (st : WStatus) (h : (w, st) ∈ P.led.status)
    (hr : st.removed = false) (hi : st.synced.isSome = true) : Task.imp w ∈ requeue P := by
  unfold requeue
  rw [List.mem_filterMap]
  exact ⟨(w, st), h, by simp [hr, hi]⟩

-- ------------------------------------------------------------------ block steps

theorem volAfterBlock_best (v : Vol) (b : Block) (ro : List Nat) (ad : List (Nat × List TxId)) :
    (volAfterBlock v b ro ad).best = ⟨b.height, b.id⟩ := by
  unfold volAfterBlock; rfl

/-- fault-free block operation in closed form -/
theorem block_none (env : Env) (n : Nat) (b : Block) (P : PStore) (V : PVol) :
    (opBlock env n b).run none P V =
      match blockTx (ctxOf env V) P.led V.led.best b with
      | .error _ => ⟨false, P, V, 0, 1 + n⟩
      | .ok (s', ro, ad) => ⟨true, { P with led := s' }, { V with led := volAfterBlock V.led b ro ad }, 1, 1 + n + 1⟩ := by
  rw [run_single_none n _ (opBlock env n b) rfl P V]
  cases hb : blockTx (ctxOf env V) P.led V.led.best b with
  | error e => simp [opBlock, hb]
  | ok r =>
    obtain ⟨s', ro, ad⟩ := r
    simp [opBlock, hb]

/-- BestInv is kept by every block that extends the tip -/
theorem block_extend_bestInv (env : Env) (n : Nat) (b : Block) (P : PStore) (V : PVol)
    (hp : b.prev = V.led.best.hash) (hok : ((opBlock env n b).run none P V).ok = true) :
    BestInv ((opBlock env n b).run none P V).P ((opBlock env n b).run none P V).V ∧
    SyncWf ((opBlock env n b).run none P V).P := by
  rw [block_none] at hok ⊢
  cases hb : blockTx (ctxOf env V) P.led V.led.best b with
  | error e => simp [hb] at hok
  | ok r =>
    obtain ⟨s', ro, ad⟩ := r
    have sp := blockTx_extend_spec _ _ _ _ b ro ad hp hb
    simp only [hb]
    refine ⟨⟨?_, ?_⟩, ?_⟩
    · simp [volAfterBlock_best, sp.1]
    · simp [volAfterBlock_best, sp.1, sp.2]
    · unfold SyncWf; simp [sp.1, sp.2]

/-- the block operation looks at the volatile state only through the tip copy and the key cache -/
theorem block_congr (env : Env) (n : Nat) (b : Block) (P : PStore) (V1 V2 : PVol) (h : VEq V1 V2) :
    ((opBlock env n b).run none P V1).ok = ((opBlock env n b).run none P V2).ok ∧
    ((opBlock env n b).run none P V1).P = ((opBlock env n b).run none P V2).P ∧
    VEq ((opBlock env n b).run none P V1).V ((opBlock env n b).run none P V2).V := by
  rw [block_none, block_none]
  have hc : ctxOf env V1 = ctxOf env V2 := by unfold ctxOf; rw [h.2]
  rw [hc, h.1]
  cases hb : blockTx (ctxOf env V2) P.led V2.led.best b with
  | error e => exact ⟨rfl, rfl, h⟩
  | ok r =>
    obtain ⟨s', ro, ad⟩ := r
    refine ⟨rfl, rfl, ?_, h.2⟩
    simp [volAfterBlock_best]

-- ------------------------------------------------------------------ congruences, quiet crash, histories

theorem bestInvB_iff (P : PStore) (V : PVol) : bestInvB P V = true ↔ BestInv P V := by
  unfold bestInvB BestInv
  simp [Bool.and_eq_true, beq_iff_eq]

/-- the store after a successful CreateWallet -/
def createdStore (P : PStore) (w : Wid) : PStore :=
  let led1 : Store := { P.led with balance := AMap.put P.led.balance w 0 }
  let led2 : Store := { led1 with status := AMap.put led1.status w ⟨none, false⟩ }
  { led := led2, ks := AMap.put P.ks w {} }

/-- fault-free CreateWallet in closed form -/
theorem create_none (nA nB nC : Nat) (w : Wid) (P : PStore) (V : PVol) :
    (opCreate nA nB nC w).run none P V =
      if (AMap.get P.ks w).isSome then ⟨false, P, V, 0, 1 + nA⟩
      else ⟨true, createdStore P w, { V with keys := AMap.put V.keys w {} }, 1, 1 + nA + 0 + nB + nC + 1⟩ := by
  unfold Op.run
  simp only [opCreate, runPhases]
  by_cases h : (AMap.get P.ks w).isSome = true
  · simp [h]
  · simp [h, createdStore]

theorem create_congr (n : Nat) (w : Wid) (P : PStore) (V1 V2 : PVol) (h : VEq V1 V2) :
    ((opCreate n n n w).run none P V1).P = ((opCreate n n n w).run none P V2).P ∧
    VEq ((opCreate n n n w).run none P V1).V ((opCreate n n n w).run none P V2).V := by
  rw [create_none, create_none]
  by_cases hs : (AMap.get P.ks w).isSome = true
  · simp [hs]; exact h
  · simp [hs]; exact ⟨h.1, by rw [h.2]⟩

theorem removeMark_none (n : Nat) (w : Wid) (P : PStore) (V : PVol) :
    ((opRemoveMark n w).run none P V).V.led = V.led ∧ ((opRemoveMark n w).run none P V).V.keys = V.keys ∧
    ∀ V2 : PVol, ((opRemoveMark n w).run none P V).P = ((opRemoveMark n w).run none P V2).P := by
  refine ⟨?_, ?_, ?_⟩
  all_goals (try intro V2)
  all_goals rw [run_single_none n _ (opRemoveMark n w) rfl P V]
  all_goals (try rw [run_single_none n _ (opRemoveMark n w) rfl P V2])
  all_goals simp only [opRemoveMark]
  all_goals (cases hst : AMap.get P.led.status w with
    | none => simp
    | some st => by_cases hs : st.synced.isSome = true <;> simp [hs])

theorem newAddr_congr (env : Env) (n : Nat) (stk : Bool) (P : PStore) (V1 V2 : PVol)
    (h : VEq V1 V2) (hcur : V1.cur = V2.cur) :
    ((opNewAddr env n n n stk).run none P V1).P = ((opNewAddr env n n n stk).run none P V2).P ∧
    VEq ((opNewAddr env n n n stk).run none P V1).V ((opNewAddr env n n n stk).run none P V2).V := by
  have hk12 : V1.keys = V2.keys := h.2
  cases hc2 : V2.cur with
  | none =>
    have hc1 : V1.cur = none := by rw [hcur, hc2]
    simp [Op.run, opNewAddr, runPhases, hc1, hc2]; exact h
  | some w =>
    have hc1 : V1.cur = some w := by rw [hcur, hc2]
    cases hr : AMap.get P.ks w with
    | none => simp [Op.run, opNewAddr, runPhases, hc1, hc2, hr]; exact h
    | some r =>
      cases hk2 : AMap.get V2.keys w with
      | none =>
        have hk1 : AMap.get V1.keys w = none := by rw [hk12, hk2]
        simp [Op.run, opNewAddr, runPhases, hc1, hc2, hr, hk1, hk2, AMap.get_put]; exact h
      | some c =>
        have hk1 : AMap.get V1.keys w = some c := by rw [hk12, hk2]
        simp [Op.run, opNewAddr, runPhases, hc1, hc2, hr, hk1, hk2, AMap.get_put, getLast_snoc]
        exact ⟨h.1, by rw [hk12]⟩

theorem useWallet_congr (P : PStore) (V1 V2 : PVol) (w : Wid) (h : VEq V1 V2) :
    (useWallet P V1 w).isSome = (useWallet P V2 w).isSome ∧
    ∀ v1 v2, useWallet P V1 w = some v1 → useWallet P V2 w = some v2 → VEq v1 v2 ∧ v1.cur = v2.cur := by
  unfold useWallet
  rw [h.2]
  cases hs : AMap.get P.led.status w with
  | none => simp
  | some st =>
    cases hk : AMap.get V2.keys w with
    | none => simp
    | some c =>
      by_cases hb : (st.synced.isNone && !st.removed) = true
      · simp [hb]; exact ⟨h.1, rfl⟩
      · simp [hb]

/-- Start on a wallet that is caught up with the node: no fast-forward, no catch-up, only the re-queue -/
theorem start_quiet (env : Env) (n : Nat) (P : PStore) (V : PVol) (hq : env.node.tipHeight = P.led.syncedTo) :
    start env n P V = ⟨true, P, { V with tasks := requeue P }, 0⟩ := by
  unfold start
  have hff : fastForward env n (env.node.tipHeight - Gen.Updates.ffGap) (env.node.tipHeight + 1) (P.led.syncedTo + 1) P V 0
      = (⟨true, P, V, 0⟩, P.led.syncedTo + 1) := by
    unfold fastForward
    have : ¬ (P.led.syncedTo + 1 < env.node.tipHeight - Gen.Updates.ffGap) := by omega
    simp [this]
  have hcu : catchUp env n (env.node.tipHeight + 1) (P.led.syncedTo + 1) P V 0 = ⟨true, P, V, 0⟩ := by
    unfold catchUp
    have : P.led.syncedTo + 1 > env.node.tipHeight := by omega
    simp [this]
  simp only [hff]
  split_ifs <;> simp_all

theorem vEq_refl (V : PVol) : VEq V V := ⟨rfl, rfl⟩
theorem vEq_symm {V1 V2 : PVol} (h : VEq V1 V2) : VEq V2 V1 := ⟨h.1.symm, h.2.symm⟩
theorem vEq_trans {V1 V2 V3 : PVol} (h : VEq V1 V2) (h' : VEq V2 V3) : VEq V1 V3 := ⟨h.1.trans h'.1, h.2.trans h'.2⟩

theorem crash_quiet_rel (n : Nat) (s1 s2 : Sys) (hq : quiet s1 = true) (hr : CrashRel s1 s2) :
    CrashRel (stepEv n true s1 .crash) (stepEv n false s2 .crash) := by
  unfold quiet at hq
  simp only [Bool.and_eq_true, decide_eq_true_eq] at hq
  obtain ⟨⟨hb, hk⟩, ht⟩ := hq
  have hb' := (bestInvB_iff _ _).1 hb
  simp only [stepEv, Model.Persist.crash, if_true]
  rw [start_quiet s1.env n s1.P (bootVol s1.P) ht]
  refine ⟨hr.1, hr.2.1, ?_⟩
  have h1 : VEq s1.V (bootVol s1.P) := boot_vEq s1.P s1.V hb' hk
  have h2 : VEq ({ bootVol s1.P with tasks := requeue s1.P }) (bootVol s1.P) := ⟨rfl, rfl⟩
  exact vEq_trans (vEq_trans h2 (vEq_symm h1)) hr.2.2

theorem step_rel (n : Nat) (e : Ev) (s1 s2 : Sys) (hq : e = .crash → quiet s1 = true) (hr : CrashRel s1 s2) :
    CrashRel (stepEv n true s1 e) (stepEv n false s2 e) := by
  obtain ⟨he, hp, hv⟩ := hr
  cases e with
  | node nd => exact ⟨by simp [stepEv, he], hp, hv⟩
  | block b =>
    simp only [stepEv]
    rw [← he, ← hp]
    have := block_congr s1.env n b s1.P s1.V s2.V hv
    exact ⟨rfl, this.2.1, this.2.2⟩
  | create w =>
    simp only [stepEv]
    rw [← hp]
    have := create_congr n w s1.P s1.V s2.V hv
    exact ⟨he, this.1, this.2⟩
  | newAddr w stk =>
    simp only [stepEv]
    rw [← he, ← hp]
    have hu := useWallet_congr s1.P s1.V s2.V w hv
    cases h1 : useWallet s1.P s1.V w with
    | none =>
      have : useWallet s1.P s2.V w = none := by
        cases h2 : useWallet s1.P s2.V w with
        | none => rfl
        | some v => rw [h1, h2] at hu; simp at hu
      rw [this]; exact ⟨he, hp, hv⟩
    | some v1 =>
      cases h2 : useWallet s1.P s2.V w with
      | none => rw [h1, h2] at hu; simp at hu
      | some v2 =>
        have hvv := hu.2 v1 v2 h1 h2
        have := newAddr_congr s1.env n stk s1.P v1 v2 hvv.1 hvv.2
        exact ⟨rfl, this.1, this.2⟩
  | removeMark w =>
    simp only [stepEv]
    rw [← hp]
    have h1 := removeMark_none n w s1.P s1.V
    have h2 := removeMark_none n w s1.P s2.V
    refine ⟨he, h1.2.2 s2.V, ?_, ?_⟩
    · rw [h1.1, h2.1]; exact hv.1
    · rw [h1.2.1, h2.2.1]; exact hv.2
  | crash => exact crash_quiet_rel n s1 s2 (hq rfl) ⟨he, hp, hv⟩

/-- crash_equiv (partial): any history, any number of crashes, each at a quiet point of the crashing
    run — the crashing run and the run that never stops have the same store after every event, and
    volatile states that differ only in what a crash may lose -/
theorem runEvs_rel (n : Nat) : ∀ (evs : List Ev) (s1 s2 : Sys), crashesQuiet n s1 evs = true → CrashRel s1 s2 →
    CrashRel (runEvs n true s1 evs) (runEvs n false s2 evs) := by
  intro evs
  induction evs with
  | nil => intro s1 s2 _ hr; exact hr
  | cons e es ih =>
    intro s1 s2 hq hr
    unfold runEvs
    simp only [List.foldl]
    have hstep : CrashRel (stepEv n true s1 e) (stepEv n false s2 e) := by
      apply step_rel n e s1 s2 _ hr
      intro hc; subst hc
      simp only [crashesQuiet, Bool.and_eq_true] at hq
      exact hq.1
    apply ih _ _ _ hstep
    cases e <;> simp only [crashesQuiet, Bool.and_eq_true] at hq <;> first | exact hq | exact hq.2

/-- the catch-up loop of Start IS the processing of the missed notifications, in order -/
theorem catchUp_eq (env : Env) (n : Nat) : ∀ (fuel cur : Nat) (P : PStore) (V : PVol) (k : Nat),
    (catchUp env n fuel cur P V k).ok = true →
    (catchUp env n fuel cur P V k).P = (runEvs n false ⟨env, P, V⟩ ((pendingBlocks env fuel cur).map Ev.block)).P ∧
    (catchUp env n fuel cur P V k).V = (runEvs n false ⟨env, P, V⟩ ((pendingBlocks env fuel cur).map Ev.block)).V := by
  intro fuel
  induction fuel with
  | zero => intro cur P V k _; simp [catchUp, pendingBlocks, runEvs]
  | succ fuel ih =>
    intro cur P V k hok
    unfold catchUp at hok ⊢
    unfold pendingBlocks
    by_cases hc : cur > env.node.tipHeight
    · simp [hc, runEvs]
    · simp only [hc, if_false] at hok ⊢
      cases hb : env.node.blockAt cur with
      | none => simp [hb] at hok
      | some b =>
        simp only [hb] at hok ⊢
        by_cases hr : ((opBlock env n b).run none P V).ok = true
        · simp only [hr, if_true] at hok ⊢
          have := ih (cur + 1) _ _ _ hok
          simp only [List.map, runEvs, List.foldl, stepEv] at this ⊢
          exact this
        · simp [hr] at hok

theorem crashesQuiet_blocks (n : Nat) : ∀ (bs : List Block) (s : Sys), crashesQuiet n s (bs.map Ev.block) = true := by
  intro bs
  induction bs with
  | nil => intro s; rfl
  | cons b bs ih => intro s; simp only [List.map, crashesQuiet]; exact ih _

/-- Start without the fast-forward: the catch-up loop from synced-to + 1, then the re-queue -/
theorem start_noff (env : Env) (n : Nat) (P : PStore) (V : PVol)
    (hnf : (!(!(readyWallets P.led (walletsOf V.keys)).isEmpty) && decide (env.node.tipHeight > Gen.Updates.ffGap)) = false) :
    start env n P V =
      (let r2 := catchUp env n (env.node.tipHeight + 1) (P.led.syncedTo + 1) P V 0
       if !r2.ok then r2 else { r2 with V := { r2.V with tasks := requeue r2.P } }) := by
  unfold start
  simp only [hnf]
  simp

-- ------------------------------------------------------------------ the follower's own retry (next notification)

theorem forIn_noop {β : Type} (f : Nat → β → Except Err (ForInStep β)) (st : β)
    (h : ∀ x, f x st = .ok (.yield st)) : ∀ l : List Nat, forIn l st f = .ok st := by
  intro l
  induction l with
  | nil => rfl
  | cons a l ih => simp [List.forIn_cons, h, bind, Except.bind, ih]

theorem loop1_two (f : Nat → List Block × Block → Except Err (ForInStep (List Block × Block)))
    (b b2 xb : Block)
    (h1 : ∀ x, f x ([], b2) = .ok (.yield ([b2], b)))
    (h2 : ∀ x, f x ([b2], b) = .ok (.yield ([b, b2], xb)))
    (h3 : ∀ x, f x ([b, b2], xb) = .ok (.yield ([b, b2], xb))) :
    ∀ l : List Nat, l.length ≥ 2 → forIn l ([], b2) f = .ok ([b, b2], xb) := by
  intro l hl
  match l, hl with
  | x :: y :: tl, _ =>
    simp [List.forIn_cons, h1, h2, bind, Except.bind, forIn_noop f _ h3 tl]

/-- the reorganisation path taken by the notification AFTER a missed one: nothing is disconnected,
    the missed block and the new one are connected in one batch -/
theorem reorg_next (c : Ctx) (s : Store) (best : BlockMeta) (b b2 xb : Block)
    (hb : c.node.fetchBlock b2.prev = some b) (hx : c.node.fetchBlock b.prev = some xb)
    (hh2 : b2.height = best.height + 2) (hh1 : b.height = best.height + 1)
    (hhx : xb.height = best.height) (hid : best.hash = xb.id) :
    reorg c s best b2 =
      (match filterBlock c s (readyWallets s c.wallets) b with
       | .error e => .error e
       | .ok (s1, c1) =>
         match filterBlock c s1 (readyWallets s c.wallets) b2 with
         | .error e => .error e
         | .ok (s2, c2) => .ok (s2, [], [(b.height, c1), (b2.height, c2)])) := by
  unfold reorg
  simp only [bind, Except.bind, pure, Except.pure]
  rw [loop1_two _ b b2 xb ?h1 ?h2 ?h3 (List.range (b2.height + 1)) (by simp [hh2])]
  case h1 => intro x; simp [hh2, hb]
  case h2 => intro x; simp [hh1, hx]
  case h3 => intro x; simp [hhx]
  simp only [hid, ne_eq, not_true_eq_false, if_false]
  simp only [List.forIn_cons, List.forIn_nil, bind, Except.bind, pure, Except.pure]
  cases h1 : filterBlock c s (readyWallets s c.wallets) b with
  | error e => simp
  | ok r1 =>
    obtain ⟨s1, c1⟩ := r1
    simp only []
    cases h2 : filterBlock c s1 (readyWallets s c.wallets) b2 with
    | error e => simp
    | ok r2 => obtain ⟨s2, c2⟩ := r2; simp

theorem volAfterBlock_comp (v : Vol) (b b2 : Block) (x y : Nat × List TxId) :
    volAfterBlock (volAfterBlock v b [] [x]) b2 [] [y] = volAfterBlock v b2 [] [x, y] := by
  simp [volAfterBlock, List.foldl]

theorem fetchBlock_id (nd : Node) (id : BlkId) (b : Block) (h : nd.fetchBlock id = some b) : b.id = id := by
  unfold Node.fetchBlock at h
  have := List.find?_some h
  simpa using this

/-- the follower's own retry: a notification `b` failed (fault at any call index: store and volatile
    state unchanged), the NEXT notification `b2` (child of `b`) goes through the reorganisation path
    and reaches exactly the state of the fault-free sequence `b`, `b2`. -/
theorem follower_retry (env : Env) (n : Nat) (b b2 xb : Block) (P : PStore) (V : PVol)
    (hb : env.node.fetchBlock b2.prev = some b) (hx : env.node.fetchBlock b.prev = some xb)
    (hp : b.prev = V.led.best.hash) (hne : b.id ≠ V.led.best.hash)
    (hh2 : b2.height = V.led.best.height + 2) (hh1 : b.height = V.led.best.height + 1)
    (hhx : xb.height = V.led.best.height)
    (hready : ∀ s1 c1, filterBlock (ctxOf env V) P.led (readyWallets P.led (ctxOf env V).wallets) b = .ok (s1, c1) →
        readyWallets s1 (ctxOf env V).wallets = readyWallets P.led (ctxOf env V).wallets)
    (hok : ((opBlock env n b).run none P V).ok = true)
    (hok2 : ((opBlock env n b2).run none ((opBlock env n b).run none P V).P ((opBlock env n b).run none P V).V).ok = true) :
    (opBlock env n b2).run none P V =
      (opBlock env n b2).run none ((opBlock env n b).run none P V).P ((opBlock env n b).run none P V).V := by
  have hbid : b.id = b2.prev := fetchBlock_id _ _ _ hb
  have hxid : xb.id = b.prev := fetchBlock_id _ _ _ hx
  have hid : V.led.best.hash = xb.id := by rw [hxid, hp]
  have hne2 : ¬ (b2.prev = V.led.best.hash) := by rw [← hbid]; exact hne
  -- the sequence: b extends the tip
  rw [block_none env n b P V] at hok hok2 ⊢
  have hb1 : blockTx (ctxOf env V) P.led V.led.best b =
      (match filterBlock (ctxOf env V) P.led (readyWallets P.led (ctxOf env V).wallets) b with
       | .error e => .error e
       | .ok (s1, c1) => .ok (s1, [], [(b.height, c1)])) := by
    unfold blockTx
    rw [if_pos hp]
    simp only [bind, Except.bind, pure, Except.pure]
    cases filterBlock (ctxOf env V) P.led (readyWallets P.led (ctxOf env V).wallets) b with
    | error e => rfl
    | ok r => rfl
  -- the retry: reorganisation path
  have hb2 : blockTx (ctxOf env V) P.led V.led.best b2 =
      (match filterBlock (ctxOf env V) P.led (readyWallets P.led (ctxOf env V).wallets) b with
       | .error e => .error e
       | .ok (s1, c1) =>
         match filterBlock (ctxOf env V) s1 (readyWallets P.led (ctxOf env V).wallets) b2 with
         | .error e => .error e
         | .ok (s2, c2) => .ok (s2, [], [(b.height, c1), (b2.height, c2)])) := by
    unfold blockTx
    rw [if_neg hne2]
    exact reorg_next (ctxOf env V) P.led V.led.best b b2 xb hb hx hh2 hh1 hhx hid
  rw [block_none env n b2 P V, hb2]
  rw [hb1] at hok hok2 ⊢
  cases hf1 : filterBlock (ctxOf env V) P.led (readyWallets P.led (ctxOf env V).wallets) b with
  | error e => simp [hf1] at hok
  | ok r1 =>
    obtain ⟨s1, c1⟩ := r1
    rw [hf1] at hok2
    simp only [] at hok2 ⊢
    have hc : ctxOf env { V with led := volAfterBlock V.led b [] [(b.height, c1)] } = ctxOf env V := rfl
    rw [block_none env n b2] at hok2 ⊢
    simp only [hc, volAfterBlock_best] at hok2 ⊢
    have hd : blockTx (ctxOf env V) s1 ⟨b.height, b.id⟩ b2 =
        (match filterBlock (ctxOf env V) s1 (readyWallets s1 (ctxOf env V).wallets) b2 with
         | .error e => .error e
         | .ok (s2, c2) => .ok (s2, [], [(b2.height, c2)])) := by
      unfold blockTx
      rw [if_pos hbid.symm]
      simp only [bind, Except.bind, pure, Except.pure]
      cases filterBlock (ctxOf env V) s1 (readyWallets s1 (ctxOf env V).wallets) b2 with
      | error e => rfl
      | ok r => rfl
    rw [hd, hready s1 c1 hf1] at hok2 ⊢
    cases hf2 : filterBlock (ctxOf env V) s1 (readyWallets P.led (ctxOf env V).wallets) b2 with
    | error e => simp [hf2] at hok2
    | ok r2 =>
      obtain ⟨s2, c2⟩ := r2
      simp [volAfterBlock_comp]

end MW.Lemmas.PersistCrash
