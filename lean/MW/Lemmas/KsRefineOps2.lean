/-
  The symbolic keystore model as an abstraction of the byte level, part 5: ChangePubPassphrase over all keystores,
  export as a byte-level read, and the operation-level corollaries for create / import.
-/
import MW.Lemmas.KsRefineOps
import MW.Lemmas.KsCodecJson
namespace MW.KsRefine
open MW MW.Model.Secrets MW.Model.KsCodec MW.Model.KsBytes MW.KsCodecL
open MW.Gen.KsCodec (keystoreVersionName masterPrivKeyName masterPubKeyName cryptoPrivKeyName cryptoPubKeyName
  cryptoEntropyKeyName entropyEncKeyName accountUsageName coinTypeName remarkName externalBranchPubKeyName
  internalBranchPubKeyName externalChildNumName internalChildNumName accountMASS)

-- ------------------------------------------------------------------ ChangePubPassphrase, all keystores

theorem chpubAll_refines (C : BCrypto) (L : Laws C) (ρ : PubVal) (new : Pass) (steps : List (String × Nat × Term)) :
    ∀ (db : DB) (t : Tree), Rep C ρ db t →
      ∃ t', chpubAllB t (steps.map (chpubStepB C ρ new)) = .ok t' ∧
        Rep C ρ (putAll db (steps.flatMap (fun s => chpubEntries s.1 s.2.1 new s.2.2))) t' := by
  induction steps with
  | nil => intro db t h; exact ⟨t, rfl, by simpa [putAll] using h⟩
  | cons s ss ih =>
    intro db t h
    obtain ⟨t1, h1, hr1⟩ := chpubOne_refines C L ρ db t s.1 s.2.1 new s.2.2 h
    obtain ⟨t2, h2, hr2⟩ := ih _ t1 hr1
    refine ⟨t2, ?_, ?_⟩
    · simp only [List.map_cons, chpubAllB, chpubStepB, h1, seqE_ok]
      exact h2
    · simpa [List.flatMap_cons, MW.Lemmas.SecretsDB.putAll_append] using hr2

theorem chpub_ok_db {st : St} {old new : Pass} (h : (chpub st old new).2 = .ok) :
    (chpub st old new).1.db = putAll st.db ((chpubSteps st old).flatMap (fun s => chpubEntries s.1 s.2.1 new s.2.2)) := by
  have hw : (chpubWrites st old new).1 =
      putAll st.db ((chpubSteps st old).flatMap (fun s => chpubEntries s.1 s.2.1 new s.2.2)) := by
    have h2 : chpubWrites st old new = _ := chpubWrites_fold st.db old new st.wal (st.db, st.nonce)
    rw [h2]
    simp only [chpubSteps, List.flatMap_map]
    rfl
  unfold chpub at h ⊢
  split_ifs at h ⊢ with h1 h2
  · simp [fail] at h
  · simp [fail] at h
  · split at h
    · simp [fail] at h
    · rename_i hc
      simp only [hc]
      exact hw

/-- SYM_WRITE_REFINES_BYTES, change of the public passphrase (all keystores, one transaction) -/
theorem chpub_refines (C : BCrypto) (L : Laws C) (ρ : PubVal) (st : St) (t : Tree) (old new : Pass)
    (h : Rep C ρ st.db t) (hok : (chpub st old new).2 = .ok) :
    ∃ t', chpubAllB t ((chpubSteps st old).map (chpubStepB C ρ new)) = .ok t' ∧ Rep C ρ (chpub st old new).1.db t' := by
  rw [chpub_ok_db hok]
  exact chpubAll_refines C L ρ new _ _ _ h

-- ------------------------------------------------------------------ create / import at operation level

/-- SYM_WRITE_REFINES_BYTES, create wallet -/
theorem create_refines (C : BCrypto) (L : Laws C) (ρ ρ' : PubVal) (st : St) (t : Tree) (coin : Nat) (w : String) (p : Pass) (bits : Nat)
    (h : Rep C ρ st.db t) (hok : (create st w p bits).2 = .ok)
    (hf : PubFmt ρ' w coin 0 0)
    (hρ : ∀ K, (∀ en ∈ acctEntries w w p 0 0 (paramsT (st.nonce + 1) p) (masterKey (st.nonce + 1) p)
            (paramsT st.nonce st.pubPass) (masterKey st.nonce st.pubPass) (st.nonce + 2) (st.nonce + 3) (st.nonce + 4), en.1 ≠ K) →
          ρ' K = ρ K)
    (hrow : 8 + (C.box (C.atom (.key (st.nonce + 2))) (ρ' (w, .acct 1))).length +
      (C.box (C.atom (.key (st.nonce + 3))) (C.atom (.acctPriv w p))).length < 4294967296)
    (hnew : AMap.get st.db (w, .aid) = none) :
    ∃ t', initAcctBucketB t (acctInOf C ρ' coin w w p 0 0 (paramsT (st.nonce + 1) p) (masterKey (st.nonce + 1) p)
            (paramsT st.nonce st.pubPass) (masterKey st.nonce st.pubPass) (st.nonce + 2) (st.nonce + 3) (st.nonce + 4)) = .ok t' ∧
      Rep C ρ' (create st w p bits).1.db t' := by
  rw [create_ok_db hok]
  have hne : ∀ n q pv, bytesOf C pv (paramsT n q) ≠ [] := by
    intro n q pv e; have := paramsT_bytes C L pv n q; rw [e] at this; simp at this
  exact install_refines C L ρ ρ' st.db t coin w w p 0 0 _ _ _ _ _ _ _ h hf hρ (by omega) (by omega) (hne _ _ _) (hne _ _ _) hrow hnew

/-- the side conditions of `install_refines`, bundled: formats of the public values of the new wallet, the valuation
    changes only at written keys, hints within uint32, parameter blocks not empty, the account record within uint32,
    the seed is new -/
structure InstallOk (C : BCrypto) (ρ ρ' : PubVal) (db : DB) (coin : Nat) (w e : String) (p : Pass) (nExt nInt : Nat)
    (privParams mkPriv mkPubParams mkPub : Term) (kPub kPriv kEnt : Nat) : Prop where
  fmt : PubFmt ρ' w coin nExt nInt
  frame : ∀ K, (∀ en ∈ acctEntries w e p nExt nInt privParams mkPriv mkPubParams mkPub kPub kPriv kEnt, en.1 ≠ K) → ρ' K = ρ K
  ext : nExt ≤ 4294967296
  int : nInt ≤ 4294967296
  priv : bytesOf C (ρ' (w, .mpriv)) privParams ≠ []
  pub : bytesOf C (ρ' (w, .mpub)) mkPubParams ≠ []
  row : 8 + (C.box (C.atom (.key kPub)) (ρ' (w, .acct 1))).length +
      (C.box (C.atom (.key kPriv)) (C.atom (.acctPriv e p))).length < 4294967296
  fresh : AMap.get db (w, .aid) = none

/-- SYM_WRITE_REFINES_BYTES, import of a keystore file -/
theorem importKS_refines (C : BCrypto) (L : Laws C) (ρ ρ' : PubVal) (st : St) (t : Tree) (coin : Nat) (k : String) (p : Pass)
    (h : Rep C ρ st.db t) (hok : (importKS st k p).2 = .ok) :
    ∃ x e mkPriv, AMap.get st.exports k = some x ∧ deriveKey x.privParams p = some mkPriv ∧
      (InstallOk C ρ ρ' st.db coin x.wallet e p (if x.nExt = 0 then 1 else x.nExt) x.nInt x.privParams mkPriv
          (paramsT st.nonce st.pubPass) (masterKey st.nonce st.pubPass) (st.nonce + 1) (st.nonce + 2) (st.nonce + 3) →
        ∃ t', initAcctBucketB t (acctInOf C ρ' coin x.wallet e p (if x.nExt = 0 then 1 else x.nExt) x.nInt x.privParams mkPriv
                (paramsT st.nonce st.pubPass) (masterKey st.nonce st.pubPass) (st.nonce + 1) (st.nonce + 2) (st.nonce + 3)) = .ok t' ∧
          Rep C ρ' (importKS st k p).1.db t') := by
  obtain ⟨x, e, mk, hx, hmk, _, hdb⟩ := importKS_ok_db hok
  refine ⟨x, e, mk, hx, hmk, fun H => ?_⟩
  rw [hdb]
  exact install_refines C L ρ ρ' st.db t coin _ _ _ _ _ _ _ _ _ _ _ _ h H.fmt H.frame H.ext H.int H.priv H.pub H.row H.fresh

/-- SYM_WRITE_REFINES_BYTES, import from a mnemonic -/
theorem importMn_refines (C : BCrypto) (L : Laws C) (ρ ρ' : PubVal) (st : St) (t : Tree) (coin : Nat) (w : String) (p : Pass)
    (src : String) (ext int : Nat) (name : String)
    (h : Rep C ρ st.db t) (hok : (importMn st w p src ext int).2 = .okName name) :
    ∃ e, (InstallOk C ρ ρ' st.db coin name e p (if ext = 0 then 1 else ext) int (paramsT (st.nonce + 1) p) (masterKey (st.nonce + 1) p)
          (paramsT st.nonce st.pubPass) (masterKey st.nonce st.pubPass) (st.nonce + 2) (st.nonce + 3) (st.nonce + 4) →
        ∃ t', initAcctBucketB t (acctInOf C ρ' coin name e p (if ext = 0 then 1 else ext) int (paramsT (st.nonce + 1) p)
                (masterKey (st.nonce + 1) p) (paramsT st.nonce st.pubPass) (masterKey st.nonce st.pubPass)
                (st.nonce + 2) (st.nonce + 3) (st.nonce + 4)) = .ok t' ∧
          Rep C ρ' (importMn st w p src ext int).1.db t') := by
  rcases importMn_db st w p src ext int with hno | ⟨e, name', hn, _, hdb⟩
  · exact absurd hok (hno name)
  · rw [hok] at hn
    cases hn
    refine ⟨e, fun H => ?_⟩
    rw [hdb]
    exact install_refines C L ρ ρ' st.db t coin _ _ _ _ _ _ _ _ _ _ _ _ h H.fmt H.frame H.ext H.int H.priv H.pub H.row H.fresh

-- ------------------------------------------------------------------ export: a byte-level read

/-- EXPORT reads what the symbolic export copies: on a tree that represents the database, `export` of the account bucket
    returns, in hex, the concretisations of the three terms of the symbolic `Export` (entropy ciphertext, private master-key
    parameters, ciphertext of the entropy key) and the counters of the wallet record -/
theorem export_refines (C : BCrypto) (L : Laws C) (ρ : PubVal) (st : St) (t : Tree) (w : String) (r : WRec) (purpose coin : Nat)
    (h : Rep C ρ st.db t)
    (ta te ti : String) (tEnt tPriv tCent tPub tCpub : Term)
    (hacct : AMap.get st.db (w, .account) = some (.pub ta)) (hex : AMap.get st.db (w, .exNum) = some (.pub te))
    (hin : AMap.get st.db (w, .inNum) = some (.pub ti))
    (hent : AMap.get st.db (w, .ent) = some tEnt) (hpriv : AMap.get st.db (w, .mpriv) = some tPriv)
    (hcent : AMap.get st.db (w, .cent) = some tCent) (hpub : AMap.get st.db (w, .mpub) = some tPub)
    (hcpub : AMap.get st.db (w, .cpub) = some tCpub)
    (fa : ρ (w, .account) = u32Bytes 1) (fe : ρ (w, .exNum) = u32Bytes r.nExt) (fi : ρ (w, .inNum) = u32Bytes r.nInt)
    (he : r.nExt < 4294967296) (hi : r.nInt < 4294967296) :
    ∃ k, exportB t (C.walletId w) purpose coin = .ok k ∧
      k.entropyEnc = hexEnc (valBytes C ρ (w, .ent) (exportOf st w r).entEnc) ∧
      k.privParams = hexEnc (valBytes C ρ (w, .mpriv) (exportOf st w r).privParams) ∧
      k.cryptoKeyEntropyEnc = hexEnc (valBytes C ρ (w, .cent) (exportOf st w r).cEntEnc) ∧
      k.externalChildNum = (exportOf st w r).nExt ∧ k.internalChildNum = (exportOf st w r).nInt ∧
      k.account = 1 ∧ k.purpose = purpose ∧ k.coin = coin := by
  have g : ∀ (k : KeyName) (hk : KeyOk k), bget (t (.acct (C.walletId w))) (loc C (w, k)).2 =
      (AMap.get st.db (w, k)).map (valBytes C ρ (w, k)) ∨ (loc C (w, k)).1 ≠ .acct (C.walletId w) := by
    intro k hk
    by_cases hp : (loc C (w, k)).1 = .acct (C.walletId w)
    · left
      have := rep_get L h (w, k) hk
      simpa [tget, hp] using this
    · right; exact hp
  have gacct := (g .account trivial).resolve_right (by simp [loc])
  have gex := (g .exNum trivial).resolve_right (by simp [loc])
  have gin := (g .inNum trivial).resolve_right (by simp [loc])
  have gent := (g .ent trivial).resolve_right (by simp [loc])
  have gpriv := (g .mpriv trivial).resolve_right (by simp [loc])
  have gcent := (g .cent trivial).resolve_right (by simp [loc])
  have gpub := (g .mpub trivial).resolve_right (by simp [loc])
  have gcpub := (g .cpub trivial).resolve_right (by simp [loc])
  simp only [loc, genName, hacct, hex, hin, hent, hpriv, hcent, hpub, hcpub, Option.map_some, valBytes, bytesOf, fa, fe, fi]
    at gacct gex gin gent gpriv gcent gpub gcpub
  have hu : fetchAccountUsage (t (.acct (C.walletId w))) = .ok 1 := by
    simp [fetchAccountUsage, fetchU32, gacct, u32Of_u32Bytes_of_lt (show 1 < 4294967296 by decide)]
  have hc : fetchChildNum (t (.acct (C.walletId w))) = .ok (r.nInt, r.nExt) := by
    simp [fetchChildNum, gex, gin, u32Of_u32Bytes_of_lt he, u32Of_u32Bytes_of_lt hi, bind, Except.bind, pure, Except.pure]
  have hm : fetchMasterKeyParams (t (.acct (C.walletId w))) = .ok (bytesOf C (ρ (w, .mpub)) tPub, some (bytesOf C (ρ (w, .mpriv)) tPriv)) := by
    simp [fetchMasterKeyParams, gpub, gpriv]
  have hk : fetchCryptoKeys (t (.acct (C.walletId w))) =
      .ok (bytesOf C (ρ (w, .cpub)) tCpub, bget (t (.acct (C.walletId w))) (key cryptoPrivKeyName), some (bytesOf C (ρ (w, .cent)) tCent)) := by
    simp [fetchCryptoKeys, gcpub, gcent]
  refine ⟨_, exportKs_ok _ purpose coin 1 r.nInt r.nExt _ _ _ _ _ hu hc hm hk, ?_⟩
  simp [exportOf, dbGet, hent, hpriv, hcent, fetchEntropy, gent, valBytes]

end MW.KsRefine
