/-
  AN ISSUED ADDRESS STAYS LISTED (C12, the presence half of the used flag; the D5 repair as a theorem).
  `Listed s s'`: every address record of `s` is still there in `s'`. No hypothesis at all: every function of the
  follower that touches the address bucket only ever `put`s (connect: `creditApply`; rollback: `rollbackAddr`),
  so `processBlock` – successful or not, direct or through `reorg` – never removes a record.
-/
import MW.Lemmas.LedgerFU3
namespace MW.Lemmas.LedgerFU
open MW MW.Model.Ledger MW.Spec.Chain MW.Spec.Books MW.Lemmas.Ledger

/-- every address record of `s` is still present in `s'` -/
def Listed (s s' : Store) : Prop :=
  ∀ k, (AMap.get s.addrs k).isSome = true → (AMap.get s'.addrs k).isSome = true

theorem Listed.refl (s : Store) : Listed s s := fun _ h => h
theorem Listed.trans {a b c : Store} (h₁ : Listed a b) (h₂ : Listed b c) : Listed a c := fun k h => h₂ k (h₁ k h)
theorem Listed.of_eq {s s' : Store} (h : s'.addrs = s.addrs) : Listed s s' := fun k hk => by rw [h]; exact hk
theorem Listed.of_minedEq {s s' : Store} (h : MinedEq s s') : Listed s s' := Listed.of_eq h.addrs

theorem listed_put (s : Store) (ak : AKey) (n : Nat) : Listed s { s with addrs := AMap.put s.addrs ak n } := by
  intro k hk
  simp only
  rw [AMap.get_put]
  by_cases e : ak = k
  · simp [e]
  · simp only [e, if_false]; exact hk

theorem foldlM_listed {α β : Type} (f : β → α → M β) (proj : β → Store)
    (hf : ∀ b a b', f b a = .ok b' → Listed (proj b) (proj b')) :
    ∀ (l : List α) (b b' : β), l.foldlM f b = .ok b' → Listed (proj b) (proj b') := by
  intro l
  induction l with
  | nil => intro b b' h; cases h; exact Listed.refl _
  | cons a l ih =>
    intro b b' h
    rw [List.foldlM_cons] at h
    cases h1 : f b a with
    | error e => rw [h1] at h; cases h
    | ok b1 =>
      rw [h1] at h
      exact (hf _ _ _ h1).trans (ih _ _ h)

theorem foldIdxM_listed {α β : Type} (f : β → Nat → α → M β) (proj : β → Store)
    (hf : ∀ b i a b', f b i a = .ok b' → Listed (proj b) (proj b')) :
    ∀ (l : List α) (i : Nat) (b b' : β), foldIdxM f l i b = .ok b' → Listed (proj b) (proj b') := by
  intro l
  induction l with
  | nil => intro i b b' h; cases h; exact Listed.refl _
  | cons a l ih =>
    intro i b b' h
    rw [foldIdxM_cons] at h
    cases h1 : f b i a with
    | error e => rw [h1] at h; cases h
    | ok b1 =>
      rw [h1, M_ok_bind] at h
      exact (hf _ _ _ _ h1).trans (ih _ _ _ h)

theorem foldl_listed {α : Type} (f : Store → α → Store) (hf : ∀ s a, Listed s (f s a)) :
    ∀ (l : List α) (s : Store), Listed s (l.foldl f s) := by
  intro l
  induction l with
  | nil => intro s; exact Listed.refl _
  | cons a l ih => intro s; exact (hf s a).trans (ih _)

-- ------------------------------------------------------------------ connect

theorem spendOne_addrs {tr : TxRec} {blk : BlockMeta} {sb sb' : Store × Bals} {rel : Rel}
    (h : spendOne tr blk sb rel = .ok sb') : sb'.1.addrs = sb.1.addrs := by
  unfold spendOne at h
  repeat' split at h
  all_goals (cases h; try rfl)

theorem creditOne_listed {p : Params} {tr : TxRec} {blk : BlockMeta} {sb sb' : Store × Bals} {rel : Rel}
    (h : creditOne p tr blk sb rel = .ok sb') : Listed sb.1 sb'.1 := by
  unfold creditOne at h
  split at h
  · cases h
  · cases h
    intro k hk
    unfold creditApply
    simp only
    cases hg : AMap.get sb.1.addrs (rel.wallet, rel.out.cls.isStaking, rel.out.addr) with
    | none =>
      simp only
      rw [AMap.get_put]
      by_cases e : (rel.wallet, rel.out.cls.isStaking, rel.out.addr) = k
      · simp [e]
      · simp only [e, if_false]; exact hk
    | some h0 =>
      simp only
      by_cases e0 : h0 = 0
      · simp only [e0, if_true]
        rw [AMap.get_put]
        by_cases e : (rel.wallet, rel.out.cls.isStaking, rel.out.addr) = k
        · simp [e]
        · simp only [e, if_false]; exact hk
      · simp only [e0, if_false]; exact hk

theorem addCredits_listed {p : Params} {s : Store} {bals : Bals} {tr : TxRec} {blk : BlockMeta}
    {r : Store × Bals} (h : addCredits p s bals tr blk = .ok r) : Listed s r.1 := by
  unfold addCredits at h
  split at h
  · cases h; exact Listed.refl _
  · cases h1 : tr.relOut.foldlM (creditOne p tr blk) (s, bals) with
    | error e => rw [h1] at h; cases h
    | ok sb1 =>
      rw [h1] at h
      simp only [M_ok_bind, M_pure_eq, Except.ok.injEq] at h
      have l1 := foldlM_listed (creditOne p tr blk) (fun sb => sb.1) (fun _ _ _ h => creditOne_listed h) _ _ _ h1
      rw [← h]
      exact l1.trans (foldl_listed (gameOne tr blk) (fun s a => Listed.of_eq rfl) _ _)

theorem insertMinedTx_listed {own : Own} {s : Store} {bals : Bals} {tr : TxRec} {blk : BlockMeta}
    {r : Store × Bals × Bool} (h : insertMinedTx own s bals tr blk = .ok r) : Listed s r.1 := by
  unfold insertMinedTx at h
  split at h
  · cases h; exact Listed.refl _
  · cases h1 : updateMinedBalance (recordMinedTx s tr blk) bals tr blk with
    | error e => rw [h1] at h; cases h
    | ok sb1 =>
      rw [h1] at h
      simp only [M_ok_bind, M_pure_eq, Except.ok.injEq] at h
      have l1 : Listed (recordMinedTx s tr blk) sb1.1 := by
        unfold updateMinedBalance at h1
        exact foldlM_listed (spendOne tr blk) (fun sb => sb.1) (fun _ _ _ h => Listed.of_eq (spendOne_addrs h)) _ _ _ h1
      have l0 : Listed s (recordMinedTx s tr blk) := Listed.of_eq rfl
      rw [← h]
      exact (l0.trans l1).trans
        ((Listed.of_minedEq (minedEq_unpendMined sb1.1 tr.tx)).trans
          (Listed.of_minedEq (minedEq_removeDoubleSpends own _ tr)))

theorem addRelevantMined_listed {p : Params} {own : Own} {s : Store} {bals : Bals} {tr : TxRec} {blk : BlockMeta}
    {r : Store × Bals} (h : addRelevantMined p own s bals tr blk = .ok r) : Listed s r.1 := by
  unfold addRelevantMined at h
  cases h1 : insertMinedTx own s bals tr blk with
  | error e => rw [h1] at h; cases h
  | ok r1 =>
    rw [h1] at h
    simp only [M_ok_bind] at h
    exact (insertMinedTx_listed h1).trans (addCredits_listed h)

theorem applyRelevant_listed {c : Ctx} {s s' : Store} {ready : List Wid} {bm : BlockMeta} {relevant : List TxRec}
    (h : applyRelevant c s ready bm relevant = .ok s') : Listed s s' := by
  unfold applyRelevant at h
  split at h
  · cases h; exact Listed.refl _
  · dsimp only at h
    cases h1 : relevant.foldlM (fun (sb : Store × Bals) tr => addRelevantMined c.p c.own sb.1 sb.2 tr bm)
        (s, s.balance.filter (fun e => ready.contains e.1)) with
    | error e => rw [h1] at h; cases h
    | ok sb1 =>
      rw [h1] at h
      simp only [M_ok_bind, M_pure_eq, Except.ok.injEq] at h
      have l1 := foldlM_listed (fun (sb : Store × Bals) tr => addRelevantMined c.p c.own sb.1 sb.2 tr bm)
        (fun sb => sb.1) (fun _ _ _ h => addRelevantMined_listed h) _ _ _ h1
      rw [← h]
      exact l1.trans (Listed.of_eq rfl)

/-- the part of filterBlock after the relevance scan -/
theorem filterBlock_tail_listed {c : Ctx} {s : Store} {ready : List Wid} {b : Block} {relevant : List TxRec}
    {unrel : List Tx} {r : Store × List TxId}
    (h : (applyRelevant c s ready ⟨b.height, b.id⟩ relevant >>= fun s1 =>
      putSyncedTo (purgeUnrelated c.own s1 unrel) ⟨b.height, b.id⟩ >>= fun s2 =>
        (pure (s2, relevant.map (·.tx.id)) : M (Store × List TxId))) = .ok r) : Listed s r.1 := by
  cases h1 : applyRelevant c s ready ⟨b.height, b.id⟩ relevant with
  | error e => rw [h1] at h; cases h
  | ok s1 =>
    rw [h1, M_ok_bind] at h
    cases h2 : putSyncedTo (purgeUnrelated c.own s1 unrel) ⟨b.height, b.id⟩ with
    | error e => rw [h2] at h; cases h
    | ok s2 =>
      rw [h2, M_ok_bind] at h
      simp only [M_pure_eq, Except.ok.injEq] at h
      rw [← h]
      have l2 : Listed (purgeUnrelated c.own s1 unrel) s2 := by
        unfold putSyncedTo at h2
        repeat' split at h2
        all_goals (cases h2; try exact Listed.of_eq rfl)
      exact ((applyRelevant_listed h1).trans (Listed.of_minedEq (minedEq_purgeUnrelated _ _ _))).trans l2

theorem filterBlock_listed {c : Ctx} {s : Store} {ready : List Wid} {b : Block} {r : Store × List TxId}
    (h : filterBlock c s ready b = .ok r) : Listed s r.1 := by
  unfold filterBlock at h
  cases hb : c.node.blockAt b.height with
  | none => rw [hb] at h; cases h
  | some x =>
    rw [hb] at h
    simp only at h
    split at h
    · cases h
    · by_cases he : ready.isEmpty = true
      · simp only [he, if_true, M_pure_bind] at h
        exact filterBlock_tail_listed h
      · simp only [he, Bool.false_eq_true, if_false] at h
        cases h0 : filterTxs c s ready b.id b.txs [] 0 [] with
        | error e => rw [h0] at h; cases h
        | ok relevant =>
          rw [h0, M_ok_bind] at h
          exact filterBlock_tail_listed h

theorem connectAll_listed {c : Ctx} {ready : List Wid} (tc : List Block) :
    ∀ (s : Store) (added : List (Nat × List TxId)) (r : Store × List (Nat × List TxId)),
      connectAll c ready tc s added = .ok r → Listed s r.1 := by
  induction tc with
  | nil =>
    intro s added r h
    simp only [connectAll, M_pure_eq, Except.ok.injEq] at h
    subst h; exact Listed.refl _
  | cons b tc ih =>
    intro s added r h
    unfold connectAll at h
    cases hf : filterBlock c s ready b with
    | error e => rw [hf] at h; cases h
    | ok r1 =>
      rw [hf, M_ok_bind] at h
      exact (filterBlock_listed hf).trans (ih _ _ _ h)

-- ------------------------------------------------------------------ rollback

theorem rollbackAddr_listed (s : Store) (w : Wid) (o : Out) (H : Nat) : Listed s (rollbackAddr s w o H) := by
  unfold rollbackAddr
  simp only
  cases AMap.get s.addrs (w, o.cls.isStaking, o.addr) with
  | none => exact Listed.refl _
  | some h =>
    simp only
    split
    · exact listed_put s _ 0
    · exact Listed.refl _

theorem rollbackOwnedOut_listed {id : TxId} {bm : BlockMeta} {sb sb' : Store × Bals} {i : Nat} {o : Out} {w : Wid}
    (h : rollbackOwnedOut id bm sb i o w = .ok sb') : Listed sb.1 sb'.1 := by
  unfold rollbackOwnedOut at h
  split at h
  · split at h
    · cases h
    · cases h
      exact (Listed.of_eq (s := sb.1) (s' := { sb.1 with unspent := AMap.erase sb.1.unspent (w, id, i) }) rfl).trans
        (rollbackAddr_listed _ w o bm.height)
  · cases h
    exact rollbackAddr_listed sb.1 w o bm.height

theorem rollbackOut_listed {c : Ctx} {id : TxId} {blk : BlockMeta} {sb sb' : Store × Bals} {i : Nat} {o : Out}
    (h : rollbackOut c id blk sb i o = .ok sb') : Listed sb.1 sb'.1 := by
  cases hc : AMap.get sb.1.credits ⟨id, blk, i⟩ with
  | none =>
    rw [rollbackOut_miss hc] at h
    cases h; exact Listed.refl _
  | some cr =>
    by_cases hr : o.cls = .raw
    · unfold rollbackOut at h
      simp only [hc, hr, if_true] at h
      cases h
    · cases hg : AMap.get c.own o.addr with
      | none =>
        unfold rollbackOut at h
        simp only [hc, hr, if_false, hg] at h
        cases h
        exact Listed.of_eq rfl
      | some wc =>
        obtain ⟨w, ch⟩ := wc
        rw [rollbackOut_owned hc hr hg] at h
        cases h1 : rollbackOwnedOut id blk (rollbackOutPre sb.1 id blk i cr, sb.2) i o w with
        | error e => rw [h1] at h; cases h
        | ok sb1 =>
          rw [h1, M_ok_bind] at h
          have l1 : Listed sb.1 sb1.1 :=
            (Listed.of_eq (s := sb.1) (s' := rollbackOutPre sb.1 id blk i cr) rfl).trans
              (rollbackOwnedOut_listed (sb := (rollbackOutPre sb.1 id blk i cr, sb.2)) h1)
          by_cases hd : isDeposit o.cls = true
          · simp only [hd, if_true] at h; cases h; exact l1.trans (Listed.of_eq rfl)
          · simp only [hd, Bool.false_eq_true, if_false] at h; cases h; exact l1

theorem rollbackCbOut_listed {c : Ctx} {id : TxId} {blk : BlockMeta}
    {acc acc' : (Store × Bals) × List (TxId × Nat)} {i : Nat} {o : Out}
    (h : rollbackCbOut c id blk acc i o = .ok acc') : Listed acc.1.1 acc'.1.1 := by
  cases hc : AMap.get acc.1.1.credits ⟨id, blk, i⟩ with
  | none =>
    rw [rollbackCbOut_miss hc] at h
    cases h; exact Listed.refl _
  | some cr =>
    by_cases hr : o.cls = .raw
    · unfold rollbackCbOut at h
      simp only [hc, hr, if_true] at h
      cases h
    · cases hg : AMap.get c.own o.addr with
      | none =>
        unfold rollbackCbOut at h
        simp only [hc, hr, if_false, hg] at h
        cases h
        exact Listed.of_eq rfl
      | some wc =>
        obtain ⟨w, ch⟩ := wc
        rw [rollbackCbOut_owned hc hr hg] at h
        cases h1 : rollbackOwnedOut id blk
            ({ acc.1.1 with credits := AMap.erase acc.1.1.credits ⟨id, blk, i⟩ }, acc.1.2) i o w with
        | error e => rw [h1] at h; cases h
        | ok sb1 =>
          rw [h1, M_ok_bind] at h
          have l1 : Listed acc.1.1 sb1.1 :=
            (Listed.of_eq (s := acc.1.1)
              (s' := { acc.1.1 with credits := AMap.erase acc.1.1.credits ⟨id, blk, i⟩ }) rfl).trans
              (rollbackOwnedOut_listed
                (sb := ({ acc.1.1 with credits := AMap.erase acc.1.1.credits ⟨id, blk, i⟩ }, acc.1.2)) h1)
          by_cases hd : isDeposit o.cls = true
          · simp only [hd, if_true] at h; cases h; exact l1.trans (Listed.of_eq rfl)
          · simp only [hd, Bool.false_eq_true, if_false] at h; cases h; exact l1

theorem rollbackTx_listed {c : Ctx} {s : Store} {bals : Bals} {blk : BlockMeta} {id : TxId}
    {r : Store × Bals × List (TxId × Nat)} (h : rollbackTx c s bals blk id = .ok r) : Listed s r.1 := by
  unfold rollbackTx at h
  cases hrec : AMap.get s.txrecs (id, blk) with
  | none => rw [hrec] at h; cases h; exact Listed.refl _
  | some loc =>
    rw [hrec] at h
    simp only at h
    cases hloc : c.node.txByFileLoc loc with
    | none => rw [hloc] at h; cases h
    | some tx =>
      rw [hloc] at h
      simp only at h
      by_cases hcb : tx.cb = true
      · simp only [hcb, if_true] at h
        cases h1 : foldIdxM (rollbackCbOut c id blk) tx.outs 0
            (({ s with txrecs := AMap.erase s.txrecs (id, blk) }, bals), []) with
        | error e => rw [h1] at h; cases h
        | ok r1 =>
          rw [h1] at h
          simp only [M_ok_bind, M_pure_eq, Except.ok.injEq] at h
          rw [← h]
          have := foldIdxM_listed (rollbackCbOut c id blk) (fun a => a.1.1) (fun _ _ _ _ h => rollbackCbOut_listed h)
            _ _ _ _ h1
          exact (Listed.of_eq (s := s) (s' := { s with txrecs := AMap.erase s.txrecs (id, blk) }) rfl).trans this
      · simp only [hcb, Bool.false_eq_true, if_false] at h
        cases h1 : foldIdxM (rollbackIn c id blk) tx.ins 0
            ({ s with txrecs := AMap.erase s.txrecs (id, blk), pending := AMap.put s.pending id tx }, bals) with
        | error e => rw [h1] at h; cases h
        | ok sb1 =>
          rw [h1] at h
          simp only [M_ok_bind] at h
          cases h2 : foldIdxM (rollbackOut c id blk) tx.outs 0 sb1 with
          | error e => rw [h2] at h; cases h
          | ok sb2 =>
            rw [h2] at h
            simp only [M_ok_bind, M_pure_eq, Except.ok.injEq] at h
            rw [← h]
            have l1 : Listed s sb1.1 := Listed.of_eq (by rw [rollbackIns_addrs _ _ _ _ h1])
            have l2 := foldIdxM_listed (rollbackOut c id blk) (fun a => a.1) (fun _ _ _ _ h => rollbackOut_listed h)
              _ _ _ _ h2
            exact l1.trans l2

theorem rollbackBlockAt_listed {c : Ctx} {acc acc' : RbAcc} {cur : Nat}
    (h : rollbackBlockAt c acc cur = .ok acc') : Listed acc.s acc'.s := by
  rw [rollbackBlockAt_eq] at h
  cases hb : AMap.get acc.s.blocks cur with
  | none => rw [hb] at h; cases h; exact Listed.refl _
  | some r =>
    obtain ⟨bh, txs⟩ := r
    rw [hb] at h
    simp only at h
    have := foldlM_listed (rbStep c ⟨cur, bh⟩) (fun a => a.s) (fun a id a' h => by
      unfold rbStep at h
      cases h1 : rollbackTx c a.s a.bals ⟨cur, bh⟩ id with
      | error e => rw [h1] at h; cases h
      | ok r =>
        rw [h1] at h
        cases h
        exact rollbackTx_listed h1) _ _ _ h
    exact this

theorem rollback_listed {c : Ctx} {s s' : Store} {height : Nat} (h : rollback c s height = .ok s') :
    Listed s s' := by
  unfold rollback at h
  dsimp only at h
  cases h1 : ((List.range (s.syncedTo + 1 - height)).map (fun k => s.syncedTo - k)).foldlM (rollbackBlockAt c)
      { s := s, bals := s.balance } with
  | error e => rw [h1] at h; cases h
  | ok acc =>
    rw [h1] at h
    simp only [M_ok_bind, M_pure_eq, Except.ok.injEq] at h
    have l1 := foldlM_listed (rollbackBlockAt c) (fun a => a.s) (fun _ _ _ h => rollbackBlockAt_listed h) _ _ _ h1
    rw [← h]
    refine l1.trans ((Listed.of_eq (foldl_eraseBlocks_addrs acc.heights acc.s)).trans ?_)
    exact (Listed.of_minedEq (minedEq_foldl _ _ _ (fun s a _ => minedEq_purgeSpenders c.own s a))).trans
      (Listed.of_eq rfl)

theorem disconnectBlock_listed {c : Ctx} {s s' : Store} {height : Nat}
    (h : disconnectBlock c s height = .ok s') : Listed s s' := by
  unfold disconnectBlock at h
  split at h
  · cases h
  · split at h
    · cases h; exact Listed.refl _
    · cases h1 : rollback c s height with
      | error e => rw [h1] at h; cases h
      | ok s1 =>
        rw [h1] at h
        simp only [M_ok_bind, M_pure_eq, Except.ok.injEq] at h
        rw [← h]
        exact (rollback_listed h1).trans (Listed.of_eq rfl)

theorem discSeq_listed {c : Ctx} (hs : List Nat) :
    ∀ (s s' : Store), discSeq c s hs = .ok s' → Listed s s' := by
  induction hs with
  | nil => intro s s' h; cases h; exact Listed.refl _
  | cons x hs ih =>
    intro s s' h
    simp only [discSeq] at h
    cases h1 : disconnectBlock c s x with
    | error e => rw [h1] at h; cases h
    | ok s1 =>
      rw [h1, M_ok_bind] at h
      exact (disconnectBlock_listed h1).trans (ih _ _ h)

-- ------------------------------------------------------------------ the follower

/-- AN ISSUED ADDRESS STAYS LISTED: no notification – connecting, reorganising, stale, failing – ever removes
    an address record (no hypothesis) -/
theorem processBlock_listed (c : Ctx) (s : Store) (v : Vol) (b : Block) : Listed s (processBlock c s v b).1 := by
  cases hr : processM c s v b with
  | error e => rw [processBlock_of_error hr]; exact Listed.refl _
  | ok r =>
    obtain ⟨s', rolled, added⟩ := r
    obtain ⟨v', h1, _⟩ := processBlock_of_ok hr
    rw [h1]
    rcases processM_trace hr with ⟨_, conf, hf⟩ | ⟨_, s1, tc, k, _, _, hd, hc⟩
    · exact filterBlock_listed hf
    · exact (discSeq_listed _ _ _ hd).trans (connectAll_listed _ _ _ _ hc)

end MW.Lemmas.LedgerFU
