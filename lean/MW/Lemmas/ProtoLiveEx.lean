/- C20 liveness: a weakly fair run of the protocol model in which an announced block is never processed (a flood of
   unconfirmed transactions: the follower's select always takes the transaction branch). Hence weak fairness alone
   is not enough for "every announced tip is eventually processed" – the select has to be (strongly) fair – and the
   round-3 formulation `C20_full_progress` is false. -/
import MW.Lemmas.ProtoLive
namespace MW.Lemmas.ProtoLiveEx
open MW.Model.Proto MW.Lemmas.Proto MW.Spec.Live MW.Lemmas.ProtoLive

def sA : St := { nb := 1 }
def sB : St := { nb := 1, ntx := 1 }
def sC : St := { nb := 1, hp := .tx }

/-- eTx, hTakeTx, hDoneTx, eTx, hTakeTx, hDoneTx, … with one block queued all along -/
def floodRun (i : Nat) : St := if i % 3 = 0 then sA else if i % 3 = 1 then sB else sC
def floodLab (i : Nat) : Option Label :=
  some (if i % 3 = 0 then .eTx else if i % 3 = 1 then .hTakeTx else .hDoneTx)

theorem flood_step (i : Nat) : fire .fixed cfg4 ((floodLab i).getD .eTx) (floodRun i) = some (floodRun (i + 1)) := by
  have h : i % 3 = 0 ∨ i % 3 = 1 ∨ i % 3 = 2 := by omega
  rcases h with h | h | h
  · have h' : (i + 1) % 3 = 1 := by omega
    simp [floodLab, floodRun, h, h']; decide
  · have h' : (i + 1) % 3 = 2 := by omega
    simp [floodLab, floodRun, h, h']; decide
  · have h' : (i + 1) % 3 = 0 := by omega
    simp [floodLab, floodRun, h, h']; decide

theorem flood_isRun : IsRun cfg4 floodRun floodLab := by
  refine ⟨by simp [Init, floodRun, sA, cfg4], ?_⟩
  intro i
  have := flood_step i
  simpa [floodLab] using this

/-- in the third state of the cycle only hDoneTx is enabled among the steps of follower, worker and stop sequence -/
theorem sC_disabled (l : Label) (hl : l.core = true) (h1 : l ≠ .hDoneTx) : fire .fixed cfg4 l sC = none := by
  cases l <;> simp [Label.core] at hl <;> first | rfl | exact absurd rfl h1

theorem flood_weak (l : Label) (hl : l.core = true) : WF (fire .fixed cfg4) floodRun floodLab l := by
  intro i hen
  by_cases h1 : l = .hDoneTx
  · refine ⟨3 * i + 2, by omega, ?_⟩
    have : (3 * i + 2) % 3 = 2 := by omega
    simp [floodLab, this, h1]
  · have := hen (3 * i + 2) (by omega)
    have h3 : (3 * i + 2) % 3 = 2 := by omega
    simp [En, floodRun, h3, sC_disabled l hl h1] at this

theorem flood_sf_tx : SF (fire .fixed cfg4) floodRun floodLab .hTakeTx := by
  intro i _
  refine ⟨3 * i + 1, by omega, ?_⟩
  have : (3 * i + 1) % 3 = 1 := by omega
  simp [floodLab, this]

theorem flood_sf_sus : SF (fire .fixed cfg4) floodRun floodLab .sus := by
  intro i hen
  obtain ⟨k, _, hk⟩ := hen i (Nat.le_refl i)
  have h : k % 3 = 0 ∨ k % 3 = 1 ∨ k % 3 = 2 := by omega
  have e1 : fire .fixed cfg4 .sus sA = none := rfl
  have e2 : fire .fixed cfg4 .sus sB = none := rfl
  have e3 : fire .fixed cfg4 .sus sC = none := rfl
  rcases h with h | h | h <;> simp [En, floodRun, h, e1, e2, e3] at hk

theorem flood_nb (j : Nat) : (floodRun j).nb = 1 ∧ (floodRun j).hp ≠ .blk ∧ (floodRun j).quit = false := by
  have h : j % 3 = 0 ∨ j % 3 = 1 ∨ j % 3 = 2 := by omega
  rcases h with h | h | h <;> simp [floodRun, h] <;> decide

theorem flood_procB (j : Nat) : (obs floodRun floodLab j).procB = 0 ∧ (obs floodRun floodLab j).annB = 1 ∧
    ∀ t, (obs floodRun floodLab j).used t = 0 := by
  induction j with
  | zero => exact ⟨rfl, rfl, fun _ => rfl⟩
  | succ j ih =>
    have h : j % 3 = 0 ∨ j % 3 = 1 ∨ j % 3 = 2 := by omega
    rcases h with h | h | h <;> simp [obs, floodLab, h, gstep] <;> exact ih

theorem flood_work (j : Nat) : 2 ≤ followerWork (floodRun j) := by
  have := (flood_nb j).1
  unfold followerWork
  omega

/-- weak fairness of every step (and strong fairness of the two other select branches) does not give block progress -/
theorem weak_not_enough : ∃ (c : Cfg) (run : Nat → St) (ls : Nat → Option Label), c.busy < c.cap ∧ IsRun c run ls ∧
    (∀ l : Label, l.core = true → WF (fire .fixed c) run ls l) ∧
    SF (fire .fixed c) run ls .sus ∧ SF (fire .fixed c) run ls .hTakeTx ∧
    (∀ i, (run i).quit = false) ∧ (∀ i t, (obs run ls i).used t ≤ 0) ∧
    ¬ ∃ j, (obs run ls 0).annB ≤ (obs run ls j).procB := by
  refine ⟨cfg4, floodRun, floodLab, by decide, flood_isRun, flood_weak, flood_sf_sus, flood_sf_tx,
    fun i => (flood_nb i).2.2, fun i t => Nat.le_of_eq ((flood_procB i).2.2 t), ?_⟩
  rintro ⟨j, hj⟩
  rw [(flood_procB 0).2.1, (flood_procB j).1] at hj
  omega

/-- the round-3 formulation of progress (`MW.Props.C20.C20_full_progress`) is false -/
theorem old_progress_false : ¬ (∀ (c : Cfg) (run : Nat → St), c.busy < c.cap → Init c (run 0) →
    (∀ i, ∃ l, fire .fixed c l (run i) = some (run (i + 1))) →
    (∀ l, l.core = true → ∀ i, (∀ j, i ≤ j → (fire .fixed c l (run j)).isSome) →
      ∃ j, i ≤ j ∧ fire .fixed c l (run j) = some (run (j + 1))) →
    ∀ i, (∀ j, (run j).quit = false) → ∃ j, i ≤ j ∧ followerWork (run j) = 0) := by
  intro h
  obtain ⟨j, _, hj⟩ := h cfg4 floodRun (by decide) flood_isRun.init (fun i => ⟨_, flood_step i⟩)
    (fun l hl i hen => by
      obtain ⟨j, hij, hlj⟩ := flood_weak l hl i hen
      refine ⟨j, hij, ?_⟩
      have := flood_step j
      rw [hlj] at this
      exact this)
    0 (fun j => (flood_nb j).2.2)
  have := flood_work j
  omega

-- ------------------------------------------------------------------ the budget hypothesis is necessary

/-- an import whose every database round ends "more" -/
def rA : St := { nt := 1 }
def rB : St := { wp := .impSus }
def rC : St := { wp := .impCommit, hp := .wait }
def rD : St := { wp := .impRes .more, hp := .wait }
def rE : St := { wp := .push }
def retryRun (i : Nat) : St :=
  if i % 5 = 0 then rA else if i % 5 = 1 then rB else if i % 5 = 2 then rC else if i % 5 = 3 then rD else rE
def retryLab (i : Nat) : Option Label :=
  some (if i % 5 = 0 then .wTakeImp else if i % 5 = 1 then .sus else if i % 5 = 2 then .wCommitI .more
        else if i % 5 = 3 then .res else .wPush)

theorem retry_step (i : Nat) : fire .fixed cfg4 ((retryLab i).getD .eTx) (retryRun i) = some (retryRun (i + 1)) := by
  have h : i % 5 = 0 ∨ i % 5 = 1 ∨ i % 5 = 2 ∨ i % 5 = 3 ∨ i % 5 = 4 := by omega
  rcases h with h | h | h | h | h
  · have h' : (i + 1) % 5 = 1 := by omega
    simp [retryLab, retryRun, h, h']; decide
  · have h' : (i + 1) % 5 = 2 := by omega
    simp [retryLab, retryRun, h, h']; decide
  · have h' : (i + 1) % 5 = 3 := by omega
    simp [retryLab, retryRun, h, h']; decide
  · have h' : (i + 1) % 5 = 4 := by omega
    simp [retryLab, retryRun, h, h']; decide
  · have h' : (i + 1) % 5 = 0 := by omega
    simp [retryLab, retryRun, h, h']; decide

theorem retry_isRun : IsRun cfg4 retryRun retryLab := by
  refine ⟨by simp [Init, retryRun, rA, cfg4], ?_⟩
  intro i
  have := retry_step i
  simpa [retryLab] using this

/-- with the worker parked at suspend and nothing queued for the follower, only the hand-shake is enabled -/
theorem rB_disabled (l : Label) (hl : l.core = true) (h1 : l ≠ .sus) : fire .fixed cfg4 l rB = none := by
  cases l <;> simp [Label.core] at hl <;> first | rfl | exact absurd rfl h1

theorem retry_sus : SF (fire .fixed cfg4) retryRun retryLab .sus := by
  intro i _
  refine ⟨5 * i + 1, by omega, ?_⟩
  have : (5 * i + 1) % 5 = 1 := by omega
  simp [retryLab, this]

theorem retry_weak (l : Label) (hl : l.core = true) : WF (fire .fixed cfg4) retryRun retryLab l := by
  by_cases h1 : l = .sus
  · rw [h1]; exact retry_sus.wf
  · intro i hen
    have := hen (5 * i + 1) (by omega)
    have h3 : (5 * i + 1) % 5 = 1 := by omega
    simp [En, retryRun, h3, rB_disabled l hl h1] at this

theorem retry_noFollower (l : Label) (hl : l = .hTakeBlk ∨ l = .hTakeTx) :
    SF (fire .fixed cfg4) retryRun retryLab l := by
  intro i hen
  obtain ⟨k, _, hk⟩ := hen i (Nat.le_refl i)
  have hn : fire .fixed cfg4 l (retryRun k) = none := by
    have h : k % 5 = 0 ∨ k % 5 = 1 ∨ k % 5 = 2 ∨ k % 5 = 3 ∨ k % 5 = 4 := by omega
    rcases hl with rfl | rfl <;> rcases h with h | h | h | h | h <;> simp [retryRun, h] <;> rfl
  rw [En, hn] at hk
  cases hk

theorem retry_fair : FairRun cfg4 retryRun retryLab :=
  ⟨retry_weak, retry_sus, retry_noFollower _ (Or.inl rfl), retry_noFollower _ (Or.inr rfl)⟩

theorem retry_quit (j : Nat) : (retryRun j).quit = false := by
  have h : j % 5 = 0 ∨ j % 5 = 1 ∨ j % 5 = 2 ∨ j % 5 = 3 ∨ j % 5 = 4 := by omega
  rcases h with h | h | h | h | h <;> simp [retryRun, h] <;> rfl

theorem retry_fin (j : Nat) : (obs retryRun retryLab j).fin = [] := by
  induction j with
  | zero => rfl
  | succ j ih =>
    have h : j % 5 = 0 ∨ j % 5 = 1 ∨ j % 5 = 2 ∨ j % 5 = 3 ∨ j % 5 = 4 := by omega
    rcases h with h | h | h | h | h <;>
      simp [obs, retryLab, retryRun, h, gstep, rD, resNext] <;> exact ih

/-- without a bound on the unfinished rounds of a task, `progress` (b) fails: a fair run, no stop request, task 0
    accepted and never finished -/
theorem budget_needed : ∃ (c : Cfg) (run : Nat → St) (ls : Nat → Option Label), c.busy < c.cap ∧ IsRun c run ls ∧
    FairRun c run ls ∧ (∀ i, (run i).quit = false) ∧ 0 < (obs run ls 0).next ∧ ∀ j, 0 ∉ (obs run ls j).fin :=
  ⟨cfg4, retryRun, retryLab, by decide, retry_isRun, retry_fair, retry_quit, by decide,
   fun j => by rw [retry_fin j]; exact List.not_mem_nil⟩

-- ------------------------------------------------------------------ strong fairness of the hand-shake branch is necessary too

def fA : St := { wp := .impSus, nb := 1 }
def fB : St := { wp := .impSus, hp := .blk }
def fC : St := { wp := .impSus, hp := .blk, nb := 1 }
/-- the worker takes an import and parks at suspend(); from then on a flood of blocks: the follower's select always
    takes the block branch, never the hand-shake -/
def starveRun : Nat → St
  | 0 => { nt := 1, nb := 1 }
  | k + 1 => if k % 3 = 0 then fA else if k % 3 = 1 then fB else fC
def starveLab : Nat → Option Label
  | 0 => some .wTakeImp
  | k + 1 => some (if k % 3 = 0 then .hTakeBlk else if k % 3 = 1 then .eBlk else .hDoneBlk)

theorem starve_isRun : IsRun cfg4 starveRun starveLab := by
  refine ⟨by simp [Init, starveRun, cfg4], ?_⟩
  intro i
  match i with
  | 0 => rfl
  | k + 1 =>
    have h : k % 3 = 0 ∨ k % 3 = 1 ∨ k % 3 = 2 := by omega
    rcases h with h | h | h
    · have h' : (k + 1) % 3 = 1 := by omega
      simp [starveLab, starveRun, h, h']; decide
    · have h' : (k + 1) % 3 = 2 := by omega
      simp [starveLab, starveRun, h, h']; decide
    · have h' : (k + 1) % 3 = 0 := by omega
      simp [starveLab, starveRun, h, h']; decide

theorem fB_disabled (l : Label) (hl : l.core = true) : fire .fixed cfg4 l fB = none ∨ l = .hDoneBlk := by
  cases l <;> simp [Label.core] at hl <;> first | exact Or.inl rfl | exact Or.inr rfl

theorem starve_weak (l : Label) (hl : l.core = true) : WF (fire .fixed cfg4) starveRun starveLab l := by
  intro i hen
  rcases fB_disabled l hl with h1 | h1
  · have := hen (3 * i + 1 + 1) (by omega)
    have h3 : (3 * i + 1) % 3 = 1 := by omega
    simp [En, starveRun, h3, h1] at this
  · refine ⟨3 * i + 2 + 1, by omega, ?_⟩
    have h3 : (3 * i + 2) % 3 = 2 := by omega
    simp [starveLab, h3, h1]

theorem starve_blk : SF (fire .fixed cfg4) starveRun starveLab .hTakeBlk := by
  intro i _
  refine ⟨3 * i + 1, by omega, ?_⟩
  have h3 : (3 * i) % 3 = 0 := by omega
  simp [starveLab, h3]

theorem starve_tx : SF (fire .fixed cfg4) starveRun starveLab .hTakeTx := by
  intro i hen
  obtain ⟨k, _, hk⟩ := hen i (Nat.le_refl i)
  have hn : fire .fixed cfg4 .hTakeTx (starveRun k) = none := by
    match k with
    | 0 => rfl
    | k + 1 =>
      have h : k % 3 = 0 ∨ k % 3 = 1 ∨ k % 3 = 2 := by omega
      rcases h with h | h | h <;> simp [starveRun, h] <;> rfl
  rw [En, hn] at hk
  cases hk

theorem starve_quit (j : Nat) : (starveRun j).quit = false := by
  match j with
  | 0 => rfl
  | k + 1 =>
    have h : k % 3 = 0 ∨ k % 3 = 1 ∨ k % 3 = 2 := by omega
    rcases h with h | h | h <;> simp [starveRun, h] <;> rfl

theorem starve_obs (j : Nat) : (obs starveRun starveLab j).fin = [] ∧ ∀ t, (obs starveRun starveLab j).used t = 0 := by
  induction j with
  | zero => exact ⟨rfl, fun _ => rfl⟩
  | succ j ih =>
    match j with
    | 0 => exact ⟨rfl, fun _ => rfl⟩
    | k + 1 =>
      have h : k % 3 = 0 ∨ k % 3 = 1 ∨ k % 3 = 2 := by omega
      rcases h with h | h | h <;> simp [obs, starveLab, h, gstep] <;> exact ih

/-- weak fairness of every step, strong fairness of the block and transaction branches, no stop request, no
    retries – and the accepted import never even starts: without strong fairness of the hand-shake branch of the
    follower's select a flood of blocks starves the worker -/
theorem sus_fairness_needed : ∃ (c : Cfg) (run : Nat → St) (ls : Nat → Option Label), c.busy < c.cap ∧
    IsRun c run ls ∧ (∀ l : Label, l.core = true → WF (fire .fixed c) run ls l) ∧
    SF (fire .fixed c) run ls .hTakeBlk ∧ SF (fire .fixed c) run ls .hTakeTx ∧
    (∀ i, (run i).quit = false) ∧ (∀ i t, (obs run ls i).used t ≤ 0) ∧
    0 < (obs run ls 0).next ∧ ∀ j, 0 ∉ (obs run ls j).fin :=
  ⟨cfg4, starveRun, starveLab, by decide, starve_isRun, starve_weak, starve_blk, starve_tx, starve_quit,
   fun i t => Nat.le_of_eq ((starve_obs i).2 t), by decide, fun j => by rw [(starve_obs j).1]; exact List.not_mem_nil⟩

-- ------------------------------------------------------------------ a fair run (non-vacuity of the hypotheses of `progress`)

/-- one import queued and one block announced; the worker takes the task, the follower processes the block, then
    is suspended for the import's single database round; afterwards nothing is left to do (stutter for ever) -/
def okStates : List St :=
  [{ nt := 1, nb := 1 }, { wp := .impSus, nb := 1 }, { wp := .impSus, hp := .blk }, { wp := .impSus },
   { wp := .impCommit, hp := .wait }, { wp := .impRes .fin, hp := .wait }, {}]
def okLabs : List (Option Label) :=
  [some .wTakeImp, some .hTakeBlk, some .hDoneBlk, some .sus, some (.wCommitI .fin), some .res]
def okRun (i : Nat) : St := okStates.getD i {}
def okLab (i : Nat) : Option Label := okLabs.getD i none

theorem ok_isRun : IsRun cfg4 okRun okLab := by
  refine ⟨by simp [Init, okRun, okStates, cfg4], ?_⟩
  intro i
  match i with
  | 0 => rfl
  | 1 => rfl
  | 2 => rfl
  | 3 => rfl
  | 4 => rfl
  | 5 => rfl
  | i + 6 =>
    simp [okLab, okLabs, okRun, okStates]
    cases i <;> simp

theorem ok_late (k : Nat) (hk : 6 ≤ k) : okRun k = {} := by
  obtain ⟨d, rfl⟩ := Nat.exists_eq_add_of_le hk
  rw [Nat.add_comm]
  simp [okRun, okStates]
  cases d <;> simp

theorem idle_disabled (l : Label) (hl : l.core = true) : fire .fixed cfg4 l {} = none := by
  cases l <;> simp [Label.core] at hl <;> rfl

theorem ok_sf (l : Label) (hl : l.core = true) : SF (fire .fixed cfg4) okRun okLab l := by
  intro i hen
  obtain ⟨k, hk, h⟩ := hen (i + 6) (by omega)
  rw [En, ok_late k (by omega), idle_disabled l hl] at h
  cases h

theorem ok_fair : FairRun cfg4 okRun okLab :=
  ⟨fun l hl => (ok_sf l hl).wf, ok_sf _ rfl, ok_sf _ rfl, ok_sf _ rfl⟩

theorem ok_quit (i : Nat) : (okRun i).quit = false := by
  match i with
  | 0 => rfl
  | 1 => rfl
  | 2 => rfl
  | 3 => rfl
  | 4 => rfl
  | 5 => rfl
  | i + 6 => rw [ok_late _ (by omega)]

theorem ok_obs_late (k : Nat) : obs okRun okLab (k + 6) = obs okRun okLab 6 := by
  induction k with
  | zero => rfl
  | succ k ih =>
    rw [show k + 1 + 6 = (k + 6) + 1 from by omega, obs]
    have : okLab (k + 6) = none := by simp [okLab, okLabs]
    rw [this]
    exact ih

theorem ok_used (i t : Nat) : (obs okRun okLab i).used t ≤ 0 := by
  match i with
  | 0 => exact Nat.le_refl _
  | 1 => exact Nat.le_refl _
  | 2 => exact Nat.le_refl _
  | 3 => exact Nat.le_refl _
  | 4 => exact Nat.le_refl _
  | 5 => exact Nat.le_refl _
  | i + 6 => rw [ok_obs_late]; exact Nat.le_refl _

/-- in that run the task and the block are there at the start and done at instant 6 -/
theorem ok_content : (obs okRun okLab 0).next = 1 ∧ (obs okRun okLab 0).annB = 1 ∧
    0 ∈ (obs okRun okLab 6).fin ∧ (obs okRun okLab 6).procB = 1 := by
  refine ⟨rfl, rfl, ?_, rfl⟩
  simp [obs, okLab, okLabs, okRun, okStates, gstep, ginit, resNext, List.range, List.range.loop]

theorem ok_quiet (j : Nat) : okLab j ≠ some .eBlk ∧ okLab j ≠ some .eTx := by
  match j with
  | 0 => decide
  | 1 => decide
  | 2 => decide
  | 3 => decide
  | 4 => decide
  | 5 => decide
  | j + 6 => simp [okLab, okLabs]

theorem ok_noPush (j : Nat) (h : (okRun j).quit = true) : okLab j ≠ some .aPush := by
  rw [ok_quit j] at h
  cases h

-- ------------------------------------------------------------------ a run with a stop request (non-vacuity of `stop_live`)

def finalSt : St := { quit := true, dbOpen := false, hp := .done, wp := .done, sp := .done }
def stopStates : List St :=
  [{ nt := 1 }, { nt := 1, quit := true, sp := .waiting }, { nt := 1, quit := true, sp := .waiting, hp := .done },
   { nt := 1, quit := true, sp := .waiting, hp := .done, wp := .done },
   { nt := 1, quit := true, sp := .closing, hp := .done, wp := .done }]
def stopLabs : List (Option Label) := [some .eStop, some .hQuit, some .wQuit, some .sWait, some .sClose]
def stopRun (i : Nat) : St := stopStates.getD i { finalSt with nt := 1 }
def stopLab (i : Nat) : Option Label := stopLabs.getD i none

theorem stop_isRun : IsRun cfg4 stopRun stopLab := by
  refine ⟨by simp [Init, stopRun, stopStates, cfg4], ?_⟩
  intro i
  match i with
  | 0 => rfl
  | 1 => rfl
  | 2 => rfl
  | 3 => rfl
  | 4 => rfl
  | i + 5 => simp [stopLab, stopLabs, stopRun, stopStates]

theorem stop_late (k : Nat) (hk : 5 ≤ k) : stopRun k = { finalSt with nt := 1 } := by
  obtain ⟨d, rfl⟩ := Nat.exists_eq_add_of_le hk
  rw [Nat.add_comm]
  simp [stopRun, stopStates]

theorem final_disabled (l : Label) (hl : l.core = true) : fire .fixed cfg4 l { finalSt with nt := 1 } = none := by
  cases l <;> simp [Label.core] at hl <;> rfl

theorem stop_wf (l : Label) (hl : l.core = true) : WF (fire .fixed cfg4) stopRun stopLab l := by
  intro i hen
  have h := hen (i + 5) (by omega)
  rw [En, stop_late _ (by omega), final_disabled l hl] at h
  cases h

theorem stop_noPush (j : Nat) : stopLab j ≠ some .aPush := by
  match j with
  | 0 => decide
  | 1 => decide
  | 2 => decide
  | 3 => decide
  | 4 => decide
  | j + 5 => simp [stopLab, stopLabs]

-- ------------------------------------------------------------------ `stop_live` needs the API to be quiet after the stop request

def qA : St := { quit := true, sp := .waiting, hp := .done }
def qB : St := { quit := true, sp := .waiting, hp := .done, ap := .checked }
def qC : St := { quit := true, sp := .waiting, hp := .done, nt := 1 }
def qD : St := { quit := true, sp := .waiting, hp := .done, wp := .remChk }
/-- stop request, the follower returns; then for ever: an API call queues a removal, the worker's select takes it
    (not quit), the removal aborts at its quit check -/
def busyRun : Nat → St
  | 0 => {}
  | 1 => { quit := true, sp := .waiting }
  | k + 2 => if k % 4 = 0 then qA else if k % 4 = 1 then qB else if k % 4 = 2 then qC else qD
def busyLab : Nat → Option Label
  | 0 => some .eStop
  | 1 => some .hQuit
  | k + 2 => some (if k % 4 = 0 then .aCheck else if k % 4 = 1 then .aPush else if k % 4 = 2 then .wTakeRem else .wChkQuit)

theorem busy_isRun : IsRun cfg4 busyRun busyLab := by
  refine ⟨by simp [Init, busyRun, cfg4], ?_⟩
  intro i
  match i with
  | 0 => rfl
  | 1 => rfl
  | k + 2 =>
    have h : k % 4 = 0 ∨ k % 4 = 1 ∨ k % 4 = 2 ∨ k % 4 = 3 := by omega
    rcases h with h | h | h | h
    · have h' : (k + 1) % 4 = 1 := by omega
      simp [busyLab, busyRun, h, h']; decide
    · have h' : (k + 1) % 4 = 2 := by omega
      simp [busyLab, busyRun, h, h']; decide
    · have h' : (k + 1) % 4 = 3 := by omega
      simp [busyLab, busyRun, h, h']; decide
    · have h' : (k + 1) % 4 = 0 := by omega
      simp [busyLab, busyRun, h, h']; decide

theorem qD_disabled (l : Label) (hl : l.core = true) (h1 : l ≠ .wChkQuit) : fire .fixed cfg4 l qD = none := by
  cases l <;> simp [Label.core] at hl <;> first | rfl | exact absurd rfl h1

theorem busy_weak (l : Label) (hl : l.core = true) : WF (fire .fixed cfg4) busyRun busyLab l := by
  intro i hen
  have h3 : (4 * i + 3) % 4 = 3 := by omega
  by_cases h1 : l = .wChkQuit
  · refine ⟨4 * i + 3 + 2, by omega, ?_⟩
    simp [busyLab, h3, h1]
  · have := hen (4 * i + 3 + 2) (by omega)
    simp [En, busyRun, h3, qD_disabled l hl h1] at this

theorem busy_notFinal (j : Nat) : ¬ Final (busyRun j) := by
  match j with
  | 0 => simp [Final, busyRun]
  | 1 => simp [Final, busyRun]
  | k + 2 =>
    have h : k % 4 = 0 ∨ k % 4 = 1 ∨ k % 4 = 2 ∨ k % 4 = 3 := by omega
    rcases h with h | h | h | h <;> simp [Final, busyRun, h, qA, qB, qC, qD]

/-- weak fairness alone does not make Stop return when API calls keep queueing tasks after the stop request -/
theorem stop_needs_quiet_api : ∃ (c : Cfg) (run : Nat → St) (ls : Nat → Option Label), c.busy < c.cap ∧
    IsRun c run ls ∧ (∀ l : Label, l.core = true → WF (fire .fixed c) run ls l) ∧ (run 1).quit = true ∧
    ∀ j, ¬ Final (run j) :=
  ⟨cfg4, busyRun, busyLab, by decide, busy_isRun, busy_weak, rfl, busy_notFinal⟩

end MW.Lemmas.ProtoLiveEx
