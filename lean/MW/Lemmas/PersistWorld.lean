/-
  C06 on top of the ledger proofs (MW.Lemmas.Ledger*): a process crash as an event of the histories of
  C01 (`World`, `Ev`, the step invariant `J`).
-/
import MW.Lemmas.LedgerHistory2
import MW.Lemmas.LedgerMain
import MW.Lemmas.LedgerHistoryEx
namespace MW.Lemmas.PersistWorld
open MW MW.Model.Ledger MW.Spec.Books MW.Lemmas.Ledger

-- ------------------------------------------------------------------ crashes in the histories of C01

/-- a process crash in the world of MW.Lemmas.LedgerWorld: the store stays, the follower's volatile state
    is rebuilt from it (tip copy := synced-to), the notification queue is LOST, and Start's catch-up will
    process the node's blocks above synced-to (they are queued here; the catch-up = handling them) -/
def crashW (w : World) : World :=
  { w with v := { best := ⟨w.s.syncedTo, (AMap.get w.s.sync w.s.syncedTo).getD "?"⟩ },
           queue := w.chain.drop (w.s.syncedTo + 1) }

/-- the same for Start WITH the resync step (the repair of F2): when the block the wallet is synced to is
    not the node's block at that height (or the node's chain is shorter), the node's block at the highest
    common height is handed to the follower first -/
def crashF (w : World) : World :=
  let best : BlockMeta := ⟨w.s.syncedTo, (AMap.get w.s.sync w.s.syncedTo).getD "?"⟩
  let at_ := min w.s.syncedTo (w.chain.length - 1)
  let stale : Bool := decide (at_ < w.s.syncedTo) || (w.chain[at_]?.map (·.id) != some best.hash)
  { w with v := { best := best },
           queue := if stale then w.chain.drop at_ else w.chain.drop (w.s.syncedTo + 1) }

inductive EvC
  | ev (x : Ev)
  | crash          -- Start without the resync step (the code before the repair of F2)
  | crashF         -- Start with the resync step

def stepC (e : MW.Lemmas.Ledger.Env) (w : World) : EvC → World
  | .ev x => stepW e w x
  | .crash => crashW w
  | .crashF => crashF w

def runC (e : MW.Lemmas.Ledger.Env) (w : World) (evs : List EvC) : World := evs.foldl (stepC e) w

/-- the one situation Start's catch-up does not repair by itself: notifications were pending at the
    crash AND the node's chain is not higher than the block the wallet is synced to (an equal-height or
    shorter replacement): the catch-up loop is empty although the wallet is on a stale branch -/
def freshAt (w : World) : Prop := w.s.syncedTo + 1 < w.chain.length ∨ w.queue = []

/-- hypotheses on a history with crashes: every node chain is a well-formed known chain from genesis,
    reorganisations announce something, every crash happens at a `freshAt` point -/
def RunOK (e : MW.Lemmas.Ledger.Env) (G : Block) : World → List EvC → Prop
  | w, [] => ChainOK e G w.chain
  | w, x :: xs => ChainOK e G w.chain ∧ (match x with | .ev ev => EvOK ev | .crash => freshAt w | .crashF => True) ∧
      RunOK e G (stepC e w x) xs

theorem RunOK_head {e : MW.Lemmas.Ledger.Env} {G : Block} {w : World} {evs : List EvC} (h : RunOK e G w evs) :
    ChainOK e G w.chain := by
  cases evs with
  | nil => exact h
  | cons x xs => exact h.1

theorem crashW_J {e : MW.Lemmas.Ledger.Env} {G : Block} {w : World} (hJ : J e G w) (hN : ChainOK e G w.chain)
    (hf : freshAt w) : J e G (crashW w) := by
  obtain ⟨S, hI, hv, hS, hAR, hne, hq, hq0, hq1⟩ := hJ
  obtain ⟨x, hx, ht⟩ := tipMeta_good hS.good
  have hlen : w.s.syncedTo + 1 = S.length := hI.syncedTo
  have hpos := hS.good.length_pos
  have hsync : AMap.get w.s.sync w.s.syncedTo = some x.id := by
    rw [hI.sync, syncOf]
    have : w.s.syncedTo = S.length - 1 := by omega
    rw [this, hx]; rfl
  refine ⟨S, hI, ?_, hS, hAR, hne, ?_, ?_, ?_⟩
  · show (⟨w.s.syncedTo, (AMap.get w.s.sync w.s.syncedTo).getD "?"⟩ : BlockMeta) = tipMeta S
    rw [ht, hsync]
    have : w.s.syncedTo = S.length - 1 := by omega
    simp [this]
  · intro b hb
    exact hN.known b (List.mem_of_mem_drop hb)
  · intro hd
    have hd' : w.chain.drop (w.s.syncedTo + 1) = [] := hd
    have hle : w.chain.length ≤ w.s.syncedTo + 1 := List.drop_eq_nil_iff.1 hd'
    rcases hf with h | h
    · omega
    · exact hq0 h
  · intro hd
    show (w.chain.drop (w.s.syncedTo + 1)).getLast? = w.chain.getLast?
    have hlt : w.s.syncedTo + 1 < w.chain.length := by
      apply Nat.lt_of_not_le
      intro hc
      exact hd (List.drop_eq_nil_iff.2 hc)
    rw [List.getLast?_drop]
    simp
    intro hle
    omega

/-- with the resync step a crash keeps `J` at EVERY commit boundary, without exception -/
theorem crashF_J {e : MW.Lemmas.Ledger.Env} {G : Block} {w : World} (hJ : J e G w) (hN : ChainOK e G w.chain) :
    J e G (crashF w) := by
  obtain ⟨S, hI, hv, hS, hAR, hne, hq, hq0, hq1⟩ := hJ
  obtain ⟨x, hx, ht⟩ := tipMeta_good hS.good
  have hlen : w.s.syncedTo + 1 = S.length := hI.syncedTo
  have hposN := hN.good.length_pos
  have hsync : AMap.get w.s.sync w.s.syncedTo = some x.id := by
    rw [hI.sync, syncOf]
    have : w.s.syncedTo = S.length - 1 := by omega
    rw [this, hx]; rfl
  have hxs : S[w.s.syncedTo]? = some x := by
    have : w.s.syncedTo = S.length - 1 := by omega
    rw [this]; exact hx
  have hbest : (⟨w.s.syncedTo, (AMap.get w.s.sync w.s.syncedTo).getD "?"⟩ : BlockMeta) = tipMeta S := by
    rw [ht, hsync]
    have : w.s.syncedTo = S.length - 1 := by omega
    simp [this]
  have hinj : IdInj (S ++ w.chain) := idInj_of_known (known := e.known) (fun y hy => by
    rcases List.mem_append.1 hy with h | h
    · exact hS.known y h
    · exact hN.known y h)
  have hlast : ∀ k, k < w.chain.length → (w.chain.drop k).getLast? = w.chain.getLast? := by
    intro k hk
    rw [List.getLast?_drop]
    simp
    intro hle; omega
  have hne' : ∀ k, k < w.chain.length → w.chain.drop k ≠ [] := by
    intro k hk h
    have := List.drop_eq_nil_iff.1 h
    omega
  unfold crashF
  simp only
  by_cases hst : (decide (min w.s.syncedTo (w.chain.length - 1) < w.s.syncedTo) ||
      (w.chain[min w.s.syncedTo (w.chain.length - 1)]?.map (·.id) != some ((AMap.get w.s.sync w.s.syncedTo).getD "?"))) = true
  · -- stale: the block at the highest common height is announced, then everything above it
    rw [if_pos hst]
    have hat : min w.s.syncedTo (w.chain.length - 1) < w.chain.length := by
      have := Nat.min_le_right w.s.syncedTo (w.chain.length - 1); omega
    exact ⟨S, hI, hbest, hS, hAR, hne, fun b hb => hN.known b (List.mem_of_mem_drop hb),
      fun h => absurd h (hne' _ hat), fun _ => hlast _ hat⟩
  · -- not stale: the synced block is the node's block at that height
    rw [if_neg hst]
    simp only [Bool.or_eq_true, decide_eq_true_eq, bne_iff_ne, ne_eq, not_or, Decidable.not_not] at hst
    obtain ⟨h1, h2⟩ := hst
    have hat : min w.s.syncedTo (w.chain.length - 1) = w.s.syncedTo := by
      have := Nat.min_le_left w.s.syncedTo (w.chain.length - 1); omega
    rw [hat, hsync] at h2
    have hle : w.s.syncedTo ≤ w.chain.length - 1 := by rw [← hat]; exact Nat.min_le_right _ _
    refine ⟨S, hI, hbest, hS, hAR, hne, fun b hb => hN.known b (List.mem_of_mem_drop hb), ?_, ?_⟩
    · intro hd
      have hd' : w.chain.length ≤ w.s.syncedTo + 1 := List.drop_eq_nil_iff.1 hd
      have hl : w.chain.length = S.length := by omega
      cases hy : w.chain[w.s.syncedTo]? with
      | none => rw [hy] at h2; simp at h2
      | some y =>
        rw [hy] at h2
        have hid : x.id = y.id := by simpa using h2.symm
        have := prefix_of_id hS.good hN.good hinj w.s.syncedTo x y hxs hy hid
        rw [hlen] at this
        rw [List.take_of_length_le (Nat.le_refl _), List.take_of_length_le (by omega)] at this
        exact this
    · intro hd
      have hlt : w.s.syncedTo + 1 < w.chain.length := by
        apply Nat.lt_of_not_le
        intro hc
        exact hd (List.drop_eq_nil_iff.2 hc)
      exact hlast _ hlt

/-- J along every history with crashes -/
theorem J_runC {e : MW.Lemmas.Ledger.Env} {G : Block} (E : EnvHyp e G) :
    ∀ (evs : List EvC) (w : World), J e G w → RunOK e G w evs →
      J e G (runC e w evs) ∧ ChainOK e G (runC e w evs).chain := by
  intro evs
  induction evs with
  | nil => intro w hJ h; exact ⟨hJ, h⟩
  | cons x xs ih =>
    intro w hJ h
    obtain ⟨hN, hx, hrest⟩ := h
    have hN' := RunOK_head hrest
    have hJ' : J e G (stepC e w x) := by
      cases x with
      | ev ev => exact (J_step E ev hJ hN hN' hx).1
      | crash => exact crashW_J hJ hN hx
      | crashF => exact crashF_J hJ hN
    exact ih _ hJ' hrest

/-- whenever nothing is queued after a history with crashes, the wallet holds the books of the node's
    chain and the follower's tip is the node's tip -/
theorem quiet_inv {e : MW.Lemmas.Ledger.Env} {G : Block} (E : EnvHyp e G) (evs : List EvC) (w : World)
    (hJ : J e G w) (hR : RunOK e G w evs) (hq : (runC e w evs).queue = []) :
    Inv (e.ctx (runC e w evs).chain) (runC e w evs).s (runC e w evs).chain ∧
      (runC e w evs).v.best = tipMeta (runC e w evs).chain := by
  obtain ⟨⟨S, hI, hv, _, _, _, _, hS, _⟩, _⟩ := J_runC E evs w hJ hR
  have := hS hq
  subst this
  exact ⟨hI, hv⟩

/-- crash_equiv over the histories of C01: two runs from the same world — one with crashes (each at a
    `freshAt` point; the notification queue is lost, Start catches up), one without — that end quiet on
    the same node chain hold extensionally equal confirmed buckets, the same synced-to and the same tip -/
theorem crash_equiv_ledger {e : MW.Lemmas.Ledger.Env} {G : Block} (E : EnvHyp e G) (w0 : World)
    (evsC evsT : List EvC) (hJ : J e G w0) (hC : RunOK e G w0 evsC) (hT : RunOK e G w0 evsT)
    (hqC : (runC e w0 evsC).queue = []) (hqT : (runC e w0 evsT).queue = [])
    (hch : (runC e w0 evsC).chain = (runC e w0 evsT).chain) :
    AMap.Equiv (runC e w0 evsC).s.credits (runC e w0 evsT).s.credits ∧
    AMap.Equiv (runC e w0 evsC).s.unspent (runC e w0 evsT).s.unspent ∧
    AMap.Equiv (runC e w0 evsC).s.debits (runC e w0 evsT).s.debits ∧
    AMap.Equiv (runC e w0 evsC).s.game (runC e w0 evsT).s.game ∧
    AMap.Equiv (runC e w0 evsC).s.txrecs (runC e w0 evsT).s.txrecs ∧
    AMap.Equiv (runC e w0 evsC).s.blocks (runC e w0 evsT).s.blocks ∧
    AMap.Equiv (runC e w0 evsC).s.sync (runC e w0 evsT).s.sync ∧
    (runC e w0 evsC).s.syncedTo = (runC e w0 evsT).s.syncedTo ∧
    (runC e w0 evsC).v.best = (runC e w0 evsT).v.best := by
  obtain ⟨hI1, hv1⟩ := quiet_inv E evsC w0 hJ hC hqC
  obtain ⟨hI2, hv2⟩ := quiet_inv E evsT w0 hJ hT hqT
  rw [hch] at hI1 hv1
  obtain ⟨a, b, c, d, f, g, h, i⟩ := inv_functional hI1 hI2
  exact ⟨a, b, c, d, f, g, h, i, hv1.trans hv2.symm⟩

-- ------------------------------------------------------------------ a concrete history with a crash

/-- the example history of C01 with a crash while both notifications are still queued: extend b1, extend b2,
    CRASH (queue lost; the catch-up finds b1, b2), handle, handle, reorganise to c2, handle -/
def hxC : List EvC :=
  [.ev (.extend hxB1), .ev (.extend hxB2), .crash, .ev .handle, .ev .handle, .ev (.reorgTo 1 [hxC2]), .ev .handle]

theorem hxJ0 : J hxEnv hxG hxW0 :=
  J_init hxRunHyp ((inv_ctx_irrel (c := obCtx) (c' := hxEnv.ctx [hxG]) rfl rfl rfl).1 obInv0) rfl rfl

theorem hxRunOK : RunOK hxEnv hxG hxW0 hxC := by
  refine ⟨hxOK1.take 0, trivial, hxOK1.take 1, trivial, hxOK1, ?_, hxOK1, trivial, hxOK1, trivial, hxOK1, ?_, hxOK2, trivial, hxOK2⟩
  · exact Or.inl (by decide)
  · show EvOK (.reorgTo 1 [hxC2]); simp [EvOK]

example : (runC hxEnv hxW0 hxC).queue = [] ∧ (runC hxEnv hxW0 hxC).chain = [hxG, hxB1, hxC2] := ⟨rfl, rfl⟩

/-- … and it ends with the books of the node's chain and the tip at c2, like the run without the crash -/
example : Inv (hxEnv.ctx [hxG, hxB1, hxC2]) (runC hxEnv hxW0 hxC).s [hxG, hxB1, hxC2] ∧
    (runC hxEnv hxW0 hxC).v.best = ⟨2, "c2"⟩ := by
  have h := quiet_inv hxRunHyp.toEnvHyp hxC hxW0 hxJ0 hxRunOK rfl
  have hc : (runC hxEnv hxW0 hxC).chain = [hxG, hxB1, hxC2] := rfl
  rw [hc] at h
  exact h

end MW.Lemmas.PersistWorld
