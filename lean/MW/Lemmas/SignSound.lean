/-
  C03 round 5: SOUNDNESS converse of sign_complete for the script VM engine: what a successful signTx implies for every input.
-/
import MW.Lemmas.Sign
import MW.Lemmas.SignSeq
import MW.Lemmas.SignVMEx
namespace MW.Lemmas.SignSound
open MW MW.Model.Sign MW.Model.ScriptVM MW.Lemmas.ScriptVMParse MW.Lemmas.SignVM MW.Lemmas.SignSeq
open MW.Lemmas.Sign
variable {C : Crypto}

/-- local copy of `sign_checked` (MW/Props/C03.lean), already rewritten to `tx.strip`: success implies that for every
    input the engine accepted the returned witness against the output it spends -/
theorem signTx_checked {A : Type} (E : Engine C A) (env : Env C A) (L : Lock C) (p : C.Pass) (fl : Flag)
    (tx tx' : Tx (Witness C)) (h : (signTx E env L p fl tx).2 = .ok tx') :
    ∀ (j : Nat) (inp : TxIn (Witness C)), tx.ins[j]? = some inp →
      ∃ po inp', env.resolve inp.prev = .ok po ∧ tx'.ins[j]? = some inp' ∧ E.ok po tx.strip j inp'.wit = true := by
  intro j inp hj
  unfold signTx at h
  dsimp only at h
  split at h
  · rename_i ins hl
    simp at h
    subst h
    obtain ⟨po, inp', h1, h2, h3⟩ := signLoop_checked _ _ _ _ hl j inp hj
    exact ⟨po, inp', h1, h2, by simpa using h3⟩
  · simp at h

/-- the engine never accepts an input without a witness -/
theorem vmOk_none (K : Codec C) (po : PrevOut Bytes) (tx : STx) (i : Nat) : vmOk K po tx i none = false := by
  unfold vmOk
  split
  · rename_i h _ _; exact absurd h (by simp)
  · rfl

/-- a successful signTx with the script VM model as the engine implies, for EVERY input: the previous output resolves to a
    template output, the returned input carries a witness whose key hashes (through the 1-of-1 redeem script) to the
    script hash of that output, the sequence rule of the class (`seqOk`, incl. the MASSIP-2 class) holds for the input's
    sequence number, and the signature verifies against the signature hash of the redeem script – i.e. the hypotheses of
    `sign_complete_vm` other than key possession are NECESSARY -/
theorem sign_success_facts (K : Codec C) (env : Env C Bytes) (L : Lock C) (p : C.Pass) (fl : Flag)
    (tx tx' : Tx (Witness C)) (h : (signTx (vmEngine K) env L p fl tx).2 = .ok tx')
    (hseq : ∀ inp ∈ tx.ins, inp.seq < 2^64)
    (hres : ∀ op po, env.resolve op = .ok po → po.addr.length = 32 ∧ ∀ f, po.cls = .stk f → f + 1 < 2^32) :
    ∀ (j : Nat) (inp : TxIn (Witness C)), tx.ins[j]? = some inp →
      ∃ po inp' w, env.resolve inp.prev = .ok po ∧ tx'.ins[j]? = some inp' ∧ inp'.wit = some w ∧
        po.cls ≠ .other ∧ K.sha256 (redeem1 (K.encPK w.pk)) = po.addr ∧ seqOk po.cls inp.seq = true ∧
        C.verify w.pk (K.sighash tx.strip j po.amt (redeem1 (K.encPK w.pk)) (flagByte w.flag)) w.sig = true := by
  intro j inp hj
  obtain ⟨po, inp', h1, h2, h3⟩ := signTx_checked (vmEngine K) env L p fl tx tx' h j inp hj
  have hok : vmOk K po tx.strip j inp'.wit = true := h3
  cases hw : inp'.wit with
  | none => rw [hw, vmOk_none] at hok; exact absurd hok (by simp)
  | some w =>
    rw [hw] at hok
    have hinp : tx.strip.ins[j]? = some inp.strip := by
      simp [Tx.strip, List.getElem?_map, hj]
    have hs : inp.strip.seq < 2^64 := hseq inp (List.mem_of_getElem? hj)
    obtain ⟨hl, hf⟩ := hres inp.prev po h1
    exact ⟨po, inp', w, h1, h2, hw, (vmOk_iff K po tx.strip j w inp.strip hinp hs hl hf).1 hok⟩

-- ------------------------------------------------------------------ non-vacuity

section NonVacuity
open MW.Lemmas.SignVMEx

/-- a staking output (frozen period 3) of key 9, whatever the outpoint -/
def exEnv : Env tinyCrypto Bytes :=
  ⟨fun _ => .ok ⟨70, .stk 3, (vmEngine tinyCodec).hashOf 9⟩, fun _ => some 9, fun _ => some 9, 7⟩

def exTx : Tx (Witness tinyCrypto) := ⟨1, 9, "pl", [⟨⟨"T", 1⟩, 4, none⟩], [⟨100, "x"⟩]⟩

/-- the hypotheses are satisfiable TOGETHER (`h`, `hseq`, `hres`), so the conclusion is not vacuous: the instance has the
    shape of input 1 of `tinyEnv` / `tinyTx` at the end of MW/Props/C03.lean, which also meets `hseq` (sequences 2^64 - 1,
    4, 2^64 - 1) and `hres` (sha256 output, `stk 3`) -/
example : ∃ w : Witness tinyCrypto, seqOk (.stk 3) 4 = true ∧
    tinyCodec.sha256 (redeem1 (tinyCodec.encPK w.pk)) = (vmEngine tinyCodec).hashOf 9 := by
  have hs : (match (signTx (vmEngine tinyCodec) exEnv (Lock.locked tinyCrypto) 7 ⟨.all, false⟩ exTx).2 with
    | .ok _ => true | .error _ => false) = true := by decide
  cases hr : (signTx (vmEngine tinyCodec) exEnv (Lock.locked tinyCrypto) 7 ⟨.all, false⟩ exTx).2 with
  | error e => rw [hr] at hs; cases hs
  | ok tx' =>
    obtain ⟨po, _, w, h1, _, _, _, h5, h6, _⟩ := sign_success_facts tinyCodec exEnv _ 7 _ exTx tx' hr
      (by intro inp hi; simp only [exTx, List.mem_singleton] at hi; subst hi; decide)
      (by intro op po hp; cases hp; exact ⟨tinyCodec.sha256_len _, by intro f hf; cases hf; decide⟩) 0 _ rfl
    cases h1
    exact ⟨w, h6, h5⟩

end NonVacuity

end MW.Lemmas.SignSound
