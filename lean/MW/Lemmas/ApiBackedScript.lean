/-
  C19 contracts backed by the C16 model (MW.Model.Script / MW.Lemmas.ScriptClassify):
  `utils.ParsePkScript`. The oracle answer the skeletons read ([ps ≠ nil, error id, error is
  ErrUnsupportedScript]) is COMPUTED by the C16 model function `parsePkScript` from some byte string;
  the contract "err == nil → ps != nil" and C16's classification result "ParsePkScript fails only with
  ErrUnsupportedScript" (the hypothesis `C16Contract` of `no_stall_full`) are then theorems.
-/
import MW.Lemmas.ApiContracts
import MW.Lemmas.ScriptClassify
namespace MW.Lemmas.ApiBacked
open MW MW.Model.Api MW.Lemmas.ApiContracts

/-- what a skeleton reads of `utils.ParsePkScript(script)`: [ps ≠ nil, error id, error is ErrUnsupportedScript],
    computed by the C16 model of the function -/
def parseAnswer (s : Bytes) : List Nat :=
  match MW.Model.Script.parsePkScript s with
  | .ok _ => [1, 0, 0]
  | .error (.err .unsupported) => [0, E.unsupportedScript, 1]
  | .error _ => [0, E.other, 0]

/-- the oracle answers `utils.ParsePkScript` by running the C16 model on some script -/
def ScriptBacked (O : Oracle) : Prop := ∀ σ, ∃ s : Bytes, O "utils.ParsePkScript" σ = parseAnswer s

/-- C16's classification result on the answer: success, or ErrUnsupportedScript – nothing else
    (from `parsePkScript_spec`: the function is decided by the byte-level template) -/
theorem parseAnswer_cases (s : Bytes) :
    parseAnswer s = [1, 0, 0] ∨ parseAnswer s = [0, E.unsupportedScript, 1] := by
  unfold parseAnswer
  rw [MW.Lemmas.ScriptClassify.parsePkScript_spec]
  cases MW.Spec.Script.template s with
  | none => right; rfl
  | wsh h => left; rfl
  | staking h f => left; rfl
  | binding h t =>
    by_cases h20 : t.length = 20
    · left; simp [h20]
    · by_cases hl : MW.Spec.Script.legalTarget22 t = true
      · left; simp [h20, hl]
      · right; simp [h20, hl, MW.Model.Script.fail]

/-- both outcomes occur: a witness-script-hash script parses, OP_RETURN is unsupported -/
example : parseAnswer (0 :: 0x20 :: List.replicate 32 0xab) = [1, 0, 0] ∧ parseAnswer [0x6a] = [0, E.unsupportedScript, 1] := by
  constructor
  · have := parseAnswer_cases (0 :: 0x20 :: List.replicate 32 0xab)
    unfold parseAnswer at *
    rw [MW.Lemmas.ScriptClassify.parsePkScript_spec] at *
    rfl
  · unfold parseAnswer
    rw [MW.Lemmas.ScriptClassify.parsePkScript_spec]
    rfl

/-- C16's contract as `no_stall_full` states it, for a script-backed oracle -/
theorem script_backed_total {O : Oracle} (h : ScriptBacked O) (σ : State) :
    (O "utils.ParsePkScript" σ).getD 1 0 = 0 ∨ (O "utils.ParsePkScript" σ).getD 2 0 ≠ 0 := by
  obtain ⟨s, hs⟩ := h σ
  rw [hs]
  rcases parseAnswer_cases s with h | h <;> rw [h]
  · left; rfl
  · right; decide

theorem script_backed_ok {O : Oracle} (h : ScriptBacked O) (σ : State) :
    (O "utils.ParsePkScript" σ).getD 1 0 = 0 → (O "utils.ParsePkScript" σ).getD 0 0 ≠ 0 := by
  obtain ⟨s, hs⟩ := h σ
  rw [hs]
  rcases parseAnswer_cases s with h | h <;> rw [h]
  · intro _; decide
  · intro h0; exact absurd h0 (by decide)

/-- the call nodes of `utils.ParsePkScript` in the model (5 variants of result variables, one contract) -/
def parseNodes : List CallNode := [
  ("utils.ParsePkScript", [V "ps", V "gbh.err"], onOk "gbh.err" [.nz "ps"]),
  ("utils.ParsePkScript", [V "pks", V "err"], onOk "err" [.nz "pks"]),
  ("utils.ParsePkScript", [V "ps", V "pserr", V "pserr.unsupported"], onOk "pserr" [.nz "ps"]),
  ("utils.ParsePkScript", [V "ps", V "err"], onOk "err" [.nz "ps"]),
  ("utils.ParsePkScript", [V "pks", V "pserr"], onOk "pserr" [.nz "pks"])]

/-- CONTRACT (script): every `utils.ParsePkScript` node of the model holds for a script-backed oracle -/
theorem contract_script_ParsePkScript {O : Oracle} (h : ScriptBacked O) : ∀ c ∈ parseNodes, Holds O c := by
  intro c hc
  simp only [parseNodes, List.mem_cons, List.not_mem_nil, or_false] at hc
  rcases hc with rfl | rfl | rfl | rfl | rfl <;>
    exact holds_onOk_first O _ _ _ _ (by decide) (script_backed_ok h)

end MW.Lemmas.ApiBacked
