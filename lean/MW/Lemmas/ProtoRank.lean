/- C20 liveness, state level: the ranking function of one task (how far it is from finishing) and the effect of
   every step of the protocol model on it -/
import MW.Lemmas.ProtoGhost
import MW.Lemmas.Fair
namespace MW.Lemmas.ProtoRank
open MW.Model.Proto MW.Lemmas.Proto MW.Spec.Live MW.Lemmas.ProtoGhost MW.Lemmas.Fair

/-! Task `k` with budget `B k` (database rounds that may end "not finished"). `phase` = twice the rounds it
    has left (+1 while it is on its way back into the queue); `work` = the steps the worker needs until it has
    served everything that is in front of `k` in the queue, the task in hand included (8 steps per round and
    task: a round of asyncImport / asyncRemove has at most 6 program points). Every worker step decreases
    (phase, work) lexicographically or finishes `k`; no other step changes it. -/

def remB (B : Nat → Nat) (u : Nat → Nat) (t : Nat) : Nat := B t - u t
def costQ (B : Nat → Nat) (u : Nat → Nat) (t : Nat) : Nat := (remB B u t + 1) * 8
def costH : WPc → Nat → Nat
  | .impSus, r => r * 8 + 5
  | .impCommit, r => r * 8 + 4
  | .impRes .fin, _ => 1
  | .impRes .errGiveUp, _ => 1
  | .impRes .more, r => r * 8 + 10
  | .impRes .errRetry, r => r * 8 + 10
  | .push, r => r * 8 + 9
  | .remChk, r => r * 8 + 6
  | .remSus, r => r * 8 + 5
  | .remCommit, r => r * 8 + 4
  | .remRes .finish, _ => 1
  | .remRes .more, r => r * 8 + 11
  | .remRes .err, r => r * 8 + 10
  | .top, _ => 0
  | .done, _ => 0
def costTo (C : Nat → Nat) (k : Nat) : List Nat → Nat
  | [] => 0
  | t :: ts => if t = k then C k else C t + costTo C k ts
def repush : WPc → Bool
  | .impRes .more | .impRes .errRetry | .remRes .err | .push => true
  | _ => false
def phase (B : Nat → Nat) (k : Nat) (x : XSt) : Nat :=
  2 * remB B x.g.used k + (if x.g.hand = some k ∧ repush x.s.wp = true then 1 else 0)
def work (B : Nat → Nat) (k : Nat) (x : XSt) : Nat :=
  match x.g.hand with
  | some t => if t = k then costH x.s.wp (remB B x.g.used k) else costH x.s.wp (remB B x.g.used t) + costTo (costQ B x.g.used) k x.g.q
  | none => costTo (costQ B x.g.used) k x.g.q
def rank (B : Nat → Nat) (k : Nat) (x : XSt) : Nat × Nat := (phase B k x, work B k x)
def isWorker : Label → Bool
  | .sus | .res | .wQuit | .wTakeImp | .wTakeRem | .wTakeSkip | .wSusQuit | .wCommitI _ | .wCommitR _
  | .wResQuit | .wChkQuit | .wChkGo | .wPush | .wPushDrop => true
  | _ => false

theorem costTo_append {C : Nat → Nat} {k : Nat} {q : List Nat} (h : k ∈ q) (r : List Nat) :
    costTo C k (q ++ r) = costTo C k q := by
  induction q with
  | nil => simp at h
  | cons t ts ih =>
    simp only [List.cons_append, costTo]
    split
    · rfl
    · rename_i hne
      have : k ∈ ts := by
        rcases List.mem_cons.1 h with h | h
        · exact absurd h.symm hne
        · exact h
      rw [ih this]

theorem costTo_mono {C C' : Nat → Nat} (h : ∀ t, C' t ≤ C t) (k : Nat) (q : List Nat) :
    costTo C' k q ≤ costTo C k q := by
  induction q with
  | nil => simp [costTo]
  | cons t ts ih =>
    simp only [costTo]
    split
    · exact h k
    · have := h t
      omega

def Step (B : Nat → Nat) (k : Nat) (l : Label) (x x' : XSt) : Prop :=
  k ∈ x'.g.fin ∨ (Pend k x'.g ∧ (lexLt (rank B k x') (rank B k x) ∨
    (rank B k x' = rank B k x ∧ x'.s.wp = x.s.wp ∧ isWorker l = false)))

set_option hygiene false in
macro "rank_tac" : tactic => `(tactic| (
  obtain ⟨hf, hg⟩ := xstep_some hs
  have hnd := no_drop_of_inv hc h.inv
  obtain ⟨i0, i1, i2, i3, i4, i5, i6, i7⟩ := h
  clear hs i0 i3 i4 i5 i6 i7
  obtain ⟨⟨quit', dbOpen', hp', wp', sp', ap', nb', ntx', nt'⟩, g'⟩ := x'
  obtain ⟨⟨quit, dbOpen, hp, wp, sp, ap, nb, ntx, nt⟩, ⟨q, hand, next, fin, ab, lost, used, annB, procB, annT, procT⟩⟩ := x
  dsimp only at hf hg i1 i2 hnd hq hq' hb hp
  subst hg hq hq'
  unfold Step
  rcases wp with _ | _ | _ | ⟨_|_|_|_⟩ | _ | _ | _ | ⟨_|_|_⟩ | _ | _ <;>
  simp [fire, susNext, susAbort, resNext, Shape.fixed] at hf hnd <;>
    (obtain ⟨hgd, hf1, hf2, hf3, hf4, hf5, hf6, hf7, hf8, hf9⟩ := hf) <;> subst_vars <;>
    (rcases q with _ | ⟨t, ts⟩) <;> (rcases hand with _ | hd) <;>
    simp_all [gstep, inflight, Pend, resNext, rank, phase, work, lexLt, remB, costQ, costH, costTo, repush, isWorker, bump] <;> (try grind)))


theorem costQ_bump_le (B u : Nat → Nat) (h : Option Nat) (t : Nat) : costQ B (bump u h) t ≤ costQ B u t := by
  cases h with
  | none => simp [bump]
  | some k =>
    simp only [costQ, remB, bump]
    split <;> omega

set_option hygiene false in
macro "rank_tac2" : tactic => `(tactic| (
  obtain ⟨hf, hg⟩ := xstep_some hs
  have hnd := no_drop_of_inv hc h.inv
  obtain ⟨i0, i1, i2, i3, i4, i5, i6, i7⟩ := h
  clear hs i0 i3 i4 i5 i6 i7
  obtain ⟨⟨quit', dbOpen', hp', wp', sp', ap', nb', ntx', nt'⟩, g'⟩ := x'
  obtain ⟨⟨quit, dbOpen, hp, wp, sp, ap, nb, ntx, nt⟩, ⟨q, hand, next, fin, ab, lost, used, annB, procB, annT, procT⟩⟩ := x
  dsimp only at hf hg i1 i2 hnd hq hq' hb hp
  subst hg hq hq'
  unfold Step
  have happ := fun (hm : k ∈ q) (r : List Nat) => @costTo_append (costQ B used) k q hm r
  have hmono := costTo_mono (costQ_bump_le B used hand) k q
  rcases wp with _ | _ | _ | ⟨_|_|_|_⟩ | _ | _ | _ | ⟨_|_|_⟩ | _ | _ <;>
  simp [fire, susNext, susAbort, resNext, Shape.fixed] at hf hnd <;>
    (obtain ⟨hgd, hf1, hf2, hf3, hf4, hf5, hf6, hf7, hf8, hf9⟩ := hf) <;> subst_vars <;>
    (rcases hand with _ | hd) <;>
    simp_all [gstep, inflight, Pend, resNext, rank, phase, work, lexLt, remB, costH, repush, isWorker, bump] <;>
    (try grind)))

theorem rank_hQuit {c : Cfg} (hc : c.busy < c.cap) {B : Nat → Nat} {k : Nat} {x x' : XSt} (h : XInv c x)
    (hs : xstep c .hQuit x = some x') (hq : x.s.quit = false) (hq' : x'.s.quit = false)
    (hb : ∀ t, x'.g.used t ≤ B t) (hp : Pend k x.g) : Step B k .hQuit x x' := by
  rank_tac
theorem rank_hTakeBlk {c : Cfg} (hc : c.busy < c.cap) {B : Nat → Nat} {k : Nat} {x x' : XSt} (h : XInv c x)
    (hs : xstep c .hTakeBlk x = some x') (hq : x.s.quit = false) (hq' : x'.s.quit = false)
    (hb : ∀ t, x'.g.used t ≤ B t) (hp : Pend k x.g) : Step B k .hTakeBlk x x' := by
  rank_tac
theorem rank_hTakeTx {c : Cfg} (hc : c.busy < c.cap) {B : Nat → Nat} {k : Nat} {x x' : XSt} (h : XInv c x)
    (hs : xstep c .hTakeTx x = some x') (hq : x.s.quit = false) (hq' : x'.s.quit = false)
    (hb : ∀ t, x'.g.used t ≤ B t) (hp : Pend k x.g) : Step B k .hTakeTx x x' := by
  rank_tac
theorem rank_hDoneBlk {c : Cfg} (hc : c.busy < c.cap) {B : Nat → Nat} {k : Nat} {x x' : XSt} (h : XInv c x)
    (hs : xstep c .hDoneBlk x = some x') (hq : x.s.quit = false) (hq' : x'.s.quit = false)
    (hb : ∀ t, x'.g.used t ≤ B t) (hp : Pend k x.g) : Step B k .hDoneBlk x x' := by
  rank_tac
theorem rank_hDoneTx {c : Cfg} (hc : c.busy < c.cap) {B : Nat → Nat} {k : Nat} {x x' : XSt} (h : XInv c x)
    (hs : xstep c .hDoneTx x = some x') (hq : x.s.quit = false) (hq' : x'.s.quit = false)
    (hb : ∀ t, x'.g.used t ≤ B t) (hp : Pend k x.g) : Step B k .hDoneTx x x' := by
  rank_tac
theorem rank_hWaitQuit {c : Cfg} (hc : c.busy < c.cap) {B : Nat → Nat} {k : Nat} {x x' : XSt} (h : XInv c x)
    (hs : xstep c .hWaitQuit x = some x') (hq : x.s.quit = false) (hq' : x'.s.quit = false)
    (hb : ∀ t, x'.g.used t ≤ B t) (hp : Pend k x.g) : Step B k .hWaitQuit x x' := by
  rank_tac
theorem rank_sus {c : Cfg} (hc : c.busy < c.cap) {B : Nat → Nat} {k : Nat} {x x' : XSt} (h : XInv c x)
    (hs : xstep c .sus x = some x') (hq : x.s.quit = false) (hq' : x'.s.quit = false)
    (hb : ∀ t, x'.g.used t ≤ B t) (hp : Pend k x.g) : Step B k .sus x x' := by
  rank_tac
theorem rank_res {c : Cfg} (hc : c.busy < c.cap) {B : Nat → Nat} {k : Nat} {x x' : XSt} (h : XInv c x)
    (hs : xstep c .res x = some x') (hq : x.s.quit = false) (hq' : x'.s.quit = false)
    (hb : ∀ t, x'.g.used t ≤ B t) (hp : Pend k x.g) : Step B k .res x x' := by
  rank_tac
theorem rank_wQuit {c : Cfg} (hc : c.busy < c.cap) {B : Nat → Nat} {k : Nat} {x x' : XSt} (h : XInv c x)
    (hs : xstep c .wQuit x = some x') (hq : x.s.quit = false) (hq' : x'.s.quit = false)
    (hb : ∀ t, x'.g.used t ≤ B t) (hp : Pend k x.g) : Step B k .wQuit x x' := by
  rank_tac
theorem rank_wTakeImp {c : Cfg} (hc : c.busy < c.cap) {B : Nat → Nat} {k : Nat} {x x' : XSt} (h : XInv c x)
    (hs : xstep c .wTakeImp x = some x') (hq : x.s.quit = false) (hq' : x'.s.quit = false)
    (hb : ∀ t, x'.g.used t ≤ B t) (hp : Pend k x.g) : Step B k .wTakeImp x x' := by
  rank_tac
theorem rank_wTakeRem {c : Cfg} (hc : c.busy < c.cap) {B : Nat → Nat} {k : Nat} {x x' : XSt} (h : XInv c x)
    (hs : xstep c .wTakeRem x = some x') (hq : x.s.quit = false) (hq' : x'.s.quit = false)
    (hb : ∀ t, x'.g.used t ≤ B t) (hp : Pend k x.g) : Step B k .wTakeRem x x' := by
  rank_tac
theorem rank_wTakeSkip {c : Cfg} (hc : c.busy < c.cap) {B : Nat → Nat} {k : Nat} {x x' : XSt} (h : XInv c x)
    (hs : xstep c .wTakeSkip x = some x') (hq : x.s.quit = false) (hq' : x'.s.quit = false)
    (hb : ∀ t, x'.g.used t ≤ B t) (hp : Pend k x.g) : Step B k .wTakeSkip x x' := by
  rank_tac
theorem rank_wSusQuit {c : Cfg} (hc : c.busy < c.cap) {B : Nat → Nat} {k : Nat} {x x' : XSt} (h : XInv c x)
    (hs : xstep c .wSusQuit x = some x') (hq : x.s.quit = false) (hq' : x'.s.quit = false)
    (hb : ∀ t, x'.g.used t ≤ B t) (hp : Pend k x.g) : Step B k .wSusQuit x x' := by
  rank_tac
theorem rank_wCommitI {c : Cfg} {o} (hc : c.busy < c.cap) {B : Nat → Nat} {k : Nat} {x x' : XSt} (h : XInv c x)
    (hs : xstep c (.wCommitI o) x = some x') (hq : x.s.quit = false) (hq' : x'.s.quit = false)
    (hb : ∀ t, x'.g.used t ≤ B t) (hp : Pend k x.g) : Step B k (.wCommitI o) x x' := by
  cases o <;> rank_tac2
theorem rank_wCommitR {c : Cfg} {o} (hc : c.busy < c.cap) {B : Nat → Nat} {k : Nat} {x x' : XSt} (h : XInv c x)
    (hs : xstep c (.wCommitR o) x = some x') (hq : x.s.quit = false) (hq' : x'.s.quit = false)
    (hb : ∀ t, x'.g.used t ≤ B t) (hp : Pend k x.g) : Step B k (.wCommitR o) x x' := by
  cases o <;> rank_tac2
theorem rank_wResQuit {c : Cfg} (hc : c.busy < c.cap) {B : Nat → Nat} {k : Nat} {x x' : XSt} (h : XInv c x)
    (hs : xstep c .wResQuit x = some x') (hq : x.s.quit = false) (hq' : x'.s.quit = false)
    (hb : ∀ t, x'.g.used t ≤ B t) (hp : Pend k x.g) : Step B k .wResQuit x x' := by
  rank_tac
theorem rank_wChkQuit {c : Cfg} (hc : c.busy < c.cap) {B : Nat → Nat} {k : Nat} {x x' : XSt} (h : XInv c x)
    (hs : xstep c .wChkQuit x = some x') (hq : x.s.quit = false) (hq' : x'.s.quit = false)
    (hb : ∀ t, x'.g.used t ≤ B t) (hp : Pend k x.g) : Step B k .wChkQuit x x' := by
  rank_tac
theorem rank_wChkGo {c : Cfg} (hc : c.busy < c.cap) {B : Nat → Nat} {k : Nat} {x x' : XSt} (h : XInv c x)
    (hs : xstep c .wChkGo x = some x') (hq : x.s.quit = false) (hq' : x'.s.quit = false)
    (hb : ∀ t, x'.g.used t ≤ B t) (hp : Pend k x.g) : Step B k .wChkGo x x' := by
  rank_tac
theorem rank_wPush {c : Cfg} (hc : c.busy < c.cap) {B : Nat → Nat} {k : Nat} {x x' : XSt} (h : XInv c x)
    (hs : xstep c .wPush x = some x') (hq : x.s.quit = false) (hq' : x'.s.quit = false)
    (hb : ∀ t, x'.g.used t ≤ B t) (hp : Pend k x.g) : Step B k .wPush x x' := by
  rank_tac2
theorem rank_wPushDrop {c : Cfg} (hc : c.busy < c.cap) {B : Nat → Nat} {k : Nat} {x x' : XSt} (h : XInv c x)
    (hs : xstep c .wPushDrop x = some x') (hq : x.s.quit = false) (hq' : x'.s.quit = false)
    (hb : ∀ t, x'.g.used t ≤ B t) (hp : Pend k x.g) : Step B k .wPushDrop x x' := by
  rank_tac
theorem rank_sWait {c : Cfg} (hc : c.busy < c.cap) {B : Nat → Nat} {k : Nat} {x x' : XSt} (h : XInv c x)
    (hs : xstep c .sWait x = some x') (hq : x.s.quit = false) (hq' : x'.s.quit = false)
    (hb : ∀ t, x'.g.used t ≤ B t) (hp : Pend k x.g) : Step B k .sWait x x' := by
  rank_tac
theorem rank_sClose {c : Cfg} (hc : c.busy < c.cap) {B : Nat → Nat} {k : Nat} {x x' : XSt} (h : XInv c x)
    (hs : xstep c .sClose x = some x') (hq : x.s.quit = false) (hq' : x'.s.quit = false)
    (hb : ∀ t, x'.g.used t ≤ B t) (hp : Pend k x.g) : Step B k .sClose x x' := by
  rank_tac
theorem rank_eStop {c : Cfg} (hc : c.busy < c.cap) {B : Nat → Nat} {k : Nat} {x x' : XSt} (h : XInv c x)
    (hs : xstep c .eStop x = some x') (hq : x.s.quit = false) (hq' : x'.s.quit = false)
    (hb : ∀ t, x'.g.used t ≤ B t) (hp : Pend k x.g) : Step B k .eStop x x' := by
  rank_tac
theorem rank_eBlk {c : Cfg} (hc : c.busy < c.cap) {B : Nat → Nat} {k : Nat} {x x' : XSt} (h : XInv c x)
    (hs : xstep c .eBlk x = some x') (hq : x.s.quit = false) (hq' : x'.s.quit = false)
    (hb : ∀ t, x'.g.used t ≤ B t) (hp : Pend k x.g) : Step B k .eBlk x x' := by
  rank_tac
theorem rank_eTx {c : Cfg} (hc : c.busy < c.cap) {B : Nat → Nat} {k : Nat} {x x' : XSt} (h : XInv c x)
    (hs : xstep c .eTx x = some x') (hq : x.s.quit = false) (hq' : x'.s.quit = false)
    (hb : ∀ t, x'.g.used t ≤ B t) (hp : Pend k x.g) : Step B k .eTx x x' := by
  rank_tac
theorem rank_aCheck {c : Cfg} (hc : c.busy < c.cap) {B : Nat → Nat} {k : Nat} {x x' : XSt} (h : XInv c x)
    (hs : xstep c .aCheck x = some x') (hq : x.s.quit = false) (hq' : x'.s.quit = false)
    (hb : ∀ t, x'.g.used t ≤ B t) (hp : Pend k x.g) : Step B k .aCheck x x' := by
  rank_tac
theorem rank_aPush {c : Cfg} (hc : c.busy < c.cap) {B : Nat → Nat} {k : Nat} {x x' : XSt} (h : XInv c x)
    (hs : xstep c .aPush x = some x') (hq : x.s.quit = false) (hq' : x'.s.quit = false)
    (hb : ∀ t, x'.g.used t ≤ B t) (hp : Pend k x.g) : Step B k .aPush x x' := by
  rank_tac2
theorem rank_aPushDrop {c : Cfg} (hc : c.busy < c.cap) {B : Nat → Nat} {k : Nat} {x x' : XSt} (h : XInv c x)
    (hs : xstep c .aPushDrop x = some x') (hq : x.s.quit = false) (hq' : x'.s.quit = false)
    (hb : ∀ t, x'.g.used t ≤ B t) (hp : Pend k x.g) : Step B k .aPushDrop x x' := by
  rank_tac

/-- the effect of one step on the rank of a pending task `k` (no stop request before or after the step, the
    budgets respected): `k` finishes, or it is still pending and its rank has decreased, or nothing about it
    has changed and the step was not a worker step -/
theorem rank_step {c : Cfg} (hc : c.busy < c.cap) {B : Nat → Nat} {k : Nat} {l : Label} {x x' : XSt} (h : XInv c x)
    (hs : xstep c l x = some x') (hq : x.s.quit = false) (hq' : x'.s.quit = false)
    (hb : ∀ t, x'.g.used t ≤ B t) (hp : Pend k x.g) : Step B k l x x' := by
  cases l
  · exact rank_hQuit hc h hs hq hq' hb hp
  · exact rank_hTakeBlk hc h hs hq hq' hb hp
  · exact rank_hTakeTx hc h hs hq hq' hb hp
  · exact rank_hDoneBlk hc h hs hq hq' hb hp
  · exact rank_hDoneTx hc h hs hq hq' hb hp
  · exact rank_hWaitQuit hc h hs hq hq' hb hp
  · exact rank_sus hc h hs hq hq' hb hp
  · exact rank_res hc h hs hq hq' hb hp
  · exact rank_wQuit hc h hs hq hq' hb hp
  · exact rank_wTakeImp hc h hs hq hq' hb hp
  · exact rank_wTakeRem hc h hs hq hq' hb hp
  · exact rank_wTakeSkip hc h hs hq hq' hb hp
  · exact rank_wSusQuit hc h hs hq hq' hb hp
  · exact rank_wCommitI hc h hs hq hq' hb hp
  · exact rank_wCommitR hc h hs hq hq' hb hp
  · exact rank_wResQuit hc h hs hq hq' hb hp
  · exact rank_wChkQuit hc h hs hq hq' hb hp
  · exact rank_wChkGo hc h hs hq hq' hb hp
  · exact rank_wPush hc h hs hq hq' hb hp
  · exact rank_wPushDrop hc h hs hq hq' hb hp
  · exact rank_sWait hc h hs hq hq' hb hp
  · exact rank_sClose hc h hs hq hq' hb hp
  · exact rank_eStop hc h hs hq hq' hb hp
  · exact rank_eBlk hc h hs hq hq' hb hp
  · exact rank_eTx hc h hs hq hq' hb hp
  · exact rank_aCheck hc h hs hq hq' hb hp
  · exact rank_aPush hc h hs hq hq' hb hp
  · exact rank_aPushDrop hc h hs hq hq' hb hp

end MW.Lemmas.ProtoRank
