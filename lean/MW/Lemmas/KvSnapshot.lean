/-
  Snapshot isolation of read transactions: the snapshot taken by BeginReadTx stays what the
  reader reads from until its Rollback, whatever the writer commits meanwhile.
-/
import MW.Lemmas.KvRefine
namespace MW.Model.KV
open MW MW.KV

/-- the state after a history -/
def Sys.after (s : Sys) (ops : List Op) : Sys := ops.foldl (fun s op => (s.step op).1) s

theorem Sys.after_cons (s : Sys) (op : Op) (ops : List Op) : s.after (op :: ops) = (s.step op).1.after ops := rfl

/-- no operation but the reader's own end touches the snapshot -/
theorem Sys.step_reader_keep {s : Sys} {snap : Store} (hs : s.reader = some snap) {op : Op} (hop : op ≠ .endR) :
    (s.step op).1.reader = some snap := by
  cases hso : slotOf op with
  | some sl =>
    rw [Sys.step_data hso]
    cases sl with
    | w => simp only; split <;> exact hs
    | r => simp only; split <;> exact hs
  | none =>
    cases op with
    | create sl p | delb sl p | has sl p | clear sl p | names sl p
    | put sl p k v | get sl p k | del sl p k | pfx sl p k | iter sl p a b sc => simp [slotOf] at hso
    | endR => exact absurd rfl hop
    | beginR => simp [Sys.step, hs]
    | beginW => simp only [Sys.step]; split <;> exact hs
    | commit => simp only [Sys.step]; split <;> exact hs
    | rollback => simp only [Sys.step]; split <;> exact hs
    | reopen => simp only [Sys.step]; split <;> exact hs
    | probe => exact hs
    | raw => exact hs

theorem Sys.after_reader_keep {snap : Store} : ∀ (ops : List Op) (s : Sys), s.reader = some snap → Op.endR ∉ ops →
    (s.after ops).reader = some snap := by
  intro ops
  induction ops with
  | nil => intro s hs _; exact hs
  | cons op rest ih =>
    intro s hs hno
    rw [Sys.after_cons]
    apply ih _ (Sys.step_reader_keep hs (fun e => hno (by rw [e]; exact List.mem_cons_self)))
    exact fun hm => hno (List.mem_cons_of_mem _ hm)

/-- an operation issued through the read transaction is answered from the snapshot alone -/
theorem Sys.step_reader_obs {s : Sys} {snap : Store} (hs : s.reader = some snap) {op : Op}
    (hop : slotOf op = some Slot.r) :
    (s.step op).2 = (dataOp { readOnly := true, db := snap } op).1 := by
  rw [Sys.step_data hop]
  simp only [hs]

theorem Sys.beginR_snapshot {s : Sys} (hs : s.reader = none) : (s.step .beginR).1.reader = some s.db := by
  simp [Sys.step, hs]

end MW.Model.KV
