/-
  C08, non-vacuity of `remove ⊨ project`: a concrete two-wallet store BUILT BY THE MODEL (the D11 situation: T3 spends
  W1's coin and pays only W2 and a stranger; a coinbase pays only W2) meets every hypothesis of `remove_projects`, the
  removal of W2 finishes in one step, and the conclusion is C01's invariant for the keystore view of W1 alone.
-/
import MW.Lemmas.RemoveMain
import MW.Lemmas.LedgerHistoryEx
import MW.Lemmas.LedgerInit
namespace MW.Lemmas.RemoveEx
open MW MW.Model.Ledger MW.Model.Remove MW.Spec.Chain MW.Spec.Books MW.Lemmas.Ledger MW.Lemmas.RemoveProj
  MW.Lemmas.RemoveInv MW.Lemmas.RemoveMain

def c1 : Tx := ⟨"C1", true, [], [⟨"A1", 500, .std⟩]⟩
def t3 : Tx := ⟨"T3", false, [⟨"C1", 0, 0⟩], [⟨"A2", 300, .std⟩, ⟨"X1", 199, .std⟩]⟩
def t4 : Tx := ⟨"T4", true, [], [⟨"A2", 7, .std⟩]⟩
def g : Block := ⟨"G", "", 0, []⟩
def b1 : Block := ⟨"B1", "G", 1, [c1]⟩
def b2 : Block := ⟨"B2", "B1", 2, [t4, t3]⟩
def chain : List Block := [g, b1, b2]
def own : Own := [("A1", ("W1", false)), ("A2", ("W2", false))]
def own' : Own := own.filter (fun e => e.2.1 != "W2")
def known : AMap.T BlkId Block := [("G", g), ("B1", b1), ("B2", b2)]
def ctx : Ctx := ⟨{ cbMaturity := 1 }, own, ["W1", "W2"], { chain := chain, known := known }⟩

/-- fresh wallets W1, W2 synced to genesis -/
def s0 : Store :=
  { balance := [("W1", 0), ("W2", 0)], sync := [(0, "G")], syncedTo := 0,
    status := [("W1", ⟨none, false⟩), ("W2", ⟨none, false⟩)] }

/-- the store the follower builds for the chain -/
def st : Store :=
  match connectAll ctx (readyWallets s0 ctx.wallets) [b1, b2] s0 [] with
  | .ok (s, _) => s
  | .error _ => s0

theorem ready0 : readyWallets s0 ["W1", "W2"] = ["W1", "W2"] := by decide

theorem allReady : AllReady own ["W1", "W2"] := by
  intro a w ch h
  simp only [own, AMap.get_cons, AMap.get_nil] at h
  split at h
  · simp only [Option.some.injEq, Prod.mk.injEq] at h; rw [← h.1]; rfl
  · split at h
    · simp only [Option.some.injEq, Prod.mk.injEq] at h; rw [← h.1]; rfl
    · cases h

theorem fresh : FreshStore ctx s0 g where
  credits := rfl
  unspent := rfl
  debits := rfl
  game := rfl
  txrecs := rfl
  blocks := rfl
  sync := rfl
  syncedTo := rfl
  balance := by
    intro w hw
    change (readyWallets s0 ["W1", "W2"]).contains w = true at hw
    rw [ready0] at hw
    have : w = "W1" ∨ w = "W2" := by simpa using hw
    rcases this with rfl | rfl <;> rfl
  genesis := rfl

theorem valid : ChainValid own chain := by decide
theorem good : GoodChain chain := hxGood3 rfl rfl rfl rfl rfl

theorem inv : Inv ctx st chain := by
  obtain ⟨s', added, h, hI, _, _⟩ := connectAll_sound (c := ctx) [b1, b2] s0 [g] [] []
    (inv_fresh fresh) rfl valid good.heights
    (by show AllReady own (readyWallets s0 ["W1", "W2"]); rw [ready0]; exact allReady)
    (by show (readyWallets s0 ["W1", "W2"]).isEmpty = false; rw [ready0]; rfl)
  have hs : st = s' := by unfold st; rw [h]
  rw [hs]; exact hI

theorem managed : ∀ a, (["A2"] : List Addr).contains a = isW own "W2" a := by
  intro a
  unfold isW
  simp only [own, AMap.get_cons, AMap.get_nil]
  by_cases h1 : "A1" = a
  · subst h1; decide
  · by_cases h2 : "A2" = a
    · subst h2; decide
    · have : ¬ a = "A2" := fun h => h2 h.symm
      simp [h1, h2, this]

theorem remHyp : RemHyp ctx "W2" ["A2"] own' chain where
  minus := ownMinus_filter (by unfold KeysNodup; decide) "W2"
  managed := managed
  ne := by decide
  valid := valid
  heights := good.heights
  known := by
    intro x hx
    simp only [chain, List.mem_cons, List.not_mem_nil, or_false] at hx
    rcases hx with rfl | rfl | rfl <;> rfl

theorem st_nodup : KeysNodup st.credits := by unfold KeysNodup; decide

theorem st_pend : ∀ e ∈ st.pendCred, e.1.1 ∉ idsOf (occs chain) := by
  have : st.pendCred = [] := by decide
  intro e he; rw [this] at he; cases he

/-- the removal of W2 finishes in one transaction (evaluation) … -/
theorem st_finishes : (removeStep 20000 ctx "W2" ["A2"] st).map (·.finish) = some true := by decide

/-- … what it leaves: W1's credit (spent by T3) with its debit, the records of C1 and T3; T4's record is gone -/
theorem st_after : (removeStep 20000 ctx "W2" ["A2"] st).map
      (fun o => (o.s.credits.map (·.1.tx), o.s.debits.length, o.s.txrecs.map (·.1.1), o.s.blocks.map (·.2.2))) =
    some (["C1"], 1, ["T3", "C1"], [["T3"], ["C1"]]) := by decide

/-- every hypothesis of `remove_projects` holds here, hence its conclusion: the store after the removal holds exactly
    the books of the chain for W1's keystore alone -/
theorem ex_projects (o : StepOut) (h : removeStep 20000 ctx "W2" ["A2"] st = some o) :
    Inv { ctx with own := own', wallets := ["W1"] } o.s chain := by
  have hf : o.finish = true := by
    have := st_finishes
    rw [h] at this
    simpa using this
  exact remove_projects 20000 remHyp inv st_nodup st_pend ["W1"] (by intro x hx; simp at hx; subst hx; decide) h hf

end MW.Lemmas.RemoveEx
