/-
  Helper lemmas for MW.Base.Dec (used by C15): bytes that are decimal digits, `ofDigits`,
  `zeros`, `trimLeft0`, `trimRight0`.  Everything here is for ALL byte strings.
-/
import MW.Base.Dec
import Mathlib.Tactic.Ring
namespace MW.Dec

/-! ### bytes -/

theorem isDigit_iff (b : UInt8) : isDigit b = true ↔ 48 ≤ b.toNat ∧ b.toNat ≤ 57 := by
  simp [isDigit]

theorem c0_toNat : c0.toNat = 48 := rfl
theorem dot_toNat : dot.toNat = 46 := rfl

theorem isDigit_c0 : isDigit c0 = true := by decide
theorem not_isDigit_dot : isDigit dot = false := by decide

theorem ne_dot_of_isDigit {b : UInt8} (h : isDigit b = true) : b ≠ dot := by
  intro e; subst e; revert h; decide

theorem eq_c0_iff (b : UInt8) : b = c0 ↔ b.toNat = 48 := by
  rw [← UInt8.toNat_inj]; rfl

theorem dval_c0 : dval c0 = 0 := rfl

theorem dval_lt_ten {b : UInt8} (h : isDigit b = true) : dval b < 10 := by
  rw [isDigit_iff] at h; unfold dval; omega

theorem dval_eq_zero_iff {b : UInt8} (h : isDigit b = true) : dval b = 0 ↔ b = c0 := by
  rw [isDigit_iff] at h; rw [eq_c0_iff]; unfold dval; omega

theorem dchr_toNat {n : Nat} (h : n < 10) : (dchr n).toNat = 48 + n := by
  simp [dchr]; omega

theorem isDigit_dchr {n : Nat} (h : n < 10) : isDigit (dchr n) = true := by
  rw [isDigit_iff, dchr_toNat h]; omega

theorem dval_dchr {n : Nat} (h : n < 10) : dval (dchr n) = n := by
  unfold dval; rw [dchr_toNat h]; omega

theorem dchr_dval {b : UInt8} (h : isDigit b = true) : dchr (dval b) = b := by
  rw [isDigit_iff] at h
  apply UInt8.toNat_inj.mp
  rw [dchr_toNat (by unfold dval; omega)]
  unfold dval; omega

theorem dchr_zero : dchr 0 = c0 := rfl

theorem dchr_eq_c0_iff {n : Nat} (h : n < 10) : dchr n = c0 ↔ n = 0 := by
  rw [eq_c0_iff, dchr_toNat h]; omega

/-! ### ofDigits -/

-- (the equation lemmas are stated by hand: `ofDigitsAux.eq_2` cannot be generated across modules
-- because of the `Bytes` abbreviation in the binder type – a timeout in `whnf`; `unfold` works.)
theorem ofDigitsAux_nil (acc : Nat) : ofDigitsAux acc [] = acc := by
  conv => lhs; unfold ofDigitsAux
theorem ofDigitsAux_cons (acc : Nat) (b : UInt8) (bs : Bytes) :
    ofDigitsAux acc (b :: bs) = ofDigitsAux (acc * 10 + dval b) bs := by
  conv => lhs; unfold ofDigitsAux

theorem ofDigitsAux_eq (acc : Nat) (bs : Bytes) :
    ofDigitsAux acc bs = acc * 10 ^ bs.length + ofDigitsAux 0 bs := by
  induction bs generalizing acc with
  | nil => rw [ofDigitsAux_nil, ofDigitsAux_nil]; simp
  | cons b bs ih =>
    rw [ofDigitsAux_cons, ofDigitsAux_cons, List.length_cons]
    rw [ih (acc * 10 + dval b), ih (0 * 10 + dval b), Nat.pow_succ]
    generalize 10 ^ bs.length = P
    ring

theorem ofDigits_nil : ofDigits [] = 0 := ofDigitsAux_nil 0

theorem ofDigits_cons (b : UInt8) (bs : Bytes) :
    ofDigits (b :: bs) = dval b * 10 ^ bs.length + ofDigits bs := by
  unfold ofDigits
  rw [ofDigitsAux_cons, ofDigitsAux_eq]
  generalize 10 ^ bs.length = P
  ring

theorem ofDigits_append (x y : Bytes) :
    ofDigits (x ++ y) = ofDigits x * 10 ^ y.length + ofDigits y := by
  induction x with
  | nil => simp [ofDigits_nil]
  | cons b x ih =>
    rw [List.cons_append, ofDigits_cons, ofDigits_cons, ih, List.length_append, Nat.pow_add]
    generalize 10 ^ x.length = P
    generalize 10 ^ y.length = Q
    ring

theorem ofDigits_singleton (b : UInt8) : ofDigits [b] = dval b := by
  simp [ofDigits_cons, ofDigits_nil]

theorem ofDigits_concat (x : Bytes) (b : UInt8) : ofDigits (x ++ [b]) = ofDigits x * 10 + dval b := by
  rw [ofDigits_append, ofDigits_singleton]; simp

theorem ofDigits_lt {x : Bytes} (h : x.all isDigit = true) : ofDigits x < 10 ^ x.length := by
  induction x with
  | nil => simp [ofDigits_nil]
  | cons b x ih =>
    simp only [List.all_cons, Bool.and_eq_true] at h
    have h1 := dval_lt_ten h.1
    have h2 := ih h.2
    rw [ofDigits_cons, List.length_cons, Nat.pow_succ]
    have : dval b * 10 ^ x.length ≤ 9 * 10 ^ x.length := Nat.mul_le_mul_right _ (by omega)
    omega

/-! ### zeros -/

theorem zeros_length (k : Nat) : (zeros k).length = k := by simp [zeros]

theorem zeros_succ (k : Nat) : zeros (k + 1) = c0 :: zeros k := by simp [zeros, List.replicate_succ]

theorem zeros_succ' (k : Nat) : zeros (k + 1) = zeros k ++ [c0] := by
  simp [zeros, List.replicate_succ']  

theorem zeros_all_isDigit (k : Nat) : (zeros k).all isDigit = true := by
  simp [zeros, List.all_replicate, isDigit_c0]

theorem ofDigits_zeros (k : Nat) : ofDigits (zeros k) = 0 := by
  induction k with
  | zero => rfl
  | succ k ih => rw [zeros_succ, ofDigits_cons, ih, dval_c0]; simp

theorem ofDigits_append_zeros (x : Bytes) (k : Nat) : ofDigits (x ++ zeros k) = ofDigits x * 10 ^ k := by
  rw [ofDigits_append, ofDigits_zeros, zeros_length]; simp

theorem ofDigits_zeros_append (x : Bytes) (k : Nat) : ofDigits (zeros k ++ x) = ofDigits x := by
  rw [ofDigits_append, ofDigits_zeros]; simp

theorem zeros_add (a b : Nat) : zeros (a + b) = zeros a ++ zeros b := by
  simp [zeros, List.replicate_append_replicate]

/-! ### trimLeft0 -/

theorem trimLeft0_cons (b : UInt8) (bs : Bytes) :
    trimLeft0 (b :: bs) = if b = c0 then trimLeft0 bs else b :: bs := rfl

/-- `strings.TrimLeft(x, "0")` removes a block of zeros: `x = 0…0 ++ trimLeft0 x` -/
theorem trimLeft0_decomp (x : Bytes) : x = zeros (x.length - (trimLeft0 x).length) ++ trimLeft0 x := by
  induction x with
  | nil => simp [trimLeft0, zeros]
  | cons b x ih =>
    rw [trimLeft0_cons]
    split
    · next h =>
      have hle : (trimLeft0 x).length ≤ x.length := by
        have := congrArg List.length ih
        simp [zeros_length] at this; omega
      have : (b :: x).length - (trimLeft0 x).length = (x.length - (trimLeft0 x).length) + 1 := by
        simp; omega
      rw [this, zeros_succ, h, List.cons_append, ← ih]
    · simp [zeros]

theorem trimLeft0_length_le (x : Bytes) : (trimLeft0 x).length ≤ x.length := by
  have := congrArg List.length (trimLeft0_decomp x)
  simp [zeros_length] at this; omega

theorem trimLeft0_head (x : Bytes) : ∀ b rest, trimLeft0 x = b :: rest → b ≠ c0 := by
  induction x with
  | nil => intro b rest h; simp [trimLeft0] at h
  | cons a x ih =>
    intro b rest h
    rw [trimLeft0_cons] at h
    split at h
    · exact ih b rest h
    · next hne => injection h with h1 h2; subst h1; exact hne

theorem trimLeft0_all {p : UInt8 → Bool} {x : Bytes} (h : x.all p = true) : (trimLeft0 x).all p = true := by
  have hd := trimLeft0_decomp x
  rw [hd, List.all_append, Bool.and_eq_true] at h
  exact h.2

theorem ofDigits_trimLeft0 (x : Bytes) : ofDigits (trimLeft0 x) = ofDigits x := by
  conv => rhs; rw [trimLeft0_decomp x]
  rw [ofDigits_zeros_append]

theorem trimLeft0_zeros_append (k : Nat) (x : Bytes) : trimLeft0 (zeros k ++ x) = trimLeft0 x := by
  induction k with
  | zero => simp [zeros]
  | succ k ih => rw [zeros_succ, List.cons_append, trimLeft0_cons]; simp [ih]

theorem trimLeft0_of_head_ne {b : UInt8} (h : b ≠ c0) (x : Bytes) : trimLeft0 (b :: x) = b :: x := by
  rw [trimLeft0_cons]; simp [h]

theorem trimLeft0_idem (x : Bytes) : trimLeft0 (trimLeft0 x) = trimLeft0 x := by
  cases h : trimLeft0 x with
  | nil => rfl
  | cons b rest => exact trimLeft0_of_head_ne (trimLeft0_head x b rest h) rest

/-! ### trimRight0 -/

theorem zeros_reverse (k : Nat) : (zeros k).reverse = zeros k := by simp [zeros]

/-- `strings.TrimRight(x, "0")` removes a block of zeros: `x = trimRight0 x ++ 0…0` -/
theorem trimRight0_decomp (x : Bytes) : x = trimRight0 x ++ zeros (x.length - (trimRight0 x).length) := by
  have h := trimLeft0_decomp x.reverse
  have h2 := congrArg List.reverse h
  simp only [List.reverse_reverse, List.reverse_append, zeros_reverse, List.length_reverse] at h2
  unfold trimRight0
  simpa using h2

theorem trimRight0_length_le (x : Bytes) : (trimRight0 x).length ≤ x.length := by
  simp [trimRight0]; simpa using trimLeft0_length_le x.reverse

theorem trimRight0_all {p : UInt8 → Bool} {x : Bytes} (h : x.all p = true) : (trimRight0 x).all p = true := by
  have hd := trimRight0_decomp x
  rw [hd, List.all_append, Bool.and_eq_true] at h
  exact h.1

theorem trimRight0_append_zeros (x : Bytes) (k : Nat) : trimRight0 (x ++ zeros k) = trimRight0 x := by
  unfold trimRight0
  rw [List.reverse_append, zeros_reverse, trimLeft0_zeros_append]

theorem trimRight0_idem (x : Bytes) : trimRight0 (trimRight0 x) = trimRight0 x := by
  unfold trimRight0
  rw [List.reverse_reverse, trimLeft0_idem]

theorem trimRight0_nil : trimRight0 [] = [] := rfl

theorem trimRight0_zeros (k : Nat) : trimRight0 (zeros k) = [] := by
  have := trimRight0_append_zeros [] k
  rw [List.nil_append] at this
  rw [this]; rfl

/-- the last byte of a right-trimmed string is not `'0'` -/
theorem trimRight0_getLast (x : Bytes) : ∀ init b, trimRight0 x = init ++ [b] → b ≠ c0 := by
  intro init b h
  unfold trimRight0 at h
  have h2 := congrArg List.reverse h
  simp only [List.reverse_reverse, List.reverse_append, List.reverse_cons, List.reverse_nil,
    List.nil_append, List.cons_append] at h2
  exact trimLeft0_head _ _ _ h2

theorem ofDigits_trimRight0 (x : Bytes) :
    ofDigits (trimRight0 x) * 10 ^ (x.length - (trimRight0 x).length) = ofDigits x := by
  conv => rhs; rw [trimRight0_decomp x]
  rw [ofDigits_append_zeros]

/-- a string whose right trim is empty consists of zeros only -/
theorem eq_zeros_of_trimRight0_nil {x : Bytes} (h : trimRight0 x = []) : x = zeros x.length := by
  have := trimRight0_decomp x
  rw [h] at this; simpa using this

theorem trimRight0_of_last_ne (x : Bytes) {b : UInt8} (h : b ≠ c0) : trimRight0 (x ++ [b]) = x ++ [b] := by
  unfold trimRight0
  rw [List.reverse_append]; simp only [List.reverse_cons, List.reverse_nil, List.nil_append, List.cons_append]
  rw [trimLeft0_of_head_ne h]; simp

end MW.Dec
