/-
  C08, `remove ⊨ project`, part 3 — what ONE RemoveRelevantTx does, bucket by bucket, read through `AMap.get`
  (the reading `Inv` uses), for ARBITRARY stores:  `rrt_char`.
    DEL  the credits deleted (entries of the credits bucket paying one of the script hashes; ALL of them when the
         step reports `finish`)
    HOF  `heightOfTx`: the (transaction, height) pairs examined — those of the deleted credits and of their spenders
    ERA  the tx-record keys erased: examined, found `removable`; every examined removable record is erased
  credits / debits / tx records / block records of the result are those of the start minus DEL / the spender keys of
  DEL / ERA / the block-record entries of ERA.
-/
import MW.Lemmas.RemoveFrame
namespace MW.Lemmas.RemoveChar
open MW MW.Model.Ledger MW.Model.Remove MW.Lemmas.RemoveScan MW.Lemmas.RemoveStep MW.Lemmas.RemoveFrame

-- ------------------------------------------------------------------ association-map facts

section amap
variable {K V : Type} [DecidableEq K]

theorem get_mem {m : AMap.T K V} {k : K} {v : V} (h : AMap.get m k = some v) : (k, v) ∈ m := by
  unfold AMap.get at h
  cases hf : m.find? (fun a => a.1 = k) with
  | none => rw [hf] at h; cases h
  | some a =>
    rw [hf] at h
    have h1 := List.mem_of_find?_eq_some hf
    have h2 := List.find?_some hf
    simp only [decide_eq_true_eq] at h2
    simp only [Option.map_some, Option.some.injEq] at h
    have : a = (k, v) := by cases a; simp_all
    rw [← this]; exact h1

theorem mem_get_isSome {m : AMap.T K V} {e : K × V} (h : e ∈ m) : (AMap.get m e.1).isSome = true := by
  cases hg : AMap.get m e.1 with
  | some _ => rfl
  | none =>
    exfalso
    unfold AMap.get at hg
    rw [Option.map_eq_none_iff, List.find?_eq_none] at hg
    have := hg e h
    simp at this

theorem mem_put {m : AMap.T K V} {k : K} {v : V} {x : K × V} (h : x ∈ AMap.put m k v) : x = (k, v) ∨ x ∈ m := by
  unfold AMap.put at h
  rcases List.mem_cons.1 h with h | h
  · exact Or.inl h
  · exact Or.inr (erase_subset _ _ _ h)

theorem isSome_put_mono (m : AMap.T K V) (k k' : K) (v : V) (h : (AMap.get m k').isSome = true) :
    (AMap.get (AMap.put m k v) k').isSome = true := by
  rw [AMap.get_put]; split <;> simp_all

theorem isSome_put_self (m : AMap.T K V) (k : K) (v : V) : (AMap.get (AMap.put m k v) k).isSome = true := by
  rw [AMap.get_put]; simp
end amap

-- ------------------------------------------------------------------ the credit scan

/-- the debit key a deleted credit takes with it -/
def spKey (c : Credit) : Option CredKey := if c.spent then c.spentBy else none

theorem spender_ok {c : Credit} {d : Option CredKey} (h : spender c = .ok d) : d = spKey c := by
  unfold spender at h
  unfold spKey
  by_cases hs : c.spent = true
  · simp only [hs, if_true] at h ⊢
    cases hb : c.spentBy with
    | none => rw [hb] at h; cases h
    | some dk => rw [hb] at h; injection h with h; exact h.symm
  · simp only [hs, Bool.false_eq_true, if_false] at h ⊢
    injection h with h; exact h.symm

def live (sc : Scan) : Prop := sc.stopped = false ∧ sc.failed = false

theorem scanCredit_sharp (limit : Nat) (addrs : List Addr) (sc : Scan) (e : CredKey × Credit) :
    (¬ live sc ∧ scanCredit limit addrs sc e = sc) ∨
    (live sc ∧ addrs.contains e.2.sh = false ∧ scanCredit limit addrs sc e = sc) ∨
    (live sc ∧ addrs.contains e.2.sh = true ∧ ¬ live (scanCredit limit addrs sc e) ∧
      (scanCredit limit addrs sc e).s = sc.s ∧ (scanCredit limit addrs sc e).heightOf = sc.heightOf) ∨
    (live sc ∧ addrs.contains e.2.sh = true ∧
        scanCredit limit addrs sc e =
          { sc with s := dropDebit (deleteCredit sc.s e.1) (spKey e.2), count := sc.count + 1,
                    heightOf := AMap.put (noteSpender sc.heightOf (spKey e.2)) e.1.tx e.1.blk.height,
                    spenders := sc.spenders ++ (AMap.get sc.s.pendIns (e.1.tx, e.1.idx)).getD [] }) := by
  unfold scanCredit live
  by_cases h1 : (sc.stopped || sc.failed) = true
  · rw [if_pos h1]
    left
    refine ⟨?_, rfl⟩
    rintro ⟨ha, hb⟩
    rw [ha, hb] at h1; cases h1
  · rw [if_neg h1]
    have hl : sc.stopped = false ∧ sc.failed = false := by
      simp only [Bool.or_eq_true, not_or, Bool.not_eq_true] at h1; exact h1
    by_cases h2 : (!addrs.contains e.2.sh) = true
    · rw [if_pos h2]
      right; left
      exact ⟨hl, by simpa using h2, rfl⟩
    · rw [if_neg h2]
      have hm : addrs.contains e.2.sh = true := by simpa using h2
      by_cases h3 : (decide (sc.count ≥ limit) || twoHeights sc.heightOf e.1) = true
      · rw [if_pos h3]
        right; right; left
        exact ⟨hl, hm, by simp, rfl, rfl⟩
      · rw [if_neg h3]
        cases hs : spender e.2 with
        | error u =>
          right; right; left
          exact ⟨hl, hm, by simp, rfl, rfl⟩
        | ok d =>
          right; right; right
          have := spender_ok hs
          subst this
          exact ⟨hl, hm, rfl⟩

/-- what the scan has done after going over the entries `l` of the credits bucket of `s` -/
structure ScanInv (addrs : List Addr) (s : Store) (l : List (CredKey × Credit)) (sc : Scan)
    (DEL : List (CredKey × Credit)) : Prop where
  credits : ∀ k, AMap.get sc.s.credits k = if k ∈ DEL.map (·.1) then none else AMap.get s.credits k
  debits : ∀ dk, AMap.get sc.s.debits dk =
    if dk ∈ DEL.filterMap (fun e => spKey e.2) then none else AMap.get s.debits dk
  sub : ∀ e ∈ DEL, e ∈ l ∧ addrs.contains e.2.sh = true
  all : live sc → ∀ e ∈ l, addrs.contains e.2.sh = true → e ∈ DEL
  hofTx : ∀ e ∈ DEL, (AMap.get sc.heightOf e.1.tx).isSome = true
  hofSp : ∀ e ∈ DEL, ∀ dk, spKey e.2 = some dk → (AMap.get sc.heightOf dk.tx).isSome = true
  hofBack : ∀ x ∈ sc.heightOf, ∃ e ∈ DEL, x = (e.1.tx, e.1.blk.height) ∨
    ∃ dk, spKey e.2 = some dk ∧ x = (dk.tx, dk.blk.height)

theorem get_dropDebit_credits (s : Store) (d : Option CredKey) (k : CredKey) :
    AMap.get (dropDebit s d).credits k = AMap.get s.credits k := by rw [dropDebit_credits]

theorem get_dropDebit_debits (s : Store) (d : Option CredKey) (dk : CredKey) :
    AMap.get (dropDebit s d).debits dk = if d = some dk then none else AMap.get s.debits dk := by
  cases d with
  | none => simp [dropDebit]
  | some x =>
    simp only [dropDebit, AMap.get_erase, Option.some.injEq]

theorem noteSpender_mono (h : AMap.T TxId Nat) (d : Option CredKey) (id : TxId)
    (hi : (AMap.get h id).isSome = true) : (AMap.get (noteSpender h d) id).isSome = true := by
  unfold noteSpender
  cases d with
  | none => exact hi
  | some dk =>
    dsimp only
    split
    · exact hi
    · exact isSome_put_mono _ _ _ _ hi

theorem noteSpender_has (h : AMap.T TxId Nat) (dk : CredKey) : (AMap.get (noteSpender h (some dk)) dk.tx).isSome = true := by
  unfold noteSpender
  dsimp only
  split
  · assumption
  · exact isSome_put_self _ _ _

theorem noteSpender_mem (h : AMap.T TxId Nat) (d : Option CredKey) (x : TxId × Nat) (hx : x ∈ noteSpender h d) :
    x ∈ h ∨ ∃ dk, d = some dk ∧ x = (dk.tx, dk.blk.height) := by
  unfold noteSpender at hx
  cases d with
  | none => exact Or.inl hx
  | some dk =>
    dsimp only at hx
    split at hx
    · exact Or.inl hx
    · rcases mem_put hx with h1 | h1
      · exact Or.inr ⟨dk, rfl, h1⟩
      · exact Or.inl h1

theorem scanInv_step (limit : Nat) (addrs : List Addr) (s : Store) (l : List (CredKey × Credit)) (sc : Scan)
    (DEL : List (CredKey × Credit)) (e : CredKey × Credit) (hI : ScanInv addrs s l sc DEL) :
    ∃ DEL', ScanInv addrs s (l ++ [e]) (scanCredit limit addrs sc e) DEL' := by
  rcases scanCredit_sharp limit addrs sc e with ⟨hnl, h⟩ | ⟨hl, hm, h⟩ | ⟨hl, hm, hnl, hs, hh⟩ | ⟨hl, hm, h⟩
  · refine ⟨DEL, ?_⟩
    rw [h]
    exact ⟨hI.credits, hI.debits, fun x hx => ⟨List.mem_append_left _ (hI.sub x hx).1, (hI.sub x hx).2⟩,
      fun hl' => absurd hl' hnl, hI.hofTx, hI.hofSp, hI.hofBack⟩
  · refine ⟨DEL, ?_⟩
    rw [h]
    refine ⟨hI.credits, hI.debits, fun x hx => ⟨List.mem_append_left _ (hI.sub x hx).1, (hI.sub x hx).2⟩,
      ?_, hI.hofTx, hI.hofSp, hI.hofBack⟩
    intro hl' x hx hxm
    rcases List.mem_append.1 hx with hx | hx
    · exact hI.all hl' x hx hxm
    · rw [List.mem_singleton.1 hx, hm] at hxm; cases hxm
  · refine ⟨DEL, ?_⟩
    refine ⟨by rw [hs]; exact hI.credits, by rw [hs]; exact hI.debits,
      fun x hx => ⟨List.mem_append_left _ (hI.sub x hx).1, (hI.sub x hx).2⟩,
      fun hl' => absurd hl' hnl, by rw [hh]; exact hI.hofTx, by rw [hh]; exact hI.hofSp, by rw [hh]; exact hI.hofBack⟩
  · refine ⟨DEL ++ [e], ?_⟩
    rw [h]
    refine ⟨?_, ?_, ?_, ?_, ?_, ?_, ?_⟩
    · intro k
      show AMap.get (dropDebit (deleteCredit sc.s e.1) (spKey e.2)).credits k = _
      rw [get_dropDebit_credits]
      show AMap.get (AMap.erase sc.s.credits e.1) k = _
      rw [AMap.get_erase, hI.credits k]
      have hmem : k ∈ (DEL ++ [e]).map (·.1) ↔ k ∈ DEL.map (·.1) ∨ k = e.1 := by
        simp only [List.map_append, List.map_cons, List.map_nil, List.mem_append, List.mem_singleton]
      by_cases hk : e.1 = k
      · rw [if_pos hk, if_pos (hmem.2 (Or.inr hk.symm))]
      · have : ¬ k = e.1 := fun h' => hk h'.symm
        rw [if_neg hk]
        by_cases hd : k ∈ DEL.map (·.1)
        · rw [if_pos hd, if_pos (hmem.2 (Or.inl hd))]
        · rw [if_neg hd, if_neg (fun h' => (hmem.1 h').elim hd this)]
    · intro dk
      show AMap.get (dropDebit (deleteCredit sc.s e.1) (spKey e.2)).debits dk = _
      rw [get_dropDebit_debits]
      show (if spKey e.2 = some dk then none else AMap.get sc.s.debits dk) = _
      rw [hI.debits dk]
      have hmem : dk ∈ (DEL ++ [e]).filterMap (fun e => spKey e.2) ↔
          dk ∈ DEL.filterMap (fun e => spKey e.2) ∨ spKey e.2 = some dk := by
        rw [List.filterMap_append, List.mem_append]
        constructor
        · rintro (h' | h')
          · exact Or.inl h'
          · right
            obtain ⟨x, hx, hx'⟩ := List.mem_filterMap.1 h'
            rw [List.mem_singleton.1 hx] at hx'; exact hx'
        · rintro (h' | h')
          · exact Or.inl h'
          · exact Or.inr (List.mem_filterMap.2 ⟨e, by simp, h'⟩)
      by_cases hk : spKey e.2 = some dk
      · rw [if_pos hk, if_pos (hmem.2 (Or.inr hk))]
      · rw [if_neg hk]
        by_cases hd : dk ∈ DEL.filterMap (fun e => spKey e.2)
        · rw [if_pos hd, if_pos (hmem.2 (Or.inl hd))]
        · rw [if_neg hd, if_neg (fun h' => (hmem.1 h').elim hd hk)]
    · intro x hx
      rcases List.mem_append.1 hx with hx | hx
      · exact ⟨List.mem_append_left _ (hI.sub x hx).1, (hI.sub x hx).2⟩
      · rw [List.mem_singleton.1 hx]; exact ⟨by simp, hm⟩
    · intro _ x hx hxm
      rcases List.mem_append.1 hx with hx | hx
      · exact List.mem_append_left _ (hI.all hl x hx hxm)
      · exact List.mem_append_right _ hx
    · intro x hx
      show (AMap.get (AMap.put (noteSpender sc.heightOf (spKey e.2)) e.1.tx e.1.blk.height) x.1.tx).isSome = true
      rcases List.mem_append.1 hx with hx | hx
      · exact isSome_put_mono _ _ _ _ (noteSpender_mono _ _ _ (hI.hofTx x hx))
      · rw [List.mem_singleton.1 hx]; exact isSome_put_self _ _ _
    · intro x hx dk hdk
      show (AMap.get (AMap.put (noteSpender sc.heightOf (spKey e.2)) e.1.tx e.1.blk.height) dk.tx).isSome = true
      apply isSome_put_mono
      rcases List.mem_append.1 hx with hx | hx
      · exact noteSpender_mono _ _ _ (hI.hofSp x hx dk hdk)
      · rw [List.mem_singleton.1 hx] at hdk
        rw [hdk]; exact noteSpender_has _ _
    · intro x hx
      have hx' : x ∈ AMap.put (noteSpender sc.heightOf (spKey e.2)) e.1.tx e.1.blk.height := hx
      rcases mem_put hx' with h1 | h1
      · exact ⟨e, by simp, Or.inl h1⟩
      · rcases noteSpender_mem _ _ _ h1 with h2 | ⟨dk, hdk, h2⟩
        · obtain ⟨e', he', h3⟩ := hI.hofBack x h2
          exact ⟨e', List.mem_append_left _ he', h3⟩
        · exact ⟨e, by simp, Or.inr ⟨dk, hdk, h2⟩⟩

theorem scanInv_fold (limit : Nat) (addrs : List Addr) (s : Store) (l₂ : List (CredKey × Credit)) :
    ∀ (l₁ : List (CredKey × Credit)) (sc : Scan) (DEL : List (CredKey × Credit)), ScanInv addrs s l₁ sc DEL →
      ∃ DEL', ScanInv addrs s (l₁ ++ l₂) (l₂.foldl (scanCredit limit addrs) sc) DEL' := by
  induction l₂ with
  | nil => intro l₁ sc DEL h; exact ⟨DEL, by simpa using h⟩
  | cons e l₂ ih =>
    intro l₁ sc DEL h
    obtain ⟨DEL1, h1⟩ := scanInv_step limit addrs s l₁ sc DEL e h
    obtain ⟨DEL2, h2⟩ := ih (l₁ ++ [e]) _ DEL1 h1
    exact ⟨DEL2, by simpa using h2⟩

/-- the credit scan of removeRelevantCredit, read through `AMap.get` -/
theorem scan_char (limit : Nat) (s : Store) (addrs : List Addr) :
    ∃ DEL, ScanInv addrs s s.credits (removeRelevantCredit limit s addrs) DEL := by
  have h0 : ScanInv addrs s [] { s := s } [] :=
    ⟨fun _ => by simp, fun _ => by simp, fun _ h => (nomatch h), fun _ _ h => (nomatch h),
      fun _ h => (nomatch h), fun _ h => (nomatch h), fun _ h => (nomatch h)⟩
  obtain ⟨DEL, h⟩ := scanInv_fold limit addrs s s.credits [] _ [] h0
  exact ⟨DEL, by simpa [removeRelevantCredit] using h⟩

/-- a scan that reports `finish` (and did not fail) is live at the end -/
theorem live_of_finish (limit : Nat) (s : Store) (addrs : List Addr)
    (hfin : (removeRelevantCredit limit s addrs).finish = true)
    (hok : (removeRelevantCredit limit s addrs).failed = false) : live (removeRelevantCredit limit s addrs) := by
  refine ⟨?_, hok⟩
  unfold removeRelevantCredit at *
  have := scan_sticky limit addrs s.credits { s := s } (by intro h; simp at h)
  cases hh : (s.credits.foldl (scanCredit limit addrs) { s := s }).stopped with
  | false => rfl
  | true => rw [this hh] at hfin; cases hfin

-- ------------------------------------------------------------------ the tx records

/-- among the visible tx records, (id, height) determines the key -/
def TxrecU (m : AMap.T (TxId × BlockMeta) (BlkId × Nat)) : Prop :=
  ∀ k k', (AMap.get m k).isSome = true → (AMap.get m k').isSome = true → k.1 = k'.1 → k.2.height = k'.2.height → k = k'

/-- fetchRawTxRecordByHashHeight returns a visible record -/
theorem txRecordAt_get {s : Store} {id : TxId} {h : Nat} {rec : (TxId × BlockMeta) × (BlkId × Nat)}
    (hr : txRecordAt s id h = some rec) :
    AMap.get s.txrecs rec.1 = some rec.2 ∧ rec.1.1 = id ∧ rec.1.2.height = h := by
  unfold txRecordAt at hr
  have hp := List.find?_some hr
  simp only [Bool.and_eq_true, decide_eq_true_eq] at hp
  refine ⟨?_, hp.1, hp.2⟩
  generalize s.txrecs = m at hr
  induction m with
  | nil => cases hr
  | cons a m ih =>
    rw [List.find?_cons] at hr
    rw [AMap.get_cons]
    by_cases ha : (decide (a.1.1 = id) && decide (a.1.2.height = h)) = true
    · rw [ha] at hr
      injection hr with hr
      subst hr; simp
    · have ha' : (decide (a.1.1 = id) && decide (a.1.2.height = h)) = false := by simpa using ha
      rw [ha'] at hr
      have hne : ¬ a.1 = rec.1 := by
        intro he
        apply ha
        rw [he]; simp [hp.1, hp.2]
      simp only [hne, if_false]
      exact ih hr

/-- … and finds one whenever a visible record matches -/
theorem txRecordAt_of_get {s : Store} {k : TxId × BlockMeta} {loc : BlkId × Nat}
    (hg : AMap.get s.txrecs k = some loc) : ∃ rec, txRecordAt s k.1 k.2.height = some rec := by
  have hm := get_mem hg
  unfold txRecordAt
  cases hf : s.txrecs.find? (fun e => decide (e.1.1 = k.1) && decide (e.1.2.height = k.2.height)) with
  | some rec => exact ⟨rec, rfl⟩
  | none =>
    have := List.find?_eq_none.1 hf (k, loc) hm
    simp at this

/-- state of the removeMinedTxs fold: `ERA` = keys erased so far -/
structure MinedChar (c : Ctx) (s : Store) (addrs : List Addr) (done : List (TxId × Nat))
    (acc : Store × List (Nat × TxId)) (ERA : List (TxId × BlockMeta)) : Prop where
  credits : acc.1.credits = s.credits
  debits : acc.1.debits = s.debits
  pendCred : acc.1.pendCred = s.pendCred
  blocks : acc.1.blocks = s.blocks
  txrecs : ∀ k, AMap.get acc.1.txrecs k = if k ∈ ERA then none else AMap.get s.txrecs k
  del : acc.2 = ERA.map (fun k => (k.2.height, k.1))
  sound : ∀ k ∈ ERA, (k.1, k.2.height) ∈ done ∧ inUse s k = false ∧ ∃ loc tx, AMap.get s.txrecs k = some loc ∧
    c.node.txByFileLoc loc = some tx ∧ removable c.own s addrs tx = true
  complete : TxrecU s.txrecs → ∀ x ∈ done, ∀ k loc tx, k.1 = x.1 → k.2.height = x.2 →
    AMap.get s.txrecs k = some loc → c.node.txByFileLoc loc = some tx → removable c.own s addrs tx = true →
    inUse s k = false → k ∈ ERA

theorem minedChar_step (c : Ctx) (s : Store) (addrs : List Addr) (done : List (TxId × Nat))
    (acc acc' : Store × List (Nat × TxId)) (ERA : List (TxId × BlockMeta)) (x : TxId × Nat)
    (hI : MinedChar c s addrs done acc ERA) (h : minedStep c addrs acc x = some acc') :
    ∃ ERA', MinedChar c s addrs (done ++ [x]) acc' ERA' := by
  have hrem : ∀ tx, removable c.own acc.1 addrs tx = removable c.own s addrs tx :=
    fun tx => removable_congr c.own s acc.1 addrs tx hI.credits hI.pendCred
  have hiu : ∀ k, inUse acc.1 k = inUse s k := fun k => by unfold inUse; rw [hI.credits, hI.debits]
  unfold minedStep at h
  cases hrec : txRecordAt acc.1 x.1 x.2 with
  | none =>
    rw [hrec] at h
    simp only [Option.some.injEq] at h
    subst h
    refine ⟨ERA, hI.credits, hI.debits, hI.pendCred, hI.blocks, hI.txrecs, hI.del,
      fun k hk => ⟨List.mem_append_left _ (hI.sound k hk).1, (hI.sound k hk).2⟩, ?_⟩
    intro hU y hy k loc tx hk1 hk2 hg hloc hr hnu
    rcases List.mem_append.1 hy with hy | hy
    · exact hI.complete hU y hy k loc tx hk1 hk2 hg hloc hr hnu
    · rw [List.mem_singleton.1 hy] at hk1 hk2
      by_cases hke : k ∈ ERA
      · exact hke
      · exfalso
        have hga : AMap.get acc.1.txrecs k = some loc := by rw [hI.txrecs k, if_neg hke]; exact hg
        obtain ⟨rec, hrec'⟩ := txRecordAt_of_get hga
        rw [hk1, hk2, hrec] at hrec'; cases hrec'
  | some rec =>
    rw [hrec] at h
    simp only at h
    obtain ⟨hget, hid, hh⟩ := txRecordAt_get hrec
    have hnot : rec.1 ∉ ERA := by
      intro hk
      rw [hI.txrecs rec.1, if_pos hk] at hget; cases hget
    have hgs : AMap.get s.txrecs rec.1 = some rec.2 := by
      rw [hI.txrecs rec.1, if_neg hnot] at hget; exact hget
    cases hloc : c.node.txByFileLoc rec.2 with
    | none => rw [hloc] at h; cases h
    | some tx =>
      rw [hloc] at h
      simp only at h
      -- completeness for the new pair, shared by both branches
      have hcomp : ∀ (ERA' : List (TxId × BlockMeta)), (∀ k ∈ ERA, k ∈ ERA') →
          (removable c.own s addrs tx = true → inUse s rec.1 = false → rec.1 ∈ ERA') →
          TxrecU s.txrecs → ∀ y ∈ done ++ [x], ∀ k loc tx', k.1 = y.1 → k.2.height = y.2 →
            AMap.get s.txrecs k = some loc → c.node.txByFileLoc loc = some tx' →
            removable c.own s addrs tx' = true → inUse s k = false → k ∈ ERA' := by
        intro ERA' hsub hnew hU y hy k loc tx' hk1 hk2 hg hloc' hr hnu
        rcases List.mem_append.1 hy with hy | hy
        · exact hsub k (hI.complete hU y hy k loc tx' hk1 hk2 hg hloc' hr hnu)
        · rw [List.mem_singleton.1 hy] at hk1 hk2
          have hke : k = rec.1 := hU k rec.1 (by rw [hg]; rfl) (by rw [hgs]; rfl) (hk1.trans hid.symm) (hk2.trans hh.symm)
          subst hke
          rw [hgs] at hg
          injection hg with hg
          subst hg
          rw [hloc] at hloc'
          injection hloc' with hloc'
          subst hloc'
          exact hnew hr hnu
      by_cases hr : (removable c.own acc.1 addrs tx && !inUse acc.1 rec.1) = true
      · rw [if_pos hr] at h
        simp only [Option.some.injEq] at h
        subst h
        simp only [Bool.and_eq_true, Bool.not_eq_true'] at hr
        obtain ⟨hr, hnu⟩ := hr
        refine ⟨ERA ++ [rec.1], hI.credits, hI.debits, hI.pendCred, hI.blocks, ?_, ?_, ?_, ?_⟩
        · intro k
          show AMap.get (AMap.erase acc.1.txrecs rec.1) k = _
          rw [AMap.get_erase, hI.txrecs k]
          simp only [List.mem_append, List.mem_singleton]
          by_cases hk : rec.1 = k
          · simp [hk]
          · have : ¬ k = rec.1 := fun h' => hk h'.symm
            simp [hk, this]
        · show acc.2 ++ [(rec.1.2.height, x.1)] = _
          rw [hI.del, List.map_append, ← hid]; rfl
        · intro k hk
          rcases List.mem_append.1 hk with hk | hk
          · exact ⟨List.mem_append_left _ (hI.sound k hk).1, (hI.sound k hk).2⟩
          · rw [List.mem_singleton.1 hk]
            refine ⟨List.mem_append_right _ ?_, by rw [← hiu]; exact hnu, rec.2, tx, hgs, hloc, by rw [← hrem]; exact hr⟩
            rw [hid, hh]; simp
        · exact hcomp _ (fun k hk => List.mem_append_left _ hk) (fun _ _ => by simp)
      · rw [if_neg hr] at h
        simp only [Option.some.injEq] at h
        subst h
        refine ⟨ERA, hI.credits, hI.debits, hI.pendCred, hI.blocks, hI.txrecs, hI.del,
          fun k hk => ⟨List.mem_append_left _ (hI.sound k hk).1, (hI.sound k hk).2⟩, ?_⟩
        exact hcomp _ (fun k hk => hk) (fun h' hnu => by
          rw [← hrem] at h'; rw [← hiu] at hnu; exact absurd (by rw [h', hnu]; rfl) hr)

theorem minedChar_fold (c : Ctx) (s : Store) (addrs : List Addr) (l : List (TxId × Nat)) :
    ∀ (done : List (TxId × Nat)) (acc r : Store × List (Nat × TxId)) (ERA : List (TxId × BlockMeta)),
      MinedChar c s addrs done acc ERA → l.foldlM (minedStep c addrs) acc = some r →
      ∃ ERA', MinedChar c s addrs (done ++ l) r ERA' := by
  induction l with
  | nil =>
    intro done acc r ERA hI h
    simp [List.foldlM] at h
    subst h
    exact ⟨ERA, by simpa using hI⟩
  | cons x l ih =>
    intro done acc r ERA hI h
    simp only [List.foldlM_cons, bind, Option.bind] at h
    cases hstep : minedStep c addrs acc x with
    | none => simp [hstep] at h
    | some acc' =>
      simp only [hstep] at h
      obtain ⟨ERA1, h1⟩ := minedChar_step c s addrs done acc acc' ERA x hI hstep
      obtain ⟨ERA2, h2⟩ := ih (done ++ [x]) acc' r ERA1 h1 h
      exact ⟨ERA2, by simpa using h2⟩

/-- removeMinedTxs, read through `AMap.get` -/
theorem mined_char (c : Ctx) (s : Store) (addrs : List Addr) (hOf : AMap.T TxId Nat)
    (r : Store × List (Nat × TxId)) (h : removeMinedTxs c s addrs hOf = some r) :
    ∃ ERA, MinedChar c s addrs hOf r ERA := by
  have h0 : MinedChar c s addrs [] (s, []) [] :=
    ⟨rfl, rfl, rfl, rfl, fun _ => by simp, rfl, fun _ h => (nomatch h), fun _ _ h => (nomatch h)⟩
  obtain ⟨ERA, h1⟩ := minedChar_fold c s addrs hOf [] (s, []) r [] h0 h
  exact ⟨ERA, by simpa using h1⟩

-- ------------------------------------------------------------------ the block records

/-- what checkBlockRecordAfterTxRemoved leaves of one block record -/
def trimRec (deleted : List (Nat × TxId)) (h : Nat) : Option (BlkId × List TxId) → Option (BlkId × List TxId)
  | none => none
  | some (bh, txs) =>
    let keep := txs.filter (fun t => !deleted.contains (h, t))
    if keep.isEmpty then none else some (bh, keep)

theorem trimRec_idem (deleted : List (Nat × TxId)) (h : Nat) (r : Option (BlkId × List TxId)) :
    trimRec deleted h (trimRec deleted h r) = trimRec deleted h r := by
  cases r with
  | none => rfl
  | some v =>
    obtain ⟨bh, txs⟩ := v
    have h1 : ∀ l : List TxId, trimRec deleted h (some (bh, l)) =
        if (l.filter (fun t => !deleted.contains (h, t))).isEmpty then none
        else some (bh, l.filter (fun t => !deleted.contains (h, t))) := fun _ => rfl
    rw [h1]
    by_cases he : (txs.filter (fun t => !deleted.contains (h, t))).isEmpty = true
    · rw [if_pos he]; rfl
    · rw [if_neg he, h1, List.filter_filter]
      simp only [Bool.and_self]
      rw [if_neg he]

theorem get_blockStep (deleted : List (Nat × TxId)) (s : Store) (a h : Nat) :
    AMap.get (blockStep deleted s a).blocks h =
      if a = h then trimRec deleted h (AMap.get s.blocks h) else AMap.get s.blocks h := by
  unfold blockStep
  by_cases hah : a = h
  · subst hah
    simp only [if_true]
    cases hg : AMap.get s.blocks a with
    | none => simp [trimRec, hg]
    | some v =>
      obtain ⟨bh, txs⟩ := v
      simp only [trimRec]
      by_cases he : (txs.filter (fun t => !deleted.contains (a, t))).isEmpty = true
      · simp only [he, if_true]; rw [AMap.get_erase]; simp
      · simp only [he, Bool.false_eq_true, if_false]; rw [AMap.get_put]; simp
  · simp only [hah, if_false]
    cases hg : AMap.get s.blocks a with
    | none => rfl
    | some v =>
      obtain ⟨bh, txs⟩ := v
      dsimp only
      split
      · rw [AMap.get_erase]; simp [hah]
      · rw [AMap.get_put]; simp [hah]

/-- checkBlockRecords, read through `AMap.get` -/
theorem blocks_char (s : Store) (deleted : List (Nat × TxId)) (h : Nat) :
    AMap.get (checkBlockRecords s deleted).blocks h =
      if h ∈ deleted.map (·.1) then trimRec deleted h (AMap.get s.blocks h) else AMap.get s.blocks h := by
  unfold checkBlockRecords
  have key : ∀ (l : List Nat) (s : Store), AMap.get (l.foldl (blockStep deleted) s).blocks h =
      if h ∈ l then trimRec deleted h (AMap.get s.blocks h) else AMap.get s.blocks h := by
    intro l
    induction l with
    | nil => intro s; simp
    | cons a l ih =>
      intro s
      rw [List.foldl_cons, ih, get_blockStep]
      by_cases hah : a = h
      · subst hah
        simp only [if_true, List.mem_cons, true_or]
        split
        · exact trimRec_idem _ _ _
        · rfl
      · have : ¬ h = a := fun h' => hah h'.symm
        simp only [hah, if_false, List.mem_cons, this, false_or]
  rw [key]
  simp only [List.mem_eraseDups]

-- ------------------------------------------------------------------ RemoveRelevantTx

/-- what one RemoveRelevantTx does to the mined buckets -/
structure RrtChar (c : Ctx) (s : Store) (addrs : List Addr) (o : StepOut) (DEL : List (CredKey × Credit))
    (HOF : List (TxId × Nat)) (ERA : List (TxId × BlockMeta)) : Prop where
  credits : ∀ k, AMap.get o.s.credits k = if k ∈ DEL.map (·.1) then none else AMap.get s.credits k
  debits : ∀ dk, AMap.get o.s.debits dk =
    if dk ∈ DEL.filterMap (fun e => spKey e.2) then none else AMap.get s.debits dk
  sub : ∀ e ∈ DEL, e ∈ s.credits ∧ addrs.contains e.2.sh = true
  all : o.finish = true → ∀ e ∈ s.credits, addrs.contains e.2.sh = true → e ∈ DEL
  hofTx : ∀ e ∈ DEL, ∃ h, (e.1.tx, h) ∈ HOF
  hofSp : ∀ e ∈ DEL, ∀ dk, spKey e.2 = some dk → ∃ h, (dk.tx, h) ∈ HOF
  hofBack : ∀ x ∈ HOF, ∃ e ∈ DEL, x = (e.1.tx, e.1.blk.height) ∨ ∃ dk, spKey e.2 = some dk ∧ x = (dk.tx, dk.blk.height)
  txrecs : ∀ k, AMap.get o.s.txrecs k = if k ∈ ERA then none else AMap.get s.txrecs k
  sound : ∀ k ∈ ERA, (k.1, k.2.height) ∈ HOF ∧ inUse o.s k = false ∧ ∃ loc tx, AMap.get s.txrecs k = some loc ∧
    c.node.txByFileLoc loc = some tx ∧ removable c.own o.s addrs tx = true
  /-- D45 repair: an examined removable record goes only when no credit / debit under its key is left -/
  complete : TxrecU s.txrecs → ∀ x ∈ HOF, ∀ k loc tx, k.1 = x.1 → k.2.height = x.2 →
    AMap.get s.txrecs k = some loc → c.node.txByFileLoc loc = some tx → removable c.own o.s addrs tx = true →
    inUse o.s k = false → k ∈ ERA
  blocks : ∀ h, AMap.get o.s.blocks h =
    if h ∈ ERA.map (·.2.height) then trimRec (ERA.map (fun k => (k.2.height, k.1))) h (AMap.get s.blocks h)
    else AMap.get s.blocks h
  core : core o.s = core s
  pendCred : o.s.pendCred = s.pendCred.filter (fun e => !addrs.contains e.2.sh)

theorem rrt_char (limit : Nat) (c : Ctx) (s : Store) (addrs : List Addr) (o : StepOut)
    (hne : addrs ≠ []) (h : removeRelevantTx limit c s addrs = some o) :
    ∃ DEL HOF ERA, RrtChar c s addrs o DEL HOF ERA := by
  have hspec := removeRelevantTx_spec limit c s addrs o hne h
  obtain ⟨uh, del1, del3, s2, del2, hnf, hmt, ho⟩ := (removeRelevantTx_pipeline limit c s addrs o hne h).ex
  -- the names of the pipeline
  generalize hs1 : (removeUnminedTxs c.own (removeRelevantUnminedCredit s addrs).1 addrs uh).1 = s1 at hnf hmt ho
  generalize hsc : removeRelevantCredit limit s1 addrs = sc at hnf hmt ho
  generalize hs1' : (removeUnminedTxs c.own sc.s addrs sc.spenders).1 = s1' at hmt ho
  have hs1cd : cd s1 = cd s := by
    rw [← hs1, unminedTxs_proj cd (fun _ _ => rfl) (fun _ _ => rfl), unminedCredit_cd]
  have hs1c : s1.credits = s.credits := congrArg Prod.fst hs1cd
  have hs1d : s1.debits = s.debits := congrArg Prod.snd hs1cd
  have hs1recs : recs s1 = recs s := by
    rw [← hs1, unminedTxs_proj recs (fun _ _ => rfl) (fun _ _ => rfl), unminedCredit_recs]
  have hs1'cd : cd s1' = cd sc.s := by rw [← hs1']; exact unminedTxs_proj cd (fun _ _ => rfl) (fun _ _ => rfl) ..
  have hs1'recs : recs s1' = recs s := by
    rw [← hs1', unminedTxs_proj recs (fun _ _ => rfl) (fun _ _ => rfl), ← hsc, (scan_recs_pending limit s1 addrs).1]
    exact hs1recs
  have hs1'pc : s1'.pendCred = sc.s.pendCred := by
    rw [← hs1']; exact unminedTxs_proj Store.pendCred (fun _ _ => rfl) (fun _ _ => rfl) ..
  obtain ⟨DEL, hS⟩ := scan_char limit s1 addrs
  rw [hsc] at hS
  obtain ⟨ERA, hM⟩ := mined_char c s1' addrs sc.heightOf (s2, del2) hmt
  have hocd : cd o.s = cd sc.s := by
    rw [ho]
    show cd (checkBlockRecords s2 del2) = _
    rw [blockRecords_proj cd (fun _ _ => rfl)]
    exact (minedTxs_proj cd (fun _ _ => rfl) c _ addrs _ (s2, del2) hmt).trans hs1'cd
  have hoc : o.s.credits = sc.s.credits := congrArg Prod.fst hocd
  have hod : o.s.debits = sc.s.debits := congrArg Prod.snd hocd
  have hopc : o.s.pendCred = s1'.pendCred := by
    rw [ho]
    show (checkBlockRecords s2 del2).pendCred = _
    rw [blockRecords_proj Store.pendCred (fun _ _ => rfl)]
    exact minedTxs_proj Store.pendCred (fun _ _ => rfl) c _ addrs _ (s2, del2) hmt
  have hrem : ∀ tx, removable c.own s1' addrs tx = removable c.own o.s addrs tx :=
    fun tx => (removable_congr c.own s1' o.s addrs tx (by rw [hoc]; exact (congrArg Prod.fst hs1'cd).symm) hopc).symm
  have hiu : ∀ k, inUse s1' k = inUse o.s k := fun k => by
    have e1 : s1'.credits = sc.s.credits := congrArg Prod.fst hs1'cd
    have e2 : s1'.debits = sc.s.debits := congrArg Prod.snd hs1'cd
    unfold inUse; rw [hoc, hod, e1, e2]
  have htx1 : s1'.txrecs = s.txrecs := congrArg Prod.fst hs1'recs
  have hbl1 : s1'.blocks = s.blocks := congrArg Prod.snd hs1'recs
  have hfin : o.finish = sc.finish := by rw [ho]
  refine ⟨DEL, sc.heightOf, ERA, ?_⟩
  refine ⟨?_, ?_, ?_, ?_, ?_, ?_, hS.hofBack, ?_, ?_, ?_, ?_, hspec.ids, hspec.pendCred⟩
  · intro k; rw [hoc, hS.credits k, hs1c]
  · intro dk; rw [hod, hS.debits dk, hs1d]
  · intro e he; rw [← hs1c]; exact hS.sub e he
  · intro hf e he hm
    rw [hfin] at hf
    have hl : live sc := by
      rw [← hsc] at hf hnf ⊢
      exact live_of_finish limit s1 addrs hf hnf
    exact hS.all hl e (by rw [hs1c]; exact he) hm
  · intro e he
    obtain ⟨h', hh'⟩ := Option.isSome_iff_exists.1 (hS.hofTx e he)
    exact ⟨h', get_mem hh'⟩
  · intro e he dk hdk
    obtain ⟨h', hh'⟩ := Option.isSome_iff_exists.1 (hS.hofSp e he dk hdk)
    exact ⟨h', get_mem hh'⟩
  · intro k
    rw [ho]
    show AMap.get (checkBlockRecords s2 del2).txrecs k = _
    rw [blockRecords_proj Store.txrecs (fun _ _ => rfl)]
    have := hM.txrecs k
    simp only at this
    rw [this, htx1]
  · intro k hk
    obtain ⟨h1, h0, loc, tx, h2, h3, h4⟩ := hM.sound k hk
    exact ⟨h1, by rw [← hiu]; exact h0, loc, tx, by rw [← htx1]; exact h2, h3, by rw [← hrem]; exact h4⟩
  · intro hU x hx k loc tx hk1 hk2 hg hloc hr hnu
    exact hM.complete (by rw [htx1]; exact hU) x hx k loc tx hk1 hk2 (by rw [htx1]; exact hg) hloc (by rw [hrem]; exact hr)
      (by rw [hiu]; exact hnu)
  · intro h'
    rw [ho]
    show AMap.get (checkBlockRecords s2 del2).blocks h' = _
    rw [blocks_char]
    have hd : del2 = ERA.map (fun k => (k.2.height, k.1)) := hM.del
    have hb : s2.blocks = s.blocks := by
      have := hM.blocks
      simp only at this
      rw [this, hbl1]
    rw [hd, hb, List.map_map]
    rfl

end MW.Lemmas.RemoveChar
