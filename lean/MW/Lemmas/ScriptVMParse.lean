/-
  C03 round 4, helper lemmas part 1: what the tokenizer yields on the byte strings of the wallet's own
  scripts (witness-script-hash / staking / binding pkScripts, the 1-of-1 redeem script, a direct data push).
-/
import MW.Model.ScriptVM
import MW.Lemmas.ScriptTemplate
import MW.Lemmas.ScriptBuild
namespace MW.Lemmas.ScriptVMParse
open MW MW.Model.Script MW.Lemmas.ScriptTok MW.Lemmas.ScriptTemplate
open MW.Model.ScriptVM (parse)

theorem parse_of_toks {s : Bytes} {ps : List Pop} (h : Toks s ps) : parse s = .ok ps := by
  unfold parse
  rw [parseScript_eq, (tokF_ok_iff s.length s ps (Nat.le_refl _)).mpr h]

/-- an opcode without data -/
theorem toks_op (b : UInt8) (rest : Bytes) (ps : List Pop) (hb : b.toNat = 0 ∨ 78 < b.toNat)
    (hk : Toks rest ps) : Toks (b :: rest) (⟨b, []⟩ :: ps) := by
  have e : stepG b rest = .ok (⟨b, []⟩, 1) := by unfold stepG; simp [hb]
  refine Toks.cons e ?_
  simpa using hk

/-- a direct push OP_DATA_1 … OP_DATA_75 -/
theorem toks_data (m : UInt8) (d rest : Bytes) (ps : List Pop) (h1 : 1 ≤ m.toNat) (h2 : m.toNat ≤ 75)
    (hd : d.length = m.toNat) (hk : Toks rest ps) : Toks (m :: (d ++ rest)) (⟨m, d⟩ :: ps) := by
  have e : stepG m (d ++ rest) = .ok (⟨m, d⟩, m.toNat + 1) := by
    rw [stepG_data m _ h1 h2]
    have : ¬ (d ++ rest).length < m.toNat := by simp [hd]
    rw [if_neg this, ← hd]
    simp
  refine Toks.cons e ?_
  have : List.drop (m.toNat + 1) (m :: (d ++ rest)) = rest := by simp [← hd]
  rw [this]; exact hk

/-- the 1-of-1 redeem script `OP_1 <33-byte key> OP_1 OP_CHECKMULTISIG` -/
def redeem1 (pk : Bytes) : Bytes := [0x51, 0x21] ++ pk ++ [0x51, 0xae]

/-- the signature script: one direct push -/
def sigPush (full : Bytes) : Bytes := UInt8.ofNat full.length :: full

def redeemOps (pk : Bytes) : List Pop := [⟨0x51, []⟩, ⟨0x21, pk⟩, ⟨0x51, []⟩, ⟨0xae, []⟩]

theorem parse_redeem1 (pk : Bytes) (hl : pk.length = 33) : parse (redeem1 pk) = .ok (redeemOps pk) := by
  apply parse_of_toks
  show Toks (0x51 :: 0x21 :: (pk ++ [0x51, 0xae])) _
  refine toks_op _ _ _ (by decide) ?_
  refine toks_data 0x21 pk _ _ (by decide) (by decide) (by simpa using hl) ?_
  refine toks_op _ _ _ (by decide) ?_
  refine toks_op _ _ _ (by decide) ?_
  exact Toks.nil

theorem parse_sigPush (full : Bytes) (h1 : 1 ≤ full.length) (h2 : full.length ≤ 75) :
    parse (sigPush full) = .ok [⟨UInt8.ofNat full.length, full⟩] := by
  apply parse_of_toks
  have hn : (UInt8.ofNat full.length).toNat = full.length := by
    simp [UInt8.toNat_ofNat']; omega
  have := toks_data (UInt8.ofNat full.length) full [] [] (by omega) (by omega) hn.symm Toks.nil
  simpa [sigPush] using this

open Spec.Script in
theorem parse_wsh (h : Bytes) (hl : h.length = 32) : parse (wshScript h) = .ok [⟨0, []⟩, ⟨0x20, h⟩] := by
  apply parse_of_toks
  have := toks_prefix h [] [] hl Toks.nil
  simpa [wshScript] using this

open Spec.Script in
theorem parse_staking (h : Bytes) (f : Nat) (hl : h.length = 32) :
    parse (stakingScript h f) = .ok [⟨0, []⟩, ⟨0x20, h⟩, ⟨8, leBytes 8 f⟩] := by
  apply parse_of_toks
  have hk : Toks (0x08 :: leBytes 8 f) [⟨8, leBytes 8 f⟩] :=
    toks_push 8 _ (by decide) (by decide) (by rw [MW.Lemmas.ScriptBuild.leBytes_length]; decide)
  have := toks_prefix h _ _ hl hk
  simpa [stakingScript] using this

open Spec.Script in
theorem parse_binding (h t : Bytes) (hl : h.length = 32) (ht : t.length = 20 ∨ t.length = 22) :
    parse (bindingScript h t) = .ok [⟨0, []⟩, ⟨0x20, h⟩, ⟨UInt8.ofNat t.length, t⟩] := by
  apply parse_of_toks
  have hn : (UInt8.ofNat t.length).toNat = t.length := by
    simp [UInt8.toNat_ofNat']; omega
  have hk : Toks (UInt8.ofNat t.length :: t) [⟨UInt8.ofNat t.length, t⟩] :=
    toks_push _ _ (by omega) (by omega) hn.symm
  have := toks_prefix h _ _ hl hk
  simpa [bindingScript] using this

end MW.Lemmas.ScriptVMParse
