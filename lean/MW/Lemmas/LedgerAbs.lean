/-
  THE ABSTRACTION FUNCTION from the wallet store to the spec ledger, and its correctness under the invariant.
    abs        – the ledger a store denotes: unspent index ⋈ tx records ⋈ block files
    abs_perm   – under `Inv` it IS (a permutation of) `ledgerOf`: the set of outputs the chain pays to the
                 wallets and has not spent
    abs_total  – hence the per-wallet totals agree
-/
import MW.Lemmas.LedgerChar4
import MW.Lemmas.LedgerObs3
import MW.Lemmas.LedgerDisc2
namespace MW.Lemmas.Ledger
open MW MW.Model.Ledger MW.Spec.Chain MW.Spec.Books

/-- the ledger a store denotes: the unspent index joined with the tx records and the block files
    (the transaction an unspent entry points at is read back from its recorded block-file location) -/
def abs (c : Ctx) (s : Store) : List SCoin :=
  s.unspent.filterMap (fun e =>
    match AMap.get s.txrecs (e.1.2.1, e.2) with
    | some loc =>
      match c.node.txByFileLoc loc with
      | some t => (t.outs[e.1.2.2]?).map (fun o => ⟨e.1.1, e.1.2.1, e.1.2.2, o.amt, e.2.height, t.cb, o.cls, o.addr⟩)
      | none => none
    | none => none)

/-- one entry of the unspent index read back through the tx records and the block files -/
def absEntry (c : Ctx) (s : Store) (e : (Wid × TxId × Nat) × BlockMeta) : Option SCoin :=
  match AMap.get s.txrecs (e.1.2.1, e.2) with
  | some loc =>
    match c.node.txByFileLoc loc with
    | some t => (t.outs[e.1.2.2]?).map (fun o => ⟨e.1.1, e.1.2.1, e.1.2.2, o.amt, e.2.height, t.cb, o.cls, o.addr⟩)
    | none => none
  | none => none

theorem abs_eq_filterMap (c : Ctx) (s : Store) : abs c s = s.unspent.filterMap (absEntry c s) := rfl

/-- the entry of the unspent index a ledger entry of the books stands for -/
def unspentEntryU (u : UCoin) : (Wid × TxId × Nat) × BlockMeta := ((u.wallet, u.tx, u.idx), u.blk)

-- ------------------------------------------------------------------ the unspent index as a list

theorem filterMap_congr_abs {α β : Type} {f g : α → Option β} {l : List α} (h : ∀ a ∈ l, f a = g a) :
    l.filterMap f = l.filterMap g := by
  induction l with
  | nil => rfl
  | cons a l ih =>
    rw [List.filterMap_cons, List.filterMap_cons, h a (List.mem_cons_self ..),
      ih (fun x hx => h x (List.mem_cons_of_mem _ hx))]

/-- the entries of the unspent index are exactly the ledger entries of the books -/
theorem mem_unspent_iff_book {s : Store} {B : Book} (hWF : KeysNodup s.unspent)
    (hU : ∀ w tx idx, AMap.get s.unspent (w, tx, idx) =
      ((lookupU B.L tx idx).filter (fun u => decide (u.wallet = w))).map (·.blk))
    (hk : KeysOK B.L) (e : (Wid × TxId × Nat) × BlockMeta) :
    e ∈ s.unspent ↔ ∃ u ∈ B.L, unspentEntryU u = e := by
  obtain ⟨⟨w, tx, idx⟩, blk⟩ := e
  rw [mem_iff_get_of_nodup hWF, hU]
  constructor
  · intro h
    cases hl : lookupU B.L tx idx with
    | none => rw [hl] at h; cases h
    | some u =>
      rw [hl] at h
      obtain ⟨hm, htx, hidx⟩ := lookupU_some hl
      by_cases huw : u.wallet = w
      · simp only [Option.filter, huw, decide_true, if_true, Option.map_some, Option.some.injEq] at h
        refine ⟨u, hm, ?_⟩
        unfold unspentEntryU
        rw [huw, htx, hidx, h]
      · simp [Option.filter, huw] at h
  · rintro ⟨u, hm, he⟩
    unfold unspentEntryU at he
    simp only [Prod.mk.injEq] at he
    obtain ⟨⟨hw, htx, hidx⟩, hblk⟩ := he
    rw [← htx, ← hidx, lookupU_of_mem hk hm]
    simp [Option.filter, hw, hblk]

/-- the unspent index, as a list, is the ledger list of the books in some order -/
theorem unspent_perm_book {s : Store} {B : Book} (hWF : KeysNodup s.unspent)
    (hU : ∀ w tx idx, AMap.get s.unspent (w, tx, idx) =
      ((lookupU B.L tx idx).filter (fun u => decide (u.wallet = w))).map (·.blk))
    (hk : KeysOK B.L) : s.unspent.Perm (B.L.map unspentEntryU) := by
  have hnd : (s.unspent.map (·.1)).Nodup := hWF
  rw [List.perm_ext_iff_of_nodup (nodup_of_nodup_map (·.1) hnd)]
  · intro e
    rw [mem_unspent_iff_book hWF hU hk, List.mem_map]
  · apply nodup_of_nodup_map (fun e : (Wid × TxId × Nat) × BlockMeta => (e.1.2.1, e.1.2.2))
    rw [List.map_map]
    exact hk

-- ------------------------------------------------------------------ reading one entry back

/-- the block file of a known block of the chain gives back every transaction at its recorded position -/
theorem txByFileLoc_of_occ {n : Node} {chain : List Block}
    (hK : ∀ x ∈ chain, AMap.get n.known x.id = some x) {oc : Occ} (hoc : oc ∈ occs chain) :
    n.txByFileLoc (oc.bm.hash, oc.ti) = some oc.t := by
  obtain ⟨b, hb, hob⟩ := mem_occs.1 hoc
  obtain ⟨m, hm, hti, hbm⟩ := mem_occsFrom.1 hob
  unfold Node.txByFileLoc
  rw [hbm]
  simp only [hK b hb, hti, Nat.zero_add]
  exact hm

/-- the transaction that created a ledger entry has a record, with its block-file location -/
theorem bookOf_txrecs_of_created {p : Params} {own : Own} {chain : List Block} (hV : ChainValid own chain)
    {oc : Occ} (hoc : oc ∈ occs chain) {j : Nat} {o : Out} (ho : oc.t.outs[j]? = some o)
    (hown : (ownerOf own o).isSome = true) :
    (bookOf p own chain).txrecs (oc.t.id, oc.bm) = some (oc.bm.hash, oc.ti) := by
  rw [bookOf_txrecs_iff hV]
  obtain ⟨P₁, P₂, hsplit⟩ := List.append_of_mem hoc
  refine ⟨P₁, oc, P₂, hsplit, ?_, rfl, rfl⟩
  unfold touches
  rw [Bool.or_eq_true]
  right
  rw [List.any_eq_true]
  exact ⟨o, List.mem_of_getElem? ho, hown⟩

/-- a ledger entry of the books of the chain, read back from the store: its spec coin -/
theorem absEntry_book {c : Ctx} {s : Store} {chain : List Block}
    (hT : ∀ k, AMap.get s.txrecs k = (bookOf c.p c.own chain).txrecs k)
    (hV : ChainValid c.own chain) (hK : ∀ x ∈ chain, AMap.get c.node.known x.id = some x)
    {u : UCoin} (hu : u ∈ (bookOf c.p c.own chain).L) :
    absEntry c s (unspentEntryU u) = some u.toSCoin := by
  obtain ⟨⟨oc, hoc, hid, hout, hown, hblk, hcb⟩, _⟩ := ((glob_bookOf (p := c.p) hV).mem u).1 hu
  have hrec := bookOf_txrecs_of_created (p := c.p) hV hoc hout (by rw [hown]; rfl)
  have hloc := txByFileLoc_of_occ hK hoc
  unfold absEntry unspentEntryU
  simp only
  rw [hT, ← hid, hblk, hrec]
  simp only
  rw [hloc]
  simp only
  rw [hout, Option.map_some, hid, ← hcb, ← hblk]
  rfl

-- ------------------------------------------------------------------ the abstraction theorem

/-- the abstraction theorem from the pieces of the invariant it uses: the unspent index and the tx
    records agree with the books of the chain -/
theorem abs_perm_of_agree {c : Ctx} {s : Store} {chain : List Block}
    (hU : ∀ w tx idx, AMap.get s.unspent (w, tx, idx) =
      ((lookupU (bookOf c.p c.own chain).L tx idx).filter (fun u => decide (u.wallet = w))).map (·.blk))
    (hT : ∀ k, AMap.get s.txrecs k = (bookOf c.p c.own chain).txrecs k)
    (hWF : KeysNodup s.unspent) (hV : ChainValid c.own chain)
    (hK : ∀ x ∈ chain, AMap.get c.node.known x.id = some x) :
    (abs c s).Perm (ledgerOf c.own chain) := by
  obtain ⟨hL, _⟩ := loc_bookOf (p := c.p) hV
  have hp := (unspent_perm_book hWF hU hL.keys).filterMap (absEntry c s)
  rw [abs_eq_filterMap, ← bookOf_L c.p c.own chain]
  refine hp.trans (List.Perm.of_eq ?_)
  rw [List.filterMap_map]
  have : ∀ u ∈ (bookOf c.p c.own chain).L,
      (absEntry c s ∘ unspentEntryU) u = (some ∘ UCoin.toSCoin) u :=
    fun u hu => absEntry_book hT hV hK hu
  rw [filterMap_congr_abs this, List.filterMap_eq_map]

/-- THE ABSTRACTION THEOREM: under the invariant, the unspent index (⋈ tx records ⋈ block files) IS the set
    of outputs the chain pays to the wallets and has not spent -/
theorem abs_perm {c : Ctx} {s : Store} {chain : List Block} (hI : Inv c s chain) (hWF : KeysNodup s.unspent)
    (hV : ChainValid c.own chain) (hH : HeightsOK chain)
    (hK : ∀ x ∈ chain, AMap.get c.node.known x.id = some x) :
    (abs c s).Perm (ledgerOf c.own chain) :=
  have _ := hH
  abs_perm_of_agree hI.agree.unspent hI.agree.txrecs hWF hV hK

/-- the total of a wallet is invariant under permutation of the ledger -/
theorem total_perm {l l' : List SCoin} (h : l.Perm l') (w : Wid) : total l w = total l' w := by
  unfold total coinsOfWallet
  exact ((h.filter _).map _).sum_nat

/-- the per-wallet totals of the denoted ledger are the spec's -/
theorem abs_total {c : Ctx} {s : Store} {chain : List Block} (hI : Inv c s chain) (hWF : KeysNodup s.unspent)
    (hV : ChainValid c.own chain) (hH : HeightsOK chain)
    (hK : ∀ x ∈ chain, AMap.get c.node.known x.id = some x) (w : Wid) :
    total (abs c s) w = total (ledgerOf c.own chain) w :=
  total_perm (abs_perm hI hWF hV hH hK) w

end MW.Lemmas.Ledger
