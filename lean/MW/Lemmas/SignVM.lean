/-
  C03 round 4: the abstract `Engine` of MW.Model.Sign INSTANTIATED with the script VM model
  (MW.Model.ScriptVM).  The law `p2wsh`, so far a hypothesis (structure field), is PROVED of the VM here
  (`vm_law`).  What remains a parameter is the byte codec of keys and signatures together with ECDSA
  (`Codec`: compressed key serialisation, DER signature serialisation, their parsers, sha256, the signature-hash
  function) – see the field comments for the exact laws assumed of them.
-/
import MW.Model.Sign
import MW.Lemmas.ScriptVMMain
namespace MW.Lemmas.SignVM
open MW MW.Model.Sign MW.Model.ScriptVM MW.Lemmas.ScriptVMParse MW.Lemmas.ScriptVMExec MW.Lemmas.ScriptVMMain

/-- byte-level counterparts of an abstract `Crypto`: serialisation of keys and signatures (btcec
    SerializeCompressed / Signature.Serialize), the parsers the engine calls, sha256 and
    calcWitnessSignatureHash -/
structure Codec (C : Crypto) where
  sha256 : Bytes → Bytes
  encPK : C.PK → Bytes
  parsePK : Bytes → Option C.PK
  encSig : C.Sig → Bytes
  parseSig : Bytes → Option C.Sig
  /-- calcWitnessSignatureHash(script code, hash type) for (transaction without witnesses, input index, amount) -/
  sighash : STx → Nat → Nat → Bytes → Nat → C.Msg
  sha256_len : ∀ b, (sha256 b).length = 32
  /-- a compressed key is 33 bytes starting with 02 or 03 … -/
  encPK_compressed : ∀ pk, isCompressed (encPK pk) = true
  /-- … and parses back -/
  parsePK_enc : ∀ pk, parsePK (encPK pk) = some pk
  /-- Signature.Serialize yields strict DER with a low S (what checkSignatureEncoding demands) … -/
  encSig_strict : ∀ s, checkSigEncoding (encSig s) = .ok ()
  /-- … and parses back -/
  parseSig_enc : ∀ s, parseSig (encSig s) = some s

variable {C : Crypto}

/-- the hash-type byte of a flag (txscript.SigHashType) -/
def flagByte (fl : Flag) : Nat :=
  (match fl.base with | .all => Gen.Vm.sigHashAll | .none => Gen.Vm.sigHashNone | .single => Gen.Vm.sigHashSingle) +
    (if fl.acp then Gen.Vm.sigHashAnyOneCanPay else 0)

def vmPrims (K : Codec C) : Prims where
  PK := C.PK
  Sig := C.Sig
  Msg := C.Msg
  sha256 := K.sha256
  parsePK := K.parsePK
  parseSig := K.parseSig
  verify := C.verify

/-- the engine run for input `i` spending an output of `amt`: flags as the wallet sets them – StandardVerifyFlags,
    plus ScriptMASSip2 (`ip2`) when the previous transaction sits at a height ≥ MASSIP0002WarmUpHeight
    (`forks.EnforceMASSIP0002WarmUp(prevHeight)` in signWitnessTx) -/
def vmCtx (K : Codec C) (tx : STx) (i : Nat) (seq : Nat) (amt : Nat) (ip2 : Bool := false) : Ctx (vmPrims K) where
  seq := seq
  lockTime := tx.lock
  ip2 := ip2
  discourageNops := true
  sighash := fun code ht => K.sighash tx i amt code ht

/-- the template of an output class (binding outputs: any 20-byte target – `vm_bind_target_irrelevant`) -/
def kindOf : Class → Option Kind
  | .std => some .std
  | .stk f => some (.stk f)
  | .bind => some (.bind (List.replicate 20 0))
  | .bind2 => some (.bind (List.replicate 20 0))
  | .other => none

/-- ScriptMASSip2 as signWitnessTx sets it. The flag is consulted by the engine for binding outputs only
    (`verifyWitnessProgram`), so the class of the previous output carries it: `bind2` = binding output of a previous
    transaction at a height ≥ the warm-up height. -/
def ip2Of : Class → Bool
  | .bind2 => true
  | _ => false

/-- the witness bytes of a model witness: [push(signature ‖ hash type), redeem script] -/
def witnessBytes (K : Codec C) (w : Witness C) : List Bytes :=
  [sigPush (K.encSig w.sig ++ [UInt8.ofNat (flagByte w.flag)]), redeem1 (K.encPK w.pk)]

def isOk {α} : R α → Bool
  | .ok _ => true
  | .error _ => false

theorem isOk_iff (x : R Unit) : isOk x = true ↔ x = .ok () := by
  cases x <;> simp [isOk]

/-- NewEngine + Execute of the VM model for input `i` -/
def vmOk (K : Codec C) (po : PrevOut Bytes) (tx : STx) (i : Nat) (w : Option (Witness C)) : Bool :=
  match w, kindOf po.cls, tx.ins[i]? with
  | some w, some k, some inp =>
    isOk (Model.ScriptVM.verify (vmPrims K) (vmCtx K tx i inp.seq po.amt (ip2Of po.cls)) (pkScriptOf po.addr k) (witnessBytes K w))
  | _, _, _ => false

theorem encPK_len (K : Codec C) (pk : C.PK) : (K.encPK pk).length = 33 := by
  have := K.encPK_compressed pk
  simp [isCompressed] at this
  exact this.1

theorem encSig_len (K : Codec C) (s : C.Sig) : 8 ≤ (K.encSig s).length ∧ (K.encSig s).length ≤ 72 := by
  have h := K.encSig_strict s
  unfold checkSigEncoding at h
  by_cases h1 : (K.encSig s).length < 8
  · simp [h1] at h
  · by_cases h2 : (K.encSig s).length > 72
    · simp [h1, h2] at h
    · omega

theorem flagByte_lt (fl : Flag) : flagByte fl < 256 := by
  rcases fl with ⟨b, a⟩; cases b <;> cases a <;> decide

theorem checkHashType_flag (fl : Flag) : checkHashType (flagByte fl) = .ok () := by
  rcases fl with ⟨b, a⟩; cases b <;> cases a <;> rfl

/-- the sequence rule of MW.Model.Sign (`seqOk`) implies the one the VM enforces -/
theorem seqRule_of_seqOk (f s : Nat) (h : seqOk (.stk f) s = true) : SeqRule s (f + 1) ∧ f + 1 < 2 ^ 63 := by
  simp only [seqOk, Bool.and_eq_true, decide_eq_true_eq] at h
  obtain ⟨⟨h1, h2⟩, h3⟩ := h
  have h1' : s < 9223372036854775808 := by simpa using h1
  have h2' : s / 274877906944 % 2 = 0 := by simpa using h2
  have h3' : f + 1 ≤ s % 4294967296 := by simpa using h3
  have hf : f + 1 < 4294967296 := by omega
  have m1 : seqMasked s = s % 4294967296 := by
    simp [seqMasked, Gen.Vm.sequenceLockTimeMask, Gen.Vm.sequenceLockTimeIsSeconds, h2']
  have m2 : seqMasked (f + 1) = f + 1 := by
    have a : (f + 1) / 274877906944 = 0 := by omega
    have b : (f + 1) % 4294967296 = f + 1 := by omega
    simp [seqMasked, Gen.Vm.sequenceLockTimeMask, Gen.Vm.sequenceLockTimeIsSeconds, a, b]
  refine ⟨⟨?_, ?_, ?_⟩, ?_⟩
  · simp [Gen.Vm.sequenceLockTimeDisabled]; omega
  · rw [m1, m2]; simp [Gen.Vm.sequenceLockTimeIsSeconds]; omega
  · rw [m1, m2]; exact h3'
  · have : (2 : Nat) ^ 63 = 9223372036854775808 := by decide
    omega

/-- the MASSIP-2 binding sequence rule of MW.Model.Sign implies the one the VM enforces under ScriptMASSip2 -/
theorem seqRule_of_seqOk_bind2 (s : Nat) (h : seqOk .bind2 s = true) : SeqRule s Gen.Vm.bindingLockedPeriod := by
  simp only [seqOk, Bool.and_eq_true, decide_eq_true_eq] at h
  obtain ⟨⟨h1, h2⟩, h3⟩ := h
  have h1' : s < 9223372036854775808 := by simpa using h1
  have h2' : s / 274877906944 % 2 = 0 := by simpa using h2
  have h3' : 4294967294 ≤ s % 4294967296 := by simpa using h3
  have m1 : seqMasked s = s % 4294967296 := by
    simp [seqMasked, Gen.Vm.sequenceLockTimeMask, Gen.Vm.sequenceLockTimeIsSeconds, h2']
  have m2 : seqMasked Gen.Vm.bindingLockedPeriod = 4294967294 := by decide
  refine ⟨?_, ?_, ?_⟩
  · simp [Gen.Vm.sequenceLockTimeDisabled]; omega
  · rw [m1, m2]; simp [Gen.Vm.sequenceLockTimeIsSeconds]; omega
  · rw [m1, m2]; exact h3'

/-- THE LAW `p2wsh`, proved of the VM model: a witness made of a valid signature by the key the script hash commits
    to, with the sequence rule of the class met, is accepted by NewEngine + Execute -/
theorem vm_law (K : Codec C) (po : PrevOut Bytes) (tx : STx) (i : Nat) (w : Witness C) (seq : Nat)
    (hc : po.cls ≠ .other) (hh : K.sha256 (redeem1 (K.encPK w.pk)) = po.addr)
    (hs : (tx.ins[i]?).map (·.seq) = some seq) (hq : seqOk po.cls seq = true)
    (hv : C.verify w.pk (K.sighash tx i po.amt (redeem1 (K.encPK w.pk)) (flagByte w.flag)) w.sig = true) :
    vmOk K po tx i (some w) = true := by
  obtain ⟨inp, hinp, hseq⟩ : ∃ inp, tx.ins[i]? = some inp ∧ inp.seq = seq := by
    cases h : tx.ins[i]? with
    | none => simp [h] at hs
    | some inp => exact ⟨inp, rfl, by simpa [h] using hs⟩
  have hl32 : po.addr.length = 32 := by rw [← hh]; exact K.sha256_len _
  have hpk := encPK_len K w.pk
  obtain ⟨hs8, hs72⟩ := encSig_len K w.sig
  have hfb := flagByte_lt w.flag
  -- the pushed element: signature ‖ hash type
  have hfull1 : 1 ≤ (K.encSig w.sig ++ [UInt8.ofNat (flagByte w.flag)]).length := by simp
  have hfull2 : (K.encSig w.sig ++ [UInt8.ofNat (flagByte w.flag)]).length ≤ 75 := by simp; omega
  have hlast : ((K.encSig w.sig ++ [UInt8.ofNat (flagByte w.flag)]).getLast?.getD 0).toNat = flagByte w.flag := by
    simp [UInt8.toNat_ofNat']; omega
  have hdrop : (K.encSig w.sig ++ [UInt8.ofNat (flagByte w.flag)]).dropLast = K.encSig w.sig := by simp
  have hsig : ∀ b, SigValid (vmPrims K) (vmCtx K tx i inp.seq po.amt b) (K.encPK w.pk)
      (K.encSig w.sig ++ [UInt8.ofNat (flagByte w.flag)]) := by
    intro b
    refine ⟨by simp, ?_, ?_, K.encPK_compressed _, w.sig, w.pk, ?_, K.parsePK_enc _, ?_⟩
    · rw [hlast]; exact checkHashType_flag _
    · rw [hdrop]; exact K.encSig_strict _
    · rw [hdrop]; exact K.parseSig_enc _
    · rw [hlast]; exact hv
  cases hcls : po.cls with
  | other => exact absurd hcls hc
  | std =>
    have hk : (Kind.std).wf := trivial
    simp only [vmOk, hcls, kindOf, hinp, witnessBytes, isOk_iff]
    rw [verify_template _ _ _ _ _ _ hl32 hk hpk hfull1 hfull2, verdict_ok_iff]
    exact ⟨hh, trivial, hsig _⟩
  | stk f =>
    rw [hcls, ← hseq] at hq
    obtain ⟨hrule, hwf⟩ := seqRule_of_seqOk f inp.seq hq
    have hk : (Kind.stk f).wf := hwf
    simp only [vmOk, hcls, kindOf, hinp, witnessBytes, isOk_iff]
    rw [verify_template _ _ _ _ _ _ hl32 hk hpk hfull1 hfull2, verdict_ok_iff]
    exact ⟨hh, hrule, hsig _⟩
  | bind =>
    have hk : (Kind.bind (List.replicate 20 0)).wf := Or.inl (by simp)
    simp only [vmOk, hcls, kindOf, hinp, witnessBytes, isOk_iff]
    rw [verify_template _ _ _ _ _ _ hl32 hk hpk hfull1 hfull2, verdict_ok_iff]
    exact ⟨hh, fun h => by simp [vmCtx, ip2Of] at h, hsig _⟩
  | bind2 =>
    rw [hcls, ← hseq] at hq
    have hrule := seqRule_of_seqOk_bind2 inp.seq hq
    have hk : (Kind.bind (List.replicate 20 0)).wf := Or.inl (by simp)
    simp only [vmOk, hcls, kindOf, hinp, witnessBytes, isOk_iff]
    rw [verify_template _ _ _ _ _ _ hl32 hk hpk hfull1 hfull2, verdict_ok_iff]
    exact ⟨hh, fun _ => hrule, hsig _⟩

/-- the script VM as an `Engine`: the law is a theorem, not an assumption -/
def vmEngine (K : Codec C) : Engine C Bytes where
  sighash := fun tx i fl pk amt => K.sighash tx i amt (redeem1 (K.encPK pk)) (flagByte fl)
  hashOf := fun pk => K.sha256 (redeem1 (K.encPK pk))
  ok := vmOk K
  p2wsh := fun po tx i w seq hc hh hs hq hv => vm_law K po tx i w seq hc hh hs hq hv

end MW.Lemmas.SignVM
