/-
  C03 round 4, helper lemmas part 3: the verdict of MW.Model.ScriptVM.verify on the wallet's three output
  templates spent with the witness [push(signature ‖ hash type), OP_1 <pk> OP_1 OP_CHECKMULTISIG], in closed form.
-/
import MW.Lemmas.ScriptVMExec
namespace MW.Lemmas.ScriptVMMain
open MW MW.Model.Script MW.Model.ScriptVM MW.Lemmas.ScriptVMParse MW.Lemmas.ScriptVMExec

variable (P : Prims) (ctx : Ctx P)

/-- the three output templates of the wallet -/
inductive Kind
  | std
  | stk (frozen : Nat)
  | bind (target : Bytes)

def Kind.wf : Kind → Prop
  | .std => True
  | .stk f => f + 1 < 2 ^ 63
  | .bind t => t.length = 20 ∨ t.length = 22

def pkScriptOf (h : Bytes) : Kind → Bytes
  | .std => Spec.Script.wshScript h
  | .stk f => Spec.Script.stakingScript h f
  | .bind t => Spec.Script.bindingScript h t

/-- the sequence-lock prelude the engine runs before the witness scripts -/
def prelude : Kind → R Unit
  | .std => .ok ()
  | .stk f => csvCheck P ctx (f + 1)
  | .bind _ => if ctx.ip2 then csvCheck P ctx Gen.Vm.bindingLockedPeriod else .ok ()

/-- closed form of the engine's verdict on a template output -/
def verdict (h pk full : Bytes) (k : Kind) : R Unit :=
  if P.sha256 (redeem1 pk) ≠ h then .error .progMismatch
  else match prelude P ctx k with
    | .error e => .error e
    | .ok _ =>
      match sig1 P ctx true (redeemOps pk) pk full with
      | .error e => .error e
      | .ok b => if b then .ok () else .error .nullFail

/-- the witness scripts after the prelude -/
theorem run_witness (pk full : Bytes) (hpk : pk.length = 33) (h1 : 1 ≤ full.length) (h2 : full.length ≤ 75)
    (n : Nat) (sub : List Pop) :
    (runScripts P ctx true [[⟨UInt8.ofNat full.length, full⟩], redeemOps pk] false ⟨[], [], [], n, sub⟩ >>= checkFinal) =
      (match sig1 P ctx true (redeemOps pk) pk full with
       | .error e => .error e
       | .ok b => if b then .ok () else .error .nullFail) := by
  have hne : full ≠ [] := by intro h; simp [h] at h1
  simp only [runScripts, runScript_sigPush P ctx true full h1 h2]
  rw [show redeemOps pk = ⟨0x51, []⟩ :: [⟨0x21, pk⟩, ⟨0x51, []⟩, ⟨0xae, []⟩] from rfl]
  simp only [runScripts]
  rw [show (⟨0x51, []⟩ : Pop) :: [⟨0x21, pk⟩, ⟨0x51, []⟩, ⟨0xae, []⟩] = redeemOps pk from rfl]
  rw [runScript_redeem P ctx pk full hpk]
  cases sig1 P ctx true (redeemOps pk) pk full with
  | error e => rfl
  | ok b =>
    cases b
    · simp [hne, bind, Except.bind]
    · simp [bind, Except.bind, checkFinal, asBool_fromBool]

theorem run_with_csv (lock : Nat) (hl : lock < 2 ^ 63) (pk full : Bytes) (hpk : pk.length = 33) (h1 : 1 ≤ full.length)
    (h2 : full.length ≤ 75) (n : Nat) (sub : List Pop) :
    (runScripts P ctx true ([csvScript lock] ++ [[⟨UInt8.ofNat full.length, full⟩], redeemOps pk]) false
        ⟨[], [], [], n, sub⟩ >>= checkFinal) =
      (match csvCheck P ctx lock with
       | .error e => .error e
       | .ok _ =>
         match sig1 P ctx true (redeemOps pk) pk full with
         | .error e => .error e
         | .ok b => if b then .ok () else .error .nullFail) := by
  have hcs : csvScript lock = ⟨8, Model.Script.leEnc 8 lock⟩ :: [⟨0xb2, []⟩, ⟨0x75, []⟩] := rfl
  rw [List.singleton_append, hcs]
  simp only [runScripts]
  rw [← hcs, runScript_csv P ctx true lock hl]
  cases csvCheck P ctx lock with
  | error e => rfl
  | ok u =>
    simp only []
    exact run_witness P ctx pk full hpk h1 h2 _ _

/-! ### script 0 (the pkScript) and NewEngine's classification -/

theorem runScript_pk2 (w : Bool) (h : Bytes) (hh : h.length = 32) :
    runScript P ctx w [⟨0, []⟩, ⟨0x20, h⟩] {} = .ok ⟨[h, []], [], [], 0, [⟨0, []⟩, ⟨0x20, h⟩]⟩ := by
  unfold runScript
  simp only [runOps]
  rw [execOp_zero]
  simp only [List.length_cons, List.length_nil, Gen.Vm.maxStackSize]
  rw [execOp_data P ctx w ⟨0x20, h⟩ _ _ _ _ _ (by show 1 ≤ (0x20 : UInt8).toNat; decide)
    (by show (0x20 : UInt8).toNat ≤ 75; decide) (by show h.length ≤ 520; omega)]
  simp

theorem runScript_pk3 (w : Bool) (h : Bytes) (hh : h.length = 32) (m : UInt8) (d : Bytes) (h1 : 1 ≤ m.toNat)
    (h2 : m.toNat ≤ 75) (hd : d.length ≤ 520) :
    runScript P ctx w [⟨0, []⟩, ⟨0x20, h⟩, ⟨m, d⟩] {} = .ok ⟨[d, h, []], [], [], 0, [⟨0, []⟩, ⟨0x20, h⟩, ⟨m, d⟩]⟩ := by
  unfold runScript
  simp only [runOps]
  rw [execOp_zero]
  simp only [List.length_cons, List.length_nil, Gen.Vm.maxStackSize]
  rw [execOp_data P ctx w ⟨0x20, h⟩ _ _ _ _ _ (by show 1 ≤ (0x20 : UInt8).toNat; decide)
    (by show (0x20 : UInt8).toNat ≤ 75; decide) (by show h.length ≤ 520; omega)]
  simp only [List.length_cons, List.length_nil]
  rw [execOp_data P ctx w ⟨m, d⟩ _ _ _ _ _ h1 h2 hd]
  simp

theorem canonicalPush_long (m : UInt8) (d : Bytes) (h2 : m.toNat ≤ 75) (hd : 2 ≤ d.length) :
    canonicalPush ⟨m, d⟩ = true := by
  have a : ¬ m.toNat > 96 := by omega
  have b : ¬ d.length = 1 := by omega
  have c : ¬ m.toNat = 76 := by omega
  have e : ¬ m.toNat = 77 := by omega
  have f : ¬ m.toNat = 78 := by omega
  simp [canonicalPush, a, b, c, e, f]

theorem witInfo_pk2 (h : Bytes) (hh : h.length = 32) :
    witInfo [⟨0, []⟩, ⟨0x20, h⟩] = some ⟨0, h, []⟩ := by
  have c := canonicalPush_long 0x20 h (by decide) (by omega)
  simp [witInfo, isMASSWitnessProg, isWitnessProg, Model.ScriptVM.isSmallInt, c, hh]

theorem witInfo_pk3 (h : Bytes) (hh : h.length = 32) (m : UInt8) (d : Bytes) (h2 : m.toNat ≤ 75)
    (hd : d.length = 8 ∨ d.length = 20 ∨ d.length = 22) :
    witInfo [⟨0, []⟩, ⟨0x20, h⟩, ⟨m, d⟩] = some ⟨0, h, [⟨m, d⟩]⟩ := by
  have c := canonicalPush_long 0x20 h (by decide) (by omega)
  have c2 := canonicalPush_long m d h2 (by omega)
  rcases hd with e | e | e <;> simp [witInfo, isMASSWitnessProg, Model.ScriptVM.isSmallInt, c, c2, hh, e]

theorem sigPush_length (full : Bytes) : (sigPush full).length = full.length + 1 := by simp [sigPush]
theorem redeem1_length (pk : Bytes) (hpk : pk.length = 33) : (redeem1 pk).length = 37 := by simp [redeem1, hpk]

/-- what the extension program of each template contributes -/
def extraOf : Kind → List (List Pop)
  | .std => []
  | .stk f => [csvScript (f + 1)]
  | .bind _ => if ctx.ip2 then [csvScript Gen.Vm.bindingLockedPeriod] else []

def extOf : Kind → List Pop
  | .std => []
  | .stk f => [⟨8, Spec.Script.leBytes 8 f⟩]
  | .bind t => [⟨UInt8.ofNat t.length, t⟩]

/-- verifyWitnessProgram on the template witness -/
theorem verifyWitnessProgram_template (h pk full : Bytes) (k : Kind) (hk : k.wf) (hpk : pk.length = 33)
    (h1 : 1 ≤ full.length) (h2 : full.length ≤ 75) :
    verifyWitnessProgram P ctx ⟨0, h, extOf k⟩ [sigPush full, redeem1 pk] =
      if P.sha256 (redeem1 pk) ≠ h then .error .progMismatch
      else .ok (extraOf P ctx k ++ [[⟨UInt8.ofNat full.length, full⟩], redeemOps pk]) := by
  have l0 : ¬ ((sigPush full).length = 0 ∨ (redeem1 pk).length = 0) := by
    rw [sigPush_length, redeem1_length pk hpk]; omega
  have l1 : ¬ (sigPush full).length > Gen.Script.maxScriptSize := by
    rw [sigPush_length]; simp [Gen.Script.maxScriptSize]; omega
  have l2 : ¬ (redeem1 pk).length > Gen.Script.maxScriptSize := by
    rw [redeem1_length pk hpk]; simp [Gen.Script.maxScriptSize]
  unfold verifyWitnessProgram
  simp only [ne_eq, not_true, if_false, l0]
  by_cases hs : P.sha256 (redeem1 pk) = h
  · simp only [hs, not_true, if_false]
    cases k with
    | std =>
      simp only [extOf, extraOf, l1, l2, parse_sigPush full h1 h2, parse_redeem1 pk hpk, bind, Except.bind, pure,
        Except.pure, if_false, List.nil_append]
    | stk f =>
      have hf : f < 2 ^ 63 := by have : f + 1 < 2 ^ 63 := hk; omega
      have hlen : (Spec.Script.leBytes 8 f).length = 8 := MW.Lemmas.ScriptBuild.leBytes_length 8 f
      have hk' : f + 1 < 2 ^ 63 := hk
      have e : ((f : Int) + 1).toNat = f + 1 := by omega
      have hnn : ¬ ((f : Int) < 0 ∨ toI64 (f + 1) < 0) := by
        have e2 : (f + 1) % 2 ^ 64 = f + 1 := Nat.mod_eq_of_lt (Nat.lt_trans hk' (by decide))
        have e3 : toI64 (f + 1) = Int.ofNat (f + 1) := by simp only [toI64, e2, hk', if_true]
        rw [e3]
        intro hc
        rcases hc with hc | hc
        · omega
        · have : (0 : Int) ≤ Int.ofNat (f + 1) := Int.natCast_nonneg _
          omega
      simp only [extOf, extraOf, hlen, Gen.Vm.witnessV0FrozenPeriodDataSize, if_true, makeNum_leBytes8 f hf, e, hnn,
        l1, l2, parse_sigPush full h1 h2, parse_redeem1 pk hpk, bind, Except.bind, pure, Except.pure, if_false]
    | bind t =>
      have ht : t.length = 20 ∨ t.length = 22 := hk
      have hn8 : ¬ t.length = Gen.Vm.witnessV0FrozenPeriodDataSize := by
        simp [Gen.Vm.witnessV0FrozenPeriodDataSize]; omega
      simp only [extOf, extraOf, hn8, ht, if_true, l1, l2, parse_sigPush full h1 h2, parse_redeem1 pk hpk, bind,
        Except.bind, pure, Except.pure, if_false]
  · simp only [hs, not_false_iff, if_true]

/-- the parsed pkScript of each template -/
def pkOps (h : Bytes) (k : Kind) : List Pop := [⟨0, []⟩, ⟨0x20, h⟩] ++ extOf k

theorem parse_pkScriptOf (h : Bytes) (hh : h.length = 32) (k : Kind) (hk : k.wf) :
    parse (pkScriptOf h k) = .ok (pkOps h k) := by
  cases k with
  | std => exact parse_wsh h hh
  | stk f => exact parse_staking h f hh
  | bind t => exact parse_binding h t hh hk

theorem pkScriptOf_length (h : Bytes) (hh : h.length = 32) (k : Kind) (hk : k.wf) :
    (pkScriptOf h k).length ≠ 0 ∧ ¬ (pkScriptOf h k).length > Gen.Script.maxScriptSize := by
  cases k with
  | std => simp [pkScriptOf, Spec.Script.wshScript, hh, Gen.Script.maxScriptSize]
  | stk f =>
    simp [pkScriptOf, Spec.Script.stakingScript, hh, Gen.Script.maxScriptSize, MW.Lemmas.ScriptBuild.leBytes_length]
  | bind t =>
    have ht : t.length = 20 ∨ t.length = 22 := hk
    simp [pkScriptOf, Spec.Script.bindingScript, hh, Gen.Script.maxScriptSize]; omega

theorem witInfo_pkOps (h : Bytes) (hh : h.length = 32) (k : Kind) (hk : k.wf) :
    witInfo (pkOps h k) = some ⟨0, h, extOf k⟩ := by
  cases k with
  | std => exact witInfo_pk2 h hh
  | stk f =>
    exact witInfo_pk3 h hh 8 _ (by decide) (Or.inl (MW.Lemmas.ScriptBuild.leBytes_length 8 f))
  | bind t =>
    have ht : t.length = 20 ∨ t.length = 22 := hk
    have hn : (UInt8.ofNat t.length).toNat = t.length := by
      simp [UInt8.toNat_ofNat']; omega
    exact witInfo_pk3 h hh _ t (by omega) (Or.inr ht)

theorem runScript_pkOps (h : Bytes) (hh : h.length = 32) (k : Kind) (hk : k.wf) :
    ∃ st : St, runScript P ctx true (pkOps h k) {} = .ok st ∧ (st.ds.length = 2 ∨ st.ds.length = 3) ∧
      st.as = [] ∧ st.cond = [] := by
  cases k with
  | std => exact ⟨_, runScript_pk2 P ctx true h hh, Or.inl rfl, rfl, rfl⟩
  | stk f =>
    refine ⟨_, runScript_pk3 P ctx true h hh 8 _ (by decide) (by decide) ?_, Or.inr rfl, rfl, rfl⟩
    rw [MW.Lemmas.ScriptBuild.leBytes_length]; decide
  | bind t =>
    have ht : t.length = 20 ∨ t.length = 22 := hk
    have hn : (UInt8.ofNat t.length).toNat = t.length := by
      simp [UInt8.toNat_ofNat']; omega
    exact ⟨_, runScript_pk3 P ctx true h hh _ t (by omega) (by omega) (by omega), Or.inr rfl, rfl, rfl⟩

theorem run_extra (k : Kind) (hk : k.wf) (pk full : Bytes) (hpk : pk.length = 33) (h1 : 1 ≤ full.length)
    (h2 : full.length ≤ 75) (n : Nat) (sub : List Pop) :
    (runScripts P ctx true (extraOf P ctx k ++ [[⟨UInt8.ofNat full.length, full⟩], redeemOps pk]) false
        ⟨[], [], [], n, sub⟩ >>= checkFinal) =
      (match prelude P ctx k with
       | .error e => .error e
       | .ok _ =>
         match sig1 P ctx true (redeemOps pk) pk full with
         | .error e => .error e
         | .ok b => if b then .ok () else .error .nullFail) := by
  cases k with
  | std => exact run_witness P ctx pk full hpk h1 h2 n sub
  | stk f => exact run_with_csv P ctx (f + 1) hk pk full hpk h1 h2 n sub
  | bind t =>
    by_cases hi : ctx.ip2 = true
    · simp only [extraOf, prelude, hi, if_true]
      exact run_with_csv P ctx _ (by decide) pk full hpk h1 h2 n sub
    · simp only [extraOf, prelude, hi, if_false, List.nil_append, Bool.false_eq_true]
      exact run_witness P ctx pk full hpk h1 h2 n sub

/-- THE VERDICT of the engine model on a template output spent with the 1-of-1 witness, in closed form -/
theorem verify_template (h pk full : Bytes) (k : Kind) (hh : h.length = 32) (hk : k.wf) (hpk : pk.length = 33)
    (h1 : 1 ≤ full.length) (h2 : full.length ≤ 75) :
    verify P ctx (pkScriptOf h k) [sigPush full, redeem1 pk] = verdict P ctx h pk full k := by
  obtain ⟨l0, l1⟩ := pkScriptOf_length h hh k hk
  obtain ⟨st, hst, hdepth, has, hcond⟩ := runScript_pkOps P ctx h hh k hk
  have hd : ¬ (st.ds.length ≠ 2 ∧ st.ds.length ≠ 3) := by omega
  unfold verify verdict
  simp only [l0, l1, if_false, parse_pkScriptOf h hh k hk, witInfo_pkOps h hh k hk, bind, Except.bind,
    beq_self_eq_true, hst, hd, verifyWitnessProgram_template P ctx h pk full k hk hpk h1 h2]
  by_cases hs : P.sha256 (redeem1 pk) = h
  · simp only [hs, ne_eq, not_true, if_false]
    have := run_extra P ctx k hk pk full hpk h1 h2 st.numOps st.sub
    simp only [bind, Except.bind] at this
    rw [show ({ st with ds := [] } : St) = ⟨[], [], [], st.numOps, st.sub⟩ from by
      cases st; simp_all]
    exact this
  · simp only [hs, ne_eq, not_false_iff, if_true]

/-! ### the verdict as a conjunction -/

theorem unparse_redeemOps (pk : Bytes) : unparse (redeemOps pk) = redeem1 pk := by
  simp [unparse, redeemOps, popBytes, redeem1]

/-- the signature part: what has to hold of the pushed `signature ‖ hash type` and of the key in the redeem script -/
def SigValid (pk full : Bytes) : Prop :=
  full ≠ [] ∧
  checkHashType (full.getLast?.getD 0).toNat = .ok () ∧
  checkSigEncoding full.dropLast = .ok () ∧
  isCompressed pk = true ∧
  ∃ s k, P.parseSig full.dropLast = some s ∧ P.parsePK pk = some k ∧
    P.verify k (ctx.sighash (redeem1 pk) (full.getLast?.getD 0).toNat) s = true

theorem checkPubKeyEncoding_wit_ok (pk : Bytes) : checkPubKeyEncoding true pk = .ok () ↔ isCompressed pk = true := by
  unfold checkPubKeyEncoding isCompressed
  by_cases h : (pk.length == 33 && (byteAt pk 0 == 2 || byteAt pk 0 == 3)) = true
  · simp [h]
  · simp [h]

theorem sig1_ok_iff (pk full : Bytes) :
    sig1 P ctx true (redeemOps pk) pk full = .ok true ↔ SigValid P ctx pk full := by
  unfold sig1 SigValid
  rw [unparse_redeemOps]
  by_cases he : full = []
  · simp [he]
  · have he' : full.isEmpty = false := by cases full <;> simp_all
    simp only [he', Bool.false_eq_true, if_false, ne_eq, he, not_false_iff, true_and]
    cases h1 : checkHashType (full.getLast?.getD 0).toNat with
    | error e => simp
    | ok u =>
      cases h2 : checkSigEncoding full.dropLast with
      | error e => simp
      | ok u2 =>
        simp only [true_and]
        cases h3 : P.parseSig full.dropLast with
        | none => simp
        | some s =>
          simp only []
          cases h4 : checkPubKeyEncoding true pk with
          | error e =>
            have : ¬ isCompressed pk = true := by
              intro hc; rw [(checkPubKeyEncoding_wit_ok pk).mpr hc] at h4; cases h4
            simp [this]
          | ok u3 =>
            have hc : isCompressed pk = true := (checkPubKeyEncoding_wit_ok pk).mp h4
            simp only [hc, true_and]
            cases h5 : P.parsePK pk with
            | none => simp
            | some k => simp

/-- the sequence rule `<lock> OP_CHECKSEQUENCEVERIFY` imposes on the input's sequence number -/
def SeqRule (seq lock : Nat) : Prop :=
  seq / Gen.Vm.sequenceLockTimeDisabled % 2 = 0 ∧
  (seqMasked seq < Gen.Vm.sequenceLockTimeIsSeconds ↔ seqMasked lock < Gen.Vm.sequenceLockTimeIsSeconds) ∧
  seqMasked lock ≤ seqMasked seq

theorem csvCheck_ok_iff (lock : Nat) : csvCheck P ctx lock = .ok () ↔ SeqRule ctx.seq lock := by
  unfold csvCheck SeqRule verifyLockTime
  by_cases h1 : ctx.seq / Gen.Vm.sequenceLockTimeDisabled % 2 = 1
  · simp [h1]
  · have h0 : ctx.seq / Gen.Vm.sequenceLockTimeDisabled % 2 = 0 := by omega
    simp only [h1, if_false, h0, true_and]
    by_cases ha : seqMasked ctx.seq < Gen.Vm.sequenceLockTimeIsSeconds <;>
      by_cases hb : seqMasked lock < Gen.Vm.sequenceLockTimeIsSeconds <;>
      by_cases hc : seqMasked lock > seqMasked ctx.seq <;>
      simp [ha, hb, hc] <;> omega

/-- the sequence condition of each template -/
def PreludeOk : Kind → Prop
  | .std => True
  | .stk f => SeqRule ctx.seq (f + 1)
  | .bind _ => ctx.ip2 = true → SeqRule ctx.seq Gen.Vm.bindingLockedPeriod

theorem prelude_ok_iff (k : Kind) : prelude P ctx k = .ok () ↔ PreludeOk P ctx k := by
  cases k with
  | std => simp [prelude, PreludeOk]
  | stk f => exact csvCheck_ok_iff P ctx _
  | bind t =>
    by_cases hi : ctx.ip2 = true
    · simp only [prelude, PreludeOk, hi, if_true, true_imp_iff]
      exact csvCheck_ok_iff P ctx _
    · simp [prelude, PreludeOk, hi]

theorem verdict_ok_iff (h pk full : Bytes) (k : Kind) :
    verdict P ctx h pk full k = .ok () ↔
      P.sha256 (redeem1 pk) = h ∧ PreludeOk P ctx k ∧ SigValid P ctx pk full := by
  rw [← prelude_ok_iff, ← sig1_ok_iff]
  unfold verdict
  by_cases hs : P.sha256 (redeem1 pk) = h
  · simp only [hs, ne_eq, not_true, if_false, true_and]
    cases prelude P ctx k with
    | error e => simp
    | ok u =>
      cases sig1 P ctx true (redeemOps pk) pk full with
      | error e => simp
      | ok b => cases b <;> simp
  · simp [hs]

end MW.Lemmas.ScriptVMMain
