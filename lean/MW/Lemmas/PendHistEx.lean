/-
  Non-vacuity of the C09 history theorem: a fresh wallet satisfies `HInv`, and a concrete history
    connect B1 ; recv T1 (pays the wallet) ; recv T2 (spends T1:0) ; node moves to G-B1-B2 ; connect B2 (confirms T1)
  is inside the domain `HOK` at every step (the decidable clauses by evaluation).
-/
import MW.Lemmas.PendHistRun
import MW.Lemmas.LedgerD2Ex
namespace MW.Lemmas.PendHist
open MW MW.Model.Ledger MW.Spec.Pending MW.Lemmas.LedgerPending MW.Lemmas.Ledger

def exC1 : Tx := ⟨"C1", true, [], [⟨"X1", 500, .std⟩]⟩
def exC2 : Tx := ⟨"C2", true, [], [⟨"X1", 100, .std⟩]⟩
def exT1 : Tx := ⟨"T1", false, [⟨"C1", 0, 0⟩], [⟨"A1", 10, .std⟩, ⟨"X1", 490, .std⟩]⟩
def exT2 : Tx := ⟨"T2", false, [⟨"T1", 0, 0⟩], [⟨"X2", 10, .std⟩]⟩
def exG : Block := ⟨"G", "", 0, []⟩
def exB1 : Block := ⟨"B1", "G", 1, [exC1]⟩
def exB2 : Block := ⟨"B2", "B1", 2, [exC2, exT1]⟩
def exKnown : AMap.T BlkId Block := [("G", exG), ("B1", exB1), ("B2", exB2)]
def exN1 : Node := { chain := [exG, exB1], known := exKnown }
def exN2 : Node := { chain := [exG, exB1, exB2], known := exKnown }
def exSrc (id : TxId) : Option Tx := [exC1, exC2, exT1, exT2].find? (fun t => t.id = id)
def exE : HEnv := { p := { cbMaturity := 1 }, own := d2Own, wallets := ["W1"], src := exSrc }
def exRankH : TxId → Nat | "T1" => 2 | "T2" => 3 | _ => 1
def exW0 : HW := { node := exN1, s := d2S0, v := {}, sp := { chain := [exG] } }
def exEvs : List HEv := [.connect exB1, .recv exT1, .recv exT2, .node exN2, .connect exB2]

theorem exFresh : FreshStore (exE.ctx exN1) d2S0 exG where
  credits := rfl
  unspent := rfl
  debits := rfl
  game := rfl
  txrecs := rfl
  blocks := rfl
  sync := rfl
  syncedTo := rfl
  balance := by
    intro w hw
    change (readyWallets d2S0 ["W1"]).contains w = true at hw
    rw [d2Ready0] at hw
    have : w = "W1" := by simpa using hw
    subst this
    rfl
  genesis := rfl

theorem exHInv0 : HInv exRankH exE exW0 where
  inv := inv_fresh exFresh
  ar := by show AllReady d2Own (readyWallets d2S0 ["W1"]); rw [d2Ready0]; exact d2AllReady
  ne := by decide
  rel := ⟨⟨fun _ _ h => (by cases h), fun _ _ h => (by obtain ⟨_, h, _⟩ := h; cases h), fun _ _ h => (by cases h),
    fun _ h => (by cases h), fun _ _ h => (by cases h)⟩, fun id t => ⟨fun h => (by cases h), fun h => (by cases h.1)⟩,
    List.nodup_nil⟩
  cons := fun _ h => by cases h
  sidx := fun _ h => by cases h
  nocb := fun _ h => by cases h
  relv := fun _ h => by cases h
  srcP := fun _ h => by cases h

/-- an `Option`-bounded universal statement from its decidable form -/
theorem forall_of_match {α : Type} {o : Option α} {Q : α → Prop}
    (h : match o with | some p => Q p | none => True) : ∀ p, o = some p → Q p := by
  intro p hp; subst hp; exact h

theorem get_none_of_fst {V : Type} (m : AMap.T (TxId × Nat) V) (id : TxId) (h : ∀ e ∈ m, e.1.1 ≠ id) (j : Nat) :
    AMap.get m (id, j) = none := by
  induction m with
  | nil => rfl
  | cons a m ih =>
    rw [AMap.get_cons]
    have h1 : ¬ a.1 = (id, j) := fun hc => h a List.mem_cons_self (by rw [hc])
    simp only [h1, if_false]
    exact ih (fun e he => h e (List.mem_cons_of_mem _ he))

def exW1 : HW := stepH exE exW0 (.connect exB1)
def exW2 : HW := stepH exE exW1 (.recv exT1)
def exW3 : HW := stepH exE exW2 (.recv exT2)
def exW4 : HW := stepH exE exW3 (.node exN2)

theorem exD1 : HOK exRankH exE exW0 (.connect exB1) :=
  ⟨⟨[], rfl⟩, (by decide), rfl,
    ⟨(by decide), (by decide), (by decide), fun _ _ _ h => (by cases h), (by decide)⟩,
    (by unfold SrcChain; decide)⟩

theorem exD2 : RecvDom exRankH exE exW1 exT1 where
  valid := by decide
  known := rfl
  srcN := by
    intro i hi
    have : i = ⟨"C1", 0, 0⟩ := by simpa [exT1] using hi
    subst this
    have h : exW1.node.fetchTx "C1" = some exC1 := by decide
    intro p hp; rw [h] at hp; cases hp <;> decide
  idx := by
    intro i hi
    have : i = ⟨"C1", 0, 0⟩ := by simpa [exT1] using hi
    subst this
    have h : exE.src "C1" = some exC1 := by decide
    intro p hp; rw [h] at hp; cases hp <;> decide
  rank := by decide
  nobb := by
    intro h
    have h2 : (match filterTxRel (exE.ctx exW1.node) exW1.s exT1 false [] (readyWallets exW1.s exE.wallets) with
      | .error .bothBinding => true | _ => false) = false := by decide
    rw [h] at h2; cases h2
  seen := by decide
  fresh := by decide
  noconf := by decide
  residue := by
    intro _ _ j
    exact get_none_of_fst _ _ (by decide) j

theorem exD3 : RecvDom exRankH exE exW2 exT2 where
  valid := by decide
  known := rfl
  srcN := by
    intro i hi
    have : i = ⟨"T1", 0, 0⟩ := by simpa [exT2] using hi
    subst this
    have h : exW2.node.fetchTx "T1" = none := by decide
    intro p hp; rw [h] at hp; cases hp <;> decide
  idx := by
    intro i hi
    have : i = ⟨"T1", 0, 0⟩ := by simpa [exT2] using hi
    subst this
    have h : exE.src "T1" = some exT1 := by decide
    intro p hp; rw [h] at hp; cases hp <;> decide
  rank := by decide
  nobb := by
    intro h
    have h2 : (match filterTxRel (exE.ctx exW2.node) exW2.s exT2 false [] (readyWallets exW2.s exE.wallets) with
      | .error .bothBinding => true | _ => false) = false := by decide
    rw [h] at h2; cases h2
  seen := by decide
  fresh := by decide
  noconf := by decide
  residue := by
    intro _ _ j
    exact get_none_of_fst _ _ (by decide) j

theorem exPend4 : exW4.sp.pend = [exT1, exT2] := by decide

theorem exD5 : HOK exRankH exE exW4 (.connect exB2) := by
  refine ⟨⟨[], rfl⟩, (by decide), rfl, ⟨(by decide), (by decide), (by decide), ?_, (by decide)⟩,
    (by unfold SrcChain; decide)⟩
  intro u hu t ht hid
  rw [exPend4] at ht
  have hu' : u = exC2 ∨ u = exT1 := by simpa [exB2] using hu
  have ht' : t = exT1 ∨ t = exT2 := by simpa using ht
  rcases hu' with rfl | rfl <;> rcases ht' with rfl | rfl <;> first | rfl | (exact absurd hid (by decide))

theorem exDomain : ∀ x ∈ worldsH exE exW0 exEvs, HOK exRankH exE x.1 x.2 := by
  intro x hx
  have : x = (exW0, .connect exB1) ∨ x = (exW1, .recv exT1) ∨ x = (exW2, .recv exT2) ∨
      x = (exW3, .node exN2) ∨ x = (exW4, .connect exB2) := by
    simpa [worldsH, exEvs, exW1, exW2, exW3, exW4] using hx
  rcases this with rfl | rfl | rfl | rfl | rfl
  · exact exD1
  · exact exD2
  · exact exD3
  · exact trivial
  · exact exD5

end MW.Lemmas.PendHist
