/-
  Lemmas about the byte order `blt` (bytes.Compare) and the sorted maps `SMap` of MW.Base.KvBytes.
-/
import MW.Base.KvBytes
namespace MW.KV

theorem u8_eq_of_not_lt {a b : UInt8} (h1 : ¬ a < b) (h2 : ¬ b < a) : a = b := by
  apply UInt8.toNat_inj.mp
  rw [UInt8.lt_iff_toNat_lt] at h1 h2
  omega

theorem blt_irrefl (a : Bytes) : blt a a = false := by
  induction a with
  | nil => rfl
  | cons x xs ih => simp [blt, UInt8.lt_irrefl, ih]

theorem blt_nil_right (a : Bytes) : blt a [] = false := by
  cases a <;> rfl

theorem blt_trans {a b c : Bytes} (h1 : blt a b = true) (h2 : blt b c = true) : blt a c = true := by
  induction a generalizing b c with
  | nil =>
    cases c with
    | nil => cases b <;> simp [blt] at h1 h2
    | cons z zs => rfl
  | cons x xs ih =>
    cases b with
    | nil => simp [blt] at h1
    | cons y ys =>
      cases c with
      | nil => simp [blt] at h2
      | cons z zs =>
        simp only [blt] at h1 h2 ⊢
        by_cases hxy : x < y
        · by_cases hyz : y < z
          · simp [UInt8.lt_trans hxy hyz]
          · by_cases hzy : z < y
            · simp [hyz, hzy] at h2
            · have : y = z := u8_eq_of_not_lt hyz hzy
              subst this; simp [hxy]
        · by_cases hyx : y < x
          · simp [hxy, hyx] at h1
          · have hxy' : x = y := u8_eq_of_not_lt hxy hyx
            subst hxy'
            simp only [UInt8.lt_irrefl, if_false] at h1
            by_cases hyz : x < z
            · simp [hyz]
            · by_cases hzy : z < x
              · simp [hyz, hzy] at h2
              · simp only [hyz, hzy, if_false] at h2 ⊢
                exact ih h1 h2

theorem blt_asymm {a b : Bytes} (h : blt a b = true) : blt b a = false := by
  cases hb : blt b a with
  | false => rfl
  | true => have := blt_trans h hb; rw [blt_irrefl] at this; cases this

/-- trichotomy: neither smaller means equal -/
theorem eq_of_not_blt {a b : Bytes} (h1 : blt a b = false) (h2 : blt b a = false) : a = b := by
  induction a generalizing b with
  | nil => cases b with
    | nil => rfl
    | cons y ys => simp [blt] at h1
  | cons x xs ih =>
    cases b with
    | nil => simp [blt] at h2
    | cons y ys =>
      simp only [blt] at h1 h2
      by_cases hxy : x < y
      · simp [hxy] at h1
      · by_cases hyx : y < x
        · simp [hyx] at h2
        · have : x = y := u8_eq_of_not_lt hxy hyx
          subst this
          simp only [UInt8.lt_irrefl, if_false] at h1 h2
          rw [ih h1 h2]

theorem blt_ne {a b : Bytes} (h : blt a b = true) : a ≠ b := by
  intro e; subst e; rw [blt_irrefl] at h; cases h

theorem ble_refl (a : Bytes) : ble a a = true := by simp [ble, blt_irrefl]

theorem ble_of_blt {a b : Bytes} (h : blt a b = true) : ble a b = true := by
  simp [ble, blt_asymm h]

theorem ble_iff {a b : Bytes} : ble a b = true ↔ (blt a b = true ∨ a = b) := by
  constructor
  · intro h
    simp only [ble, Bool.not_eq_eq_eq_not, Bool.not_true] at h
    cases hab : blt a b with
    | true => exact Or.inl rfl
    | false => exact Or.inr (eq_of_not_blt hab h)
  · rintro (h | h)
    · exact ble_of_blt h
    · subst h; exact ble_refl a

theorem blt_of_blt_of_ble {a b c : Bytes} (h1 : blt a b = true) (h2 : ble b c = true) : blt a c = true := by
  rcases ble_iff.mp h2 with h | h
  · exact blt_trans h1 h
  · subst h; exact h1

theorem blt_of_ble_of_blt {a b c : Bytes} (h1 : ble a b = true) (h2 : blt b c = true) : blt a c = true := by
  rcases ble_iff.mp h1 with h | h
  · exact blt_trans h h2
  · subst h; exact h2

theorem ble_trans {a b c : Bytes} (h1 : ble a b = true) (h2 : ble b c = true) : ble a c = true := by
  rcases ble_iff.mp h1 with h | h
  · exact ble_of_blt (blt_of_blt_of_ble h h2)
  · subst h; exact h2

theorem not_blt_iff_ble {a b : Bytes} : blt a b = false ↔ ble b a = true := by
  simp [ble]

theorem ble_total (a b : Bytes) : ble a b = true ∨ blt b a = true := by
  cases h : blt b a with
  | true => exact Or.inr rfl
  | false => exact Or.inl (by simp [ble, h])

/-- a common prefix does not change the order -/
theorem blt_append_left (p a b : Bytes) : blt (p ++ a) (p ++ b) = blt a b := by
  induction p with
  | nil => rfl
  | cons x xs ih => simp [blt, UInt8.lt_irrefl, ih]

theorem ble_append_left (p a b : Bytes) : ble (p ++ a) (p ++ b) = ble a b := by
  simp [ble, blt_append_left]

theorem ble_nil (a : Bytes) : ble [] a = true := by
  simp [ble, blt_nil_right]

theorem ble_prefix {p k : Bytes} (h : p <+: k) : ble p k = true := by
  obtain ⟨t, rfl⟩ := h
  have := ble_append_left p [] t
  rw [List.append_nil] at this
  rw [this]; exact ble_nil t

/-! ### SMap -/

namespace SMap
variable {α : Type}

/-- strictly ascending keys -/
def Sorted (m : SMap α) : Prop := m.Pairwise (fun a b => blt a.1 b.1 = true)

theorem sorted_nil : Sorted ([] : SMap α) := List.Pairwise.nil

@[simp] theorem get_nil (k : Bytes) : get ([] : SMap α) k = none := rfl
@[simp] theorem get_cons (k1 : Bytes) (v1 : α) (r : SMap α) (k : Bytes) :
    get ((k1, v1) :: r) k = if k = k1 then some v1 else get r k := rfl

theorem get_insert (m : SMap α) (k : Bytes) (v : α) (k' : Bytes) :
    get (insert m k v) k' = if k' = k then some v else get m k' := by
  induction m with
  | nil => simp [insert]
  | cons e r ih =>
    obtain ⟨k1, v1⟩ := e
    simp only [insert]
    by_cases h1 : blt k k1 = true
    · simp [h1]
    · simp only [h1]
      by_cases h2 : k = k1
      · subst h2
        by_cases h3 : k' = k <;> simp [h3]
      · simp only [h2, if_false, get_cons]
        by_cases h3 : k' = k1
        · subst h3
          have : ¬ k' = k := fun e => h2 e.symm
          simp [this]
        · simp [h3, ih]

theorem get_erase (m : SMap α) (k k' : Bytes) :
    get (erase m k) k' = if k' = k then none else get m k' := by
  induction m with
  | nil => simp [erase, get]
  | cons e r ih =>
    obtain ⟨k1, v1⟩ := e
    simp only [erase] at ih ⊢
    by_cases h1 : k1 = k
    · subst h1
      simp only [List.filter_cons, ne_eq, not_true_eq_false, decide_false]
      simp only [Bool.false_eq_true, if_false]
      rw [ih]
      by_cases h3 : k' = k1 <;> simp [h3, get]
    · simp only [List.filter_cons, ne_eq, h1, not_false_eq_true, decide_true, if_true, get, ih]
      by_cases h3 : k' = k1
      · subst h3; simp [h1]
      · simp [h3]

theorem mem_of_get {m : SMap α} {k : Bytes} {v : α} (h : get m k = some v) : (k, v) ∈ m := by
  induction m with
  | nil => simp [get] at h
  | cons e r ih =>
    obtain ⟨k1, v1⟩ := e
    simp only [get] at h
    by_cases h1 : k = k1
    · subst h1; simp at h; subst h; exact List.mem_cons_self
    · simp only [h1, if_false] at h
      exact List.mem_cons_of_mem _ (ih h)

theorem get_of_mem {m : SMap α} (hs : Sorted m) {k : Bytes} {v : α} (h : (k, v) ∈ m) : get m k = some v := by
  induction m with
  | nil => cases h
  | cons e r ih =>
    obtain ⟨k1, v1⟩ := e
    have hs' := List.pairwise_cons.mp hs
    simp only [get]
    rcases List.mem_cons.mp h with h | h
    · cases h; simp
    · have hlt := hs'.1 _ h
      have : k ≠ k1 := fun e => by subst e; simp [blt_irrefl] at hlt
      simp only [this, if_false]
      exact ih hs'.2 h

theorem get_eq_none_of_forall_ne {m : SMap α} {k : Bytes} (h : ∀ e ∈ m, e.1 ≠ k) : get m k = none := by
  induction m with
  | nil => rfl
  | cons e r ih =>
    obtain ⟨k1, v1⟩ := e
    have h1 : k ≠ k1 := fun e => h (k1, v1) List.mem_cons_self e.symm
    simp only [get, h1, if_false]
    exact ih (fun e he => h e (List.mem_cons_of_mem _ he))

theorem exists_mem_of_get_isSome {m : SMap α} {k : Bytes} (h : (get m k).isSome) : ∃ v, (k, v) ∈ m := by
  cases hg : get m k with
  | none => simp [hg] at h
  | some v => exact ⟨v, mem_of_get hg⟩

theorem mem_insert_sub {m : SMap α} {k : Bytes} {v : α} {e : Bytes × α} (h : e ∈ insert m k v) :
    e = (k, v) ∨ e ∈ m := by
  induction m with
  | nil => simp [insert] at h; exact Or.inl h
  | cons a r ih =>
    obtain ⟨k1, v1⟩ := a
    simp only [insert] at h
    by_cases h1 : blt k k1 = true
    · simp only [h1, if_true, List.mem_cons] at h
      rcases h with h | h | h
      · exact Or.inl h
      · exact Or.inr (by rw [h]; exact List.mem_cons_self)
      · exact Or.inr (List.mem_cons_of_mem _ h)
    · simp only [h1] at h
      by_cases h2 : k = k1
      · simp only [h2, if_true, List.mem_cons, Bool.false_eq_true, if_false] at h
        rcases h with h | h
        · exact Or.inl (by rw [h, h2])
        · exact Or.inr (List.mem_cons_of_mem _ h)
      · simp only [h2, if_false, List.mem_cons, Bool.false_eq_true] at h
        rcases h with h | h
        · exact Or.inr (by rw [h]; exact List.mem_cons_self)
        · rcases ih h with h | h
          · exact Or.inl h
          · exact Or.inr (List.mem_cons_of_mem _ h)

theorem insert_sorted {m : SMap α} (hs : Sorted m) (k : Bytes) (v : α) : Sorted (insert m k v) := by
  induction m with
  | nil => simp [insert, Sorted]
  | cons a r ih =>
    obtain ⟨k1, v1⟩ := a
    have hs' := List.pairwise_cons.mp hs
    simp only [insert]
    by_cases h1 : blt k k1 = true
    · simp only [h1, if_true]
      refine List.pairwise_cons.mpr ⟨?_, hs⟩
      intro e he
      rcases List.mem_cons.mp he with he | he
      · rw [he]; exact h1
      · exact blt_trans h1 (hs'.1 e he)
    · simp only [h1]
      by_cases h2 : k = k1
      · subst h2
        simp only [if_true, Bool.false_eq_true, if_false]
        exact List.pairwise_cons.mpr ⟨hs'.1, hs'.2⟩
      · simp only [h2, if_false, Bool.false_eq_true]
        refine List.pairwise_cons.mpr ⟨?_, ih hs'.2⟩
        intro e he
        rcases mem_insert_sub he with he | he
        · rw [he]
          have hb : blt k k1 = false := by simpa using h1
          cases h3 : blt k1 k with
          | true => rfl
          | false => exact absurd (eq_of_not_blt hb h3) h2
        · exact hs'.1 e he

theorem erase_sorted {m : SMap α} (hs : Sorted m) (k : Bytes) : Sorted (erase m k) :=
  List.Pairwise.filter _ hs

theorem range_sorted {m : SMap α} (hs : Sorted m) (s : Bytes) (l : Option Bytes) : Sorted (range m s l) :=
  List.Pairwise.filter _ hs

/-- two strictly ascending maps with the same lookups are the same list -/
theorem ext_of_sorted {m1 m2 : SMap α} (h1 : Sorted m1) (h2 : Sorted m2)
    (h : ∀ k, get m1 k = get m2 k) : m1 = m2 := by
  induction m1 generalizing m2 with
  | nil =>
    cases m2 with
    | nil => rfl
    | cons b r2 =>
      obtain ⟨kb, vb⟩ := b
      have := h kb
      simp at this
  | cons a r1 ih =>
    obtain ⟨ka, va⟩ := a
    cases m2 with
    | nil => have := h ka; simp at this
    | cons b r2 =>
      obtain ⟨kb, vb⟩ := b
      have s1 := List.pairwise_cons.mp h1
      have s2 := List.pairwise_cons.mp h2
      -- the heads carry the same key
      have hk : ka = kb := by
        by_cases hab : blt ka kb = true
        · -- ka is below every key of m2, yet m2 must contain it
          have := h ka
          simp only [get_cons, if_true] at this
          have hne : ka ≠ kb := blt_ne hab
          simp only [hne, if_false] at this
          have hm := mem_of_get this.symm
          have := blt_trans hab (s2.1 _ hm)
          simp [blt_irrefl] at this
        · by_cases hba : blt kb ka = true
          · have := h kb
            simp only [get_cons, if_true] at this
            have hne : kb ≠ ka := blt_ne hba
            simp only [hne, if_false] at this
            have hm := mem_of_get this
            have := blt_trans hba (s1.1 _ hm)
            simp [blt_irrefl] at this
          · exact eq_of_not_blt (by simpa using hab) (by simpa using hba)
      subst hk
      have hv : va = vb := by
        have := h ka
        simpa using this
      subst hv
      congr 1
      apply ih s1.2 s2.2
      intro k
      have := h k
      simp only [get_cons] at this
      by_cases hk : k = ka
      · subst hk
        rw [get_eq_none_of_forall_ne (fun e he => (blt_ne (s1.1 e he)).symm),
            get_eq_none_of_forall_ne (fun e he => (blt_ne (s2.1 e he)).symm)]
      · simpa [hk] using this

theorem mem_range {m : SMap α} {s : Bytes} {l : Option Bytes} {e : Bytes × α} :
    e ∈ range m s l ↔ e ∈ m ∧ ble s e.1 = true ∧ (match l with | none => True | some l => blt e.1 l = true) := by
  simp only [range, List.mem_filter, Bool.and_eq_true]
  cases l <;> simp

end SMap
end MW.KV
