/-
  The global invariant of the books (`Glob`, LedgerValid.lean) holds for the books of every valid chain:
    glob_nil, glob_step, glob_fold, glob_bookOf
  and what it says about one more valid transaction (glob_lookup_src, glob_lookup_none, glob_fresh).
-/
import MW.Lemmas.LedgerGlob
namespace MW.Lemmas.Ledger
open MW MW.Model.Ledger MW.Spec.Chain MW.Spec.Books

-- ------------------------------------------------------------------ lists of occurrences

theorem idsOf_append (P Q : List Occ) : idsOf (P ++ Q) = idsOf P ++ idsOf Q := by
  unfold idsOf; exact List.map_append

theorem mem_idsOf_snoc {P : List Occ} {oc : Occ} {x : TxId} :
    x ∈ idsOf (P ++ [oc]) ↔ (x ∈ idsOf P ∨ x = oc.t.id) := by
  rw [idsOf_append]; simp [idsOf]

theorem spentOps_snoc (P : List Occ) (oc : Occ) :
    spentOps (P ++ [oc]) = spentOps P ++ (if oc.t.cb then [] else oc.t.ins.map opOf) := by
  unfold spentOps; simp

theorem mem_spentOps_snoc {P : List Occ} {oc : Occ} {op : TxId × Nat} :
    op ∈ spentOps (P ++ [oc]) ↔ (op ∈ spentOps P ∨ (oc.t.cb = false ∧ op ∈ oc.t.ins.map opOf)) := by
  rw [spentOps_snoc, List.mem_append]
  by_cases h : oc.t.cb = true
  · simp [h]
  · simp [h]

theorem srcOut_some_find {P : List Occ} {tx : TxId} {idx : Nat} {o : Out} (h : srcOut P tx idx = some o) :
    ∃ oc ∈ P, oc.t.id = tx ∧ oc.t.outs[idx]? = some o := by
  unfold srcOut at h
  cases hf : P.find? (fun oc => oc.t.id = tx) with
  | none => rw [hf] at h; cases h
  | some oc =>
    rw [hf] at h
    refine ⟨oc, List.mem_of_find?_eq_some hf, ?_, h⟩
    simpa using List.find?_some hf

theorem srcOut_isSome_mem {P : List Occ} {tx : TxId} {idx : Nat} (h : (srcOut P tx idx).isSome = true) :
    tx ∈ idsOf P := by
  obtain ⟨o, ho⟩ := Option.isSome_iff_exists.1 h
  obtain ⟨oc, hoc, hid, _⟩ := srcOut_some_find ho
  exact List.mem_map.2 ⟨oc, hoc, hid⟩

/-- with pairwise distinct ids, `find?` by id returns THE transaction with that id -/
theorem find_of_mem_nodup {P : List Occ} (hn : (idsOf P).Nodup) {oc : Occ} (hm : oc ∈ P) :
    P.find? (fun oc' => oc'.t.id = oc.t.id) = some oc := by
  induction P with
  | nil => cases hm
  | cons a P ih =>
    unfold idsOf at hn
    simp only [List.map_cons, List.nodup_cons] at hn
    rw [List.find?_cons]
    rcases List.mem_cons.1 hm with h1 | h1
    · subst h1; simp
    · have hne : ¬ a.t.id = oc.t.id := by
        intro he; apply hn.1; rw [he]; exact List.mem_map.2 ⟨oc, h1, rfl⟩
      simp only [hne, decide_false]
      exact ih hn.2 h1

theorem srcOut_of_mem_nodup {P : List Occ} (hn : (idsOf P).Nodup) {oc : Occ} (hm : oc ∈ P) (idx : Nat) :
    srcOut P oc.t.id idx = oc.t.outs[idx]? := by
  unfold srcOut; rw [find_of_mem_nodup hn hm]; rfl

theorem createdIn_ids {own : Own} {P : List Occ} {u : UCoin} (h : CreatedIn own P u) : u.tx ∈ idsOf P := by
  obtain ⟨oc, hoc, hid, _⟩ := h
  exact List.mem_map.2 ⟨oc, hoc, hid⟩

theorem createdIn_snoc {own : Own} {P : List Occ} {oc : Occ} {u : UCoin} :
    CreatedIn own (P ++ [oc]) u ↔
      (CreatedIn own P u ∨ (oc.t.id = u.tx ∧ oc.t.outs[u.idx]? = some u.out ∧
        ownerOf own u.out = some (u.wallet, u.change) ∧ u.blk = oc.bm ∧ u.cb = oc.t.cb)) := by
  unfold CreatedIn
  constructor
  · rintro ⟨oc', hm, h⟩
    rcases List.mem_append.1 hm with h1 | h1
    · exact Or.inl ⟨oc', h1, h⟩
    · rw [List.mem_singleton.1 h1] at h; exact Or.inr h
  · rintro (⟨oc', hm, h⟩ | h)
    · exact ⟨oc', List.mem_append_left _ hm, h⟩
    · exact ⟨oc, List.mem_append_right _ (List.mem_singleton.2 rfl), h⟩

-- ------------------------------------------------------------------ Glob: base and step

theorem glob_nil (own : Own) : Glob own [] {} where
  mem := by
    intro u
    constructor
    · intro h; cases h
    · rintro ⟨⟨oc, hoc, _⟩, _⟩; cases hoc
  credAll := by intro oc hoc; cases hoc
  credIds := by intro ck h; cases h
  txrecIds := by intro k h; cases h
  idsNodup := List.nodup_nil
  spentIds := by intro op h; cases h

/-- inputs of a valid non-coinbase refer to earlier transactions only -/
theorem occValid_ins_ids {own : Own} {P : List Occ} {oc : Occ} (hV : OccValid own P oc) (hcb : oc.t.cb = false)
    {op : TxId × Nat} (h : op ∈ oc.t.ins.map opOf) : op.1 ∈ idsOf P := by
  obtain ⟨i, hi, rfl⟩ := List.mem_map.1 h
  exact srcOut_isSome_mem (hV.2.1 hcb i hi)

theorem glob_step {p : Params} {own : Own} {P : List Occ} {B : Book} {oc : Occ}
    (hG : Glob own P B) (hV : OccValid own P oc) : Glob own (P ++ [oc]) (applyOcc p own B oc) := by
  have hfresh : oc.t.id ∉ idsOf P := hV.1
  -- credits of the new books: old ones stay, new ones only at old ledger entries or at outputs of `oc.t`
  have hcredMono : ∀ ck, (B.credits ck).isSome = true → ((applyOcc p own B oc).credits ck).isSome = true := by
    intro ck h
    rw [applyOcc_eq, (depositFold_same ..).2.1, createFold_credits]
    left
    apply spendStep_credits_mono
    rw [recStep_credits]; exact h
  constructor
  · -- mem
    intro u
    rw [applyOcc_L, List.mem_append, mem_created_iff, createdIn_snoc, mem_spentOps_snoc]
    constructor
    · rintro (h | h)
      · by_cases hcb : oc.t.cb = true
        · simp only [hcb, if_true] at h
          obtain ⟨h1, h2⟩ := (hG.mem u).1 h
          refine ⟨Or.inl h1, ?_⟩
          rintro (h3 | ⟨h3, _⟩)
          · exact h2 h3
          · rw [hcb] at h3; cases h3
        · simp only [hcb] at h
          obtain ⟨hm, hf⟩ := List.mem_filter.1 h
          obtain ⟨h1, h2⟩ := (hG.mem u).1 hm
          refine ⟨Or.inl h1, ?_⟩
          rintro (h3 | ⟨_, h3⟩)
          · exact h2 h3
          · have := (at_any_iff oc.t.ins u).2 h3
            rw [this] at hf; cases hf
      · obtain ⟨h2, hget, h1, h4, h5⟩ := h
        refine ⟨Or.inr ⟨h2.symm, hget, h1, h4, h5⟩, ?_⟩
        rintro (h3 | ⟨hcb, h3⟩)
        · have := hG.spentIds _ h3
          simp only at this
          rw [h2] at this; exact hfresh this
        · have := occValid_ins_ids hV hcb h3
          simp only at this
          rw [h2] at this; exact hfresh this
    · rintro ⟨hc | hc, hns⟩
      · left
        have hm : u ∈ B.L := (hG.mem u).2 ⟨hc, fun h => hns (Or.inl h)⟩
        by_cases hcb : oc.t.cb = true
        · simp only [hcb, if_true]; exact hm
        · simp only [hcb]
          apply List.mem_filter.2 ⟨hm, ?_⟩
          have : ¬ (oc.t.ins.any (fun i => UCoin.at i.tx i.idx u)) = true := by
            intro h
            exact hns (Or.inr ⟨by simpa using hcb, (at_any_iff _ _).1 h⟩)
          simpa using this
      · right
        obtain ⟨h2, hget, h1, h4, h5⟩ := hc
        exact ⟨h2.symm, hget, h1, h4, h5⟩
  · -- credAll
    intro oc' hm j o hget hown
    rcases List.mem_append.1 hm with h1 | h1
    · exact hcredMono _ (hG.credAll oc' h1 j o hget hown)
    · rw [List.mem_singleton.1 h1] at hget ⊢
      rw [applyOcc_eq, (depositFold_same ..).2.1, createFold_credits]
      right
      exact ⟨(o, j), List.mem_zipIdx_iff_getElem?.2 hget, hown, rfl⟩
  · -- credIds
    intro ck h
    rw [applyOcc_eq, (depositFold_same ..).2.1, createFold_credits] at h
    rw [mem_idsOf_snoc]
    rcases h with h | ⟨om, _, _, hk⟩
    · left
      rcases spendStep_credits_back _ _ _ _ h with h1 | ⟨u, hu, hk⟩
      · rw [recStep_credits] at h1; exact hG.credIds ck h1
      · rw [recStep_L] at hu
        rw [hk]
        exact createdIn_ids ((hG.mem u).1 hu).1
    · right; rw [hk]
  · -- txrecIds
    intro k h
    rw [applyOcc_eq, (depositFold_same ..).2.2, createFold_txrecs, spendStep_txrecs] at h
    rw [mem_idsOf_snoc]
    rcases recStep_txrecs _ _ _ _ h with h1 | h1
    · exact Or.inl (hG.txrecIds k h1)
    · right; rw [h1]
  · -- idsNodup
    rw [idsOf_append, List.nodup_append]
    refine ⟨hG.idsNodup, by simp [idsOf], ?_⟩
    intro a ha b hb
    simp only [idsOf, List.map_cons, List.map_nil, List.mem_singleton] at hb
    rw [hb]; intro he; rw [he] at ha; exact hfresh ha
  · -- spentIds
    intro op h
    rw [mem_idsOf_snoc]
    left
    rcases mem_spentOps_snoc.1 h with h1 | ⟨hcb, h1⟩
    · exact hG.spentIds op h1
    · exact occValid_ins_ids hV hcb h1

-- ------------------------------------------------------------------ Glob along a chain

theorem validFrom_append {own : Own} {P a b : List Occ} :
    ValidFrom own P (a ++ b) ↔ (ValidFrom own P a ∧ ValidFrom own (P ++ a) b) := by
  induction a generalizing P with
  | nil => simp [ValidFrom]
  | cons x a ih =>
    simp only [List.cons_append, ValidFrom]
    rw [ih, and_assoc]
    simp only [List.append_assoc, List.cons_append, List.nil_append]

theorem glob_fold {p : Params} {own : Own} {P : List Occ} {B : Book} {rest : List Occ} :
    Glob own P B → ValidFrom own P rest → Glob own (P ++ rest) (rest.foldl (applyOcc p own) B) := by
  induction rest generalizing P B with
  | nil => intro hG _; simpa using hG
  | cons oc rest ih =>
    intro hG hV
    obtain ⟨h1, h2⟩ := hV
    have := ih (glob_step (p := p) hG h1) h2
    simpa [List.append_assoc] using this

theorem glob_bookOf {p : Params} {own : Own} {chain : List Block} :
    ChainValid own chain → Glob own (occs chain) (bookOf p own chain) := by
  intro h
  have := glob_fold (p := p) (glob_nil own) h
  unfold bookOf
  simpa using this

theorem occs_append (a b : List Block) : occs (a ++ b) = occs a ++ occs b := by
  unfold occs; exact List.flatMap_append

theorem chainValid_prefix {own : Own} {a b : List Block} : ChainValid own (a ++ b) → ChainValid own a := by
  unfold ChainValid
  rw [occs_append, validFrom_append]
  exact fun h => h.1

-- ------------------------------------------------------------------ consequences for one more transaction

/-- general form: a ledger entry is the owned output `srcOut` finds -/
theorem glob_lookup_src' {own : Own} {P : List Occ} {B : Book} (hG : Glob own P B) {tx : TxId} {idx : Nat}
    {u : UCoin} (h : lookupU B.L tx idx = some u) :
    srcOut P tx idx = some u.out ∧ ownerOf own u.out = some (u.wallet, u.change) := by
  obtain ⟨hm, htx, hidx⟩ := lookupU_some h
  obtain ⟨⟨oc', hoc', hid, hget, hown, _⟩, _⟩ := (hG.mem u).1 hm
  refine ⟨?_, hown⟩
  rw [← htx, ← hidx, ← hid, srcOut_of_mem_nodup hG.idsNodup hoc']
  exact hget

set_option linter.unusedVariables false in
theorem glob_lookup_src {own : Own} {P : List Occ} {B : Book} {oc : Occ} (hG : Glob own P B)
    (hV : OccValid own P oc) (hcb : oc.t.cb = false) {i : Inp} (hi : i ∈ oc.t.ins) {u : UCoin}
    (hu : lookupU B.L i.tx i.idx = some u) :
    srcOut P i.tx i.idx = some u.out ∧ ownerOf own u.out = some (u.wallet, u.change) :=
  glob_lookup_src' hG hu

/-- general form: an outpoint that no transaction of `P` spends and that is not in the ledger is not owned -/
theorem glob_lookup_none' {own : Own} {P : List Occ} {B : Book} (hG : Glob own P B) {tx : TxId} {idx : Nat}
    (hns : (tx, idx) ∉ spentOps P) (h : lookupU B.L tx idx = none) :
    ∀ o, srcOut P tx idx = some o → ownerOf own o = none := by
  intro o ho
  cases hown : ownerOf own o with
  | none => rfl
  | some wc =>
    exfalso
    obtain ⟨w, ch⟩ := wc
    obtain ⟨oc', hoc', hid, hget⟩ := srcOut_some_find ho
    have hm : (⟨w, tx, idx, oc'.bm, oc'.t.cb, o, ch⟩ : UCoin) ∈ B.L :=
      (hG.mem _).2 ⟨⟨oc', hoc', hid, hget, hown, rfl, rfl⟩, hns⟩
    exact lookupU_none h _ hm ⟨rfl, rfl⟩

theorem glob_lookup_none {own : Own} {P : List Occ} {B : Book} {oc : Occ} (hG : Glob own P B)
    (hV : OccValid own P oc) (hcb : oc.t.cb = false) {i : Inp} (hi : i ∈ oc.t.ins)
    (hu : lookupU B.L i.tx i.idx = none) :
    ∀ o, srcOut P i.tx i.idx = some o → ownerOf own o = none :=
  glob_lookup_none' hG (hV.2.2.2.1 hcb i hi) hu

/-- general form: nothing in the books mentions a transaction id that is not in `P` -/
theorem glob_fresh' {own : Own} {P : List Occ} {B : Book} (hG : Glob own P B) {tx : TxId} (hf : tx ∉ idsOf P)
    (bm : BlockMeta) (j : Nat) :
    B.credits ⟨tx, bm, j⟩ = none ∧ lookupU B.L tx j = none ∧ B.txrecs (tx, bm) = none := by
  refine ⟨?_, ?_, ?_⟩
  · cases h : B.credits ⟨tx, bm, j⟩ with
    | none => rfl
    | some c => exact absurd (hG.credIds ⟨tx, bm, j⟩ (by rw [h]; rfl)) hf
  · cases h : lookupU B.L tx j with
    | none => rfl
    | some u =>
      obtain ⟨hm, htx, _⟩ := lookupU_some h
      have := createdIn_ids ((hG.mem u).1 hm).1
      rw [htx] at this; exact absurd this hf
  · cases h : B.txrecs (tx, bm) with
    | none => rfl
    | some c => exact absurd (hG.txrecIds (tx, bm) (by rw [h]; rfl)) hf

/-- no `cb` hypothesis: holds for coinbases too -/
theorem glob_fresh {own : Own} {P : List Occ} {B : Book} {oc : Occ} (hG : Glob own P B)
    (hV : OccValid own P oc) : ∀ (bm : BlockMeta) (j : Nat),
    B.credits ⟨oc.t.id, bm, j⟩ = none ∧ lookupU B.L oc.t.id j = none ∧ B.txrecs (oc.t.id, bm) = none :=
  fun bm j => glob_fresh' hG hV.1 bm j

set_option linter.unusedVariables false in
/-- plain unfolding of `srcOut` / `find?` -/
theorem glob_src_in_ids {own : Own} {P : List Occ} {B : Book} (hG : Glob own P B) {tx : TxId} {idx : Nat}
    {o : Out} (h : srcOut P tx idx = some o) : ∃ oc0 ∈ P, oc0.t.id = tx ∧ oc0.t.outs[idx]? = some o :=
  srcOut_some_find h

/-- `Glob.credAll`, restated -/
theorem glob_credit_of_src {own : Own} {P : List Occ} {B : Book} (hG : Glob own P B) {oc0 : Occ} (h0 : oc0 ∈ P)
    {idx : Nat} {o : Out} (ho : oc0.t.outs[idx]? = some o) (hown : (ownerOf own o).isSome = true) :
    (B.credits ⟨oc0.t.id, oc0.bm, idx⟩).isSome = true :=
  hG.credAll oc0 h0 idx o ho hown

-- ------------------------------------------------------------------ non-vacuity

/-- wallet "w1" holds address "a1" (external) and "a2" (change) -/
def exOwn : Own := [("a1", ("w1", false)), ("a2", ("w1", true))]

/-- block 1: a coinbase paying "a1"; block 2: a coinbase to a foreign address and a transaction spending
    the first coinbase output to a foreign address with change back to "a2" -/
def exChain : List Block :=
  [ ⟨"b1", "G", 1, [⟨"c1", true, [⟨"", 0, 0⟩], [⟨"a1", 50, .std⟩]⟩]⟩,
    ⟨"b2", "b1", 2, [⟨"c2", true, [⟨"", 0, 0⟩], [⟨"x", 50, .std⟩]⟩,
                     ⟨"t1", false, [⟨"c1", 0, 0⟩], [⟨"y", 20, .std⟩, ⟨"a2", 30, .std⟩]⟩]⟩ ]

example : ChainValid exOwn exChain := by decide

example : ledgerOf exOwn exChain = [⟨"w1", "t1", 1, 30, 2, false, .std, "a2"⟩] := by decide

end MW.Lemmas.Ledger
