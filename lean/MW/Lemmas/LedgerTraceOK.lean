/-
  C01 / LedBytes Round 7 — EVERY primitive call of a handler step satisfies `PdInv` / `PfInv`
  (`processOK_of_J`).  The disconnect phase needs only counting (the store always holds a prefix of the wallet's
  chain `S`), the connect phase one hash argument (a block that passes the first check of filterBlock and points at
  the tip of the stored prefix `T` of the node's chain IS the next block of the node's chain).
-/
import MW.Lemmas.LedgerTraceDefs
namespace MW.Lemmas.Ledger.Trace
open MW MW.Model.Ledger MW.Spec.Chain MW.Spec.Books MW.Lemmas.Ledger

-- ------------------------------------------------------------------ linking facts

/-- a list of blocks of the block files, each pointing at the one before -/
def Chained (c : Ctx) (l : List Block) : Prop :=
  (∀ x ∈ l, AMap.get c.node.known x.id = some x) ∧ Linked l

theorem Chained.cons {c : Ctx} {pb nb : Block} {tc : List Block} (h : Chained c (nb :: tc))
    (hk : AMap.get c.node.known pb.id = some pb) (hp : nb.prev = pb.id) : Chained c (pb :: nb :: tc) := by
  refine ⟨fun x hx => ?_, fun i x y hx hy => ?_⟩
  · rcases List.mem_cons.1 hx with rfl | hx
    · exact hk
    · exact h.1 x hx
  · cases i with
    | zero =>
      simp only [List.getElem?_cons_zero, Option.some.injEq] at hx
      simp only [Nat.zero_add, List.getElem?_cons_succ, List.getElem?_cons_zero, Option.some.injEq] at hy
      subst hx; subst hy; exact hp
    | succ i =>
      rw [List.getElem?_cons_succ] at hx hy
      exact h.2 i x y hx hy

theorem Chained.single {c : Ctx} {b : Block} (hk : AMap.get c.node.known b.id = some b) : Chained c [b] := by
  refine ⟨fun x hx => ?_, fun i x y hx hy => ?_⟩
  · rw [List.mem_singleton.1 hx]; exact hk
  · simp at hy

theorem Chained.tail {c : Ctx} {b : Block} {rest : List Block} (h : Chained c (b :: rest)) :
    Chained c rest ∧ ∀ y, rest.head? = some y → y.prev = b.id := by
  refine ⟨⟨fun x hx => h.1 x (List.mem_cons_of_mem _ hx), fun i x y hx hy => ?_⟩, fun y hy => ?_⟩
  · exact h.2 (i + 1) x y (by rw [List.getElem?_cons_succ]; exact hx) (by rw [List.getElem?_cons_succ]; exact hy)
  · cases rest with
    | nil => cases hy
    | cons z r =>
      simp only [List.head?_cons, Option.some.injEq] at hy
      subst hy
      exact h.2 0 b z rfl rfl

theorem fetchBlock_some {n : Node} {id : BlkId} {pb : Block} (h : n.fetchBlock id = some pb) :
    pb ∈ n.chain ∧ pb.id = id := by
  unfold Node.fetchBlock at h
  exact ⟨List.mem_of_find?_eq_some h, by simpa using List.find?_some h⟩

/-- reorg step 1 keeps the linking facts -/
theorem alignNew_chained {c : Ctx} (hNk : ∀ x ∈ c.node.chain, AMap.get c.node.known x.id = some x) (curH : Nat) :
    ∀ (fuel : Nat) (nb : Block) (tc : List Block) (a : Block × List Block),
      Chained c (nb :: tc) → alignNew c curH fuel nb tc = .ok a → Chained c (a.1 :: a.2) := by
  intro fuel
  induction fuel with
  | zero =>
    intro nb tc a h ha
    simp only [alignNew, M_pure_eq, Except.ok.injEq] at ha
    subst ha; exact h
  | succ fuel ih =>
    intro nb tc a h ha
    unfold alignNew at ha
    by_cases hlt : curH < nb.height
    · simp only [hlt, if_true] at ha
      cases hf : c.node.fetchBlock nb.prev with
      | none => rw [hf] at ha; cases ha
      | some pb =>
        rw [hf] at ha
        obtain ⟨hm, hid⟩ := fetchBlock_some hf
        exact ih pb (nb :: tc) a (h.cons (hNk pb hm) hid.symm) ha
    · simp only [hlt, if_false, M_pure_eq, Except.ok.injEq] at ha
      subst ha; exact h

-- ------------------------------------------------------------------ 1. disconnectDown

/-- the condition at a disconnect call at height `k ≥ 1` from a store holding `S` up to `k` -/
theorem pdInv_at {c : Ctx} {S : List Block} (H : ReorgHyp c S) (hBS : ChainBounds c.p c.own S) {s : Store} {k : Nat}
    (hk : 0 < k) (hkl : k < S.length) (hI : Inv c s (S.take (k + 1)))
    (hAR : AllReady c.own (readyWallets s c.wallets)) : PdInv c s k := by
  have hx : S[k]? = some S[k] := List.getElem?_eq_getElem hkl
  have e := take_succ_of_get hx
  have hne : S.take k ≠ [] := by
    intro h0
    have := congrArg List.length h0
    rw [List.length_take, List.length_nil] at this
    omega
  exact Or.inr ⟨S.take k, S[k], by rw [← e]; exact hI, hne, H.goodS.height_at hx,
    by rw [← e]; exact chainValid_take H.validS _, by rw [← e]; exact heightsOK_take H.goodS.heights _,
    H.known _ (mem_of_get hx), hAR, by rw [← e]; exact hBS.take _⟩

theorem discDownOK_of {c : Ctx} {S : List Block} (H : ReorgHyp c S) (hBS : ChainBounds c.p c.own S) (nbH : Nat) :
    ∀ (fuel : Nat) (s : Store) (curH : Nat), Inv c s (S.take (curH + 1)) → curH < S.length →
      AllReady c.own (readyWallets s c.wallets) → discDownOK c (PdInv c) nbH fuel s curH := by
  intro fuel
  induction fuel with
  | zero => intro s curH _ _ _; trivial
  | succ fuel ih =>
    intro s curH hI hlen hAR
    unfold discDownOK
    intro hgt
    refine ⟨pdInv_at H hBS (by omega) hlen hI hAR, fun s' hs' => ?_⟩
    obtain ⟨s1, h1, hI1, hr1⟩ := disconnect_step H (k := curH) (by omega) hlen hI hAR
    rw [h1] at hs'
    injection hs' with hs'
    subst hs'
    exact ih s1 (curH - 1) (by rw [show curH - 1 + 1 = curH by omega]; exact hI1) (by omega)
      (by rw [hr1]; exact hAR)

/-- what `disconnectDown` returns (no assumption on `nbH`) -/
theorem disconnectDown_res {c : Ctx} {S : List Block} (H : ReorgHyp c S) (nbH : Nat) :
    ∀ (fuel : Nat) (s : Store) (curH : Nat) (rolled : List Nat) (x : Store × Nat × List Nat),
      Inv c s (S.take (curH + 1)) → curH < S.length → AllReady c.own (readyWallets s c.wallets) →
      disconnectDown c nbH fuel s curH rolled = .ok x →
      Inv c x.1 (S.take (x.2.1 + 1)) ∧ x.2.1 < S.length ∧ x.2.1 ≤ curH ∧
        ∀ ws, readyWallets x.1 ws = readyWallets s ws := by
  intro fuel
  induction fuel with
  | zero =>
    intro s curH rolled x hI hlen _ hx
    simp only [disconnectDown, M_pure_eq, Except.ok.injEq] at hx
    subst hx
    exact ⟨hI, hlen, Nat.le_refl _, fun _ => rfl⟩
  | succ fuel ih =>
    intro s curH rolled x hI hlen hAR hx
    unfold disconnectDown at hx
    by_cases hgt : curH > nbH
    · simp only [hgt, if_true] at hx
      obtain ⟨s1, h1, hI1, hr1⟩ := disconnect_step H (k := curH) (by omega) hlen hI hAR
      rw [h1] at hx
      simp only [M_ok_bind] at hx
      obtain ⟨h2, h3, h4, h5⟩ := ih s1 (curH - 1) _ x
        (by rw [show curH - 1 + 1 = curH by omega]; exact hI1) (by omega) (by rw [hr1]; exact hAR) hx
      exact ⟨h2, h3, by omega, fun ws => (h5 ws).trans (hr1 ws)⟩
    · simp only [hgt, if_false, M_pure_eq, Except.ok.injEq] at hx
      subst hx
      exact ⟨hI, hlen, Nat.le_refl _, fun _ => rfl⟩

-- ------------------------------------------------------------------ 2. walkBack

/-- the loop invariant of reorg step 2b -/
structure WalkInv (c : Ctx) (S : List Block) (w : Walk) : Prop where
  inv : Inv c w.s (S.take (w.prevH + 2))
  len : w.prevH + 1 < S.length
  ready : AllReady c.own (readyWallets w.s c.wallets)
  hash : ∃ x, S[w.prevH]? = some x ∧ w.prevHash = x.id
  link : Chained c (w.tail :: w.tc)

/-- one round of the walk: the disconnect call succeeds, and the next state satisfies the invariant -/
theorem walk_step {c : Ctx} {S : List Block} (H : ReorgHyp c S)
    (hNk : ∀ x ∈ c.node.chain, AMap.get c.node.known x.id = some x) {w : Walk} (hW : WalkInv c S w) :
    ∃ s1, disconnectBlock c w.s (w.prevH + 1) = .ok s1 ∧ Inv c s1 (S.take (w.prevH + 1)) ∧
      (∀ ws, readyWallets s1 ws = readyWallets w.s ws) ∧
      ∀ ph' pb, w.prevH ≠ 0 → AMap.get s1.sync (w.prevH - 1) = some ph' → c.node.fetchBlock w.tail.prev = some pb →
        WalkInv c S { s := s1, prevH := w.prevH - 1, prevHash := ph', tail := pb,
                      tc := w.tail :: w.tc, rolled := w.rolled ++ [w.prevH + 1] } := by
  obtain ⟨s1, h1, hI1, hr1⟩ := disconnect_step H (k := w.prevH + 1) (by omega) hW.len hW.inv hW.ready
  refine ⟨s1, h1, hI1, hr1, fun ph' pb hp0 hph hpb => ?_⟩
  have hlt : w.prevH - 1 < S.length := by have := hW.len; omega
  have hx' : S[w.prevH - 1]? = some S[w.prevH - 1] := List.getElem?_eq_getElem hlt
  obtain ⟨hm, hid⟩ := fetchBlock_some hpb
  refine ⟨?_, ?_, ?_, ⟨_, hx', ?_⟩, hW.link.cons (hNk pb hm) hid.symm⟩
  · show Inv c s1 (S.take (w.prevH - 1 + 2))
    rw [show w.prevH - 1 + 2 = w.prevH + 1 by omega]; exact hI1
  · show w.prevH - 1 + 1 < S.length
    have := hW.len; omega
  · show AllReady c.own (readyWallets s1 c.wallets)
    rw [hr1]; exact hW.ready
  · show ph' = _
    have := sync_of_inv hI1 (k := w.prevH - 1) (by omega) hx'
    rw [hph] at this
    exact Option.some.inj this

theorem walkBackOK_of {c : Ctx} {S : List Block} (H : ReorgHyp c S) (hBS : ChainBounds c.p c.own S)
    (hNk : ∀ x ∈ c.node.chain, AMap.get c.node.known x.id = some x) :
    ∀ (fuel : Nat) (w : Walk), WalkInv c S w → walkBackOK c (PdInv c) fuel w := by
  intro fuel
  induction fuel with
  | zero => intro w _; trivial
  | succ fuel ih =>
    intro w hW
    unfold walkBackOK
    intro _
    refine ⟨pdInv_at H hBS (by omega) hW.len hW.inv hW.ready, fun s' hs' hp0 ph' hph pb hpb => ?_⟩
    obtain ⟨s1, h1, _, _, hnext⟩ := walk_step H hNk hW
    rw [h1] at hs'
    injection hs' with hs'
    subst hs'
    exact ih _ (hnext ph' pb hp0 hph hpb)

/-- what `walkBack` returns when it reports success: the invariant, and the exit test -/
theorem walkBack_res {c : Ctx} {S : List Block} (H : ReorgHyp c S)
    (hNk : ∀ x ∈ c.node.chain, AMap.get c.node.known x.id = some x) :
    ∀ (fuel : Nat) (w : Walk) (wd : Walk × Bool), WalkInv c S w → walkBack c fuel w = .ok wd → wd.2 = true →
      WalkInv c S wd.1 ∧ wd.1.tail.prev = wd.1.prevHash ∧ ∀ ws, readyWallets wd.1.s ws = readyWallets w.s ws := by
  intro fuel
  induction fuel with
  | zero =>
    intro w wd _ h ht
    simp only [walkBack, M_pure_eq, Except.ok.injEq] at h
    subst h; cases ht
  | succ fuel ih =>
    intro w wd hW h ht
    unfold walkBack at h
    by_cases hne : w.tail.prev = w.prevHash
    · simp only [hne, ne_eq, not_true_eq_false, if_false, M_pure_eq, Except.ok.injEq] at h
      subst h
      exact ⟨hW, hne, fun _ => rfl⟩
    · simp only [hne, ne_eq, not_false_eq_true, if_true] at h
      obtain ⟨s1, h1, _, hr1, hnext⟩ := walk_step H hNk hW
      rw [h1] at h
      simp only [M_ok_bind] at h
      by_cases h0 : w.prevH = 0
      · simp only [h0, if_true] at h; cases h
      · simp only [h0, if_false] at h
        cases hs : AMap.get s1.sync (w.prevH - 1) with
        | none => rw [hs] at h; cases h
        | some ph =>
          rw [hs] at h
          simp only at h
          cases hf : c.node.fetchBlock w.tail.prev with
          | none => rw [hf] at h; cases h
          | some pb =>
            rw [hf] at h
            simp only at h
            obtain ⟨i1, i2, i3⟩ := ih _ wd (hnext ph pb h0 hs hf) h ht
            exact ⟨i1, i2, fun ws => (i3 ws).trans (hr1 ws)⟩

-- ------------------------------------------------------------------ reorg step 2 as a whole

theorem reorgDisconnectOK_of {c : Ctx} {S : List Block} (H : ReorgHyp c S) (hBS : ChainBounds c.p c.own S)
    (hNk : ∀ x ∈ c.node.chain, AMap.get c.node.known x.id = some x) {s : Store} {nb : Block} {tc : List Block}
    (hI : Inv c s S) (hAR : AllReady c.own (readyWallets s c.wallets)) (hL : Chained c (nb :: tc)) :
    reorgDisconnectOK c (PdInv c) s (tipMeta S) nb tc := by
  obtain ⟨xH, hxH, htip⟩ := tipMeta_good H.goodS
  have hSpos := H.goodS.length_pos
  have hItop : Inv c s (S.take (S.length - 1 + 1)) := by
    rw [show S.length - 1 + 1 = S.length by omega, List.take_length]; exact hI
  unfold reorgDisconnectOK
  rw [htip]
  intro _
  refine ⟨discDownOK_of H hBS _ _ s (S.length - 1) hItop (by omega) hAR, fun x hx bh hbh hbne hx0 ph hph => ?_⟩
  obtain ⟨h2, h3, h4, h5⟩ := disconnectDown_res H _ _ s (S.length - 1) [] x hItop (by omega) hAR hx
  have hlt : x.2.1 - 1 < S.length := by omega
  have hx' : S[x.2.1 - 1]? = some S[x.2.1 - 1] := List.getElem?_eq_getElem hlt
  have hW : WalkInv c S { s := x.1, prevH := x.2.1 - 1, prevHash := ph, tail := nb, tc := tc, rolled := x.2.2 } := by
    refine ⟨?_, ?_, ?_, ⟨_, hx', ?_⟩, hL⟩
    · show Inv c x.1 (S.take (x.2.1 - 1 + 2))
      rw [show x.2.1 - 1 + 2 = x.2.1 + 1 by omega]; exact h2
    · show x.2.1 - 1 + 1 < S.length
      omega
    · show AllReady c.own (readyWallets x.1 c.wallets)
      rw [h5]; exact hAR
    · show ph = _
      have := sync_of_inv h2 (k := x.2.1 - 1) (by omega) hx'
      rw [hph] at this
      exact Option.some.inj this
  refine ⟨walkBackOK_of H hBS hNk _ _ hW, fun wd hwd ht => ?_⟩
  obtain ⟨hW', _⟩ := walkBack_res H hNk _ _ wd hW hwd ht
  exact pdInv_at H hBS (by omega) hW'.len hW'.inv hW'.ready

/-- what `reorgDisconnect` hands to `connectAll`: a store holding a prefix of `S`, and a chained list whose first
    block points at the tip of that prefix -/
theorem reorgDisconnect_res {c : Ctx} {S : List Block} (H : ReorgHyp c S)
    (hNk : ∀ x ∈ c.node.chain, AMap.get c.node.known x.id = some x) {s : Store} {nb : Block} {tc : List Block}
    (hI : Inv c s S) (hAR : AllReady c.own (readyWallets s c.wallets)) (hL : Chained c (nb :: tc))
    {x : Store × List Nat × List Block} (h : reorgDisconnect c s (tipMeta S) nb tc = .ok x) :
    ∃ k t, S[k]? = some t ∧ Inv c x.1 (S.take (k + 1)) ∧ (∀ ws, readyWallets x.1 ws = readyWallets s ws) ∧
      Chained c x.2.2 ∧ ∀ y, x.2.2.head? = some y → y.prev = t.id := by
  obtain ⟨xH, hxH, htip⟩ := tipMeta_good H.goodS
  have hSpos := H.goodS.length_pos
  have hItop : Inv c s (S.take (S.length - 1 + 1)) := by
    rw [show S.length - 1 + 1 = S.length by omega, List.take_length]; exact hI
  unfold reorgDisconnect at h
  rw [htip] at h
  simp only at h
  by_cases hb : xH.id = nb.id
  · simp only [hb, if_true, M_pure_eq, Except.ok.injEq] at h
    subst h
    exact ⟨S.length - 1, xH, hxH, hItop, fun _ => rfl, hL.tail.1, fun y hy => by rw [hL.tail.2 y hy, hb]⟩
  · simp only [hb, if_false] at h
    cases hd : disconnectDown c nb.height (S.length - 1 + 1) s (S.length - 1) [] with
    | error e => rw [hd] at h; cases h
    | ok r =>
      obtain ⟨h2, h3, h4, h5⟩ := disconnectDown_res H _ _ s (S.length - 1) [] r hItop (by omega) hAR hd
      obtain ⟨s1, curH, rolled1⟩ := r
      rw [hd] at h
      simp only [M_ok_bind] at h
      simp only at h2 h3 h4 h5
      have hxc : S[curH]? = some S[curH] := List.getElem?_eq_getElem h3
      have hsy := sync_of_inv h2 (Nat.lt_succ_self curH) hxc
      rw [hsy] at h
      simp only at h
      by_cases hbh : S[curH].id = nb.id
      · simp only [hbh, if_true, M_pure_eq, Except.ok.injEq] at h
        subst h
        exact ⟨curH, _, hxc, h2, h5, hL.tail.1, fun y hy => by rw [hL.tail.2 y hy, hbh]⟩
      · simp only [hbh, if_false] at h
        by_cases h0 : curH = 0
        · simp only [h0, if_true] at h; cases h
        · simp only [h0, if_false] at h
          have hlt : curH - 1 < S.length := by omega
          have hx' : S[curH - 1]? = some S[curH - 1] := List.getElem?_eq_getElem hlt
          have hsy2 := sync_of_inv h2 (k := curH - 1) (by omega) hx'
          rw [hsy2] at h
          simp only at h
          have hW : WalkInv c S { s := s1, prevH := curH - 1, prevHash := S[curH - 1].id, tail := nb, tc := tc, rolled := rolled1 } := by
            refine ⟨?_, ?_, ?_, ⟨_, hx', rfl⟩, hL⟩
            · show Inv c s1 (S.take (curH - 1 + 2))
              rw [show curH - 1 + 2 = curH + 1 by omega]; exact h2
            · show curH - 1 + 1 < S.length
              omega
            · show AllReady c.own (readyWallets s1 c.wallets)
              rw [h5]; exact hAR
          cases hw : walkBack c (S.length - 1 + 2) { s := s1, prevH := curH - 1, prevHash := S[curH - 1].id, tail := nb, tc := tc, rolled := rolled1 } with
          | error e => rw [hw] at h; cases h
          | ok r =>
            obtain ⟨w, d⟩ := r
            rw [hw] at h
            simp only [M_ok_bind] at h
            cases d with
            | false => simp at h
            | true =>
              simp only [Bool.not_true, Bool.false_eq_true, if_false] at h
              obtain ⟨hW', hexit, hr3⟩ := walkBack_res H hNk _ _ _ hW hw rfl
              simp only at hW' hexit hr3
              obtain ⟨s2, hd2, hI2, hr2, _⟩ := walk_step H hNk hW'
              rw [hd2] at h
              simp only [M_ok_bind, M_pure_eq, Except.ok.injEq] at h
              subst h
              obtain ⟨t, ht, hte⟩ := hW'.hash
              refine ⟨w.prevH, t, ht, hI2, fun ws => ((hr2 ws).trans (hr3 ws)).trans (h5 ws), hW'.link, fun y hy => ?_⟩
              simp only [List.head?_cons, Option.some.injEq] at hy
              subst hy
              rw [hexit, hte]

-- ------------------------------------------------------------------ 4. the connect phase

/-- THE HASH ARGUMENT: a known block `b'` that points at the tip of `T` and passes the first check of filterBlock
    (the node has a block with its id at its height) is the next block of the node's chain after `T` -/
theorem next_of_check {e : Env} {G : Block} (EH : EnvHyp e G) {N T : List Block} (hN : ChainOK e G N)
    (hT : ChainOK e G T) {b' t : Block} (hbk : AMap.get e.known b'.id = some b')
    (ht : T[T.length - 1]? = some t) (hprev : b'.prev = t.id) {oc : Block} (hoc : N[b'.height]? = some oc)
    (hid : oc.id = b'.id) : ∃ rest, N = T ++ b' :: rest ∧ b'.height = T.length := by
  have hock := hN.known oc (mem_of_get hoc)
  rw [hid, hbk] at hock
  have hocb : b' = oc := Option.some.inj hock
  have hb : N[b'.height]? = some b' := by rw [hoc, hocb]
  have htk := hT.known t (mem_of_get ht)
  have hTpos := hT.good.length_pos
  by_cases h0 : b'.height = 0
  · exfalso
    have hG := EH.genesisOnly _ _ hbk h0
    rw [hG] at hprev
    exact EH.genesisPrev _ _ htk hprev.symm
  · obtain ⟨j, hj⟩ : ∃ j, b'.height = j + 1 := ⟨b'.height - 1, by omega⟩
    rw [hj] at hb
    have hjN : j < N.length := by have := (List.getElem?_eq_some_iff.1 hb).1; omega
    have hy : N[j]? = some N[j] := List.getElem?_eq_getElem hjN
    have hidt : t.id = N[j].id := by rw [← hN.good.prev_at hy hb, hprev]
    have hinj : IdInj (T ++ N) := idInj_of_known (known := e.known) (fun x hx => by
      rcases List.mem_append.1 hx with h | h
      · exact hT.known x h
      · exact hN.known x h)
    have hpos := pos_of_id hT.good hN.good hinj ht hy hidt
    have hpre := prefix_of_id hT.good hN.good hinj _ _ _ ht (by rw [hpos]; exact hy) hidt
    rw [show T.length - 1 + 1 = T.length by omega, List.take_length] at hpre
    have hTlen : T.length = j + 1 := by omega
    replace hpre : T = N.take (j + 1) := by rw [← hTlen]; exact hpre
    refine ⟨N.drop (j + 2), ?_, by omega⟩
    conv => rhs; rw [hpre]
    have : N.drop (j + 1) = b' :: N.drop (j + 2) := by
      rw [List.drop_eq_getElem?_toList_append, hb]; rfl
    rw [← this, List.take_append_drop]

theorem snoc_eq_take {N T rest : List Block} {b' : Block} (h : N = T ++ b' :: rest) :
    T ++ [b'] = N.take (T.length + 1) := by
  have : N = (T ++ [b']) ++ rest := by rw [h]; simp
  rw [this, List.take_left' (by simp)]

/-- the condition at a filterBlock call from a store holding `T`, for a known block that points at the tip of `T` -/
theorem pfInv_head {e : Env} {G : Block} (EH : EnvHyp e G) {N T : List Block} (hN : ChainOK e G N)
    (hT : ChainOK e G T) (hBN : ChainBounds e.p e.own N) (hBT : ChainBounds e.p e.own T) {s : Store}
    (hI : Inv (e.ctx N) s T) (hAR : AllReady e.own (readyWallets s e.wallets))
    (hne : (readyWallets s e.wallets).isEmpty = false) {b' t : Block} (hbk : AMap.get e.known b'.id = some b')
    (ht : T[T.length - 1]? = some t) (hprev : b'.prev = t.id) :
    PfInv (e.ctx N) s (readyWallets s e.wallets) b' := by
  refine ⟨T, hI, rfl, hAR, hne, hBT, fun oc hoc hid => ?_⟩
  obtain ⟨rest, h1, h2⟩ := next_of_check EH hN hT hbk ht hprev hoc hid
  refine ⟨rest, h1, h2, hN.valid, ?_⟩
  rw [snoc_eq_take h1]
  exact hBN.take _

theorem connectAllOK_of {e : Env} {G : Block} (EH : EnvHyp e G) {N : List Block} (hN : ChainOK e G N)
    (hBN : ChainBounds e.p e.own N) :
    ∀ (tc T : List Block) (s : Store), ChainOK e G T → ChainBounds e.p e.own T → Inv (e.ctx N) s T →
      AllReady e.own (readyWallets s e.wallets) → (readyWallets s e.wallets).isEmpty = false →
      Chained (e.ctx N) tc → (∀ y, tc.head? = some y → ∃ t, T[T.length - 1]? = some t ∧ y.prev = t.id) →
      ∀ ready, ready = readyWallets s e.wallets →
      connectAllOK (e.ctx N) (PfInv (e.ctx N)) ready tc s := by
  intro tc
  induction tc with
  | nil => intro T s _ _ _ _ _ _ _ _ _; trivial
  | cons b' rest ih =>
    intro T s hT hBT hI hAR hne hL hhd ready hready
    subst hready
    obtain ⟨t, ht, hprev⟩ := hhd b' rfl
    have hbk : AMap.get e.known b'.id = some b' := hL.1 b' List.mem_cons_self
    unfold connectAllOK
    refine ⟨pfInv_head EH hN hT hBN hBT hI hAR hne hbk ht hprev, fun x hx => ?_⟩
    obtain ⟨oc, hoc, hid⟩ := filterBlock_ok_blockAt hx
    obtain ⟨rest', h1, h2⟩ := next_of_check EH hN hT hbk ht hprev hoc hid
    obtain ⟨s', conf, hf, hI', hst⟩ := connect_sound (c := e.ctx N) hI h1 hN.valid h2 hAR hne
    change filterBlock (e.ctx N) s (readyWallets s e.wallets) b' = _ at hf
    rw [hf] at hx
    injection hx with hx
    subst hx
    have hrw : ∀ ws, readyWallets s' ws = readyWallets s ws := readyWallets_congr hst
    have hsn := snoc_eq_take h1
    refine ih (T ++ [b']) s' (by rw [hsn]; exact hN.take _) (by rw [hsn]; exact hBN.take _) hI'
      (by rw [hrw]; exact hAR) (by rw [hrw]; exact hne) hL.tail.1 (fun y hy => ⟨b', by simp, hL.tail.2 y hy⟩) _
      (hrw _).symm

-- ------------------------------------------------------------------ 5. reorg, processConnectedBlock

theorem reorgOK_of_J {e : Env} {G : Block} (EH : EnvHyp e G) {N S : List Block} (hN : ChainOK e G N)
    (hS : ChainOK e G S) {s : Store} {b : Block} (hI : Inv (e.ctx N) s S)
    (hbk : AMap.get e.known b.id = some b)
    (hAR : AllReady e.own (readyWallets s e.wallets)) (hne : (readyWallets s e.wallets).isEmpty = false)
    (hBS : ChainBounds e.p e.own S) (hBN : ChainBounds e.p e.own N) :
    reorgOK (e.ctx N) (PdInv (e.ctx N)) (PfInv (e.ctx N)) s (tipMeta S) b := by
  have H : ReorgHyp (e.ctx N) S := reorgHyp_of hN hS
  have hNk : ∀ x ∈ (e.ctx N).node.chain, AMap.get (e.ctx N).node.known x.id = some x := hN.known
  unfold reorgOK
  intro a ha
  have hL : Chained (e.ctx N) (a.1 :: a.2) := alignNew_chained hNk _ _ _ _ a (Chained.single hbk) ha
  refine ⟨reorgDisconnectOK_of H hBS hNk hI hAR hL, fun x hx => ?_⟩
  obtain ⟨k, t, ht, hIk, hr, hLx, hhd⟩ := reorgDisconnect_res H hNk hI hAR hL hx
  have hkl : k < S.length := (List.getElem?_eq_some_iff.1 ht).1
  have hlen : (S.take (k + 1)).length = k + 1 := by rw [List.length_take]; omega
  exact connectAllOK_of EH hN hBN x.2.2 (S.take (k + 1)) x.1 (hS.take k) (hBS.take _) hIk (by rw [hr]; exact hAR)
    (by rw [hr]; exact hne) hLx
    (fun y hy => ⟨t, by rw [hlen, Nat.add_sub_cancel, getElem?_take_of_lt (Nat.lt_succ_self k)]; exact ht, hhd y hy⟩)
    _ rfl

/-- every primitive call of a handler step from a state of the step invariant `J` happens at a store holding the books of a
    chain `T` (a prefix of the wallet's chain `S` while disconnecting, of the node's chain `N` while connecting), with the
    argument the tip of `T` resp. the next block of `N` after `T` -/
theorem processOK_of_J {e : Env} {G : Block} (EH : EnvHyp e G) {N S : List Block} (hN : ChainOK e G N) (hS : ChainOK e G S)
    {s : Store} {v : Vol} {b : Block} (hI : Inv (e.ctx N) s S) (hv : v.best = tipMeta S)
    (hbk : AMap.get e.known b.id = some b)
    (hAR : AllReady e.own (readyWallets s e.wallets)) (hne : (readyWallets s e.wallets).isEmpty = false)
    (hBS : ChainBounds e.p e.own S) (hBN : ChainBounds e.p e.own N) :
    processOK (e.ctx N) (PdInv (e.ctx N)) (PfInv (e.ctx N)) s v b := by
  unfold processOK
  rw [hv]
  by_cases hp : b.prev = (tipMeta S).hash
  · simp only [hp, if_true]
    obtain ⟨xH, hxH, htip⟩ := tipMeta_good hS.good
    exact pfInv_head EH hN hS hBN hBS hI hAR hne hbk hxH (by rw [hp, htip])
  · simp only [hp, if_false]
    exact reorgOK_of_J EH hN hS hI hbk hAR hne hBS hBN

end MW.Lemmas.Ledger.Trace
