/-
  C13: round trips.  decode ∘ encode = id (spec level and model level), and conversely every accepted
  word sequence IS the encoding of the entropy returned.
-/
import MW.Lemmas.Bip39Decode
namespace MW.Lemmas.Bip39Round
open MW MW.B39 MW.Model.Bip39 MW.Lemmas.Bip39Words MW.Lemmas.Bip39Fields MW.Lemmas.Bip39Codec
  MW.Lemmas.Bip39Decode

theorem lower_imp_plain (w : Bytes) (h : lowerWord w = true) : plainWord w = true := by
  simp only [lowerWord, Bool.and_eq_true, List.all_eq_true, decide_eq_true_eq] at h
  simp only [plainWord, Bool.and_eq_true, List.all_eq_true]
  exact ⟨h.1, fun b hb => lower_plain b (h.2 b hb).1 (h.2 b hb).2⟩

/-- every word of the list is non-empty and free of white space -/
theorem wordList_plain (w : Bytes) (h : w ∈ wordList) : plainWord w = true :=
  lower_imp_plain w (List.all_eq_true.mp wordList_lower w h)

theorem encNat_div_mod (H : Bytes → Bytes) (e : Bytes) (cs : Nat) (h8 : cs ≤ 8) (hl : e.length = 4 * cs) :
    encNat H e / 2 ^ cs = ofBytesBE e ∧ encNat H e % 2 ^ cs = csVal (H e) cs ∧ encNat H e < 2048 ^ (3 * cs) := by
  have hq : e.length / 4 = cs := by omega
  have hc := csVal_lt (H e) cs h8
  have hE := ofBytesBE_lt e
  unfold encNat
  rw [hq]
  refine ⟨?_, Nat.mul_add_mod_of_lt hc, ?_⟩
  · rw [Nat.add_comm, Nat.add_mul_div_right _ _ (by positivity), Nat.div_eq_of_lt hc]; simp
  · have h1 : (2048:Nat) ^ (3 * cs) = 256 ^ (4 * cs) * 2 ^ cs := by
      rw [show (2048:Nat) = 2 ^ 11 by norm_num, show (256:Nat) = 2 ^ 8 by norm_num, ← pow_mul, ← pow_mul,
        ← pow_add]
      congr 1; omega
    rw [h1, ← hl]
    have : ofBytesBE e + 1 ≤ 256 ^ e.length := hE
    calc ofBytesBE e * 2 ^ cs + csVal (H e) cs < ofBytesBE e * 2 ^ cs + 2 ^ cs := by omega
      _ = (ofBytesBE e + 1) * 2 ^ cs := by ring
      _ ≤ 256 ^ e.length * 2 ^ cs := Nat.mul_le_mul_right _ this

/-- the encoder's words, as a function of the digits -/
theorem words_facts (N : Nat) (n : Nat) :
    ((digitsRec n N).map wordOf).length = n ∧ (∀ w ∈ (digitsRec n N).map wordOf, w ∈ wordList) ∧
      ((digitsRec n N).map wordOf).map idx = digitsRec n N := by
  refine ⟨by simp [digitsRec_length], ?_, ?_⟩
  · intro w hw
    obtain ⟨i, hi, e⟩ := List.mem_map.mp hw
    subst e; exact wordOf_mem i (digitsRec_lt n N i hi)
  · rw [List.map_map]
    conv_rhs => rw [← List.map_id (digitsRec n N)]
    apply List.map_congr_left
    intro i hi
    exact idx_wordOf i (digitsRec_lt n N i hi)

/-- SPEC-LEVEL ROUND TRIP: decoding the words of an entropy gives the entropy back -/
theorem spec_decode_words (H : Bytes → Bytes) (hH : HashOK H) (e : Bytes)
    (h : Spec.Bip39.legalEntropyLen e.length = true) :
    Spec.Bip39.decode H (Spec.Bip39.words H e) = .ok e := by
  obtain ⟨cs, h4, h8, hl⟩ := legal_cs _ h
  rw [spec_words H hH e cs h8 hl]
  obtain ⟨w1, w2, w3⟩ := words_facts (encNat H e) (3 * cs)
  obtain ⟨n1, n2, n3⟩ := encNat_div_mod H e cs h8 hl
  have hdec : decNat ((digitsRec (3 * cs) (encNat H e)).map wordOf) = encNat H e := by
    unfold decNat
    rw [w3, horner_digitsRec, Nat.mod_eq_of_lt n3]
  have hcand : candidate ((digitsRec (3 * cs) (encNat H e)).map wordOf) cs = e := by
    unfold candidate
    rw [hdec, n1, ← hl]
    exact padLeft_toBytesBE_ofBytesBE e
  rw [spec_decode_listed H hH _ cs h4 h8 w1 w2, hcand, hdec, n2]
  simp

/-- MODEL-LEVEL ROUND TRIP through the sentence -/
theorem fields_newMnemonic (H : Bytes → Bytes) (hH : HashOK H) (e : Bytes)
    (h : Spec.Bip39.legalEntropyLen e.length = true) :
    fields (Spec.Bip39.mnemonic H e) = Spec.Bip39.words H e := by
  obtain ⟨cs, h4, h8, hl⟩ := legal_cs _ h
  unfold Spec.Bip39.mnemonic
  rw [← joinSpace_eq_spec]
  apply fields_joinSpace
  intro w hw
  rw [spec_words H hH e cs h8 hl] at hw
  exact wordList_plain w ((words_facts (encNat H e) (3 * cs)).2.1 w hw)

/-- CONVERSE: whatever the spec decoder accepts is the encoding of what it returns -/
theorem spec_decode_sound (H : Bytes → Bytes) (hH : HashOK H) (ws : List Bytes) (e : Bytes)
    (h : Spec.Bip39.decode H ws = .ok e) :
    Spec.Bip39.legalEntropyLen e.length = true ∧ Spec.Bip39.words H e = ws := by
  have hleg : Spec.Bip39.legalWordCount ws.length = true := by
    cases hb : Spec.Bip39.legalWordCount ws.length with
    | true => rfl
    | false => unfold Spec.Bip39.decode at h; rw [hb] at h; cases h
  have hall : Spec.Bip39.allListed ws = true := by
    cases hb : Spec.Bip39.allListed ws with
    | true => rfl
    | false => unfold Spec.Bip39.decode at h; rw [hleg, hb] at h; cases h
  obtain ⟨cs, h4, h8, hl⟩ := legal_words_cs _ hleg
  have hmem := (allListed_iff ws).mp hall
  rw [spec_decode_listed H hH ws cs h4 h8 hl hmem] at h
  split at h
  · rename_i hck
    cases h
    obtain ⟨c1, c2⟩ := candidate_spec ws cs hl hmem
    have hlegal : Spec.Bip39.legalEntropyLen (candidate ws cs).length = true := by
      rw [c1]
      simp only [Spec.Bip39.legalEntropyLen, Bool.or_eq_true, beq_iff_eq]
      omega
    refine ⟨hlegal, ?_⟩
    rw [spec_words H hH _ cs h8 c1]
    have hN : encNat H (candidate ws cs) = decNat ws := by
      unfold encNat
      have : (candidate ws cs).length / 4 = cs := by omega
      rw [this, c2, ← hck]
      exact Nat.div_add_mod' _ _
    rw [hN]
    unfold decNat
    rw [digitsRec_horner (3 * cs) (ws.map idx) (by rw [List.length_map, hl]) (by
      intro i hi
      obtain ⟨w, hw, e⟩ := List.mem_map.mp hi
      subst e; exact idx_lt w (hmem w hw))]
    rw [List.map_map]
    conv_rhs => rw [← List.map_id ws]
    apply List.map_congr_left
    intro w hw
    exact wordOf_idx w (hmem w hw)
  · cases h

end MW.Lemmas.Bip39Round
