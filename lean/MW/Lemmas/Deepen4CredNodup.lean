/-
  C06 deepening (round 4): ONE CREDIT ENTRY PER KEY is an invariant of everything the wallet does.
  `KeysNodup s.credits` (asked by C08's removal theorems, `RemGuard`) is preserved by the follower
  (`processBlock`: connect, rollback, every loop of `reorg`, for ARBITRARY stores), by Start after a crash, by the
  unconfirmed path, by a rescan batch, by an iteration of the removal and by the keystore operations: the bucket
  is only ever written through `AMap.put` / `AMap.erase`.  Same structure as C01's `wf_*` for the unspent index
  (LedgerWF / LedgerWF2).
-/
import MW.Lemmas.Deepen4Removal
import MW.Lemmas.LedgerWF2
namespace MW.Lemmas.Deepen4
open MW MW.Model.Ledger MW.Model.Persist MW.Spec.Persist MW.Spec.Chain MW.Spec.Books MW.Lemmas.Ledger
  MW.Lemmas.PersistOp MW.Lemmas.PersistFault MW.Lemmas.PersistCrash MW.Lemmas.Deepen3 MW.Lemmas.ImportJoin

-- ------------------------------------------------------------------ the mined side (connect)

/-- a pure loop that never writes the credit bucket -/
theorem foldl_credits_eq {α : Type} (f : Store → α → Store) (l : List α) (s : Store)
    (h : ∀ s a, a ∈ l → (f s a).credits = s.credits) : (l.foldl f s).credits = s.credits := by
  induction l generalizing s with
  | nil => rfl
  | cons a l ih =>
    rw [List.foldl_cons, ih _ (fun s a' ha' => h s a' (List.mem_cons_of_mem _ ha'))]
    exact h s a (List.mem_cons_self ..)

theorem cn_spendOne {tr : TxRec} {blk : BlockMeta} {sb sb' : Store × Bals} {rel : Rel}
    (hq : KeysNodup sb.1.credits) (h : spendOne tr blk sb rel = .ok sb') : KeysNodup sb'.1.credits := by
  unfold spendOne at h
  repeat' split at h
  all_goals cases h
  exact keysNodup_put hq _ _

theorem cn_updateMinedBalance {s : Store} {bals : Bals} {tr : TxRec} {blk : BlockMeta} {sb' : Store × Bals}
    (hq : KeysNodup s.credits) (h : updateMinedBalance s bals tr blk = .ok sb') : KeysNodup sb'.1.credits :=
  foldlM_preserves_store (·.1) (fun s => KeysNodup s.credits) _ _
    (fun _ _ _ _ hb hf => cn_spendOne hb hf) (b := (s, bals)) hq h

theorem cn_creditOne {p : Params} {tr : TxRec} {blk : BlockMeta} {sb sb' : Store × Bals} {rel : Rel}
    (hq : KeysNodup sb.1.credits) (h : creditOne p tr blk sb rel = .ok sb') : KeysNodup sb'.1.credits := by
  unfold creditOne at h
  split at h
  · cases h
  · have := Except.ok.inj h; subst this; exact keysNodup_put hq _ _

theorem gameOne_credits (tr : TxRec) (blk : BlockMeta) (s : Store) (rel : Rel) :
    (gameOne tr blk s rel).credits = s.credits := rfl

theorem cn_addCredits {p : Params} {s : Store} {bals : Bals} {tr : TxRec} {blk : BlockMeta}
    {sb' : Store × Bals} (hq : KeysNodup s.credits) (h : addCredits p s bals tr blk = .ok sb') :
    KeysNodup sb'.1.credits := by
  unfold addCredits at h
  split at h
  · have := Except.ok.inj h; subst this; exact hq
  · obtain ⟨sb1, h1, h2⟩ := M_bind_ok h
    have hq1 : KeysNodup sb1.1.credits :=
      foldlM_preserves_store (·.1) (fun s => KeysNodup s.credits) _ _
        (fun _ _ _ _ hb hf => cn_creditOne hb hf) (b := (s, bals)) hq h1
    have := Except.ok.inj h2; subst this
    show KeysNodup (List.foldl (gameOne tr blk) sb1.1 (gameOuts tr)).credits
    rw [foldl_credits_eq _ _ _ (fun s a _ => gameOne_credits tr blk s a)]
    exact hq1

theorem recordMinedTx_credits (s : Store) (tr : TxRec) (blk : BlockMeta) :
    (recordMinedTx s tr blk).credits = s.credits := rfl

theorem cn_insertMinedTx {own : Own} {s : Store} {bals : Bals} {tr : TxRec} {blk : BlockMeta}
    {r : Store × Bals × Bool} (hq : KeysNodup s.credits) (h : insertMinedTx own s bals tr blk = .ok r) :
    KeysNodup r.1.credits := by
  unfold insertMinedTx at h
  split at h
  · have := Except.ok.inj h; subst this; exact hq
  · obtain ⟨sb1, h1, h2⟩ := M_bind_ok h
    have hq1 : KeysNodup sb1.1.credits :=
      cn_updateMinedBalance (s := recordMinedTx s tr blk) hq h1
    have := Except.ok.inj h2; subst this
    show KeysNodup (removeDoubleSpends own (unpendMined sb1.1 tr.tx) tr).credits
    rw [(minedEq_removeDoubleSpends own _ tr).credits, (minedEq_unpendMined _ tr.tx).credits]
    exact hq1

theorem cn_addRelevantMined {p : Params} {own : Own} {s : Store} {bals : Bals} {tr : TxRec} {blk : BlockMeta}
    {sb' : Store × Bals} (hq : KeysNodup s.credits) (h : addRelevantMined p own s bals tr blk = .ok sb') :
    KeysNodup sb'.1.credits := by
  unfold addRelevantMined at h
  obtain ⟨r, h1, h2⟩ := M_bind_ok h
  exact cn_addCredits (cn_insertMinedTx hq h1) h2

theorem cn_applyRelevant {c : Ctx} {s s' : Store} {ready : List Wid} {bm : BlockMeta} {relevant : List TxRec}
    (hq : KeysNodup s.credits) (h : applyRelevant c s ready bm relevant = .ok s') : KeysNodup s'.credits := by
  unfold applyRelevant at h
  split at h
  · have := Except.ok.inj h; subst this; exact hq
  · obtain ⟨sb1, h1, h2⟩ := M_bind_ok h
    have hq1 : KeysNodup sb1.1.credits :=
      foldlM_preserves_store (·.1) (fun s => KeysNodup s.credits) _ _
        (fun _ _ _ _ hb hf => cn_addRelevantMined hb hf)
        (b := (s, List.filter (fun e => ready.contains e.1) s.balance)) hq h1
    have := Except.ok.inj h2; subst this
    exact hq1

theorem putSyncedTo_credits {s s' : Store} {blk : BlockMeta} (h : putSyncedTo s blk = .ok s') :
    s'.credits = s.credits := by
  unfold putSyncedTo at h
  repeat' split at h
  all_goals cases h
  rfl

theorem cn_putSyncedTo {s s' : Store} {blk : BlockMeta}
    (hq : KeysNodup s.credits) (h : putSyncedTo s blk = .ok s') : KeysNodup s'.credits := by
  rw [putSyncedTo_credits h]; exact hq

theorem cn_filterBlock {c : Ctx} {s : Store} {ready : List Wid} {b : Block} {r : Store × List TxId}
    (hq : KeysNodup s.credits) (h : filterBlock c s ready b = .ok r) : KeysNodup r.1.credits := by
  unfold filterBlock at h
  split at h
  · cases h
  · split at h
    · cases h
    · dsimp only at h
      split at h
      all_goals
        obtain ⟨relevant, _, h⟩ := M_bind_ok h
        obtain ⟨s1, h1, h⟩ := M_bind_ok h
        obtain ⟨s2, h2, h⟩ := M_bind_ok h
        have := Except.ok.inj h; subst this
        refine cn_putSyncedTo ?_ h2
        rw [(minedEq_purgeUnrelated c.own s1 _).credits]
        exact cn_applyRelevant hq h1

theorem cn_connectAll {c : Ctx} {ready : List Wid} : ∀ (bs : List Block) (s : Store)
    (added : List (Nat × List TxId)) (r : Store × List (Nat × List TxId)),
    KeysNodup s.credits → connectAll c ready bs s added = .ok r → KeysNodup r.1.credits := by
  intro bs
  induction bs with
  | nil =>
    intro s added r hq h
    unfold connectAll at h
    have := Except.ok.inj h; subst this; exact hq
  | cons b rest ih =>
    intro s added r hq h
    unfold connectAll at h
    obtain ⟨r1, h1, h2⟩ := M_bind_ok h
    exact ih _ _ _ (cn_filterBlock hq h1) h2

-- ------------------------------------------------------------------ Rollback

theorem rollbackAddr_credits (s : Store) (w : Wid) (o : Out) (h : Nat) :
    (rollbackAddr s w o h).credits = s.credits := by
  unfold rollbackAddr
  dsimp only
  repeat' split
  all_goals rfl

theorem cn_rollbackOwnedOut {id : TxId} {blk : BlockMeta} {sb sb' : Store × Bals} {i : Nat} {o : Out} {w : Wid}
    (hq : KeysNodup sb.1.credits) (h : rollbackOwnedOut id blk sb i o w = .ok sb') :
    KeysNodup sb'.1.credits := by
  unfold rollbackOwnedOut at h
  repeat' split at h
  all_goals cases h
  · show KeysNodup (rollbackAddr _ w o blk.height).credits
    rw [rollbackAddr_credits]
    exact hq
  · show KeysNodup (rollbackAddr _ w o blk.height).credits
    rw [rollbackAddr_credits]
    exact hq

theorem cn_rollbackCbOut {c : Ctx} {id : TxId} {blk : BlockMeta} {acc acc' : (Store × Bals) × List (TxId × Nat)}
    {i : Nat} {o : Out} (hq : KeysNodup acc.1.1.credits) (h : rollbackCbOut c id blk acc i o = .ok acc') :
    KeysNodup acc'.1.1.credits := by
  unfold rollbackCbOut at h
  dsimp only at h
  split at h
  · cases h; exact hq
  · split at h
    · cases h
    · split at h
      · cases h; exact keysNodup_erase hq _
      · obtain ⟨sb1, h1, h2⟩ := M_bind_ok h
        have hq1 : KeysNodup sb1.1.credits := by
          refine cn_rollbackOwnedOut ?_ h1
          exact keysNodup_erase hq _
        split at h2 <;> cases h2 <;> exact hq1

theorem cn_rollbackIn {c : Ctx} {id : TxId} {blk : BlockMeta} {sb sb' : Store × Bals} {cur : Nat} {i : Inp}
    (hq : KeysNodup sb.1.credits) (h : rollbackIn c id blk sb cur i = .ok sb') : KeysNodup sb'.1.credits := by
  unfold rollbackIn at h
  dsimp only at h
  repeat' split at h
  all_goals cases h
  all_goals first
    | exact hq
    | exact keysNodup_put hq _ _

theorem cn_rollbackOut {c : Ctx} {id : TxId} {blk : BlockMeta} {sb sb' : Store × Bals} {i : Nat} {o : Out}
    (hq : KeysNodup sb.1.credits) (h : rollbackOut c id blk sb i o = .ok sb') : KeysNodup sb'.1.credits := by
  unfold rollbackOut at h
  dsimp only at h
  split at h
  · cases h; exact hq
  · split at h
    · cases h
    · split at h
      · cases h; exact keysNodup_erase hq _
      · obtain ⟨sb1, h1, h2⟩ := M_bind_ok h
        have hq1 : KeysNodup sb1.1.credits := by
          refine cn_rollbackOwnedOut ?_ h1
          exact keysNodup_erase hq _
        split at h2 <;> cases h2 <;> exact hq1

theorem cn_rollbackTx {c : Ctx} {s : Store} {bals : Bals} {blk : BlockMeta} {id : TxId}
    {r : Store × Bals × List (TxId × Nat)} (hq : KeysNodup s.credits) (h : rollbackTx c s bals blk id = .ok r) :
    KeysNodup r.1.credits := by
  unfold rollbackTx at h
  split at h
  · cases h; exact hq
  · split at h
    · cases h
    · dsimp only at h
      split at h
      · obtain ⟨r1, h1, h2⟩ := M_bind_ok h
        cases h2
        exact foldIdxM_preserves_store (·.1.1) (fun s => KeysNodup s.credits) _ _
          (fun _ _ _ _ _ hb hf => cn_rollbackCbOut hb hf) (b := (({ s with txrecs := _ }, bals), [])) hq h1
      · obtain ⟨sb1, h1, h2⟩ := M_bind_ok h
        obtain ⟨sb2, h3, h4⟩ := M_bind_ok h2
        cases h4
        have hq1 : KeysNodup sb1.1.credits :=
          foldIdxM_preserves_store (·.1) (fun s => KeysNodup s.credits) _ _
            (fun _ _ _ _ _ hb hf => cn_rollbackIn hb hf)
            (b := ({ s with txrecs := _, pending := _ }, bals)) hq h1
        exact foldIdxM_preserves_store (·.1) (fun s => KeysNodup s.credits) _ _
          (fun _ _ _ _ _ hb hf => cn_rollbackOut hb hf) hq1 h3

theorem cn_rollbackBlockAt {c : Ctx} {acc acc' : RbAcc} {cur : Nat}
    (hq : KeysNodup acc.s.credits) (h : rollbackBlockAt c acc cur = .ok acc') : KeysNodup acc'.s.credits := by
  unfold rollbackBlockAt at h
  split at h
  · cases h; exact hq
  · refine foldlM_preserves_store (·.s) (fun s => KeysNodup s.credits) _ _ ?_
      (b := { acc with heights := acc.heights ++ [cur] }) hq h
    intro a id a' _ ha hf
    obtain ⟨r, h1, h2⟩ := M_bind_ok hf
    cases h2
    exact cn_rollbackTx ha h1

theorem cn_rollback {c : Ctx} {s s' : Store} {height : Nat}
    (hq : KeysNodup s.credits) (h : rollback c s height = .ok s') : KeysNodup s'.credits := by
  unfold rollback at h
  obtain ⟨acc, h1, h2⟩ := M_bind_ok h
  cases h2
  have hq1 : KeysNodup acc.s.credits :=
    foldlM_preserves_store (·.s) (fun s => KeysNodup s.credits) _ _
      (fun _ _ _ _ hb hf => cn_rollbackBlockAt hb hf) (b := { s := s, bals := s.balance }) hq h1
  have e1 : ∀ (l : List Nat) (s : Store),
      (l.foldl (fun s h => { s with blocks := AMap.erase s.blocks h }) s).credits = s.credits :=
    fun l s => foldl_credits_eq _ l s (fun _ _ _ => rfl)
  show KeysNodup (List.foldl (purgeSpenders c.own) _ acc.cb).credits
  rw [(minedEq_foldl _ _ _ (fun s op _ => minedEq_purgeSpenders c.own s op)).credits, e1]
  exact hq1

theorem cn_disconnectBlock {c : Ctx} {s s' : Store} {height : Nat}
    (hq : KeysNodup s.credits) (h : disconnectBlock c s height = .ok s') : KeysNodup s'.credits := by
  unfold disconnectBlock at h
  split at h
  · cases h
  · split at h
    · cases h; exact hq
    · obtain ⟨s1, h1, h2⟩ := M_bind_ok h
      cases h2
      show KeysNodup s1.credits
      exact cn_rollback hq h1

-- ------------------------------------------------------------------ reorg

theorem cn_disconnectDown {c : Ctx} {nbH : Nat} : ∀ (fuel : Nat) (s : Store) (curH : Nat) (rolled : List Nat)
    (r : Store × Nat × List Nat), KeysNodup s.credits → disconnectDown c nbH fuel s curH rolled = .ok r →
    KeysNodup r.1.credits := by
  intro fuel
  induction fuel with
  | zero =>
    intro s curH rolled r hq h
    unfold disconnectDown at h
    cases h; exact hq
  | succ fuel ih =>
    intro s curH rolled r hq h
    unfold disconnectDown at h
    split at h
    · obtain ⟨s1, h1, h2⟩ := M_bind_ok h
      exact ih _ _ _ _ (cn_disconnectBlock hq h1) h2
    · cases h; exact hq

theorem cn_walkBack {c : Ctx} : ∀ (fuel : Nat) (w : Walk) (r : Walk × Bool),
    KeysNodup w.s.credits → walkBack c fuel w = .ok r → KeysNodup r.1.s.credits := by
  intro fuel
  induction fuel with
  | zero =>
    intro w r hq h
    unfold walkBack at h
    cases h; exact hq
  | succ fuel ih =>
    intro w r hq h
    unfold walkBack at h
    split at h
    · obtain ⟨s1, h1, h2⟩ := M_bind_ok h
      have hq1 := cn_disconnectBlock hq h1
      split at h2
      · cases h2
      · split at h2
        · cases h2
        · split at h2
          · cases h2
          · exact ih _ _ hq1 h2
    · cases h; exact hq

theorem cn_reorgDisconnect {c : Ctx} {s : Store} {best : BlockMeta} {nb : Block} {tc : List Block}
    {r : Store × List Nat × List Block} (hq : KeysNodup s.credits)
    (h : reorgDisconnect c s best nb tc = .ok r) : KeysNodup r.1.credits := by
  unfold reorgDisconnect at h
  split at h
  · cases h; exact hq
  · obtain ⟨r1, h1, h2⟩ := M_bind_ok h
    have hq1 := cn_disconnectDown _ _ _ _ _ hq h1
    obtain ⟨s1, curH, rolled⟩ := r1
    dsimp only at h2 hq1
    split at h2
    · cases h2
    · split at h2
      · cases h2; exact hq1
      · split at h2
        · cases h2
        · split at h2
          · cases h2
          · obtain ⟨wd, h3, h4⟩ := M_bind_ok h2
            have hq2 := cn_walkBack _ _ _ hq1 h3
            split at h4
            · cases h4
            · obtain ⟨s3, h5, h6⟩ := M_bind_ok h4
              cases h6
              exact cn_disconnectBlock hq2 h5

theorem cn_reorg {c : Ctx} {s : Store} {best : BlockMeta} {newBest : Block}
    {r : Store × List Nat × List (Nat × List TxId)} (hq : KeysNodup s.credits)
    (h : reorg c s best newBest = .ok r) : KeysNodup r.1.credits := by
  unfold reorg at h
  obtain ⟨r1, _, h2⟩ := M_bind_ok h
  obtain ⟨r2, h3, h4⟩ := M_bind_ok h2
  obtain ⟨r3, h5, h6⟩ := M_bind_ok h4
  cases h6
  exact cn_connectAll _ _ _ _ (cn_reorgDisconnect hq h3) h5

-- ------------------------------------------------------------------ 1. the follower's entry point

/-- `processBlock` keeps one credit entry per key (on error the store is returned unchanged) -/
theorem credNodup_processBlock {c : Ctx} {s : Store} {v : Vol} {b : Block} (h : KeysNodup s.credits) :
    KeysNodup (processBlock c s v b).1.credits := by
  unfold processBlock
  dsimp only
  split
  · exact h
  · rename_i s' rolled added hr
    show KeysNodup s'.credits
    split at hr
    · obtain ⟨r1, h1, h2⟩ := M_bind_ok hr
      cases h2
      exact cn_filterBlock h h1
    · exact cn_reorg h hr

-- ------------------------------------------------------------------ operations of the persistence model, generically

/-- the phases of an Update: a predicate on the store that every phase preserves holds of the working copy -/
theorem runPhases_preserves (Q : PStore → Prop) (f : Option Nat) :
    ∀ (phs : List Phase) (cnt done : Nat) (P : PStore) (V : PVol),
    (∀ ph ∈ phs, ∀ P V P' V', ph.act P V = .ok (P', V') → Q P → Q P') → Q P →
    ∀ Pw, (runPhases f cnt done phs P V).1 = .ok Pw → Q Pw := by
  intro phs
  induction phs with
  | nil =>
    intro cnt done P V _ hq Pw h
    simp only [runPhases] at h
    cases h; exact hq
  | cons ph rest ih =>
    intro cnt done P V hp hq Pw h
    have step : ∀ r, ph.act P V = .ok r → (runPhases f (cnt + ph.calls) (done + 1) rest r.1 r.2).1 = .ok Pw → Q Pw := by
      intro r ha h'
      exact ih _ _ _ _ (fun ph' hm => hp ph' (List.mem_cons_of_mem _ hm))
        (hp ph (List.mem_cons_self ..) _ _ r.1 r.2 ha hq) Pw h'
    cases f with
    | none =>
      simp only [runPhases] at h
      cases ha : ph.act P V with
      | error e => simp only [ha] at h; cases h
      | ok r => simp only [ha] at h; exact step r ha h
    | some j =>
      simp only [runPhases] at h
      split at h
      · cases h
      · cases ha : ph.act P V with
        | error e => simp only [ha] at h; cases h
        | ok r => simp only [ha] at h; exact step r ha h

/-- ONE Update (any fault): a predicate on the store that every phase preserves is preserved by the operation
    (a failed Update returns the store it started from) -/
theorem run_preserves (Q : PStore → Prop) (o : Op) (f : Option Nat) (P : PStore) (V : PVol)
    (hp : ∀ ph ∈ o.phases, ∀ P V P' V', ph.act P V = .ok (P', V') → Q P → Q P') (hq : Q P) :
    Q (o.run f P V).P := by
  unfold Op.run
  split
  · exact hq
  · split
    · exact hq
    · rename_i Pw V' cnt done hr
      split
      · exact hq
      · exact runPhases_preserves Q f o.phases 1 0 P V hp hq Pw (by rw [hr])

/-- the predicate of this file on persistent stores -/
abbrev CredOK (P : PStore) : Prop := KeysNodup P.led.credits

-- ------------------------------------------------------------------ 2. the block operation

/-- the block operation of the persistence model (direct extension, reorganisation, stale, duplicate) -/
theorem credNodup_opBlock (env : Model.Persist.Env) (n : Nat) (b : Block) (P : PStore) (V : PVol)
    (h : KeysNodup P.led.credits) : KeysNodup ((opBlock env n b).run none P V).P.led.credits := by
  rw [(opBlock_processBlock env n b P V).1]
  exact credNodup_processBlock h

-- ------------------------------------------------------------------ 3. Start after a crash

theorem credNodup_opFastForward (n : Nat) (bm : BlockMeta) (f : Option Nat) (P : PStore) (V : PVol)
    (h : KeysNodup P.led.credits) : KeysNodup ((opFastForward n bm).run f P V).P.led.credits := by
  refine run_preserves CredOK _ f P V ?_ h
  intro ph hm P V P' V' ha hq
  simp only [opFastForward, List.mem_cons, List.not_mem_nil, or_false] at hm
  subst hm
  dsimp only at ha
  split at ha
  · cases ha
  · rename_i s' hs
    cases ha
    exact cn_putSyncedTo hq hs

/-- the catch-up loop of Start: any fuel, any start state -/
theorem credNodup_catchUp (env : Model.Persist.Env) (n : Nat) : ∀ (fuel cur : Nat) (P : PStore) (V : PVol) (k : Nat),
    KeysNodup P.led.credits → KeysNodup (catchUp env n fuel cur P V k).P.led.credits := by
  intro fuel
  induction fuel with
  | zero => intro cur P V k h; exact h
  | succ fuel ih =>
    intro cur P V k h
    unfold catchUp
    split
    · exact h
    · split
      · exact h
      · dsimp only
        split
        · exact ih _ _ _ _ (credNodup_opBlock env n _ P V h)
        · exact credNodup_opBlock env n _ P V h

/-- the fast-forward loop of Start: any fuel, any start state -/
theorem credNodup_fastForward (env : Model.Persist.Env) (n limit : Nat) : ∀ (fuel cur : Nat) (P : PStore) (V : PVol) (k : Nat),
    KeysNodup P.led.credits → KeysNodup (fastForward env n limit fuel cur P V k).1.P.led.credits := by
  intro fuel
  induction fuel with
  | zero => intro cur P V k h; exact h
  | succ fuel ih =>
    intro cur P V k h
    unfold fastForward
    split
    · split
      · exact h
      · dsimp only
        split
        · exact ih _ _ _ _ (credNodup_opFastForward n _ none P _ h)
        · exact credNodup_opFastForward n _ none P _ h
    · exact h

theorem credNodup_resync (env : Model.Persist.Env) (n : Nat) (P : PStore) (V : PVol) (h : KeysNodup P.led.credits) :
    KeysNodup (resync env n P V).P.led.credits := by
  unfold resync
  split
  · exact h
  · dsimp only
    split
    · exact h
    · split
      · exact credNodup_opBlock env n _ P V h
      · exact h

theorem credNodup_startCore (env : Model.Persist.Env) (n : Nat) (P : PStore) (V : PVol) (k0 : Nat)
    (h : KeysNodup P.led.credits) : KeysNodup (startCore env n P V k0).P.led.credits := by
  unfold startCore
  dsimp only
  split
  · have key := credNodup_fastForward env n (env.node.tipHeight - Gen.Updates.ffGap) (env.node.tipHeight + 1)
      (P.led.syncedTo + 1) P V k0 h
    generalize fastForward env n (env.node.tipHeight - Gen.Updates.ffGap) (env.node.tipHeight + 1)
      (P.led.syncedTo + 1) P V k0 = e at key ⊢
    obtain ⟨r1, cur⟩ := e
    dsimp only at key ⊢
    split
    · exact key
    · have k2 := credNodup_catchUp env n (env.node.tipHeight + 1) cur r1.P r1.V r1.commits key
      split
      · exact k2
      · exact k2
  · split
    · exact h
    · have k2 := credNodup_catchUp env n (env.node.tipHeight + 1) (P.led.syncedTo + 1) P V k0 h
      split
      · exact k2
      · exact k2

theorem credNodup_start (env : Model.Persist.Env) (n : Nat) (P : PStore) (V : PVol) (h : KeysNodup P.led.credits) :
    KeysNodup (start env n P V).P.led.credits := by
  unfold start
  dsimp only
  split
  · exact credNodup_resync env n P V h
  · exact credNodup_startCore env n _ _ _ (credNodup_resync env n P V h)

/-- a process crash: boot, then Start (resync, fast-forward, catch-up, initTaskChan) -/
theorem credNodup_crash (env : Model.Persist.Env) (n : Nat) (P : PStore) (h : KeysNodup P.led.credits) :
    KeysNodup (Model.Persist.crash env n P).P.led.credits :=
  credNodup_start env n P (bootVol P) h

-- ------------------------------------------------------------------ 4. the unconfirmed path

/-- an unconfirmed transaction never writes the credit bucket -/
theorem credNodup_recvTx (env : Model.Persist.Env) (nR nW : Nat) (tx : Tx) (P : PStore) (V : PVol)
    (h : KeysNodup P.led.credits) : KeysNodup (Model.Persist.recvTx env nR nW none tx P V).P.led.credits := by
  rw [(recvTx_mined env nR nW tx P V).2.credits]
  exact h

-- ------------------------------------------------------------------ 5. the rescan

/-- `List.foldlM` in any `Except ε`: a predicate preserved by every successful step is preserved by a successful loop -/
theorem foldlM_preservesE {ε α β : Type} (Q : β → Prop) (f : β → α → Except ε β)
    (hf : ∀ b a b', Q b → f b a = .ok b' → Q b') :
    ∀ (l : List α) (b b' : β), Q b → l.foldlM f b = .ok b' → Q b' := by
  intro l
  induction l with
  | nil => intro b b' hb h; cases h; exact hb
  | cons a l ih =>
    intro b b' hb h
    rw [List.foldlM_cons] at h
    simp only [bind, Except.bind] at h
    split at h
    · cases h
    · rename_i b1 hb1
      exact ih _ _ (hf _ _ _ hb hb1) h

theorem cn_recordForImporting {s s' : Store} {tr : TxRec} {blk : BlockMeta}
    (h : Model.Import.recordForImporting s tr blk = .ok s') : s'.credits = s.credits := by
  unfold Model.Import.recordForImporting at h
  repeat' (split at h)
  all_goals first
    | (cases h; done)
    | (cases h; rfl)

theorem cn_insertMinedTxForImporting {own : Own} {s s' : Store} {bals bals' : Bals} {tr : TxRec} {blk : BlockMeta}
    (hq : KeysNodup s.credits) (h : Model.Import.insertMinedTxForImporting own s bals tr blk = .ok (s', bals')) :
    KeysNodup s'.credits := by
  unfold Model.Import.insertMinedTxForImporting at h
  split at h
  · cases h
  · rename_i s0 hs0
    have h0 : KeysNodup s0.credits := by rw [cn_recordForImporting hs0]; exact hq
    split at h
    · cases h
    · rename_i sX bX hr2
      have h2 : KeysNodup sX.credits := cn_updateMinedBalance (sb' := (sX, bX)) h0 hr2
      cases h
      show KeysNodup (removeDoubleSpends own (unpendMined sX tr.tx) tr).credits
      rw [(minedEq_removeDoubleSpends own _ tr).credits, (minedEq_unpendMined _ tr.tx).credits]
      exact h2

theorem cn_addRelevantTxForImporting {p : Params} {own : Own} {s s' : Store} {bals bals' : Bals} {tr : TxRec}
    {blk : BlockMeta} (hq : KeysNodup s.credits)
    (h : Model.Import.addRelevantTxForImporting p own s bals tr blk = .ok (s', bals')) : KeysNodup s'.credits := by
  unfold Model.Import.addRelevantTxForImporting at h
  simp only [bind, Except.bind] at h
  split at h
  · cases h
  · rename_i r hr
    obtain ⟨s1, b1⟩ := r
    have h1 : KeysNodup s1.credits := cn_insertMinedTxForImporting hq hr
    dsimp only at h
    split at h
    · rename_i r3 hr3
      simp only [pure, Except.pure] at h
      cases h
      exact cn_addCredits (sb' := (s', bals')) h1 hr3
    · cases h

theorem cn_applyItem {c : Ctx} {w : Wid} {acc acc' : Store × Bals} {it : Model.Import.Item}
    (hq : KeysNodup acc.1.credits) (h : Model.Import.applyItem c w acc it = .ok acc') : KeysNodup acc'.1.credits := by
  unfold Model.Import.applyItem at h
  simp only [bind, Except.bind] at h
  split at h
  · cases h
  · split at h
    · simp only [pure, Except.pure] at h
      cases h
      exact hq
    · split at h
      · rename_i r hr
        simp only [pure, Except.pure] at h
        cases h
        exact cn_addRelevantTxForImporting (s' := acc'.1) (bals' := acc'.2) hq hr
      · cases h
      · cases h

/-- the model of one rescan batch -/
theorem cn_importStep {batch : Nat} {c : Ctx} {w : Wid} {s s' : Store} {v v' : Vol} {fin : Bool}
    (hq : KeysNodup s.credits) (h : Model.Import.importStep batch c w s v = .ok (s', v', fin)) :
    KeysNodup s'.credits := by
  unfold Model.Import.importStep at h
  split at h
  · cases h
  · rename_i hd hhd
    dsimp only at h
    split at h
    · cases h
    · rename_i s1 bals1 hr
      have h1 : KeysNodup s1.credits :=
        foldlM_preservesE (fun (a : Store × Bals) => KeysNodup a.1.credits) (Model.Import.applyItem c w)
          (fun b a b' hb hf => cn_applyItem hb hf) _ (s, [(w, hd.bal)]) (s1, bals1) hq hr
      cases h
      exact h1

/-- ONE RESCAN BATCH (any fault index; on failure the store is unchanged) -/
theorem credNodup_importStep' (batch n : Nat) (env : Model.Persist.Env) (w : Wid) (f : Option Nat) (P : PStore) (V : PVol)
    (h : KeysNodup P.led.credits) : KeysNodup ((opImportStep batch n env w).run f P V).P.led.credits := by
  refine run_preserves CredOK _ f P V ?_ h
  intro ph hm P V P' V' ha hq
  simp only [opImportStep, List.mem_cons, List.not_mem_nil, or_false] at hm
  subst hm
  dsimp only at ha
  split at ha
  · cases ha
  · rename_i s' v' fin hs
    cases ha
    exact cn_importStep hq hs

theorem credNodup_importStep (batch n : Nat) (env : Model.Persist.Env) (w : Wid) (P : PStore) (V : PVol)
    (h : KeysNodup P.led.credits) : KeysNodup ((opImportStep batch n env w).run none P V).P.led.credits :=
  credNodup_importStep' batch n env w none P V h

theorem credNodup_importLoop_aux (batch n : Nat) (env : Model.Persist.Env) (w : Wid) : ∀ (fuel : Nat) (P : PStore) (V : PVol)
    (P' : PStore) (V' : PVol), KeysNodup P.led.credits → importLoop batch n env w fuel P V = some (P', V') →
    KeysNodup P'.led.credits := by
  intro fuel
  induction fuel with
  | zero => intro P V P' V' _ hl; cases hl
  | succ fuel ih =>
    intro P V P' V' h hl
    rw [importLoop_succ] at hl
    have h1 := credNodup_importStep batch n env w P V h
    split at hl
    · cases hl
    · split at hl
      · cases hl; exact h1
      · exact ih _ _ _ _ h1 hl

/-- the worker's rescan loop -/
theorem credNodup_importLoop (batch n : Nat) (env : Model.Persist.Env) (w : Wid) {fuel : Nat} {P : PStore} {V : PVol}
    {P' : PStore} {V' : PVol} (h : KeysNodup P.led.credits)
    (hl : importLoop batch n env w fuel P V = some (P', V')) : KeysNodup P'.led.credits :=
  credNodup_importLoop_aux batch n env w fuel P V P' V' h hl

-- ------------------------------------------------------------------ 6. the removal

/-- the model of one iteration of the removal (`rrt_nodup` of C08 for `addrs ≠ []`; for `addrs = []` RemoveRelevantTx
    returns the store as it is; the finishing iteration adds filters on other buckets and the status erase) -/
theorem cn_removeStep {limit : Nat} {c : Ctx} {w : Wid} {addrs : List Addr} {s : Store} {o : Model.Remove.StepOut}
    (hq : KeysNodup s.credits) (h : Model.Remove.removeStep limit c w addrs s = some o) : KeysNodup o.s.credits := by
  unfold Model.Remove.removeStep at h
  split at h
  · cases h
  · rename_i o1 h1
    have hq1 : KeysNodup o1.s.credits := by
      cases addrs with
      | nil =>
        have : Model.Remove.removeRelevantTx limit c s [] = some ⟨s, [], true⟩ := rfl
        rw [this] at h1
        cases h1
        exact hq
      | cons a l => exact MW.Lemmas.RemoveInv.rrt_nodup limit c s (a :: l) o1 (by simp) h1 hq
    split at h
    · cases h; exact hq1
    · cases h; exact hq1

/-- ONE ITERATION OF THE REMOVAL (any fault index; on failure the store is unchanged) -/
theorem credNodup_removeStep' (limit nR : Nat) (env : Model.Persist.Env) (w : Wid) (addrs : List Addr) (f : Option Nat)
    (P : PStore) (V : PVol) (h : KeysNodup P.led.credits) :
    KeysNodup ((opRemoveStep limit nR env w addrs).run f P V).P.led.credits := by
  refine run_preserves CredOK _ f P V ?_ h
  intro ph hm P V P' V' ha hq
  simp only [opRemoveStep, List.mem_cons, List.not_mem_nil, or_false] at hm
  rcases hm with hm | hm
  · subst hm
    dsimp only at ha
    split at ha
    · cases ha
    · rename_i o ho
      cases ha
      exact cn_removeStep hq ho
  · subst hm
    cases ha
    exact hq

theorem credNodup_removeStep (limit nR : Nat) (env : Model.Persist.Env) (w : Wid) (addrs : List Addr) (P : PStore) (V : PVol)
    (h : KeysNodup P.led.credits) : KeysNodup ((opRemoveStep limit nR env w addrs).run none P V).P.led.credits :=
  credNodup_removeStep' limit nR env w addrs none P V h

theorem credNodup_removeLoop_aux (limit nR : Nat) (env : Model.Persist.Env) (w : Wid) (addrs : List Addr) :
    ∀ (fuel : Nat) (P : PStore) (V : PVol) (P' : PStore) (V' : PVol), KeysNodup P.led.credits →
    removeLoop limit nR env w addrs fuel P V = some (P', V') → KeysNodup P'.led.credits := by
  intro fuel
  induction fuel with
  | zero => intro P V P' V' _ hl; cases hl
  | succ fuel ih =>
    intro P V P' V' h hl
    rw [removeLoop_succ] at hl
    have h1 := credNodup_removeStep limit nR env w addrs P V h
    split at hl
    · cases hl
    · split at hl
      · cases hl; exact h1
      · exact ih _ _ _ _ h1 hl

/-- the worker's removal loop -/
theorem credNodup_removeLoop (limit nR : Nat) (env : Model.Persist.Env) (w : Wid) (addrs : List Addr) {fuel : Nat}
    {P : PStore} {V : PVol} {P' : PStore} {V' : PVol} (h : KeysNodup P.led.credits)
    (hl : removeLoop limit nR env w addrs fuel P V = some (P', V')) : KeysNodup P'.led.credits :=
  credNodup_removeLoop_aux limit nR env w addrs fuel P V P' V' h hl

-- ------------------------------------------------------------------ 7. the operations that never write the bucket

/-- ONE Update whose phases all leave the credit bucket alone leaves it alone -/
theorem run_credits_eq (o : Op) (f : Option Nat) (P : PStore) (V : PVol)
    (hp : ∀ ph ∈ o.phases, ∀ P V P' V', ph.act P V = .ok (P', V') → P'.led.credits = P.led.credits) :
    (o.run f P V).P.led.credits = P.led.credits :=
  run_preserves (fun P' => P'.led.credits = P.led.credits) o f P V
    (fun ph hm P1 V1 P2 V2 ha hq => (hp ph hm P1 V1 P2 V2 ha).trans hq) rfl

theorem opCreate_credits (nA nB nC : Nat) (w : Wid) (f : Option Nat) (P : PStore) (V : PVol) :
    ((opCreate nA nB nC w).run f P V).P.led.credits = P.led.credits := by
  refine run_credits_eq _ f P V ?_
  intro ph hm P V P' V' ha
  simp only [opCreate, List.mem_cons, List.not_mem_nil, or_false] at hm
  rcases hm with hm | hm | hm | hm <;> subst hm <;> dsimp only at ha
  · split at ha <;> cases ha
    rfl
  · cases ha; rfl
  · cases ha; rfl
  · cases ha; rfl

theorem credNodup_opCreate (nA nB nC : Nat) (w : Wid) (P : PStore) (V : PVol) (h : KeysNodup P.led.credits) :
    KeysNodup ((opCreate nA nB nC w).run none P V).P.led.credits := by
  rw [opCreate_credits]; exact h

theorem opNewAddr_credits (env : Model.Persist.Env) (nA nB nC : Nat) (stk : Bool) (f : Option Nat) (P : PStore) (V : PVol) :
    ((opNewAddr env nA nB nC stk).run f P V).P.led.credits = P.led.credits := by
  refine run_credits_eq _ f P V ?_
  intro ph hm P V P' V' ha
  simp only [opNewAddr, List.mem_cons, List.not_mem_nil, or_false] at hm
  rcases hm with hm | hm | hm | hm | hm <;> subst hm <;> dsimp only at ha
  all_goals
    repeat' (split at ha)
    all_goals first
      | (cases ha; done)
      | (cases ha; rfl)

theorem credNodup_opNewAddr (env : Model.Persist.Env) (nA nB nC : Nat) (stk : Bool) (P : PStore) (V : PVol)
    (h : KeysNodup P.led.credits) : KeysNodup ((opNewAddr env nA nB nC stk).run none P V).P.led.credits := by
  rw [opNewAddr_credits]; exact h

theorem importWalletStore_credits (s : Store) (w : Wid) (addrs : List Addr) :
    (Model.Import.importWalletStore s w addrs).credits = s.credits := by
  unfold Model.Import.importWalletStore
  dsimp only
  exact foldl_credits_eq _ addrs _ (fun _ _ _ => rfl)

theorem opImportStart_credits (n : Nat) (w : Wid) (r : KsRec) (f : Option Nat) (P : PStore) (V : PVol) :
    ((opImportStart n w r).run f P V).P.led.credits = P.led.credits := by
  refine run_credits_eq _ f P V ?_
  intro ph hm P V P' V' ha
  simp only [opImportStart, List.mem_cons, List.not_mem_nil, or_false] at hm
  rcases hm with hm | hm | hm <;> subst hm <;> dsimp only at ha
  · split at ha <;> cases ha
    rfl
  · cases ha; rfl
  · cases ha; exact importWalletStore_credits _ _ _

theorem credNodup_opImportStart (n : Nat) (w : Wid) (r : KsRec) (P : PStore) (V : PVol) (h : KeysNodup P.led.credits) :
    KeysNodup ((opImportStart n w r).run none P V).P.led.credits := by
  rw [opImportStart_credits]; exact h

theorem opRemoveMark_credits (n : Nat) (w : Wid) (f : Option Nat) (P : PStore) (V : PVol) :
    ((opRemoveMark n w).run f P V).P.led.credits = P.led.credits := by
  refine run_credits_eq _ f P V ?_
  intro ph hm P V P' V' ha
  simp only [opRemoveMark, List.mem_cons, List.not_mem_nil, or_false] at hm
  subst hm
  dsimp only at ha
  repeat' (split at ha)
  all_goals first
    | (cases ha; done)
    | (cases ha; rfl)

theorem credNodup_opRemoveMark (n : Nat) (w : Wid) (P : PStore) (V : PVol) (h : KeysNodup P.led.credits) :
    KeysNodup ((opRemoveMark n w).run none P V).P.led.credits := by
  rw [opRemoveMark_credits]; exact h

-- ------------------------------------------------------------------ 8. every event, every history

/-- round 3's world: node events, handler steps, CreateWallet, NewAddress, unconfirmed transactions, crashes -/
theorem credNodup_stepQ (st : Static) (n : Nat) (cr : Bool) (x : SysQ) (ev : EvQ) (h : KeysNodup x.P.led.credits) :
    KeysNodup (stepQ st n cr x ev).P.led.credits := by
  cases ev with
  | extend b => exact h
  | reorgTo k bs => exact h
  | handle =>
    cases hq : x.queue with
    | nil => simp only [stepQ, hq]; exact h
    | cons b q => simp only [stepQ, hq]; exact credNodup_opBlock _ n b x.P x.V h
  | create w => exact credNodup_opCreate n n n w x.P x.V h
  | newAddr w stk =>
    cases hu : useWallet x.P x.V w with
    | none => simp only [stepQ, hu]; exact h
    | some v => simp only [stepQ, hu]; exact credNodup_opNewAddr _ n n n stk x.P v h
  | recvTx tx => exact credNodup_recvTx _ n n tx x.P x.V h
  | crash =>
    cases cr with
    | false => exact h
    | true => exact credNodup_crash _ n x.P h

/-- EVERY EVENT of the world with background tasks keeps one credit entry per key -/
theorem credNodup_stepT (cfg : Cfg) (cr : Bool) (x : SysQ) (ev : EvT) (h : KeysNodup x.P.led.credits) :
    KeysNodup (stepT cfg cr x ev).P.led.credits := by
  cases ev with
  | q e => exact credNodup_stepQ cfg.st cfg.n cr x e h
  | importStart w r => exact credNodup_opImportStart cfg.n w r x.P x.V h
  | importStep w =>
    simp only [stepT]
    split
    · exact credNodup_importStep cfg.batch cfg.n _ w x.P x.V h
    · exact h
  | removeMark w => exact credNodup_opRemoveMark cfg.n w x.P x.V h
  | removeStep w =>
    simp only [stepT]
    split
    · exact credNodup_removeStep cfg.limit cfg.n _ w _ x.P x.V h
    · exact h
  | importDrain w fuel =>
    simp only [stepT]
    split
    · split
      · rename_i P' V' hl
        exact credNodup_importLoop cfg.batch cfg.n _ w h hl
      · exact h
    · exact h
  | removeDrain w =>
    simp only [stepT]
    split
    · split
      · rename_i P' V' hl
        exact credNodup_removeLoop cfg.limit cfg.n _ w _ h hl
      · exact h
    · exact h

/-- … along EVERY history (crashes included): it only has to be assumed of the initial store -/
theorem credNodup_runT (cfg : Cfg) (cr : Bool) (x : SysQ) (evs : List EvT) (h : KeysNodup x.P.led.credits) :
    KeysNodup (runT cfg cr x evs).P.led.credits := by
  induction evs generalizing x with
  | nil => exact h
  | cons ev evs ih =>
    rw [runT_cons]
    exact ih _ (credNodup_stepT cfg cr x ev h)

theorem credNodup_runQ (st : Static) (n : Nat) (cr : Bool) (x : SysQ) (evs : List EvQ) (h : KeysNodup x.P.led.credits) :
    KeysNodup (runQ st n cr x evs).P.led.credits := by
  induction evs generalizing x with
  | nil => exact h
  | cons ev evs ih =>
    rw [runQ_cons]
    exact ih _ (credNodup_stepQ st n cr x ev h)

end MW.Lemmas.Deepen4
