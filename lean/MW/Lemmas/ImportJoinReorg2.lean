/-
  C07 stage 2 with other wallets in the instance — REORGANISATIONS: the store invariant `IJ` of an instance in which
  wallet `w` is being restored while the other keystores' wallets are followed live (or `w` is ready and C01's `Inv`
  holds), its disconnect step (above the cursor: `disconnect_scanJS_above`; at the cursor: `disconnect_scanJS_at`; ready:
  C01 `disconnect_sound`), its connect step (`connect_scanJS` / C01 `connect_sound`), `processBlock` for a notification
  of any block of the node's chain (through the abstract reorg loops `MW.Lemmas.ImportReorg`), and histories of batches
  and notifications.
-/
import MW.Lemmas.ImportJoinRbk3
namespace MW.Lemmas.ImportJoin
open MW MW.Model.Ledger MW.Model.Import MW.Spec.Chain MW.Spec.Books MW.Lemmas.Ledger MW.Lemmas.RemoveBooks
open MW.Lemmas.ImportExact MW.Lemmas.ImportReorg

/-- "store `s` follows chain `X`" while `w` is being restored and the other wallets are followed live, or afterwards -/
def IJ (c : Ctx) (w : Wid) (s : Store) (X : List Block) : Prop :=
  (∃ ws k, AMap.get s.status w = some ws ∧ ws.synced = some k ∧ ws.removed = false ∧ k + 1 ≤ X.length ∧
      ScanJS c w s X k ∧ AllReady (ownR c.own w) (readyWallets s c.wallets) ∧
      (readyWallets s c.wallets).isEmpty = false) ∨
  (AMap.get s.status w = some ⟨none, false⟩ ∧ Inv c s X ∧ AllReady c.own (readyWallets s c.wallets))

theorem ij_sync {c : Ctx} {w : Wid} {s : Store} {X : List Block} (h : IJ c w s X) :
    ∀ h', AMap.get s.sync h' = syncOf X h' := by
  rcases h with ⟨_, _, _, _, _, _, hS, _, _⟩ | ⟨_, hI, _⟩
  · exact hS.sync
  · exact hI.sync

theorem status_of_ready_mem {s : Store} {l : List Wid} {w : Wid} (h : (readyWallets s l).contains w = true) :
    AMap.get s.status w = some ⟨none, false⟩ := by
  have := ((ready_contains_iff s l w).1 h).2
  cases hg : AMap.get s.status w with
  | none => rw [hg] at this; cases this
  | some st =>
    rw [hg] at this
    obtain ⟨sy, rm⟩ := st
    simp only [Bool.and_eq_true, Option.isNone_iff_eq_none, Bool.not_eq_true'] at this
    obtain ⟨h1, h2⟩ := this
    subst h1 h2
    rfl

/-- **disconnecting the tip block** -/
theorem ij_disc {c : Ctx} {w : Wid} (hKN : KeysNodup c.own) (hw : w ∈ c.wallets) {S : List Block}
    (hgS : GoodChain S) (hvS : ChainValid c.own S) (hkn : ∀ x ∈ S, AMap.get c.node.known x.id = some x)
    {s : Store} {k : Nat} (hk0 : 0 < k) (hkl : k < S.length) (hI : IJ c w s (S.take (k + 1))) :
    ∃ s', disconnectBlock c s k = .ok s' ∧ IJ c w s' (S.take k) := by
  have hx : S[k]? = some S[k] := List.getElem?_eq_getElem hkl
  have e := take_succ_of_get hx
  have hbh : S[k].height = k := hgS.height_at hx
  have hne : S.take k ≠ [] := by
    intro h0
    have := congrArg List.length h0
    rw [List.length_take, List.length_nil] at this
    omega
  have hV : ChainValid c.own (S.take k ++ [S[k]]) := by rw [← e]; exact chainValid_take hvS _
  have hH : HeightsOK (S.take k ++ [S[k]]) := by rw [← e]; exact heightsOK_take hgS.heights _
  have hknb := hkn _ (mem_of_get hx)
  have hlk : (S.take k).length = k := by rw [List.length_take]; omega
  rw [e] at hI
  rcases hI with ⟨ws, k0, hst, hk, hrm, hle, hS, hAR, hne'⟩ | ⟨hst, hI, hAR⟩
  · simp only [List.length_append, List.length_singleton, hlk] at hle
    by_cases hat : k0 = k
    · -- at the cursor
      subst hat
      obtain ⟨s', hd, hS', hst', hr'⟩ := disconnect_scanJS_at hKN hV hH hne hknb (by rw [hlk]; exact hS) hst
        (by rw [hlk]; exact hk) hAR
      rw [hbh] at hd
      refine ⟨s', hd, Or.inl ⟨_, _, hst', rfl, hrm, by rw [hlk]; omega, hS', ?_, ?_⟩⟩
      · rw [hr']; exact hAR
      · rw [hr']; exact hne'
    · obtain ⟨s', hd, hS', hst', hr'⟩ := disconnect_scanJS_above hKN hV hH hne hknb hS hst hk (by rw [hlk]; omega) hAR
      rw [hbh] at hd
      refine ⟨s', hd, Or.inl ⟨ws, k0, hst', hk, hrm, by rw [hlk]; omega, hS', ?_, ?_⟩⟩
      · rw [hr']; exact hAR
      · rw [hr']; exact hne'
  · obtain ⟨s', hd, hI', hr'⟩ := disconnect_sound (c := c) s (S.take k) S[k] hI hne hV hH hknb hAR
    rw [hbh] at hd
    refine ⟨s', hd, Or.inr ⟨?_, hI', by rw [hr']; exact hAR⟩⟩
    apply status_of_ready_mem (l := c.wallets)
    rw [hr']
    apply (ready_contains_iff s c.wallets w).2
    exact ⟨hw, by rw [hst]; rfl⟩

/-- **connecting the next block of the node's chain** -/
theorem ij_connect {c : Ctx} {w : Wid} (hKN : KeysNodup c.own) (hw : w ∈ c.wallets)
    (hgN : GoodChain c.node.chain) (hvN : ChainValid c.own c.node.chain) {s : Store} {h : Nat} {b : Block}
    (hb : c.node.chain[h + 1]? = some b) (hI : IJ c w s (c.node.chain.take (h + 1))) :
    ∃ s' conf, filterBlock c s (readyWallets s c.wallets) b = .ok (s', conf) ∧
      IJ c w s' (c.node.chain.take (h + 2)) ∧ s'.status = s.status := by
  have hbh : b.height = h + 1 := hgN.height_at hb
  have hlt : h + 1 < c.node.chain.length := (List.getElem?_eq_some_iff.1 hb).1
  have hlen : (c.node.chain.take (h + 1)).length = h + 1 := by rw [List.length_take]; omega
  have e := take_succ_of_get hb
  have hnode : c.node.chain = c.node.chain.take (h + 1) ++ b :: c.node.chain.drop (h + 2) := by
    have : c.node.chain.drop (h + 1) = b :: c.node.chain.drop (h + 2) := by
      rw [List.drop_eq_getElem?_toList_append, hb]; rfl
    rw [← this, List.take_append_drop]
  rcases hI with ⟨ws, k, hst, hk, hrm, hle, hS, hAR, hne⟩ | ⟨hst, hI, hAR⟩
  · obtain ⟨s', conf, hfb, hS', hst', _⟩ := connect_scanJS hKN ⟨hvN, hgN.heights⟩ hnode hS hst hk hle hAR hne
    refine ⟨s', conf, hfb, Or.inl ⟨ws, k, by rw [hst']; exact hst, hk, hrm, ?_, ?_, ?_, ?_⟩, hst'⟩
    · rw [List.length_take]; rw [hlen] at hle; omega
    · rw [show h + 2 = h + 1 + 1 from rfl, e]; exact hS'
    · rw [readyWallets_congr hst']; exact hAR
    · rw [readyWallets_congr hst']; exact hne
  · have hrne : (readyWallets s c.wallets).isEmpty = false := by
      have : (readyWallets s c.wallets).contains w = true :=
        (ready_contains_iff s c.wallets w).2 ⟨hw, by rw [hst]; rfl⟩
      cases hr1 : readyWallets s c.wallets with
      | nil => rw [hr1] at this; cases this
      | cons _ _ => rfl
    obtain ⟨s', conf, hfb, hI2, hst2⟩ := connect_sound (c := c) (s := s) hI hnode hvN (by rw [hlen]; exact hbh) hAR hrne
    refine ⟨s', conf, hfb, Or.inr ⟨by rw [hst2]; exact hst, ?_, by rw [readyWallets_congr hst2]; exact hAR⟩, hst2⟩
    rw [show h + 2 = h + 1 + 1 from rfl, e]; exact hI2

theorem ij_connSpec {c : Ctx} {w : Wid} (hKN : KeysNodup c.own) (hw : w ∈ c.wallets)
    (hgN : GoodChain c.node.chain) (hvN : ChainValid c.own c.node.chain) :
    ConnSpec c (IJ c w) (fun _ => True) := by
  have key : ∀ (d : Nat) (s : Store) (f B : Nat) (ready : List Wid) (added : List (Nat × List TxId)), B - f = d → f ≤ B →
      B < c.node.chain.length → IJ c w s (c.node.chain.take (f + 1)) → ready = readyWallets s c.wallets →
      ∃ s' added', connectAll c ready ((c.node.chain.take (B + 1)).drop (f + 1)) s added = .ok (s', added') ∧
        IJ c w s' (c.node.chain.take (B + 1)) := by
    intro d
    induction d with
    | zero =>
      intro s f B ready added hd hfB _ hI _
      have : f = B := by omega
      subst this
      refine ⟨s, added, ?_, hI⟩
      rw [List.drop_take]; simp [connectAll]
    | succ d ih =>
      intro s f B ready added hd hfB hBl hI hr
      have hx : c.node.chain[f + 1]? = some c.node.chain[f + 1] := List.getElem?_eq_getElem (by omega)
      rw [seg_cons hx (by omega)]
      obtain ⟨s1, conf, hfb, hI1, hst1⟩ := ij_connect hKN hw hgN hvN hx hI
      obtain ⟨s2, added2, h2, hI2⟩ := ih s1 (f + 1) B ready (added ++ [(c.node.chain[f + 1].height, conf)]) (by omega)
        (by omega) hBl hI1 (by rw [hr]; exact (readyWallets_congr hst1 c.wallets).symm)
      refine ⟨s2, added2, ?_, hI2⟩
      unfold connectAll
      rw [hr, hfb]
      simp only [M_ok_bind]
      rw [← hr]
      exact h2
  intro s f B hfB hBl hI _
  obtain ⟨s', added', h1, h2⟩ := key (B - f) s f B _ [] rfl hfB hBl hI rfl
  exact ⟨s', added', h1, h2, trivial⟩

/-- **a notification for any block of the node's best chain** (extension, reorganisation above / at / below the
    cursor), other wallets followed live -/
theorem ij_processBlock {c : Ctx} {w : Wid} (hKN : KeysNodup c.own) (hw : w ∈ c.wallets) {S : List Block}
    (hgN : GoodChain c.node.chain) (hgS : GoodChain S) (hgen : S[0]? = c.node.chain[0]?)
    (hinj : IdInj (S ++ c.node.chain)) (hvN : ChainValid c.own c.node.chain) (hvS : ChainValid c.own S)
    (hkn : ∀ x ∈ S, AMap.get c.node.known x.id = some x)
    {s : Store} {v : Vol} {b : Block} (hI : IJ c w s S) (hb : c.node.chain[b.height]? = some b)
    (hv : v.best = tipMeta S) (hg0 : b.height = 0 → b.prev ≠ (tipMeta S).hash) :
    ∃ s' v', processBlock c s v b = (s', v', true) ∧ IJ c w s' (c.node.chain.take (b.height + 1)) ∧
      v'.best = tipMeta (c.node.chain.take (b.height + 1)) := by
  have H : RIface c S (IJ c w) (fun _ => True) :=
    ⟨hgN, hgS, hgen, hinj,
     fun {s n k x} hI hk hx => by
       rw [ij_sync hI, syncOf, getElem?_take_of_lt hk, hx]; rfl,
     fun {s k} hk0 hkl hI _ => by
       obtain ⟨s', h1, h2⟩ := ij_disc hKN hw hgS hvS hkn hk0 hkl hI
       exact ⟨s', h1, h2, trivial⟩⟩
  obtain ⟨s', v', h1, h2, _, h4, _⟩ := processBlock_reachesI H (ij_connSpec hKN hw hgN hvN) hI hb hv hg0 trivial
    (by
      intro k hS hk
      rw [hS] at hI
      have hb' : c.node.chain[k + 1]? = some b := by rw [← hk]; exact hb
      obtain ⟨s', conf, hfb, hI', _⟩ := ij_connect hKN hw hgN hvN hb' hI
      exact ⟨s', conf, hfb, hI', trivial⟩)
  exact ⟨s', v', h1, h2, h4⟩

-- ------------------------------------------------------------------ histories: batches and notifications

/-- the state invariant: the store follows the node's chain (`IJ`), the follower's tip is the chain's tip -/
def RInvJ (batch : Nat) (p : Params) (own : Own) (wallets : List Wid) (w : Wid) (sys : XSys) : Prop :=
  IJ { p := p, own := own, wallets := wallets, node := sys.node } w sys.s sys.node.chain ∧
  sys.v.best = tipMeta sys.node.chain ∧ GoodChain sys.node.chain ∧ ChainValid own sys.node.chain ∧
  sys.node.chain.length + batch < 2 ^ 64

theorem stepRJ_inv {batch : Nat} (hb : batch > 0) {p : Params} {own : Own} {wallets : List Wid} {w : Wid}
    (hKN : KeysNodup own) (hw : w ∈ wallets) (sys : XSys) (e : REv) (hgood : GoodR batch own sys e)
    (hI : RInvJ batch p own wallets w sys) : RInvJ batch p own wallets w (stepR batch p own wallets w sys e) := by
  obtain ⟨hIJ, hv, hg, hval, hnb⟩ := hI
  have hbest := best_of_tip hg hv
  cases e with
  | batch =>
    have hX : XInvJ False p own wallets w sys := by
      refine ⟨hbest, fun h => h.elim, ?_⟩
      rcases hIJ with ⟨ws, k, hst, hk, hrm, hle, hS, hAR, hne⟩ | ⟨hst, hI, hAR⟩
      · exact Or.inl ⟨ws, k, hst, hk, hrm, by omega, scanJ_of_scanJS hS, hAR, hne⟩
      · exact Or.inr ⟨hst, hI, hAR⟩
    have hnode : (stepX batch p own wallets w sys .batch).node = sys.node := by
      simp only [stepX]
      split
      · split <;> rfl
      · rfl
    have hX' := stepXJ_inv hb hKN hw sys .batch (by rw [hnode]; exact ⟨hval, hg.heights⟩) (by rw [hnode]; exact hnb) hX
    have hvb : (stepX batch p own wallets w sys .batch).v.best = sys.v.best := by
      simp only [stepX]
      split
      · rename_i k rm hst
        cases hstep : importStep batch { p := p, own := own, wallets := wallets, node := sys.node } w sys.s sys.v with
        | error e => rfl
        | ok r =>
          obtain ⟨s1, v1, fin⟩ := r
          simp only
          rcases hIJ with ⟨ws, k0, hst0, hk0, hrm0, hle0, hS0, _, _⟩ | ⟨hst0, _, _⟩
          · obtain ⟨s2, v2, h1, _, _, hv1, _⟩ := importStep_scanJ hb (c := { p := p, own := own, wallets := wallets, node := sys.node })
              hKN ⟨hval, hg.heights⟩ (scanJ_of_scanJS hS0) (List.contains_iff_mem.2 hw) hst0 hk0 hbest (by omega) (by omega)
            rw [hstep] at h1
            injection h1 with h1
            injection h1 with _ h1
            injection h1 with h1 _
            rw [h1]; exact hv1
          · rw [hst0] at hst; cases hst
      · rfl
    show RInvJ batch p own wallets w (stepX batch p own wallets w sys .batch)
    obtain ⟨hb', _, hcase⟩ := hX'
    refine ⟨?_, by rw [hvb, hnode]; exact hv, by rw [hnode]; exact hg, by rw [hnode]; exact hval, by rw [hnode]; exact hnb⟩
    rw [hnode] at hb' ⊢
    rcases hcase with ⟨ws, k, hst, hk, hrm, hle, hS, hAR, hne⟩ | ⟨hst, hI, hAR⟩
    · refine Or.inl ⟨ws, k, hst, hk, hrm, by omega, ?_, hAR, hne⟩
      have := scanJS_of_scanJ hS
      rw [hnode] at this
      exact this
    · exact Or.inr ⟨hst, by rw [hnode] at hI; exact hI, hAR⟩
  | notify N b =>
    obtain ⟨hgN, hgen, hinj, hvN, hkn, hbN, htip, hg0, hnbN⟩ := hgood
    have hIJ' : IJ { p := p, own := own, wallets := wallets, node := { sys.node with chain := N } } w sys.s sys.node.chain := by
      rcases hIJ with ⟨ws, k, hst, hk, hrm, hle, hS, hAR, hne⟩ | ⟨hst, hI, hAR⟩
      · exact Or.inl ⟨ws, k, hst, hk, hrm, hle, ⟨hS.agree, hS.blocks, hS.txpos, hS.bal, hS.balR, hS.sync, hS.syncedTo⟩, hAR, hne⟩
      · exact Or.inr ⟨hst, ⟨hI.agree, hI.bal, hI.sync, hI.syncedTo⟩, hAR⟩
    obtain ⟨s', v', hpb, hI', hv'⟩ := ij_processBlock
      (c := { p := p, own := own, wallets := wallets, node := { sys.node with chain := N } }) (w := w) (S := sys.node.chain)
      hKN hw hgN hg hgen hinj hvN hval hkn hIJ' hbN hv hg0
    have htake : N.take (b.height + 1) = N := by rw [htip, List.take_length]
    have hstep : stepR batch p own wallets w sys (.notify N b) = { node := { sys.node with chain := N }, s := s', v := v' } := by
      simp only [stepR]
      rw [hpb]
    rw [hstep]
    rw [htake] at hI' hv'
    exact ⟨hI', hv', hgN, hvN, hnbN⟩

/-- **stage 2 with reorganisations, other wallets in the instance**: the invariant survives every history of batches
    and notifications -/
theorem foldRJ_inv {batch : Nat} (hb : batch > 0) {p : Params} {own : Own} {wallets : List Wid} {w : Wid}
    (hKN : KeysNodup own) (hw : w ∈ wallets) (evs : List REv) :
    ∀ (sys : XSys), AllGoodR batch p own wallets w sys evs → RInvJ batch p own wallets w sys →
      RInvJ batch p own wallets w (evs.foldl (stepR batch p own wallets w) sys) := by
  induction evs with
  | nil => intro sys _ h; exact h
  | cons e evs ih =>
    intro sys hgood hI
    rw [List.foldl_cons]
    exact ih _ hgood.2 (stepRJ_inv hb hKN hw sys e hgood.1 hI)

end MW.Lemmas.ImportJoin
