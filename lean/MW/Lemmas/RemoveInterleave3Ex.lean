/-
  C08, interleaved removal — non-vacuity of `remove_interleaved_ext` (and so of `phase2_notify_ext`): wallets and stores
  of `MW.Lemmas.RemoveMidCex`; the history
      reorganisation to chain C = G – B1 – B2c · removal step (does not finish) ·
      the node announces B3c on top of chain C (W1 spends its coin of B1 and is paid twice; the outputs paying the
      flagged W2 are not booked) · finishing removal step
  is inside `DomB`; every hypothesis holds, hence C01's invariant for W1 alone on chain D = C ++ [B3c].
-/
import MW.Lemmas.RemoveInterleave3
import MW.Lemmas.RemoveInterleave2Ex
namespace MW.Lemmas.RemoveInterleave3Ex
open MW MW.Model.Ledger MW.Model.Remove MW.Spec.Chain MW.Spec.Books MW.Lemmas.Ledger MW.Lemmas.RemoveProj
  MW.Lemmas.RemoveInv MW.Lemmas.RemoveMain MW.Lemmas.RemoveInterleave MW.Lemmas.RemoveMidCex MW.Lemmas.RemoveGlue
  MW.Lemmas.RemoveInterleave2Ex

def c3c : Tx := ⟨"C3c", true, [], [⟨"A2", 8, .std⟩, ⟨"A1", 11, .std⟩]⟩
def x4 : Tx := ⟨"X4", false, [⟨"C1", 2, 0⟩], [⟨"A1", 45, .std⟩, ⟨"A2", 5, .std⟩]⟩
def b3c : Block := ⟨"B3c", "B2c", 3, [c3c, x4]⟩
def chainD : List Block := chainC ++ [b3c]
def knownD : AMap.T BlkId Block := knownC ++ [("B3c", b3c)]
def nodeD : Node := { chain := chainD, known := knownD }

/-- reorganisation to chain C · removal step · extension by B3c · finishing removal step -/
def evsD : List IEv := [.notify nodeC b2c, .rem, .notify nodeD b3c, .rem]

theorem goodD : GoodChain chainD := by
  refine ⟨?_, ?_, by simp [chainD, chainC]⟩
  · intro i x h
    match i with
    | 0 => simp [chainD, chainC] at h; rw [← h]; rfl
    | 1 => simp [chainD, chainC] at h; rw [← h]; rfl
    | 2 => simp [chainD, chainC] at h; rw [← h]; rfl
    | 3 => simp [chainD, chainC] at h; rw [← h]; rfl
    | n + 4 => simp [chainD, chainC] at h
  · intro i x y hx hy
    match i with
    | 0 => simp [chainD, chainC] at hx hy; rw [← hx, ← hy]; rfl
    | 1 => simp [chainD, chainC] at hx hy; rw [← hx, ← hy]; rfl
    | 2 => simp [chainD, chainC] at hx hy; rw [← hx, ← hy]; rfl
    | n + 3 => simp [chainD, chainC] at hy

theorem nodeD_ok : NodeOK own g knownC nodeD b3c where
  good := goodD
  valid := by show ChainValid own chainD; decide
  genesis := rfl
  known := by
    intro x hx
    change x ∈ chainC ++ [b3c] at hx
    simp only [chainC, List.cons_append, List.nil_append, List.mem_cons, List.not_mem_nil, or_false] at hx
    rcases hx with rfl | rfl | rfl | rfl <;> rfl
  grows := fun _ _ h => get_append_left h
  tip := rfl

theorem runD : (irun 1 ctx "W2" ["A2"] x0 evsD).map
    (fun x => (x.fin, x.v.best.hash, x.s.syncedTo, x.s.credits.map (·.1.tx), x.s.debits.map (·.1.tx))) =
    some (true, "B3c", 3, ["X4", "C1", "C3c", "C2c"], ["X4"]) := by decide

/-- the first step does not finish; the extension is processed between the two steps -/
theorem runD_mid : (irun 1 ctx "W2" ["A2"] x0 (evsD.take 3)).map
    (fun x => (x.fin, x.v.best.hash, x.s.credits.map (·.1.tx))) =
    some (false, "B3c", ["X4", "C1", "C3c", "C2c", "C1"]) := by decide

/-- what `DomB` asks along the history, by evaluation -/
theorem factsD :
    (irun 1 ctx "W2" ["A2"] x0 (evsD.take 1)).map (fun x => pendOKb ["A2"] x.s x.node.chain) = some true ∧
    (irun 1 ctx "W2" ["A2"] x0 (evsD.take 2)).map (fun x => x.v.best.hash) = some "B2c" ∧
    (irun 1 ctx "W2" ["A2"] x0 (evsD.take 3)).map (fun x => pendOKb ["A2"] x.s x.node.chain) = some true := by
  decide

theorem domD : DomB 1 ctx "W2" ["A2"] g false x0 evsD := by
  obtain ⟨f1, f2, f3⟩ := factsD
  refine ⟨⟨nodeC_ok, Or.inl ⟨rfl, injAC, fun h => by cases h⟩⟩, ?_⟩
  intro x1 h1
  have hn1 : x1.node = nodeC := istep_node h1
  simp only [evsD, List.take, irun, h1, Option.map_some, Option.some.injEq] at f1 f2 f3
  refine ⟨pendOK_of_check f1, ?_⟩
  intro x2 h2
  have hn2 : x2.node = nodeC := (istep_node h2).trans hn1
  simp only [h2, Option.map_some, Option.some.injEq] at f2 f3
  refine ⟨⟨by rw [hn2]; exact nodeD_ok, Or.inr ⟨rfl, by rw [hn2]; rfl, by rw [f2]; rfl⟩⟩, ?_⟩
  intro x3 h3
  simp only [h3, Option.map_some, Option.some.injEq] at f3
  exact ⟨pendOK_of_check f3, fun _ _ => trivial⟩

/-- **a block arrives between the two removal steps: C01's invariant for W1 alone on chain D** -/
example (x : ISt) (h : irun 1 ctx "W2" ["A2"] x0 evsD = some x) :
    x.node = nodeD ∧ Inv { ctx with own := own', wallets := ["W1"], node := x.node } x.s x.node.chain := by
  have hr := runD
  rw [h] at hr
  simp only [Option.map_some, Option.some.injEq, Prod.mk.injEq] at hr
  exact ⟨irun_node evsD x0 x h, remove_interleaved_ext phase1_x0 static domD h hr.1 only_w1⟩

theorem runD_some : (irun 1 ctx "W2" ["A2"] x0 evsD).isSome = true := by decide

end MW.Lemmas.RemoveInterleave3Ex
