/-
  C06 deepening (round 4), part 4: THE KEYSTORE EVENTS INSIDE AN IMPORT WINDOW — CreateWallet and NewAddress (for a
  ready wallet) keep `JI`.

  * `ij_frame`: C07's joined invariant `IJ` reads the mined buckets, the height table, synced-to, the status and the
    balance of the wallet being restored, the balances of the ready wallets, and the keystore view only through the
    three books `bookOf p (ownR own w) X`, `bookOf p (ownW own w) (X.take (k+1))`, `bookOf p own X` and through
    `AllReady`.
  * `JI_create`: the new wallet is ready, owns no address, has balance 0 = what any of these books pays it.
  * `JI_newAddr`: the address issued for a ready wallet `w1 ≠ w` is paid by no chain the node has had, so the three
    books are what they were (`bookOf_own_congr`), for the LARGER keystore view.
-/
import MW.Lemmas.Deepen4Import
namespace MW.Lemmas.Deepen4
open MW MW.Model.Ledger MW.Model.Persist MW.Spec.Persist MW.Spec.Chain MW.Spec.Books MW.Lemmas.Ledger
  MW.Lemmas.PersistOp MW.Lemmas.PersistFault MW.Lemmas.PersistCrash MW.Lemmas.Deepen3 MW.Lemmas.ImportJoin

-- ------------------------------------------------------------------ what `IJ` reads

/-- the mined buckets, the block records, the height table and synced-to of two stores coincide -/
structure SameMined (s s' : Store) : Prop where
  unspent : s'.unspent = s.unspent
  credits : s'.credits = s.credits
  debits : s'.debits = s.debits
  game : s'.game = s.game
  txrecs : s'.txrecs = s.txrecs
  blocks : s'.blocks = s.blocks
  sync : s'.sync = s.sync
  syncedTo : s'.syncedTo = s.syncedTo

theorem isEmpty_false_of_contains {l : List Wid} {a : Wid} (h : l.contains a = true) : l.isEmpty = false := by
  cases l with
  | nil => simp at h
  | cons _ _ => rfl

theorem exists_contains_of_isEmpty_false {l : List Wid} (h : l.isEmpty = false) : ∃ a, l.contains a = true := by
  cases l with
  | nil => cases h
  | cons a t => exact ⟨a, by simp⟩

/-- `IJ` for another keystore view / wallet list / store that gives the same books, the same mined buckets, and
    in which every ready wallet was ready with the same balance, or is a new one with balance 0 that no book pays -/
theorem ij_frame {c c' : Ctx} {w : Wid} {s s' : Store} {X : List Block} (hp : c'.p = c.p) (hM : SameMined s s')
    (hstw : AMap.get s'.status w = AMap.get s.status w)
    (hbw : AMap.get s'.balance w = AMap.get s.balance w)
    (hbR : bookOf c.p (ownR c'.own w) X = bookOf c.p (ownR c.own w) X)
    (hbW : ∀ k, bookOf c.p (ownW c'.own w) (X.take (k + 1)) = bookOf c.p (ownW c.own w) (X.take (k + 1)))
    (hbF : bookOf c.p c'.own X = bookOf c.p c.own X)
    (hbal : ∀ w', (readyWallets s' c'.wallets).contains w' = true →
      ((readyWallets s c.wallets).contains w' = true ∧ AMap.get s'.balance w' = AMap.get s.balance w') ∨
      (w' ≠ w ∧ AMap.get s'.balance w' = some 0 ∧ totalU (bookOf c.p (ownR c.own w) X).L w' = 0 ∧
        totalU (bookOf c.p c.own X).L w' = 0))
    (hAR1 : AllReady (ownR c.own w) (readyWallets s c.wallets) →
      AllReady (ownR c'.own w) (readyWallets s' c'.wallets))
    (hAR2 : AllReady c.own (readyWallets s c.wallets) → AllReady c'.own (readyWallets s' c'.wallets))
    (hne : (readyWallets s c.wallets).isEmpty = false → (readyWallets s' c'.wallets).isEmpty = false)
    (hI : IJ c w s X) : IJ c' w s' X := by
  rcases hI with ⟨ws, k, hst, hk, hrm, hle, hS, hAR, hn⟩ | ⟨hst, hI, hAR⟩
  · refine Or.inl ⟨ws, k, by rw [hstw]; exact hst, hk, hrm, hle, ⟨⟨?_, ?_, ?_, ?_, ?_⟩, ?_, ?_, ?_, ?_, ?_, ?_⟩,
      hAR1 hAR, hne hn⟩
    · intro w' tx idx; rw [hp, hbR, hbW, hM.unspent]; exact hS.agree.unspent w' tx idx
    · intro k'; rw [hp, hbR, hbW, hM.credits]; exact hS.agree.credits k'
    · intro k'; rw [hp, hbR, hbW, hM.debits]; exact hS.agree.debits k'
    · intro k'; rw [hp, hbR, hbW, hM.game]; exact hS.agree.game k'
    · intro k'; rw [hp, hbR, hbW, hM.txrecs]; exact hS.agree.txrecs k'
    · exact blocksOK_congr hS.blocks (fun _ => by rw [hM.txrecs]) (fun _ => by rw [hM.blocks])
    · exact txPos_congr hS.txpos (fun _ => by rw [hM.txrecs])
    · rw [hp, hbW, hbw]; exact hS.bal
    · intro w' hw' hrw
      rw [hp, hbR]
      rcases hbal w' hrw with ⟨h1, h2⟩ | ⟨_, h2, h3, _⟩
      · rw [h2]; exact hS.balR w' hw' h1
      · rw [h2, h3]
    · intro k'; rw [hM.sync]; exact hS.sync k'
    · rw [hM.syncedTo]; exact hS.syncedTo
  · refine Or.inr ⟨by rw [hstw]; exact hst, ⟨⟨?_, ?_, ?_, ?_, ?_, ?_⟩, ?_, ?_, ?_⟩, hAR2 hAR⟩
    · intro w' tx idx; rw [hp, hbF, hM.unspent]; exact hI.agree.unspent w' tx idx
    · intro k'; rw [hp, hbF, hM.credits]; exact hI.agree.credits k'
    · intro k'; rw [hp, hbF, hM.debits]; exact hI.agree.debits k'
    · intro k'; rw [hp, hbF, hM.game]; exact hI.agree.game k'
    · intro k'; rw [hp, hbF, hM.txrecs]; exact hI.agree.txrecs k'
    · intro k'; rw [hp, hbF, hM.blocks]; exact hI.agree.blocks k'
    · intro w' hrw
      rw [hp, hbF]
      rcases hbal w' hrw with ⟨h1, h2⟩ | ⟨_, h2, _, h3⟩
      · rw [h2]; exact hI.bal w' h1
      · rw [h2, h3]
    · intro k'; rw [hM.sync]; exact hI.sync k'
    · rw [hM.syncedTo]; exact hI.syncedTo

-- ------------------------------------------------------------------ CreateWallet

/-- no ledger entry of a valid chain, in the books of any sub-view of the keystore table, belongs to a wallet the
    keystore does not know -/
theorem totalU_unknown {p : Params} {ks : AMap.T Wid KsRec} {own' : Own} {keep : Wid → Bool}
    (hO : OwnSub (ownOf ks) own' keep) {S : List Block} (hv : ChainValid (ownOf ks) S) {w2 : Wid}
    (hw2 : w2 ∉ walletsOf ks) : totalU (bookOf p own' S).L w2 = 0 := by
  apply Deepen3.totalU_zero
  intro u hu e
  have h1 := (loc_bookOf (p := p) (chainValid_sub hO hv)).1.own u hu
  have h2 := ((ownerOf_sub_some hO).1 h1).1
  unfold ownerOf at h2
  by_cases hr : u.out.cls = .raw
  · simp [hr] at h2
  · simp only [hr, if_false] at h2
    exact hw2 (e ▸ (own_wallet_mem (amap_mem_of_get h2)).1)

/-- CREATEWALLET inside an import window: the new wallet is ready, owns no address and has balance 0 = what the
    stored chain pays it in any of the books; the status of the wallet being restored and the worker's queue are
    untouched; a duplicate name changes nothing -/
theorem JI_create {cfg : Cfg} {G : Block} (cr : Bool) {x : SysQ} {k : Skel} {w : Wid} (w2 : Wid)
    (hJ : JI cfg G x k w) :
    JI cfg G (stepQ cfg.st cfg.n cr x (.create w2)) (skStep cfg.st k (.create w2)) w := by
  by_cases hs : (AMap.get k.ks w2).isSome = true
  · have h1 : stepQ cfg.st cfg.n cr x (.create w2) = x := by
      simp only [stepQ]
      rw [create_none]
      rw [hJ.ks, if_pos hs]
    have h2 : skStep cfg.st k (.create w2) = k := by simp only [skStep]; rw [if_pos hs]
    rw [h1, h2]; exact hJ
  · obtain ⟨hc, hks, hkeys, hw, hnW, hnA, ⟨X, hX, hIJ, hv, hpre, hq0⟩, hqk, hql, hN, hcur, hoth, htask⟩ := hJ
    have hnone : AMap.get k.ks w2 = none := by simpa using hs
    have h1 : stepQ cfg.st cfg.n cr x (.create w2) =
        { x with P := createdStore x.P w2, V := { x.V with keys := AMap.put x.V.keys w2 {} } } := by
      simp only [stepQ]
      rw [create_none]
      rw [hks, if_neg hs]
    have h2 : skStep cfg.st k (.create w2) = { k with ks := AMap.put k.ks w2 {} } := by
      simp only [skStep]; rw [if_neg hs]
    have hwnot : w2 ∉ walletsOf k.ks := amap_get_none_iff.1 hnone
    have hww : w ≠ w2 := fun e => hwnot (e ▸ hw)
    have hwal := walletsOf_put_new k.ks w2 {} hnone
    have he' : lenv cfg.st (AMap.put k.ks w2 {}) = { lenv cfg.st k.ks with wallets := w2 :: walletsOf k.ks } := by
      unfold lenv
      rw [ownOf_put_new k.ks w2 hnone, hwal]
    have hrb : ∀ w', w' ≠ w2 → readyB (createdStore x.P w2).led w' = readyB x.P.led w' := by
      intro w' hw'
      rw [readyB_created, if_neg (fun e => hw' e.symm)]
    have hrw : readyB (createdStore x.P w2).led w2 = true := by rw [readyB_created, if_pos rfl]
    have hold : ∀ w', (readyWallets x.P.led (walletsOf k.ks)).contains w' = true →
        (readyWallets (createdStore x.P w2).led (w2 :: walletsOf k.ks)).contains w' = true := by
      intro w' h
      rw [mem_readyWallets] at h ⊢
      have hne' : w' ≠ w2 := fun e => hwnot (e ▸ h.1)
      exact ⟨List.mem_cons_of_mem _ h.1, by rw [hrb w' hne']; exact h.2⟩
    have hstw : AMap.get (createdStore x.P w2).led.status w = AMap.get x.P.led.status w := by
      show AMap.get (AMap.put x.P.led.status w2 ⟨none, false⟩) w = _
      rw [AMap.get_put, if_neg (fun e => hww e.symm)]
    have hIJ' : IJ ((lenv cfg.st (AMap.put k.ks w2 {})).ctx k.chain) w (createdStore x.P w2).led X := by
      rw [he']
      refine ij_frame (c := (lenv cfg.st k.ks).ctx k.chain)
        (c' := ({ lenv cfg.st k.ks with wallets := w2 :: walletsOf k.ks } : Ledger.Env).ctx k.chain)
        (s := x.P.led) (s' := (createdStore x.P w2).led) rfl
        ⟨rfl, rfl, rfl, rfl, rfl, rfl, rfl, rfl⟩ hstw ?_ rfl (fun _ => rfl) rfl ?_ ?_ ?_ ?_ hIJ
      · show AMap.get (AMap.put x.P.led.balance w2 0) w = _
        rw [AMap.get_put, if_neg (fun e => hww e.symm)]
      · intro w' hw'
        have hw'' : w' ∈ w2 :: walletsOf k.ks ∧ readyB (createdStore x.P w2).led w' = true := mem_readyWallets.1 hw'
        by_cases hw2 : w' = w2
        · subst hw2
          refine Or.inr ⟨fun e => hww e.symm, ?_, ?_, ?_⟩
          · show AMap.get (AMap.put x.P.led.balance w' 0) w' = _
            rw [AMap.get_put, if_pos rfl]
          · exact totalU_unknown (ownR_sub hnA w) hX.valid hwnot
          · exact Deepen3.totalU_zero (fun u hu e => hwnot (e ▸ ledger_wallet_known hX.valid hu))
        · refine Or.inl ⟨?_, ?_⟩
          · rw [mem_readyWallets]
            rcases List.mem_cons.1 hw''.1 with h | h
            · exact absurd h hw2
            · exact ⟨h, by rw [← hrb w' hw2]; exact hw''.2⟩
          · show AMap.get (AMap.put x.P.led.balance w2 0) w' = _
            rw [AMap.get_put, if_neg (fun e => hw2 e.symm)]
      · intro hAR a w'' ch hg
        exact hold w'' (hAR a w'' ch hg)
      · intro hAR a w'' ch hg
        exact hold w'' (hAR a w'' ch hg)
      · intro _
        exact isEmpty_false_of_contains (a := w2) (mem_readyWallets.2 ⟨List.mem_cons_self, hrw⟩)
    have hdone : importDone (createdStore x.P w2) w = importDone x.P w := by
      unfold importDone; rw [hstw]
    rw [h1, h2]
    refine ⟨hc, by show (createdStore x.P w2).ks = _; unfold createdStore; rw [hks],
      by show AMap.put x.V.keys w2 {} = _; rw [hkeys], by rw [hwal]; exact List.mem_cons_of_mem _ hw,
      by rw [hwal]; exact List.nodup_cons.2 ⟨hwnot, hnW⟩,
      by show KeysNodup (ownOf (AMap.put k.ks w2 {})); rw [ownOf_put_new k.ks w2 hnone]; exact hnA,
      ⟨X, by rw [he']; exact chainOK_congr (e := lenv cfg.st k.ks) rfl rfl hX, hIJ', hv, hpre, hq0⟩, hqk, hql,
      by rw [he']; exact chainOK_congr (e := lenv cfg.st k.ks) rfl rfl hN, hcur, ?_, ?_⟩
    · intro w' hw' hne'
      rw [hwal] at hw'
      show readyB (createdStore x.P w2).led w' = true
      rcases List.mem_cons.1 hw' with h | h
      · rw [h]; exact hrw
      · rw [hrb w' (fun e => hwnot (e ▸ h))]; exact hoth w' h hne'
    · intro hnd
      show x.V.tasks.contains (.imp w) = true
      exact htask (by rw [← hdone]; exact hnd)

-- ------------------------------------------------------------------ NewAddress

/-- sub-views of two keystore tables that read alike except at an address the transactions `ocs` do not pay give
    the same owner to every output of `ocs` -/
theorem ownAgree_sub_issue {own own' sub sub' : Own} {a : Addr} {keep : Wid → Bool}
    (hl : ∀ b, b ≠ a → AMap.get own' b = AMap.get own b) (hO : OwnSub own sub keep) (hO' : OwnSub own' sub' keep)
    {ocs : List Occ} (hp : PaysNot ocs a) : OwnAgree sub' sub ocs := by
  intro oc hoc o ho
  unfold ownerOf
  by_cases hr : o.cls = .raw
  · simp [hr]
  · simp only [hr, if_false]
    have hne : o.addr ≠ a := fun e => hr (hp oc hoc o ho e)
    rw [hO' o.addr, hO o.addr, hl _ hne]

/-- NEWADDRESS for a ready wallet `w1` inside the import window of another wallet `w`: the address is issued, the
    key cache stays exact, and — no chain the node has had pays the new address — the books of the ready wallets for
    the stored chain, the books of the wallet being restored up to its cursor, the validity of the chains and the
    readiness of all address owners but `w` are what they were, for the LARGER keystore view -/
theorem JI_newAddr {cfg : Cfg} {G : Block} (cr : Bool) {x : SysQ} {k : Skel} {w : Wid} (w1 : Wid) (stk : Bool)
    (hJ : JI cfg G x k w) (hne : w1 ≠ w) (hok : StepOK cfg.st G k (.newAddr w1 stk)) :
    JI cfg G (stepQ cfg.st cfg.n cr x (.newAddr w1 stk)) (skStep cfg.st k (.newAddr w1 stk)) w := by
  cases hg : AMap.get k.ks w1 with
  | none =>
    have h1 : stepQ cfg.st cfg.n cr x (.newAddr w1 stk) = x := by
      simp only [stepQ]
      rw [useWallet_uncached (by rw [hJ.keys]; exact hg)]
    have h2 : skStep cfg.st k (.newAddr w1 stk) = k := by simp only [skStep, hg]
    rw [h1, h2]; exact hJ
  | some r =>
    obtain ⟨hc, hks, hkeys, hw, hnW, hnA, ⟨X, hX, hIJ, hv, ⟨c, hcm, hXc⟩, hq0⟩, hqk, hql, hN, hcur, hoth, htask⟩ := hJ
    have hwm : w1 ∈ walletsOf k.ks := List.mem_map.2 ⟨(w1, r), amap_mem_of_get hg, rfl⟩
    have hr1 : readyB x.P.led w1 = true := hoth w1 hwm hne
    obtain ⟨hpaid, hfresh⟩ := hok r hg
    have hcont : r.addrs.contains (r.next, cfg.st.derive w1 r.next) = false := by
      cases hcc : r.addrs.contains (r.next, cfg.st.derive w1 r.next) with
      | false => rfl
      | true =>
        have hm := own_mem_of_rec hg (List.contains_iff_mem.1 hcc)
        have := amap_get_none_iff.1 hfresh
        exact absurd (List.mem_map.2 ⟨_, hm, rfl⟩) this
    have huse := useWallet_ready (P := x.P) (V := x.V) (by rw [hkeys]; exact hg) hr1
    obtain ⟨cP, cV⟩ := newAddr_closed (envAt cfg.st x.chain) cfg.n stk x.P { x.V with cur := some w1 } w1 r rfl
      (by rw [hks]; exact hg) (hkeys.trans hks.symm) hcont
    have h1 : stepQ cfg.st cfg.n cr x (.newAddr w1 stk) =
        { x with P := { led := { x.P.led with addrs := AMap.put x.P.led.addrs (w1, stk, cfg.st.derive w1 r.next) 0 },
                        ks := AMap.put k.ks w1 (issueRec cfg.st w1 r) },
                 V := { x.V with cur := some w1, keys := AMap.put k.ks w1 (issueRec cfg.st w1 r) } } := by
      simp only [stepQ, huse]
      rw [cP, cV, hks]
      rfl
    have h2 : skStep cfg.st k (.newAddr w1 stk) = { k with ks := AMap.put k.ks w1 (issueRec cfg.st w1 r) } := by
      simp only [skStep, hg]
    obtain ⟨hpermO, hpermW⟩ := ownOf_put_issue cfg.st hnW hg
    have hn' : KeysNodup (ownOf (AMap.put k.ks w1 (issueRec cfg.st w1 r))) :=
      ownOf_issue_nodup cfg.st hnW hnA hg hfresh
    have hl : ∀ b, b ≠ cfg.st.derive w1 r.next →
        AMap.get (ownOf (AMap.put k.ks w1 (issueRec cfg.st w1 r))) b = AMap.get (ownOf k.ks) b :=
      fun b hb => amap_get_perm_cons hpermO hn' hb
    have hla : AMap.get (ownOf (AMap.put k.ks w1 (issueRec cfg.st w1 r))) (cfg.st.derive w1 r.next) =
        some (w1, false) := amap_get_of_mem hn' (hpermO.mem_iff.2 List.mem_cons_self)
    have hagree : ∀ ocs, PaysNot ocs (cfg.st.derive w1 r.next) →
        OwnAgree (ownOf (AMap.put k.ks w1 (issueRec cfg.st w1 r))) (ownOf k.ks) ocs :=
      fun ocs hp => ownAgree_issue cfg.st hnW hnA hg hfresh hp
    have hXu : addrUsed X (cfg.st.derive w1 r.next) = false := addrUsed_prefix hXc (hpaid c hcm)
    have hXp : PaysNot (occs X) (cfg.st.derive w1 r.next) := paysNot_of_addrUsed hXu
    have hNp : PaysNot (occs k.chain) (cfg.st.derive w1 r.next) := paysNot_of_addrUsed (hpaid _ hcur)
    have htr : ∀ w', (readyWallets ({ x.P.led with addrs := AMap.put x.P.led.addrs (w1, stk, cfg.st.derive w1 r.next) 0 } : Store)
        (walletsOf (AMap.put k.ks w1 (issueRec cfg.st w1 r)))).contains w' = true ↔
        (readyWallets x.P.led (walletsOf k.ks)).contains w' = true :=
      fun w' => ready_transfer hpermW (fun _ => rfl) w'
    have hw1r : (readyWallets x.P.led (walletsOf k.ks)).contains w1 = true := mem_readyWallets.2 ⟨hwm, hr1⟩
    have hIJ' : IJ ((lenv cfg.st (AMap.put k.ks w1 (issueRec cfg.st w1 r))).ctx k.chain) w
        ({ x.P.led with addrs := AMap.put x.P.led.addrs (w1, stk, cfg.st.derive w1 r.next) 0 } : Store) X := by
      refine ij_frame (c := (lenv cfg.st k.ks).ctx k.chain)
        (c' := (lenv cfg.st (AMap.put k.ks w1 (issueRec cfg.st w1 r))).ctx k.chain) (s := x.P.led)
        (s' := ({ x.P.led with addrs := AMap.put x.P.led.addrs (w1, stk, cfg.st.derive w1 r.next) 0 } : Store)) rfl
        ⟨rfl, rfl, rfl, rfl, rfl, rfl, rfl, rfl⟩ rfl rfl ?_ ?_ ?_ ?_ ?_ ?_ ?_ hIJ
      · exact bookOf_own_congr cfg.st.p (ownAgree_sub_issue hl (ownR_sub hnA w) (ownR_sub hn' w) hXp)
      · intro kk
        exact bookOf_own_congr cfg.st.p (ownAgree_sub_issue hl (ownW_sub hnA w) (ownW_sub hn' w)
          (paysNot_of_addrUsed (addrUsed_take _ hXu)))
      · exact bookOf_own_congr cfg.st.p (hagree _ hXp)
      · intro w' hw'
        exact Or.inl ⟨(htr w').1 hw', rfl⟩
      · intro hAR a' w'' ch hg'
        apply (htr w'').2
        have hg'' : AMap.get (ownR (ownOf (AMap.put k.ks w1 (issueRec cfg.st w1 r))) w) a' = some (w'', ch) := hg'
        rw [ownR_sub hn' w a'] at hg''
        by_cases ha : a' = cfg.st.derive w1 r.next
        · rw [ha, hla] at hg''
          have hd : decide (w1 ≠ w) = true := decide_eq_true hne
          simp only [Option.filter, hd, if_true, Option.some.injEq, Prod.mk.injEq] at hg''
          rw [← hg''.1]; exact hw1r
        · rw [hl a' ha, ← ownR_sub hnA w a'] at hg''
          exact hAR a' w'' ch hg''
      · intro hAR a' w'' ch hg'
        have hg'' : AMap.get (ownOf (AMap.put k.ks w1 (issueRec cfg.st w1 r))) a' = some (w'', ch) := hg'
        apply (htr w'').2
        by_cases ha : a' = cfg.st.derive w1 r.next
        · rw [ha, hla] at hg''
          simp only [Option.some.injEq, Prod.mk.injEq] at hg''
          rw [← hg''.1]; exact hw1r
        · rw [hl a' ha] at hg''
          exact hAR a' w'' ch hg''
      · intro _
        exact isEmpty_false_of_contains ((htr w1).2 hw1r)
    rw [h1, h2]
    refine ⟨hc, rfl, rfl, hpermW.mem_iff.2 hw, put_keys_nodup k.ks w1 _ hnW, hn',
      ⟨X, ⟨hX.good, (chainValid_own_congr (hagree _ hXp)).2 hX.valid, hX.genesis, hX.known⟩, hIJ', hv,
        ⟨c, hcm, hXc⟩, hq0⟩, hqk, hql,
      ⟨hN.good, (chainValid_own_congr (hagree _ hNp)).2 hN.valid, hN.genesis, hN.known⟩, hcur, ?_, ?_⟩
    · intro w' hw' hne'
      exact hoth w' (hpermW.mem_iff.1 hw') hne'
    · intro hnd
      exact htask hnd

end MW.Lemmas.Deepen4
