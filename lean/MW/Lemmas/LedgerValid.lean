/-
  Hypotheses of the ledger theorems (C01), as explicit decidable predicates over the transactions of a
  chain in chain order (`Occ` = transaction with its block and position), and the GLOBAL invariant of
  the books (`Glob`): the ledger list holds exactly the owned outputs created so far and not yet spent.

  ChainValid own chain  says, for every transaction `oc` of the chain with `P` = the transactions before it:
    fresh     its id does not occur before                       (no duplicate transaction ids)
    src       every input refers to an output of an earlier transaction (index in range)
    nodupIns  its inputs are pairwise distinct outpoints
    unspent   no earlier transaction spends one of its inputs     (no double spend)
    noBoth    it does not have BOTH an owned binding input and an owned binding output
  (src + unspent = "every non-coinbase input spends an existing unspent output of the chain".)
-/
import MW.Lemmas.LedgerBasic
namespace MW.Lemmas.Ledger
open MW MW.Model.Ledger MW.Spec.Chain MW.Spec.Books

def idsOf (P : List Occ) : List TxId := P.map (fun oc => oc.t.id)

def opOf (i : Inp) : TxId × Nat := (i.tx, i.idx)

/-- every outpoint spent by the transactions in `P` -/
def spentOps (P : List Occ) : List (TxId × Nat) :=
  P.flatMap (fun oc => if oc.t.cb then [] else oc.t.ins.map opOf)

/-- the output an outpoint refers to, looked up among the transactions in `P` -/
def srcOut (P : List Occ) (tx : TxId) (idx : Nat) : Option Out :=
  (P.find? (fun oc => oc.t.id = tx)).bind (fun oc => oc.t.outs[idx]?)

/-- is the output behind this outpoint an owned binding output? -/
def bindingSrc (own : Own) (P : List Occ) (i : Inp) : Bool :=
  match srcOut P i.tx i.idx with
  | some o => (ownerOf own o).isSome && o.cls.isBinding
  | none => false

def OccValid (own : Own) (P : List Occ) (oc : Occ) : Prop :=
  oc.t.id ∉ idsOf P ∧
  (oc.t.cb = false → ∀ i ∈ oc.t.ins, (srcOut P i.tx i.idx).isSome = true) ∧
  (oc.t.cb = false → (oc.t.ins.map opOf).Nodup) ∧
  (oc.t.cb = false → ∀ i ∈ oc.t.ins, opOf i ∉ spentOps P) ∧
  ((!oc.t.cb && oc.t.ins.any (bindingSrc own P) &&
      oc.t.outs.any (fun o => (ownerOf own o).isSome && o.cls.isBinding)) = false)

instance (own : Own) (P : List Occ) (oc : Occ) : Decidable (OccValid own P oc) := by
  unfold OccValid; infer_instance

/-- every transaction of `rest` is valid after the ones before it (`P` = what came before `rest`) -/
def ValidFrom (own : Own) : List Occ → List Occ → Prop
  | _, [] => True
  | P, oc :: rest => OccValid own P oc ∧ ValidFrom own (P ++ [oc]) rest

instance (own : Own) : (P rest : List Occ) → Decidable (ValidFrom own P rest)
  | _, [] => isTrue trivial
  | P, oc :: rest =>
    have : Decidable (ValidFrom own (P ++ [oc]) rest) := instDecidableValidFrom own (P ++ [oc]) rest
    by unfold ValidFrom; infer_instance

/-- the chain-validity hypothesis of the ledger theorems -/
def ChainValid (own : Own) (chain : List Block) : Prop := ValidFrom own [] (occs chain)

instance (own : Own) (chain : List Block) : Decidable (ChainValid own chain) := by
  unfold ChainValid; infer_instance

/-- an owned output created by a transaction of `P` -/
def CreatedIn (own : Own) (P : List Occ) (u : UCoin) : Prop :=
  ∃ oc ∈ P, oc.t.id = u.tx ∧ oc.t.outs[u.idx]? = some u.out ∧
    ownerOf own u.out = some (u.wallet, u.change) ∧ u.blk = oc.bm ∧ u.cb = oc.t.cb

/-- GLOBAL invariant of the books after the transactions `P` -/
structure Glob (own : Own) (P : List Occ) (B : Book) : Prop where
  /-- the ledger is exactly: created, owned, not spent -/
  mem : ∀ u, u ∈ B.L ↔ (CreatedIn own P u ∧ (u.tx, u.idx) ∉ spentOps P)
  /-- every owned output ever created has a credit (spent or not) -/
  credAll : ∀ oc ∈ P, ∀ j o, oc.t.outs[j]? = some o → (ownerOf own o).isSome = true →
    (B.credits ⟨oc.t.id, oc.bm, j⟩).isSome = true
  /-- credits and tx records only exist for transactions of `P` -/
  credIds : ∀ ck, (B.credits ck).isSome = true → ck.tx ∈ idsOf P
  txrecIds : ∀ k, (B.txrecs k).isSome = true → k.1 ∈ idsOf P
  /-- transaction ids are pairwise distinct; inputs only refer to transactions of `P` -/
  idsNodup : (idsOf P).Nodup
  spentIds : ∀ op ∈ spentOps P, op.1 ∈ idsOf P

end MW.Lemmas.Ledger
