/-
  C09 Round 7: `NotifyDom` FROM THE HISTORY DOMAIN.  `notify_refines` (Round 6c) takes `NotifyDom` — the domain of the
  specification-side composition theorem — as an explicit hypothesis beside `HOK` along the run of the notification.
  Here every clause of `NotifyDom` that `HOK` + `HInv` give is derived, and what is left is named (`NotifyRes`):

    derived   disc.nd  disc.cons  disc.split          (invariant + the `DiscDom` of every disconnect step of the run)
              fork, part "below the fork point"        (`DiscDom.blk`)
              vok: parents of a confirmed candidate    (`ConnOK.parents` + `SrcChain` of every connect step of the run)
              vok: no conflict with the common part    (`Consistent` / `DiscDom.back`)
              vok: coinbase clause, reduced to `cbfork` (a candidate's parents are on the new chain)
    left      fork    no block of the old branch is a block of the NEW BRANCH   (the trace goes down to the fork point;
                      necessity: `cx_below_fork`)
              cbfork  no coinbase transaction of the old branch is on the new branch   (necessity: `sc_same_coinbase`,
                      replayed on the code: corpus-candidates/C09-same-coinbase-both-branches.ops)
              nodbl   a candidate confirmed by the new branch is not double-spent by ANOTHER block of the new branch
                      (`HOK` has `ConnOK.nodbl` inside one block and `ChainValid` for the wallet's coins only; necessity:
                      `dbl_new_branch`)
-/
import MW.Lemmas.PendHistNotifySpec
namespace MW.Lemmas.PendHist.NotifyDomD
open MW MW.Model.Ledger MW.Spec.Pending MW.Lemmas.LedgerPending MW.Lemmas.Ledger MW.Lemmas.PendHist
open MW.Lemmas.PendHist.Cred MW.Lemmas.PendHist.CredRb MW.Lemmas.PendHist.Notify MW.Lemmas.PendHist.Compose
open MW.Lemmas.PendHist.NotifySpec

/-- the chain-level part of `DiscDom` -/
structure BlkOK (E : HEnv) (c : List Block) (b : Block) : Prop where
  blk : ∀ x ∈ c, x.id ≠ b.id
  bnd : (b.txs.map (·.id)).Nodup
  back : ∀ t ∈ b.txs, onChain c t.id = false ∧ conflictedBy c t = false
  parents : ∀ t ∈ b.txs, ∀ i ∈ t.ins, onChain (c ++ [b]) i.tx = true
  src : ∀ t ∈ b.txs, E.src t.id = some t

/-- every block of the branch `old` on top of `c0` satisfies `BlkOK` w.r.t. the chain below it -/
def BranchOK (E : HEnv) (c0 old : List Block) : Prop := ∀ o b r, old = o ++ b :: r → BlkOK E (c0 ++ o) b

theorem BlkOK.ofDisc {rank : TxId → Nat} {E : HEnv} {c : List Block} {b : Block} {P : List Tx}
    (D : DiscDom rank E c b P) : BlkOK E c b :=
  ⟨D.blk, D.bnd, D.back, D.parents, fun t ht => D.src b (List.mem_append_right _ List.mem_cons_self) t ht⟩

theorem branchOK_nil (E : HEnv) (c0 : List Block) : BranchOK E c0 [] := by
  intro o b r h
  cases o <;> cases h

theorem branchOK_snoc {E : HEnv} {c0 o : List Block} {b : Block} (h : BranchOK E c0 o) (hb : BlkOK E (c0 ++ o) b) :
    BranchOK E c0 (o ++ [b]) := by
  intro o1 x r heq
  rcases List.append_eq_append_iff.1 heq with ⟨a', h1, h2⟩ | ⟨c', h1, h2⟩
  · cases a' with
    | nil =>
      simp only [List.nil_append, List.cons.injEq] at h2
      rw [List.append_nil] at h1
      rw [h1, ← h2.1]; exact hb
    | cons y a'' =>
      simp only [List.cons_append, List.cons.injEq] at h2
      have := h2.2
      cases a'' <;> cases this
  · cases c' with
    | nil =>
      simp only [List.nil_append, List.cons.injEq] at h2
      rw [List.append_nil] at h1
      rw [← h1, h2.1]; exact hb
    | cons y c'' =>
      simp only [List.cons_append, List.cons.injEq] at h2
      rw [← h2.1] at h1
      exact h o1 x c'' h1

theorem branchOK_tail {E : HEnv} {c0 : List Block} {b : Block} {rest : List Block} (h : BranchOK E c0 (b :: rest)) :
    BlkOK E c0 b ∧ BranchOK E (c0 ++ [b]) rest := by
  refine ⟨by have := h [] b rest rfl; rwa [List.append_nil] at this, ?_⟩
  intro o x r heq
  have := h (b :: o) x r (by rw [heq]; rfl)
  rwa [show c0 ++ b :: o = c0 ++ [b] ++ o by simp] at this

/-- THE DISCONNECT STEPS of a notification's run, inside `HOK`, give `BranchOK` of the disconnected branch -/
theorem branch_of_run {rank : TxId → Nat} {E : HEnv} {nd : Node} :
    ∀ {h : Nat} {s sm : Store} {n : Nat}, DReachFrom (E.ctx nd) h s sm n →
    ∀ w : HW, w.node = nd → w.s = s → HInv rank E w → h + 1 = w.sp.chain.length →
      (∀ x ∈ worldsH E w (List.replicate n .disconnect), HOK rank E x.1 x.2) →
      ∀ c0 old, w.sp.chain = c0 ++ old → old.length = n → BranchOK E c0 old := by
  intro h s sm n d
  induction d with
  | refl =>
    intro w _ _ _ _ _ c0 old _ hlen
    have : old = [] := List.eq_nil_of_length_eq_zero hlen
    subst this
    exact branchOK_nil E c0
  | @step h s s1 s' n hd _ ih =>
    intro w hn hs H hlen hD c0 old hch holdlen
    have D := hD (w, .disconnect) (by simp [List.replicate_succ, worldsH])
    obtain ⟨b, hl⟩ := getLast?_of_length w.sp.chain h hlen
    have hsplit : w.sp.chain = w.sp.chain.dropLast ++ [b] := split_last _ b hl
    obtain ⟨hc0, _, hHt, _, dom⟩ := D _ b hsplit
    have hbh : b.height = w.sp.chain.dropLast.length := hHt _ b (by simp)
    have hlen2 : w.sp.chain.length = w.sp.chain.dropLast.length + 1 := by
      conv => lhs; rw [hsplit]
      simp
    have hpos : 0 < w.sp.chain.dropLast.length := List.length_pos_iff.2 hc0
    have hbh' : b.height = h := by omega
    have hd' : disconnectBlock (E.ctx w.node) w.s b.height = .ok s1 := by rw [hn, hs, hbh']; exact hd
    have hst : stepH E w .disconnect =
        { w with s := s1, sp := Spec.Pending.step w.sp (.moved E.env w.sp.chain.dropLast) } := by
      simp only [stepH, hl, hd']
    have H1 := hinv_step H .disconnect D
    obtain ⟨o, b', hob, holen⟩ := snoc_of_length_succ old n holdlen
    subst hob
    have hdl : w.sp.chain.dropLast = c0 ++ o := by
      rw [hch, ← List.append_assoc, List.dropLast_concat]
    have hbb : b = b' := by
      have e : (c0 ++ o) ++ [b] = (c0 ++ o) ++ [b'] :=
        calc (c0 ++ o) ++ [b] = w.sp.chain.dropLast ++ [b] := by rw [hdl]
          _ = w.sp.chain := hsplit.symm
          _ = c0 ++ (o ++ [b']) := hch
          _ = (c0 ++ o) ++ [b'] := (List.append_assoc _ _ _).symm
      have := List.append_cancel_left e
      cases this; rfl
    subst hbb
    have B0 := ih (stepH E w .disconnect) (by rw [hst]; exact hn) (by rw [hst]) H1
      (by rw [hst]; show h - 1 + 1 = w.sp.chain.dropLast.length; omega)
      (fun x hx => hD x (by rw [List.replicate_succ]; simp only [worldsH, List.mem_cons]; exact Or.inr hx))
      c0 o (by rw [hst]; exact hdl) holen
    rw [hdl] at dom
    exact branchOK_snoc B0 (BlkOK.ofDisc dom)

-- ------------------------------------------------------------------ DiscAll from the invariant and BranchOK

theorem onChain_of_mem {c : List Block} {b : Block} {t : Tx} (hb : b ∈ c) (ht : t ∈ b.txs) : onChain c t.id = true :=
  (onChain_iff c t.id).2 ⟨b, hb, t, ht, rfl⟩

theorem onChain_mono_left (c d : List Block) (id : TxId) (h : onChain c id = true) : onChain (c ++ d) id = true := by
  rw [onChain_append, h]; rfl

theorem branch_ids_nodup {E : HEnv} : ∀ (old c0 : List Block), BranchOK E c0 old →
    ((old.flatMap (·.txs)).map (·.id)).Nodup := by
  intro old
  induction old with
  | nil => intro _ _; exact List.nodup_nil
  | cons b rest ih =>
    intro c0 B
    obtain ⟨hb, hr⟩ := branchOK_tail B
    rw [List.flatMap_cons, List.map_append]
    refine List.nodup_append.2 ⟨hb.bnd, ih _ hr, ?_⟩
    intro a ha a' ha' heq
    obtain ⟨t, ht, rfl⟩ := List.mem_map.1 ha
    obtain ⟨x, hx, hid⟩ := List.mem_map.1 ha'
    obtain ⟨bx, hbx, hxb⟩ := List.mem_flatMap.1 hx
    obtain ⟨o, r, hsp⟩ := List.append_of_mem hbx
    have hback := ((hr o bx r hsp).back x hxb).1
    have : onChain (c0 ++ [b] ++ o) x.id = true := by
      rw [hid, ← heq]
      exact onChain_mono_left _ _ _ (onChain_of_mem (List.mem_append_right _ List.mem_cons_self) ht)
    rw [this] at hback; cases hback

theorem orphanedBy_iff (d : List Block) (t : Tx) : orphanedBy d t = true ↔
    ∃ x ∈ d, ∃ u ∈ x.txs, u.cb = true ∧ ∃ i ∈ t.ins, i.tx = u.id := by
  unfold orphanedBy
  simp only [List.any_eq_true, Bool.and_eq_true, decide_eq_true_eq]

/-- **`DiscAll` IS A THEOREM** of the invariant and the per-step `DiscDom`s -/
theorem discAll_of_branch {rank : TxId → Nat} {E : HEnv} {w : HW} (H : HInv rank E w) (c0 old : List Block)
    (hch : w.sp.chain = c0 ++ old) (B : BranchOK E c0 old) : DiscAll E.env c0 old w.sp.pend := by
  have hcons : Consistent (c0 ++ old) w.sp.pend := by rw [← hch]; exact H.cons
  refine ⟨?_, hcons, ?_⟩
  · rw [List.map_append]
    refine List.nodup_append.2 ⟨H.rel.nodup, branch_ids_nodup old c0 B, ?_⟩
    intro a ha a' ha' heq
    obtain ⟨p, hp, rfl⟩ := List.mem_map.1 ha
    obtain ⟨x, hx, hid⟩ := List.mem_map.1 ha'
    obtain ⟨bx, hbx, hxb⟩ := List.mem_flatMap.1 hx
    have h1 := (hcons p hp).1
    have : onChain (c0 ++ old) p.id = true := by
      rw [heq, ← hid]; exact onChain_of_mem (List.mem_append_right _ hbx) hxb
    rw [this] at h1; cases h1
  · intro o b r heq
    have Bb := B o b r heq
    refine ⟨Bb.blk, Bb.back, ?_⟩
    intro z hz
    obtain ⟨bz, hbz, hzb⟩ := List.mem_flatMap.1 hz
    obtain ⟨o1, o2, hsp⟩ := List.append_of_mem hbz
    have Bz := B o1 bz (o2 ++ b :: r) (by rw [heq, hsp]; simp)
    have hpar : ∀ i ∈ z.ins, onChain (c0 ++ o) i.tx = true := by
      intro i hi
      have := Bz.parents z hzb i hi
      rw [hsp, show c0 ++ (o1 ++ bz :: o2) = (c0 ++ o1 ++ [bz]) ++ o2 by simp]
      exact onChain_mono_left _ _ _ this
    refine ⟨?_, fun _ => hpar⟩
    cases horp : orphanedBy [b] z with
    | false => rfl
    | true =>
      exfalso
      obtain ⟨u, hu, _, i, hi, hiu⟩ := (orphanedBy_single b z).1 horp
      have h1 := (Bb.back u hu).1
      rw [← hiu, hpar i hi] at h1; cases h1

-- ------------------------------------------------------------------ the connect steps: the new branch

structure NewBlk (E : HEnv) (c : List Block) (b : Block) : Prop where
  parents : ∀ u ∈ b.txs, ∀ i ∈ u.ins, onChain (c ++ [b]) i.tx = true
  src : ∀ u ∈ b.txs, E.src u.id = some u

def NewOK (E : HEnv) (c0 new : List Block) : Prop := ∀ o b r, new = o ++ b :: r → NewBlk E (c0 ++ o) b

theorem newOK_cons {E : HEnv} {c : List Block} {b : Block} {bs : List Block} (hb : NewBlk E c b)
    (h : NewOK E (c ++ [b]) bs) : NewOK E c (b :: bs) := by
  intro o x r heq
  cases o with
  | nil =>
    simp only [List.nil_append, List.cons.injEq] at heq
    rw [List.append_nil, ← heq.1]; exact hb
  | cons y o' =>
    simp only [List.cons_append, List.cons.injEq] at heq
    rw [← heq.1, show c ++ b :: o' = c ++ [b] ++ o' by simp]
    exact h o' x r heq.2

/-- THE CONNECT STEPS of a notification's run, inside `HOK`, give `NewOK` of the connected branch -/
theorem newOK_of_run {rank : TxId → Nat} {E : HEnv} {nd : Node} {ready : List Wid} :
    ∀ {s s' : Store} {bs : List Block}, CReachL (E.ctx nd) ready s s' bs →
    ∀ w : HW, w.node = nd → w.s = s → ready = readyWallets w.s E.wallets → HInv rank E w →
      (∀ x ∈ worldsH E w (bs.map .connect), HOK rank E x.1 x.2) → NewOK E w.sp.chain bs := by
  intro s s' bs d
  induction d with
  | refl => intro w _ _ _ _ _ o b r h; cases o <;> cases h
  | @step s s1 s' bs b conf hf _ ih =>
    intro w hn hs hr H hD
    have D := hD (w, .connect b) (by simp [worldsH])
    have hf' : filterBlock (E.ctx w.node) w.s (readyWallets w.s E.wallets) b = .ok (s1, conf) := by
      rw [hn, hs, ← hs, ← hr, hs]; exact hf
    have hst : stepH E w (.connect b) =
        { w with s := s1, sp := Spec.Pending.step w.sp (.moved E.env (w.sp.chain ++ [b])) } := by
      simp only [stepH, hf']
    have H1 := hinv_step H (.connect b) D
    obtain ⟨⟨rest, hnode⟩, hvalid, hheight, hok, hsrcB⟩ := D
    obtain ⟨_, i2, _⟩ := connect_step_inv rank E w.node w.s s1 w.sp.chain rest b w.sp.pend conf H.inv H.ar H.ne
      hnode hvalid hheight H.rel H.cons H.sidx H.nocb H.relv H.srcP hok hsrcB hf'
    have := ih (stepH E w (.connect b)) (by rw [hst]; exact hn) (by rw [hst])
      (by rw [hst]; show ready = readyWallets s1 E.wallets; rw [i2, hr]) H1
      (fun x hx => hD x (by simp only [List.map_cons, worldsH, List.mem_cons]; exact Or.inr hx))
    rw [hst] at this
    exact newOK_cons ⟨hok.parents, fun u hu => hsrcB b (List.mem_append_right _ List.mem_cons_self) u hu⟩ this

-- ------------------------------------------------------------------ what is left, and NotifyDom

/-- WHAT `HOK` + `HInv` DO NOT GIVE (three statements about the two branches and the candidates `X`) -/
structure NotifyRes (old new : List Block) (X : List Tx) : Prop where
  /-- the old branch was disconnected down to the fork point: none of its blocks is a block of the new branch -/
  fork : ∀ x ∈ old, ∀ y ∈ new, y.id ≠ x.id
  /-- no coinbase transaction of the old branch is on the new branch -/
  cbfork : ∀ x ∈ old, ∀ u ∈ x.txs, u.cb = true → onChain new u.id = false
  /-- a candidate confirmed by (a prefix of) the new branch is not double-spent by another transaction of that prefix -/
  nodbl : ∀ k, k ≤ new.length → ∀ p ∈ X, onChain (new.take k) p.id = true → conflictedBy (new.take k) p = false

theorem or_false_of {a b : Bool} (h : (a || b) = false) : a = false ∧ b = false := by
  cases a <;> cases b <;> simp_all

/-- **`NotifyDom` FROM `HInv`, THE PER-STEP DOMAINS (`BranchOK`, `NewOK`) AND THE RESIDUE `NotifyRes`** -/
theorem notifyDom_of {rank : TxId → Nat} {E : HEnv} {w : HW} (H : HInv rank E w) (c0 old new : List Block)
    (hch : w.sp.chain = c0 ++ old) (B : BranchOK E c0 old) (N : NewOK E c0 new)
    (R : NotifyRes old new (w.sp.pend ++ backOf E.env old)) : NotifyDom E.env c0 old new w.sp.pend := by
  have hcons : Consistent (c0 ++ old) w.sp.pend := by rw [← hch]; exact H.cons
  -- facts about a transaction of the old branch
  have hold : ∀ x ∈ old, ∀ u ∈ x.txs, onChain c0 u.id = false ∧ conflictedBy c0 u = false ∧ E.src u.id = some u := by
    intro x hx u hu
    obtain ⟨o, r, hsp⟩ := List.append_of_mem hx
    have Bx := B o x r hsp
    obtain ⟨h1, h2⟩ := Bx.back u hu
    rw [onChain_append] at h1
    rw [conflictedBy_append] at h2
    exact ⟨(or_false_of h1).1, (or_false_of h2).1, Bx.src u hu⟩
  -- facts about a candidate
  have hcand : ∀ p ∈ w.sp.pend ++ backOf E.env old,
      onChain c0 p.id = false ∧ conflictedBy c0 p = false ∧ E.src p.id = some p := by
    intro p hp
    rcases List.mem_append.1 hp with hp | hp
    · obtain ⟨h1, h2⟩ := hcons p hp
      rw [onChain_append] at h1
      rw [conflictedBy_append] at h2
      exact ⟨(or_false_of h1).1, (or_false_of h2).1, H.srcP p hp⟩
    · obtain ⟨x, hx, hpx⟩ := List.mem_flatMap.1 (mem_backOf hp).1
      exact hold x hx p hpx
  refine ⟨discAll_of_branch H c0 old hch B, ?_, ?_⟩
  · intro x hx y hy
    rcases List.mem_append.1 hy with hy | hy
    · obtain ⟨o, r, hsp⟩ := List.append_of_mem hx
      exact (B o x r hsp).blk y (List.mem_append_left _ hy)
    · exact R.fork x hx y hy
  · intro k hk p hp hon
    obtain ⟨c1, c2, c3⟩ := hcand p hp
    have hon' : onChain (new.take k) p.id = true := by
      rw [onChain_append, c1] at hon; simpa using hon
    obtain ⟨bn, hbn, u, hu, hid⟩ := (onChain_iff _ _).1 hon'
    obtain ⟨o, r', hsp⟩ := List.append_of_mem hbn
    have hnew : new = o ++ bn :: (r' ++ new.drop k) := by
      conv => lhs; rw [← List.take_append_drop k new, hsp]
      simp
    have Nb := N o bn _ hnew
    have hup : u = p := by
      have := Nb.src u hu
      rw [hid, c3] at this
      cases this; rfl
    subst hup
    have hpar : ∀ i ∈ u.ins, onChain (c0 ++ new.take k) i.tx = true := by
      intro i hi
      have := Nb.parents u hu i hi
      rw [hsp, show c0 ++ (o ++ bn :: r') = (c0 ++ o ++ [bn]) ++ r' by simp]
      exact onChain_mono_left _ _ _ this
    refine ⟨?_, ?_, hpar⟩
    · rw [conflictedBy_append, c2, R.nodbl k hk u hp hon']; rfl
    · cases horp : orphanedBy old u with
      | false => rfl
      | true =>
        exfalso
        obtain ⟨x, hx, cbt, hcbt, hcb, i, hi, hiu⟩ := (orphanedBy_iff old u).1 horp
        have h1 := hpar i hi
        rw [hiu, onChain_append, (hold x hx cbt hcbt).1] at h1
        have h2 : onChain new cbt.id = true := by
          rw [← List.take_append_drop k new]
          exact onChain_mono_left _ _ _ (by simpa using h1)
        rw [R.cbfork x hx cbt hcbt hcb] at h2; cases h2

/-- the run of a notification inside `HOK` describes BOTH branches: `BranchOK` of the disconnected, `NewOK` of the
    connected one -/
theorem trace_branches {rank : TxId → Nat} {E : HEnv} (w : HW) (H : HInvC rank E w)
    (hbest : w.v.best.height + 1 = w.sp.chain.length) {sm s' : Store} {n : Nat} {bs : List Block}
    (hd : DReachFrom (E.ctx w.node) w.v.best.height w.s sm n)
    (hc : CReachL (E.ctx w.node) (readyWallets sm E.wallets) sm s' bs)
    (c0 old : List Block) (hch : w.sp.chain = c0 ++ old) (hlen : old.length = n)
    (hD : ∀ x ∈ worldsH E w (notifyEvs n bs), HOK rank E x.1 x.2) :
    BranchOK E c0 old ∧ NewOK E c0 bs := by
  have hD' := hD
  unfold notifyEvs at hD'
  rw [worldsH_append] at hD'
  have hD1 : ∀ x ∈ worldsH E w (List.replicate n .disconnect), HOK rank E x.1 x.2 :=
    fun x hx => hD' x (List.mem_append_left _ hx)
  obtain ⟨e1, e2, H1⟩ := dreach_run hd w rfl rfl H.inv hbest hD1
  have sp1 := dreach_run_sp hd w rfl rfl H.inv hbest hD1 c0 old hch hlen
  have B := branch_of_run hd w rfl rfl H.inv hbest hD1 c0 old hch hlen
  have N := newOK_of_run hc _ e2 e1 (by rw [e1]) H1 (fun x hx => hD' x (List.mem_append_right _ hx))
  rw [sp1] at N
  exact ⟨B, N⟩

/-- **THE TRACE REFINES ONE MOVE, `NotifyDom` DERIVED**: `trace_refines` with the residue `NotifyRes` in place of `NotifyDom` -/
theorem trace_refines_res {rank : TxId → Nat} {E : HEnv} (w : HW) (H : HInvC rank E w)
    (hbest : w.v.best.height + 1 = w.sp.chain.length) {sm s' : Store} {n : Nat} {bs : List Block}
    (hd : DReachFrom (E.ctx w.node) w.v.best.height w.s sm n)
    (hc : CReachL (E.ctx w.node) (readyWallets sm E.wallets) sm s' bs)
    (c0 old : List Block) (hch : w.sp.chain = c0 ++ old) (hlen : old.length = n)
    (hD : ∀ x ∈ worldsH E w (notifyEvs n bs), HOK rank E x.1 x.2)
    (hR : NotifyRes old bs (w.sp.pend ++ backOf E.env old)) :
    NotifyDom E.env c0 old bs w.sp.pend ∧
    Inv (E.ctx w.node) s' (c0 ++ bs) ∧
    PendRel rank s' (onChainMoved E.env (c0 ++ old) (c0 ++ bs) w.sp.pend) ∧
    CredRel E.env s' (onChainMoved E.env (c0 ++ old) (c0 ++ bs) w.sp.pend) := by
  obtain ⟨B, N⟩ := trace_branches w H hbest hd hc c0 old hch hlen hD
  have hN := notifyDom_of H.inv c0 old bs hch B N hR
  exact ⟨hN, trace_refines w H hbest hd hc c0 old hch hlen hD hN⟩

/-- **NOTIFY REFINES ONE `onChainMoved`, `NotifyDom` DERIVED** (statement of `notify_refines` with `NotifyRes`) -/
theorem notify_refines_res {rank : TxId → Nat} {E : HEnv} (w : HW) (H : HInvC rank E w)
    (hbest : w.v.best.height + 1 = w.sp.chain.length) (b : Block) (s' : Store) (v' : Vol)
    (h : processBlock (E.ctx w.node) w.s w.v b = (s', v', true)) :
    ∃ n bs, ∀ c0 old, w.sp.chain = c0 ++ old → old.length = n →
      (∀ x ∈ worldsH E w (notifyEvs n bs), HOK rank E x.1 x.2) →
      NotifyRes old bs (w.sp.pend ++ backOf E.env old) →
      NotifyDom E.env c0 old bs w.sp.pend ∧
      Inv (E.ctx w.node) s' (c0 ++ bs) ∧
      PendRel rank s' (onChainMoved E.env (c0 ++ old) (c0 ++ bs) w.sp.pend) ∧
      CredRel E.env s' (onChainMoved E.env (c0 ++ old) (c0 ++ bs) w.sp.pend) := by
  obtain ⟨sm, n, bs, hd, hc⟩ := processBlock_trace_h (E.ctx w.node) w.s s' w.v v' b h
  exact ⟨n, bs, fun c0 old hch hlen hD hR => trace_refines_res w H hbest hd hc c0 old hch hlen hD hR⟩

end MW.Lemmas.PendHist.NotifyDomD
