/-
  C08, reorganisations below the floor between two removal steps — the GHOST-SIDE facts the two-run loop lemmas ask
  (`OwnW`, `Reach`, `GhostDeb`, `GhostBlk`, `GhostCV`), from the joined scan invariant `ScanJS` of the ghost store.
-/
import MW.Lemmas.RemoveSimWLoop
import MW.Lemmas.RemoveInterleave6
namespace MW.Lemmas.RemoveSimW
open MW MW.Model.Ledger MW.Model.Remove MW.Spec.Chain MW.Spec.Books MW.Lemmas.Ledger MW.Lemmas.LedgerWFCred
  MW.Lemmas.RemoveSim MW.Lemmas.RemoveKeep MW.Lemmas.RemoveInv MW.Lemmas.RemoveUpper MW.Lemmas.RemoveInterleave
  MW.Lemmas.RemoveProj MW.Lemmas.RemoveMain MW.Lemmas.RemoveJoin MW.Lemmas.RemoveGlue MW.Lemmas.RemoveFlagged
  MW.Lemmas.ImportReorg MW.Lemmas.ImportJoin MW.Lemmas.RemoveBooks

section ghost
variable {c : Ctx} {w : Wid} {addrs : List Addr} {own' : Own} {X : List Block} {k : Nat} {g : Store}

/-- the managed addresses are `w`'s -/
theorem ownW_of_remHyp (H : RemHyp c w addrs own' X) : OwnW c w addrs := by
  intro a ha
  have h := H.managed a
  rw [ha] at h
  unfold isW at h
  cases hg : AMap.get c.own a with
  | none => rw [hg] at h; cases h
  | some x =>
    rw [hg] at h
    obtain ⟨w', ch⟩ := x
    have hw : w' = w := by simpa using h.symm
    subst hw
    exact ⟨ch, rfl⟩

theorem validW_take (H : RemHyp c w addrs own' X) (hKN : KeysNodup c.own) :
    ChainValid (ownW c.own w) (X.take (k + 1)) :=
  chainValid_sub (ownW_sub hKN w) (chainValid_take H.valid (k + 1))

theorem mem_occs_take' {oc : Occ} (h : oc ∈ occs (X.take (k + 1))) : oc ∈ occs X := by
  have := mem_occs_pre (post := X.drop (k + 1)) h
  rwa [List.take_append_drop] at this

/-- every credit / debit of the ghost store has the tx record of its transaction -/
theorem reach_of_scanJS (H : RemHyp c w addrs own' X) (hKN : KeysNodup c.own) (_hk : k + 1 ≤ X.length)
    (hS : ScanJS c w g X k) : Reach g := by
  have hA := ghost_agree H hKN hS
  have hVr : ChainValid own' X := chainValid_minus H.minus H.valid
  have hVw := validW_take (k := k) H hKN
  have key : ∀ kk, ((bookOf c.p own' X).txrecs kk).isSome = true ∨
      ((bookOf c.p (ownW c.own w) (X.take (k + 1))).txrecs kk).isSome = true →
      (AMap.get g.txrecs kk).isSome = true := by
    intro kk h
    rw [hA.txrecs]
    cases h1 : (bookOf c.p own' X).txrecs kk with
    | some a => rfl
    | none =>
      rw [h1] at h
      rcases h with h | h
      · cases h
      · exact h
  constructor
  · intro ck cr hc
    rw [hA.credits] at hc
    rcases orE_eq_some hc with h1 | ⟨_, h2⟩
    · obtain ⟨loc, hl⟩ := credit_txrec hVr h1
      exact key _ (Or.inl (by rw [hl]; rfl))
    · obtain ⟨loc, hl⟩ := credit_txrec hVw h2
      exact key _ (Or.inr (by rw [hl]; rfl))
  · intro dk d hd
    rw [hA.debits] at hd
    rcases orE_eq_some hd with h1 | ⟨_, h2⟩
    · obtain ⟨loc, hl⟩ := debit_txrec hVr h1
      exact key _ (Or.inl (by rw [hl]; rfl))
    · obtain ⟨loc, hl⟩ := debit_txrec hVw h2
      exact key _ (Or.inr (by rw [hl]; rfl))

/-- a spent credit of the ghost store has its debit -/
theorem ghostDeb_of_scanJS (H : RemHyp c w addrs own' X) (hKN : KeysNodup c.own) (hk : k + 1 ≤ X.length)
    (hS : ScanJS c w g X k) : GhostDeb g := by
  have hA := ghost_agree H hKN hS
  have HU := upperOK_join (k := k) H hKN hk
  intro ck cr dk hc hs
  have hc' : (joinBookK c w own' X k).credits ck = some cr := by rw [← hc]; exact (hA.credits ck).symm
  obtain ⟨⟨amt, hd⟩, _⟩ := HU.spKeyDebit ck dk cr hc' hs
  refine ⟨amt, ?_⟩
  rw [← hd]
  exact hA.debits dk

/-- the debits of the ghost store point at credits of blocks of the stored chain -/
theorem ghost_debit_below (H : RemHyp c w addrs own' X) (hKN : KeysNodup c.own) (hk : k + 1 ≤ X.length)
    (hS : ScanJS c w g X k) : ∀ dk d, AMap.get g.debits dk = some d → d.2.blk.height < X.length := by
  have hA := ghost_agree H hKN hS
  have HU := upperOK_join (k := k) H hKN hk
  intro dk d hd
  have hd' : (joinBookK c w own' X k).debits dk = some d := by rw [← hd]; exact (hA.debits dk).symm
  obtain ⟨cr, hcr, _⟩ := HU.debitCredit dk d hd'
  obtain ⟨oc, hoc, _, hb⟩ := HU.creditOcc d.2 cr hcr
  have := occ_height_lt H.heights hoc
  rw [hb] at this
  exact this

/-- a tx record of the ghost store lies under the block record of its height -/
theorem ghostBlk_of_scanJS (H : RemHyp c w addrs own' X) (_hKN : KeysNodup c.own) (_hk : k + 1 ≤ X.length)
    (hS : ScanJS c w g X k) : GhostBlk g := by
  intro kk loc hl
  obtain ⟨oc, hoc, hkey, _⟩ := hS.txpos kk loc hl
  subst hkey
  obtain ⟨b, hb, hob⟩ := mem_occs.1 hoc
  have hbm : oc.bm = ⟨b.height, b.id⟩ := mem_occsFrom_bm hob
  have hget : X[b.height]? = some b := by
    obtain ⟨i, hi⟩ := List.getElem?_of_mem hb
    have := H.heights i b hi
    rw [this]; exact hi
  have hmem : oc.t.id ∈ recIdsP (hasRec g) (occsOfBlock b) := by
    unfold recIdsP
    refine List.mem_filterMap.2 ⟨oc, hob, ?_⟩
    have hh : hasRec g (oc.t.id, oc.bm) = true := by unfold hasRec; rw [hl]; rfl
    rw [if_pos hh]
  have hbr : ∃ txs, blockRecOf (hasRec g) X b.height = some (b.id, txs) := by
    unfold blockRecOf
    rw [hget]
    simp only
    split
    · next he => rw [he] at hmem; cases hmem
    · exact ⟨_, rfl⟩
  show ∃ txs, AMap.get g.blocks oc.bm.height = some (oc.bm.hash, txs)
  rw [hS.blocks, hbm]
  exact hbr

/-- a credit of the ghost store pays the address of the output it records -/
theorem ghostCV_of_scanJS (H : RemHyp c w addrs own' X) (hKN : KeysNodup c.own) (_hk : k + 1 ≤ X.length)
    (hS : ScanJS c w g X k) : GhostCV c g := by
  have hA := ghost_agree H hKN hS
  have hVr : ChainValid own' X := chainValid_minus H.minus H.valid
  have hVw := validW_take (k := k) H hKN
  have hn := idsNodup H.valid
  intro id blk i cr loc tx o hc ht htx ho
  obtain ⟨oc', hoc', hkey, hl⟩ := hS.txpos _ _ ht
  have e1 : id = oc'.t.id := congrArg Prod.fst hkey
  have htx' : tx = oc'.t := by
    have h2 := txByFileLoc_of_occ H.known hoc'
    rw [hl, h2] at htx
    exact (Option.some.inj htx).symm
  -- one half of the joined book
  have half : ∀ (own'' : Own) (Y : List Block), ChainValid own'' Y → (∀ oc ∈ occs Y, oc ∈ occs X) →
      (bookOf c.p own'' Y).credits ⟨id, blk, i⟩ = some cr → cr.sh = o.addr := by
    intro own'' Y hV hsub h
    have hC := credInv_bookOf (p := c.p) hV
    obtain ⟨u, hu, hck⟩ := hC.only _ cr h
    obtain ⟨cr', hcr', hsh'⟩ := credit_sh_of_created hC hu
    rw [← hck, h] at hcr'
    injection hcr' with hcr'
    obtain ⟨oc, hoc, hid, hout, _, _, _⟩ := hu
    have hutx : u.tx = id := by have := congrArg CredKey.tx hck; exact this.symm
    have huidx : u.idx = i := by have := congrArg CredKey.idx hck; exact this.symm
    have hoo : oc = oc' := occ_eq_of_id hn (hsub oc hoc) hoc' (by rw [hid, hutx, e1])
    rw [hoo, huidx, ← htx', ho] at hout
    rw [hcr', hsh', ← Option.some.inj hout]
  rw [hA.credits] at hc
  rcases orE_eq_some hc with h1 | ⟨_, h2⟩
  · exact half own' X hVr (fun _ h => h) h1
  · exact half _ _ hVw (fun _ h => mem_occs_take' h) h2

end ghost

end MW.Lemmas.RemoveSimW
