/-
  C07 stage 2 with other wallets in the instance — ROLLBACK of the tip block of the stored chain on a joined store when
  the block is ABOVE the cursor of the wallet being restored: block level (`rollbackOccs_foldJ`), `rollbackBlockAt`,
  `rollback` (`rollback_tipJ`).  The structure is that of C01's LedgerDisc / LedgerDisc2; the per-transaction step is
  `rollbackTx_applyOccJ`.
-/
import MW.Lemmas.ImportJoinRbk
namespace MW.Lemmas.ImportJoin
open MW MW.Model.Ledger MW.Model.Import MW.Spec.Chain MW.Spec.Books MW.Lemmas.Ledger

/-- the passive half knows nothing of transaction `oc` -/
def PFresh (Bp : Book) (oc : Occ) : Prop :=
  (∀ bm j, Bp.credits ⟨oc.t.id, bm, j⟩ = none ∧ lookupU Bp.L oc.t.id j = none) ∧ Bp.txrecs (oc.t.id, oc.bm) = none ∧
  (∀ dk : CredKey, dk.tx = oc.t.id → Bp.debits dk = none) ∧ (∀ gk : GameKey, gk.tx = oc.t.id → Bp.game gk = none)

theorem pFresh_of_glob {own : Own} {P : List Occ} {Bp : Book} (hG : Glob own P Bp) (h2 : Glob2 P Bp) {oc : Occ}
    (hf : oc.t.id ∉ idsOf P) : PFresh Bp oc :=
  ⟨fun bm j => ⟨(glob_fresh' hG hf bm j).1, (glob_fresh' hG hf bm j).2.1⟩, (glob_fresh' hG hf oc.bm 0).2.2,
   (glob2_fresh h2 hf).1, (glob2_fresh h2 hf).2⟩

theorem act_fold {keepA : Wid → Bool} {p : Params} {own oa : Own} (hO : OwnSub own oa keepA) (ocs : List Occ) :
    ∀ (B : Book), Act keepA B → Act keepA (ocs.foldl (applyOcc p oa) B) := by
  induction ocs with
  | nil => intro B h; exact h
  | cons oc ocs ih => intro B h; exact ih _ (act_applyOcc hO h)

section
variable {c : Ctx} {ready : List Wid} {oa op : Own} {keepA keepP : Wid → Bool}

theorem rollbackOccs_fold_revJ (hARall : AllReady c.own ready) (hOa : OwnSub c.own oa keepA) (hOp : OwnSub c.own op keepP)
    {C : List Occ} {Bp : Book} (hS : SepP c.own keepA C Bp) (hLp : Loc c.p op Bp) (hGp : LocG Bp) (hWp : LocW Bp)
    (bm : BlockMeta) {P0 : List Occ} {B0 : Book}
    (hL : Loc c.p oa B0) (hG : LocG B0) (hW : LocW B0) (hAct : Act keepA B0) (hGl : Glob oa P0 B0) (h2 : Glob2 P0 B0)
    (r : List Occ) :
    ∀ (acc : RbAcc), ValidFrom oa P0 r.reverse → (∀ oc ∈ r, OccFacts c bm oc) → (∀ oc ∈ r, PFresh Bp oc) →
      (∀ u, CreatedIn oa (P0 ++ r.reverse) u → CreatedIn c.own C u) →
      AgreeR acc.s (joinBook Bp (r.reverse.foldl (applyOcc c.p oa) B0)) →
      AgreeBal ready acc.bals (joinBook Bp (r.reverse.foldl (applyOcc c.p oa) B0)) →
      ∃ acc', (touchIds c.p oa B0 r.reverse).reverse.foldlM (rbStep c bm) acc = .ok acc' ∧
        AgreeR acc'.s (joinBook Bp B0) ∧ AgreeBal ready acc'.bals (joinBook Bp B0) ∧ SameRest acc.s acc'.s ∧
        acc'.heights = acc.heights := by
  induction r with
  | nil =>
    intro acc _ _ _ _ hR hB
    exact ⟨acc, rfl, hR, hB, SameRest.refl _, rfl⟩
  | cons oc r ih =>
    intro acc hV hF hPF hPC hR hB
    rw [List.reverse_cons] at hV hR hB hPC ⊢
    rw [List.foldl_append] at hR hB
    simp only [List.foldl_cons, List.foldl_nil] at hR hB
    obtain ⟨hV1, hV2⟩ := validFrom_append.1 hV
    have hVoc : OccValid oa (P0 ++ r.reverse) oc := hV2.1
    obtain ⟨hbm, hloc⟩ := hF oc (List.mem_cons_self ..)
    obtain ⟨pf1, pf2, pf3, pf4⟩ := hPF oc (List.mem_cons_self ..)
    have hF' : ∀ oc' ∈ r, OccFacts c bm oc' := fun oc' h => hF oc' (List.mem_cons_of_mem _ h)
    have hPF' : ∀ oc' ∈ r, PFresh Bp oc' := fun oc' h => hPF oc' (List.mem_cons_of_mem _ h)
    have hPC' : ∀ u, CreatedIn oa (P0 ++ r.reverse) u → CreatedIn c.own C u := by
      intro u hu
      apply hPC u
      have := createdIn_mono (Q := [oc]) hu
      rw [List.append_assoc] at this; exact this
    have hGl1 := glob_fold (p := c.p) hGl hV1
    have h21 := glob2_fold (p := c.p) h2 hGl hV1
    obtain ⟨hL1, hG1⟩ := loc_fold (p := c.p) hL hG hGl hV1
    have hW1 := locW_fold (p := c.p) hW hL hG hGl h2 hV1
    have hAct1 := act_fold (p := c.p) hOa r.reverse B0 hAct
    rw [touchIds_snoc]
    by_cases ht : Spec.Books.touches oa (r.reverse.foldl (applyOcc c.p oa) B0) oc.t = true
    · rw [if_pos ht, List.reverse_append, List.reverse_singleton, List.singleton_append, List.foldlM_cons]
      obtain ⟨s1, bals1, rem, hrun, hR1, hB1, hS1⟩ :=
        rollbackTx_applyOccJ hARall hOa hOp hS hLp hGp hWp hPC' pf1 pf2 pf3 pf4 hL1 hG1 hW1 hAct1 hGl1 h21 hVoc ht hloc hR hB
      rw [hbm] at hrun
      rw [rbStep_ok hrun]
      obtain ⟨acc', hrun', hR', hB', hS', hH'⟩ :=
        ih { acc with s := s1, bals := bals1, cb := acc.cb ++ rem } hV1 hF' hPF' hPC' hR1 hB1
      exact ⟨acc', hrun', hR', hB', hS1.trans hS', hH'⟩
    · have ht' : Spec.Books.touches oa (r.reverse.foldl (applyOcc c.p oa) B0) oc.t = false := by simpa using ht
      rw [if_neg ht, List.append_nil]
      rw [applyOcc_untouched ht'] at hR hB
      exact ih acc hV1 hF' hPF' hPC' hR hB

theorem rollbackOccs_foldJ (hARall : AllReady c.own ready) (hOa : OwnSub c.own oa keepA) (hOp : OwnSub c.own op keepP)
    {C : List Occ} {Bp : Book} (hS : SepP c.own keepA C Bp) (hLp : Loc c.p op Bp) (hGp : LocG Bp) (hWp : LocW Bp)
    (bm : BlockMeta) {P0 : List Occ} {B0 : Book} (ocs : List Occ)
    (hL : Loc c.p oa B0) (hG : LocG B0) (hW : LocW B0) (hAct : Act keepA B0) (hGl : Glob oa P0 B0) (h2 : Glob2 P0 B0)
    (hV : ValidFrom oa P0 ocs) (hF : ∀ oc ∈ ocs, OccFacts c bm oc) (hPF : ∀ oc ∈ ocs, PFresh Bp oc)
    (hPC : ∀ u, CreatedIn oa (P0 ++ ocs) u → CreatedIn c.own C u) (acc : RbAcc)
    (hR : AgreeR acc.s (joinBook Bp (ocs.foldl (applyOcc c.p oa) B0)))
    (hB : AgreeBal ready acc.bals (joinBook Bp (ocs.foldl (applyOcc c.p oa) B0))) :
    ∃ acc', (touchIds c.p oa B0 ocs).reverse.foldlM (rbStep c bm) acc = .ok acc' ∧
      AgreeR acc'.s (joinBook Bp B0) ∧ AgreeBal ready acc'.bals (joinBook Bp B0) ∧ SameRest acc.s acc'.s ∧
      acc'.heights = acc.heights := by
  have := rollbackOccs_fold_revJ hARall hOa hOp hS hLp hGp hWp bm hL hG hW hAct hGl h2 ocs.reverse acc
  rw [List.reverse_reverse] at this
  exact this hV (fun oc h => hF oc (List.mem_reverse.1 h)) (fun oc h => hPF oc (List.mem_reverse.1 h)) hPC hR hB

/-- Rollback's outer-loop iteration at the height of the tip block `b`, on a joined store whose passive half knows
    nothing of the block -/
theorem rollbackBlockAt_tipJ (hARall : AllReady c.own ready) (hOa : OwnSub c.own oa keepA) (hOp : OwnSub c.own op keepP)
    {C : List Occ} {Bp : Book} (hS : SepP c.own keepA C Bp) (hLp : Loc c.p op Bp) (hGp : LocG Bp) (hWp : LocW Bp)
    {chain : List Block} {b : Block} (hV : ChainValid oa (chain ++ [b])) (hH : HeightsOK (chain ++ [b]))
    (hk : AMap.get c.node.known b.id = some b) (hPF : ∀ oc ∈ occsOfBlock b, PFresh Bp oc)
    (hPC : ∀ u, CreatedIn oa (occs (chain ++ [b])) u → CreatedIn c.own C u) (acc : RbAcc)
    (hR : AgreeR acc.s (joinBook Bp (bookOf c.p oa (chain ++ [b]))))
    (hblk : AMap.get acc.s.blocks b.height = (bookOf c.p oa (chain ++ [b])).blocks b.height)
    (hB : AgreeBal ready acc.bals (joinBook Bp (bookOf c.p oa (chain ++ [b])))) :
    ∃ acc', rollbackBlockAt c acc b.height = .ok acc' ∧ AgreeR acc'.s (joinBook Bp (bookOf c.p oa chain)) ∧
      AgreeBal ready acc'.bals (joinBook Bp (bookOf c.p oa chain)) ∧ SameRest acc.s acc'.s ∧
      ((acc'.heights = acc.heights ∧ AMap.get acc.s.blocks b.height = none) ∨
        acc'.heights = acc.heights ++ [b.height]) := by
  rw [bookOf_blocks_snoc c.p oa chain b hH] at hblk
  rw [rollbackBlockAt_eq]
  cases htl : touchIds c.p oa (bookOf c.p oa chain) (occsOfBlock b) with
  | nil =>
    rw [htl] at hblk
    have hblk' : AMap.get acc.s.blocks b.height = none := hblk
    have hsame : bookOf c.p oa (chain ++ [b]) = bookOf c.p oa chain := by
      rw [bookOf_snoc]; exact touchIds_nil_fold htl
    rw [hsame] at hR hB
    refine ⟨acc, ?_, hR, hB, SameRest.refl _, Or.inl ⟨rfl, hblk'⟩⟩
    simp only [hblk']
    rfl
  | cons x xs =>
    rw [htl] at hblk
    have hblk' : AMap.get acc.s.blocks b.height = some (b.id, x :: xs) := hblk
    simp only [hblk']
    have hVc : ChainValid oa chain := chainValid_prefix hV
    obtain ⟨hL, hG⟩ := loc_bookOf (p := c.p) hVc
    have hW := locW_bookOf (p := c.p) hVc
    have hGl := glob_bookOf (p := c.p) hVc
    have h2 := glob2_bookOf (p := c.p) hVc
    rw [bookOf_snoc] at hR hB
    obtain ⟨acc', hrun, hR', hB', hS', hH'⟩ :=
      rollbackOccs_foldJ hARall hOa hOp hS hLp hGp hWp ⟨b.height, b.id⟩ (occsOfBlock b) hL hG hW
        (act_bookOf hOa chain) hGl h2 (validFrom_tip hV)
        (occFacts_of_known hk) hPF
        (by
          intro u hu
          apply hPC u
          rw [occs_append, occs_singleton]; exact hu)
        { acc with heights := acc.heights ++ [b.height] } hR hB
    rw [htl] at hrun
    exact ⟨acc', hrun, hR', hB', hS', Or.inr hH'⟩

/-- `TxStore.Rollback(b.height)` on a joined store whose passive half knows nothing of the tip block `b` -/
theorem rollback_tipJ (hARall : AllReady c.own ready) (hOa : OwnSub c.own oa keepA) (hOp : OwnSub c.own op keepP)
    {C : List Occ} {Bp : Book} (hS : SepP c.own keepA C Bp) (hLp : Loc c.p op Bp) (hGp : LocG Bp) (hWp : LocW Bp)
    {s : Store} {chain : List Block} {b : Block} (hV : ChainValid oa (chain ++ [b])) (hH : HeightsOK (chain ++ [b]))
    (hk : AMap.get c.node.known b.id = some b) (hPF : ∀ oc ∈ occsOfBlock b, PFresh Bp oc)
    (hPC : ∀ u, CreatedIn oa (occs (chain ++ [b])) u → CreatedIn c.own C u)
    (hR : AgreeR s (joinBook Bp (bookOf c.p oa (chain ++ [b]))))
    (hblk : AMap.get s.blocks b.height = (bookOf c.p oa (chain ++ [b])).blocks b.height)
    (hbal : AgreeBal ready s.balance (joinBook Bp (bookOf c.p oa (chain ++ [b]))))
    (hst : s.syncedTo = b.height) :
    ∃ s1, rollback c s b.height = .ok s1 ∧ AgreeR s1 (joinBook Bp (bookOf c.p oa chain)) ∧
      (∀ k, AMap.get s1.blocks k = if b.height = k then none else AMap.get s.blocks k) ∧
      (∀ w, ready.contains w = true →
        AMap.get s1.balance w = some (totalU (joinBook Bp (bookOf c.p oa chain)).L w)) ∧
      s1.sync = s.sync ∧ s1.syncedTo = s.syncedTo ∧ s1.status = s.status := by
  have hhs : (List.range (s.syncedTo + 1 - b.height)).map (fun k => s.syncedTo - k) = [b.height] := by
    rw [hst, show b.height + 1 - b.height = 1 by omega]
    simp [List.range_succ]
  obtain ⟨acc', hrun, hR', hB', hS', hH'⟩ :=
    rollbackBlockAt_tipJ hARall hOa hOp hS hLp hGp hWp hV hH hk hPF hPC { s := s, bals := s.balance } hR hblk hbal
  -- the store after the block records of the rolled-back heights are erased
  have herase : ∃ s2, s2 = acc'.heights.foldl (fun s h => { s with blocks := AMap.erase s.blocks h }) acc'.s ∧
      AgreeR s2 (joinBook Bp (bookOf c.p oa chain)) ∧
      (∀ k, AMap.get s2.blocks k = if b.height = k then none else AMap.get s.blocks k) ∧
      s2.sync = s.sync ∧ s2.syncedTo = s.syncedTo ∧ s2.status = s.status ∧ s2.balance = s.balance := by
    refine ⟨_, rfl, ?_⟩
    rcases hH' with ⟨hH', hnone⟩ | hH'
    · rw [hH']
      simp only [List.foldl_nil]
      refine ⟨hR', ?_, hS'.sync, hS'.syncedTo, hS'.status, hS'.balance⟩
      intro k
      rw [hS'.blocks]
      by_cases hk' : b.height = k
      · subst hk'; simp only [if_true]; exact hnone
      · simp only [hk', if_false]
    · rw [hH']
      simp only [List.nil_append, List.foldl_cons, List.foldl_nil]
      refine ⟨⟨hR'.unspent, hR'.credits, hR'.debits, hR'.game, hR'.txrecs⟩, ?_,
        hS'.sync, hS'.syncedTo, hS'.status, hS'.balance⟩
      intro k
      show AMap.get (AMap.erase acc'.s.blocks b.height) k = _
      rw [AMap.get_erase, hS'.blocks]
  obtain ⟨s2, hs2, hM2, hbl2, hsy2, hst2, hstat2, hbal2⟩ := herase
  have hME : MinedEq s2 (acc'.cb.foldl (purgeSpenders c.own) s2) :=
    minedEq_foldl _ _ _ (fun s a _ => minedEq_purgeSpenders c.own s a)
  refine ⟨{ acc'.cb.foldl (purgeSpenders c.own) s2 with
            balance := mergeBalances acc'.bals (acc'.cb.foldl (purgeSpenders c.own) s2).balance }, ?_, ?_, ?_, ?_, ?_, ?_, ?_⟩
  · unfold rollback
    rw [hhs]
    simp only [List.foldlM_cons, List.foldlM_nil]
    rw [hrun]
    subst hs2
    rfl
  · refine ⟨?_, ?_, ?_, ?_, ?_⟩
    · intro w tx idx; simp only; rw [hME.unspent]; exact hM2.unspent w tx idx
    · intro k; simp only; rw [hME.credits]; exact hM2.credits k
    · intro k; simp only; rw [hME.debits]; exact hM2.debits k
    · intro k; simp only; rw [hME.game]; exact hM2.game k
    · intro k; simp only; rw [hME.txrecs]; exact hM2.txrecs k
  · intro k; simp only; rw [hME.blocks]; exact hbl2 k
  · intro w hw
    simp only
    rw [get_mergeBalances, hB' w hw]
  · simp only; rw [hME.sync, hsy2]
  · simp only; rw [hME.syncedTo, hst2]
  · simp only; rw [hME.status, hstat2]

end
end MW.Lemmas.ImportJoin
