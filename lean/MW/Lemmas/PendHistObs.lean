/-
  C09 history-level refinement: what the abstraction relation says about the OBSERVATIONS
  (pending ids, spent-by-unconfirmed marks, the spender index).
-/
import MW.Lemmas.PendHistSpec
namespace MW.Lemmas.PendHist
open MW MW.Model.Ledger MW.Spec.Pending MW.Lemmas.LedgerPending

/-- the pending ids of the model are the pending ids of the specification -/
theorem PendRel.ids_eq {rank : TxId → Nat} {s : Store} {P : List Tx} (h : PendRel rank s P) (id : TxId) :
    (AMap.get s.pending id).isSome = P.any (fun t => t.id = id) := (h.hasId id).symm

/-- a coin is flagged spent-by-unconfirmed exactly when a transaction of the specification's pending set spends it -/
theorem PendRel.sbu {rank : TxId → Nat} {s : Store} {P : List Tx} (h : PendRel rank s P) (c : TxId) (i : Nat) :
    spentByUnmined s c i = spentByPending P c i := by
  cases hs : spentByPending P c i with
  | true =>
    obtain ⟨t, ht, inp, hinp, h1, h2⟩ := (spentByPending_iff P c i).1 hs
    have := flagged_of_wf h.wf t.id t (h.pending_of_mem ht) inp hinp
    rw [h1, h2] at this; exact this
  | false =>
    cases hm : spentByUnmined s c i with
    | false => rfl
    | true =>
      obtain ⟨id, t, ht, inp, hinp, hop⟩ := spender_of_flag h.wf c i hm
      have := (spentByPending_iff P c i).2 ⟨t, h.mem_of_pending ht, inp, hinp, (Prod.mk.inj hop).1, (Prod.mk.inj hop).2⟩
      rw [hs] at this; cases this

/-- the spender index lists, under an outpoint, exactly the pending transactions that spend it -/
theorem PendRel.listed {rank : TxId → Nat} {s : Store} {P : List Tx} (h : PendRel rank s P) (op : TxId × Nat)
    (id : TxId) : Listed s op id ↔ ∃ t ∈ P, t.id = id ∧ Spends t op := by
  constructor
  · intro hl
    obtain ⟨t, ht, hsp⟩ := h.wf.sound op id hl
    exact ⟨t, h.mem_of_pending ht, h.wf.key_id _ _ ht, hsp⟩
  · rintro ⟨t, ht, hid, inp, hinp, hop⟩
    rw [← hid, ← hop]
    exact h.wf.complete _ _ (h.pending_of_mem ht) inp hinp

end MW.Lemmas.PendHist
