/- C19: kernel evaluations of the static checker (reflective proofs): closed functions are accepted from
   no assumptions, entry points are accepted with their non-closed callees checked in place -/
import MW.Model.Api
namespace MW.Lemmas.ApiSafe
open MW.Model.Api

set_option maxHeartbeats 100000000 in
theorem closed_AddressBalance : ∃ body m, prog Fn.AddressBalance = some body ∧ (check prog exports imports closed m [] body).isSome = true :=
  ⟨f_AddressBalance, checkFuel, rfl, by decide +kernel⟩

set_option maxHeartbeats 100000000 in
theorem closed_NewAddress : ∃ body m, prog Fn.NewAddress = some body ∧ (check prog exports imports closed m [] body).isSome = true :=
  ⟨f_NewAddress, checkFuel, rfl, by decide +kernel⟩

set_option maxHeartbeats 100000000 in
theorem closed_PayToWitnessV0Address : ∃ body m, prog Fn.PayToWitnessV0Address = some body ∧ (check prog exports imports closed m [] body).isSome = true :=
  ⟨f_PayToWitnessV0Address, checkFuel, rfl, by decide +kernel⟩

set_option maxHeartbeats 100000000 in
theorem closed_asyncRemove : ∃ body m, prog Fn.asyncRemove = some body ∧ (check prog exports imports closed m [] body).isSome = true :=
  ⟨f_asyncRemove, checkFuel, rfl, by decide +kernel⟩

set_option maxHeartbeats 100000000 in
theorem closed_checkMnemonicLen : ∃ body m, prog Fn.checkMnemonicLen = some body ∧ (check prog exports imports closed m [] body).isSome = true :=
  ⟨f_checkMnemonicLen, checkFuel, rfl, by decide +kernel⟩

set_option maxHeartbeats 100000000 in
theorem closed_checkWalletIdLen : ∃ body m, prog Fn.checkWalletIdLen = some body ∧ (check prog exports imports closed m [] body).isSome = true :=
  ⟨f_checkWalletIdLen, checkFuel, rfl, by decide +kernel⟩

set_option maxHeartbeats 100000000 in
theorem closed_findEligibleUtxos : ∃ body m, prog Fn.findEligibleUtxos = some body ∧ (check prog exports imports closed m [] body).isSome = true :=
  ⟨f_findEligibleUtxos, checkFuel, rfl, by decide +kernel⟩

set_option maxHeartbeats 100000000 in
theorem closed_getUtxosExcludeBindingAndStaking : ∃ body m, prog Fn.getUtxosExcludeBindingAndStaking = some body ∧ (check prog exports imports closed m [] body).isSome = true :=
  ⟨f_getUtxosExcludeBindingAndStaking, checkFuel, rfl, by decide +kernel⟩

set_option maxHeartbeats 100000000 in
theorem closed_proccessReceivedTx : ∃ body m, prog Fn.proccessReceivedTx = some body ∧ (check prog exports imports closed m [] body).isSome = true :=
  ⟨f_proccessReceivedTx, checkFuel, rfl, by decide +kernel⟩

set_option maxHeartbeats 100000000 in
theorem safe_AutoCreateTransaction : safe prog exports imports closed checkFuel (.invoke Fn.AutoCreateTransaction) = true := by decide +kernel

set_option maxHeartbeats 100000000 in
theorem safe_CreatePoolPkCoinbaseTransaction : safe prog exports imports closed checkFuel (.invoke Fn.CreatePoolPkCoinbaseTransaction) = true := by decide +kernel

set_option maxHeartbeats 100000000 in
theorem safe_DecodeRawTransaction : safe prog exports imports closed checkFuel (.invoke Fn.DecodeRawTransaction) = true := by decide +kernel

set_option maxHeartbeats 100000000 in
theorem safe_GetAllAddressesWithPubkey : safe prog exports imports closed checkFuel (.invoke Fn.GetAllAddressesWithPubkey) = true := by decide +kernel

set_option maxHeartbeats 100000000 in
theorem safe_GetBindingHistory_api : safe prog exports imports closed checkFuel (.invoke Fn.GetBindingHistory_tx_service) = true := by decide +kernel

set_option maxHeartbeats 100000000 in
theorem safe_GetClientStatus : safe prog exports imports closed checkFuel (.invoke Fn.GetClientStatus) = true := by decide +kernel

set_option maxHeartbeats 100000000 in
theorem safe_GetStakingHistory_api : safe prog exports imports closed checkFuel (.invoke Fn.GetStakingHistory_tx_service) = true := by decide +kernel

set_option maxHeartbeats 100000000 in
theorem safe_GetTxStatus : safe prog exports imports closed checkFuel (.invoke Fn.GetTxStatus) = true := by decide +kernel

set_option maxHeartbeats 100000000 in
theorem safe_ImportWallet_api : safe prog exports imports closed checkFuel (.invoke Fn.ImportWallet_wallet_service) = true := by decide +kernel

set_option maxHeartbeats 100000000 in
theorem safe_Stop_wm : safe prog exports imports closed checkFuel (.invoke Fn.Stop_wallet) = true := by decide +kernel

set_option maxHeartbeats 100000000 in
theorem safe_processConnectedBlock : safe prog exports imports closed checkFuel (.invoke Fn.processConnectedBlock) = true := by decide +kernel

end MW.Lemmas.ApiSafe
