/-
  Helper lemmas for C09, part 5: the callers of the purge (removeDoubleSpends, purgeSpenders), the
  confirmation of a pending transaction (unpendMined + removeDoubleSpends inside insertMinedTx).
-/
import MW.Lemmas.LedgerPendingWF
namespace MW.Lemmas.LedgerPending
open MW MW.Model.Ledger

-- ------------------------------------------------------------------ deleteUnminedInputs

/-- one step of deleteUnminedInputs -/
def delEntry (s : Store) (i : Inp) : Store :=
  match AMap.get s.pendIns (i.tx, i.idx) with
  | some (_ :: _) => { s with pendIns := AMap.erase s.pendIns (i.tx, i.idx) }
  | _ => s

theorem deleteUnminedInputs_eq (s : Store) (tx : Tx) : deleteUnminedInputs s tx = tx.ins.foldl delEntry s := rfl

theorem delEntry_frame (s : Store) (i : Inp) : exceptIns (delEntry s i) = exceptIns s := by
  unfold delEntry; split <;> rfl

theorem delEntry_listed (s : Store) (i : Inp) (op : TxId × Nat) (x : TxId) :
    Listed (delEntry s i) op x ↔ Listed s op x ∧ op ≠ (i.tx, i.idx) := by
  unfold delEntry Listed
  split
  · rename_i y ys hget
    show (∃ l, AMap.get (AMap.erase s.pendIns (i.tx, i.idx)) op = some l ∧ x ∈ l) ↔ _
    rw [AMap.get_erase]
    by_cases hop : (i.tx, i.idx) = op
    · simp [hop]
    · have : op ≠ (i.tx, i.idx) := fun h => hop h.symm
      simp [hop, this]
  · rename_i hnot
    constructor
    · rintro ⟨l, hl, hx⟩
      refine ⟨⟨l, hl, hx⟩, fun h => ?_⟩
      rw [h] at hl
      cases l with
      | nil => cases hx
      | cons y ys => exact hnot y ys hl
    · exact fun h => h.1

theorem delEntry_noEmpty (s : Store) (i : Inp) (h : NoEmpty s) : NoEmpty (delEntry s i) := by
  unfold delEntry; split
  · intro op; show AMap.get (AMap.erase s.pendIns _) op ≠ some []
    rw [AMap.get_erase]; split
    · simp
    · exact h op
  · exact h

theorem deleteUnminedInputs_frame (s : Store) (tx : Tx) : exceptIns (deleteUnminedInputs s tx) = exceptIns s := by
  rw [deleteUnminedInputs_eq]
  exact foldl_inv (fun (a : Store) => exceptIns a = exceptIns s) _ _ _ rfl
    (fun a x _ ha => (delEntry_frame a x).trans ha)

/-- deleteUnminedInputs removes every membership under the outpoints `tx` spends, and nothing else -/
theorem deleteUnminedInputs_listed (s : Store) (tx : Tx) (op : TxId × Nat) (x : TxId) :
    Listed (deleteUnminedInputs s tx) op x ↔ Listed s op x ∧ ¬ Spends tx op := by
  rw [deleteUnminedInputs_eq]
  unfold Spends
  generalize tx.ins = l
  induction l generalizing s with
  | nil => simp
  | cons i l ih =>
    simp only [List.foldl]
    rw [ih, delEntry_listed]
    constructor
    · rintro ⟨⟨h1, h2⟩, h3⟩
      refine ⟨h1, fun h => ?_⟩
      obtain ⟨j, hj, hop⟩ := h
      rcases List.mem_cons.mp hj with rfl | hj
      · exact h2 hop.symm
      · exact h3 ⟨j, hj, hop⟩
    · rintro ⟨h1, h2⟩
      exact ⟨⟨h1, fun h => h2 ⟨i, by simp, h.symm⟩⟩, fun ⟨j, hj, hop⟩ => h2 ⟨j, by simp [hj], hop⟩⟩

theorem deleteUnminedInputs_noEmpty (s : Store) (tx : Tx) (h : NoEmpty s) : NoEmpty (deleteUnminedInputs s tx) := by
  rw [deleteUnminedInputs_eq]
  exact foldl_inv NoEmpty _ _ _ h (fun a x _ ha => delEntry_noEmpty a x ha)

theorem sub_deleteUnminedInputs (s : Store) (tx : Tx) : Sub (deleteUnminedInputs s tx) s := by
  have hf := deleteUnminedInputs_frame s tx
  simp only [exceptIns, Prod.mk.injEq] at hf
  obtain ⟨h1, h2, h3, h4⟩ := hf
  exact ⟨⟨fun _ => true, by rw [h1, scan_true]⟩, fun op id h => ((deleteUnminedInputs_listed s tx op id).mp h).1,
    fun k h => by rw [h2]; exact h, fun k h => by rw [h3]; exact h, h4⟩

/-- with no empty lists around, "nobody is listed" is "no entry" -/
theorem get_none_of_not_listed {s : Store} (hne : NoEmpty s) (op : TxId × Nat) (h : ∀ id, ¬ Listed s op id) :
    AMap.get s.pendIns op = none := by
  cases hg : AMap.get s.pendIns op with
  | none => rfl
  | some l =>
    cases l with
    | nil => exact absurd hg (hne op)
    | cons y ys => exact absurd ⟨_, hg, by simp⟩ (h y)

/-- after deleteUnminedInputs the outpoints `tx` spends have no entry: `spent_by_unmined` is false for them -/
theorem deleteUnminedInputs_none (s : Store) (tx : Tx) (hne : NoEmpty s) (i : Inp) (hi : i ∈ tx.ins) :
    AMap.get (deleteUnminedInputs s tx).pendIns (i.tx, i.idx) = none :=
  get_none_of_not_listed (deleteUnminedInputs_noEmpty s tx hne) _
    (fun id hl => ((deleteUnminedInputs_listed s tx _ id).mp hl).2 ⟨i, hi, rfl⟩)

-- ------------------------------------------------------------------ removeDoubleSpends

/-- the purge loop of removeDoubleSpends -/
def dsLoop (own : Own) (fuel : Nat) (s : Store) (ins : List Inp) : Store :=
  ins.foldl (fun s i => killSpenders own fuel s ((AMap.get s.pendIns (i.tx, i.idx)).getD [])) s

theorem removeDoubleSpends_eq (own : Own) (s : Store) (tr : TxRec) :
    removeDoubleSpends own s tr = deleteUnminedInputs (dsLoop own (s.pending.length + 1) s tr.tx.ins) tr.tx := rfl

theorem purgeSpenders_eq' (own : Own) (s : Store) (op : TxId × Nat) :
    purgeSpenders own s op = ((AMap.get s.pendIns op).getD []).foldl (fun s ds =>
      match AMap.get s.pending ds with
      | some dtx => removeConflict own (s.pending.length + 1) s dtx
      | none => s) s := rfl

section callers
variable (rank : TxId → Nat) (own : Own)

/-- the purge loop of removeDoubleSpends from an (erasure-stable) well-formed store, with any fuel above the
    number of pending transactions: a purge step after which every pending spender of an input is gone -/
theorem dsLoop_spec (s : Store) (hw : WFw rank s) (n : Nat) (hn : s.pending.length < n) :
    ∀ (ins : List Inp) (a : Store), Step s a →
      Step a (dsLoop own n a ins) ∧
      ∀ i ∈ ins, ∀ d, Listed s (i.tx, i.idx) d.id → AMap.get s.pending d.id = some d → Gone (dsLoop own n a ins) d := by
  intro ins
  induction ins with
  | nil => intro a _; exact ⟨Step.refl a, fun _ h => by cases h⟩
  | cons i ins ih =>
    intro a hsa
    have hks := killSpenders_spec rank own n (removeConflict_spec rank own n)
      ((AMap.get a.pendIns (i.tx, i.idx)).getD []) a (hw.mono hsa.sub) (by
        intro sp _ t _
        have h1 := mu_le_length rank a t
        have h2 := hsa.sub.length_le
        omega)
    obtain ⟨r1, r2⟩ := ih _ (hsa.trans hks.2.1)
    have hk : dsLoop own n a (i :: ins) =
        dsLoop own n (killSpenders own n a ((AMap.get a.pendIns (i.tx, i.idx)).getD [])) ins := by
      simp only [dsLoop, List.foldl]
    rw [hk]
    refine ⟨hks.2.1.trans r1, ?_⟩
    intro j hj d hl hd
    rcases List.mem_cons.mp hj with rfl | hj
    · rcases hsa.sub.pending_same hd with hda | hda
      · obtain ⟨l, hgl, hmem⟩ := hsa.intact _ _ hl (by rw [hda]; rfl)
        have := hks.2.2 d.id (by rw [hgl]; exact hmem)
        exact Gone.mono this r1.sub
      · exact Gone.mono hda (hks.2.1.trans r1).sub
    · exact r2 j hj d hl hd

/-- removeDoubleSpends from a well-formed store (erasure-stable part): only erases; every pending spender of
    an input of the mined transaction is gone, and so is every descendant of such a spender; the inputs of
    the mined transaction have no entry left in the spender index -/
theorem removeDoubleSpends_spec (s : Store) (tr : TxRec) (hw : WFw rank s) (hne : NoEmpty s) :
    Sub (removeDoubleSpends own s tr) s ∧
    (∀ i ∈ tr.tx.ins, AMap.get (removeDoubleSpends own s tr).pendIns (i.tx, i.idx) = none) ∧
    (∀ i ∈ tr.tx.ins, ∀ d, Listed s (i.tx, i.idx) d.id → AMap.get s.pending d.id = some d →
      ∀ e, Desc s d e → Gone (removeDoubleSpends own s tr) e ∧
        (∀ j, j < e.outs.length → AMap.get (removeDoubleSpends own s tr).pendCred (e.id, j) = none)) := by
  rw [removeDoubleSpends_eq]
  obtain ⟨h1, h2⟩ := dsLoop_spec rank own s hw (s.pending.length + 1) (by omega) tr.tx.ins s (Step.refl s)
  have hne' : NoEmpty (dsLoop own (s.pending.length + 1) s tr.tx.ins) := by
    unfold dsLoop
    apply foldl_inv NoEmpty _ _ _ hne
    intro a i _ ha
    exact killSpenders_inv NoEmpty own _ (fun b t hb => removeConflict_noEmpty own _ b t hb) a _ ha
  have hsub := sub_deleteUnminedInputs (dsLoop own (s.pending.length + 1) s tr.tx.ins) tr.tx
  refine ⟨hsub.trans h1.sub, fun i hi => deleteUnminedInputs_none _ _ hne' i hi, ?_⟩
  intro i hi d hl hd e hde
  have hg := h2 i hi d hl hd
  obtain ⟨g1, g2⟩ := desc_gone hd h1 hg hde
  exact ⟨Gone.mono g1 hsub, fun j hj => hsub.cred _ (g2.1 j hj)⟩

end callers

end MW.Lemmas.LedgerPending
