/-
  Lemmas about MW.Base.Bip39Num: big-endian bytes ↔ Nat ↔ bit strings (used by C13).
-/
import MW.Base.Bip39Num
import Mathlib.Tactic.Ring
import Mathlib.Tactic.Linarith
namespace MW.B39
open MW

/-! ### ofBytesBE -/

theorem foldl_be (acc : Nat) (bs : Bytes) :
    bs.foldl (fun a b => a * 256 + b.toNat) acc = acc * 256 ^ bs.length + ofBytesBE bs := by
  induction bs generalizing acc with
  | nil => simp [ofBytesBE]
  | cons b bs ih =>
    simp only [List.foldl_cons, ofBytesBE, List.length_cons]
    rw [ih (acc * 256 + b.toNat), ih (0 * 256 + b.toNat)]
    ring

@[simp] theorem ofBytesBE_nil : ofBytesBE [] = 0 := rfl

theorem ofBytesBE_cons (b : UInt8) (bs : Bytes) :
    ofBytesBE (b :: bs) = b.toNat * 256 ^ bs.length + ofBytesBE bs := by
  simp only [ofBytesBE, List.foldl_cons]
  rw [foldl_be]; simp [ofBytesBE]

theorem ofBytesBE_append (a b : Bytes) :
    ofBytesBE (a ++ b) = ofBytesBE a * 256 ^ b.length + ofBytesBE b := by
  simp only [ofBytesBE, List.foldl_append]
  rw [foldl_be]; simp [ofBytesBE]

theorem ofBytesBE_snoc (a : Bytes) (x : UInt8) : ofBytesBE (a ++ [x]) = ofBytesBE a * 256 + x.toNat := by
  rw [ofBytesBE_append]; simp [ofBytesBE]

theorem ofBytesBE_lt (a : Bytes) : ofBytesBE a < 256 ^ a.length := by
  induction a with
  | nil => simp
  | cons b bs ih =>
    rw [ofBytesBE_cons, List.length_cons, pow_succ]
    have := b.toNat_lt
    nlinarith [ih, Nat.pos_of_ne_zero (pow_ne_zero bs.length (by norm_num : (256:Nat) ≠ 0))]

theorem ofBytesBE_replicate_zero (k : Nat) : ofBytesBE (List.replicate k (0 : UInt8)) = 0 := by
  induction k with
  | zero => rfl
  | succ k ih => rw [List.replicate_succ, ofBytesBE_cons, ih]; simp

theorem ofBytesBE_zeros_append (k : Nat) (b : Bytes) :
    ofBytesBE (List.replicate k (0 : UInt8) ++ b) = ofBytesBE b := by
  rw [ofBytesBE_append, ofBytesBE_replicate_zero]; simp

theorem ofBytesBE_toBytesBE (n : Nat) : ofBytesBE (toBytesBE n) = n := by
  induction n using Nat.strongRecOn with
  | _ n ih =>
    rw [toBytesBE]
    split
    · subst_vars; rfl
    · rename_i h
      rw [ofBytesBE_snoc, ih (n / 256) (by omega)]
      have : (UInt8.ofNat (n % 256)).toNat = n % 256 := by
        simp
      rw [this]; omega

theorem toBytesBE_length_le (k : Nat) : ∀ n, n < 256 ^ k → (toBytesBE n).length ≤ k := by
  induction k with
  | zero => intro n h; simp at h; subst h; rw [toBytesBE]; simp
  | succ k ih =>
    intro n h
    rw [toBytesBE]
    split
    · simp
    · have : n / 256 < 256 ^ k := by
        rw [pow_succ] at h; omega
      have := ih _ this
      simp; omega

theorem ofBytesBE_inj : ∀ (a b : Bytes), a.length = b.length → ofBytesBE a = ofBytesBE b → a = b := by
  intro a
  induction a with
  | nil => intro b hl _; cases b <;> simp_all
  | cons x xs ih =>
    intro b hl h
    cases b with
    | nil => simp at hl
    | cons y ys =>
      simp only [List.length_cons, Nat.add_right_cancel_iff] at hl
      rw [ofBytesBE_cons, ofBytesBE_cons, hl] at h
      have h1 := ofBytesBE_lt xs
      have h2 := ofBytesBE_lt ys
      rw [hl] at h1
      have hxy : x.toNat = y.toNat := by
        have e1 : (x.toNat * 256 ^ ys.length + ofBytesBE xs) / 256 ^ ys.length = x.toNat := by
          rw [Nat.add_comm, Nat.add_mul_div_right _ _ (by positivity), Nat.div_eq_of_lt h1]; simp
        have e2 : (y.toNat * 256 ^ ys.length + ofBytesBE ys) / 256 ^ ys.length = y.toNat := by
          rw [Nat.add_comm, Nat.add_mul_div_right _ _ (by positivity), Nat.div_eq_of_lt h2]; simp
        rw [← e1, ← e2, h]
      have hrest : ofBytesBE xs = ofBytesBE ys := by rw [hxy] at h; omega
      rw [ih ys hl hrest, UInt8.toNat_inj.mp hxy]

/-! ### padLeft -/

theorem padLeft_length (bs : Bytes) (k : Nat) (h : bs.length ≤ k) : (padLeft bs k).length = k := by
  unfold padLeft; split
  · omega
  · simp; omega

theorem ofBytesBE_padLeft (bs : Bytes) (k : Nat) : ofBytesBE (padLeft bs k) = ofBytesBE bs := by
  unfold padLeft; split
  · rfl
  · exact ofBytesBE_zeros_append _ _

/-- the fixed-width big-endian encoding is unique -/
theorem padLeft_toBytesBE_eq (n k : Nat) (e : Bytes) (hl : e.length = k) (hv : ofBytesBE e = n) :
    padLeft (toBytesBE n) k = e := by
  have hn : n < 256 ^ k := by rw [← hv, ← hl]; exact ofBytesBE_lt e
  apply ofBytesBE_inj
  · rw [padLeft_length _ _ (toBytesBE_length_le k n hn), hl]
  · rw [ofBytesBE_padLeft, ofBytesBE_toBytesBE, hv]

theorem padLeft_toBytesBE_ofBytesBE (e : Bytes) : padLeft (toBytesBE (ofBytesBE e)) e.length = e :=
  padLeft_toBytesBE_eq _ _ e rfl rfl

/-! ### bit strings -/

theorem foldl_bits (acc : Nat) (bs : List Bool) :
    bs.foldl (fun a b => 2 * a + b.toNat) acc = acc * 2 ^ bs.length + bitsToNat bs := by
  induction bs generalizing acc with
  | nil => simp [bitsToNat]
  | cons b bs ih =>
    simp only [List.foldl_cons, bitsToNat, List.length_cons]
    rw [ih (2 * acc + b.toNat), ih (2 * 0 + b.toNat)]
    ring

@[simp] theorem bitsToNat_nil : bitsToNat [] = 0 := rfl

theorem bitsToNat_cons (b : Bool) (bs : List Bool) :
    bitsToNat (b :: bs) = b.toNat * 2 ^ bs.length + bitsToNat bs := by
  simp only [bitsToNat, List.foldl_cons]
  rw [foldl_bits]; simp [bitsToNat]

theorem bitsToNat_append (a b : List Bool) :
    bitsToNat (a ++ b) = bitsToNat a * 2 ^ b.length + bitsToNat b := by
  simp only [bitsToNat, List.foldl_append]
  rw [foldl_bits]; simp [bitsToNat]

theorem bitsToNat_lt (a : List Bool) : bitsToNat a < 2 ^ a.length := by
  induction a with
  | nil => simp
  | cons b bs ih =>
    rw [bitsToNat_cons, List.length_cons, pow_succ]
    have : b.toNat ≤ 1 := Bool.toNat_le b
    nlinarith [ih, Nat.pos_of_ne_zero (pow_ne_zero bs.length (by norm_num : (2:Nat) ≠ 0))]

theorem bitsToNat_inj : ∀ (a b : List Bool), a.length = b.length → bitsToNat a = bitsToNat b → a = b := by
  intro a
  induction a with
  | nil => intro b hl _; cases b <;> simp_all
  | cons x xs ih =>
    intro b hl h
    cases b with
    | nil => simp at hl
    | cons y ys =>
      simp only [List.length_cons, Nat.add_right_cancel_iff] at hl
      rw [bitsToNat_cons, bitsToNat_cons, hl] at h
      have h1 := bitsToNat_lt xs
      have h2 := bitsToNat_lt ys
      rw [hl] at h1
      have hxy : x.toNat = y.toNat := by
        have e1 : (x.toNat * 2 ^ ys.length + bitsToNat xs) / 2 ^ ys.length = x.toNat := by
          rw [Nat.add_comm, Nat.add_mul_div_right _ _ (by positivity), Nat.div_eq_of_lt h1]; simp
        have e2 : (y.toNat * 2 ^ ys.length + bitsToNat ys) / 2 ^ ys.length = y.toNat := by
          rw [Nat.add_comm, Nat.add_mul_div_right _ _ (by positivity), Nat.div_eq_of_lt h2]; simp
        rw [← e1, ← e2, h]
      have hrest : bitsToNat xs = bitsToNat ys := by rw [hxy] at h; omega
      have hb : x = y := by cases x <;> cases y <;> simp_all
      rw [ih ys hl hrest, hb]

theorem bitsToNat_split (bs : List Bool) (i : Nat) :
    bitsToNat bs = bitsToNat (bs.take i) * 2 ^ (bs.length - i) + bitsToNat (bs.drop i) := by
  have := bitsToNat_append (bs.take i) (bs.drop i)
  rw [List.take_append_drop] at this
  rw [this]; simp

theorem bitsToNat_take (bs : List Bool) (w : Nat) (_h : w ≤ bs.length) :
    bitsToNat (bs.take w) = bitsToNat bs / 2 ^ (bs.length - w) := by
  have hlt := bitsToNat_lt (bs.drop w)
  simp only [List.length_drop] at hlt
  rw [bitsToNat_split bs w, Nat.add_comm, Nat.add_mul_div_right _ _ (by positivity), Nat.div_eq_of_lt hlt]
  simp

theorem bitsToNat_drop (bs : List Bool) (i : Nat) :
    bitsToNat (bs.drop i) = bitsToNat bs % 2 ^ (bs.length - i) := by
  have hlt := bitsToNat_lt (bs.drop i)
  simp only [List.length_drop] at hlt
  rw [bitsToNat_split bs i, Nat.mul_add_mod_of_lt hlt]

/-- value of the slice of `w` bits starting at bit `i` -/
theorem bitsToNat_slice (bs : List Bool) (i w : Nat) (h : i + w ≤ bs.length) :
    bitsToNat ((bs.drop i).take w) = bitsToNat bs / 2 ^ (bs.length - i - w) % 2 ^ w := by
  rw [bitsToNat_take _ _ (by simp; omega), bitsToNat_drop]
  simp only [List.length_drop]
  have : 2 ^ (bs.length - i) = 2 ^ (bs.length - i - w) * 2 ^ w := by
    rw [← pow_add]; congr 1; omega
  rw [this, Nat.mod_mul_right_div_self]

theorem byte_bits (n : Nat) (h : n < 256) :
    bitsToNat [n.testBit 7, n.testBit 6, n.testBit 5, n.testBit 4, n.testBit 3, n.testBit 2,
      n.testBit 1, n.testBit 0] = n := by
  revert n
  set_option maxRecDepth 20000 in decide

@[simp] theorem bitsOfByte_length (b : UInt8) : (bitsOfByte b).length = 8 := rfl

theorem bitsToNat_bitsOfByte (b : UInt8) : bitsToNat (bitsOfByte b) = b.toNat :=
  byte_bits b.toNat b.toNat_lt

theorem bitsOfBytes_cons (b : UInt8) (bs : Bytes) : bitsOfBytes (b :: bs) = bitsOfByte b ++ bitsOfBytes bs := by
  simp [bitsOfBytes]

theorem bitsOfBytes_length (e : Bytes) : (bitsOfBytes e).length = 8 * e.length := by
  induction e with
  | nil => rfl
  | cons b bs ih => rw [bitsOfBytes_cons, List.length_append, ih]; simp; omega

theorem bitsToNat_bitsOfBytes (e : Bytes) : bitsToNat (bitsOfBytes e) = ofBytesBE e := by
  induction e with
  | nil => rfl
  | cons b bs ih =>
    rw [bitsOfBytes_cons, bitsToNat_append, ih, bitsToNat_bitsOfByte, ofBytesBE_cons, bitsOfBytes_length]
    rw [pow_mul]; norm_num

@[simp] theorem natToBits_length (w n : Nat) : (natToBits w n).length = w := by
  induction w generalizing n with
  | zero => rfl
  | succ w ih => simp [natToBits, ih]

theorem bitsToNat_natToBits (w n : Nat) : bitsToNat (natToBits w n) = n % 2 ^ w := by
  induction w generalizing n with
  | zero => simp [natToBits, Nat.mod_one]
  | succ w ih =>
    simp only [natToBits]
    rw [bitsToNat_append, ih]
    have : bitsToNat [n.testBit 0] = n % 2 := by
      simp [bitsToNat, Nat.testBit_zero]
      rcases Nat.mod_two_eq_zero_or_one n with h | h <;> simp [h]
    rw [this]
    simp only [List.length_cons, List.length_nil, Nat.zero_add, pow_one]
    have := Nat.mod_mul (x := n) (a := 2) (b := 2 ^ w)
    rw [pow_succ, Nat.mul_comm (2 ^ w) 2, this]; ring

theorem bytesOfBits_spec : ∀ (k : Nat) (bs : List Bool), bs.length = 8 * k →
    (bytesOfBits bs).length = k ∧ ofBytesBE (bytesOfBits bs) = bitsToNat bs := by
  intro k
  induction k with
  | zero => intro bs h; simp at h; subst h; simp [bytesOfBits]
  | succ k ih =>
    intro bs h
    match bs, h with
    | b7 :: b6 :: b5 :: b4 :: b3 :: b2 :: b1 :: b0 :: rest, h =>
      have hr : rest.length = 8 * k := by simp at h; omega
      obtain ⟨h1, h2⟩ := ih rest hr
      simp only [bytesOfBits, List.length_cons, h1, true_and]
      rw [ofBytesBE_cons, h2, h1]
      have hlt := bitsToNat_lt [b7, b6, b5, b4, b3, b2, b1, b0]
      have : (UInt8.ofNat (bitsToNat [b7, b6, b5, b4, b3, b2, b1, b0])).toNat
          = bitsToNat [b7, b6, b5, b4, b3, b2, b1, b0] := by
        simp; simpa using hlt
      rw [this]
      have : b7 :: b6 :: b5 :: b4 :: b3 :: b2 :: b1 :: b0 :: rest
          = [b7, b6, b5, b4, b3, b2, b1, b0] ++ rest := rfl
      rw [this, bitsToNat_append, hr, pow_mul]; norm_num

end MW.B39
