/-
  The abstract reorganisation loops of MW.Lemmas.ImportReorg WITH A FLOOR: an invariant `I` whose disconnect step is
  only available ABOVE a height `fl` (a wallet being removed in several steps: blocks at heights ≤ `fl` must not be
  rolled back).  `RIfaceF` = `RIface` whose `disc` is asked for `fl < k` only, plus: the follower's chain `S` and the
  node's chain agree up to `fl`.  Then the fork point is ≥ `fl` and, for a notification of a block at height ≥ `fl`,
  the loops only issue `disconnectBlock` at heights > `fl`:
    disconnectDown   heights `curH, …, nbH + 1` with `nbH = min b.height (S.length - 1) ≥ fl`
    walkBack         height `p + 1` while the blocks at `p` differ, i.e. `p` > fork point ≥ `fl`
    reorgDisconnect  finally height `f + 1` (`f` the fork point ≥ `fl`)
  The proofs are those of MW.Lemmas.ImportReorg with that bookkeeping.  `RIface` is the instance `fl = 0`
  (`RIface.toF`).  A notification of a block BELOW the floor (`b.height < fl`, `S` longer) would make
  `disconnectDown` roll back heights ≤ `fl`: hence the hypothesis `fl ≤ b.height`.
-/
import MW.Lemmas.ImportReorg
namespace MW.Lemmas.ImportReorg
open MW MW.Model.Ledger MW.Spec.Chain MW.Spec.Books MW.Lemmas.Ledger

/-- `RIface` with a floor `fl`: `disc` only above `fl`; `S` and the node's chain agree up to `fl` -/
structure RIfaceF (c : Ctx) (S : List Block) (fl : Nat) (I : Store → List Block → Prop) (Rdy : Store → Prop) : Prop where
  goodN : GoodChain c.node.chain
  goodS : GoodChain S
  inj : IdInj (S ++ c.node.chain)
  floor : fl < S.length
  agree : S.take (fl + 1) = c.node.chain.take (fl + 1)
  sync : ∀ {s : Store} {n k : Nat} {x : Block}, I s (S.take n) → k < n → S[k]? = some x → AMap.get s.sync k = some x.id
  disc : ∀ {s : Store} {k : Nat}, fl < k → k < S.length → I s (S.take (k + 1)) → Rdy s →
    ∃ s', disconnectBlock c s k = .ok s' ∧ I s' (S.take k) ∧ Rdy s'

theorem RIfaceF.genesis {c : Ctx} {S : List Block} {fl : Nat} {I : Store → List Block → Prop} {Rdy : Store → Prop}
    (H : RIfaceF c S fl I Rdy) : S[0]? = c.node.chain[0]? := get_of_take_eq H.agree (Nat.zero_le _)

/-- the floor hypothesis in pointwise form -/
theorem RIfaceF.agree_at {c : Ctx} {S : List Block} {fl : Nat} {I : Store → List Block → Prop} {Rdy : Store → Prop}
    (H : RIfaceF c S fl I Rdy) {i : Nat} (hi : i ≤ fl) : S[i]? = c.node.chain[i]? := get_of_take_eq H.agree hi

/-- the floor hypothesis from its pointwise form -/
theorem take_eq_of_agree {S N : List Block} {fl : Nat} (h : ∀ i, i ≤ fl → S[i]? = N[i]?) :
    S.take (fl + 1) = N.take (fl + 1) := by
  apply List.ext_getElem?
  intro i
  rw [List.getElem?_take, List.getElem?_take]
  by_cases hi : i < fl + 1
  · simp only [hi, if_true]; exact h i (by omega)
  · simp only [hi, if_false]

/-- `RIface` is the instance `fl = 0` -/
theorem RIface.toF {c : Ctx} {S : List Block} {I : Store → List Block → Prop} {Rdy : Store → Prop}
    (H : RIface c S I Rdy) : RIfaceF c S 0 I Rdy :=
  ⟨H.goodN, H.goodS, H.inj, H.goodS.length_pos, H.take1, H.sync, H.disc⟩

/-- where `S` and the node's chain differ is above the floor -/
theorem RIfaceF.above {c : Ctx} {S : List Block} {fl : Nat} {I : Store → List Block → Prop} {Rdy : Store → Prop}
    (H : RIfaceF c S fl I Rdy) {j : Nat} (hne : S.take (j + 1) ≠ c.node.chain.take (j + 1)) : fl < j := by
  by_cases h : fl < j
  · exact h
  · exact absurd (take_eq_of_le H.agree (by omega)) hne

theorem RIfaceF.take1 {c : Ctx} {S : List Block} {fl : Nat} {I : Store → List Block → Prop} {Rdy : Store → Prop}
    (H : RIfaceF c S fl I Rdy) : S.take 1 = c.node.chain.take 1 := by
  have hS := H.goodS.length_pos
  have hN := H.goodN.length_pos
  have h1 : S[0]? = some S[0] := List.getElem?_eq_getElem hS
  have h2 : c.node.chain[0]? = some c.node.chain[0] := List.getElem?_eq_getElem hN
  have := H.genesis
  rw [h1, h2] at this
  rw [take_succ_of_get h1, take_succ_of_get h2, Option.some.inj this]; simp

/-- item 3 (general form: the store holds the first `curH+1` blocks of `S`): the loop disconnects the heights
    `curH, curH-1, …, nbH+1`; fuel `curH - nbH` is enough (the model passes `best.height + 1 = curH + 1`) -/
theorem disconnectDown_loopF {c : Ctx} {S : List Block} {fl : Nat} {I : Store → List Block → Prop} {Rdy : Store → Prop} (H : RIfaceF c S fl I Rdy) (nbH : Nat)
    (hfl : fl ≤ nbH) :
    ∀ (fuel : Nat) (s : Store) (curH : Nat) (rolled : List Nat),
      I s (S.take (curH + 1)) → curH < S.length → nbH ≤ curH → curH - nbH ≤ fuel →
      Rdy s →
      ∃ s', disconnectDown c nbH fuel s curH rolled = .ok (s', nbH, rolled ++ descList curH nbH) ∧
        I s' (S.take (nbH + 1)) ∧ Rdy s' := by
  intro fuel
  induction fuel with
  | zero =>
    intro s curH rolled hI _ hle hf hAR
    have : curH = nbH := by omega
    subst this
    exact ⟨s, by simp [disconnectDown, descList_self], hI, hAR⟩
  | succ fuel ih =>
    intro s curH rolled hI hlen hle hf hAR
    unfold disconnectDown
    by_cases hgt : curH > nbH
    · simp only [hgt, if_true]
      obtain ⟨s1, h1, hI1, hr1⟩ := H.disc (k := curH) (by omega) hlen hI hAR
      rw [h1]
      simp only [M_ok_bind]
      obtain ⟨s2, h2, hI2, hr2⟩ := ih s1 (curH - 1) (rolled ++ [curH])
        (by rw [show curH - 1 + 1 = curH by omega]; exact hI1) (by omega) (by omega) (by omega)
        hr1
      refine ⟨s2, ?_, hI2, hr2⟩
      rw [h2, descList_cons hgt]; simp
    · simp only [hgt, if_false]
      have : curH = nbH := by omega
      subst this
      exact ⟨s, by simp [descList_self], hI, hAR⟩

/-- item 3 as requested -/
theorem disconnectDown_specF {c : Ctx} {S : List Block} {fl : Nat} {I : Store → List Block → Prop} {Rdy : Store → Prop} (H : RIfaceF c S fl I Rdy) {s : Store} {curH nbH fuel : Nat}
    (rolled : List Nat) (hfl : fl ≤ nbH) (hI : I s S) (hlen : S.length = curH + 1) (hle : nbH ≤ curH)
    (hfuel : curH + 1 ≤ fuel) (hAR : Rdy s) :
    ∃ s', disconnectDown c nbH fuel s curH rolled = .ok (s', nbH, rolled ++ descList curH nbH) ∧
      I s' (S.take (nbH + 1)) ∧ Rdy s' :=
  disconnectDown_loopF H nbH hfl fuel s curH rolled (by rw [← hlen, List.take_length]; exact hI) (by omega) hle
    (by omega) hAR

-- ------------------------------------------------------------------ 4. walkBack

/-- the loop of reorg step 2b from any state that satisfies its invariant:
    the store holds `S` up to `p+1`, `ph` is the stored id at `p`, `tail` the node's block at `p+1`;
    `f ≤ p` is the fork height (the chains agree up to `f` and at no `j` with `f < j ≤ p`).
    It ends, with `true`, at `prevH = f`. Fuel `p - f + 1` is enough. -/
theorem walkBack_loopF {c : Ctx} {S : List Block} {fl : Nat} {I : Store → List Block → Prop} {Rdy : Store → Prop} (H : RIfaceF c S fl I Rdy) {f : Nat}
    (hf : S.take (f + 1) = c.node.chain.take (f + 1)) (hflf : fl ≤ f) :
    ∀ (fuel : Nat) (s : Store) (p : Nat) (x tail : Block) (tc : List Block) (rolled : List Nat),
      f ≤ p → (∀ j, f < j → j ≤ p → S.take (j + 1) ≠ c.node.chain.take (j + 1)) →
      p + 1 < S.length → I s (S.take (p + 2)) → S[p]? = some x → c.node.chain[p + 1]? = some tail →
      p - f + 1 ≤ fuel → Rdy s →
      ∃ w', walkBack c fuel ⟨s, p, x.id, tail, tc, rolled⟩ = .ok (w', true) ∧
        w'.prevH = f ∧ c.node.chain[f + 1]? = some w'.tail ∧ I w'.s (S.take (f + 2)) ∧
        w'.tc = (c.node.chain.take (p + 2)).drop (f + 2) ++ tc ∧
        w'.rolled = rolled ++ descList (p + 1) (f + 1) ∧
        Rdy w'.s := by
  intro fuel
  induction fuel with
  | zero => intro s p x tail tc rolled _ _ _ _ _ _ hfu; omega
  | succ fuel ih =>
    intro s p x tail tc rolled hfp hmax hpl hI hx ht hfu hAR
    have hpN : p < c.node.chain.length := by have := (List.getElem?_eq_some_iff.1 ht).1; omega
    have hy : c.node.chain[p]? = some c.node.chain[p] := List.getElem?_eq_getElem hpN
    have hprev : tail.prev = c.node.chain[p].id := H.goodN.prev_at hy ht
    unfold walkBack
    simp only [hprev]
    by_cases hid : c.node.chain[p].id = x.id
    · -- the new branch points at the stored block: the fork is reached
      have hpre := prefix_of_id H.goodS H.goodN H.inj p x _ hx hy hid.symm
      have hpf : p = f := by
        by_cases h : f < p
        · exact absurd hpre (hmax p h (Nat.le_refl _))
        · omega
      subst hpf
      simp only [hid, ne_eq, not_true_eq_false, if_false]
      refine ⟨_, rfl, rfl, ht, hI, ?_, ?_, hAR⟩
      · simp only [List.drop_take, Nat.sub_self, List.take_zero, List.nil_append]
      · simp [descList_self]
    · simp only [hid, ne_eq, not_false_eq_true, if_true]
      have hfp' : f < p := by
        by_cases h : f = p
        · subst h
          have := get_of_take_eq hf (Nat.le_refl f)
          rw [hx, hy] at this
          exact absurd (congrArg Block.id (Option.some.inj this)).symm hid
        · omega
      obtain ⟨s1, h1, hI1, hr1⟩ := H.disc (k := p + 1) (by omega) hpl hI hAR
      rw [h1]
      simp only [M_ok_bind]
      have hp0 : ¬ p = 0 := by omega
      simp only [hp0, if_false]
      have hpS : p - 1 < S.length := by omega
      have hx' : S[p - 1]? = some S[p - 1] := List.getElem?_eq_getElem hpS
      rw [H.sync hI1 (by omega) hx']
      simp only
      rw [fetchBlock_at H.goodN H.inj.right hy]
      simp only
      obtain ⟨q, rfl⟩ : ∃ q, p = q + 1 := ⟨p - 1, by omega⟩
      simp only [Nat.add_sub_cancel] at hx' ⊢
      obtain ⟨w', hw, hw1, hw2, hw3, hw4, hw5, hw6⟩ := ih s1 q S[q] c.node.chain[q + 1] (tail :: tc)
        (rolled ++ [q + 1 + 1]) (by omega) (fun j h1 h2 => hmax j h1 (by omega)) (by omega) hI1 hx' hy
        (by omega) hr1
      refine ⟨w', hw, hw1, hw2, hw3, ?_, ?_, hw6⟩
      · rw [hw4, take_succ_of_get (k := q + 2) ht,
          List.drop_append_of_le_length (by rw [List.length_take]; omega)]
        simp
      · rw [hw5, descList_cons (hi := q + 1 + 1) (lo := f + 1) (by omega)]
        simp

/-- item 4: `walkBack` started as in `reorgDisconnect` – the store holds `S` up to `h > 0`, `prevH = h-1`,
    `prevHash = S[h-1].id`, `tail = N[h]` – ends with `true` (never `false`, never an error) at the FORK HEIGHT
    `f` = the largest `f ≤ h-1` with `S.take (f+1) = N.take (f+1)`. Fuel: `h ≤ fuel` is enough; the model passes
    `best.height + 2 = S.length + 1 > h`. -/
theorem walkBack_specF {c : Ctx} {S : List Block} {fl : Nat} {I : Store → List Block → Prop} {Rdy : Store → Prop} (H : RIfaceF c S fl I Rdy) {s : Store} {h fuel : Nat} {x t : Block}
    (tc₀ : List Block) (rolled₀ : List Nat)
    (hh : fl < h) (hhS : h < S.length) (hI : I s (S.take (h + 1))) (hx : S[h - 1]? = some x)
    (ht : c.node.chain[h]? = some t) (hfuel : h ≤ fuel) (hAR : Rdy s) :
    ∃ f w', fl ≤ f ∧ f + 1 ≤ h ∧ S.take (f + 1) = c.node.chain.take (f + 1) ∧
      (∀ j, f < j → j + 1 ≤ h → S.take (j + 1) ≠ c.node.chain.take (j + 1)) ∧
      walkBack c fuel ⟨s, h - 1, x.id, t, tc₀, rolled₀⟩ = .ok (w', true) ∧
      w'.prevH = f ∧ c.node.chain[f + 1]? = some w'.tail ∧ I w'.s (S.take (f + 2)) ∧
      w'.tc = (c.node.chain.take (h + 1)).drop (f + 2) ++ tc₀ ∧
      w'.rolled = rolled₀ ++ descList h (f + 1) ∧
      Rdy w'.s := by
  obtain ⟨p, rfl⟩ : ∃ p, h = p + 1 := ⟨h - 1, by omega⟩
  simp only [Nat.add_sub_cancel] at hx ⊢
  obtain ⟨f, hfp, hf, hmax⟩ := exists_fork H.take1 p
  have hflf : fl ≤ f := by
    by_cases h : fl ≤ f
    · exact h
    · exact absurd (take_eq_of_le H.agree (Nat.le_refl fl)) (hmax fl (by omega) (by omega))
  obtain ⟨w', hw⟩ := walkBack_loopF H hf hflf fuel s p x t tc₀ rolled₀ hfp hmax hhS hI hx ht (by omega) hAR
  exact ⟨f, w', hflf, by omega, hf, fun j h1 h2 => hmax j h1 (by omega), hw⟩

-- ------------------------------------------------------------------ reorg step 2 as a whole

/-- `reorgDisconnect` from the aligned block `nb = N[h]` (`h` ≤ the wallet's tip height) rolls the wallet back
    to the FORK HEIGHT `f` = the largest `f ≤ h` up to which `S` and `N` agree, disconnecting exactly the
    heights above `f`, and returns the node's blocks above `f` up to `h` in front of `tc`. No error exit. -/
theorem reorgDisconnect_specF {c : Ctx} {S : List Block} {fl : Nat} {I : Store → List Block → Prop} {Rdy : Store → Prop} (H : RIfaceF c S fl I Rdy) {s : Store} {h : Nat} {nb : Block}
    (tc : List Block) (hflh : fl ≤ h) (hI : I s S) (hh : h < S.length) (hnb : c.node.chain[h]? = some nb)
    (hAR : Rdy s) :
    ∃ f s', fl ≤ f ∧ f ≤ h ∧ S.take (f + 1) = c.node.chain.take (f + 1) ∧
      (∀ j, f < j → j ≤ h → S.take (j + 1) ≠ c.node.chain.take (j + 1)) ∧
      reorgDisconnect c s (tipMeta S) nb tc =
        .ok (s', descList (S.length - 1) f, (c.node.chain.take (h + 1)).drop (f + 1) ++ tc) ∧
      I s' (S.take (f + 1)) ∧ Rdy s' := by
  obtain ⟨xH, hxH, htip⟩ := tipMeta_good H.goodS
  have hnbh : nb.height = h := H.goodN.height_at hnb
  have hSlen : S.length - 1 + 1 = S.length := by have := H.goodS.length_pos; omega
  have hItop : I s (S.take (S.length - 1 + 1)) := by rw [hSlen, List.take_length]; exact hI
  unfold reorgDisconnect
  rw [htip]
  simp only
  by_cases hid : xH.id = nb.id
  · -- the wallet's tip is the aligned block
    have hpos := pos_of_id H.goodS H.goodN H.inj hxH hnb hid
    have hpre := prefix_of_id H.goodS H.goodN H.inj _ _ _ hxH (by rw [hpos]; exact hnb) hid
    refine ⟨h, s, hflh, Nat.le_refl _, by rw [← hpos]; exact hpre, fun j h1 h2 => by omega, ?_, ?_, hAR⟩
    · simp only [hid, if_true]
      rw [hpos, descList_self, List.drop_take]; simp
    · rw [← hpos]; exact hItop
  · simp only [hid, if_false]
    obtain ⟨s1, h1, hI1, hr1⟩ := disconnectDown_loopF H h hflh (S.length - 1 + 1) s (S.length - 1) [] hItop
      (by omega) (by omega) (by omega) hAR
    rw [hnbh, h1]
    simp only [M_ok_bind, List.nil_append]
    have hxh : S[h]? = some S[h] := List.getElem?_eq_getElem hh
    rw [H.sync hI1 (Nat.lt_succ_self h) hxh]
    simp only
    have hAR1 : Rdy s1 := hr1
    by_cases hid2 : S[h].id = nb.id
    · have hpre := prefix_of_id H.goodS H.goodN H.inj _ _ _ hxh hnb hid2
      refine ⟨h, s1, hflh, Nat.le_refl _, hpre, fun j h1 h2 => by omega, ?_, hI1, hr1⟩
      simp only [hid2, if_true]
      rw [List.drop_take]; simp
    · simp only [hid2, if_false]
      have hne : S.take (h + 1) ≠ c.node.chain.take (h + 1) := by
        intro e
        have := get_of_take_eq e (Nat.le_refl h)
        rw [hxh, hnb] at this
        exact hid2 (congrArg Block.id (Option.some.inj this))
      have hflt : fl < h := H.above hne
      have hh0 : ¬ h = 0 := by omega
      simp only [hh0, if_false]
      have hx' : S[h - 1]? = some S[h - 1] := List.getElem?_eq_getElem (by omega)
      rw [H.sync hI1 (by omega) hx']
      simp only
      obtain ⟨f, w', hflf, hfh, hf, hmax, hw, hw1, hw2, hw3, hw4, hw5, hw6⟩ :=
        walkBack_specF H (fuel := S.length - 1 + 2) tc (descList (S.length - 1) h) hflt hh hI1 hx' hnb
          (by omega) hAR1
      rw [hw]
      simp only [M_ok_bind, Bool.not_true, Bool.false_eq_true, if_false]
      obtain ⟨s2, h2, hI2, hr2⟩ := H.disc (k := f + 1) (by omega) (by omega) hw3
        hw6
      rw [hw1, h2]
      simp only [M_ok_bind]
      refine ⟨f, s2, hflf, by omega, hf, ?_, ?_, hI2, hr2⟩
      · intro j h1 h2
        by_cases hj : j = h
        · subst hj; exact hne
        · exact hmax j h1 (by omega)
      · rw [hw5, hw4, seg_cons hw2 (by omega), List.append_assoc,
          ← descList_concat (hi := h) (lo := f) (by omega),
          descList_append (by omega) (by omega)]
        simp


-- ------------------------------------------------------------------ reorg and processBlock

/-- REORG REACHES THE TARGET, for the abstract invariant -/
theorem reorg_reachesIF {c : Ctx} {S : List Block} {fl : Nat} {I : Store → List Block → Prop} {Rdy : Store → Prop}
    (H : RIfaceF c S fl I Rdy) (hconn : ConnSpec c I Rdy) {s : Store} {b : Block}
    (hI : I s S) (hb : c.node.chain[b.height]? = some b) (hfb : fl ≤ b.height) (hR : Rdy s) :
    ∃ s' rolled added, reorg c s (tipMeta S) b = .ok (s', rolled, added) ∧
      I s' (c.node.chain.take (b.height + 1)) ∧ Rdy s' := by
  obtain ⟨xH, hxH, htip⟩ := tipMeta_good H.goodS
  have hSpos := H.goodS.length_pos
  obtain ⟨nb, hnb, hal⟩ := alignNew_min H.goodN H.inj.right (S.length - 1) hb
  have hflS := H.floor
  obtain ⟨f, s1, _, hfh, hf, hmax, hrd, hI1, hr1⟩ :=
    reorgDisconnect_specF H (h := min b.height (S.length - 1)) (nb := nb)
      ((c.node.chain.take (b.height + 1)).drop (min b.height (S.length - 1) + 1)) (by omega) hI (by omega) hnb hR
  rw [seg_append _ hfh (by omega)] at hrd
  have hfb : f ≤ b.height := by omega
  have hbl : b.height < c.node.chain.length := (List.getElem?_eq_some_iff.1 hb).1
  obtain ⟨s2, added, hca, hI2, hR2⟩ := hconn s1 f b.height hfb hbl (by rw [← hf]; exact hI1) hr1
  refine ⟨s2, descList (S.length - 1) f, added, ?_, hI2, hR2⟩
  unfold reorg
  have : (tipMeta S).height = S.length - 1 := by rw [htip]
  rw [this, hal]
  simp only [M_ok_bind]
  rw [hrd]
  simp only [M_ok_bind]
  rw [hca]; rfl

/-- a notification for ANY block `b` of the node's best chain brings the store to `N.take (b.height+1)`, whatever
    chain `S` it followed before; `hext`: what the direct path (`b` extends the stored tip) does -/
theorem processBlock_reachesIF {c : Ctx} {S : List Block} {fl : Nat} {I : Store → List Block → Prop} {Rdy : Store → Prop}
    (H : RIfaceF c S fl I Rdy) (hconn : ConnSpec c I Rdy) {s : Store} {v : Vol} {b : Block}
    (hI : I s S) (hb : c.node.chain[b.height]? = some b) (hfb : fl ≤ b.height) (hv : v.best = tipMeta S)
    (hgen : b.height = 0 → b.prev ≠ (tipMeta S).hash) (hR : Rdy s)
    (hext : ∀ k, S = c.node.chain.take (k + 1) → b.height = k + 1 →
      ∃ s' conf, filterBlock c s (readyWallets s c.wallets) b = .ok (s', conf) ∧ I s' (c.node.chain.take (k + 2)) ∧ Rdy s') :
    ∃ s' v', processBlock c s v b = (s', v', true) ∧ I s' (c.node.chain.take (b.height + 1)) ∧
      v'.best = ⟨b.height, b.id⟩ ∧ v'.best = tipMeta (c.node.chain.take (b.height + 1)) ∧ Rdy s' := by
  suffices h : ∃ s' rolled added, processM c s v b = .ok (s', rolled, added) ∧
      I s' (c.node.chain.take (b.height + 1)) ∧ Rdy s' by
    obtain ⟨s', rolled, added, h1, h2, h3⟩ := h
    obtain ⟨v', h4, h5⟩ := processBlock_of_ok h1
    exact ⟨s', v', h4, h2, h5, by rw [h5, tipMeta_take H.goodN hb], h3⟩
  unfold processM
  rw [hv]
  by_cases hp : b.prev = (tipMeta S).hash
  · simp only [hp, if_true]
    obtain ⟨xH, hxH, htip⟩ := tipMeta_good H.goodS
    have hSpos := H.goodS.length_pos
    have hB0 : ¬ b.height = 0 := fun h0 => hgen h0 hp
    obtain ⟨k, hk⟩ : ∃ k, b.height = k + 1 := ⟨b.height - 1, by omega⟩
    have hb' := hb
    rw [hk] at hb'
    have hkN : k < c.node.chain.length := by have := (List.getElem?_eq_some_iff.1 hb').1; omega
    have hy : c.node.chain[k]? = some c.node.chain[k] := List.getElem?_eq_getElem hkN
    have hid : xH.id = c.node.chain[k].id := by
      rw [← H.goodN.prev_at hy hb', hp, htip]
    have hpos := pos_of_id H.goodS H.goodN H.inj hxH hy hid
    have hpre := prefix_of_id H.goodS H.goodN H.inj _ _ _ hxH (by rw [hpos]; exact hy) hid
    rw [show S.length - 1 + 1 = S.length by omega, List.take_length] at hpre
    have hSlen : S.length = k + 1 := by omega
    replace hpre : S = c.node.chain.take (k + 1) := by rw [← hSlen]; exact hpre
    obtain ⟨s', conf, h1, hI', hR'⟩ := hext k hpre hk
    refine ⟨s', [], [(b.height, conf)], ?_, ?_, hR'⟩
    · rw [h1]; rfl
    · rw [hk]; exact hI'
  · simp only [hp, if_false]
    exact reorg_reachesIF H hconn hI hb hfb hR

/-- the floor version at `fl = 0` IS `processBlock_reachesI` -/
example {c : Ctx} {S : List Block} {I : Store → List Block → Prop} {Rdy : Store → Prop}
    (H : RIface c S I Rdy) (hconn : ConnSpec c I Rdy) {s : Store} {v : Vol} {b : Block}
    (hI : I s S) (hb : c.node.chain[b.height]? = some b) (hv : v.best = tipMeta S)
    (hgen : b.height = 0 → b.prev ≠ (tipMeta S).hash) (hR : Rdy s)
    (hext : ∀ k, S = c.node.chain.take (k + 1) → b.height = k + 1 →
      ∃ s' conf, filterBlock c s (readyWallets s c.wallets) b = .ok (s', conf) ∧ I s' (c.node.chain.take (k + 2)) ∧ Rdy s') :
    ∃ s' v', processBlock c s v b = (s', v', true) ∧ I s' (c.node.chain.take (b.height + 1)) ∧
      v'.best = ⟨b.height, b.id⟩ ∧ v'.best = tipMeta (c.node.chain.take (b.height + 1)) ∧ Rdy s' :=
  processBlock_reachesIF H.toF hconn hI hb (Nat.zero_le _) hv hgen hR hext

end MW.Lemmas.ImportReorg
