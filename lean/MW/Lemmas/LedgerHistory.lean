/-
  C01, HISTORIES (part 1): the hypotheses on a history of node events and handler steps (`RunHyp`), the step
  invariant `J`, and its preservation by every event (`J_step`).
-/
import MW.Lemmas.LedgerReorg3
import MW.Lemmas.LedgerWorld
import MW.Lemmas.LedgerDisc2
namespace MW.Lemmas.Ledger
open MW MW.Model.Ledger MW.Spec.Chain MW.Spec.Books

/-- `Inv` reads the context only through the parameters, the keystore view and the wallet list – never
    through the node -/
theorem inv_ctx_irrel {c c' : Ctx} {s : Store} {chain : List Block} (hp : c.p = c'.p) (ho : c.own = c'.own)
    (hw : c.wallets = c'.wallets) : Inv c s chain ↔ Inv c' s chain := by
  constructor
  · intro h
    exact ⟨by rw [← hp, ← ho]; exact h.agree, by rw [← hp, ← ho, ← hw]; exact h.bal, h.sync, h.syncedTo⟩
  · intro h
    exact ⟨by rw [hp, ho]; exact h.agree, by rw [hp, ho, hw]; exact h.bal, h.sync, h.syncedTo⟩

/-- the same store invariant, seen from two positions of the node -/
theorem inv_env_chain (e : Env) (ch₁ ch₂ : List Block) {s : Store} {chain : List Block} :
    Inv (e.ctx ch₁) s chain ↔ Inv (e.ctx ch₂) s chain :=
  inv_ctx_irrel rfl rfl rfl

/-- a well-formed valid chain from genesis `G`, made of blocks of the block files -/
structure ChainOK (e : Env) (G : Block) (ch : List Block) : Prop where
  good : GoodChain ch
  valid : ChainValid e.own ch
  genesis : ch[0]? = some G
  known : ∀ x ∈ ch, AMap.get e.known x.id = some x

/-- the static hypotheses on the block files (the rollback interface `DisconnectSpec` of the reorg theorems is
    no hypothesis: it is the theorem `disconnect_sound`) -/
structure EnvHyp (e : Env) (G : Block) : Prop where
  /-- the only block of height 0 in the block files is the genesis block -/
  genesisOnly : ∀ id x, AMap.get e.known id = some x → x.height = 0 → x = G
  /-- the `prev` pointer of the genesis block (the zero hash) is no block's id -/
  genesisPrev : ∀ id x, AMap.get e.known id = some x → x.id ≠ G.prev

/-- the node only switches to a branch that it then announces (a bare detach is not a node event) -/
def EvOK : Ev → Prop
  | .reorgTo _ bs => bs ≠ []
  | _ => True

/-- THE HYPOTHESES ON A HISTORY `evs` from the world `w0`. -/
structure RunHyp (e : Env) (G : Block) (w0 : World) (evs : List Ev) : Prop extends EnvHyp e G where
  /-- every node chain along the history is a well-formed valid chain from `G` made of known blocks -/
  chains : ∀ ch ∈ chainsOf e w0 evs, ChainOK e G ch
  /-- every reorganisation attaches (and announces) at least one block -/
  reorgNonempty : ∀ ev ∈ evs, EvOK ev
  /-- the keystore only knows ready wallets, and there is one -/
  ready : AllReady e.own (readyWallets w0.s e.wallets)
  readyNe : (readyWallets w0.s e.wallets).isEmpty = false

/-- ids determine blocks among any blocks of the block files (the files are read BY id) -/
theorem idInj_of_known {known : AMap.T BlkId Block} {l : List Block}
    (h : ∀ x ∈ l, AMap.get known x.id = some x) : IdInj l := by
  intro x hx y hy hid
  have h1 := h x hx
  have h2 := h y hy
  rw [hid, h2] at h1
  exact (Option.some.inj h1).symm

theorem chainsOf_head_mem (e : Env) (w : World) (evs : List Ev) : w.chain ∈ chainsOf e w evs := by
  cases evs with
  | nil => exact List.mem_singleton.2 rfl
  | cons ev evs => exact List.mem_cons_self

theorem ChainOK.take {e : Env} {G : Block} {ch : List Block} (h : ChainOK e G ch) (n : Nat) :
    ChainOK e G (ch.take (n + 1)) :=
  ⟨goodChain_take h.good n, chainValid_take h.valid _,
    by rw [getElem?_take_of_lt (Nat.succ_pos n)]; exact h.genesis,
    fun x hx => h.known x (List.mem_of_mem_take hx)⟩

theorem getLast?_append_ne {l bs : List Block} (h : bs ≠ []) : (l ++ bs).getLast? = bs.getLast? := by
  rw [List.getLast?_append, List.getLast?_eq_some_getLast h]; rfl

/-- the handler step on a non-empty queue -/
theorem stepW_handle_cons {e : Env} {w : World} {b : Block} {q : List Block} (h : w.queue = b :: q) :
    stepW e w .handle =
      { w with queue := q, s := (processBlock (e.ctx w.chain) w.s w.v b).1,
               v := (processBlock (e.ctx w.chain) w.s w.v b).2.1 } := by
  simp only [stepW, h]

/-- the tip of a well-formed chain, as its last element -/
theorem GoodChain.getLast_at {l : List Block} (h : GoodChain l) {b : Block} (hb : l.getLast? = some b) :
    l[b.height]? = some b ∧ b.height + 1 = l.length := by
  have hp := h.length_pos
  rw [List.getLast?_eq_getElem?] at hb
  have := h.height_at hb
  rw [this]
  exact ⟨hb, by omega⟩

/-- THE STEP INVARIANT: the wallet stores exactly the books of some chain `S` (well-formed, valid, from
    genesis, of known blocks), the follower's tip is the tip of `S`, the ready wallets are as assumed, every
    queued notification is a known block, and: if nothing is queued `S` IS the node's chain; otherwise the LAST
    queued notification is the node's tip. -/
def J (e : Env) (G : Block) (w : World) : Prop :=
  ∃ S, Inv (e.ctx w.chain) w.s S ∧ w.v.best = tipMeta S ∧ ChainOK e G S ∧
    AllReady e.own (readyWallets w.s e.wallets) ∧ (readyWallets w.s e.wallets).isEmpty = false ∧
    (∀ b ∈ w.queue, AMap.get e.known b.id = some b) ∧
    (w.queue = [] → S = w.chain) ∧ (w.queue ≠ [] → w.queue.getLast? = w.chain.getLast?)

/-- the hypotheses of the reorg theorems, for the node at `N` and the wallet at `S` -/
theorem reorgHyp_of {e : Env} {G : Block} {N S : List Block} (hN : ChainOK e G N)
    (hS : ChainOK e G S) : ReorgHyp (e.ctx N) S where
  goodN := hN.good
  goodS := hS.good
  genesis := by rw [hS.genesis]; exact hN.genesis.symm
  inj := idInj_of_known (known := e.known) (fun x hx => by
    rcases List.mem_append.1 hx with h | h
    · exact hS.known x h
    · exact hN.known x h)
  validN := hN.valid
  validS := hS.valid
  known := hS.known
  disc := disconnect_sound

/-- the `hgen` hypothesis of `processBlock_reaches` / `processBlock_total` from the block files -/
theorem hgen_of {e : Env} {G : Block} (E : EnvHyp e G) {S : List Block} (hS : ChainOK e G S) {b : Block}
    (hb : AMap.get e.known b.id = some b) : b.height = 0 → b.prev ≠ (tipMeta S).hash := by
  intro h0
  obtain ⟨x, hx, ht⟩ := tipMeta_good hS.good
  rw [E.genesisOnly _ _ hb h0, ht]
  exact fun h => E.genesisPrev _ _ (hS.known x (mem_of_get hx)) h.symm

/-- a node event: only chain and queue change; the announced tip is the last queued block -/
theorem J_node {e : Env} {G : Block} {w : World} {N' bs : List Block} (hJ : J e G w)
    (hN' : ChainOK e G N') (hbs : bs ≠ []) (hsub : ∀ x ∈ bs, x ∈ N') (hlast : N'.getLast? = bs.getLast?) :
    J e G { w with chain := N', queue := w.queue ++ bs } := by
  obtain ⟨S, hI, hv, hS, hAR, hne, hq, _, _⟩ := hJ
  refine ⟨S, (inv_env_chain e _ _).1 hI, hv, hS, hAR, hne, ?_, ?_, ?_⟩
  · intro b hb
    rcases List.mem_append.1 hb with h | h
    · exact hq b h
    · exact hN'.known b (hsub b h)
  · intro h
    exact absurd (List.append_eq_nil_iff.1 h).2 hbs
  · intro _
    show (w.queue ++ bs).getLast? = N'.getLast?
    rw [hlast, getLast?_append_ne hbs]

/-- a handler step on a non-empty queue -/
theorem J_handle {e : Env} {G : Block} (E : EnvHyp e G) {w : World} {b : Block} {q : List Block}
    (hJ : J e G w) (hN : ChainOK e G w.chain) (hqueue : w.queue = b :: q) :
    J e G (stepW e w .handle) ∧ ∀ ws, readyWallets (stepW e w .handle).s ws = readyWallets w.s ws := by
  rw [stepW_handle_cons hqueue]
  obtain ⟨S, hI, hv, hS, hAR, hne, hq, hq0, hq1⟩ := hJ
  have H := reorgHyp_of hN hS
  have hbk : AMap.get e.known b.id = some b := hq b (by rw [hqueue]; exact List.mem_cons_self)
  have hgen := hgen_of E hS hbk
  have hqk : ∀ x ∈ q, AMap.get e.known x.id = some x :=
    fun x hx => hq x (by rw [hqueue]; exact List.mem_cons_of_mem _ hx)
  have hlastN : (b :: q).getLast? = w.chain.getLast? := by
    rw [← hqueue]; exact hq1 (by rw [hqueue]; simp)
  by_cases hqe : q = []
  · -- the handled notification is the node's tip: the wallet reaches the node's chain
    subst hqe
    rw [List.getLast?_singleton] at hlastN
    obtain ⟨hb, hlen⟩ := hN.good.getLast_at hlastN.symm
    obtain ⟨s', v', h1, h2, _, h4, h5⟩ :=
      processBlock_reaches H (v := w.v) hI hb hv hgen hAR hne
    have htk : w.chain.take (b.height + 1) = w.chain := by rw [hlen, List.take_length]
    change (e.ctx w.chain).node.chain.take (b.height + 1) = _ at htk
    rw [htk] at h2 h4
    rw [h1]
    refine ⟨⟨w.chain, h2, h4, hN, ?_, ?_, fun (x : Block) (hx : x ∈ []) => (by cases hx), fun _ => rfl,
      fun h => absurd rfl h⟩, h5⟩
    · show AllReady e.own (readyWallets s' e.wallets)
      rw [h5]; exact hAR
    · show (readyWallets s' e.wallets).isEmpty = false
      rw [h5]; exact hne
  · have hinj : IdInj (b :: (S ++ (e.ctx w.chain).node.chain)) :=
      idInj_of_known (known := e.known) (fun x hx => by
        rcases List.mem_cons.1 hx with h | h
        · rw [h]; exact hbk
        · rcases List.mem_append.1 h with h | h
          · exact hS.known x h
          · exact hN.known x h)
    have hlastq : q.getLast? = w.chain.getLast? := by
      rw [← hlastN]
      cases q with
      | nil => exact absurd rfl hqe
      | cons a t => rw [List.getLast?_cons_cons]
    obtain ⟨s', v', ok, h1, hcase⟩ := processBlock_total H (v := w.v) hinj hI hv hgen hAR hne
    rw [h1]
    rcases hcase with ⟨_, rfl, rfl⟩ | ⟨_, hvb, hr, hcase⟩
    · -- failed: nothing changed
      exact ⟨⟨S, hI, hv, hS, hAR, hne, hqk, fun h => absurd h hqe, fun _ => hlastq⟩, fun _ => rfl⟩
    · have hAR' : AllReady e.own (readyWallets s' e.wallets) := by rw [hr]; exact hAR
      have hne' : (readyWallets s' e.wallets).isEmpty = false := by rw [hr]; exact hne
      rcases hcase with ⟨hb, hI'⟩ | ⟨hb, hI'⟩
      · exact ⟨⟨_, hI', by rw [hvb]; exact (tipMeta_take hN.good hb).symm, hN.take _, hAR', hne', hqk,
          fun h => absurd h hqe, fun _ => hlastq⟩, hr⟩
      · exact ⟨⟨_, hI', by rw [hvb]; exact (tipMeta_take hS.good hb).symm, hS.take _, hAR', hne', hqk,
          fun h => absurd h hqe, fun _ => hlastq⟩, hr⟩

/-- EVERY EVENT PRESERVES `J` (given that the node's chain before and after it is a well-formed known chain
    from genesis and a reorganisation announces something), and never changes which wallets are ready. -/
theorem J_step {e : Env} {G : Block} (E : EnvHyp e G) {w : World} (ev : Ev) (hJ : J e G w)
    (hN : ChainOK e G w.chain) (hN' : ChainOK e G (stepW e w ev).chain) (hev : EvOK ev) :
    J e G (stepW e w ev) ∧ ∀ ws, readyWallets (stepW e w ev).s ws = readyWallets w.s ws := by
  cases ev with
  | extend b =>
    exact ⟨J_node (bs := [b]) hJ hN' (by simp) (fun x hx => by
      rw [List.mem_singleton.1 hx]; exact List.mem_append_right _ List.mem_cons_self)
      (by show (w.chain ++ [b]).getLast? = _; simp), fun _ => rfl⟩
  | reorgTo k bs =>
    have hbs : bs ≠ [] := hev
    exact ⟨J_node (bs := bs) hJ hN' hbs (fun x hx => List.mem_append_right _ hx)
      (by show (w.chain.take (w.chain.length - k) ++ bs).getLast? = _
          rw [getLast?_append_ne hbs]), fun _ => rfl⟩
  | handle =>
    cases hq : w.queue with
    | nil =>
      have : stepW e w .handle = w := by simp only [stepW, hq]
      rw [this]; exact ⟨hJ, fun _ => rfl⟩
    | cons b q => exact J_handle E hJ hN hq

end MW.Lemmas.Ledger
