/-
  `notify_compose`: (1) non-vacuity — the reorganising notification of PendHistNotifyEx (wallet chain G-B1-B2, new chain
  G-B1-B2x, T2 pending, T1 confirmed in B2) is inside `NotifyDom` at the fork point c0 = G-B1; (2) the COUNTEREXAMPLE that
  shows why the domain must know the fork point: with `c0` BELOW the fork point (here c0 = [], old = new = the whole chain)
  the composition disconnects and re-connects common blocks, and a pending transaction whose parent spends a coinbase of a
  common block is dropped by the composition but kept by the one-shot move.
-/
import MW.Lemmas.PendHistCompose
import MW.Lemmas.PendHistNotifyEx
namespace MW.Lemmas.PendHist.Compose
open MW MW.Model.Ledger MW.Spec.Pending MW.Lemmas.PendHist MW.Lemmas.PendHist.Notify

theorem exNotifyDom : NotifyDom exE.env [exG, exB1] [exB2] [exB2x] [exT2] where
  disc := by
    refine ⟨by decide, by unfold Consistent; decide, ?_⟩
    intro o b r h
    cases o with
    | nil =>
      simp only [List.nil_append, List.cons.injEq] at h
      obtain ⟨rfl, _⟩ := h
      refine ⟨by decide, by decide, fun z hz => by cases hz⟩
    | cons x o =>
      simp only [List.cons_append, List.cons.injEq] at h
      have := h.2
      simp at this
  fork := by decide
  vok := by
    intro k hk
    have : k = 0 ∨ k = 1 := by simp at hk; omega
    rcases this with rfl | rfl <;> (unfold VOK; decide)

/-- on this instance both sides are {T2, T1} -/
theorem exCompose_obs :
    ((onChainMoved exE.env ([exG, exB1] ++ [exB2]) ([exG, exB1] ++ [exB2x]) [exT2]).map (·.id),
     (connFold exE.env [exG, exB1] [exB2x] (discFold exE.env [exG, exB1] [exB2] ([exG, exB1] ++ [exB2], [exT2]))).2.map (·.id)) =
    (["T2", "T1"], ["T2", "T1"]) := by decide

-- ------------------------------------------------------------------ the counterexample below the fork point

def cxCG : Tx := ⟨"CG", true, [], [⟨"A1", 50, .std⟩]⟩
def cxP : Tx := ⟨"Pp", false, [⟨"CG", 0, 0⟩], [⟨"A1", 40, .std⟩]⟩
def cxT : Tx := ⟨"Tt", false, [⟨"Pp", 0, 0⟩], [⟨"A1", 30, .std⟩]⟩
def cxChain : List Block := [⟨"G", "", 0, [cxCG]⟩, ⟨"B1", "G", 1, [cxP]⟩]
def cxE : Env := { own := exE.own, src := fun id => [cxCG, cxP, cxT].find? (fun t => t.id = id) }

/-- c0 = [], old = new = G-B1 (nothing moves): the one-shot move keeps the pending Tt, the composition (disconnect B1,
    disconnect G — Pp spends G's coinbase: orphaned, its child Tt goes with it —, connect G, connect B1) drops it -/
theorem cx_below_fork :
    (onChainMoved cxE ([] ++ cxChain) ([] ++ cxChain) [cxT]).map (·.id) = ["Tt"] ∧
    (connFold cxE [] cxChain (discFold cxE [] cxChain ([] ++ cxChain, [cxT]))).2.map (·.id) = [] := by decide

end MW.Lemmas.PendHist.Compose

namespace MW.Lemmas.PendHist.Compose
open MW MW.Model.Ledger MW.Spec.Pending
/-- hence the membership equivalence FAILS at that decomposition -/
theorem cx_refutes : ¬ (cxT ∈ onChainMoved cxE ([] ++ cxChain) ([] ++ cxChain) [cxT] ↔
    cxT ∈ (connFold cxE [] cxChain (discFold cxE [] cxChain ([] ++ cxChain, [cxT]))).2) := by decide
end MW.Lemmas.PendHist.Compose

namespace MW.Lemmas.PendHist.Compose
open MW MW.Model.Ledger MW.Spec.Pending
-- ------------------------------------------------------------------ the SAME coinbase on both branches
/-  G-B1(C1 pays A1) is reorganised to G-B1x(the SAME coinbase C1)-B2x(C2x, P), P (pending, spends C1:0) and its child T
    (pending) — AT the fork point.  One-shot: P is confirmed on the new chain, T stays.  Composition (= the model = the
    implementation, replayed: corpus-candidates/C09-same-coinbase-both-branches.ops, impl = model `-`, spec `T:r`):
    disconnecting B1 removes C1, P is orphaned and T goes with it.  `NotifyDom.vok` (a candidate on the new chain spends no
    coinbase of the old branch) excludes exactly this; it is NOT implied by the validity of each branch. -/
def scC1 : Tx := ⟨"C1", true, [], [⟨"A1", 500, .std⟩]⟩
def scC2x : Tx := ⟨"C2x", true, [], [⟨"X2", 500, .std⟩]⟩
def scP : Tx := ⟨"P", false, [⟨"C1", 0, 0⟩], [⟨"A1", 400, .std⟩]⟩
def scT : Tx := ⟨"T", false, [⟨"P", 0, 0⟩], [⟨"A1", 300, .std⟩]⟩
def scG : Block := ⟨"G", "", 0, []⟩
def scOld : List Block := [⟨"B1", "G", 1, [scC1]⟩]
def scNew : List Block := [⟨"B1x", "G", 1, [scC1]⟩, ⟨"B2x", "B1x", 2, [scC2x, scP]⟩]
def scE : Env := { own := cxE.own, src := fun id => [scC1, scC2x, scP, scT].find? (fun t => t.id = id) }

theorem sc_same_coinbase :
    (onChainMoved scE ([scG] ++ scOld) ([scG] ++ scNew) [scP, scT]).map (·.id) = ["T"] ∧
    (connFold scE [scG] scNew (discFold scE [scG] scOld ([scG] ++ scOld, [scP, scT]))).2.map (·.id) = [] := by decide

/-- so the move is outside `NotifyDom` (the clause is necessary), although `c0` IS the fork point here -/
theorem sc_not_notifyDom : ¬ NotifyDom scE [scG] scOld scNew [scP, scT] := by
  intro D
  have h := notify_compose scE [scG] scOld scNew [scP, scT] D scT
  revert h
  decide
end MW.Lemmas.PendHist.Compose
