/-
  Helper lemmas for C09, part 4: unconditional facts about the purge (any fuel, no well-formedness), the
  full well-formedness predicate `PendWF` of the pending stores and its preservation by `removeConflict`,
  descendants, and the callers `purgeSpenders` / `removeDoubleSpends`.
-/
import MW.Lemmas.LedgerPendingPurge
namespace MW.Lemmas.LedgerPending
open MW MW.Model.Ledger

-- ------------------------------------------------------------------ unconditional: only shrinks, no empty lists

/-- no spender list is empty (an empty list would flag a coin that nobody spends) -/
def NoEmpty (s : Store) : Prop := ∀ op, AMap.get s.pendIns op ≠ some []

theorem rmSpender_noEmpty (id : TxId) (s : Store) (i : Inp) (h : NoEmpty s) : NoEmpty (rmSpender id s i) := by
  unfold rmSpender
  split
  · rename_i y ys hget
    split
    · intro op; show AMap.get (AMap.erase s.pendIns _) op ≠ some []
      rw [AMap.get_erase]; split
      · simp
      · exact h op
    · rename_i hne
      intro op; show AMap.get (AMap.put s.pendIns _ _) op ≠ some []
      rw [AMap.get_put]; split
      · intro hc; injection hc with hc; rw [hc] at hne; simp at hne
      · exact h op
  · exact h

theorem removeUnminedInputsOf_noEmpty (s : Store) (tx : Tx) (h : NoEmpty s) : NoEmpty (removeUnminedInputsOf s tx) := by
  rw [removeUnminedInputsOf_eq]
  exact foldl_inv NoEmpty _ _ _ h (fun a x _ ha => rmSpender_noEmpty _ a x ha)

theorem killSpenders_inv (P : Store → Prop) (own : Own) (fuel : Nat)
    (hrc : ∀ s tx, P s → P (removeConflict own fuel s tx)) (s : Store) (l : List TxId) (h : P s) :
    P (killSpenders own fuel s l) := by
  unfold killSpenders
  apply foldl_inv P _ _ _ h
  intro a sp _ ha
  split
  · exact hrc _ _ ha
  · exact ha

theorem removeConflict_noEmpty (own : Own) : ∀ fuel s tx, NoEmpty s → NoEmpty (removeConflict own fuel s tx) := by
  intro fuel
  induction fuel with
  | zero => intro s tx h; exact h
  | succ n ih =>
    intro s tx h
    rw [removeConflict_succ]
    have h1 : NoEmpty ((List.range tx.outs.length).foldl (killOut own n tx.id) s) := by
      apply foldl_inv NoEmpty _ _ _ h
      intro a i _ ha
      have := killSpenders_inv NoEmpty own n ih a ((AMap.get a.pendIns (tx.id, i)).getD []) ha
      exact this
    have h2 := removeUnminedInputsOf_noEmpty _ tx h1
    have hf := removeUnminedGameHistory_frame own (removeUnminedInputsOf ((List.range tx.outs.length).foldl (killOut own n tx.id) s) tx) tx
    simp only [exceptGame, Prod.mk.injEq] at hf
    intro op
    show AMap.get (removeUnminedGameHistory own _ tx).pendIns op ≠ some []
    rw [hf.2.1]; exact h2 op

theorem removeConflict_sub (own : Own) : ∀ fuel s tx, Sub (removeConflict own fuel s tx) s := by
  intro fuel
  induction fuel with
  | zero => intro s tx; exact Sub.refl s
  | succ n ih =>
    intro s tx
    rw [removeConflict_succ]
    have h1 : Sub ((List.range tx.outs.length).foldl (killOut own n tx.id) s) s := by
      apply foldl_inv (fun a => Sub a s) _ _ _ (Sub.refl s)
      intro a i _ ha
      have := killSpenders_inv (fun b => Sub b s) own n (fun b t hb => (ih b t).trans hb) a
        ((AMap.get a.pendIns (tx.id, i)).getD []) ha
      exact (sub_eraseCred _ _).trans this
    exact (sub_erasePending _ _).trans ((sub_removeUnminedGameHistory own _ tx).trans
      ((sub_removeUnminedInputsOf _ tx).trans h1))

-- ------------------------------------------------------------------ full well-formedness

/-- well-formedness of the pending stores: the spender index `mi` and the pending set `m` describe each other -/
structure PendWF (rank : TxId → Nat) (s : Store) : Prop where
  key_id : ∀ id t, AMap.get s.pending id = some t → t.id = id
  sound : ∀ op id, Listed s op id → ∃ t, AMap.get s.pending id = some t ∧ Spends t op
  complete : ∀ id t, AMap.get s.pending id = some t → ∀ i ∈ t.ins, Listed s (i.tx, i.idx) id
  noEmpty : NoEmpty s
  rank : ∀ id t, AMap.get s.pending id = some t → ∀ i ∈ t.ins, rank i.tx < rank id

theorem PendWF.weak {rank : TxId → Nat} {s : Store} (h : PendWF rank s) : WFw rank s :=
  ⟨h.key_id, fun op id t hl hg => by
    obtain ⟨t', ht', hsp⟩ := h.sound op id hl
    rw [hg] at ht'; cases ht'; exact hsp, h.rank⟩

/-- a purge step from a well-formed store ends in a well-formed store -/
theorem PendWF.step {rank : TxId → Nat} {s s' : Store} (h : PendWF rank s) (hst : Step s s') (hne : NoEmpty s') :
    PendWF rank s' := by
  refine ⟨fun id t hg => h.key_id id t (hst.sub.pending_some hg), ?_, ?_, hne,
    fun id t hg => h.rank id t (hst.sub.pending_some hg)⟩
  · intro op id hl
    obtain ⟨t, ht, hsp⟩ := h.sound op id (hst.sub.ins _ _ hl)
    rcases hst.sub.pending_same ht with h' | h'
    · exact ⟨t, h', hsp⟩
    · have hid := h.key_id _ _ ht
      have hc := hst.clean t (by rw [hid]; exact ht) (by rw [Gone, hid]; exact h')
      rw [← hid] at hl
      exact absurd hl (hc.2 op hsp)
  · intro id t hg i hi
    exact hst.intact _ _ (h.complete id t (hst.sub.pending_some hg) i hi) (by rw [hg]; rfl)

/-- the transactions reachable from `tx` through "is a pending spender of an output of" -/
inductive Desc (s : Store) (tx : Tx) : Tx → Prop
  | root : Desc s tx tx
  | step {d e : Tx} : Desc s tx d → Edge s d e → Desc s tx e

theorem Desc.pending {s : Store} {tx d : Tx} (hroot : AMap.get s.pending tx.id = some tx) (h : Desc s tx d) :
    AMap.get s.pending d.id = some d := by
  cases h with
  | root => exact hroot
  | step _ he => obtain ⟨_, _, _, h⟩ := he; exact h

/-- after a purge that removed `tx`, every descendant of `tx` is gone and clean -/
theorem desc_gone {s s' : Store} {tx : Tx} (hroot : AMap.get s.pending tx.id = some tx) (hst : Step s s')
    (hg : Gone s' tx) {d : Tx} (h : Desc s tx d) : Gone s' d ∧ Clean s' d := by
  induction h with
  | root => exact ⟨hg, hst.clean tx hroot hg⟩
  | step hd he ih =>
    have hdp := Desc.pending hroot hd
    have := hst.closed _ _ hdp ih.1 he
    obtain ⟨_, _, _, hep⟩ := he
    exact ⟨this, hst.clean _ hep this⟩

section top
variable (rank : TxId → Nat) (own : Own)

/-- `removeConflict` with the fuel the model passes (or more), from a well-formed store -/
theorem removeConflict_wf (s : Store) (tx : Tx) (hw : PendWF rank s) (hroot : AMap.get s.pending tx.id = some tx)
    (fuel : Nat) (hf : s.pending.length + 1 ≤ fuel) :
    removeConflict own fuel s tx = removeConflict own (s.pending.length + 1) s tx ∧
      Post s tx (removeConflict own fuel s tx) ∧ PendWF rank (removeConflict own fuel s tx) := by
  have hmu : mu rank s tx < s.pending.length + 1 := Nat.lt_succ_of_le (mu_le_length rank s tx)
  obtain ⟨hstab, hpost⟩ := removeConflict_spec rank own (s.pending.length + 1) s tx hw.weak hroot hmu
  rw [hstab fuel hf]
  exact ⟨rfl, hpost, hw.step hpost.step (removeConflict_noEmpty own _ s tx hw.noEmpty)⟩

end top

end MW.Lemmas.LedgerPending
