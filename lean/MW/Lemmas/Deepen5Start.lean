/-
  C06 deepening (round 5), part 3: THE CRASH BRIDGE FOR THE RELAXED REMOVAL STATE.
  Port of round 4's crash bridge (Deepen4Start, `crash_reaches_ij`) from C07's `IJ` to C08's relaxed in-progress
  state `P2W`.  Success of each block transaction is a HYPOTHESIS here (C08 leaves open whether the follower can fail
  on stale entries of the wallet being removed), so the bridge is conditional on Start succeeding.
-/
import MW.Lemmas.Deepen5Handle
namespace MW.Lemmas.Deepen5
open MW MW.Model.Ledger MW.Model.Persist MW.Spec.Persist MW.Spec.Chain MW.Spec.Books MW.Lemmas.Ledger
  MW.Lemmas.PersistOp MW.Lemmas.PersistFault MW.Lemmas.PersistCrash MW.Lemmas.Deepen3 MW.Lemmas.Deepen4

/-- the state of Start between two steps, for `P2W` -/
structure SInvW (st : Static) (ks : AMap.T Wid KsRec) (chain : List Block) (w : Wid) (addrs : List Addr) (own' : Own)
    (s0 : Store) (h : Nat) (P : PStore) (V : PVol) : Prop where
  pks : P.ks = ks
  vkeys : V.keys = ks
  p2w : ∃ g k, MW.Lemmas.RemoveInterleave.P2W ((lenv st ks).ctx chain) w addrs own' g P.led (chain.take (h + 1)) k
  best : V.led.best = tipMeta (chain.take (h + 1))
  lt : h < chain.length
  ready : ∀ ws, readyWallets P.led ws = readyWallets s0 ws

theorem SInvW.syncedTo {st : Static} {ks : AMap.T Wid KsRec} {chain : List Block} {w : Wid} {addrs : List Addr}
    {own' : Own} {s0 : Store} {h : Nat} {P : PStore} {V : PVol} (hS : SInvW st ks chain w addrs own' s0 h P V) :
    P.led.syncedTo = h := by
  obtain ⟨g, k, hP⟩ := hS.p2w
  have h1 : P.led.syncedTo + 1 = (chain.take (h + 1)).length := hP.mid.syncedTo
  rw [List.length_take] at h1
  have := hS.lt
  omega

/-- `block_p2w` in the shape the loops of Start use -/
theorem start_block_p2w {st : Static} {G : Block} (E : StaticOK st G) {ks : AMap.T Wid KsRec} {chain X : List Block}
    (hN : ChainOK (lenv st ks) G chain) (hX : ChainOK (lenv st ks) G X) (n : Nat) {s0 : Store} {P : PStore} {V : PVol}
    {w : Wid} {addrs : List Addr} {own' : Own} {g : Store} {kk : Nat} (hks : P.ks = ks) (hkeys : V.keys = ks)
    (hS : MW.Lemmas.RemoveInterleave.Static ((lenv st ks).ctx chain) w addrs own')
    (hP : MW.Lemmas.RemoveInterleave.P2W ((lenv st ks).ctx chain) w addrs own' g P.led X kk)
    (hv : V.led.best = tipMeta X)
    (hr : ∀ ws, readyWallets P.led ws = readyWallets s0 ws) {b : Block} {h : Nat} (hb : chain[h]? = some b)
    (hok : ((opBlock (envAt st chain) n b).run none P V).ok = true) :
    SInvW st ks chain w addrs own' s0 h ((opBlock (envAt st chain) n b).run none P V).P
      ((opBlock (envAt st chain) n b).run none P V).V := by
  have hbh : b.height = h := hN.good.height_at hb
  have hlt : h < chain.length := (List.getElem?_eq_some_iff.1 hb).1
  obtain ⟨o1, o2, _, o4, o5, o6⟩ := block_p2w E hN hX n hkeys hS hP hv (b := b) (by rw [hbh]; exact hb) hok
  rw [hbh] at o4 o5
  exact ⟨o1.trans hks, o2.trans hkeys, o4, o5, hlt, fun ws => (o6 ws).trans (hr ws)⟩

/-- the catch-up loop of Start for `P2W`: IF it succeeds, it ends on the node's whole chain -/
theorem catchUp_reaches_p2w {st : Static} {G : Block} (E : StaticOK st G) {ks : AMap.T Wid KsRec} {chain : List Block}
    (hN : ChainOK (lenv st ks) G chain) (n : Nat) {w : Wid} {addrs : List Addr} {own' : Own} {s0 : Store}
    (hSt : MW.Lemmas.RemoveInterleave.Static ((lenv st ks).ctx chain) w addrs own') :
    ∀ (fuel h : Nat) (P : PStore) (V : PVol) (k0 : Nat), SInvW st ks chain w addrs own' s0 h P V →
      chain.length + 1 ≤ fuel + (h + 1) →
      (catchUp (envAt st chain) n fuel (h + 1) P V k0).ok = true →
      SInvW st ks chain w addrs own' s0 (chain.length - 1) (catchUp (envAt st chain) n fuel (h + 1) P V k0).P
        (catchUp (envAt st chain) n fuel (h + 1) P V k0).V := by
  intro fuel
  induction fuel with
  | zero =>
    intro h P V k0 hS hf
    have := hS.lt
    omega
  | succ fuel ih =>
    intro h P V k0 hS hf hok
    have htip : (envAt st chain).node.tipHeight = chain.length - 1 := rfl
    unfold catchUp at hok ⊢
    by_cases hgt : h + 1 > (envAt st chain).node.tipHeight
    · rw [if_pos hgt]
      have hl := hS.lt
      have he : chain.length - 1 = h := by rw [htip] at hgt; omega
      rw [he]
      exact hS
    · rw [if_neg hgt] at hok ⊢
      have hlt : h + 1 < chain.length := by rw [htip] at hgt; have := hS.lt; omega
      have hb : (envAt st chain).node.blockAt (h + 1) = some (chain[h + 1]'hlt) := List.getElem?_eq_getElem hlt
      simp only [hb] at hok ⊢
      cases hr : ((opBlock (envAt st chain) n (chain[h + 1]'hlt)).run none P V).ok with
      | false =>
        rw [hr] at hok
        simp at hok
      | true =>
        rw [hr] at hok
        rw [if_pos rfl] at hok
        rw [if_pos rfl]
        obtain ⟨g, k, hP⟩ := hS.p2w
        have o3 := start_block_p2w E hN (hN.take h) n hS.pks hS.vkeys hSt hP hS.best hS.ready
          (b := chain[h + 1]'hlt) (h := h + 1) (List.getElem?_eq_getElem hlt) hr
        exact ih (h + 1) _ _ _ o3 (by omega) hok

/-- what boot reconstructs from a store in the relaxed state for `X` -/
theorem boot_best_p2w {c : Ctx} {w : Wid} {addrs : List Addr} {own' : Own} {g : Store} {kk : Nat} {P : PStore}
    {X : List Block} (hP : MW.Lemmas.RemoveInterleave.P2W c w addrs own' g P.led X kk) (hG : GoodChain X) :
    (bootVol P).led.best = tipMeta X ∧ ∃ x, X[P.led.syncedTo]? = some x ∧ (bootVol P).led.best.hash = x.id ∧
      P.led.syncedTo + 1 = X.length := by
  obtain ⟨x, hx, ht⟩ := tipMeta_good hG
  have hlen : P.led.syncedTo + 1 = X.length := hP.mid.syncedTo
  have hpos := hG.length_pos
  have he : P.led.syncedTo = X.length - 1 := by omega
  have hs0 : ∀ h, AMap.get P.led.sync h = syncOf X h := hP.mid.sync
  have hsync : AMap.get P.led.sync P.led.syncedTo = some x.id := by
    rw [hs0, syncOf, he, hx]; rfl
  have hb : (bootVol P).led.best = ⟨P.led.syncedTo, x.id⟩ := by
    simp [bootVol, hsync]
  refine ⟨by rw [hb, ht, he], x, by rw [he]; exact hx, by rw [hb], hlen⟩

/-- Start's resync step on a freshly booted wallet whose store is in the relaxed state for ANY stored chain `X` -/
theorem resync_reaches_p2w {st : Static} {G : Block} (E : StaticOK st G) {ks : AMap.T Wid KsRec} {chain X : List Block}
    (hN : ChainOK (lenv st ks) G chain) (hX : ChainOK (lenv st ks) G X) (n : Nat) {P : PStore} {w : Wid}
    {addrs : List Addr} {own' : Own} {g : Store} {kk : Nat}
    (hks : P.ks = ks)
    (hSt : MW.Lemmas.RemoveInterleave.Static ((lenv st ks).ctx chain) w addrs own')
    (hP : MW.Lemmas.RemoveInterleave.P2W ((lenv st ks).ctx chain) w addrs own' g P.led X kk)
    (hok : (resync (envAt st chain) n P (bootVol P)).ok = true) :
    ∃ h, SInvW st ks chain w addrs own' P.led h (resync (envAt st chain) n P (bootVol P)).P
      (resync (envAt st chain) n P (bootVol P)).V := by
  obtain ⟨hbest, x, hxs, hxid, hlen⟩ := boot_best_p2w hP hX.good
  have hkeys : (bootVol P).keys = ks := hks
  have hposN := hN.good.length_pos
  have htip : (envAt st chain).node.tipHeight = chain.length - 1 := rfl
  unfold resync at hok ⊢
  by_cases h0 : P.led.syncedTo = 0
  · rw [if_pos h0]
    have h1 : X.take 1 = chain.take 1 := (reorgHyp_of hN hX).take1
    have h2 : X.take 1 = X := List.take_of_length_le (by omega)
    refine ⟨0, hks, hkeys, ⟨g, kk, ?_⟩, ?_, hposN, fun _ => rfl⟩
    · rw [← h1, h2]; exact hP
    · rw [← h1, h2]; exact hbest
  · rw [if_neg h0] at hok ⊢
    have hat : min P.led.syncedTo (envAt st chain).node.tipHeight < chain.length := by
      rw [htip]; have := Nat.min_le_right P.led.syncedTo (chain.length - 1); omega
    have hb : (envAt st chain).node.blockAt (min P.led.syncedTo (envAt st chain).node.tipHeight) =
        some (chain[min P.led.syncedTo (envAt st chain).node.tipHeight]'hat) := List.getElem?_eq_getElem hat
    simp only [hb] at hok ⊢
    by_cases hst : min P.led.syncedTo (envAt st chain).node.tipHeight < P.led.syncedTo ∨
        (chain[min P.led.syncedTo (envAt st chain).node.tipHeight]'hat).id ≠ (bootVol P).led.best.hash
    · rw [if_pos hst] at hok ⊢
      have o3 := start_block_p2w E hN hX n hks hkeys hSt hP hbest (s0 := P.led) (fun _ => rfl)
        (b := chain[min P.led.syncedTo (envAt st chain).node.tipHeight]'hat) (List.getElem?_eq_getElem hat) hok
      exact ⟨_, o3⟩
    · rw [if_neg hst]
      simp only [not_or, Nat.not_lt, ne_eq, Decidable.not_not] at hst
      obtain ⟨hge, hid⟩ := hst
      have hmin : min P.led.syncedTo (envAt st chain).node.tipHeight = P.led.syncedTo :=
        Nat.le_antisymm (Nat.min_le_left _ _) hge
      have hlt : P.led.syncedTo < chain.length := by rw [← hmin]; exact hat
      have hy : chain[P.led.syncedTo]? = some (chain[min P.led.syncedTo (envAt st chain).node.tipHeight]'hat) := by
        rw [List.getElem?_eq_getElem hlt]; congr 1; simp only [hmin]
      have hinj : IdInj (X ++ chain) := (reorgHyp_of hN hX).inj
      have hpre := prefix_of_id hX.good hN.good hinj P.led.syncedTo x _ hxs hy (by rw [hid, hxid])
      have hSt' : X.take (P.led.syncedTo + 1) = X := List.take_of_length_le (by omega)
      rw [hSt'] at hpre
      refine ⟨P.led.syncedTo, hks, hkeys, ⟨g, kk, ?_⟩, ?_, hlt, fun _ => rfl⟩
      · rw [← hpre]; exact hP
      · rw [← hpre]; exact hbest

/-- Start succeeds only if its resync step does -/
theorem start_ok_inv {env : Model.Persist.Env} {n : Nat} {P : PStore} {V : PVol} (h : (start env n P V).ok = true) :
    (resync env n P V).ok = true := by
  unfold start at h
  cases hr : (resync env n P V).ok with
  | true => rfl
  | false =>
    simp only [hr, Bool.not_false, if_true] at h
    exact h

/-- Start after the resync step with a ready wallet: no fast-forward; it succeeds only if the catch-up loop does -/
theorem startCore_ok_inv {env : Model.Persist.Env} {n : Nat} {P : PStore} {V : PVol} {k0 : Nat}
    (hready : (readyWallets P.led (walletsOf V.keys)).isEmpty = false)
    (h : (startCore env n P V k0).ok = true) :
    (catchUp env n (env.node.tipHeight + 1) (P.led.syncedTo + 1) P V k0).ok = true := by
  unfold startCore at h
  simp only [hready, Bool.not_false, Bool.not_true, Bool.false_and, Bool.false_eq_true, if_false] at h
  cases hr : (catchUp env n (env.node.tipHeight + 1) (P.led.syncedTo + 1) P V k0).ok with
  | true => rfl
  | false =>
    simp only [hr, Bool.not_false, if_true] at h
    exact h

/-- **the bridge for the relaxed removal state**: a process crash of a wallet whose store is in C08's relaxed
    in-progress state for ANY stored chain `X`; IF Start succeeds (C08 leaves open whether the follower can fail on
    stale entries of the wallet being removed) then it ends in the relaxed state for the node's WHOLE chain -/
theorem crash_reaches_p2w {st : Static} {G : Block} (E : StaticOK st G) {ks : AMap.T Wid KsRec} {chain X : List Block}
    (hN : ChainOK (lenv st ks) G chain) (hX : ChainOK (lenv st ks) G X) (n : Nat) {P : PStore} {w : Wid}
    {addrs : List Addr} {own' : Own} {g : Store} {kk : Nat}
    (hks : P.ks = ks)
    (hS : MW.Lemmas.RemoveInterleave.Static ((lenv st ks).ctx chain) w addrs own')
    (hP : MW.Lemmas.RemoveInterleave.P2W ((lenv st ks).ctx chain) w addrs own' g P.led X kk)
    (hrne : (readyWallets P.led (walletsOf ks)).isEmpty = false)
    (hok : (Model.Persist.crash (envAt st chain) n P).ok = true) :
    (Model.Persist.crash (envAt st chain) n P).P.ks = ks ∧
    (Model.Persist.crash (envAt st chain) n P).V.keys = ks ∧
    (∃ g' k', MW.Lemmas.RemoveInterleave.P2W ((lenv st ks).ctx chain) w addrs own' g'
      (Model.Persist.crash (envAt st chain) n P).P.led chain k') ∧
    (Model.Persist.crash (envAt st chain) n P).V.led.best = tipMeta chain ∧
    (Model.Persist.crash (envAt st chain) n P).V.tasks = requeue (Model.Persist.crash (envAt st chain) n P).P ∧
    (∀ l, readyWallets (Model.Persist.crash (envAt st chain) n P).P.led l = readyWallets P.led l) := by
  have hsok : (start (envAt st chain) n P (bootVol P)).ok = true := hok
  have r1 : (resync (envAt st chain) n P (bootVol P)).ok = true := start_ok_inv hsok
  obtain ⟨h, hS0⟩ := resync_reaches_p2w E hN hX n hks hS hP r1
  have hsync := hS0.syncedTo
  have hready : (readyWallets (resync (envAt st chain) n P (bootVol P)).P.led
      (walletsOf (resync (envAt st chain) n P (bootVol P)).V.keys)).isEmpty = false := by
    rw [hS0.ready, hS0.vkeys]; exact hrne
  have hcore : (startCore (envAt st chain) n (resync (envAt st chain) n P (bootVol P)).P
      (resync (envAt st chain) n P (bootVol P)).V (resync (envAt st chain) n P (bootVol P)).commits).ok = true := by
    have := hsok
    unfold start at this
    simp only [r1, Bool.not_true, Bool.false_eq_true, if_false] at this
    exact this
  have c1 := startCore_ok_inv hready hcore
  rw [hsync] at c1
  have hposN := hN.good.length_pos
  have c3 := catchUp_reaches_p2w E hN n hS ((envAt st chain).node.tipHeight + 1) h _ _
    (resync (envAt st chain) n P (bootVol P)).commits hS0 (by
      have : (envAt st chain).node.tipHeight = chain.length - 1 := rfl
      omega) c1
  have hstart : start (envAt st chain) n P (bootVol P) =
      { catchUp (envAt st chain) n ((envAt st chain).node.tipHeight + 1) (h + 1)
          (resync (envAt st chain) n P (bootVol P)).P (resync (envAt st chain) n P (bootVol P)).V
          (resync (envAt st chain) n P (bootVol P)).commits with
        V := { (catchUp (envAt st chain) n ((envAt st chain).node.tipHeight + 1) (h + 1)
          (resync (envAt st chain) n P (bootVol P)).P (resync (envAt st chain) n P (bootVol P)).V
          (resync (envAt st chain) n P (bootVol P)).commits).V with
          tasks := requeue (catchUp (envAt st chain) n ((envAt st chain).node.tipHeight + 1) (h + 1)
          (resync (envAt st chain) n P (bootVol P)).P (resync (envAt st chain) n P (bootVol P)).V
          (resync (envAt st chain) n P (bootVol P)).commits).P } } := by
    unfold start
    simp only [r1, Bool.not_true, Bool.false_eq_true, if_false]
    unfold startCore
    simp only [hready, Bool.not_false, Bool.not_true, Bool.false_and, Bool.false_eq_true, if_false, hsync, c1]
  have htake : chain.take (chain.length - 1 + 1) = chain := List.take_of_length_le (by omega)
  have hp2w := c3.p2w
  have hbest := c3.best
  rw [htake] at hp2w hbest
  unfold Model.Persist.crash
  rw [hstart]
  exact ⟨c3.pks, c3.vkeys, hp2w, hbest, rfl, c3.ready⟩

end MW.Lemmas.Deepen5
