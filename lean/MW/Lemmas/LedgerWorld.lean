/-
  The histories C01 quantifies over: node events (extend, reorganise to any branch) interleaved in any
  order with handler steps, each of which processes the OLDEST queued tip notification against the node's
  chain as it is at that moment.
-/
import MW.Lemmas.LedgerChainDefs
namespace MW.Lemmas.Ledger
open MW MW.Model.Ledger MW.Spec.Chain MW.Spec.Books

/-- node + notification queue + wallet (persistent store, follower's volatile state) -/
structure World where
  chain : List Block            -- the node's best chain (genesis first)
  queue : List Block := []      -- tip notifications not yet handled (oldest first)
  s : Store
  v : Vol

inductive Ev
  | extend (b : Block)                    -- the node attaches `b` on its tip and announces it
  | reorgTo (k : Nat) (bs : List Block)   -- the node detaches its `k` top blocks, attaches `bs`, announces each
  | handle                                -- the follower handles the oldest queued notification
  deriving Inhabited

/-- static part of the context: parameters, keystore view, wallets, the block files (every block ever defined) -/
structure Env where
  p : Params
  own : Own
  wallets : List Wid
  known : AMap.T BlkId Block

def Env.ctx (e : Env) (chain : List Block) : Ctx :=
  { p := e.p, own := e.own, wallets := e.wallets, node := { chain := chain, known := e.known } }

def stepW (e : Env) (w : World) : Ev → World
  | .extend b => { w with chain := w.chain ++ [b], queue := w.queue ++ [b] }
  | .reorgTo k bs => { w with chain := w.chain.take (w.chain.length - k) ++ bs, queue := w.queue ++ bs }
  | .handle =>
    match w.queue with
    | [] => w
    | b :: q =>
      let r := processBlock (e.ctx w.chain) w.s w.v b
      { w with queue := q, s := r.1, v := r.2.1 }

def runW (e : Env) (w : World) (evs : List Ev) : World := evs.foldl (stepW e) w

/-- the node's chain after each prefix of the history -/
def chainsOf (e : Env) (w : World) : List Ev → List (List Block)
  | [] => [w.chain]
  | ev :: evs => w.chain :: chainsOf e (stepW e w ev) evs

end MW.Lemmas.Ledger
