/-
  C19, ghost state: the hypotheses of `no_ExistsUtxo_fault` are jointly satisfiable. World: the store reached by the
  worked reorganisation history of MW.Lemmas.LedgerHistoryEx (as in MW.Lemmas.ApiBackedEx); every non-nil `prevTx`
  denotes a transaction without outputs that is not on the chain; the oracle answers every shadow call with nil /
  0 and ExistsUtxo by the model function. On that store the model function does find the coinbase credit (c1, 0).
-/
import MW.Lemmas.ApiGhostUtxo
import MW.Lemmas.ApiBackedEx
namespace MW.Lemmas.ApiGhostUtxo
open MW MW.Model.Api MW.Lemmas.ApiContracts MW.Lemmas.ApiGhost MW.Lemmas.ApiBacked MW.Model.Ledger MW.Model.ApiLedger

def exNoOuts : Tx := ⟨"zz", false, [], []⟩

theorem exPend : exStore.pendCred.all (fun e => e.1.1 != "zz") = true := by decide +kernel

theorem get_none_of_all : ∀ (m : AMap.T (TxId × Nat) Credit), m.all (fun e => e.1.1 != "zz") = true → ∀ i,
    AMap.get m ("zz", i) = none := by
  intro m
  induction m with
  | nil => intro _ i; rfl
  | cons a m ih =>
    intro h i
    simp only [List.all_cons, Bool.and_eq_true] at h
    rw [AMap.get_cons]
    have : a.1 ≠ ("zz", i) := by
      intro e
      have := h.1
      rw [e] at this
      simp at this
    simp only [this, if_false]
    exact ih h.2 i

def exWorld : UtxoWorld where
  c := exCtx
  s := exStore
  chain := exChain
  cur := "w1"
  obj := fun _ => exNoOuts
  inv := exInv
  valid := exValid
  ids := by
    intro _
    show ∀ oc ∈ MW.Spec.Books.occs exChain, exNoOuts.id = oc.t.id → exNoOuts = oc.t
    decide
  pend := by
    intro p i h
    have : AMap.get exStore.pendCred ("zz", i) = none := get_none_of_all _ exPend i
    change (AMap.get exStore.pendCred ("zz", i)).isSome = true at h
    rw [this] at h; cases h

def ghostOracle : Oracle := fun f σ =>
  if f = "w.txStore.ExistsUtxo" then
    (if σ (V "prevTx") = 0 then [0, E.notFound]
     else existsUtxoAnswer E.notFound (existsUtxo exStore "w1" "zz" (σ (V "vout"))))
  else []

theorem setMany_nil_mem : ∀ (outs : List Var) (σ : State) (x : Var), x ∈ outs → setMany σ outs [] x = 0 := by
  intro outs
  induction outs with
  | nil => intro σ x h; cases h
  | cons y ys ih =>
    intro σ x h
    simp only [setMany]
    by_cases hx : x ∈ ys
    · exact ih _ _ hx
    · have : x = y := by
        rcases List.mem_cons.1 h with h | h
        · exact h
        · exact absurd h hx
      subst this
      rw [setMany_other x ys _ _ hx]; simp [State.set]

theorem shadow_writes_len : shadowCalls.all (fun c => c.2.1.contains (V "prevTx.TxOut")) = true := by decide +kernel

theorem shadow_not_utxo : shadowCalls.all (fun c => c.1 != "w.txStore.ExistsUtxo") = true := by decide +kernel

theorem ghostOracle_shadow : Shadow ghostOracle exWorld := by
  intro c hc σ _ _
  have h1 := List.all_eq_true.1 shadow_writes_len c hc
  have h2 := List.all_eq_true.1 shadow_not_utxo c hc
  have hne : c.1 ≠ "w.txStore.ExistsUtxo" := by simpa using h2
  have : ghostOracle c.1 σ = [] := by simp [ghostOracle, hne]
  rw [this, setMany_nil_mem _ _ _ (List.contains_iff_mem.1 h1)]
  rfl

theorem ghostOracle_backed : UtxoBacked ghostOracle exWorld := by
  intro σ; simp [ghostOracle]; rfl

/-- the initial state of a request satisfies the invariant -/
theorem GU_init (W : UtxoWorld) : GU W (fun _ => 0) := by intro h; exact absurd rfl h

/-- on the worked store the model function finds the coinbase credit (c1, 0) unspent, and nothing at index 1 -/
theorem exUtxo0 : existsUtxo exStore "w1" "c1" 0 = 0 := by decide +kernel
theorem exUtxo1 : existsUtxo exStore "w1" "c1" 1 = 2 := by decide +kernel

end MW.Lemmas.ApiGhostUtxo
