/-
  WELL-FORMEDNESS OF THE UNSPENT INDEX (part 1): the keys of the list `s.unspent` stay pairwise distinct
  under everything the follower does on the connect side.  `coinsOf` reads that LIST (not the map it
  denotes), so the observation theorems need this structural fact; here it is shown to be an invariant of
  the model, so that it only has to be assumed of the initial store.

  Generic part: loops in `M = Except Err` preserve (on success) every predicate their steps preserve.
-/
import MW.Lemmas.LedgerHistory2
namespace MW.Lemmas.Ledger
open MW MW.Model.Ledger MW.Spec.Chain MW.Spec.Books

-- ------------------------------------------------------------------ loops in `M`

theorem M_bind_ok {α β : Type} {x : M α} {f : α → M β} {b : β} (h : (x >>= f) = .ok b) :
    ∃ a, x = .ok a ∧ f a = .ok b := by
  cases x with
  | error e => cases h
  | ok a => exact ⟨a, rfl, h⟩

/-- `List.foldlM` in `M`: a predicate preserved by every successful step is preserved by a successful loop -/
theorem foldlM_preserves {α β : Type} (Q : β → Prop) (f : β → α → M β) (l : List α)
    (hf : ∀ b a b', a ∈ l → Q b → f b a = .ok b' → Q b') {b b' : β}
    (hb : Q b) (h : l.foldlM f b = .ok b') : Q b' := by
  induction l generalizing b with
  | nil =>
    have : b = b' := by simpa using h
    exact this ▸ hb
  | cons a l ih =>
    rw [List.foldlM_cons] at h
    obtain ⟨b1, h1, h2⟩ := M_bind_ok h
    exact ih (fun b a' b' ha' => hf b a' b' (List.mem_cons_of_mem _ ha'))
      (hf b a b1 (List.mem_cons_self ..) hb h1) h2

/-- the model's indexed loop `foldIdxM`: the same -/
theorem foldIdxM_preserves {α β : Type} (Q : β → Prop) (f : β → Nat → α → M β) (l : List α)
    (hf : ∀ b i a b', a ∈ l → Q b → f b i a = .ok b' → Q b') {i : Nat} {b b' : β}
    (hb : Q b) (h : foldIdxM f l i b = .ok b') : Q b' := by
  induction l generalizing i b with
  | nil =>
    have : b = b' := by simpa using h
    exact this ▸ hb
  | cons a l ih =>
    rw [foldIdxM_cons] at h
    obtain ⟨b1, h1, h2⟩ := M_bind_ok h
    exact ih (fun b i a' b' ha' => hf b i a' b' (List.mem_cons_of_mem _ ha'))
      (hf b i a b1 (List.mem_cons_self ..) hb h1) h2

/-- loops whose accumulator carries the store: `π` projects it out (`Store`, `Store × Bals`,
    `(Store × Bals) × List _`, `RbAcc`, … ) -/
theorem foldlM_preserves_store {α β : Type} (π : β → Store) (Q : Store → Prop) (f : β → α → M β) (l : List α)
    (hf : ∀ b a b', a ∈ l → Q (π b) → f b a = .ok b' → Q (π b')) {b b' : β}
    (hb : Q (π b)) (h : l.foldlM f b = .ok b') : Q (π b') :=
  foldlM_preserves (fun x => Q (π x)) f l hf hb h

theorem foldIdxM_preserves_store {α β : Type} (π : β → Store) (Q : Store → Prop) (f : β → Nat → α → M β)
    (l : List α) (hf : ∀ b i a b', a ∈ l → Q (π b) → f b i a = .ok b' → Q (π b')) {i : Nat} {b b' : β}
    (hb : Q (π b)) (h : foldIdxM f l i b = .ok b') : Q (π b') :=
  foldIdxM_preserves (fun x => Q (π x)) f l hf hb h

/-- a pure loop that never writes the unspent index -/
theorem foldl_unspent_eq {α : Type} (f : Store → α → Store) (l : List α) (s : Store)
    (h : ∀ s a, a ∈ l → (f s a).unspent = s.unspent) : (l.foldl f s).unspent = s.unspent := by
  induction l generalizing s with
  | nil => rfl
  | cons a l ih =>
    rw [List.foldl_cons, ih _ (fun s a' ha' => h s a' (List.mem_cons_of_mem _ ha'))]
    exact h s a (List.mem_cons_self ..)

-- ------------------------------------------------------------------ the mined side

theorem wf_spendOne {tr : TxRec} {blk : BlockMeta} {sb sb' : Store × Bals} {rel : Rel}
    (hq : KeysNodup sb.1.unspent) (h : spendOne tr blk sb rel = .ok sb') : KeysNodup sb'.1.unspent := by
  unfold spendOne at h
  repeat' split at h
  all_goals cases h
  exact keysNodup_erase hq _

theorem wf_updateMinedBalance {s : Store} {bals : Bals} {tr : TxRec} {blk : BlockMeta} {sb' : Store × Bals}
    (hq : KeysNodup s.unspent) (h : updateMinedBalance s bals tr blk = .ok sb') : KeysNodup sb'.1.unspent :=
  foldlM_preserves_store (·.1) (fun s => KeysNodup s.unspent) _ _
    (fun _ _ _ _ hb hf => wf_spendOne hb hf) (b := (s, bals)) hq h

theorem wf_creditOne {p : Params} {tr : TxRec} {blk : BlockMeta} {sb sb' : Store × Bals} {rel : Rel}
    (hq : KeysNodup sb.1.unspent) (h : creditOne p tr blk sb rel = .ok sb') : KeysNodup sb'.1.unspent := by
  unfold creditOne at h
  split at h
  · cases h
  · have := Except.ok.inj h; subst this; exact keysNodup_put hq _ _

theorem gameOne_unspent (tr : TxRec) (blk : BlockMeta) (s : Store) (rel : Rel) :
    (gameOne tr blk s rel).unspent = s.unspent := rfl

theorem wf_addCredits {p : Params} {s : Store} {bals : Bals} {tr : TxRec} {blk : BlockMeta}
    {sb' : Store × Bals} (hq : KeysNodup s.unspent) (h : addCredits p s bals tr blk = .ok sb') :
    KeysNodup sb'.1.unspent := by
  unfold addCredits at h
  split at h
  · have := Except.ok.inj h; subst this; exact hq
  · obtain ⟨sb1, h1, h2⟩ := M_bind_ok h
    have hq1 : KeysNodup sb1.1.unspent :=
      foldlM_preserves_store (·.1) (fun s => KeysNodup s.unspent) _ _
        (fun _ _ _ _ hb hf => wf_creditOne hb hf) (b := (s, bals)) hq h1
    have := Except.ok.inj h2; subst this
    show KeysNodup (List.foldl (gameOne tr blk) sb1.1 (gameOuts tr)).unspent
    rw [foldl_unspent_eq _ _ _ (fun s a _ => gameOne_unspent tr blk s a)]
    exact hq1

theorem recordMinedTx_unspent (s : Store) (tr : TxRec) (blk : BlockMeta) :
    (recordMinedTx s tr blk).unspent = s.unspent := rfl

theorem wf_insertMinedTx {own : Own} {s : Store} {bals : Bals} {tr : TxRec} {blk : BlockMeta}
    {r : Store × Bals × Bool} (hq : KeysNodup s.unspent) (h : insertMinedTx own s bals tr blk = .ok r) :
    KeysNodup r.1.unspent := by
  unfold insertMinedTx at h
  split at h
  · have := Except.ok.inj h; subst this; exact hq
  · obtain ⟨sb1, h1, h2⟩ := M_bind_ok h
    have hq1 : KeysNodup sb1.1.unspent :=
      wf_updateMinedBalance (s := recordMinedTx s tr blk) hq h1
    have := Except.ok.inj h2; subst this
    show KeysNodup (removeDoubleSpends own (unpendMined sb1.1 tr.tx) tr).unspent
    rw [(minedEq_removeDoubleSpends own _ tr).unspent, (minedEq_unpendMined _ tr.tx).unspent]
    exact hq1

theorem wf_addRelevantMined {p : Params} {own : Own} {s : Store} {bals : Bals} {tr : TxRec} {blk : BlockMeta}
    {sb' : Store × Bals} (hq : KeysNodup s.unspent) (h : addRelevantMined p own s bals tr blk = .ok sb') :
    KeysNodup sb'.1.unspent := by
  unfold addRelevantMined at h
  obtain ⟨r, h1, h2⟩ := M_bind_ok h
  exact wf_addCredits (wf_insertMinedTx hq h1) h2

theorem wf_applyRelevant {c : Ctx} {s s' : Store} {ready : List Wid} {bm : BlockMeta} {relevant : List TxRec}
    (hq : KeysNodup s.unspent) (h : applyRelevant c s ready bm relevant = .ok s') : KeysNodup s'.unspent := by
  unfold applyRelevant at h
  split at h
  · have := Except.ok.inj h; subst this; exact hq
  · obtain ⟨sb1, h1, h2⟩ := M_bind_ok h
    have hq1 : KeysNodup sb1.1.unspent :=
      foldlM_preserves_store (·.1) (fun s => KeysNodup s.unspent) _ _
        (fun _ _ _ _ hb hf => wf_addRelevantMined hb hf)
        (b := (s, List.filter (fun e => ready.contains e.1) s.balance)) hq h1
    have := Except.ok.inj h2; subst this
    exact hq1

theorem wf_putSyncedTo {s s' : Store} {blk : BlockMeta}
    (hq : KeysNodup s.unspent) (h : putSyncedTo s blk = .ok s') : KeysNodup s'.unspent := by
  unfold putSyncedTo at h
  repeat' split at h
  all_goals cases h
  exact hq

theorem wf_filterBlock {c : Ctx} {s : Store} {ready : List Wid} {b : Block} {r : Store × List TxId}
    (hq : KeysNodup s.unspent) (h : filterBlock c s ready b = .ok r) : KeysNodup r.1.unspent := by
  unfold filterBlock at h
  split at h
  · cases h
  · split at h
    · cases h
    · dsimp only at h
      split at h
      all_goals
        obtain ⟨relevant, _, h⟩ := M_bind_ok h
        obtain ⟨s1, h1, h⟩ := M_bind_ok h
        obtain ⟨s2, h2, h⟩ := M_bind_ok h
        have := Except.ok.inj h; subst this
        refine wf_putSyncedTo ?_ h2
        rw [(minedEq_purgeUnrelated c.own s1 _).unspent]
        exact wf_applyRelevant hq h1

theorem wf_connectAll {c : Ctx} {ready : List Wid} : ∀ (bs : List Block) (s : Store)
    (added : List (Nat × List TxId)) (r : Store × List (Nat × List TxId)),
    KeysNodup s.unspent → connectAll c ready bs s added = .ok r → KeysNodup r.1.unspent := by
  intro bs
  induction bs with
  | nil =>
    intro s added r hq h
    unfold connectAll at h
    have := Except.ok.inj h; subst this; exact hq
  | cons b rest ih =>
    intro s added r hq h
    unfold connectAll at h
    obtain ⟨r1, h1, h2⟩ := M_bind_ok h
    exact ih _ _ _ (wf_filterBlock hq h1) h2

end MW.Lemmas.Ledger
