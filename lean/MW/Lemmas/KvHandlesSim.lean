/-
  Round 4, part 3: the abstraction relation between the model with kept handles (Model.KV.SysX) and
  its specification (Spec.KV.SysX), and the one-step simulation.
-/
import MW.Lemmas.KvHandlesCache
namespace MW.Model.KV
open MW MW.KV
open MW.Spec.KV (DB reroot viaShapeOK mutating setIf deadSpec deadViaSpec)

/-! ### relations on registers -/

/-- bucket handles held by the caller ↔ the paths the specification keeps for them -/
structure RegRel (regs : AMap.T Nat Bucket) (sregs : AMap.T Nat Path) : Prop where
  dom : ∀ h, (AMap.get regs h).isSome = (AMap.get sregs h).isSome
  val : ∀ h b p, AMap.get regs h = some b → AMap.get sregs h = some p → pureNav p = some b ∧ b.IsAt p

theorem RegRel.nil : RegRel [] [] := ⟨fun _ => rfl, fun _ _ _ h => by cases h⟩

theorem RegRel.set {regs : AMap.T Nat Bucket} {sregs : AMap.T Nat Path} (hr : RegRel regs sregs) (h : Nat)
    {ob : Option Bucket} {p : Path} {found : Bool} (hf : ob.isSome = found)
    (hv : ∀ b, ob = some b → pureNav p = some b ∧ b.IsAt p) : RegRel (optSet regs h ob) (setIf sregs h p found) := by
  cases ob with
  | none =>
    have : found = false := by rw [← hf]; rfl
    subst this
    simp only [optSet, setIf, Bool.false_eq_true, if_false]
    refine ⟨?_, ?_⟩
    · intro h'; rw [AMap.get_erase, AMap.get_erase]; split
      · rfl
      · exact hr.dom h'
    · intro h' b q h1 h2
      rw [AMap.get_erase] at h1 h2
      by_cases he : h = h'
      · simp [he] at h1
      · simp only [he, if_false] at h1 h2; exact hr.val h' b q h1 h2
  | some b0 =>
    have : found = true := by rw [← hf]; rfl
    subst this
    simp only [optSet, setIf, if_true]
    refine ⟨?_, ?_⟩
    · intro h'; rw [AMap.get_put, AMap.get_put]; split
      · rfl
      · exact hr.dom h'
    · intro h' b q h1 h2
      rw [AMap.get_put] at h1 h2
      by_cases he : h = h'
      · simp only [he, if_true, Option.some.injEq] at h1 h2; subst h1; subst h2; exact hv _ rfl
      · simp only [he, if_false] at h1 h2; exact hr.val h' b q h1 h2

/-- BucketMeta objects held by the caller ↔ the paths they name -/
structure MetaRel (metas : AMap.T Nat (List Bytes)) (smetas : AMap.T Nat Path) : Prop where
  dom : ∀ m, (AMap.get metas m).isSome = (AMap.get smetas m).isSome
  val : ∀ m paths p, AMap.get metas m = some paths → AMap.get smetas m = some p →
    ∃ b, pureNav p = some b ∧ b.IsAt p ∧ paths = b.metaPaths

theorem MetaRel.nil : MetaRel [] [] := ⟨fun _ => rfl, fun _ _ _ h => by cases h⟩

theorem MetaRel.put {metas : AMap.T Nat (List Bytes)} {smetas : AMap.T Nat Path} (hm : MetaRel metas smetas)
    (m : Nat) {b : Bucket} {p : Path} (hb : pureNav p = some b) (hba : b.IsAt p) :
    MetaRel (AMap.put metas m b.metaPaths) (AMap.put smetas m p) := by
  refine ⟨?_, ?_⟩
  · intro m'; rw [AMap.get_put, AMap.get_put]; split
    · rfl
    · exact hm.dom m'
  · intro m' paths q h1 h2
    rw [AMap.get_put] at h1 h2
    by_cases he : m = m'
    · simp only [he, if_true, Option.some.injEq] at h1 h2; subst h1; subst h2; exact ⟨b, hb, hba, rfl⟩
    · simp only [he, if_false] at h1 h2; exact hm.val m' paths q h1 h2

/-- the index key was in the store the transaction reads, or the (write) transaction has put it -/
def EverTx (tx : Tx) (k : Bytes) : Prop :=
  (tx.db.get k).isSome = true ∨ (tx.readOnly = false ∧ (tx.b.puts.get k).isSome = true)

/-- invariant of transaction.cache: an entry is the handle of the bucket its meta names, and that
    bucket's index key was present at some time of this transaction -/
def CacheInv (tx : Tx) (cache : AMap.T Nat Bucket) (smetas : AMap.T Nat Path) : Prop :=
  ∀ m bkt, AMap.get cache m = some bkt →
    ∃ p, AMap.get smetas m = some p ∧ pureNav p = some bkt ∧ bkt.IsAt p ∧ EverTx tx (idxKey p)

theorem CacheInv.nil (tx : Tx) (sm : AMap.T Nat Path) : CacheInv tx [] sm := by
  intro m bkt h; cases h

theorem CacheInv.mono {tx tx' : Tx} {c : AMap.T Nat Bucket} {sm : AMap.T Nat Path} (h : CacheInv tx c sm)
    (hdb : tx'.db = tx.db) (hro : tx'.readOnly = tx.readOnly)
    (hp : ∀ k, (tx.b.puts.get k).isSome = true → (tx'.b.puts.get k).isSome = true) : CacheInv tx' c sm := by
  intro m bkt hg
  obtain ⟨p, h1, h2, h3, h4⟩ := h m bkt hg
  refine ⟨p, h1, h2, h3, ?_⟩
  rcases h4 with h4 | ⟨h4, h5⟩
  · left; rw [hdb]; exact h4
  · right; exact ⟨by rw [hro]; exact h4, hp _ h5⟩

/-- re-assigning meta register `m` (a new object) with its cache entries dropped -/
theorem CacheInv.evict {tx : Tx} {c : AMap.T Nat Bucket} {sm : AMap.T Nat Path} (h : CacheInv tx c sm)
    (m : Nat) (p : Path) : CacheInv tx (AMap.erase c m) (AMap.put sm m p) := by
  intro m' bkt hg
  rw [AMap.get_erase] at hg
  split at hg
  · cases hg
  · rename_i hne
    obtain ⟨q, h1, h2, h3, h4⟩ := h m' bkt hg
    exact ⟨q, by rw [AMap.get_put]; simp [hne, h1], h2, h3, h4⟩

theorem CacheInv.erase {tx : Tx} {c : AMap.T Nat Bucket} {sm : AMap.T Nat Path} (h : CacheInv tx c sm)
    (m : Nat) : CacheInv tx (AMap.erase c m) sm := by
  intro m' bkt hg
  rw [AMap.get_erase] at hg
  split at hg
  · cases hg
  · exact h m' bkt hg

theorem CacheInv.put {tx : Tx} {c : AMap.T Nat Bucket} {sm : AMap.T Nat Path} (h : CacheInv tx c sm)
    (m : Nat) {b : Bucket} {p : Path} (hm : AMap.get sm m = some p) (hb : pureNav p = some b) (hba : b.IsAt p)
    (he : EverTx tx (idxKey p)) : CacheInv tx (AMap.put c m b) sm := by
  intro m' bkt hg
  rw [AMap.get_put] at hg
  split at hg
  · rename_i heq; cases hg; subst heq; exact ⟨p, hm, hb, hba, he⟩
  · exact h m' bkt hg

theorem everTx_of_bucketExists {tx : Tx} {k : Bytes} (h : tx.bucketExists k = true) : EverTx tx k := by
  by_cases hr : tx.readOnly = true
  · left; unfold Tx.bucketExists at h; simpa [hr] using h
  · have hw : tx.readOnly = false := by simpa using hr
    rcases ever_of_bucketExists h with h1 | h1
    · exact Or.inl h1
    · exact Or.inr ⟨hw, h1⟩

theorem bucketExists_of_everTx {tx : Tx} {k : Bytes} (he : EverTx tx k)
    (hd : tx.readOnly = true ∨ (tx.b.get k).2 = false) : tx.bucketExists k = true := by
  by_cases hr : tx.readOnly = true
  · rcases he with he | ⟨he, _⟩
    · unfold Tx.bucketExists; simp [hr, he]
    · rw [hr] at he; cases he
  · have hw : tx.readOnly = false := by simpa using hr
    rcases hd with hd | hd
    · exact absurd hd hr
    · apply bucketExists_of_ever hw _ hd
      rcases he with he | ⟨_, he⟩
      · exact Or.inl he
      · exact Or.inr he

/-! ### BucketMeta round trip -/

theorem getD_last (x : Bytes) : ∀ (p : List Bytes), p ≠ [] → (x :: p).getD p.length [] = lastName p := by
  intro p
  induction p generalizing x with
  | nil => intro h; exact absurd rfl h
  | cons a r ih =>
    intro _
    cases r with
    | nil => rfl
    | cons c d =>
      have := ih a (by simp)
      simp only [List.length_cons, List.getD_cons_succ] at this ⊢
      rw [this]
      unfold lastName
      rw [List.getLast?_cons_cons]

/-- the levelBucket FetchBucket builds from the meta of bucket `b` is `b` again -/
theorem meta_roundtrip {b : Bucket} {p : Path} (hb : pureNav p = some b) (hba : b.IsAt p) :
    ({ name := metaName b.metaPaths, path := join b.metaPaths, depth := metaDepth b.metaPaths } : Bucket) = b := by
  have hsplit : b.metaPaths = itoa p.length :: p := by
    unfold Bucket.metaPaths; rw [hba.path, split_pathBytes hba.noSep]
  have hj : join b.metaPaths = b.path := by
    unfold Bucket.metaPaths join split; exact joinSep_splitSep sep b.path
  have hd : metaDepth b.metaPaths = b.depth := by
    rw [hsplit, hba.depth]; unfold metaDepth itoa
    simp only [List.headD_cons]
    exact KV.DecL.ofDigits_render _
  have hn : metaName b.metaPaths = b.name := by
    unfold metaName
    rw [hd, hsplit, hba.depth, pureNav_name hb]
    exact getD_last _ p hba.ne
  rw [hj, hd, hn]

/-- FetchBucket through the cache answers exactly "the bucket the meta names exists in the
    transaction's view", hands out the handle navigation would build, and keeps the cache invariant -/
theorem fetchCached_spec {tx : Tx} {d : DB} (htx : TxRel tx d) {cache : AMap.T Nat Bucket}
    {sm : AMap.T Nat Path} (hci : CacheInv tx cache sm) {m : Nat} {p : Path} (hm : AMap.get sm m = some p)
    {b : Bucket} (hb : pureNav p = some b) (hba : b.IsAt p) :
    (tx.fetchCached cache m b.metaPaths).1 = (if d.has p then some b else none) ∧
    CacheInv tx (tx.fetchCached cache m b.metaPaths).2 sm := by
  have hex := htx.exists_iff p (Or.inl hba.noSep)
  have hkey : indexKey b.path = idxKey p := by rw [hba.path]; rfl
  -- the lookup of a miss
  have hmiss : tx.fetchBucket b.metaPaths (metaName b.metaPaths) (metaDepth b.metaPaths) =
      (if d.has p then some b else none) := by
    unfold Tx.fetchBucket
    simp only
    rw [meta_roundtrip hb hba]
    have hj : join b.metaPaths = b.path := by
      unfold Bucket.metaPaths join split; exact joinSep_splitSep sep b.path
    rw [hj, hkey]
    by_cases he : tx.bucketExists (idxKey p) = true
    · simp [he, has_true_of_mem (hex.mp he)]
    · have : p ∉ d.buckets := fun hm' => he (hex.mpr hm')
      simp [he, has_false_of_not_mem this]
  have hfall : (tx.fetchMiss cache m b.metaPaths).1 = (if d.has p then some b else none) ∧
      CacheInv tx (tx.fetchMiss cache m b.metaPaths).2 sm := by
    unfold Tx.fetchMiss
    rw [hmiss]
    by_cases hh : d.has p = true
    · rw [if_pos hh]
      exact ⟨rfl, hci.put m hm hb hba (everTx_of_bucketExists (hex.mpr ((DB.has_iff d p).mp hh)))⟩
    · rw [if_neg hh]
      exact ⟨rfl, hci.erase m⟩
  unfold Tx.fetchCached
  cases hc : AMap.get cache m with
  | none => exact hfall
  | some bkt =>
    obtain ⟨q, h1, h2, h3, h4⟩ := hci m bkt hc
    rw [hm] at h1; cases h1
    rw [hb] at h2; cases h2
    simp only
    by_cases hdel : (!tx.readOnly && (tx.b.get (indexKey b.path)).2) = true
    · rw [if_pos hdel]; exact hfall
    · rw [if_neg hdel]
      have hd' : tx.readOnly = true ∨ (tx.b.get (idxKey p)).2 = false := by
        rw [← hkey]
        cases hro : tx.readOnly with
        | true => exact Or.inl rfl
        | false => right; simpa [hro] using hdel
      have hexist := bucketExists_of_everTx h4 hd'
      rw [has_true_of_mem (hex.mp hexist)]
      exact ⟨rfl, hci⟩

end MW.Model.KV
