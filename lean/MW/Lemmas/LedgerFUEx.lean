/-
  ADDRESS RECORDS = FIRST-USE HEIGHTS: non-vacuity on computed stores.
    hx history (LedgerHistoryEx): "a2" is first paid by b2 (height 2); the reorganisation to c2 rolls that payment
                                  back and c2 pays "a2" again: the record goes 2 → 0 → 2
    fx history (here):            the node switches from b2 to e2, which pays a stranger: the record of "a2" is
                                  reset to 0 – the address stays listed, unused – while "a1" (paid by b1) keeps 1
    ix history (LedgerIssueEx):   "a3" is issued while a notification is pending and paid by a later block
-/
import MW.Lemmas.LedgerFU5
import MW.Lemmas.LedgerIssueEx
namespace MW.Lemmas.LedgerFU
open MW MW.Model.Ledger MW.Spec.Chain MW.Spec.Books MW.Lemmas.Ledger

/-- the fresh store has no address record: the clause holds for the genesis block -/
theorem fxAddr0 (c : Ctx) : AddrInv c obS0 [hxG] := addrInv_genesis (fun _ => rfl)

-- ------------------------------------------------------------------ hx: first use rolled back and re-established

/-- `addr_correct` on the history with a reorganisation of LedgerHistoryEx -/
theorem hxAddr : AddrInv (hxEnv.ctx [hxG, hxB1, hxC2]) (runW hxEnv hxW0 hxEvs).s [hxG, hxB1, hxC2] := by
  have h := addr_correct hxEnv hxG hxW0 hxEvs hxRunHyp
    ((inv_ctx_irrel (c := obCtx) (c' := hxEnv.ctx [hxG]) rfl rfl rfl).1 obInv0) (fxAddr0 _) rfl rfl hxQueue
  rw [hxChain] at h
  exact h

/-- … and the computed store agrees (evaluation): first use of "a1" at 1, of "a2" at 2 (by c2) -/
example : gA (runW hxEnv hxW0 hxEvs).s ("w1", false, "a1") = 1 ∧
    gA (runW hxEnv hxW0 hxEvs).s ("w1", false, "a2") = 2 ∧
    firstUse [hxG, hxB1, hxC2] false "a1" = 1 ∧ firstUse [hxG, hxB1, hxC2] false "a2" = 2 := by decide

-- ------------------------------------------------------------------ fx: first use rolled back for good

/-- a sibling of `hxB2` that pays a stranger only -/
def fxE2 : Block := ⟨"e2", "b1", 2, [⟨"c5", true, [⟨"", 0, 0⟩], [⟨"x", 50, .std⟩]⟩]⟩

def fxEnv : Env :=
  { p := { cbMaturity := 1 }, own := exOwn, wallets := ["w1"],
    known := [("G", hxG), ("b1", hxB1), ("b2", hxB2), ("e2", fxE2)] }

def fxEvs : List Ev := [.extend hxB1, .extend hxB2, .handle, .handle, .reorgTo 1 [fxE2], .handle]

theorem fxKnown_cases {id : BlkId} {x : Block} (h : AMap.get fxEnv.known id = some x) :
    x = hxG ∨ x = hxB1 ∨ x = hxB2 ∨ x = fxE2 := by
  simp only [fxEnv, AMap.get_cons, AMap.get_nil] at h
  repeat' split at h
  all_goals first | (cases h; simp; done) | cases h

theorem fxOK1 : ChainOK fxEnv hxG [hxG, hxB1, hxB2] :=
  ⟨hxGood3 rfl rfl rfl rfl rfl, by show ChainValid exOwn _; decide, rfl, by
    intro x hx
    simp only [List.mem_cons, List.not_mem_nil, or_false] at hx
    rcases hx with rfl | rfl | rfl <;> rfl⟩

theorem fxOK2 : ChainOK fxEnv hxG [hxG, hxB1, fxE2] :=
  ⟨hxGood3 rfl rfl rfl rfl rfl, by show ChainValid exOwn _; decide, rfl, by
    intro x hx
    simp only [List.mem_cons, List.not_mem_nil, or_false] at hx
    rcases hx with rfl | rfl | rfl <;> rfl⟩

theorem fxChains : chainsOf fxEnv hxW0 fxEvs =
    [[hxG], [hxG, hxB1], [hxG, hxB1, hxB2], [hxG, hxB1, hxB2], [hxG, hxB1, hxB2], [hxG, hxB1, fxE2],
      [hxG, hxB1, fxE2]] := rfl

theorem fxRunHyp : RunHyp fxEnv hxG hxW0 fxEvs where
  genesisOnly := by
    intro id x h h0
    rcases fxKnown_cases h with rfl | rfl | rfl | rfl
    · rfl
    all_goals cases h0
  genesisPrev := by
    intro id x h
    rcases fxKnown_cases h with rfl | rfl | rfl | rfl <;> decide
  chains := by
    intro ch hch
    rw [fxChains] at hch
    simp only [List.mem_cons, List.not_mem_nil, or_false] at hch
    rcases hch with rfl | rfl | rfl | rfl | rfl | rfl | rfl
    · exact fxOK1.take 0
    · exact fxOK1.take 1
    · exact fxOK1
    · exact fxOK1
    · exact fxOK1
    · exact fxOK2
    · exact fxOK2
  reorgNonempty := by
    intro ev hev
    simp only [fxEvs, List.mem_cons, List.not_mem_nil, or_false] at hev
    rcases hev with rfl | rfl | rfl | rfl | rfl | rfl <;> simp [EvOK]
  ready := by
    show AllReady exOwn (readyWallets obS0 obCtx.wallets)
    rw [obReady]; exact obAllReady
  readyNe := by
    show (readyWallets obS0 obCtx.wallets).isEmpty = false
    rw [obReady]; rfl

theorem fxQueue : (runW fxEnv hxW0 fxEvs).queue = [] := rfl
theorem fxChain : (runW fxEnv hxW0 fxEvs).chain = [hxG, hxB1, fxE2] := rfl

/-- `addr_correct` on the history whose reorganisation removes the only payment to "a2" -/
theorem fxAddr : AddrInv (fxEnv.ctx [hxG, hxB1, fxE2]) (runW fxEnv hxW0 fxEvs).s [hxG, hxB1, fxE2] := by
  have h := addr_correct fxEnv hxG hxW0 fxEvs fxRunHyp
    ((inv_ctx_irrel (c := obCtx) (c' := fxEnv.ctx [hxG]) rfl rfl rfl).1 obInv0) (fxAddr0 _) rfl rfl fxQueue
  rw [fxChain] at h
  exact h

/-- … the computed store: the record of "a2" is still there (listed) and 0 again (unused); "a1" keeps 1; while
    b2 was the tip the record of "a2" was 2 -/
example : AMap.get (runW fxEnv hxW0 fxEvs).s.addrs ("w1", false, "a2") = some 0 ∧
    AMap.get (runW fxEnv hxW0 fxEvs).s.addrs ("w1", false, "a1") = some 1 ∧
    AMap.get (runW fxEnv hxW0 (fxEvs.take 4)).s.addrs ("w1", false, "a2") = some 2 ∧
    addrUsed [hxG, hxB1, fxE2] "a2" = false ∧ addrUsed [hxG, hxB1, hxB2] "a2" = true := by decide

-- ------------------------------------------------------------------ ix: an address issued along the way

theorem ixAddr :
    AddrInv ({ ixEnv with own := ixOwn' }.ctx [hxG, hxB1, ixD2]) (runI ixEnv ix0 ixEvs).w.s [hxG, hxB1, ixD2] := by
  have h := addr_correct_issue ixEnv hxG ix0 ixEvs ixRunHypI
    ((inv_ctx_irrel (c := obCtx) (c' := ({ ixEnv with own := exOwn }).ctx [hxG]) rfl rfl rfl).1 obInv0)
    (fxAddr0 _) rfl rfl ixQueue
  rw [ixChain, ixOwn] at h
  exact h.2

/-- the used flag of the issued address "a3" after the history: set, as the chain pays it (`used_flag_issue`;
    the genesis hypothesis comes from `RunHypI.paid`) -/
example : decide (0 < gA (runI ixEnv ix0 ixEvs).w.s ("w1", false, "a3") ∨
    0 < gA (runI ixEnv ix0 ixEvs).w.s ("w1", true, "a3")) = addrUsed (runI ixEnv ix0 ixEvs).w.chain "a3" :=
  (used_flag_issue ixEnv hxG ix0 ixEvs ixRunHypI
    ((inv_ctx_irrel (c := obCtx) (c' := ({ ixEnv with own := exOwn }).ctx [hxG]) rfl rfl rfl).1 obInv0)
    (fxAddr0 _) rfl rfl ixQueue (a := "a3") (w := "w1") (ch := false) (by rw [ixOwn]; rfl)
    (genesis_not_paid_of_issued ixRunHypI (w := "w1") (ch := false) (by simp [ixEvs]))).1

-- ------------------------------------------------------------------ ixL: NewAddress writes its record

/-- the ix history with the issuance as wallet.go NewAddress performs it (record written, standard class) -/
def ixEvsL : List EvL :=
  [.node (.extend hxB1), .issue "a3" "w1" false false, .node .handle, .node (.extend ixD2), .node .handle]

theorem ixRunHypL : RunHypI ixEnv hxG ix0 (ixEvsL.map EvL.toI) := ixRunHypI

/-- `used_flag_listed` on it: "a3" is listed, and flagged used as d2 pays it -/
example : (AMap.get (runL ixEnv ix0 ixEvsL).w.s.addrs ("w1", false, "a3")).isSome = true ∧
    decide (0 < gA (runL ixEnv ix0 ixEvsL).w.s ("w1", false, "a3") ∨
      0 < gA (runL ixEnv ix0 ixEvsL).w.s ("w1", true, "a3")) = addrUsed (runL ixEnv ix0 ixEvsL).w.chain "a3" := by
  have h := used_flag_listed ixEnv hxG ix0 ixEvsL ixRunHypL
    ((inv_ctx_irrel (c := obCtx) (c' := ({ ixEnv with own := exOwn }).ctx [hxG]) rfl rfl rfl).1 obInv0)
    (fxAddr0 _) rfl rfl rfl (a := "a3") (w := "w1") (ch := false) (stk := false) (by simp [ixEvsL]) rfl
  exact ⟨h.1, h.2.1⟩

/-- … the computed store: issued ↦ 0 (listed, unused) before d2 is handled, 2 afterwards -/
example : AMap.get (runL ixEnv ix0 (ixEvsL.take 3)).w.s.addrs ("w1", false, "a3") = some 0 ∧
    AMap.get (runL ixEnv ix0 ixEvsL).w.s.addrs ("w1", false, "a3") = some 2 := by decide

/-- fixed node chain, notifications in any order (`used_flag_fold`): the blocks of the hx chain announced as
    b2 (reorg path: connects b1 and b2), b1 (stale: pure rollback), b2 again -/
example : (foldNotify (hxEnv.ctx [hxG, hxB1, hxB2]) (obS0, { best := ⟨0, "G"⟩ }) [hxB2, hxB1, hxB2]).1.syncedTo = 2 ∧
    gA (foldNotify (hxEnv.ctx [hxG, hxB1, hxB2]) (obS0, { best := ⟨0, "G"⟩ }) [hxB2, hxB1, hxB2]).1
      ("w1", false, "a2") = 2 ∧
    gA (foldNotify (hxEnv.ctx [hxG, hxB1, hxB2]) (obS0, { best := ⟨0, "G"⟩ }) [hxB2, hxB1]).1
      ("w1", false, "a2") = 0 := by decide

/-- the hypotheses of `used_flag_fold` hold for that start -/
theorem hxKInv : KInv hxEnv [hxG, hxB1, hxB2] obS0 { best := ⟨0, "G"⟩ } :=
  ⟨by decide, (inv_ctx_irrel (c := obCtx) (c' := hxEnv.ctx [hxG, hxB1, hxB2]) rfl rfl rfl).1 obInv0, fxAddr0 _, rfl,
    by show AllReady exOwn (readyWallets obS0 obCtx.wallets); rw [obReady]; exact obAllReady,
    by show (readyWallets obS0 obCtx.wallets).isEmpty = false; rw [obReady]; rfl⟩

end MW.Lemmas.LedgerFU
